import FluentProofs.SerializerOutCr2
/-!
# Serializer lemmas, part 24: `finishElements` for any source, after joining `"x"`, `"\n"` (C04)

`joinTop` joins, at the top level of one pattern, every text that does not end with `\n` with a directly
following text, unless the first ends with `\r` and the second starts with `\n` (exactly what
`nPat okSafe` does at the top level).  On the output of `get_pattern` this merges the text in front of
`\r\n` with the `"\n"` element the next iteration pushes; when that text itself ends with a (lone) `\r`
(source `x\r\r\n`) the two stay apart, which is the adjacency `endsCr v && u == [10]` of `mlElems`.
`FinOKC` is `FinOK` for the joined list.
-/
namespace FluentProofs.Ser
open FluentModel FluentModel.Syntax FluentModel.Syntax.Ser FluentProofs.Parser

/-- top-level joining of adjacent texts when nothing would be inserted between them -/
def joinTop : List (PatElem Bytes) → List (PatElem Bytes)
  | [] => []
  | e :: es => joinHead okSafe e (joinTop es)

theorem joinTop_pl (x : Expr Bytes) (es : List (PatElem Bytes)) :
    joinTop (.placeable x :: es) = .placeable x :: joinTop es := by
  simp [joinTop, joinHead]

theorem okSafe_nl {v : Bytes} (h : endsNl v = true) (w : Bytes) : okSafe v w = false := by
  have : ¬ JoinOK v w := by
    intro h0
    simp only [endsNl, beq_iff_eq] at h
    exact h0.2.1 h
  simp [okSafe, this]

theorem okSafe_pend {v : Bytes} (hv : mlTextOK v = true) (h : endsNl v = false) (h13 : endsCr v = false)
    (w : Bytes) : okSafe v w = true := by
  have : JoinOK v w := by
    refine ⟨mlTextOK_ne' hv, by simpa [endsNl] using h, ?_⟩
    intro h0
    simp [endsCr, h0.1] at h13
  simp [okSafe, this]

theorem okSafe_cr {v : Bytes} (h13 : endsCr v = true) : okSafe v [10] = false := by
  have : ¬ JoinOK v [10] := by
    intro h0
    simp only [endsCr, beq_iff_eq] at h13
    exact h0.2.2 ⟨h13, rfl⟩
  simp [okSafe, this]

theorem joinTop_text_nojoin (v : Bytes) (es : List (PatElem Bytes))
    (h : ∀ w R, joinTop es = .text w :: R → okSafe v w = false) :
    joinTop (.text v :: es) = .text v :: joinTop es := by
  simp only [joinTop]
  cases hj : joinTop es with
  | nil => rfl
  | cons x R =>
    cases x with
    | placeable y => rfl
    | text w => simp [joinHead, h w R hj]

theorem joinTop_text_join (v w : Bytes) (es R : List (PatElem Bytes)) (hj : joinTop es = .text w :: R)
    (h : okSafe v w = true) : joinTop (.text v :: es) = .text (v ++ w) :: R := by
  simp [joinTop, hj, joinHead, h]

/-- `FinOK` for the joined list -/
structure FinOKC (s : Src) (c : Option Nat) (E : PSt) (l : List Placeholder) (k : Nat)
    (B : List (PatElem Bytes)) : Prop where
  ml : mlElems (nlOf E) B = true
  last : mlLastOK B = true
  ne : B ≠ []
  exc : excesses (nlOf E) B = (lineInds s E (l.take k)).map (eff c)
  noTextG : E = .afterGhost → ∀ v es, B ≠ .text v :: es
  pendT : E = .afterText → ∀ v es, B = .text v :: es → v = [10]
  firstI : E = .first .initialLineStart → ∀ v es, B = .text v :: es → ∃ x, v.head? = some x ∧ x ≠ 32 ∧ x ≠ 10
  firstL : E = .first .lineStart → ∀ v es, B = .text v :: es → v ≠ [10]

theorem FinOK.toC {s : Src} {c : Option Nat} {E : PSt} {l : List Placeholder} {k : Nat} {B : List (PatElem Bytes)}
    (h : FinOK s c E l k B) : FinOKC s c E l k B :=
  { ml := h.ml, last := h.last, ne := h.ne, exc := h.exc
    noTextG := fun hE => h.noText (Or.inr hE)
    pendT := fun hE v es hB => absurd hB (h.noText (Or.inl hE) v es)
    firstI := h.firstI, firstL := h.firstL }

def TailOKC (s : Src) (c : Option Nat) (lnb i : Nat) (E' : PSt) (rest : List Placeholder)
    (r' : List (PatElem Span)) : Prop :=
  (i = lnb ∧ r' = []) ∨ (i < lnb ∧ FinOKC s c E' rest (lnb - i) (joinTop (mapPat (spanBytes s) r')))

/-- a placeable -/
theorem fin_plC {s : Src} {c : Option Nat} {lnb i : Nat} {E : PSt} {e : Expr Span} {rest : List Placeholder}
    {r' : List (PatElem Span)} (hi : i ≤ lnb) (hT : TailOKC s c lnb i .afterPl rest r') :
    FinOKC s c E (.placeable e :: rest) (lnb + 1 - i) (joinTop (mapPat (spanBytes s) (.placeable e :: r'))) := by
  simp only [mapPat, PatElem.mapS, joinTop_pl]
  rcases hT with ⟨rfl, rfl⟩ | ⟨hlt, hF⟩
  · exact (fin_pl (E := E) (e := e) (rest := rest) hi (Or.inl ⟨rfl, rfl⟩)).toC
  · exact {
      ml := by rw [mlElems_pl]; exact hF.ml
      last := by rw [mlLastOK_cons _ _ hF.ne]; exact hF.last
      ne := by simp
      exc := by
        rw [take_cons_k _ _ _ _ hi, excesses_pl, lineInds, List.map_append]
        simp only [nxt]
        rw [← hF.exc]
        simp only [lineInd, nlOf]
        split <;> simp [eff_zero]
      noTextG := by intro _ v es h; cases h
      pendT := by intro _ v es h; cases h
      firstI := by intro _ v es h; cases h
      firstL := by intro _ v es h; cases h }

theorem mlTextOK_snoc10 {v : Bytes} (hv : mlTextOK v = true) (hn : endsNl v = false) (h13 : endsCr v = false) :
    mlTextOK (v ++ [10]) = true := by
  have hne := mlTextOK_ne' hv
  simp only [mlTextOK, Bool.and_eq_true, Bool.not_eq_true', List.isEmpty_eq_false_iff, List.all_eq_true] at hv ⊢
  refine ⟨⟨⟨by simp, ?_⟩, ?_⟩, ?_⟩
  · intro x hx
    simp only [List.mem_append, List.mem_singleton] at hx
    rcases hx with hx | rfl
    · exact hv.1.1.2 x hx
    · decide
  · rw [List.dropLast_concat]
    intro x hx
    have hsplit := List.dropLast_concat_getLast hne
    rw [← hsplit] at hx
    simp only [List.mem_append, List.mem_singleton] at hx
    rcases hx with hx | rfl
    · exact hv.1.2 x hx
    · simp only [endsNl, beq_eq_false_iff_ne, ne_eq] at hn
      simp only [bne_iff_ne, ne_eq]
      intro h0
      apply hn
      rw [List.getLast?_eq_some_getLast hne, h0]
  · simp only [crlfEnd, List.dropLast_concat, Bool.and_eq_false_iff]
    right
    simpa [endsCr] using h13

/-- a text element that is kept and is not the last one (joined with a pending `"\n"`) -/
theorem fin_text_keepC {s : Src} {c : Option Nat} {lnb i : Nat} {E E' : PSt} {ph : Placeholder}
    {rest : List Placeholder} {X : List (PatElem Bytes)} (hi : i < lnb)
    (hF : FinOKC s c E' rest (lnb - i) (joinTop X)) (v : Bytes) (hv : mlTextOK v = true)
    (hnx : nxt s ph = E') (hnl : nlOf E' = endsNl v)
    (hnt : endsNl v = false → E' = .afterText ∨ E' = .afterGhost)
    (hls : nlOf E = true → ∀ B', (v == [10] || lineStartOK v B') = true ∧ lineStartOK (v ++ [10]) B' = true)
    (hexc : (if nlOf E && v != [10] then [leadSpaces v] else []) = (lineInd s E ph).map (eff c))
    (hlead : nlOf E = true → endsNl v = false → leadSpaces (v ++ [10]) = leadSpaces v)
    (hE : E ≠ .afterText ∧ E ≠ .afterGhost)
    (hfI : E = .first .initialLineStart → ∃ x, v.head? = some x ∧ x ≠ 32 ∧ x ≠ 10)
    (hfL : E = .first .lineStart → v ≠ [10]) :
    FinOKC s c E (ph :: rest) (lnb + 1 - i) (joinTop (.text v :: X)) := by
  have hvne := mlTextOK_ne' hv
  -- is the tail led by the pending line feed?
  by_cases hp : ∃ R, joinTop X = .text [10] :: R ∧ endsNl v = false ∧ endsCr v = false
  · obtain ⟨R, hR, hen, hec⟩ := hp
    rw [joinTop_text_join v [10] X R hR (okSafe_pend hv hen hec _)]
    have hE' : E' = .afterText := by
      rcases hnt hen with h | h
      · exact h
      · exact absurd hR (hF.noTextG h [10] R)
    have hml := hF.ml
    rw [hR, mlElems_text] at hml
    simp only [Bool.and_eq_true] at hml
    have hRne : R ≠ [] := by
      intro h0
      have := hF.last
      rw [hR, h0] at this
      simp [mlLastOK] at this
    have hlastR : mlLastOK R = true := by
      have := hF.last
      rwa [hR, mlLastOK_cons _ _ hRne] at this
    have hexcR := hF.exc
    rw [hR, excesses_text, hE'] at hexcR
    have hv2ne : (v ++ [10]) ≠ [10] := by
      intro h0
      have := congrArg List.length h0
      simp at this
      exact hvne this
    exact {
      ml := by
        rw [mlElems_text, mlTextOK_snoc10 hv hen hec]
        have hen2 : endsNl (v ++ [10]) = true := by simp [endsNl]
        rw [hen2]
        simp only [Bool.true_and, Bool.and_eq_true]
        refine ⟨⟨?_, ?_⟩, by simpa [endsNl] using hml.2⟩
        · cases R with
          | nil => rfl
          | cons x xs => cases x <;> rfl
        · cases hn : nlOf E with
          | false => rfl
          | true => simp [(hls hn R).2]
      last := by rw [mlLastOK_cons _ _ hRne]; exact hlastR
      ne := by simp
      exc := by
        rw [take_cons_k _ _ _ _ (Nat.le_of_lt hi), excesses_text, lineInds, List.map_append, hnx, hE']
        have hen2 : endsNl (v ++ [10]) = true := by simp [endsNl]
        rw [hen2]
        have : excesses true R = (lineInds s .afterText (rest.take (lnb - i))).map (eff c) := by
          simpa [endsNl, nlOf] using hexcR
        rw [← this, ← hexc]
        congr 1
        cases hn : nlOf E with
        | false => simp
        | true =>
          have h1 : ((v ++ [10]) != [10]) = true := by simpa using hv2ne
          have h2 : (v != [10]) = true := by
            simp only [bne_iff_ne, ne_eq]
            intro h0; rw [h0] at hen; simp [endsNl] at hen
          simp [h1, h2, hlead hn hen]
      noTextG := fun h => absurd h hE.2
      pendT := fun h => absurd h hE.1
      firstI := by
        intro h w es hw
        cases hw
        obtain ⟨x, hx, h1, h2⟩ := hfI h
        refine ⟨x, ?_, h1, h2⟩
        cases v with
        | nil => simp at hx
        | cons b v' => simpa using hx
      firstL := by intro _ w es hw; cases hw; exact hv2ne }
  · -- no pending line feed, or a pending line feed behind a text that ends with `\r`: the text stays as it is
    have hpend : ∀ w R, joinTop X = .text w :: R → endsNl v = false → w = [10] ∧ endsCr v = true := by
      intro w R hR hen
      rcases hnt hen with h | h
      · have := hF.pendT h w R hR
        subst this
        refine ⟨rfl, ?_⟩
        cases hec : endsCr v with
        | true => rfl
        | false => exact absurd ⟨R, hR, hen, hec⟩ hp
      · exact absurd hR (hF.noTextG h w R)
    have hnoj : ∀ w R, joinTop X = .text w :: R → okSafe v w = false := by
      intro w R hR
      cases hen : endsNl v with
      | true => exact okSafe_nl hen w
      | false =>
        obtain ⟨rfl, hec⟩ := hpend w R hR hen
        exact okSafe_cr hec
    rw [joinTop_text_nojoin v X hnoj]
    exact {
      ml := by
        rw [mlElems_text, hv, ← hnl, hF.ml]
        simp only [Bool.true_and, Bool.and_true, Bool.and_eq_true]
        constructor
        · cases hB : joinTop X with
          | nil => rfl
          | cons x xs =>
            cases x with
            | placeable _ => rfl
            | text w =>
              simp only []
              cases hen : endsNl v with
              | true => rw [hnl]; simp [hen]
              | false =>
                obtain ⟨rfl, hec⟩ := hpend w xs hB hen
                rw [hnl]; simp [hec]
        · cases hn : nlOf E with
          | false => rfl
          | true => simpa using (hls hn _).1
      last := by rw [mlLastOK_cons _ _ hF.ne]; exact hF.last
      ne := by simp
      exc := by
        rw [take_cons_k _ _ _ _ (Nat.le_of_lt hi), excesses_text, lineInds, List.map_append, hnx, ← hF.exc, ← hnl, hexc]
      noTextG := fun h => absurd h hE.2
      pendT := fun h => absurd h hE.1
      firstI := by intro h w es hw; cases hw; exact hfI h
      firstL := by intro h w es hw; cases hw; exact hfL h }

end FluentProofs.Ser
