import FluentProofs.Fallback
/-!
# C16 lemmas, part 2: the batch walks (`format_values_from_inner!`, `format_messages_from_inner!`)

The two batch macros share one shape.  The specification vocabulary is therefore generic in
* `ans k p : Option (ρ × List RE)` — what locale `p` answers for key `k` (result and resolver errors),
* `miss k p` — the entry naming a locale that could not answer,
* `fin k lbs` — the final locale-less entry of a key nobody answered.
-/
namespace FluentProofs.Fallback
open FluentModel.Fallback

variable {I L A N T RE BE ρ : Type}

section generic
variable (ans : Key I A → L × BundleResult I L A N T RE BE → Option (ρ × List RE))
variable (miss : Key I A → L × BundleResult I L A N T RE BE → LocErr I L RE BE)
variable (fin : Key I A → List (L × BundleResult I L A N T RE BE) → LocErr I L RE BE)

/-- the first locale of `l` (in order) that can answer `k`, with its answer -/
def firstAns (k : Key I A) (l : List (L × BundleResult I L A N T RE BE)) :
    Option ((L × BundleResult I L A N T RE BE) × (ρ × List RE)) :=
  l.findSome? fun p => (ans k p).map fun r => (p, r)

/-- some locale of `l` can answer `k` -/
def answeredIn (k : Key I A) (l : List (L × BundleResult I L A N T RE BE)) : Bool :=
  (firstAns ans k l).isSome

/-- the result of key `k` -/
def resultOf (k : Key I A) (l : List (L × BundleResult I L A N T RE BE)) : Option ρ :=
  (firstAns ans k l).map fun pr => pr.2.1

/-- **slot (locale `p`, key `k`)** of the batch error list, when the locales `pre` were walked before
`p`: nothing if one of them already answered `k`; otherwise `p`'s `Resolver` entry if `p` answers (iff
the resolver reported errors), else the entry naming `p` as lacking the message / value.  It depends
only on `k`, `pre` and `p` — not on the other keys of the batch. -/
def roundErrs (k : Key I A) (pre : List (L × BundleResult I L A N T RE BE))
    (p : L × BundleResult I L A N T RE BE) : List (LocErr I L RE BE) :=
  match answeredIn ans k pre with
  | true => []
  | false =>
    match ans k p with
    | some r => resolverEntry k.id p.1 r.2
    | none => [miss k p]

/-- every key is answered within `l` -/
def allAnswered (keys : List (Key I A)) (l : List (L × BundleResult I L A N T RE BE)) : Bool :=
  keys.all fun k => answeredIn ans k l

/-- the locales a batch request walks (each paired with the locales walked before it): in order, up to
and including the first locale after which every key is answered -/
def batchWalk (keys : List (Key I A)) :
    List (L × BundleResult I L A N T RE BE) → List (L × BundleResult I L A N T RE BE) →
    List (List (L × BundleResult I L A N T RE BE) × (L × BundleResult I L A N T RE BE))
  | _, [] => []
  | pre, p :: rest =>
    (pre, p) ::
      match allAnswered ans keys (pre ++ [p]) with
      | true => []
      | false => batchWalk keys (pre ++ [p]) rest

/-- what one walked locale contributes: its carried errors, then one slot per key in key order -/
def walkErrs (keys : List (Key I A))
    (w : List (L × BundleResult I L A N T RE BE) × (L × BundleResult I L A N T RE BE)) :
    List (LocErr I L RE BE) :=
  carriedErrs w.2 ++ keys.flatMap fun k => roundErrs ans miss k w.1 w.2

/-- the final locale-less entry of a key that no locale answered -/
def finalErrs (lbs : List (L × BundleResult I L A N T RE BE)) (k : Key I A) : List (LocErr I L RE BE) :=
  match firstAns ans k lbs with
  | some _ => []
  | none => [fin k lbs]

/-- **Specification of a batch request**: per-key results, errors pushed, bundles consumed -/
def batchSpec (keys : List (Key I A)) (lbs : List (L × BundleResult I L A N T RE BE)) :
    List (Option ρ) × List (LocErr I L RE BE) × Nat :=
  (keys.map fun k => resultOf ans k lbs,
   (batchWalk ans keys [] lbs).flatMap (walkErrs ans miss keys) ++ keys.flatMap (finalErrs ans fin lbs),
   (batchWalk ans keys [] lbs).length)

theorem firstAns_append (k : Key I A) (l₁ l₂ : List (L × BundleResult I L A N T RE BE)) :
    firstAns ans k (l₁ ++ l₂) = (firstAns ans k l₁).or (firstAns ans k l₂) := by
  simp [firstAns, List.findSome?_append]

theorem firstAns_single (k : Key I A) (p : L × BundleResult I L A N T RE BE) :
    firstAns ans k [p] = (ans k p).map fun r => (p, r) := by
  simp [firstAns]

theorem answeredIn_append (k : Key I A) (l₁ l₂ : List (L × BundleResult I L A N T RE BE)) :
    answeredIn ans k (l₁ ++ l₂) = (answeredIn ans k l₁ || answeredIn ans k l₂) := by
  unfold answeredIn
  rw [firstAns_append]
  cases firstAns ans k l₁ <;> simp

theorem answeredIn_single (k : Key I A) (p : L × BundleResult I L A N T RE BE) :
    answeredIn ans k [p] = (ans k p).isSome := by
  simp [answeredIn, firstAns_single]

theorem firstAns_append_of_answered (k : Key I A) (l₁ l₂ : List (L × BundleResult I L A N T RE BE))
    (h : answeredIn ans k l₁ = true) : firstAns ans k (l₁ ++ l₂) = firstAns ans k l₁ := by
  unfold answeredIn at h
  rw [firstAns_append]
  cases hf : firstAns ans k l₁ with
  | none => simp [hf] at h
  | some pf => simp

theorem roundErrs_of_answered (k : Key I A) (pre : List (L × BundleResult I L A N T RE BE))
    (p : L × BundleResult I L A N T RE BE) (h : answeredIn ans k pre = true) :
    roundErrs ans miss k pre p = [] := by
  simp [roundErrs, h]

/-- the walked locales are a prefix of the locale list, and the walk stops early only when every key is
answered -/
theorem batchWalk_prefix (keys : List (Key I A)) (pre rest : List (L × BundleResult I L A N T RE BE)) :
    ∃ tail, rest = (batchWalk ans keys pre rest).map (·.2) ++ tail ∧
      (tail = [] ∨ allAnswered ans keys (pre ++ (batchWalk ans keys pre rest).map (·.2)) = true) := by
  induction rest generalizing pre with
  | nil => exact ⟨[], by simp [batchWalk]⟩
  | cons p rest ih =>
    cases ha : allAnswered ans keys (pre ++ [p]) with
    | true => exact ⟨rest, by simp [batchWalk, ha]⟩
    | false =>
      obtain ⟨tail, h1, h2⟩ := ih (pre ++ [p])
      refine ⟨tail, ?_, ?_⟩
      · simp only [batchWalk, ha, List.map_cons, List.cons_append]
        rw [← h1]
      · simpa [batchWalk, ha] using h2

/-- every walked locale's "before" list extends the starting prefix -/
theorem batchWalk_fst (keys : List (Key I A)) (pre rest : List (L × BundleResult I L A N T RE BE)) :
    ∀ w ∈ batchWalk ans keys pre rest, ∃ l, w.1 = pre ++ l := by
  induction rest generalizing pre with
  | nil => intro w hw; simp [batchWalk] at hw
  | cons p rest ih =>
    intro w hw
    simp only [batchWalk, List.mem_cons] at hw
    rcases hw with rfl | hw
    · exact ⟨[], by simp⟩
    · cases ha : allAnswered ans keys (pre ++ [p]) with
      | true => simp [ha] at hw
      | false =>
        simp only [ha] at hw
        obtain ⟨l, hl⟩ := ih (pre ++ [p]) w hw
        exact ⟨p :: l, by simp [hl]⟩

theorem flatMap_roundErrs_of_answered (keys : List (Key I A)) (k : Key I A)
    (pre rest : List (L × BundleResult I L A N T RE BE)) (h : answeredIn ans k pre = true) :
    (batchWalk ans keys pre rest).flatMap (fun w => roundErrs ans miss k w.1 w.2) = [] := by
  rw [List.flatMap_eq_nil_iff]
  intro w hw
  obtain ⟨l, hl⟩ := batchWalk_fst ans keys pre rest w hw
  apply roundErrs_of_answered
  rw [hl, answeredIn_append, h]; rfl

/-- **attribution**: the slots of key `k` in a batch that contains `k`, concatenated in order, are
exactly the slots of the batch `[k]` — i.e. of the single request for `k` -/
theorem batch_key_slots (keys : List (Key I A)) (k : Key I A) (hk : k ∈ keys)
    (pre rest : List (L × BundleResult I L A N T RE BE)) :
    (batchWalk ans keys pre rest).flatMap (fun w => roundErrs ans miss k w.1 w.2) =
      (batchWalk ans [k] pre rest).flatMap (fun w => roundErrs ans miss k w.1 w.2) := by
  induction rest generalizing pre with
  | nil => simp [batchWalk]
  | cons p rest ih =>
    simp only [batchWalk, List.flatMap_cons]
    congr 1
    cases hk1 : answeredIn ans k (pre ++ [p]) with
    | true =>
      have h1 : allAnswered ans [k] (pre ++ [p]) = true := by simp [allAnswered, hk1]
      simp only [h1]
      cases ha : allAnswered ans keys (pre ++ [p]) with
      | true => rfl
      | false =>
        simp only []
        rw [flatMap_roundErrs_of_answered ans miss keys k _ rest hk1]; rfl
    | false =>
      have h1 : allAnswered ans [k] (pre ++ [p]) = false := by simp [allAnswered, hk1]
      have ha : allAnswered ans keys (pre ++ [p]) = false := by
        cases h : allAnswered ans keys (pre ++ [p]) with
        | false => rfl
        | true =>
          have := (List.all_eq_true.1 h) k hk
          simp [hk1] at this
      simp only [h1, ha]
      exact ih (pre ++ [p])

/-- for the keys of the batch, the walked locales decide exactly as the whole locale list -/
theorem walked_firstAns (keys : List (Key I A)) (lbs : List (L × BundleResult I L A N T RE BE))
    (k : Key I A) (hk : k ∈ keys) :
    firstAns ans k ((batchWalk ans keys [] lbs).map (·.2)) = firstAns ans k lbs ∧
      (firstAns ans k lbs = none → (batchWalk ans keys [] lbs).map (·.2) = lbs) := by
  obtain ⟨tail, h1, h2⟩ := batchWalk_prefix ans keys [] lbs
  rcases h2 with rfl | h2
  · simp at h1
    exact ⟨by rw [← h1], fun _ => h1.symm⟩
  · have hk' : answeredIn ans k ((batchWalk ans keys [] lbs).map (·.2)) = true := by
      simp only [List.nil_append] at h2
      exact (List.all_eq_true.1 h2) k hk
    have h3 := firstAns_append_of_answered ans k _ tail hk'
    rw [← h1] at h3
    refine ⟨h3.symm, fun hnone => ?_⟩
    rw [hnone] at h3
    simp [answeredIn, ← h3] at hk'

theorem flatMap_congr_mem {α β : Type} (l : List α) (f g : α → List β) (h : ∀ a ∈ l, f a = g a) :
    l.flatMap f = l.flatMap g := by
  induction l with
  | nil => rfl
  | cons a l ih =>
    simp only [List.flatMap_cons]
    rw [h a (by simp), ih (fun b hb => h b (by simp [hb]))]

theorem walked_results (keys : List (Key I A)) (lbs : List (L × BundleResult I L A N T RE BE)) :
    (keys.map fun k => resultOf ans k ((batchWalk ans keys [] lbs).map (·.2))) =
      keys.map fun k => resultOf ans k lbs := by
  apply List.map_congr_left
  intro k hk
  simp [resultOf, (walked_firstAns ans keys lbs k hk).1]

theorem walked_finalErrs (keys : List (Key I A)) (lbs : List (L × BundleResult I L A N T RE BE)) :
    keys.flatMap (finalErrs ans fin ((batchWalk ans keys [] lbs).map (·.2))) =
      keys.flatMap (finalErrs ans fin lbs) := by
  apply flatMap_congr_mem
  intro k hk
  obtain ⟨h1, h2⟩ := walked_firstAns ans keys lbs k hk
  unfold finalErrs
  rw [h1]
  cases hf : firstAns ans k lbs with
  | some pr => rfl
  | none => simp [h2 hf]

end generic

/-! ## `format_values_from_inner!` -/

/-- value requests: a locale answers iff it has the message with a value -/
def valueAns (k : Key I A) (p : L × BundleResult I L A N T RE BE) : Option (T × List RE) :=
  (answerOf k p).map fun f => (f.text, f.errs)

/-- final entry of a value request: `MissingValue` iff some locale had the message -/
def valueFin (k : Key I A) (lbs : List (L × BundleResult I L A N T RE BE)) : LocErr I L RE BE :=
  finalEntry k (lbs.any (hasMessage k))

/-- the cell of key `k` after the locales `pre` have been walked -/
def cellAfter (k : Key I A) (pre : List (L × BundleResult I L A N T RE BE)) : Cell T :=
  match firstAns (valueAns (T := T)) k pre with
  | some pr => .present pr.2.1
  | none =>
    match pre.any (hasMessage k) with
    | true => .missing
    | false => .none

theorem cellAfter_isPresent (k : Key I A) (pre : List (L × BundleResult I L A N T RE BE)) :
    (cellAfter (T := T) k pre).isPresent = answeredIn (valueAns (T := T)) k pre := by
  unfold cellAfter answeredIn
  cases firstAns (valueAns (T := T)) k pre with
  | none => cases pre.any (hasMessage k) <;> rfl
  | some pf => rfl

/-- one key of one round -/
theorem valuesStep_spec (k : Key I A) (pre : List (L × BundleResult I L A N T RE BE))
    (p : L × BundleResult I L A N T RE BE) (hl : p.2.bundleOf.locales.head? = some p.1)
    (hn : answeredIn (valueAns (T := T)) k pre = false) (hm : Bool) (errors : List (LocErr I L RE BE)) :
    valuesStep p.2.bundleOf k (cellAfter (T := T) k pre) hm errors =
      .done (cellAfter (T := T) k (pre ++ [p]), hm || !answeredIn (valueAns (T := T)) k (pre ++ [p]),
             errors ++ roundErrs (valueAns (T := T)) missEntry k pre p) := by
  have hloc := locale0_of hl
  have hfa : firstAns (valueAns (T := T)) k pre = none := by
    simpa [answeredIn] using hn
  unfold valuesStep
  cases hg : p.2.bundleOf.getMessage k.id with
  | none =>
    have ha : valueAns (T := T) (RE := RE) k p = none := by simp [valueAns, answerOf, hg]
    have hh : hasMessage k p = false := by simp [hasMessage, hg]
    have hany : (pre ++ [p]).any (hasMessage k) = pre.any (hasMessage k) := by
      rw [List.any_append]; simp [hh]
    simp [hloc, Outcome.bind, roundErrs, ha, missEntry, hh, cellAfter, answeredIn,
      firstAns_append, firstAns_single, hfa, hany]
  | some m =>
    have hh : hasMessage k p = true := by simp [hasMessage, hg]
    cases hv : m.value with
    | none =>
      have ha : valueAns (T := T) (RE := RE) k p = none := by simp [valueAns, answerOf, hg, hv]
      have hany : (pre ++ [p]).any (hasMessage k) = true := by
        rw [List.any_append]; simp [hh]
      simp [hv, hloc, Outcome.bind, roundErrs, ha, missEntry, hh, cellAfter, answeredIn,
        firstAns_append, firstAns_single, hfa, hany]
    | some v =>
      have ha : valueAns (T := T) (RE := RE) k p = some ((v k.args).text, (v k.args).errs) := by
        simp [valueAns, answerOf, hg, hv]
      cases he : (v k.args).errs.isEmpty <;>
        simp [hv, he, hloc, Outcome.bind, roundErrs, ha, resolverEntry, cellAfter, answeredIn,
          firstAns_append, firstAns_single, hfa]

theorem cellAfter_append_of_answered (k : Key I A) (pre l : List (L × BundleResult I L A N T RE BE))
    (h : answeredIn (valueAns (T := T)) k pre = true) :
    cellAfter (T := T) k (pre ++ l) = cellAfter (T := T) k pre := by
  unfold cellAfter
  rw [firstAns_append_of_answered _ k pre l h]
  unfold answeredIn at h
  cases hf : firstAns (valueAns (T := T)) k pre with
  | none => simp [hf] at h
  | some pf => rfl

/-- one round over all keys: the `for (key, cell) in keys.zip(cells).filter(not present)` loop -/
theorem valuesRound_spec (keys : List (Key I A)) (pre : List (L × BundleResult I L A N T RE BE))
    (p : L × BundleResult I L A N T RE BE) (hl : p.2.bundleOf.locales.head? = some p.1)
    (hm : Bool) (errors : List (LocErr I L RE BE)) :
    valuesRound p.2.bundleOf keys (keys.map fun k => cellAfter (T := T) k pre) hm errors =
      .done (keys.map (fun k => cellAfter (T := T) k (pre ++ [p])),
             hm || keys.any (fun k => !answeredIn (valueAns (T := T)) k (pre ++ [p])),
             errors ++ keys.flatMap (fun k => roundErrs (valueAns (T := T)) missEntry k pre p)) := by
  induction keys generalizing hm errors with
  | nil => simp [valuesRound]
  | cons k keys ih =>
    simp only [List.map_cons, valuesRound, cellAfter_isPresent]
    cases hn : answeredIn (valueAns (T := T)) k pre with
    | true =>
      simp only [if_true, ih, Outcome.bind]
      simp [cellAfter_append_of_answered k pre [p] hn, answeredIn_append, hn,
        roundErrs_of_answered _ _ k pre p hn]
    | false =>
      simp only [Bool.false_eq_true, if_false, valuesStep_spec k pre p hl hn, Outcome.bind, ih]
      simp [Bool.or_assoc]

theorem not_allAnswered (ans : Key I A → L × BundleResult I L A N T RE BE → Option (ρ × List RE))
    (keys : List (Key I A)) (l : List (L × BundleResult I L A N T RE BE)) :
    (keys.any fun k => !answeredIn ans k l) = !allAnswered ans keys l := by
  simp [allAnswered, List.all_eq_not_any_not]

/-- the `while let Some(bundle) = $step` loop of `format_values_from_inner!`, from the state reached
after walking `pre` -/
theorem valuesLoop_spec (keys : List (Key I A)) (pre rest : List (L × BundleResult I L A N T RE BE))
    (h : PerLocale rest) (errors : List (LocErr I L RE BE)) (used : Nat) :
    valuesLoop keys (rest.map (·.2)) (keys.map fun k => cellAfter (T := T) k pre) errors used =
      .done (keys.map (fun k => cellAfter (T := T) k
                (pre ++ (batchWalk (valueAns (T := T)) keys pre rest).map (·.2))),
             errors ++ (batchWalk (valueAns (T := T)) keys pre rest).flatMap
                (walkErrs (valueAns (T := T)) missEntry keys),
             used + (batchWalk (valueAns (T := T)) keys pre rest).length) := by
  induction rest generalizing pre errors used with
  | nil => simp [valuesLoop, batchWalk]
  | cons p rest ih =>
    obtain ⟨hl, hrest⟩ := h.cons
    simp only [List.map_cons, valuesLoop, unwrapBundle_eq, valuesRound_spec keys pre p hl, Outcome.bind,
      Bool.false_or, not_allAnswered, Bool.not_not]
    cases ha : allAnswered (valueAns (T := T)) keys (pre ++ [p]) with
    | true => simp [batchWalk, ha, walkErrs]
    | false =>
      simp only [Bool.false_eq_true, if_false, ih (pre ++ [p]) hrest]
      simp [batchWalk, ha, walkErrs, Nat.add_assoc, Nat.add_comm]

/-- what `valuesFinish` turns a cell into -/
def Cell.toOption : Cell T → Option T
  | .present t => some t
  | _ => none

/-- the final `keys.zip(cells).map(…)` of `format_values_from_inner!` -/
theorem valuesFinish_spec (keys : List (Key I A)) (w : List (L × BundleResult I L A N T RE BE))
    (errors : List (LocErr I L RE BE)) :
    valuesFinish keys (keys.map fun k => cellAfter (T := T) k w) errors =
      (keys.map (fun k => resultOf (valueAns (T := T)) k w),
       errors ++ keys.flatMap (finalErrs (valueAns (T := T)) valueFin w)) := by
  induction keys generalizing errors with
  | nil => simp [valuesFinish]
  | cons k keys ih =>
    simp only [List.map_cons, valuesFinish]
    cases hf : firstAns (valueAns (T := T)) k w with
    | some pr =>
      have hc : cellAfter (T := T) k w = .present pr.2.1 := by simp [cellAfter, hf]
      simp [hc, ih, resultOf, finalErrs, hf]
    | none =>
      cases hh : w.any (hasMessage k) with
      | true =>
        have hc : cellAfter (T := T) k w = .missing := by simp [cellAfter, hf, hh]
        simp [hc, ih, resultOf, finalErrs, hf, valueFin, finalEntry, hh]
      | false =>
        have hc : cellAfter (T := T) k w = .none := by simp [cellAfter, hf, hh]
        simp [hc, ih, resultOf, finalErrs, hf, valueFin, finalEntry, hh]

theorem cellAfter_nil (k : Key I A) :
    cellAfter (L := L) (N := N) (T := T) (RE := RE) (BE := BE) k [] = .none := by
  simp [cellAfter, firstAns]

/-- `format_values_from_inner!` = the batch specification instantiated for value requests -/
theorem formatValuesFromInner_spec (keys : List (Key I A)) (lbs : List (L × BundleResult I L A N T RE BE))
    (h : PerLocale lbs) (errors : List (LocErr I L RE BE)) :
    formatValuesFromInner (T := T) (lbs.map (·.2)) keys errors =
      .done ((batchSpec (valueAns (T := T)) missEntry valueFin keys lbs).1,
             errors ++ (batchSpec (valueAns (T := T)) missEntry valueFin keys lbs).2.1,
             (batchSpec (valueAns (T := T)) missEntry valueFin keys lbs).2.2) := by
  have h0 : List.replicate keys.length (Cell.none (T := T)) =
      keys.map fun k => cellAfter (T := T) k ([] : List (L × BundleResult I L A N T RE BE)) := by
    induction keys with
    | nil => rfl
    | cons k ks ih => simp [List.replicate_succ, cellAfter_nil, ih]
  unfold formatValuesFromInner
  rw [h0, valuesLoop_spec keys [] lbs h errors 0]
  simp only [Outcome.bind, List.nil_append, valuesFinish_spec, walked_results, walked_finalErrs]
  simp [batchSpec]

/-! ### a single value request is the batch request with one key -/

theorem firstAns_cons (ans : Key I A → L × BundleResult I L A N T RE BE → Option (ρ × List RE))
    (k : Key I A) (p : L × BundleResult I L A N T RE BE) (rest : List (L × BundleResult I L A N T RE BE)) :
    firstAns ans k (p :: rest) = ((ans k p).map fun r => (p, r)).or (firstAns ans k rest) := by
  have := firstAns_append ans k [p] rest
  simpa [firstAns_single] using this

theorem valueSpecFrom_eq_batch (k : Key I A) (pre rest : List (L × BundleResult I L A N T RE BE))
    (hn : answeredIn (valueAns (T := T)) k pre = false) (found : Bool) :
    (valueSpecFrom (T := T) k found rest).1 = resultOf (valueAns (T := T)) k rest ∧
    (valueSpecFrom (T := T) k found rest).2.1 =
      (batchWalk (valueAns (T := T)) [k] pre rest).flatMap (walkErrs (valueAns (T := T)) missEntry [k]) ++
        (match firstAns (valueAns (T := T)) k rest with
         | some _ => []
         | none => [finalEntry k (found || rest.any (hasMessage k))]) ∧
    (valueSpecFrom (T := T) k found rest).2.2 = (batchWalk (valueAns (T := T)) [k] pre rest).length := by
  induction rest generalizing pre found with
  | nil => simp [valueSpecFrom_nil, resultOf, firstAns, batchWalk]
  | cons p rest ih =>
    cases ha : answerOf (T := T) (RE := RE) k p with
    | some f =>
      have hv : valueAns (T := T) (RE := RE) k p = some (f.text, f.errs) := by simp [valueAns, ha]
      have h1 : allAnswered (valueAns (T := T)) [k] (pre ++ [p]) = true := by
        simp [allAnswered, answeredIn_append, answeredIn_single, hv]
      rw [valueSpecFrom_cons_answer k found p rest f ha]
      simp [resultOf, firstAns_cons, hv, batchWalk, h1, walkErrs, roundErrs, hn]
    | none =>
      have hv : valueAns (T := T) (RE := RE) k p = none := by simp [valueAns, ha]
      have h2 : answeredIn (valueAns (T := T)) k (pre ++ [p]) = false := by
        simp [answeredIn_append, hn, answeredIn_single, hv]
      have h1 : allAnswered (valueAns (T := T)) [k] (pre ++ [p]) = false := by
        simp [allAnswered, h2]
      obtain ⟨i1, i2, i3⟩ := ih (pre ++ [p]) h2 (found || hasMessage k p)
      rw [valueSpecFrom_cons_miss k found p rest ha]
      refine ⟨?_, ?_, ?_⟩
      · simp [i1, resultOf, firstAns_cons, hv]
      · simp only [i2, batchWalk, h1, List.flatMap_cons, walkErrs, roundErrs, hn, hv, firstAns_cons,
          Option.map_none, Option.none_or, List.any_cons, Bool.or_assoc, missErrs]
        simp
      · simp [i3, batchWalk, h1]

/-- the single request for `k` *is* the batch request `[k]`: same result, same errors, same number
of bundles consumed -/
theorem valueSpec_eq_batch_singleton (k : Key I A) (lbs : List (L × BundleResult I L A N T RE BE)) :
    valueSpec (T := T) k lbs =
      (resultOf (valueAns (T := T)) k lbs,
       (batchSpec (valueAns (T := T)) missEntry valueFin [k] lbs).2.1,
       (batchSpec (valueAns (T := T)) missEntry valueFin [k] lbs).2.2) := by
  obtain ⟨h1, h2, h3⟩ := valueSpecFrom_eq_batch (T := T) k [] lbs (by simp [answeredIn, firstAns]) false
  ext1
  · exact h1
  · ext1
    · simp only [valueSpec, h2, batchSpec, List.flatMap_cons, List.flatMap_nil, List.append_nil, finalErrs,
        valueFin, Bool.false_or]
      cases firstAns (valueAns (T := T)) k lbs <;> rfl
    · exact h3

/-! ## `format_messages_from_inner!` -/

/-- message requests: a locale answers iff it has the message (with or without a value); its answer
is `format_message_from_bundle`'s (value, then attributes in order, resolver errors in that order) -/
def messageAns (k : Key I A) (p : L × BundleResult I L A N T RE BE) : Option (L10nMessage N T × List RE) :=
  match formatMessageFromBundle p.2.bundleOf k [] with
  | (some m, es) => some (m, es)
  | (none, _) => none

def messageMiss (k : Key I A) (p : L × BundleResult I L A N T RE BE) : LocErr I L RE BE :=
  .missingMessage k.id (some p.1)

def messageFin (k : Key I A) (_ : List (L × BundleResult I L A N T RE BE)) : LocErr I L RE BE :=
  .missingMessage k.id none

theorem resultOf_isNone (ans : Key I A → L × BundleResult I L A N T RE BE → Option (ρ × List RE))
    (k : Key I A) (l : List (L × BundleResult I L A N T RE BE)) :
    (resultOf ans k l).isNone = !answeredIn ans k l := by
  unfold resultOf answeredIn
  cases firstAns ans k l <;> rfl

theorem resultOf_append_of_answered (ans : Key I A → L × BundleResult I L A N T RE BE → Option (ρ × List RE))
    (k : Key I A) (l₁ l₂ : List (L × BundleResult I L A N T RE BE)) (h : answeredIn ans k l₁ = true) :
    resultOf ans k (l₁ ++ l₂) = resultOf ans k l₁ := by
  unfold resultOf
  rw [firstAns_append_of_answered ans k l₁ l₂ h]

theorem messagesStep_spec (k : Key I A) (pre : List (L × BundleResult I L A N T RE BE))
    (p : L × BundleResult I L A N T RE BE) (hl : p.2.bundleOf.locales.head? = some p.1)
    (hn : answeredIn (messageAns (N := N) (T := T)) k pre = false) (hm : Bool)
    (errors : List (LocErr I L RE BE)) :
    messagesStep p.2.bundleOf k hm errors =
      .done (resultOf (messageAns (N := N) (T := T)) k (pre ++ [p]),
             hm || !answeredIn (messageAns (N := N) (T := T)) k (pre ++ [p]),
             errors ++ roundErrs (messageAns (N := N) (T := T)) messageMiss k pre p) := by
  have hloc := locale0_of hl
  have hfa : firstAns (messageAns (N := N) (T := T)) k pre = none := by
    simpa [answeredIn] using hn
  unfold messagesStep
  cases hf : formatMessageFromBundle p.2.bundleOf k [] with
  | mk o es =>
    cases o with
    | none =>
      have ha : messageAns (N := N) (T := T) k p = none := by simp [messageAns, hf]
      simp [hloc, Outcome.bind, roundErrs, ha, messageMiss, resultOf, answeredIn,
        firstAns_append, firstAns_single, hfa]
    | some m =>
      have ha : messageAns (N := N) (T := T) k p = some (m, es) := by simp [messageAns, hf]
      cases he : es.isEmpty <;>
        simp [he, hloc, Outcome.bind, roundErrs, ha, resolverEntry, resultOf, answeredIn,
          firstAns_append, firstAns_single, hfa]

theorem messagesRound_spec (keys : List (Key I A)) (pre : List (L × BundleResult I L A N T RE BE))
    (p : L × BundleResult I L A N T RE BE) (hl : p.2.bundleOf.locales.head? = some p.1)
    (hm : Bool) (errors : List (LocErr I L RE BE)) :
    messagesRound p.2.bundleOf keys (keys.map fun k => resultOf (messageAns (N := N) (T := T)) k pre) hm errors =
      .done (keys.map (fun k => resultOf (messageAns (N := N) (T := T)) k (pre ++ [p])),
             hm || keys.any (fun k => !answeredIn (messageAns (N := N) (T := T)) k (pre ++ [p])),
             errors ++ keys.flatMap (fun k => roundErrs (messageAns (N := N) (T := T)) messageMiss k pre p)) := by
  induction keys generalizing hm errors with
  | nil => simp [messagesRound]
  | cons k keys ih =>
    simp only [List.map_cons, messagesRound, resultOf_isNone]
    cases hn : answeredIn (messageAns (N := N) (T := T)) k pre with
    | true =>
      simp only [Bool.not_true, Bool.false_eq_true, if_false, ih, Outcome.bind]
      simp [resultOf_append_of_answered _ k pre [p] hn, answeredIn_append, hn,
        roundErrs_of_answered _ _ k pre p hn]
    | false =>
      simp only [Bool.not_false, if_true, messagesStep_spec k pre p hl hn, Outcome.bind, ih]
      simp [Bool.or_assoc]

theorem messagesLoop_spec (keys : List (Key I A)) (pre rest : List (L × BundleResult I L A N T RE BE))
    (h : PerLocale rest) (errors : List (LocErr I L RE BE)) (used : Nat) :
    ∃ c : Bool,
      messagesLoop keys (rest.map (·.2)) (keys.map fun k => resultOf (messageAns (N := N) (T := T)) k pre)
          errors used =
        .done (keys.map (fun k => resultOf (messageAns (N := N) (T := T)) k
                  (pre ++ (batchWalk (messageAns (N := N) (T := T)) keys pre rest).map (·.2))),
               c,
               errors ++ (batchWalk (messageAns (N := N) (T := T)) keys pre rest).flatMap
                  (walkErrs (messageAns (N := N) (T := T)) messageMiss keys),
               used + (batchWalk (messageAns (N := N) (T := T)) keys pre rest).length) ∧
      (c = true → allAnswered (messageAns (N := N) (T := T)) keys
          (pre ++ (batchWalk (messageAns (N := N) (T := T)) keys pre rest).map (·.2)) = true) := by
  induction rest generalizing pre errors used with
  | nil => exact ⟨false, by simp [messagesLoop, batchWalk]⟩
  | cons p rest ih =>
    obtain ⟨hl, hrest⟩ := h.cons
    simp only [List.map_cons, messagesLoop, unwrapBundle_eq, messagesRound_spec keys pre p hl, Outcome.bind,
      Bool.false_or, not_allAnswered, Bool.not_not]
    cases ha : allAnswered (messageAns (N := N) (T := T)) keys (pre ++ [p]) with
    | true => exact ⟨true, by simp [batchWalk, ha, walkErrs]⟩
    | false =>
      obtain ⟨c, hc1, hc2⟩ := ih (pre ++ [p]) hrest (errors ++ carriedErrs p ++
        keys.flatMap (fun k => roundErrs (messageAns (N := N) (T := T)) messageMiss k pre p)) (used + 1)
      refine ⟨c, ?_, ?_⟩
      · simp only [Bool.false_eq_true, if_false, hc1]
        simp [batchWalk, ha, walkErrs, Nat.add_assoc, Nat.add_comm]
      · simpa [batchWalk, ha] using hc2

theorem messagesFinish_spec (keys : List (Key I A)) (w : List (L × BundleResult I L A N T RE BE))
    (errors : List (LocErr I L RE BE)) :
    messagesFinish keys (keys.map fun k => resultOf (messageAns (N := N) (T := T)) k w) errors =
      errors ++ keys.flatMap (finalErrs (messageAns (N := N) (T := T)) messageFin w) := by
  induction keys generalizing errors with
  | nil => simp [messagesFinish]
  | cons k keys ih =>
    simp only [List.map_cons, messagesFinish, resultOf_isNone]
    cases hn : answeredIn (messageAns (N := N) (T := T)) k w with
    | true =>
      have : finalErrs (messageAns (N := N) (T := T)) (messageFin (I := I) (L := L) (RE := RE) (BE := BE)) w k = [] := by
        unfold finalErrs; unfold answeredIn at hn
        cases hf : firstAns (messageAns (N := N) (T := T)) k w with
        | none => simp [hf] at hn
        | some pr => rfl
      simp [ih, this]
    | false =>
      have : finalErrs (messageAns (N := N) (T := T)) (messageFin (I := I) (L := L) (RE := RE) (BE := BE)) w k
          = [.missingMessage k.id none] := by
        unfold finalErrs; unfold answeredIn at hn
        cases hf : firstAns (messageAns (N := N) (T := T)) k w with
        | none => rfl
        | some pr => simp [hf] at hn
      simp [ih, this]

theorem finalErrs_of_allAnswered (ans : Key I A → L × BundleResult I L A N T RE BE → Option (ρ × List RE))
    (fin : Key I A → List (L × BundleResult I L A N T RE BE) → LocErr I L RE BE)
    (keys : List (Key I A)) (w : List (L × BundleResult I L A N T RE BE))
    (h : allAnswered ans keys w = true) : keys.flatMap (finalErrs ans fin w) = [] := by
  rw [List.flatMap_eq_nil_iff]
  intro k hk
  have := (List.all_eq_true.1 h) k hk
  unfold answeredIn at this
  unfold finalErrs
  cases hf : firstAns ans k w with
  | none => simp [hf] at this
  | some pr => rfl

/-- `format_messages_from_inner!` = the batch specification instantiated for message requests -/
theorem formatMessagesFromInner_spec (keys : List (Key I A)) (lbs : List (L × BundleResult I L A N T RE BE))
    (h : PerLocale lbs) (errors : List (LocErr I L RE BE)) :
    formatMessagesFromInner (N := N) (T := T) (lbs.map (·.2)) keys errors =
      .done ((batchSpec (messageAns (N := N) (T := T)) messageMiss messageFin keys lbs).1,
             errors ++ (batchSpec (messageAns (N := N) (T := T)) messageMiss messageFin keys lbs).2.1,
             (batchSpec (messageAns (N := N) (T := T)) messageMiss messageFin keys lbs).2.2) := by
  have h0 : List.replicate keys.length (none : Option (L10nMessage N T)) =
      keys.map fun k => resultOf (messageAns (N := N) (T := T)) k
        ([] : List (L × BundleResult I L A N T RE BE)) := by
    induction keys with
    | nil => rfl
    | cons k ks ih => simp [List.replicate_succ, resultOf, firstAns, ih]
  obtain ⟨c, hc1, hc2⟩ := messagesLoop_spec (N := N) (T := T) keys [] lbs h errors 0
  unfold formatMessagesFromInner
  rw [h0, hc1]
  simp only [Outcome.bind, List.nil_append]
  cases c with
  | false =>
    simp only [Bool.not_false, if_true, messagesFinish_spec, walked_results]
    simp [batchSpec]
  | true =>
    have hall := hc2 rfl
    simp only [List.nil_append] at hall
    have hfin := finalErrs_of_allAnswered (messageAns (N := N) (T := T))
      (messageFin (I := I) (L := L) (RE := RE) (BE := BE)) keys _ hall
    rw [walked_finalErrs] at hfin
    simp [walked_results, batchSpec, hfin]

end FluentProofs.Fallback
