import FluentProofs.SerializerML
/-!
# Serializer lemmas, part 12: `PatRT` — round trip of a class pattern at an indent level (C04 / T3)
-/
namespace FluentProofs.Ser
open FluentModel FluentModel.Syntax FluentModel.Syntax.Ser FluentProofs.Parser

/-! ## the serializer on the elements of a class pattern -/

theorem spaces_toList (n : Nat) : (spaces n).toList = spacesL n := by simp [spaces, spacesL]

/-- `write_literal` in a writer without trailing `\r`: indentation after a line feed, then the literal -/
theorem ws_writeLiteral {w : Writer} {L : Nat} {nl : Bool} (hw : WS w L nl) (item : Bytes) (hne : item ≠ [])
    (h13 : item.getLast? ≠ some 13) :
    (w.writeLiteral item).buffer = w.buffer ++ ((if nl then spacesL (4 * L) else []) ++ item).toArray ∧
      WS (w.writeLiteral item) L (endsNl item) := by
  obtain ⟨hL, h13w, h10w⟩ := hw
  have hbuf : (w.writeLiteral item).buffer = w.buffer ++ ((if nl then spacesL (4 * L) else []) ++ item).toArray := by
    cases nl with
    | true =>
      rw [writeLiteral_after_newline w item h10w, hL]
      apply Array.ext'
      simp [spaces_toList]
    | false =>
      rw [writeLiteral_mid_line w item h10w, h13w]
      simp
  refine ⟨hbuf, by simp [hL], ?_, ?_⟩
  · simp only [endsWith, hbuf, Array.back?_append]
    cases hl : item.getLast? with
    | none => simp at hl; exact absurd hl hne
    | some x =>
      have : ((if nl then spacesL (4 * L) else []) ++ item).toArray.back? = some x := by
        rw [← Array.getLast?_toList]; simp [List.getLast?_append, hl]
      rw [this]; simp
      intro hx; rw [hx] at hl; exact h13 hl
  · simp only [endsWith, hbuf, Array.back?_append, endsNl]
    cases hl : item.getLast? with
    | none => simp at hl; exact absurd hl hne
    | some x =>
      have : ((if nl then spacesL (4 * L) else []) ++ item).toArray.back? = some x := by
        rw [← Array.getLast?_toList]; simp [List.getLast?_append, hl]
      rw [this]; simp

def finalNl : Bool → List (PatElem Bytes) → Bool
  | nl, [] => nl
  | _, .text v :: es => finalNl (endsNl v) es
  | _, .placeable _ :: es => finalNl false es

theorem serElements_ml (L : Nat) (es : List (PatElem Bytes)) :
    ∀ (hpl : ∀ x, PatElem.placeable x ∈ es → PlRT L x) (nl : Bool) (w : Writer), mlElems nl es = true → WS w L nl →
      ∃ w', serElements w es = some w' ∧ w'.buffer = w.buffer ++ (elemsText L nl es).toArray ∧
        WS w' L (finalNl nl es) := by
  induction es with
  | nil => intro _ nl w _ hw; exact ⟨w, by simp [serElements], by simp [elemsText], hw⟩
  | cons e es ih =>
    intro hpl nl w hml hw
    have hpl' : ∀ x, PatElem.placeable x ∈ es → PlRT L x := fun x hx => hpl x (List.mem_cons_of_mem _ hx)
    cases e with
    | text v =>
      simp only [mlElems, Bool.and_eq_true] at hml
      obtain ⟨⟨⟨hvok, _⟩, _⟩, hml'⟩ := hml
      have hvne := mlTextOK_ne hvok
      have h13 : v.getLast? ≠ some 13 := by
        intro h; exact (mlTextOK_mem hvok 13 (List.mem_of_getLast? h)).1 rfl
      obtain ⟨hbuf, hw1⟩ := ws_writeLiteral hw v hvne h13
      obtain ⟨w', h1, h2, h3⟩ := ih hpl' (endsNl v) (w.writeLiteral v) hml' hw1
      refine ⟨w', by simp only [serElements, serElement, h1], ?_, by simpa [finalNl] using h3⟩
      rw [h2, hbuf]
      apply Array.ext'
      simp [elemsText]
    | placeable x =>
      have hml' : mlElems false es = true := by simpa [mlElems] using hml
      obtain ⟨w1, hs1, hbuf, hw1⟩ := (hpl x (List.mem_cons_self)).ser w nl hw
      obtain ⟨w', h1, h2, h3⟩ := ih hpl' false w1 hml' hw1
      refine ⟨w', by simp only [serElements, hs1, h1], ?_, by simpa [finalNl] using h3⟩
      rw [h2, hbuf]
      apply Array.ext'
      simp [elemsText]

theorem finalNl_last (nl : Bool) (es : List (PatElem Bytes)) (hne : es ≠ []) (hl : mlLastOK es = true) :
    finalNl nl es = false := by
  induction es generalizing nl with
  | nil => exact absurd rfl hne
  | cons e es ih =>
    cases es with
    | nil =>
      cases e with
      | text v =>
        simp only [mlLastOK, Bool.and_eq_true, bne_iff_ne, ne_eq] at hl
        simp only [finalNl, endsNl, beq_eq_false_iff_ne, ne_eq]
        exact hl.2
      | placeable x => rfl
    | cons e2 rest =>
      have := fun nl' => ih nl' (by simp) (mlLastOK_tail hl)
      cases e <;> simp only [finalNl] <;> exact this _

theorem ws_indent {w : Writer} {L : Nat} {nl : Bool} (h : WS w L nl) : WS w.indent (L + 1) nl := by
  obtain ⟨a, b, c⟩ := h
  exact ⟨by simp [a], b, c⟩

theorem serPattern_ml (L : Nat) (p : List (PatElem Bytes)) (hcl : mlPattern p = true)
    (hpl : ∀ x, PatElem.placeable x ∈ p → PlRT (elemLevel L p) x) (w : Writer) (hw : WS w L false) :
    ∃ w', serPattern w p = some w' ∧ w'.buffer = w.buffer ++ (patText L p).toArray ∧ WS w' L false := by
  simp only [mlPattern, Bool.and_eq_true, Bool.not_eq_true', List.isEmpty_eq_false_iff] at hcl
  obtain ⟨⟨⟨⟨hne, hml⟩, hlast⟩, _⟩, _⟩ := hcl
  obtain ⟨hL, h13, h10⟩ := hw
  -- the writer after `patternPre`
  have hpre : (patternPre w p).buffer = w.buffer ++ (patPrefix p).toArray ∧
      WS (patternPre w p) (elemLevel L p) (startsOnNewLine p) := by
    unfold patternPre patPrefix elemLevel
    simp only []
    cases hs : startsOnNewLine p
    · have hw' : WS w L false := ⟨hL, h13, h10⟩
      obtain ⟨hb, hw1⟩ := ws_writeLiteral hw' [32] (by simp) (by simp)
      simp only [Bool.false_eq_true, if_false, lit_sp]
      have hw1' : WS (w.writeLiteral [32]) L false := by simpa [endsNl] using hw1
      split
      · exact ⟨by simpa using hb, ws_indent hw1'⟩
      · exact ⟨by simpa using hb, hw1'⟩
    · have hb : w.newline.buffer = w.buffer ++ #[10] := by rw [newline_buffer, h13]; simp
      have hw1 : WS w.newline L true := ⟨by simp [hL], by simp [endsWith, hb, Array.back?_append], by simp⟩
      simp only [if_true]
      split
      · exact ⟨by simpa using hb, ws_indent hw1⟩
      · exact ⟨by simpa using hb, hw1⟩
  obtain ⟨w3, hs3, hb3, hw3⟩ := serElements_ml (elemLevel L p) p hpl (startsOnNewLine p) (patternPre w p) hml hpre.2
  rw [finalNl_last _ p hne hlast] at hw3
  simp only [serPattern, hs3]
  unfold patternPost
  have hbuf : w3.buffer = w.buffer ++ (patText L p).toArray := by
    rw [hb3, hpre.1]; apply Array.ext'; simp [patText]
  obtain ⟨a, b, c⟩ := hw3
  split
  · rename_i hm
    have ha : w3.indentLevel = L + 1 := by simpa [elemLevel, hm] using a
    obtain ⟨w', hd, hl, hbf⟩ := dedent_of_pos (w := w3) (by omega)
    exact ⟨w', hd, by rw [hbf, hbuf], by omega, by simpa [endsWith, hbf] using b, by simpa [endsWith, hbf] using c⟩
  · rename_i hm
    have ha : w3.indentLevel = L := by simpa [elemLevel, hm] using a
    exact ⟨w3, rfl, hbuf, ha, b, c⟩

end FluentProofs.Ser
