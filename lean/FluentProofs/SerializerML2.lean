import FluentProofs.SerializerML
/-!
# Serializer lemmas, part 12: `PatRT` — round trip of a class pattern at an indent level (C04 / T3)
-/
namespace FluentProofs.Ser
open FluentModel FluentModel.Syntax FluentModel.Syntax.Ser FluentProofs.Parser

/-! ## the serializer on the elements of a class pattern -/

theorem spaces_toList (n : Nat) : (spaces n).toList = spacesL n := by simp [spaces, spacesL]

/-- `write_literal` in a writer without trailing `\r`: indentation after a line feed, then the literal -/
theorem ws_writeLiteral {w : Writer} {L : Nat} {nl : Bool} (hw : WS w L nl) (item : Bytes) (hne : item ≠ [])
    (h13 : item.getLast? ≠ some 13) :
    (w.writeLiteral item).buffer = w.buffer ++ ((if nl then spacesL (4 * L) else []) ++ item).toArray ∧
      WS (w.writeLiteral item) L (endsNl item) := by
  obtain ⟨hL, h13w, h10w⟩ := hw
  have hbuf : (w.writeLiteral item).buffer = w.buffer ++ ((if nl then spacesL (4 * L) else []) ++ item).toArray := by
    cases nl with
    | true =>
      rw [writeLiteral_after_newline w item h10w, hL]
      apply Array.ext'
      simp [spaces_toList]
    | false =>
      rw [writeLiteral_mid_line w item h10w, h13w]
      simp
  refine ⟨hbuf, by simp [hL], ?_, ?_⟩
  · simp only [endsWith, hbuf, Array.back?_append]
    cases hl : item.getLast? with
    | none => simp at hl; exact absurd hl hne
    | some x =>
      have : ((if nl then spacesL (4 * L) else []) ++ item).toArray.back? = some x := by
        rw [← Array.getLast?_toList]; simp [List.getLast?_append, hl]
      rw [this]; simp
      intro hx; rw [hx] at hl; exact h13 hl
  · simp only [endsWith, hbuf, Array.back?_append, endsNl]
    cases hl : item.getLast? with
    | none => simp at hl; exact absurd hl hne
    | some x =>
      have : ((if nl then spacesL (4 * L) else []) ++ item).toArray.back? = some x := by
        rw [← Array.getLast?_toList]; simp [List.getLast?_append, hl]
      rw [this]; simp

end FluentProofs.Ser
