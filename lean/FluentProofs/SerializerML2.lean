import FluentProofs.SerializerML
/-!
# Serializer lemmas, part 12: `PatRT` — round trip of a class pattern at an indent level (C04 / T3)
-/
namespace FluentProofs.Ser
open FluentModel FluentModel.Syntax FluentModel.Syntax.Ser FluentProofs.Parser

/-! ## the serializer on the elements of a class pattern -/

theorem spaces_toList (n : Nat) : (spaces n).toList = spacesL n := by simp [spaces, spacesL]

/-- `write_literal` in a writer without trailing `\r`: indentation after a line feed, then the literal -/
theorem ws_writeLiteral {w : Writer} {L : Nat} {nl : Bool} (hw : WS w L nl) (item : Bytes) (hne : item ≠ [])
    (h13 : item.getLast? ≠ some 13) :
    (w.writeLiteral item).buffer = w.buffer ++ ((if nl then spacesL (4 * L) else []) ++ item).toArray ∧
      WS (w.writeLiteral item) L (endsNl item) := by
  obtain ⟨hL, h13w, h10w⟩ := hw
  have hbuf : (w.writeLiteral item).buffer = w.buffer ++ ((if nl then spacesL (4 * L) else []) ++ item).toArray := by
    cases nl with
    | true =>
      rw [writeLiteral_after_newline w item h10w, hL]
      apply Array.ext'
      simp [spaces_toList]
    | false =>
      rw [writeLiteral_mid_line w item h10w, h13w]
      simp
  refine ⟨hbuf, by simp [hL], ?_, ?_⟩
  · simp only [endsWith, hbuf, Array.back?_append]
    cases hl : item.getLast? with
    | none => simp at hl; exact absurd hl hne
    | some x =>
      have : ((if nl then spacesL (4 * L) else []) ++ item).toArray.back? = some x := by
        rw [← Array.getLast?_toList]; simp [List.getLast?_append, hl]
      rw [this]; simp
      intro hx; rw [hx] at hl; exact h13 hl
  · simp only [endsWith, hbuf, Array.back?_append, endsNl]
    cases hl : item.getLast? with
    | none => simp at hl; exact absurd hl hne
    | some x =>
      have : ((if nl then spacesL (4 * L) else []) ++ item).toArray.back? = some x := by
        rw [← Array.getLast?_toList]; simp [List.getLast?_append, hl]
      rw [this]; simp

def finalNl : Bool → List (PatElem Bytes) → Bool
  | nl, [] => nl
  | _, .text v :: es => finalNl (endsNl v) es
  | _, .placeable _ :: es => finalNl false es

theorem serElements_ml (L : Nat) (es : List (PatElem Bytes)) :
    ∀ (hpl : ∀ x, PatElem.placeable x ∈ es → PlRT L x) (nl : Bool) (w : Writer), mlElems nl es = true → WS w L nl →
      ∃ w', serElements w es = some w' ∧ w'.buffer = w.buffer ++ (elemsText L nl es).toArray ∧
        WS w' L (finalNl nl es) := by
  induction es with
  | nil => intro _ nl w _ hw; exact ⟨w, by simp [serElements], by simp [elemsText], hw⟩
  | cons e es ih =>
    intro hpl nl w hml hw
    have hpl' : ∀ x, PatElem.placeable x ∈ es → PlRT L x := fun x hx => hpl x (List.mem_cons_of_mem _ hx)
    cases e with
    | text v =>
      simp only [mlElems, Bool.and_eq_true] at hml
      obtain ⟨⟨⟨hvok, _⟩, _⟩, hml'⟩ := hml
      have hvne := mlTextOK_ne hvok
      have h13 : v.getLast? ≠ some 13 := by
        intro h; exact (mlTextOK_mem hvok 13 (List.mem_of_getLast? h)).1 rfl
      obtain ⟨hbuf, hw1⟩ := ws_writeLiteral hw v hvne h13
      obtain ⟨w', h1, h2, h3⟩ := ih hpl' (endsNl v) (w.writeLiteral v) hml' hw1
      refine ⟨w', by simp only [serElements, serElement, h1], ?_, by simpa [finalNl] using h3⟩
      rw [h2, hbuf]
      apply Array.ext'
      simp [elemsText]
    | placeable x =>
      have hml' : mlElems false es = true := by simpa [mlElems] using hml
      obtain ⟨w1, hs1, hbuf, hw1⟩ := (hpl x (List.mem_cons_self)).ser w nl hw
      obtain ⟨w', h1, h2, h3⟩ := ih hpl' false w1 hml' hw1
      refine ⟨w', by simp only [serElements, hs1, h1], ?_, by simpa [finalNl] using h3⟩
      rw [h2, hbuf]
      apply Array.ext'
      simp [elemsText]

theorem finalNl_last (nl : Bool) (es : List (PatElem Bytes)) (hne : es ≠ []) (hl : mlLastOK es = true) :
    finalNl nl es = false := by
  induction es generalizing nl with
  | nil => exact absurd rfl hne
  | cons e es ih =>
    cases es with
    | nil =>
      cases e with
      | text v =>
        simp only [mlLastOK, Bool.and_eq_true, bne_iff_ne, ne_eq] at hl
        simp only [finalNl, endsNl, beq_eq_false_iff_ne, ne_eq]
        exact hl.2
      | placeable x => rfl
    | cons e2 rest =>
      have := fun nl' => ih nl' (by simp) (mlLastOK_tail hl)
      cases e <;> simp only [finalNl] <;> exact this _

theorem ws_indent {w : Writer} {L : Nat} {nl : Bool} (h : WS w L nl) : WS w.indent (L + 1) nl := by
  obtain ⟨a, b, c⟩ := h
  exact ⟨by simp [a], b, c⟩

theorem serPattern_ml (L : Nat) (p : List (PatElem Bytes)) (hcl : mlPattern p = true)
    (hpl : ∀ x, PatElem.placeable x ∈ p → PlRT (elemLevel L p) x) (w : Writer) (hw : WS w L false) :
    ∃ w', serPattern w p = some w' ∧ w'.buffer = w.buffer ++ (patText L p).toArray ∧ WS w' L false := by
  simp only [mlPattern, Bool.and_eq_true, Bool.not_eq_true', List.isEmpty_eq_false_iff] at hcl
  obtain ⟨⟨⟨⟨hne, hml⟩, hlast⟩, _⟩, _⟩ := hcl
  obtain ⟨hL, h13, h10⟩ := hw
  -- the writer after `patternPre`
  have hpre : (patternPre w p).buffer = w.buffer ++ (patPrefix p).toArray ∧
      WS (patternPre w p) (elemLevel L p) (startsOnNewLine p) := by
    unfold patternPre patPrefix elemLevel
    simp only []
    cases hs : startsOnNewLine p
    · have hw' : WS w L false := ⟨hL, h13, h10⟩
      obtain ⟨hb, hw1⟩ := ws_writeLiteral hw' [32] (by simp) (by simp)
      simp only [Bool.false_eq_true, if_false, lit_sp]
      have hw1' : WS (w.writeLiteral [32]) L false := by simpa [endsNl] using hw1
      split
      · exact ⟨by simpa using hb, ws_indent hw1'⟩
      · exact ⟨by simpa using hb, hw1'⟩
    · have hb : w.newline.buffer = w.buffer ++ #[10] := by rw [newline_buffer, h13]; simp
      have hw1 : WS w.newline L true := ⟨by simp [hL], by simp [endsWith, hb, Array.back?_append], by simp⟩
      simp only [if_true]
      split
      · exact ⟨by simpa using hb, ws_indent hw1⟩
      · exact ⟨by simpa using hb, hw1⟩
  obtain ⟨w3, hs3, hb3, hw3⟩ := serElements_ml (elemLevel L p) p hpl (startsOnNewLine p) (patternPre w p) hml hpre.2
  rw [finalNl_last _ p hne hlast] at hw3
  simp only [serPattern, hs3]
  unfold patternPost
  have hbuf : w3.buffer = w.buffer ++ (patText L p).toArray := by
    rw [hb3, hpre.1]; apply Array.ext'; simp [patText]
  obtain ⟨a, b, c⟩ := hw3
  split
  · rename_i hm
    have ha : w3.indentLevel = L + 1 := by simpa [elemLevel, hm] using a
    obtain ⟨w', hd, hl, hbf⟩ := dedent_of_pos (w := w3) (by omega)
    exact ⟨w', hd, by rw [hbf, hbuf], by omega, by simpa [endsWith, hbf] using b, by simpa [endsWith, hbf] using c⟩
  · rename_i hm
    have ha : w3.indentLevel = L := by simpa [elemLevel, hm] using a
    exact ⟨w3, rfl, hbuf, ha, b, c⟩

/-! ## `get_pattern` on a class pattern -/

theorem skipBlankBlock_line (s : Src) (q k : Nat) (b : UInt8) (hsp : ∀ j, j < k → s[q + j]? = some 32)
    (hb : s[q + k]? = some b) (h1 : b ≠ 32) (h2 : b ≠ 10) (h3 : b ≠ 13) : skipBlankBlock s q = (q, 0) := by
  have hsbi : skipBlankInline s q = q + k := skipBlankInline_run s k q hsp (by rw [hb]; simpa using h1)
  unfold skipBlankBlock
  rw [skipBlankBlockGo, hsbi]
  have : skipEol s (q + k) = none := by
    unfold skipEol
    rw [hb]
    split <;> simp_all
  rw [this]
  simp [get_lt hb]

theorem exprText_head_of {L : Nat} {x : Expr Bytes} (h : PlRT L x) : ∃ rest, exprText L x = 123 :: rest := by
  have := h.head
  cases hx : exprText L x with
  | nil => simp [hx] at this
  | cons a as => simp [hx] at this; subst this; exact ⟨as, rfl⟩

/-- the first line of a pattern that starts on a new line: indentation, then a byte that is no blank and no
line end -/
theorem elemsText_first_line (L : Nat) (p : List (PatElem Bytes)) (hne : p ≠ [])
    (hpl : ∀ x, PatElem.placeable x ∈ p → PlRT L x) (hml : mlElems true p = true)
    (hfirst : ∀ v es, p = .text v :: es → v ≠ [10]) :
    ∃ k b rest, elemsText L true p = spacesL k ++ b :: rest ∧ b ≠ 32 ∧ b ≠ 10 ∧ b ≠ 13 := by
  cases p with
  | nil => exact absurd rfl hne
  | cons e es =>
    cases e with
    | placeable x =>
      obtain ⟨rest, hr⟩ := exprText_head_of (hpl x (List.mem_cons_self))
      exact ⟨4 * L, 123, rest ++ elemsText L false es, by simp [elemsText, hr], by decide, by decide, by decide⟩
    | text v =>
      have hv10 := hfirst v es rfl
      simp only [mlElems, Bool.and_eq_true] at hml
      obtain ⟨⟨⟨hvok, _⟩, hls⟩, _⟩ := hml
      have hlsok : lineStartOK v es = true := by
        simp only [Bool.not_true, Bool.false_or, Bool.or_eq_true, beq_iff_eq] at hls
        rcases hls with h | h
        · exact absurd h hv10
        · exact h
      have hsplit := leadSpaces_split v
      cases hu : v.dropWhile (fun b => b == 32) with
      | nil =>
        simp only [lineStartOK, hu] at hlsok
        cases es with
        | nil => simp at hlsok
        | cons e2 es' =>
          cases e2 with
          | text w => simp at hlsok
          | placeable x =>
            obtain ⟨rest, hr⟩ := exprText_head_of (hpl x (by simp))
            have hnv : endsNl v = false := by
              have hv2 : v = spacesL (leadSpaces v) := by rw [hu] at hsplit; simpa using hsplit
              have hk0 : 0 < leadSpaces v := by
                have := mlTextOK_ne hvok
                have h2 := congrArg List.length hv2
                simp [spacesL] at h2
                cases v with
                | nil => exact absurd rfl this
                | cons _ _ => simp at h2; omega
              have : v.getLast? = some 32 := by
                rw [hv2]; simp [spacesL, List.getLast?_replicate]; omega
              simp [endsNl, this]
            refine ⟨4 * L + leadSpaces v, 123, rest ++ elemsText L false es', ?_, by decide, by decide, by decide⟩
            rw [hu] at hsplit
            simp only [elemsText, if_true, hnv, Bool.false_eq_true, if_false, List.nil_append, hr]
            generalize leadSpaces v = k at hsplit ⊢
            rw [hsplit]
            simp [spacesL, ← List.replicate_append_replicate]
      | cons c u' =>
        simp only [lineStartOK, hu] at hlsok
        have hcm : c ∈ v := by rw [hsplit, hu]; simp
        simp only [contentStartOK, Bool.and_eq_true, bne_iff_ne, ne_eq] at hlsok
        refine ⟨4 * L + leadSpaces v, c, u' ++ elemsText L (endsNl v) es, ?_, hlsok.1.1.1.1, hlsok.1.1.1.2,
          (mlTextOK_mem hvok c hcm).1⟩
        rw [hu] at hsplit
        simp only [elemsText, if_true]
        generalize leadSpaces v = k at hsplit ⊢
        generalize endsNl v = nv
        rw [hsplit]
        simp [spacesL, ← List.replicate_append_replicate]

theorem excesses_single (p : List (PatElem Bytes)) (h : isMultiline p = false) : excesses false p = [] := by
  induction p with
  | nil => rfl
  | cons e es ih =>
    cases e with
    | placeable x =>
      simp only [isMultiline, Bool.or_eq_false_iff] at h
      simp [excesses, ih h.2]
    | text v =>
      simp only [isMultiline, Bool.or_eq_false_iff] at h
      have hnv : endsNl v = false := by
        simp only [endsNl, beq_eq_false_iff_ne, ne_eq]
        intro hl
        have := List.mem_of_getLast? hl
        have h1 := h.1
        rw [List.contains_eq_mem] at h1
        simp [this] at h1
      simp [excesses, hnv, ih h.2]

theorem elemsText_first_inline (L : Nat) (p : List (PatElem Bytes)) (hne : p ≠ [])
    (hpl : ∀ x, PatElem.placeable x ∈ p → PlRT L x) (hml : mlElems false p = true)
    (hfirst : ∀ v es, p = .text v :: es → v.head? ≠ some 32 ∧ v.head? ≠ some 10) :
    ∃ b rest, elemsText L false p = b :: rest ∧ b ≠ 32 ∧ b ≠ 10 ∧ b ≠ 13 := by
  cases p with
  | nil => exact absurd rfl hne
  | cons e es =>
    cases e with
    | placeable x =>
      obtain ⟨rest, hr⟩ := exprText_head_of (hpl x (List.mem_cons_self))
      exact ⟨123, rest ++ elemsText L false es, by simp [elemsText, hr], by decide, by decide, by decide⟩
    | text v =>
      obtain ⟨h1, h2⟩ := hfirst v es rfl
      simp only [mlElems, Bool.and_eq_true] at hml
      obtain ⟨⟨⟨hvok, _⟩, _⟩, _⟩ := hml
      cases v with
      | nil => exact absurd rfl (mlTextOK_ne hvok)
      | cons b rest =>
        refine ⟨b, rest ++ elemsText L (endsNl (b :: rest)) es, by simp [elemsText], ?_, ?_,
          (mlTextOK_mem hvok b (by simp)).1⟩
        · simpa using h1
        · simpa using h2

/-- **`get_pattern` reads a class pattern back** -/
theorem getPattern_ml {s : Src} (hs : AsciiThenBoundary s) (L : Nat) (p : List (PatElem Bytes)) (hcl : mlPattern p = true)
    (hpl : ∀ x, PatElem.placeable x ∈ p → PlRT (elemLevel L p) x) (q q' n : Nat)
    (hat : At s q (patText L p ++ [10])) (hf : PatFollow s (q + (patText L p).length + 1) q')
    (hn : 4 * (q' - q) + 8 ≤ n) :
    ∃ els, getPattern s n q = .ok (some els) q' ∧ mapPat (spanBytes s) els = p := by
  simp only [mlPattern, Bool.and_eq_true, Bool.not_eq_true', List.isEmpty_eq_false_iff] at hcl
  obtain ⟨⟨⟨⟨hne, hml⟩, hlast⟩, hfirst⟩, hexc⟩ := hcl
  obtain ⟨m, rfl⟩ : ∃ m, n = m + 1 := ⟨n - 1, by omega⟩
  have hq'ge : q + (patText L p).length + 1 ≤ q' := hf.1
  cases hs1 : startsOnNewLine p
  · -- inline start
    simp only [patText, patPrefix, hs1, Bool.false_eq_true, if_false, List.cons_append, List.nil_append, at_cons,
      List.length_cons] at hat hf hq'ge
    rw [hs1] at hml
    obtain ⟨b, rest, hbr, b1, b2, b3⟩ := elemsText_first_inline (elemLevel L p) p hne hpl hml (by
      intro v es hp
      simp only [mlFirstOK, hp] at hfirst
      rw [← hp, hs1] at hfirst
      simpa using hfirst)
    have hb0 : s[q + 1]? = some b := by
      have := hat.2; rw [hbr] at this; simp only [List.cons_append, at_cons] at this; exact this.1
    have hsbi : skipBlankInline s q = q + 1 := by
      rw [skipBlankInline_space s q hat.1]
      exact skipBlankInline_stay s _ (by rw [hb0]; simpa using b1)
    have heol : skipEol s (q + 1) = none := by
      unfold skipEol; rw [hb0]; split <;> simp_all
    have hLm : 0 < elemLevel L p ∨ isMultiline p = false := by
      cases hm : isMultiline p
      · exact Or.inr rfl
      · exact Or.inl (by simp [elemLevel, hm])
    have hcfin : excesses false p ≠ [] → ciAfter (4 * elemLevel L p) none (excesses false p) = some (4 * elemLevel L p) := by
      intro hex
      cases hm : isMultiline p
      · exact absurd (excesses_single p hm) hex
      · rw [hm, hs1] at hexc
        simp only [Bool.not_true, Bool.false_or, Bool.or_eq_true, List.isEmpty_iff] at hexc
        rcases hexc with hexc | hexc
        · exact absurd hexc hex
        · exact ciAfter_zero _ none _ trivial (by simpa using hexc)
    obtain ⟨phs, tr, hloop, hrel⟩ := mlLoop hs (elemLevel L p) p hpl false m (q + 1) q'
      ⟨[], none, none, .initialLineStart, none⟩ _ hml hlast (fun h => absurd h hne) hLm (fun h => by cases h)
      (by simp [mlRole]) rfl hcfin (bnd_succ hs hat.1 (by decide)) hat.2
      (by rw [show q + 1 + (elemsText (elemLevel L p) false p).length + 1 =
            q + ((elemsText (elemLevel L p) false p).length + 1) + 1 by omega]; exact hf)
      (by omega)
    obtain ⟨els, hfin, hmap⟩ := finishElements_mph s _ p hne phs tr 0 hrel
    refine ⟨els, ?_, hmap⟩
    have hpe : p.isEmpty = false := by cases p <;> simp_all
    rw [getPattern]
    simp only [hsbi, heol, hloop, hpe, Bool.false_eq_true, if_false, List.length_nil, List.nil_append]
    rw [Nat.zero_add] at hfin ⊢
    rw [hfin]
  · -- the pattern starts on a new line
    have hm : isMultiline p = true := by
      simp only [startsOnNewLine, Bool.and_eq_true] at hs1; exact hs1.2
    have hlev : elemLevel L p = L + 1 := by simp [elemLevel, hm]
    simp only [patText, patPrefix, hs1, if_true, List.cons_append, List.nil_append, at_cons, List.length_cons] at hat hf hq'ge
    rw [hs1] at hml hexc
    rw [hlev] at hat hf hpl hq'ge
    obtain ⟨k, b, rest, hkb, b1, b2, b3⟩ := elemsText_first_line (L + 1) p hne hpl hml (by
      intro v es hp
      simp only [mlFirstOK, hp] at hfirst
      rw [← hp, hs1] at hfirst
      simpa using hfirst)
    have hline : At s (q + 1) (spacesL k) ∧ s[q + 1 + k]? = some b := by
      have := hat.2
      rw [hkb, List.append_assoc, at_append] at this
      refine ⟨this.1, ?_⟩
      have h2 := this.2
      simp only [List.cons_append, at_cons] at h2
      simpa [spacesL] using h2.1
    have hsbi : skipBlankInline s q = q := skipBlankInline_stay s q (by rw [hat.1]; decide)
    have heol : skipEol s q = some (q + 1) := by simp [skipEol, hat.1]
    have hsbb : skipBlankBlock s (q + 1) = (q + 1, 0) :=
      skipBlankBlock_line s (q + 1) k b (at_spaces s _ k hline.1) hline.2 b1 b2 b3
    rw [hm] at hexc
    simp only [Bool.not_true, Bool.false_or, Bool.or_eq_true, List.isEmpty_iff] at hexc
    have hcfin : excesses true p ≠ [] → ciAfter (4 * (L + 1)) none (excesses true p) = some (4 * (L + 1)) := by
      intro hex
      rcases hexc with hexc | hexc
      · exact absurd hexc hex
      · exact ciAfter_zero _ none _ trivial (by simpa using hexc)
    obtain ⟨phs, tr, hloop, hrel⟩ := mlLoop hs (L + 1) p hpl true m (q + 1) q'
      ⟨[], none, none, .lineStart, none⟩ _ hml hlast (fun h => absurd h hne) (Or.inl (by omega)) (fun _ => by omega)
      (by simp [mlRole]) rfl hcfin (bnd_succ hs hat.1 (by decide)) hat.2
      (by rw [show q + 1 + (elemsText (L + 1) true p).length + 1 =
            q + ((elemsText (L + 1) true p).length + 1) + 1 by omega]; exact hf)
      (by omega)
    obtain ⟨els, hfin, hmap⟩ := finishElements_mph s _ p hne phs tr 0 hrel
    refine ⟨els, ?_, hmap⟩
    have hpe : p.isEmpty = false := by cases p <;> simp_all
    rw [getPattern]
    simp only [hsbi, heol, hsbb, hloop, hpe, Bool.false_eq_true, if_false, List.length_nil, List.nil_append]
    rw [Nat.zero_add] at hfin ⊢
    rw [hfin]

/-! ## `PatRT`, and the inline placeables -/

/-- round-trip property of a pattern written at indent level `L` -/
structure PatRT (L : Nat) (p : List (PatElem Bytes)) : Prop where
  ser : ∀ w : Writer, WS w L false →
    ∃ w', serPattern w p = some w' ∧ w'.buffer = w.buffer ++ (patText L p).toArray ∧ WS w' L false
  parse : ∀ (s : Src) (q q' n : Nat), AsciiThenBoundary s → At s q (patText L p ++ [10]) →
    PatFollow s (q + (patText L p).length + 1) q' → 4 * (q' - q) + 8 ≤ n →
    ∃ els, getPattern s n q = .ok (some els) q' ∧ mapPat (spanBytes s) els = p

/-- a class pattern whose placeables round-trip, round-trips -/
theorem patRT_of_ml (L : Nat) (p : List (PatElem Bytes)) (hcl : mlPattern p = true)
    (hpl : ∀ x, PatElem.placeable x ∈ p → PlRT (elemLevel L p) x) : PatRT L p :=
  ⟨fun w hw => serPattern_ml L p hcl hpl w hw,
   fun _ q q' n hs hat hf hn => getPattern_ml hs L p hcl hpl q q' n hat hf hn⟩

theorem elemBytes_inline_last (i : Inline Bytes) (hv : validInner (.inline i) = true) :
    (elemBytes (.placeable (.inline i))).getLast? = some 125 := by
  obtain ⟨pre, hp⟩ := elemBytes_placeable_last (.inline i) hv
  rw [hp]; simp

/-- `serialize_element` writes an inline placeable as one literal, whatever the writer -/
theorem serElement_inline_eq (i : Inline Bytes) (hv : validInner (.inline i) = true) (w : Writer) :
    serElement w (.placeable (.inline i)) = some (w.writeLiteral (elemBytes (.placeable (.inline i)))) := by
  have spaced : ∀ j : Inline Bytes, validInner (.inline j) = true →
      (serInline (w.writeLiteral [123, 32]) j).map (fun w1 => w1.writeLiteral [32, 125]) =
        some (w.writeLiteral (123 :: 32 :: (inlineBytes j ++ [32, 125]))) := by
    intro j hvj
    have hj := validInner_inline hvj
    obtain ⟨e1, t2⟩ := serInline_eq_bytes j hj (w.writeLiteral [123, 32])
    rw [e1, Option.map_some, join_tidy _ [123, 32] _ (by decide), join_tidy _ _ _ (tidy_append _ _ t2)]
    simp
  cases i with
  | placeable e2 =>
    cases e2 with
    | select a b =>
      have : validInner (.inline (.placeable (.select a b))) = validInline (.placeable (.select a b)) := rfl
      rw [this] at hv
      simp [validInline, validInner] at hv
    | inline j =>
      have hvj : validInner (.inline j) = true := by
        have : validInner (.inline (.placeable (.inline j))) = validInline (.placeable (.inline j)) := rfl
        rw [this] at hv
        simpa [validInline] using hv
      have hj := validInner_inline hvj
      simp only [serElement, serExpr, elemBytes, innerBytes, lit_dbl_lbrace, lit_dbl_rbrace]
      obtain ⟨e1, t2⟩ := serInline_eq_bytes j hj (w.writeLiteral [123, 123, 32])
      rw [e1, Option.map_some, join_tidy _ [123, 123, 32] _ (by decide), join_tidy _ _ _ (tidy_append _ _ t2)]
      simp
  | str v => simpa [serElement, elemBytes] using spaced _ hv
  | num v => simpa [serElement, elemBytes] using spaced _ hv
  | var v => simpa [serElement, elemBytes] using spaced _ hv
  | msg a b => simpa [serElement, elemBytes] using spaced _ hv
  | term a b c => simpa [serElement, elemBytes] using spaced _ hv
  | fn a b c => simpa [serElement, elemBytes] using spaced _ hv

/-- **inline placeables** (`{ i }`, `{{ i }}`) have the round-trip property at every level -/
theorem plRT_inline (L : Nat) (i : Inline Bytes) (hv : validInner (.inline i) = true) : PlRT L (.inline i) := by
  have htxt : exprText L (.inline i) = elemBytes (.placeable (.inline i)) := exprText_inline_valid L i hv
  obtain ⟨tl, htl⟩ := elemBytes_placeable_head (.inline i) hv
  have hlast := elemBytes_inline_last i hv
  refine ⟨by rw [htxt, htl]; rfl, by rw [htxt]; exact hlast, ?_, ?_⟩
  · intro w nl hw
    -- `serialize_element` writes the text as one literal
    have hser := serElement_inline_eq i hv w
    have hne : elemBytes (.placeable (.inline i)) ≠ [] := by rw [htl]; simp
    obtain ⟨hb, hw1⟩ := ws_writeLiteral hw _ hne (by rw [hlast]; decide)
    refine ⟨_, hser, by rw [htxt]; exact hb, ?_⟩
    have : endsNl (elemBytes (.placeable (.inline i))) = false := by simp [endsNl, hlast]
    rwa [this] at hw1
  · intro s p n hs hat hn
    rw [htxt] at hat hn ⊢
    have hfu := fuelElem_le (.placeable (.inline i)) (by simpa [validElem] using hv)
    exact getPlaceable_elem hs (.inline i) hv p n hat (by omega)

end FluentProofs.Ser
