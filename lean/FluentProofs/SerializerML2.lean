import FluentProofs.SerializerCrLoneLoop
/-!
# Serializer lemmas, part 12: `PatRT` — round trip of a class pattern at an indent level (C04 / T3)
-/
namespace FluentProofs.Ser
open FluentModel FluentModel.Syntax FluentModel.Syntax.Ser FluentProofs.Parser

/-! ## the serializer on the elements of a class pattern -/

theorem spaces_toList (n : Nat) : (spaces n).toList = spacesL n := by simp [spaces, spacesL]

/-- `write_literal` in a writer without trailing `\r`: indentation after a line feed, then the literal -/
theorem ws_writeLiteral {w : Writer} {L : Nat} {nl : Bool} (hw : WS w L nl) (item : Bytes) (hne : item ≠ [])
    (h13 : item.getLast? ≠ some 13) :
    (w.writeLiteral item).buffer = w.buffer ++ ((if nl then spacesL (4 * L) else []) ++ item).toArray ∧
      WS (w.writeLiteral item) L (endsNl item) := by
  obtain ⟨hL, h13w, h10w⟩ := hw
  have hbuf : (w.writeLiteral item).buffer = w.buffer ++ ((if nl then spacesL (4 * L) else []) ++ item).toArray := by
    cases nl with
    | true =>
      rw [writeLiteral_after_newline w item h10w, hL]
      apply Array.ext'
      simp [spaces_toList]
    | false =>
      rw [writeLiteral_mid_line w item h10w, h13w]
      simp
  refine ⟨hbuf, by simp [hL], ?_, ?_⟩
  · simp only [endsWith, hbuf, Array.back?_append]
    cases hl : item.getLast? with
    | none => simp at hl; exact absurd hl hne
    | some x =>
      have : ((if nl then spacesL (4 * L) else []) ++ item).toArray.back? = some x := by
        rw [← Array.getLast?_toList]; simp [List.getLast?_append, hl]
      rw [this]; simp
      intro hx; rw [hx] at hl; exact h13 hl
  · simp only [endsWith, hbuf, Array.back?_append, endsNl]
    cases hl : item.getLast? with
    | none => simp at hl; exact absurd hl hne
    | some x =>
      have : ((if nl then spacesL (4 * L) else []) ++ item).toArray.back? = some x := by
        rw [← Array.getLast?_toList]; simp [List.getLast?_append, hl]
      rw [this]; simp

def finalNl : Bool → List (PatElem Bytes) → Bool
  | nl, [] => nl
  | _, .text v :: es => finalNl (endsNl v) es
  | _, .placeable _ :: es => finalNl false es

/-- `write_literal` whatever the writer ends with: indentation after a line feed, a second `\r` between a `\r` and a
`\n`, then the literal -/
theorem wsc_writeLiteral {w : Writer} {L : Nat} {nl : Bool} (hw : WSc w L nl) (item : Bytes) (hne : item ≠ []) :
    (w.writeLiteral item).buffer = w.buffer ++ ((if nl then spacesL (4 * L) else []) ++
        (if endsWith w 13 && item.head? == some 10 then [13] else []) ++ item).toArray ∧
      WSc (w.writeLiteral item) L (endsNl item) ∧ endsWith (w.writeLiteral item) 13 = endsCr item := by
  obtain ⟨hL, h10w⟩ := hw
  have hbuf : (w.writeLiteral item).buffer = w.buffer ++ ((if nl then spacesL (4 * L) else []) ++
      (if endsWith w 13 && item.head? == some 10 then [13] else []) ++ item).toArray := by
    cases nl with
    | true =>
      have h13 : endsWith w 13 = false := by
        rw [endsWith_iff] at h10w
        simp [endsWith, h10w]
      rw [writeLiteral_after_newline w item h10w, hL, h13]
      apply Array.ext'
      simp [spaces_toList]
    | false =>
      rw [writeLiteral_mid_line w item h10w]
      apply Array.ext'
      simp only [Array.toList_append, List.toList_toArray, Bool.false_eq_true, if_false, List.nil_append,
        List.append_assoc, List.append_cancel_left_eq]
      split <;> simp
  have hback : ∀ x, item.getLast? = some x → (w.writeLiteral item).buffer.back? = some x := by
    intro x hl
    rw [hbuf, Array.back?_append]
    have : ((if nl then spacesL (4 * L) else []) ++
        (if endsWith w 13 && item.head? == some 10 then [13] else []) ++ item).toArray.back? = some x := by
      rw [← Array.getLast?_toList]; simp [List.getLast?_append, hl]
    rw [this]; simp
  cases hl : item.getLast? with
  | none => simp at hl; exact absurd hl hne
  | some x =>
    refine ⟨hbuf, ⟨by simp [hL], ?_⟩, ?_⟩
    · simp [endsWith, hback x hl, endsNl, hl]
    · simp [endsWith, hback x hl, endsCr, hl]

/-- `write_literal` of a literal that does not start with `\n` and does not end with `\r`, whatever the writer ends with -/
theorem wsc_writeLiteral_plain {w : Writer} {L : Nat} {nl : Bool} (hw : WSc w L nl) (item : Bytes) (hne : item ≠ [])
    (hhead : item.head? ≠ some 10) (h13 : item.getLast? ≠ some 13) :
    (w.writeLiteral item).buffer = w.buffer ++ ((if nl then spacesL (4 * L) else []) ++ item).toArray ∧
      WS (w.writeLiteral item) L (endsNl item) := by
  obtain ⟨hb, hw1, hcr⟩ := wsc_writeLiteral hw item hne
  have hh : (item.head? == some 10) = false := by simpa using hhead
  rw [hh, Bool.and_false] at hb
  refine ⟨by simpa using hb, hw1.1, ?_, hw1.2⟩
  rw [hcr]; simpa [endsCr] using h13

theorem crPad_nil (es : List (PatElem Bytes)) : crPad [] es = [] := crPad_of_notCr (by decide) es

theorem mlLastOK_notCr {v : Bytes} {es : List (PatElem Bytes)} (h : mlLastOK (.text v :: es) = true)
    (hcr : endsCr v = true) : es ≠ [] := by
  intro h0; subst h0
  simp only [endsCr, beq_iff_eq] at hcr
  simp [mlLastOK, hcr] at h

/-- the serializer on the elements of a class pattern, behind a text `prev` (whose last byte is what the writer ends
with, as far as `\r` is concerned) -/
theorem serElements_ml_g (L : Nat) (es : List (PatElem Bytes)) :
    ∀ (hpl : ∀ x, PatElem.placeable x ∈ es → PlRT L x) (nl : Bool) (w : Writer) (prev : Bytes), mlElems nl es = true →
      mlLastOK es = true → WSc w L nl → endsWith w 13 = endsCr prev → (endsCr prev = true → es ≠ []) →
      ∃ w', serElements w es = some w' ∧ w'.buffer = w.buffer ++ (crPad prev es ++ elemsText L nl es).toArray ∧
        WS w' L (finalNl nl es) := by
  induction es with
  | nil =>
    intro _ nl w prev _ _ hw h13 hne
    have hcr : endsCr prev = false := by
      cases h : endsCr prev
      · rfl
      · exact absurd rfl (hne h)
    exact ⟨w, by simp [serElements], by simp [elemsText, crPad], hw.1, by rw [h13, hcr], hw.2⟩
  | cons e es ih =>
    intro hpl nl w prev hml hlast hw h13 _
    have hpl' : ∀ x, PatElem.placeable x ∈ es → PlRT L x := fun x hx => hpl x (List.mem_cons_of_mem _ hx)
    have hlast' := mlLastOK_tail hlast
    cases e with
    | text v =>
      simp only [mlElems, Bool.and_eq_true] at hml
      obtain ⟨⟨⟨hvok, _⟩, _⟩, hml'⟩ := hml
      have hvne := mlTextOK_ne hvok
      obtain ⟨hbuf, hw1, h13'⟩ := wsc_writeLiteral hw v hvne
      obtain ⟨w', h1, h2, h3⟩ := ih hpl' (endsNl v) (w.writeLiteral v) v hml' hlast' hw1 h13'
        (fun hcr => mlLastOK_notCr hlast hcr)
      refine ⟨w', by simp only [serElements, serElement, h1], ?_, by simpa [finalNl] using h3⟩
      rw [h2, hbuf, h13]
      apply Array.ext'
      cases nl with
      | false => simp [elemsText, crPad]
      | true =>
        have hcr : endsCr prev = false := by
          rw [← h13]
          have := hw.2
          rw [endsWith_iff] at this
          simp [endsWith, this]
        simp [elemsText, crPad, hcr]
    | placeable x =>
      have hml' : mlElems false es = true := by simpa [mlElems] using hml
      obtain ⟨w1, hs1, hbuf, hw1⟩ := (hpl x (List.mem_cons_self)).ser w nl hw
      obtain ⟨w', h1, h2, h3⟩ := ih hpl' false w1 [] hml' hlast' hw1.toC (by rw [hw1.2.1]; rfl)
        (fun h => by cases h)
      refine ⟨w', by simp only [serElements, hs1, h1], ?_, by simpa [finalNl] using h3⟩
      rw [h2, hbuf, crPad_nil]
      apply Array.ext'
      simp [elemsText, crPad]

theorem serElements_ml (L : Nat) (es : List (PatElem Bytes)) (hpl : ∀ x, PatElem.placeable x ∈ es → PlRT L x)
    (nl : Bool) (w : Writer) (hml : mlElems nl es = true) (hlast : mlLastOK es = true) (hw : WS w L nl) :
    ∃ w', serElements w es = some w' ∧ w'.buffer = w.buffer ++ (elemsText L nl es).toArray ∧
      WS w' L (finalNl nl es) := by
  have := serElements_ml_g L es hpl nl w [] hml hlast hw.toC (by rw [hw.2.1]; rfl) (fun h => by cases h)
  rwa [crPad_nil, List.nil_append] at this

theorem finalNl_last (nl : Bool) (es : List (PatElem Bytes)) (hne : es ≠ []) (hl : mlLastOK es = true) :
    finalNl nl es = false := by
  induction es generalizing nl with
  | nil => exact absurd rfl hne
  | cons e es ih =>
    cases es with
    | nil =>
      cases e with
      | text v =>
        simp only [mlLastOK, Bool.and_eq_true, bne_iff_ne, ne_eq] at hl
        simp only [finalNl, endsNl, beq_eq_false_iff_ne, ne_eq]
        exact hl.1.2
      | placeable x => rfl
    | cons e2 rest =>
      have := fun nl' => ih nl' (by simp) (mlLastOK_tail hl)
      cases e <;> simp only [finalNl] <;> exact this _

theorem ws_indent {w : Writer} {L : Nat} {nl : Bool} (h : WS w L nl) : WS w.indent (L + 1) nl := by
  obtain ⟨a, b, c⟩ := h
  exact ⟨by simp [a], b, c⟩

theorem serPattern_ml (L : Nat) (p : List (PatElem Bytes)) (hcl : mlPattern p = true)
    (hpl : ∀ x, PatElem.placeable x ∈ p → PlRT (elemLevel L p) x) (w : Writer) (hw : WS w L false) :
    ∃ w', serPattern w p = some w' ∧ w'.buffer = w.buffer ++ (patText L p).toArray ∧ WS w' L false := by
  simp only [mlPattern, Bool.and_eq_true, Bool.not_eq_true', List.isEmpty_eq_false_iff] at hcl
  obtain ⟨⟨⟨⟨hne, hml⟩, hlast⟩, _⟩, _⟩ := hcl
  obtain ⟨hL, h13, h10⟩ := hw
  -- the writer after `patternPre`
  have hpre : (patternPre w p).buffer = w.buffer ++ (patPrefix p).toArray ∧
      WS (patternPre w p) (elemLevel L p) (startsOnNewLine p) := by
    unfold patternPre patPrefix elemLevel
    simp only []
    cases hs : startsOnNewLine p
    · have hw' : WS w L false := ⟨hL, h13, h10⟩
      obtain ⟨hb, hw1⟩ := ws_writeLiteral hw' [32] (by simp) (by simp)
      simp only [Bool.false_eq_true, if_false, lit_sp]
      have hw1' : WS (w.writeLiteral [32]) L false := by simpa [endsNl] using hw1
      split
      · exact ⟨by simpa using hb, ws_indent hw1'⟩
      · exact ⟨by simpa using hb, hw1'⟩
    · have hb : w.newline.buffer = w.buffer ++ #[10] := by rw [newline_buffer, h13]; simp
      have hw1 : WS w.newline L true := ⟨by simp [hL], by simp [endsWith, hb, Array.back?_append], by simp⟩
      simp only [if_true]
      split
      · exact ⟨by simpa using hb, ws_indent hw1⟩
      · exact ⟨by simpa using hb, hw1⟩
  obtain ⟨w3, hs3, hb3, hw3⟩ := serElements_ml (elemLevel L p) p hpl (startsOnNewLine p) (patternPre w p) hml hlast hpre.2
  rw [finalNl_last _ p hne hlast] at hw3
  simp only [serPattern, hs3]
  unfold patternPost
  have hbuf : w3.buffer = w.buffer ++ (patText L p).toArray := by
    rw [hb3, hpre.1]; apply Array.ext'; simp [patText]
  obtain ⟨a, b, c⟩ := hw3
  split
  · rename_i hm
    have ha : w3.indentLevel = L + 1 := by simpa [elemLevel, hm] using a
    obtain ⟨w', hd, hl, hbf⟩ := dedent_of_pos (w := w3) (by omega)
    exact ⟨w', hd, by rw [hbf, hbuf], by omega, by simpa [endsWith, hbf] using b, by simpa [endsWith, hbf] using c⟩
  · rename_i hm
    have ha : w3.indentLevel = L := by simpa [elemLevel, hm] using a
    exact ⟨w3, rfl, hbuf, ha, b, c⟩

/-! ## `get_pattern` on a class pattern -/

theorem skipEol_lone (s : Src) (p : Nat) (b : UInt8) (hb : s[p]? = some b) (h2 : b ≠ 10)
    (h3 : b = 13 → s[p + 1]? ≠ some 10) : skipEol s p = none := by
  unfold skipEol
  rw [hb]
  split
  · rename_i hh; cases hh; exact absurd rfl h2
  · rename_i hh; cases hh; simpa using h3 rfl
  · rfl

theorem skipBlankBlock_line (s : Src) (q k : Nat) (b : UInt8) (hsp : ∀ j, j < k → s[q + j]? = some 32)
    (hb : s[q + k]? = some b) (h1 : b ≠ 32) (h2 : b ≠ 10) (h3 : b = 13 → s[q + k + 1]? ≠ some 10) :
    skipBlankBlock s q = (q, 0) := by
  have hsbi : skipBlankInline s q = q + k := skipBlankInline_run s k q hsp (by rw [hb]; simpa using h1)
  unfold skipBlankBlock
  rw [skipBlankBlockGo, hsbi, skipEol_lone s (q + k) b hb h2 h3]
  simp [get_lt hb]

theorem exprText_head_of {L : Nat} {x : Expr Bytes} (h : PlRT L x) : ∃ rest, exprText L x = 123 :: rest := by
  have := h.head
  cases hx : exprText L x with
  | nil => simp [hx] at this
  | cons a as => simp [hx] at this; subst this; exact ⟨as, rfl⟩

/-- inside a class text a `\r` is not followed by `\n` -/
theorem mlTextOK_cr_lone {v : Bytes} (hv : mlTextOK v = true) (pre post : Bytes) (h : v = pre ++ 13 :: post) :
    post.head? ≠ some 10 := by
  intro h10
  cases post with
  | nil => simp at h10
  | cons b post' =>
    simp only [List.head?_cons, Option.some.injEq] at h10
    subst h10
    cases post' with
    | nil =>
      have : crlfEnd v = true := (crlfEnd_iff v).mpr ⟨pre, h⟩
      rw [mlTextOK_nocrlf hv] at this; cases this
    | cons c r =>
      apply mlTextOK_init hv 10 _ rfl
      rw [h, show pre ++ 13 :: 10 :: c :: r = (pre ++ [13, 10]) ++ (c :: r) by simp,
        List.dropLast_append_of_ne_nil (by simp)]
      simp

/-- in the text of a class pattern, a `\r` of a text element is followed by a byte other than `\n` -/
theorem text_tail_lone (L : Nat) (nl : Bool) (v : Bytes) (es : List (PatElem Bytes))
    (hpl : ∀ x, PatElem.placeable x ∈ es → PlRT L x) (hml : mlElems nl (.text v :: es) = true)
    (hlast : mlLastOK (.text v :: es) = true) (pre post : Bytes) (h : v = pre ++ 13 :: post) :
    ∃ b2 r2, post ++ crPad v es ++ elemsText L (endsNl v) es = b2 :: r2 ∧ b2 ≠ 10 := by
  have hvok : mlTextOK v = true := by
    simp only [mlElems, Bool.and_eq_true] at hml; exact hml.1.1.1
  have hlone := mlTextOK_cr_lone hvok pre post h
  cases post with
  | cons b2 r => exact ⟨b2, r ++ crPad v es ++ elemsText L (endsNl v) es, by simp, by simpa using hlone⟩
  | nil =>
    have hcr : v.getLast? = some 13 := by rw [h]; simp
    rcases ml_next v es nl hml hlast with ⟨hnv, _⟩ | ⟨_, _, x, hx, _, _, x3⟩ | ⟨hnv, x, es', hes⟩ | ⟨hnv, _, es', hes⟩
    · simp [endsNl, hcr] at hnv
    · rw [hcr] at hx; cases hx; exact absurd rfl x3
    · subst hes
      obtain ⟨rest, hr⟩ := exprText_head_of (hpl x (List.mem_cons_self))
      exact ⟨123, rest ++ elemsText L false es', by simp [crPad, hnv, elemsText, hr], by decide⟩
    · subst hes
      exact ⟨13, elemsText L (endsNl v) (.text [10] :: es'), by simp [crPad, endsCr, hcr], by decide⟩

/-- the first line of a pattern that starts on a new line: indentation, then a byte that is no blank and no
line end (a `\r` is followed by a byte other than `\n`) -/
theorem elemsText_first_line (L : Nat) (p : List (PatElem Bytes)) (hne : p ≠ [])
    (hpl : ∀ x, PatElem.placeable x ∈ p → PlRT L x) (hml : mlElems true p = true) (hlast : mlLastOK p = true)
    (hfirst : ∀ v es, p = .text v :: es → v ≠ [10]) :
    ∃ k b rest, elemsText L true p = spacesL k ++ b :: rest ∧ b ≠ 32 ∧ b ≠ 10 ∧
      (b = 13 → ∃ b2 r2, rest = b2 :: r2 ∧ b2 ≠ 10) := by
  cases p with
  | nil => exact absurd rfl hne
  | cons e es =>
    cases e with
    | placeable x =>
      obtain ⟨rest, hr⟩ := exprText_head_of (hpl x (List.mem_cons_self))
      exact ⟨4 * L, 123, rest ++ elemsText L false es, by simp [elemsText, hr], by decide, by decide,
        fun h => by cases h⟩
    | text v =>
      have hv10 := hfirst v es rfl
      have hml0 := hml
      simp only [mlElems, Bool.and_eq_true] at hml
      obtain ⟨⟨⟨hvok, _⟩, hls⟩, _⟩ := hml
      have hlsok : lineStartOK v es = true := by
        simp only [Bool.not_true, Bool.false_or, Bool.or_eq_true, beq_iff_eq] at hls
        rcases hls with h | h
        · exact absurd h hv10
        · exact h
      have hsplit := leadSpaces_split v
      cases hu : v.dropWhile (fun b => b == 32) with
      | nil =>
        simp only [lineStartOK, hu] at hlsok
        cases es with
        | nil => simp at hlsok
        | cons e2 es' =>
          cases e2 with
          | text w => simp at hlsok
          | placeable x =>
            obtain ⟨rest, hr⟩ := exprText_head_of (hpl x (by simp))
            have hnv : endsNl v = false := by
              have hv2 : v = spacesL (leadSpaces v) := by rw [hu] at hsplit; simpa using hsplit
              have hk0 : 0 < leadSpaces v := by
                have := mlTextOK_ne hvok
                have h2 := congrArg List.length hv2
                simp [spacesL] at h2
                cases v with
                | nil => exact absurd rfl this
                | cons _ _ => simp at h2; omega
              have : v.getLast? = some 32 := by
                rw [hv2]; simp [spacesL, List.getLast?_replicate]; omega
              simp [endsNl, this]
            refine ⟨4 * L + leadSpaces v, 123, rest ++ elemsText L false es', ?_, by decide, by decide,
              fun h => by cases h⟩
            rw [hu] at hsplit
            simp only [elemsText, if_true, hnv, Bool.false_eq_true, if_false, List.nil_append, hr, crPad]
            generalize leadSpaces v = k at hsplit ⊢
            rw [hsplit]
            simp [spacesL, ← List.replicate_append_replicate]
      | cons c u' =>
        simp only [lineStartOK, hu] at hlsok
        simp only [contentStartOK, Bool.and_eq_true, bne_iff_ne, ne_eq] at hlsok
        rw [hu] at hsplit
        refine ⟨4 * L + leadSpaces v, c, u' ++ crPad v es ++ elemsText L (endsNl v) es, ?_, hlsok.1.1.1.1,
          hlsok.1.1.1.2, ?_⟩
        · simp only [elemsText, if_true]
          generalize leadSpaces v = k at hsplit ⊢
          generalize endsNl v = nv
          generalize crPad v es = pad
          rw [hsplit]
          simp [spacesL, ← List.replicate_append_replicate]
        · intro hc; subst hc
          exact text_tail_lone L true v es (fun x hx => hpl x (List.mem_cons_of_mem _ hx)) hml0 hlast _ u' hsplit

theorem excesses_single (p : List (PatElem Bytes)) (h : isMultiline p = false) : excesses false p = [] := by
  induction p with
  | nil => rfl
  | cons e es ih =>
    cases e with
    | placeable x =>
      simp only [isMultiline, Bool.or_eq_false_iff] at h
      simp [excesses, ih h.2]
    | text v =>
      simp only [isMultiline, Bool.or_eq_false_iff] at h
      have hnv : endsNl v = false := by
        simp only [endsNl, beq_eq_false_iff_ne, ne_eq]
        intro hl
        have := List.mem_of_getLast? hl
        have h1 := h.1
        rw [List.contains_eq_mem] at h1
        simp [this] at h1
      simp [excesses, hnv, ih h.2]

theorem elemsText_first_inline (L : Nat) (p : List (PatElem Bytes)) (hne : p ≠ [])
    (hpl : ∀ x, PatElem.placeable x ∈ p → PlRT L x) (hml : mlElems false p = true) (hlast : mlLastOK p = true)
    (hfirst : ∀ v es, p = .text v :: es → v.head? ≠ some 32 ∧ v.head? ≠ some 10) :
    ∃ b rest, elemsText L false p = b :: rest ∧ b ≠ 32 ∧ b ≠ 10 ∧ (b = 13 → ∃ b2 r2, rest = b2 :: r2 ∧ b2 ≠ 10) := by
  cases p with
  | nil => exact absurd rfl hne
  | cons e es =>
    cases e with
    | placeable x =>
      obtain ⟨rest, hr⟩ := exprText_head_of (hpl x (List.mem_cons_self))
      exact ⟨123, rest ++ elemsText L false es, by simp [elemsText, hr], by decide, by decide, fun h => by cases h⟩
    | text v =>
      obtain ⟨h1, h2⟩ := hfirst v es rfl
      have hml0 := hml
      simp only [mlElems, Bool.and_eq_true] at hml
      obtain ⟨⟨⟨hvok, _⟩, _⟩, _⟩ := hml
      cases v with
      | nil => exact absurd rfl (mlTextOK_ne hvok)
      | cons b rest =>
        refine ⟨b, rest ++ crPad (b :: rest) es ++ elemsText L (endsNl (b :: rest)) es, by simp [elemsText], ?_, ?_, ?_⟩
        · simpa using h1
        · simpa using h2
        · intro hb; subst hb
          exact text_tail_lone L false _ es (fun x hx => hpl x (List.mem_cons_of_mem _ hx)) hml0 hlast [] rest rfl

/-- **`get_pattern` reads a class pattern back** -/
theorem getPattern_ml {s : Src} (hs : AsciiThenBoundary s) (L : Nat) (p : List (PatElem Bytes)) (hcl : mlPattern p = true)
    (hpl : ∀ x, PatElem.placeable x ∈ p → PlRT (elemLevel L p) x) (q q' n : Nat)
    (hat : At s q (patText L p ++ [10])) (hf : PatFollow s (q + (patText L p).length + 1) q')
    (hn : 4 * (q' - q) + 8 ≤ n) :
    ∃ els, getPattern s n q = .ok (some els) q' ∧ mapPat (spanBytes s) els = p := by
  simp only [mlPattern, Bool.and_eq_true, Bool.not_eq_true', List.isEmpty_eq_false_iff] at hcl
  obtain ⟨⟨⟨⟨hne, hml⟩, hlast⟩, hfirst⟩, hexc⟩ := hcl
  obtain ⟨m, rfl⟩ : ∃ m, n = m + 1 := ⟨n - 1, by omega⟩
  have hq'ge : q + (patText L p).length + 1 ≤ q' := hf.1
  cases hs1 : startsOnNewLine p
  · -- inline start
    simp only [patText, patPrefix, hs1, Bool.false_eq_true, if_false, List.cons_append, List.nil_append, at_cons,
      List.length_cons] at hat hf hq'ge
    rw [hs1] at hml
    obtain ⟨b, rest, hbr, b1, b2, b3⟩ := elemsText_first_inline (elemLevel L p) p hne hpl hml hlast (by
      intro v es hp
      simp only [mlFirstOK, hp] at hfirst
      rw [← hp, hs1] at hfirst
      simpa using hfirst)
    have hb0 : s[q + 1]? = some b := by
      have := hat.2; rw [hbr] at this; simp only [List.cons_append, at_cons] at this; exact this.1
    have hsbi : skipBlankInline s q = q + 1 := by
      rw [skipBlankInline_space s q hat.1]
      exact skipBlankInline_stay s _ (by rw [hb0]; simpa using b1)
    have heol : skipEol s (q + 1) = none := by
      apply skipEol_lone s (q + 1) b hb0 b2
      intro hb13
      obtain ⟨c2, r2, hr2, hc2⟩ := b3 hb13
      have := hat.2
      rw [hbr, hr2] at this
      simp only [List.cons_append, at_cons] at this
      rw [this.2.1]; simpa using hc2
    have hLm : 0 < elemLevel L p ∨ isMultiline p = false := by
      cases hm : isMultiline p
      · exact Or.inr rfl
      · exact Or.inl (by simp [elemLevel, hm])
    have hcfin : excesses false p ≠ [] → ciAfter (4 * elemLevel L p) none (excesses false p) = some (4 * elemLevel L p) := by
      intro hex
      cases hm : isMultiline p
      · exact absurd (excesses_single p hm) hex
      · rw [hm, hs1] at hexc
        simp only [Bool.not_true, Bool.false_or, Bool.or_eq_true, List.isEmpty_iff] at hexc
        rcases hexc with hexc | hexc
        · exact absurd hexc hex
        · exact ciAfter_zero _ none _ trivial (by simpa using hexc)
    obtain ⟨phs, tr, hloop, hrel⟩ := mlLoop hs (elemLevel L p) p hpl false m (q + 1) q'
      ⟨[], none, none, .initialLineStart, none⟩ _ hml hlast (fun h => absurd h hne) hLm (fun h => by cases h)
      (by simp [mlRole]) rfl hcfin (bnd_succ hs hat.1 (by decide)) hat.2
      (by rw [show q + 1 + (elemsText (elemLevel L p) false p).length + 1 =
            q + ((elemsText (elemLevel L p) false p).length + 1) + 1 by omega]; exact hf)
      (by omega)
    obtain ⟨els, hfin, hmap⟩ := finishElements_mph s _ p hne phs tr 0 hrel
    refine ⟨els, ?_, hmap⟩
    have hpe : p.isEmpty = false := by cases p <;> simp_all
    rw [getPattern]
    simp only [hsbi, heol, hloop, hpe, Bool.false_eq_true, if_false, List.length_nil, List.nil_append]
    rw [Nat.zero_add] at hfin ⊢
    rw [hfin]
  · -- the pattern starts on a new line
    have hm : isMultiline p = true := by
      simp only [startsOnNewLine, Bool.and_eq_true] at hs1; exact hs1.2
    have hlev : elemLevel L p = L + 1 := by simp [elemLevel, hm]
    simp only [patText, patPrefix, hs1, if_true, List.cons_append, List.nil_append, at_cons, List.length_cons] at hat hf hq'ge
    rw [hs1] at hml hexc
    rw [hlev] at hat hf hpl hq'ge
    obtain ⟨k, b, rest, hkb, b1, b2, b3⟩ := elemsText_first_line (L + 1) p hne hpl hml hlast (by
      intro v es hp
      simp only [mlFirstOK, hp] at hfirst
      rw [← hp, hs1] at hfirst
      simpa using hfirst)
    have hline : At s (q + 1) (spacesL k) ∧ s[q + 1 + k]? = some b := by
      have := hat.2
      rw [hkb, List.append_assoc, at_append] at this
      refine ⟨this.1, ?_⟩
      have h2 := this.2
      simp only [List.cons_append, at_cons] at h2
      simpa [spacesL] using h2.1
    have hsbi : skipBlankInline s q = q := skipBlankInline_stay s q (by rw [hat.1]; decide)
    have heol : skipEol s q = some (q + 1) := by simp [skipEol, hat.1]
    have hsbb : skipBlankBlock s (q + 1) = (q + 1, 0) :=
      skipBlankBlock_line s (q + 1) k b (at_spaces s _ k hline.1) hline.2 b1 b2 (by
        intro hb13
        obtain ⟨c2, r2, hr2, hc2⟩ := b3 hb13
        have := hat.2
        rw [hkb, hr2, List.append_assoc, at_append] at this
        have h2 := this.2
        simp only [List.cons_append, at_cons] at h2
        have h3 := h2.2.1
        simp only [spacesL, List.length_replicate] at h3
        rw [h3]; simpa using hc2)
    rw [hm] at hexc
    simp only [Bool.not_true, Bool.false_or, Bool.or_eq_true, List.isEmpty_iff] at hexc
    have hcfin : excesses true p ≠ [] → ciAfter (4 * (L + 1)) none (excesses true p) = some (4 * (L + 1)) := by
      intro hex
      rcases hexc with hexc | hexc
      · exact absurd hexc hex
      · exact ciAfter_zero _ none _ trivial (by simpa using hexc)
    obtain ⟨phs, tr, hloop, hrel⟩ := mlLoop hs (L + 1) p hpl true m (q + 1) q'
      ⟨[], none, none, .lineStart, none⟩ _ hml hlast (fun h => absurd h hne) (Or.inl (by omega)) (fun _ => by omega)
      (by simp [mlRole]) rfl hcfin (bnd_succ hs hat.1 (by decide)) hat.2
      (by rw [show q + 1 + (elemsText (L + 1) true p).length + 1 =
            q + ((elemsText (L + 1) true p).length + 1) + 1 by omega]; exact hf)
      (by omega)
    obtain ⟨els, hfin, hmap⟩ := finishElements_mph s _ p hne phs tr 0 hrel
    refine ⟨els, ?_, hmap⟩
    have hpe : p.isEmpty = false := by cases p <;> simp_all
    rw [getPattern]
    simp only [hsbi, heol, hsbb, hloop, hpe, Bool.false_eq_true, if_false, List.length_nil, List.nil_append]
    rw [Nat.zero_add] at hfin ⊢
    rw [hfin]

/-! ## `PatRT`, and the inline placeables -/

/-- round-trip property of a pattern written at indent level `L` -/
structure PatRT (L : Nat) (p : List (PatElem Bytes)) : Prop where
  ser : ∀ w : Writer, WS w L false →
    ∃ w', serPattern w p = some w' ∧ w'.buffer = w.buffer ++ (patText L p).toArray ∧ WS w' L false
  parse : ∀ (s : Src) (q q' n : Nat), AsciiThenBoundary s → At s q (patText L p ++ [10]) →
    PatFollow s (q + (patText L p).length + 1) q' → 4 * (q' - q) + 8 ≤ n →
    ∃ els, getPattern s n q = .ok (some els) q' ∧ mapPat (spanBytes s) els = p

/-- a class pattern whose placeables round-trip, round-trips -/
theorem patRT_of_ml (L : Nat) (p : List (PatElem Bytes)) (hcl : mlPattern p = true)
    (hpl : ∀ x, PatElem.placeable x ∈ p → PlRT (elemLevel L p) x) : PatRT L p :=
  ⟨fun w hw => serPattern_ml L p hcl hpl w hw,
   fun _ q q' n hs hat hf hn => getPattern_ml hs L p hcl hpl q q' n hat hf hn⟩

theorem elemBytes_inline_last (i : Inline Bytes) (hv : validInner (.inline i) = true) :
    (elemBytes (.placeable (.inline i))).getLast? = some 125 := by
  obtain ⟨pre, hp⟩ := elemBytes_placeable_last (.inline i) hv
  rw [hp]; simp

/-- `serialize_element` writes an inline placeable as one literal, whatever the writer -/
theorem serElement_inline_eq (i : Inline Bytes) (hv : validInner (.inline i) = true) (w : Writer) :
    serElement w (.placeable (.inline i)) = some (w.writeLiteral (elemBytes (.placeable (.inline i)))) := by
  have spaced : ∀ j : Inline Bytes, validInner (.inline j) = true →
      (serInline (w.writeLiteral [123, 32]) j).map (fun w1 => w1.writeLiteral [32, 125]) =
        some (w.writeLiteral (123 :: 32 :: (inlineBytes j ++ [32, 125]))) := by
    intro j hvj
    have hj := validInner_inline hvj
    obtain ⟨e1, t2⟩ := serInline_eq_bytes j hj (w.writeLiteral [123, 32])
    rw [e1, Option.map_some, join_tidy _ [123, 32] _ (by decide), join_tidy _ _ _ (tidy_append _ _ t2)]
    simp
  cases i with
  | placeable e2 =>
    cases e2 with
    | select a b =>
      have : validInner (.inline (.placeable (.select a b))) = validInline (.placeable (.select a b)) := rfl
      rw [this] at hv
      simp [validInline, validInner] at hv
    | inline j =>
      have hvj : validInner (.inline j) = true := by
        have : validInner (.inline (.placeable (.inline j))) = validInline (.placeable (.inline j)) := rfl
        rw [this] at hv
        simpa [validInline] using hv
      have hj := validInner_inline hvj
      simp only [serElement, serExpr, elemBytes, innerBytes, lit_dbl_lbrace, lit_dbl_rbrace]
      obtain ⟨e1, t2⟩ := serInline_eq_bytes j hj (w.writeLiteral [123, 123, 32])
      rw [e1, Option.map_some, join_tidy _ [123, 123, 32] _ (by decide), join_tidy _ _ _ (tidy_append _ _ t2)]
      simp
  | str v => simpa [serElement, elemBytes] using spaced _ hv
  | num v => simpa [serElement, elemBytes] using spaced _ hv
  | var v => simpa [serElement, elemBytes] using spaced _ hv
  | msg a b => simpa [serElement, elemBytes] using spaced _ hv
  | term a b c => simpa [serElement, elemBytes] using spaced _ hv
  | fn a b c => simpa [serElement, elemBytes] using spaced _ hv

/-- **inline placeables** (`{ i }`, `{{ i }}`) have the round-trip property at every level -/
theorem plRT_inline (L : Nat) (i : Inline Bytes) (hv : validInner (.inline i) = true) : PlRT L (.inline i) := by
  have htxt : exprText L (.inline i) = elemBytes (.placeable (.inline i)) := exprText_inline_valid L i hv
  obtain ⟨tl, htl⟩ := elemBytes_placeable_head (.inline i) hv
  have hlast := elemBytes_inline_last i hv
  refine ⟨by rw [htxt, htl]; rfl, by rw [htxt]; exact hlast, ?_, ?_⟩
  · intro w nl hw
    -- `serialize_element` writes the text as one literal
    have hser := serElement_inline_eq i hv w
    have hne : elemBytes (.placeable (.inline i)) ≠ [] := by rw [htl]; simp
    obtain ⟨hb, hw1⟩ := wsc_writeLiteral_plain hw _ hne (by rw [htl]; simp) (by rw [hlast]; decide)
    refine ⟨_, hser, by rw [htxt]; exact hb, ?_⟩
    have : endsNl (elemBytes (.placeable (.inline i))) = false := by simp [endsNl, hlast]
    rwa [this] at hw1
  · intro s p n hs hat hn
    rw [htxt] at hat hn ⊢
    have hfu := fuelElem_le (.placeable (.inline i)) (by simpa [validElem] using hv)
    exact getPlaceable_elem hs (.inline i) hv p n hat (by omega)

end FluentProofs.Ser
