import FluentProofs.ParserValidLeaf
/-!
# `ValidEntry` pass over the eight mutually recursive parser functions

Partial-correctness style (no hypotheses on the source, the cursor or the fuel): whenever one of
the functions returns `ok`, the value it returns satisfies the AST-visible syntax rules of
`FluentProofs/ParserValid.lean`.  Joint induction on fuel (`VSpecs`).
-/
namespace FluentProofs.Parser
open FluentModel FluentModel.Syntax

/-- validity invariant of `get_pattern`'s loop state -/
def PSV (s : Src) (st : PatState) : Prop :=
  (∀ ph ∈ st.elements, PhV s ph) ∧
  ∀ lnb, st.lastNonBlank = some lnb → ∃ ph, st.elements[lnb]? = some ph ∧ Strong ph

structure VSpecs (s : Src) (n : Nat) : Prop where
  patternLoop : ∀ st p st' q, getPatternLoop s n st p = .ok st' q → PSV s st → PSV s st'
  pattern : ∀ p o q, getPattern s n p = .ok o q → ∀ els, o = some els → patOk s els = true
  placeable : ∀ p e q, getPlaceable s n p = .ok e q → vExpr s e = true
  expression : ∀ p e q, getExpression s n p = .ok e q → vExpr s e = true
  inline : ∀ ol p e q, getInline s n ol p = .ok e q → vInline s e = true
  callArguments : ∀ p o q, getCallArguments s n p = .ok o q → ∀ pos named, o = some (pos, named) →
    vInl s pos = true ∧ vNamed s named = true ∧ namesDistinct s (named.map (·.1)) = true
  callArgsLoop : ∀ pos named p r q, getCallArgsLoop s n pos named p = .ok r q →
    vInl s pos = true → vNamed s named = true → namesDistinct s (named.map (·.1)) = true →
    vInl s r.1 = true ∧ vNamed s r.2 = true ∧ namesDistinct s (r.2.map (·.1)) = true
  variants : ∀ hd acc p vs q, getVariants s n hd acc p = .ok vs q → vVariants s acc = true →
    acc.countP variantDefault = (if hd then 1 else 0) →
    vVariants s vs = true ∧ vs.countP variantDefault = 1

theorem placeable_vstep {s : Src} {n : Nat} (IH : VSpecs s n) (p : Nat) (e : Expr Span) (q : Nat)
    (h : getPlaceable s (n + 1) p = .ok e q) : vExpr s e = true := by
  simp only [getPlaceable] at h
  rcases hr : getExpression s n (skipBlank s p) with ⟨exp, q1⟩ | ⟨e1, q1⟩ | m | _ <;> simp only [hr] at h <;>
    try contradiction
  rcases hr2 : expectByte s (skipBlankInline s q1) 125 with ⟨u, q2⟩ | ⟨e1, q2⟩ | m | _ <;> simp only [hr2] at h <;>
    try contradiction
  split at h
  · contradiction
  · injection h with h1 h2
    subst h1
    exact IH.expression _ _ _ hr

theorem pattern_vstep {s : Src} {n : Nat} (IH : VSpecs s n) (p : Nat) (o : Option (Pattern Span)) (q : Nat)
    (h : getPattern s (n + 1) p = .ok o q) : ∀ els, o = some els → patOk s els = true := by
  have key : ∀ role p2,
      (match getPatternLoop s n ⟨[], none, none, role, none⟩ p2 with
        | .ok st q =>
          (match st.lastNonBlank with
           | some lnb =>
             (match finishElements s st.keptCommonIndent lnb 0 st.elements with
              | some els => .ok (some els) q
              | none => .panic "get_pattern slice")
           | none => .ok none q)
        | .err e q => .err e q
        | .panic m => .panic m
        | .fuel => .fuel) = R.ok o q → ∀ els, o = some els → patOk s els = true := by
    intro role p2 h els hels
    rcases hr : getPatternLoop s n ⟨[], none, none, role, none⟩ p2 with ⟨st, q1⟩ | ⟨e1, q1⟩ | m | _ <;>
      simp only [hr] at h <;> try contradiction
    have hst : PSV s st := IH.patternLoop _ _ _ _ hr ⟨by simp, by simp⟩
    split at h
    · rename_i lnb hl
      split at h
      · rename_i els' hf
        injection h with h1 h2
        subst h1
        cases hels
        have h1 := finishElements_vPat hf hst.1
        have h2 := finishElements_ne_nil hf (Nat.zero_le _) (by simpa using hst.2 lnb hl)
        unfold patOk
        cases els with
        | nil => exact (h2 rfl).elim
        | cons x xs => simpa using h1
      · contradiction
    · injection h with h1 h2
      subst h1; cases hels
  simp only [getPattern] at h
  cases hE : skipEol s (skipBlankInline s p) with
  | none => simp only [hE] at h; exact key _ _ h
  | some q' => simp only [hE] at h; exact key _ _ h

theorem callArguments_vstep {s : Src} {n : Nat} (IH : VSpecs s n) (p : Nat)
    (o : Option (List (Inline Span) × List (Span × Inline Span))) (q : Nat)
    (h : getCallArguments s (n + 1) p = .ok o q) : ∀ pos named, o = some (pos, named) →
      vInl s pos = true ∧ vNamed s named = true ∧ namesDistinct s (named.map (·.1)) = true := by
  simp only [getCallArguments] at h
  rcases takeByteIf_cases s (skipBlank s p) 40 with ⟨ht, _⟩ | ⟨ht, _⟩ <;> rw [ht] at h <;> simp only [] at h
  · simp only [Bool.not_true, Bool.false_eq_true, if_false] at h
    rcases hr : getCallArgsLoop s n [] [] (skipBlank s (skipBlank s p + 1)) with ⟨⟨pos, named⟩, q1⟩ | ⟨e1, q1⟩ | m | _ <;>
      simp only [hr] at h <;> try contradiction
    rcases hr2 : expectByte s q1 41 with ⟨u, q2⟩ | ⟨e1, q2⟩ | m | _ <;> simp only [hr2] at h <;> try contradiction
    injection h with h1 h2
    subst h1
    intro pos' named' he
    cases he
    exact IH.callArgsLoop _ _ _ _ _ hr rfl rfl rfl
  · simp only [Bool.not_false, if_true] at h
    injection h with h1 h2
    subst h1
    intro pos named he; cases he

theorem expression_vstep {s : Src} {n : Nat} (IH : VSpecs s n) (p : Nat) (e : Expr Span) (q : Nat)
    (h : getExpression s (n + 1) p = .ok e q) : vExpr s e = true := by
  simp only [getExpression] at h
  rcases hr : getInline s n false p with ⟨exp, q1⟩ | ⟨e1, q1⟩ | m | _ <;> simp only [hr] at h <;> try contradiction
  have hexp := IH.inline _ _ _ _ hr
  split at h
  · split at h
    · contradiction
    · rename_i hnt
      injection h with h1 h2
      subst h1
      have : isTermAttr exp = false := by
        cases exp <;> try rfl
        rename_i id attr args
        cases attr with
        | none => rfl
        | some a => exact (hnt id a args rfl).elim
      simp [vExpr, hexp, this]
  · split at h
    · contradiction
    · rename_i hbad
      split at h
      · contradiction
      · rename_i q3 hq3
        rcases hr2 : getVariants s n false [] (skipBlank s q3) with ⟨vs, q5⟩ | ⟨e1, q5⟩ | m | _ <;> simp only [hr2] at h <;>
          try contradiction
        injection h with h1 h2
        subst h1
        have hv := IH.variants _ _ _ _ _ hr2 rfl rfl
        have hsel : selectorOk exp = true := by
          cases exp with
          | msg id attr => cases attr <;> simp at hbad
          | term id attr args => cases attr <;> simp at hbad <;> rfl
          | placeable e => simp at hbad
          | _ => rfl
        simp [vExpr, hexp, hsel, hv.1, hv.2]

theorem variantKey_vkeyOk {s : Src} {p : Nat} {k : VKey Span} {q : Nat} (h : variantKey s p = .ok k q) :
    vkeyOk s k = true := by
  unfold variantKey at h
  split at h
  · rcases hr : getNumberLiteral s p with ⟨sp, q1⟩ | ⟨e1, q1⟩ | m | _ <;> simp only [hr] at h <;> try contradiction
    injection h with h1 h2; subst h1
    exact getNumberLiteral_numOk hr
  · rcases hr : getIdentifier s p with ⟨sp, q1⟩ | ⟨e1, q1⟩ | m | _ <;> simp only [hr] at h <;> try contradiction
    injection h with h1 h2; subst h1
    exact getIdentifier_identOk hr

theorem vVariants_append (s : Src) (xs : List (Variant Span)) (x : Variant Span) :
    vVariants s (xs ++ [x]) = (vVariants s xs && vVariant s x) := by
  induction xs with
  | nil => simp [vVariants]
  | cons y ys ih => simp [vVariants, ih, Bool.and_assoc]

theorem variants_vstep {s : Src} {n : Nat} (IH : VSpecs s n) (hd : Bool) (acc : List (Variant Span)) (p : Nat)
    (vs : List (Variant Span)) (q : Nat) (h : getVariants s (n + 1) hd acc p = .ok vs q)
    (hacc : vVariants s acc = true) (hcnt : acc.countP variantDefault = (if hd then 1 else 0)) :
    vVariants s vs = true ∧ vs.countP variantDefault = 1 := by
  simp only [getVariants] at h
  generalize takeByteIf s p 42 = t at h
  obtain ⟨p1, dflt⟩ := t
  simp only [] at h
  split at h
  · contradiction
  · rename_i hdd
    rcases takeByteIf_cases s p1 91 with ⟨ht, _⟩ | ⟨ht, _⟩ <;> rw [ht] at h <;> simp only [] at h
    · simp only [Bool.not_true, Bool.false_eq_true, if_false] at h
      split at h
      · rename_i key q1 heq
        have hk : variantKey s (skipBlank s (p1 + 1)) = .ok key q1 := heq
        have hkey := variantKey_vkeyOk hk
        rcases hr2 : expectByte s (skipBlank s q1) 93 with ⟨u, q2⟩ | ⟨e1, q2⟩ | m | _ <;> simp only [hr2] at h <;>
          try contradiction
        rcases hr3 : getPattern s n q2 with ⟨o, q3⟩ | ⟨e1, q3⟩ | m | _ <;> simp only [hr3] at h <;> try contradiction
        cases o with
        | none => simp only [] at h; contradiction
        | some value =>
          simp only [] at h
          have hpat := IH.pattern _ _ _ hr3 value rfl
          unfold patOk at hpat
          simp only [Bool.and_eq_true] at hpat
          refine IH.variants _ _ _ _ _ h ?_ ?_
          · rw [vVariants_append, hacc]
            simp [vVariant, hkey, hpat.1, hpat.2]
          · rw [List.countP_append, hcnt]
            cases hd <;> cases dflt <;> simp_all [variantDefault]
      · contradiction
      · contradiction
      · contradiction
    · simp only [Bool.not_false, if_true] at h
      split at h
      · contradiction
      · rename_i hnd
        split at h
        · rename_i hh
          injection h with h1 h2
          subst h1
          refine ⟨hacc, ?_⟩
          rw [hcnt]
          cases hd <;> cases dflt <;> simp_all
        · contradiction

theorem vInl_append (s : Src) (xs : List (Inline Span)) (x : Inline Span) :
    vInl s (xs ++ [x]) = (vInl s xs && vInline s x) := by
  induction xs with
  | nil => simp [vInl]
  | cons y ys ih => simp [vInl, ih, Bool.and_assoc]

theorem vNamed_append (s : Src) (xs : List (Span × Inline Span)) (n : Span) (x : Inline Span) :
    vNamed s (xs ++ [(n, x)]) = (vNamed s xs && (identOk s n && vInline s x)) := by
  induction xs with
  | nil => simp [vNamed]
  | cons y ys ih => obtain ⟨m, y⟩ := y; simp [vNamed, ih, Bool.and_assoc]

theorem callArgsLoop_vstep {s : Src} {n : Nat} (IH : VSpecs s n)
    (pos : List (Inline Span)) (named : List (Span × Inline Span)) (p : Nat)
    (r : List (Inline Span) × List (Span × Inline Span)) (q : Nat)
    (h : getCallArgsLoop s (n + 1) pos named p = .ok r q)
    (hpos : vInl s pos = true) (hnamed : vNamed s named = true)
    (hdist : namesDistinct s (named.map (·.1)) = true) :
    vInl s r.1 = true ∧ vNamed s r.2 = true ∧ namesDistinct s (r.2.map (·.1)) = true := by
  simp only [getCallArgsLoop] at h
  split at h
  · split at h
    · injection h with h1 h2; subst h1; exact ⟨hpos, hnamed, hdist⟩
    · rcases hr : getInline s n false p with ⟨exp, q1⟩ | ⟨e1, q1⟩ | m | _ <;> simp only [hr] at h <;> try contradiction
      have hexp := IH.inline _ _ _ _ hr
      have hpos' : vInl s (pos ++ [exp]) = true := by rw [vInl_append, hpos, hexp]; rfl
      split at h
      · rename_i id
        split at h
        · split at h
          · contradiction
          · rename_i hany
            rcases hr2 : getInline s n true (skipBlank s (skipBlank s q1 + 1)) with ⟨val, q3⟩ | ⟨e1, q3⟩ | m | _ <;>
              simp only [hr2] at h <;> try contradiction
            have hval := IH.inline _ _ _ _ hr2
            have hid : identOk s id = true := by
              simp only [vInline, Bool.and_eq_true] at hexp
              exact hexp.1
            refine IH.callArgsLoop _ _ _ _ _ h hpos ?_ ?_
            · rw [vNamed_append, hnamed, hid, hval]; rfl
            · rw [List.map_append]
              refine namesDistinct_append _ _ hdist ?_
              rw [List.any_map]
              simpa using hany
        · split at h
          · contradiction
          · exact IH.callArgsLoop _ _ _ _ _ h hpos' hnamed hdist
      · split at h
        · contradiction
        · exact IH.callArgsLoop _ _ _ _ _ h hpos' hnamed hdist
  · injection h with h1 h2; subst h1; exact ⟨hpos, hnamed, hdist⟩

theorem inline_vstep {s : Src} {n : Nat} (IH : VSpecs s n) (ol : Bool) (p : Nat) (e : Inline Span) (q : Nat)
    (h : getInline s (n + 1) ol p = .ok e q) : vInline s e = true := by
  simp only [getInline] at h
  split at h
  · split at h <;> contradiction
  · rename_i b hb
    split at h
    · -- string literal
      rcases hr : scanString s (p + 1) with ⟨u, q1⟩ | ⟨e1, q1⟩ | m | _ <;> simp only [hr] at h <;> try contradiction
      rcases hr2 : expectByte s q1 34 with ⟨u2, q2⟩ | ⟨e1, q2⟩ | m | _ <;> simp only [hr2] at h <;> try contradiction
      have hq2 : q2 = q1 + 1 := by
        unfold expectByte at hr2
        split at hr2
        · injection hr2 with _ h2; exact h2.symm
        · contradiction
      subst hq2
      simp only [usub, show 1 ≤ q1 + 1 by omega, if_true, Nat.add_sub_cancel] at h
      split at h
      · rename_i sp hsl
        injection h with h1 h2; subst h1
        obtain ⟨rfl, _⟩ := slice_eq_some hsl
        exact (scanString_ok hr).2
      · contradiction
    · split at h
      · rcases hr : getNumberLiteral s p with ⟨sp, q1⟩ | ⟨e1, q1⟩ | m | _ <;> simp only [hr] at h <;> try contradiction
        injection h with h1 h2; subst h1
        exact getNumberLiteral_numOk hr
      · split at h
        · split at h
          · -- term reference
            rename_i hc
            simp only [Bool.and_eq_true, Bool.not_eq_eq_eq_not, Bool.not_true] at hc
            obtain ⟨b', hb', ha'⟩ := (isIdentifierStart_iff s (p + 1)).mp hc.2
            rcases hr : getIdentifierUnchecked s (p + 2) with ⟨id, q1⟩ | ⟨e1, q1⟩ | m | _ <;> simp only [hr] at h <;>
              try contradiction
            have hid : identOk s id = true := getIdentifierUnchecked_identOk (p := p + 1) hb' ha' hr
            rcases hr2 : getAttributeAccessor s q1 with ⟨attr, q2⟩ | ⟨e1, q2⟩ | m | _ <;> simp only [hr2] at h <;>
              try contradiction
            have hattr := getAttributeAccessor_identOk hr2
            rcases hr3 : getCallArguments s n q2 with ⟨args, q3⟩ | ⟨e1, q3⟩ | m | _ <;> simp only [hr3] at h <;>
              try contradiction
            injection h with h1 h2; subst h1
            cases args with
            | none => simp [vInline, hid, hattr]
            | some pn =>
              obtain ⟨pos, named⟩ := pn
              have := IH.callArguments _ _ _ hr3 pos named rfl
              simp [vInline, hid, hattr, this.1, this.2.1, this.2.2]
          · rcases hr : getNumberLiteral s p with ⟨sp, q1⟩ | ⟨e1, q1⟩ | m | _ <;> simp only [hr] at h <;> try contradiction
            injection h with h1 h2; subst h1
            exact getNumberLiteral_numOk hr
        · split at h
          · rcases hr : getIdentifier s (p + 1) with ⟨id, q1⟩ | ⟨e1, q1⟩ | m | _ <;> simp only [hr] at h <;> try contradiction
            injection h with h1 h2; subst h1
            exact getIdentifier_identOk hr
          · split at h
            · rename_i ha
              rcases hr : getIdentifierUnchecked s (p + 1) with ⟨id, q1⟩ | ⟨e1, q1⟩ | m | _ <;> simp only [hr] at h <;>
                try contradiction
              have hid : identOk s id = true := getIdentifierUnchecked_identOk hb ha hr
              rcases hr3 : getCallArguments s n q1 with ⟨args, q3⟩ | ⟨e1, q3⟩ | m | _ <;> simp only [hr3] at h <;>
                try contradiction
              cases args with
              | some pn =>
                obtain ⟨pos, named⟩ := pn
                simp only [] at h
                split at h
                · contradiction
                · rename_i hcal
                  have hcal : isCallee s id = true := by simpa using hcal
                  injection h with h1 h2; subst h1
                  have := IH.callArguments _ _ _ hr3 pos named rfl
                  simp [vInline, hid, calleeOk_of hid hcal, this.1, this.2.1, this.2.2]
              | none =>
                simp only [] at h
                rcases hr2 : getAttributeAccessor s q3 with ⟨attr, q2⟩ | ⟨e1, q2⟩ | m | _ <;> simp only [hr2] at h <;>
                  try contradiction
                injection h with h1 h2; subst h1
                simp [vInline, hid, getAttributeAccessor_identOk hr2]
            · split at h
              · rcases hr : getPlaceable s n (p + 1) with ⟨e', q1⟩ | ⟨e1, q1⟩ | m | _ <;> simp only [hr] at h <;>
                  try contradiction
                injection h with h1 h2; subst h1
                simpa [vInline] using IH.placeable _ _ _ hr
              · split at h <;> contradiction

theorem getElem?_append_one_left {α : Type} {l : List α} {x ph : α} {i : Nat} (h : l[i]? = some ph) :
    (l ++ [x])[i]? = some ph := by
  have hlt : i < l.length := by
    rcases Nat.lt_or_ge i l.length with h' | h'
    · exact h'
    · rw [List.getElem?_eq_none h'] at h; cases h
  rw [List.getElem?_append_left hlt]; exact h

theorem st2Of_PSV {s : Src} {st st2 : PatState} {p indent start stop : Nat} {nb : Bool} {term : Termination}
    (h : st2Of s st p indent start stop nb term = some st2) (hst : PSV s st)
    (hind : p + indent = start) (hle : start ≤ stop)
    (hr : ∀ j, p ≤ j → j < stop → ∀ b, s[j]? = some b → noBrace b = true) : PSV s st2 := by
  unfold st2Of at h
  simp only [] at h
  generalize (st.role == TextPos.lineStart && term == Termination.placeableStart && start == stop) = pl at h
  split at h
  · rename_i hc1
    split at h
    · split at h
      · rename_i e sv he hsv
        injection h with h
        subst h
        -- the pushed element
        have hphv : PhV s e := by
          unfold elOf at he
          split at he
          · rename_i hc3
            have hne : start ≠ stop := by
              intro heq
              cases pl <;> simp_all
            unfold usub at he
            split at he
            · simp only [Option.map_some, Option.some.injEq] at he
              subst he
              intro j j1 j2 b hb
              exact hr j (by omega) j2 b hb
            · simp at he
          · simp only [Option.some.injEq] at he
            subst he
            exact hr
        have hsvt : sv = true → Strong e := by
          intro hs
          subst hs
          unfold survivesOf at hsv
          split at hsv
          · rename_i hnb
            obtain ⟨sp, hsl, hne⟩ := Option.map_eq_some_iff.mp hsv
            obtain ⟨rfl, hvs⟩ := slice_eq_some hsl
            have ht := trimEndGo_spec s start (stop - start) stop hvs.1 hvs.2.2
            have hne : (trimEnd s ⟨start, stop⟩).stop ≠ start := by simpa using hne
            have : start < stop := by
              have h2 : (trimEnd s ⟨start, stop⟩).stop ≤ stop := ht.2.1
              have h1 : start ≤ (trimEnd s ⟨start, stop⟩).stop := ht.1
              omega
            unfold elOf at he
            simp only [hnb, Bool.not_true, Bool.and_false, Bool.false_and, Bool.false_eq_true, if_false,
              Option.some.injEq] at he
            subst he
            show p + indent < stop
            omega
          · cases hsv
        refine ⟨?_, ?_⟩
        · intro ph hph
          simp only [List.mem_append, List.mem_singleton] at hph
          rcases hph with hph | rfl
          · exact hst.1 ph hph
          · exact hphv
        · intro lnb hl
          simp only [] at hl ⊢
          cases sv with
          | true =>
            simp only [if_true, Option.some.injEq] at hl
            subst hl
            exact ⟨e, by simp, hsvt rfl⟩
          | false =>
            simp only [Bool.false_eq_true, if_false] at hl
            obtain ⟨ph, h1, h2⟩ := hst.2 lnb hl
            exact ⟨ph, getElem?_append_one_left h1, h2⟩
      · cases h
    · injection h with h; subst h; exact hst
  · injection h with h; subst h; exact hst

theorem patternLoop_vstep {s : Src} {n : Nat} (IH : VSpecs s n) (st : PatState) (p : Nat) (st' : PatState) (q : Nat)
    (h : getPatternLoop s (n + 1) st p = .ok st' q) (hst : PSV s st) : PSV s st' := by
  simp only [getPatternLoop] at h
  split at h
  · split at h
    · rcases hr : getPlaceable s n (p + 1) with ⟨e, q1⟩ | ⟨e1, q1⟩ | m | _ <;> simp only [hr] at h <;> try contradiction
      have he := IH.placeable _ _ _ hr
      have key : ∀ st1 : PatState, st1.elements = st.elements →
          PSV s { st1 with lastNonBlank := some st1.elements.length, keptCommonIndent := st1.commonIndent,
                           elements := st1.elements ++ [.placeable e], role := .continuation } := by
        intro st1 hel
        refine ⟨?_, ?_⟩
        · intro ph hph
          simp only [List.mem_append, List.mem_singleton] at hph
          rcases hph with hph | rfl
          · exact hst.1 ph (hel ▸ hph)
          · exact he
        · intro lnb hl
          simp only [Option.some.injEq] at hl
          subst hl
          exact ⟨Placeholder.placeable e, by simp, trivial⟩
      refine IH.patternLoop _ _ _ _ h (key _ ?_)
      split <;> rfl
    · split at h
      · injection h with h1 h2; subst h1; exact hst
      · rename_i indent p1 hpre
        have hfacts : p + indent = p1 ∧ ∀ j, p ≤ j → j < p1 → s[j]? = some 32 := by
          have hsp := skipBlankInline_spaces s p
          have hle := (skipBlankInline_after s p).le
          split at hpre
          · split at hpre
            · split at hpre <;> split at hpre <;> simp at hpre <;> obtain ⟨rfl, rfl⟩ := hpre <;>
                exact ⟨by omega, hsp⟩
            · simp at hpre
          · simp at hpre
            obtain ⟨rfl, rfl⟩ := hpre
            exact ⟨rfl, fun j j1 j2 => by omega⟩
        clear hpre
        obtain ⟨f1, f2⟩ := hfacts
        rcases hr : getTextSlice s p1 with ⟨⟨start, stop, nb, term⟩, q1⟩ | ⟨e1, q1⟩ | m | _ <;> simp only [hr] at h <;>
          try contradiction
        obtain ⟨t1, t2, t3⟩ := getTextSlice_noBrace hr
        subst t1
        have hrange : ∀ j, p ≤ j → j < stop → ∀ b, s[j]? = some b → noBrace b = true := by
          intro j j1 j2 b hb
          by_cases hj : j < start
          · rw [f2 j j1 hj] at hb; cases hb; decide
          · exact t3 j (by omega) j2 b hb
        split at h
        · rename_i st2 hst2
          have e2 : st2Of s st p indent start stop nb term = some st2 := hst2
          have hpsv := st2Of_PSV e2 hst f1 t2 hrange
          exact IH.patternLoop _ _ _ _ h hpsv
        · contradiction
  · injection h with h1 h2; subst h1; exact hst

theorem vspecs_all (s : Src) (n : Nat) : VSpecs s n := by
  induction n with
  | zero =>
    exact {
      patternLoop := fun st p st' q h => by simp [getPatternLoop] at h
      pattern := fun p o q h => by simp [getPattern] at h
      placeable := fun p e q h => by simp [getPlaceable] at h
      expression := fun p e q h => by simp [getExpression] at h
      inline := fun ol p e q h => by simp [getInline] at h
      callArguments := fun p o q h => by simp [getCallArguments] at h
      callArgsLoop := fun pos named p r q h => by simp [getCallArgsLoop] at h
      variants := fun hd acc p vs q h => by simp [getVariants] at h }
  | succ n ih =>
    exact {
      patternLoop := fun st p st' q h hst => patternLoop_vstep ih st p st' q h hst
      pattern := fun p o q h => pattern_vstep ih p o q h
      placeable := fun p e q h => placeable_vstep ih p e q h
      expression := fun p e q h => expression_vstep ih p e q h
      inline := fun ol p e q h => inline_vstep ih ol p e q h
      callArguments := fun p o q h => callArguments_vstep ih p o q h
      callArgsLoop := fun pos named p r q h h1 h2 h3 => callArgsLoop_vstep ih pos named p r q h h1 h2 h3
      variants := fun hd acc p vs q h h1 h2 => variants_vstep ih hd acc p vs q h h1 h2 }

end FluentProofs.Parser
