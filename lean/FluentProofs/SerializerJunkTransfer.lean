import FluentProofs.SerializerJunkSrc
import FluentProofs.ParserLocalSimTop
/-!
# Serializer lemmas, part 21: from the source to every text that holds the same Junk (C04)

`jgood_of_srcGood`: if the tree `t` is `SrcGood` in the source `s` (its Junk entries fail and recover in `s` as recorded),
then its class form `t.map (nE s)` is `JGood`: the same Junk texts fail and recover in the same way in EVERY source that
holds them followed by the serialised following entries (`junk_transfer`, `attr_transfer` of `ParserLocalSimTop`: the
two-source simulation).
-/
namespace FluentProofs.Ser
open FluentModel FluentModel.Syntax FluentModel.Syntax.Ser FluentProofs.Parser

/-! ## the text of an entry of the class starts with a `#` or an entry head -/

theorem isAlpha_facts : ∀ b : UInt8, isAlpha b = true → isIdentByte b = true ∧ isReal b = true := by
  apply forall_uint8; decide +kernel

theorem at_append_left {s : Src} {p : Nat} {a b : Bytes} (h : At s p (a ++ b)) : At s p a := ((at_append s p a b).mp h).1

/-- `id ␣ =` at a line start is an entry head -/
theorem bar_of_ident {s : Src} {P : Nat} {id : Bytes} (hid : validIdent id = true) (hls : LS s P)
    (hat : At s P (id ++ [32, 61])) : Bar s P (P + id.length + 1) := by
  obtain ⟨b, rest, rfl, hb, hrest⟩ := validIdent_head hid
  rw [at_append] at hat
  obtain ⟨hatid, hat2⟩ := hat
  simp only [at_cons] at hat2
  have hall : ∀ c ∈ b :: rest, isIdentByte c = true := by
    intro c hc
    rcases List.mem_cons.mp hc with rfl | hc
    · exact (isAlpha_facts _ hb).1
    · exact hrest c hc
  refine ⟨hls, by omega, ⟨b, ?_, (isAlpha_facts b hb).2⟩, ?_, ?_⟩
  · have := at_get hatid 0 (by simp)
    simpa using this
  · intro i h1 h2
    by_cases hi : i < P + (b :: rest).length
    · have hlt : i - P < (b :: rest).length := by omega
      have hg := at_get hatid (i - P) hlt
      rw [show P + (i - P) = i by omega] at hg
      exact ⟨_, hg, Or.inl (hall _ (List.getElem_mem hlt))⟩
    · have : i = P + (b :: rest).length := by omega
      subst this
      exact ⟨32, hat2.1, Or.inr rfl⟩
  · rw [show P + (b :: rest).length + 1 = P + (b :: rest).length + 1 from rfl]
    exact hat2.2.1

/-- `-id ␣ =` at a line start is an entry head -/
theorem bar_of_term {s : Src} {P : Nat} {id : Bytes} (hid : validIdent id = true) (hls : LS s P)
    (hat : At s P (45 :: (id ++ [32, 61]))) : Bar s P (P + 1 + id.length + 1) := by
  rw [at_cons] at hat
  obtain ⟨h45, hat1⟩ := hat
  obtain ⟨b, rest, rfl, hb, hrest⟩ := validIdent_head hid
  rw [at_append] at hat1
  obtain ⟨hatid, hat2⟩ := hat1
  simp only [at_cons] at hat2
  have hall : ∀ c ∈ b :: rest, isIdentByte c = true := by
    intro c hc
    rcases List.mem_cons.mp hc with rfl | hc
    · exact (isAlpha_facts _ hb).1
    · exact hrest c hc
  refine ⟨hls, by omega, ⟨45, h45, by decide⟩, ?_, hat2.2.1⟩
  intro i h1 h2
  by_cases h0 : i = P
  · subst h0; exact ⟨45, h45, Or.inl (by decide)⟩
  · by_cases hi : i < P + 1 + (b :: rest).length
    · have hlt : i - (P + 1) < (b :: rest).length := by omega
      have hg := at_get hatid (i - (P + 1)) hlt
      rw [show P + 1 + (i - (P + 1)) = i by omega] at hg
      exact ⟨_, hg, Or.inl (hall _ (List.getElem_mem hlt))⟩
    · have : i = P + 1 + (b :: rest).length := by omega
      subst this
      exact ⟨32, hat2.1, Or.inr rfl⟩

/-- the text of an entry of the class, at a line start: a `#` or an entry head stands there -/
theorem tailB_of_text {s : Src} {P : Nat} (e : Entry Bytes) (he : rtEntry e = true) (hls : LS s P)
    (hat : At s P (entryText false e)) : TailB s P := by
  by_cases hk : hashHead e = true
  · left
    have := entryText_head_hash e he hk
    exact at_head hat this
  · right
    cases e with
    | message m =>
      simp only [rtEntry, Bool.and_eq_true] at he
      have hc : m.comment = none := by
        cases hcm : m.comment with
        | none => rfl
        | some c => simp [hashHead, hcm] at hk
      simp only [entryText, hc, optCommentText, List.nil_append, List.append_assoc] at hat
      exact ⟨_, bar_of_ident he.1.1.1 hls (by
        have := at_append_left (a := m.id ++ [32, 61]) (by simpa [List.append_assoc] using hat)
        exact this)⟩
    | term t =>
      simp only [rtEntry, Bool.and_eq_true] at he
      have hc : t.comment = none := by
        cases hcm : t.comment with
        | none => rfl
        | some c => simp [hashHead, hcm] at hk
      simp only [entryText, hc, optCommentText, List.nil_append, List.append_assoc] at hat
      exact ⟨_, bar_of_term he.1.1.1 hls (by
        rw [at_cons] at hat ⊢
        exact ⟨hat.1, at_append_left (a := t.id ++ [32, 61]) (by simpa [List.append_assoc] using hat.2)⟩)⟩
    | comment c => simp [hashHead] at hk
    | groupComment c => simp [hashHead] at hk
    | resourceComment c => simp [hashHead] at hk
    | junk c => simp [rtEntry] at he

/-! ## the Junk run behind a Junk entry, in the source and in a text -/

theorem nE_junk (s : Src) (sp : Span) : nE s (.junk sp) = .junk (spanBytes s sp) := rfl

theorem cont_nonjunk {s : Src} {p : Nat} {e : Entry Span} {es : List (Entry Span)} (hj : e.isJunk = false) :
    Cont s p (e :: es) = (p < s.size ∧ LS s p ∧ TailB s p ∧ s[p]? = (entryText false (nE s e)).head?) := by
  cases e <;> first | rfl | (simp [Entry.isJunk] at hj)

theorem nE_isJunk {s : Src} {e : Entry Span} (hj : e.isJunk = false) : isJunk (nE s e) = false := by
  cases e <;> first | rfl | (simp [Entry.isJunk] at hj)

/-- behind `p` in the source stand the texts of the Junk entries at the head of `es` (`L` bytes), then the end of input
or a `#` / entry head; every text that holds the serialised `es` agrees with the source on these `L` bytes and on the
byte behind them, and has the same kind of tail -/
theorem run_agree {s : Src} (es : List (Entry Span)) : ∀ (p : Nat), Cls s es → Cont s p es →
    ∃ L, ∀ (s₂ : Src) (P₂ : Nat), At s₂ P₂ (resTextJ false (es.map (nE s))) →
        P₂ + (resTextJ false (es.map (nE s))).length = s₂.size → (es ≠ [] → LS s₂ P₂) →
        (∀ i, i ≤ L → s₂[P₂ + i]? = s[p + i]?) ∧
        (s[p + L]? = none ∨ (LS s (p + L) ∧ TailB s (p + L) ∧ TailB s₂ (P₂ + L))) := by
  induction es with
  | nil =>
    intro p _ hc
    refine ⟨0, fun s₂ P₂ _ hsz _ => ?_⟩
    simp only [List.map_nil, resTextJ, List.length_nil, Nat.add_zero] at hsz
    have hc : s.size ≤ p := hc
    have h1 : s[p]? = none := by simp; omega
    have h2 : s₂[P₂]? = none := by simp; omega
    refine ⟨fun i hi => ?_, Or.inl (by simpa using h1)⟩
    have : i = 0 := by omega
    subst this
    simp only [Nat.add_zero, h1, h2]
  | cons e es ih =>
    intro p hcls hc
    by_cases hj : e.isJunk = true
    · obtain ⟨sp, rfl⟩ : ∃ sp, e = .junk sp := by
        cases e <;> first | exact ⟨_, rfl⟩ | (simp [Entry.isJunk] at hj)
      obtain ⟨hstart, hlt, hle, hlse, hcont⟩ := hc
      obtain ⟨L', hL'⟩ := ih sp.stop (fun e he => hcls e (List.mem_cons_of_mem _ he)) hcont
      have hsp : sp = ⟨p, sp.stop⟩ := by rw [← hstart]
      have hclen : (spanBytes s sp).length = sp.stop - p := by
        rw [hsp]; exact spanBytes_length s p sp.stop hle
      have hatc : At s p (spanBytes s sp) := by
        have := at_span (s := s) p sp.stop hle
        rwa [← hsp] at this
      refine ⟨(sp.stop - p) + L', fun s₂ P₂ hat hsz hls₂ => ?_⟩
      simp only [List.map_cons, nE_junk, resTextJ_junk] at hat hsz
      rw [at_append] at hat
      obtain ⟨hat1, hat2⟩ := hat
      rw [List.length_append] at hsz
      rw [hclen] at hat2 hsz
      -- the line start behind this Junk in the text
      have hls' : es ≠ [] → LS s₂ (P₂ + (sp.stop - p)) := by
        intro hne
        have hlt2 : sp.stop < s.size ∨ (∃ sp' es', es = .junk sp' :: es') := by
          cases es with
          | nil => exact absurd rfl hne
          | cons e' es' =>
            by_cases hj' : e'.isJunk = true
            · right
              obtain ⟨sp', rfl⟩ : ∃ sp', e' = .junk sp' := by
                cases e' <;> first | exact ⟨_, rfl⟩ | (simp [Entry.isJunk] at hj')
              exact ⟨sp', es', rfl⟩
            · left
              rw [cont_nonjunk (by simpa using hj')] at hcont
              exact hcont.1
        have hstoplt : sp.stop < s.size := by
          rcases hlt2 with h | ⟨sp', es', rfl⟩
          · exact h
          · obtain ⟨h1, h2, h3, _⟩ := hcont
            omega
        have hls0 : LS s sp.stop := hlse.ls hstoplt
        have h10 : s[sp.stop - 1]? = some 10 := by
          rcases hls0 with h0 | h0
          · omega
          · exact h0
        right
        have hg1 := at_get hatc (sp.stop - p - 1) (by omega)
        have hg2 := at_get hat1 (sp.stop - p - 1) (by omega)
        rw [show p + (sp.stop - p - 1) = sp.stop - 1 by omega, h10] at hg1
        rw [show P₂ + (sp.stop - p) - 1 = P₂ + (sp.stop - p - 1) by omega, hg2, ← hg1]
      obtain ⟨hag, htail⟩ := hL' s₂ (P₂ + (sp.stop - p)) hat2 (by omega) hls'
      refine ⟨fun i hi => ?_, ?_⟩
      · by_cases hi1 : i < sp.stop - p
        · have hg1 := at_get hatc i (by omega)
          have hg2 := at_get hat1 i (by omega)
          rw [hg1, hg2]
        · have := hag (i - (sp.stop - p)) (by omega)
          rw [show P₂ + (sp.stop - p) + (i - (sp.stop - p)) = P₂ + i by omega,
            show sp.stop + (i - (sp.stop - p)) = p + i by omega] at this
          exact this
      · rw [show p + (sp.stop - p + L') = sp.stop + L' by omega,
          show P₂ + (sp.stop - p + L') = P₂ + (sp.stop - p) + L' by omega]
        exact htail
    · have hj' : e.isJunk = false := by simpa using hj
      rw [cont_nonjunk hj'] at hc
      obtain ⟨hlt, hls, htb, hhead⟩ := hc
      have hrt : rtEntry (nE s e) = true := hcls.rt List.mem_cons_self hj'
      refine ⟨0, fun s₂ P₂ hat hsz hls₂ => ?_⟩
      simp only [List.map_cons] at hat hsz
      rw [resTextJ_entry false (nE s e) _ hrt] at hat hsz
      have hat1 := at_append_left hat
      have hne := entryText_ne false (nE s e) hrt
      refine ⟨fun i hi => ?_, Or.inr ⟨by simpa using hls, by simpa using htb, ?_⟩⟩
      · have : i = 0 := by omega
        subst this
        simp only [Nat.add_zero]
        rw [hhead]
        cases htx : entryText false (nE s e) with
        | nil => rw [htx] at hne; simp at hne
        | cons x xs => rw [htx, at_cons] at hat1; simp [hat1.1]
      · simp only [Nat.add_zero]
        exact tailB_of_text (nE s e) hrt (hls₂ (by simp)) hat1

/-! ## the first line of a Junk -/

theorem firstNonSpace_of_at {c : Bytes} : ∀ {s : Src} {P k : Nat} {b : UInt8}, At s P c → (∀ j, j < k → s[P + j]? = some 32) →
    s[P + k]? = some b → b ≠ 32 → k < c.length → firstNonSpace c = some (k, b) := by
  induction c with
  | nil => intro s P k b _ _ _ _ hk; simp at hk
  | cons x xs ih =>
    intro s P k b hat hsp hb hne hk
    rw [at_cons] at hat
    cases k with
    | zero =>
      have : x = b := by
        have := hat.1; rw [Nat.add_zero] at hb; rw [hb] at this; injection this with this; exact this.symm
      subst this
      have : (x == 32) = false := by simpa using hne
      simp [firstNonSpace, this]
    | succ k =>
      have hx : x = 32 := by
        have h0 := hsp 0 (by omega)
        rw [Nat.add_zero, hat.1] at h0
        injection h0
      subst hx
      have := ih (s := s) (P := P + 1) (k := k) (b := b) hat.2
        (fun j hj => by have := hsp (j + 1) (by omega); rwa [show P + (j + 1) = P + 1 + j by omega] at this)
        (by rwa [show P + (k + 1) = P + 1 + k by omega] at hb) hne (by simp at hk; omega)
      simp [firstNonSpace, this]

/-- a line in front of which `skip_blank_block` stops: spaces, then a byte other than space, `\n`, the `\r` of a
`\r\n` -/
theorem blockStop_inv {s : Src} {P : Nat} (h : BlockStop s P) (hlt : P < s.size) :
    ∃ k b, (∀ j, j < k → s[P + j]? = some 32) ∧ s[P + k]? = some b ∧ b ≠ 32 ∧ b ≠ 10 ∧
      (b = 13 → s[P + k + 1]? ≠ some 10) ∧ skipBlankInline s P = P + k := by
  have h0 := h 0 0
  rw [skipBlankBlockGo] at h0
  have hge := (skipBlankInline_after s P).le
  cases hE : skipEol s (skipBlankInline s P) with
  | some q' =>
    rw [hE] at h0
    simp only [skipBlankBlockGo] at h0
    injection h0 with _ h2
    omega
  | none =>
    rw [hE] at h0
    simp only [] at h0
    by_cases hq : skipBlankInline s P < s.size
    · obtain ⟨b, hb⟩ : ∃ b, s[skipBlankInline s P]? = some b := ⟨s[skipBlankInline s P], by simp [hq]⟩
      refine ⟨skipBlankInline s P - P, b, ?_, by rw [show P + (skipBlankInline s P - P) = skipBlankInline s P by omega]; exact hb,
        ?_, ?_, ?_, by omega⟩
      · intro j hj
        exact skipBlankInline_spaces s P (P + j) (by omega) (by omega)
      · intro h32; subst h32
        exact skipBlankInlineGo_stop s _ P (Nat.le_refl _) hb
      · intro h10; subst h10
        simp [skipEol, hb] at hE
      · intro h13 h10'; subst h13
        rw [show P + (skipBlankInline s P - P) + 1 = skipBlankInline s P + 1 by omega] at h10'
        simp [skipEol, hb, h10'] at hE
    · simp only [hq, if_false] at h0
      injection h0 with h1 _
      omega

/-- `get_attributes` finds no attribute: there is no `.` behind the blanks, or the attribute fails -/
theorem attrStop_inv {s : Src} {p : Nat} (h : AttrStopAt s p) :
    isCurrentByte s (skipBlankInline s p) 46 = false ∨
      ∃ e q, getAttribute s (exprFuel s) (skipBlankInline s p + 1) = .err e q := by
  have h0 := h (exprFuel s) (by simp [exprFuel]) 0 []
  rw [getAttributesGo] at h0
  rcases takeByteIf_cases s (skipBlankInline s p) 46 with ⟨ht, hb⟩ | ⟨ht, hb⟩
  · right
    rw [ht] at h0
    simp only [Bool.not_true, Bool.false_eq_true, if_false] at h0
    cases ha : getAttribute s (exprFuel s) (skipBlankInline s p + 1) with
    | ok a q => rw [ha] at h0; simp [getAttributesGo] at h0
    | err e q => exact ⟨e, q, rfl⟩
    | panic m => rw [ha] at h0; cases h0
    | fuel => rw [ha] at h0; cases h0
  · left
    cases hc : isCurrentByte s (skipBlankInline s p) 46 with
    | false => rfl
    | true => exact absurd ((isCurrentByte_iff _ _ _).mp hc) hb

theorem cont_lt {s : Src} {p : Nat} {es : List (Entry Span)} (hc : Cont s p es) (hne : es ≠ []) : p < s.size := by
  cases es with
  | nil => exact absurd rfl hne
  | cons e es =>
    by_cases hj : e.isJunk = true
    · obtain ⟨sp, rfl⟩ : ∃ sp, e = .junk sp := by
        cases e <;> first | exact ⟨_, rfl⟩ | (simp [Entry.isJunk] at hj)
      obtain ⟨h1, h2, h3, _⟩ := hc
      omega
    · rw [cont_nonjunk (by simpa using hj)] at hc
      exact hc.1

/-! ## one Junk entry -/

/-- the bytes of a Junk span: facts about its first line, from the source -/
theorem junk_text_facts {s : Src} {sp : Span} (hjs : JunkSrc s sp) :
    ∃ k0 b, (∀ j, j < k0 → s[sp.start + j]? = some 32) ∧ s[sp.start + k0]? = some b ∧ b ≠ 32 ∧ b ≠ 10 ∧
      (b = 13 → s[sp.start + k0 + 1]? ≠ some 10) ∧
      skipBlankInline s sp.start = sp.start + k0 ∧ sp.start + k0 < sp.stop ∧
      firstNonSpace (spanBytes s sp) = some (k0, b) := by
  have hlt : sp.start < s.size := by have := hjs.lt; have := hjs.le; omega
  obtain ⟨k0, b, h1, h2, h3, h4, h5, h6⟩ := blockStop_inv hjs.block hlt
  have hin : sp.start + k0 < sp.stop := by
    apply Classical.byContradiction
    intro hn
    rcases hjs.ends with hls | hsz
    · rcases hls with h0 | h10
      · have := hjs.lt; omega
      · have hpos := hjs.lt
        by_cases he : sp.stop - 1 = sp.start + k0
        · rw [he, h2] at h10; injection h10 with h10; exact h4 h10
        · have := h1 (sp.stop - 1 - sp.start) (by omega)
          rw [show sp.start + (sp.stop - 1 - sp.start) = sp.stop - 1 by omega, h10] at this
          cases this
    · have := get_lt h2; omega
  have hat : At s sp.start (spanBytes s sp) := at_span sp.start sp.stop hjs.le
  have hlen : (spanBytes s sp).length = sp.stop - sp.start := spanBytes_length s sp.start sp.stop hjs.le
  exact ⟨k0, b, h1, h2, h3, h4, h5, h6, hin, firstNonSpace_of_at hat h1 h2 h3 (by omega)⟩

/-- **the statement over all sources, for one Junk entry of the tree**: in every source `s₂` that holds the Junk's bytes
at a line start `P`, followed by the serialised following entries up to the end, `get_entry` fails at `P`, junk recovery
ends behind the Junk's bytes, and — behind a message or term — `get_attributes` finds no attribute at `P` -/
theorem junk_clause {s : Src} (hs : AsciiThenBoundary s) {sp : Span} {es : List (Entry Span)} {prev : Bool}
    (hjs : JunkSrc s sp) (hmt : prev = true → MTStop s sp.start) (hcont : Cont s sp.stop es) (hcls : Cls s es)
    (s₂ : Src) (P : Nat) (hs₂ : AsciiThenBoundary s₂) (hls₂ : LS s₂ P)
    (hat : At s₂ P (spanBytes s sp ++ resTextJ false (es.map (nE s))))
    (hsz : P + (spanBytes s sp ++ resTextJ false (es.map (nE s))).length = s₂.size) :
    JunkAt s₂ P (spanBytes s sp) ∧ (prev = true → AttrStopAt s₂ P) := by
  have hlt := hjs.lt
  have hle := hjs.le
  have hclen : (spanBytes s sp).length = sp.stop - sp.start := spanBytes_length s sp.start sp.stop hle
  have hatc : At s sp.start (spanBytes s sp) := at_span sp.start sp.stop hle
  obtain ⟨L, hL⟩ := run_agree es sp.stop hcls hcont
  rw [at_append] at hat
  obtain ⟨hat1, hat2⟩ := hat
  rw [List.length_append, hclen] at hsz
  rw [hclen] at hat2
  -- the line start behind the Junk in the text
  have hls' : es ≠ [] → LS s₂ (P + (sp.stop - sp.start)) := by
    intro hne
    have hstoplt := cont_lt hcont hne
    have h10 : s[sp.stop - 1]? = some 10 := by
      rcases hjs.ends with h | h
      · rcases h with h0 | h0
        · omega
        · exact h0
      · omega
    right
    have hg1 := at_get hatc (sp.stop - sp.start - 1) (by omega)
    have hg2 := at_get hat1 (sp.stop - sp.start - 1) (by omega)
    rw [show sp.start + (sp.stop - sp.start - 1) = sp.stop - 1 by omega, h10] at hg1
    rw [show P + (sp.stop - sp.start) - 1 = P + (sp.stop - sp.start - 1) by omega, hg2, ← hg1]
  obtain ⟨hag, htail⟩ := hL s₂ (P + (sp.stop - sp.start)) hat2 (by omega) hls'
  -- agreement on the Junk run and the byte behind it
  have hagree : ∀ i, i ≤ (sp.stop - sp.start) + L → s₂[P + i]? = s[sp.start + i]? := by
    intro i hi
    by_cases hi1 : i < sp.stop - sp.start
    · rw [at_get hatc i (by omega), at_get hat1 i (by omega)]
    · have := hag (i - (sp.stop - sp.start)) (by omega)
      rw [show P + (sp.stop - sp.start) + (i - (sp.stop - sp.start)) = P + i by omega,
        show sp.stop + (i - (sp.stop - sp.start)) = sp.start + i by omega] at this
      exact this
  have htail' : Parser.TailOK s s₂ sp.start P ((sp.stop - sp.start) + L) := by
    rcases htail with h | ⟨h1, h2, h3⟩
    · left; rw [show sp.start + (sp.stop - sp.start + L) = sp.stop + L by omega]; exact h
    · right
      refine ⟨by omega, ?_, ?_, ?_⟩
      · rcases h1 with h0 | h0
        · omega
        · rw [show sp.start + (sp.stop - sp.start + L) - 1 = sp.stop + L - 1 by omega]; exact h0
      · rw [show sp.start + (sp.stop - sp.start + L) = sp.stop + L by omega]; exact h2
      · rw [show P + (sp.stop - sp.start + L) = P + (sp.stop - sp.start) + L by omega]; exact h3
  have ha₁ : sp.start < s.size := by omega
  have ha₂ : P ≤ s₂.size := by omega
  have hb₁ := bnd_of_LS hs hjs.ls
  have hb₂ := bnd_of_LS hs₂ hls₂
  constructor
  · obtain ⟨e, q, hr, hk⟩ := hjs.fail
    rw [show sp.stop = sp.start + (sp.stop - sp.start) by omega] at hk
    obtain ⟨e', q', h1, h2⟩ := junk_transfer hs hs₂ ha₁ ha₂ hb₁ hb₂ hjs.ls hls₂ hagree htail' hr hk
    exact ⟨e', q', h1, by rw [hclen]; exact h2⟩
  · intro hp
    obtain ⟨k0, b, f1, f2, f3, f4, f5, f6, f7, _⟩ := junk_text_facts hjs
    -- the same first line in the text
    have g1 : ∀ j, j < k0 → s₂[P + j]? = some 32 := fun j hj => by
      rw [hagree j (by omega)]; exact f1 j hj
    have g2 : s₂[P + k0]? = some b := by rw [hagree k0 (by omega)]; exact f2
    have g6 : skipBlankInline s₂ P = P + k0 := skipBlankInline_run s₂ k0 P g1 (by rw [g2]; simpa using f3)
    apply attrStopAt_of
    rw [g6]
    rcases attrStop_inv (hmt hp).2 with hnd | ⟨e, q, he⟩
    · left
      rw [f6] at hnd
      simp only [isCurrentByte, f2] at hnd
      simp only [isCurrentByte, g2]
      exact hnd
    · right
      rw [f6] at he
      -- the `.` at `sp.start + k0`
      by_cases heof : s[sp.start + (sp.stop - sp.start + L)]? = none
      · -- the input ends behind the Junk run: take a longer common part
        have hsz1 : s.size ≤ sp.start + (sp.stop - sp.start + L) := by simpa using heof
        have hsz2 : s₂.size ≤ P + (sp.stop - sp.start + L) := by
          have := hagree (sp.stop - sp.start + L) (Nat.le_refl _)
          rw [heof] at this; simpa using this
        have hagree' : ∀ i, i ≤ (sp.stop - sp.start + L) + (k0 + 2) → s₂[P + i]? = s[sp.start + i]? := by
          intro i _
          by_cases hi : i ≤ sp.stop - sp.start + L
          · exact hagree i hi
          · have e1 : s[sp.start + i]? = none := by simp; omega
            have e2 : s₂[P + i]? = none := by simp; omega
            rw [e1, e2]
        have := attr_transfer hs hs₂ (Nat.le_of_lt ha₁) ha₂ hb₁ hb₂ hjs.ls hls₂ hagree'
          (Or.inl (by simp; omega)) (j := k0 + 1) (by omega) (by have := get_lt f2; omega)
          (by rw [show sp.start + (k0 + 1) = sp.start + k0 + 1 by omega]; exact he)
        rw [show P + (k0 + 1) = P + k0 + 1 by omega] at this
        exact this
      · -- a `#` or an entry head follows: the Junk ends with a line feed behind the `.`
        have hstop10 : s[sp.stop - 1]? = some 10 ∧ sp.stop < s.size ∨ s.size ≤ sp.stop := by
          rcases hjs.ends with h | h
          · rcases h with h0 | h0
            · omega
            · by_cases hx : sp.stop < s.size
              · exact Or.inl ⟨h0, hx⟩
              · exact Or.inr (by omega)
          · exact Or.inr h
        have hj : k0 + 1 < sp.stop - sp.start + L := by
          rcases hstop10 with ⟨h10, _⟩ | hx
          · -- the byte at `k0` is not the last byte of the Junk (that is a line feed)
            have : sp.start + k0 ≠ sp.stop - 1 := by
              intro he'; rw [he', h10] at f2; injection f2 with f2; exact f4 f2.symm
            omega
          · -- the source ends with the Junk: then the run is empty and the tail is the end of input
            exfalso
            apply heof
            simp; omega
        have := attr_transfer hs hs₂ (Nat.le_of_lt ha₁) ha₂ hb₁ hb₂ hjs.ls hls₂ hagree htail' (j := k0 + 1) hj
          (by have := get_lt f2; omega)
          (by rw [show sp.start + (k0 + 1) = sp.start + k0 + 1 by omega]; exact he)
        rw [show P + (k0 + 1) = P + k0 + 1 by omega] at this
        exact this

/-! ## the whole tree -/

theorem getLast?_at {s : Src} {P : Nat} {c : Bytes} (hat : At s P c) (hne : c ≠ []) : c.getLast? = s[P + c.length - 1]? := by
  have hpos : 0 < c.length := List.length_pos_iff.mpr hne
  rw [List.getLast?_eq_getElem?]
  have := at_get hat (c.length - 1) (by omega)
  rw [show P + c.length - 1 = P + (c.length - 1) by omega, this]
  simp [List.getElem?_eq_getElem (show c.length - 1 < c.length by omega)]

/-- **from the source to all texts**: the class form of a `SrcGood` tree is `JGood` -/
theorem jgood_of_srcGood {s : Src} (hs : AsciiThenBoundary s) :
    ∀ (t : List (Entry Span)) (prev : Bool), Cls s t → SrcGood s prev t → JGood prev (t.map (nE s)) := by
  intro t
  induction t with
  | nil => intro _ _ _; trivial
  | cons e es ih =>
    intro prev hcls hsg
    have hcls' : Cls s es := fun x hx => hcls x (List.mem_cons_of_mem _ hx)
    by_cases hj : e.isJunk = true
    · obtain ⟨sp, rfl⟩ : ∃ sp, e = .junk sp := by
        cases e <;> first | exact ⟨_, rfl⟩ | (simp [Entry.isJunk] at hj)
      obtain ⟨hjs, hmt, hcont, hrest⟩ := hsg
      have hlt := hjs.lt
      have hle := hjs.le
      have hclen : (spanBytes s sp).length = sp.stop - sp.start := spanBytes_length s sp.start sp.stop hle
      have hatc : At s sp.start (spanBytes s sp) := at_span sp.start sp.stop hle
      have hne : spanBytes s sp ≠ [] := by
        intro h0; rw [h0] at hclen; simp at hclen; omega
      have hlast := getLast?_at hatc hne
      rw [hclen, show sp.start + (sp.stop - sp.start) - 1 = sp.stop - 1 by omega] at hlast
      obtain ⟨k0, b, f1, f2, f3, f4, f5, f6, f7, f8⟩ := junk_text_facts hjs
      simp only [List.map_cons, nE_junk]
      -- a `\r` at `k0` is not followed by `\n` in the Junk text
      have hcrok : crOK (spanBytes s sp) k0 b = true := by
        simp only [crOK, Bool.or_eq_true, bne_iff_ne, ne_eq]
        by_cases h13 : b = 13
        · right
          by_cases hk1 : k0 + 1 < (spanBytes s sp).length
          · have hg := at_get hatc (k0 + 1) hk1
            rw [List.getElem?_eq_getElem hk1]
            have := f5 h13
            rw [show sp.start + k0 + 1 = sp.start + (k0 + 1) by omega, hg] at this
            exact this
          · rw [List.getElem?_eq_none (by omega)]; nofun
        · exact Or.inl h13
      refine ⟨hne, ?_, ?_, ?_, ?_, ih false hcls' hrest⟩
      · -- a trailing `\n`, or the last entry
        rcases hjs.ends with h | h
        · rcases h with h0 | h0
          · omega
          · exact Or.inl (by rw [hlast]; exact h0)
        · right
          cases hes : es with
          | nil => rfl
          | cons e' es' =>
            have := cont_lt hcont (by rw [hes]; simp)
            omega
      · simp only [nonBlankStart, f8, Bool.and_eq_true, bne_iff_ne, ne_eq]
        exact ⟨f4, hcrok⟩
      · intro hp
        rcases (hmt hp).1 with h | ⟨b', hb', n1, n2, n3, n4⟩ | ⟨k, b', hk, hsp, hb', hset⟩
        · omega
        · have hk0 : k0 = 0 := by
            apply Classical.byContradiction
            intro hne0
            have := f1 0 (by omega)
            rw [Nat.add_zero, hb'] at this
            injection this with this; exact n1 this
          subst hk0
          rw [Nat.add_zero, hb'] at f2
          injection f2 with f2
          subst f2
          simp only [stopperText, f8, Bool.and_eq_true, bne_iff_ne, ne_eq]
          exact ⟨⟨n2, hcrok⟩, n4⟩
        · have hkk : k0 = k := by
            apply Classical.byContradiction
            intro hne0
            by_cases hlt' : k0 < k
            · have := hsp k0 hlt'
              rw [f2] at this
              injection this with this; exact f3 this
            · have := f1 k (by omega)
              rw [hb'] at this
              injection this with this
              subst this
              rcases hset with h | h | h | h <;> cases h
          subst hkk
          rw [hb'] at f2
          injection f2 with f2
          subst f2
          obtain ⟨k', rfl⟩ : ∃ k', k0 = k' + 1 := ⟨k0 - 1, by omega⟩
          simp only [stopperText, f8, Bool.or_eq_true, beq_iff_eq]
          rcases hset with h | h | h | h
          · exact Or.inl (Or.inl (Or.inl h))
          · exact Or.inl (Or.inl (Or.inr h))
          · exact Or.inl (Or.inr h)
          · exact Or.inr h
      · intro s₂ P hs₂ hls₂ hat hsz
        exact junk_clause hs hjs hmt hcont hcls' s₂ P hs₂ hls₂ hat hsz
    · have hj' : e.isJunk = false := by simpa using hj
      rw [SrcGood.nonjunk hj'] at hsg
      have hrt : rtEntry (nE s e) = true := hcls.rt List.mem_cons_self hj'
      have := ih (isMT (nE s e)) hcls' hsg
      simp only [List.map_cons]
      cases e with
      | junk c => simp [Entry.isJunk] at hj'
      | message m => exact ⟨hrt, this⟩
      | term t => exact ⟨hrt, this⟩
      | comment c => exact ⟨hrt, this⟩
      | groupComment c => exact ⟨hrt, this⟩
      | resourceComment c => exact ⟨hrt, this⟩

/-- **C04 round trip with Junk, for EVERY source** (lone `\r` included): serialising the parse tree with
`with_junk = true` gives a text that parses to a tree equal to the original one under `norm true`, and serialising that
tree reproduces the text -/
theorem roundtrip_junk_source_all (str : String) (t : Resource Span) (errs : List PErr)
    (hp : parse str.toUTF8.data = .done (t, errs)) :
    ∃ out, serialize true (resolve str.toUTF8.data t) = some out ∧
      ∃ t' errs', parse out.toArray = .done (t', errs') ∧
        norm true (resolve out.toArray t') = norm true (resolve str.toUTF8.data t) ∧
        serialize true (resolve out.toArray t') = some out := by
  have hs := asciiThenBoundary_of_string str
  obtain ⟨hcls, hsg⟩ := parse_srcGood hs hp
  have hg := jgood_of_srcGood hs t false hcls hsg
  rw [← normSafe_resolve] at hg
  obtain ⟨out, h1, h2⟩ := roundtrip_junk_tree _ hg
  rw [serialize_normSafe] at h1
  obtain ⟨t', errs', h3, h4, h5⟩ := h2 (serialize_atb_of_parse str t errs hp true out h1)
  exact ⟨out, h1, t', errs', h3, by rw [h4, norm_canon, norm_normSafe], h5⟩

/-- the case of a source without lone `\r` (the hypothesis is not needed any more) -/
theorem roundtrip_junk_source (str : String) (_hcr : NoLoneCR str.toUTF8.data) (t : Resource Span) (errs : List PErr)
    (hp : parse str.toUTF8.data = .done (t, errs)) :
    ∃ out, serialize true (resolve str.toUTF8.data t) = some out ∧
      ∃ t' errs', parse out.toArray = .done (t', errs') ∧
        norm true (resolve out.toArray t') = norm true (resolve str.toUTF8.data t) ∧
        serialize true (resolve out.toArray t') = some out :=
  roundtrip_junk_source_all str t errs hp

end FluentProofs.Ser
