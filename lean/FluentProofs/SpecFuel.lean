import FluentModel.SpecGrammar
/-!
# The executable grammar never runs out of fuel (C02, spec totality)

`SpecGrammar`'s recursive productions take fuel.  This file proves that the fuel `SpecGrammar.parse`
passes (`fuelFor`) always suffices: `parse i ≠ none` for every input, so `wellFormed` and the grammar's
tree are defined for every source.  The proof is the usual one: every production returns a rest that is
no longer than its input (strictly shorter where a loop depends on it), and a production called on an
input of length `L` needs at most `4 L + c + 1` fuel, `c` its rank among the productions that can call
each other without consuming input.
-/
namespace FluentProofs.SpecFuel
open FluentModel FluentModel.Syntax FluentModel.SpecGrammar

/-! ## lexical rules do not grow the input -/

theorem dropWhile_len (p : UInt8 → Bool) (l : List UInt8) : (l.dropWhile p).length ≤ l.length :=
  (List.dropWhile_sublist p).length_le

theorem spaces_len (i : Inp) : (spaces i).length ≤ i.length := by
  fun_induction spaces i <;> simp_all <;> omega

theorem blankInline_len {i r : Inp} (h : blankInline i = some r) : r.length < i.length := by
  unfold blankInline at h
  split at h
  · rename_i r'; injection h with h; subst h
    have := spaces_len r'; simp only [List.length_cons]; omega
  · cases h

theorem lineEnd_len {i r : Inp} (h : lineEnd i = some r) : r.length ≤ i.length := by
  unfold lineEnd at h
  split at h
  · injection h with h; subst h; simp only [List.length_cons]; omega
  · injection h with h; subst h; simp only [List.length_cons]; omega
  · injection h with h; subst h; exact Nat.le_refl _
  · cases h

theorem blankOpt_len (i : Inp) : (blankOpt i).length ≤ i.length := by
  fun_induction blankOpt i <;> simp_all <;> omega

theorem blankBlockScan_len (i ls : Inp) (c : Nat) : ∀ (c' : Nat) (r : Inp),
    blankBlockScan i ls c = some (c', r) → r.length ≤ ls.length ∨ r.length ≤ i.length := by
  fun_induction blankBlockScan i ls c <;> intro c' r h <;> simp_all <;> omega

theorem blankBlock_len {i r : Inp} {c : Nat} (h : blankBlock i = some (c, r)) : r.length ≤ i.length := by
  have := blankBlockScan_len i i 0 c r h
  omega

theorem identifier_len {i r : Inp} {a : Bytes} (h : identifier i = some (a, r)) : r.length < i.length := by
  unfold identifier at h
  split at h
  · rename_i b r'
    split at h
    · injection h with h; injection h with _ h; subst h
      have := dropWhile_len isIdentC r'
      simp only [List.length_cons]; omega
    · cases h
  · cases h

theorem digits_len {i r : Inp} {a : Bytes} (h : digits i = some (a, r)) : r.length < i.length := by
  unfold digits at h
  simp only at h
  split at h
  · cases h
  · rename_i hne
    injection h with h; injection h with _ h; subst h
    cases i with
    | nil => simp at hne
    | cons b t =>
      by_cases hb : isDigitC b = true
      · have := dropWhile_len isDigitC t
        simp only [List.dropWhile_cons, hb, if_true, List.length_cons]; omega
      · simp [hb] at hne

theorem numberAfterSign_len {sign a : Bytes} {i r : Inp} (h : numberAfterSign sign i = some (a, r)) :
    r.length < i.length := by
  unfold numberAfterSign at h
  split at h
  · cases h
  · rename_i d i2 hd
    have h1 := digits_len hd
    split at h
    · rename_i r'
      split at h
      · rename_i f i3 hf
        have h2 := digits_len hf
        injection h with h; injection h with _ h; subst h
        simp only [List.length_cons] at h1; omega
      · injection h with h; injection h with _ h; subst h; exact h1
    · injection h with h; injection h with _ h; subst h; exact h1

theorem numberLiteral_len {a : Bytes} {i r : Inp} (h : numberLiteral i = some (a, r)) : r.length < i.length := by
  unfold numberLiteral at h
  split at h
  · have := numberAfterSign_len h; simp only [List.length_cons]; omega
  · exact numberAfterSign_len h

theorem quotedChar_len {i r : Inp} {c : Bytes} (h : quotedChar i = some (c, r)) : r.length < i.length := by
  unfold quotedChar at h
  split at h
  · simp_all; omega
  · simp_all; omega
  · split at h
    · injection h with h; injection h with _ h; subst h
      simp only [List.length_cons, List.length_drop]; omega
    · cases h
  · split at h
    · injection h with h; injection h with _ h; subst h
      simp only [List.length_cons, List.length_drop]; omega
    · cases h
  all_goals (simp_all <;> omega)

theorem quotedChars_len (n : Nat) (i : Inp) : (quotedChars n i).2.length ≤ i.length := by
  induction n generalizing i with
  | zero => simp [quotedChars]
  | succ n ih =>
    simp only [quotedChars]
    split
    · rename_i c r hq
      have := quotedChar_len hq
      have := ih r
      simp only; omega
    · exact Nat.le_refl _

theorem stringLiteral_len {a : Bytes} {i r : Inp} (h : stringLiteral i = some (a, r)) : r.length < i.length := by
  unfold stringLiteral at h
  split at h
  · rename_i r0
    have := quotedChars_len r0.length r0
    simp only at h
    split at h
    · rename_i r'' heq
      injection h with h; injection h with _ h; subst h
      rw [heq] at this
      simp only [List.length_cons] at this ⊢; omega
    · cases h
  · cases h

theorem textRun_len (i : Inp) :
    (textRun i).2.length ≤ i.length ∧ ((textRun i).1 ≠ [] → (textRun i).2.length < i.length) := by
  fun_induction textRun i <;> simp_all <;> omega

theorem variantKey_len {k : VKey Bytes} {i r : Inp} (h : variantKey i = some (k, r)) : r.length < i.length := by
  unfold variantKey at h
  split at h
  · rename_i r0
    simp only at h
    have hb := blankOpt_len r0
    split at h
    · rename_i k' r2 hk
      have h2 : r2.length < (blankOpt r0).length := by
        split at hk
        · rename_i v r2' hn; injection hk with hk; injection hk with _ hk; subst hk; exact numberLiteral_len hn
        · split at hk
          · rename_i n' r2' hi; injection hk with hk; injection hk with _ hk; subst hk; exact identifier_len hi
          · cases hk
      have hb2 := blankOpt_len r2
      split at h
      · rename_i r3 heq
        injection h with h; injection h with _ h; subst h
        rw [heq] at hb2
        simp only [List.length_cons] at hb2 ⊢; omega
      · cases h
    · cases h
  · cases h

theorem attributeAccessorOpt_len (i : Inp) : (attributeAccessorOpt i).2.length ≤ i.length := by
  unfold attributeAccessorOpt
  split
  · rename_i r
    split
    · rename_i n r' hi
      have := identifier_len hi
      simp only [List.length_cons]; omega
    · exact Nat.le_refl _
  · exact Nat.le_refl _


/-! ## fuel -/

/-- fuel that suffices for a production of rank `c` on an input of length `L` -/
def need (c L : Nat) : Nat := 4 * L + c + 1

/-- with `n` fuel: enough fuel means no `.fuel` outcome; a successful parse returns a rest that is not
longer (`strict`: strictly shorter) than the input -/
def Okay {α : Type} (c : Nat) (strict : Bool) (f : Nat → Inp → PR α) (n : Nat) : Prop :=
  ∀ i, (need c i.length ≤ n → f n i ≠ .fuel) ∧
    (∀ a r, f n i = .ok a r → r.length + (if strict then 1 else 0) ≤ i.length)

theorem Okay.nf {α : Type} {c : Nat} {st : Bool} {f : Nat → Inp → PR α} {n : Nat} (h : Okay c st f n)
    (i : Inp) (hn : need c i.length ≤ n) : f n i ≠ .fuel := (h i).1 hn
theorem Okay.le {α : Type} {c : Nat} {st : Bool} {f : Nat → Inp → PR α} {n : Nat} (h : Okay c st f n)
    {i : Inp} {a : α} {r : Inp} (e : f n i = .ok a r) : r.length ≤ i.length := by
  have := (h i).2 a r e; omega
theorem Okay.lt {α : Type} {c : Nat} {f : Nat → Inp → PR α} {n : Nat} (h : Okay c true f n)
    {i : Inp} {a : α} {r : Inp} (e : f n i = .ok a r) : r.length < i.length := by
  have := (h i).2 a r e; simp at this; omega

theorem okay_zero {α : Type} (c : Nat) (st : Bool) (f : Nat → Inp → PR α) (h0 : ∀ i, f 0 i = .fuel) : Okay c st f 0 := by
  intro i
  refine ⟨fun hn => by unfold need at hn; omega, fun a r e => ?_⟩
  rw [h0 i] at e; cases e

structure AllOkay (n : Nat) : Prop where
  pat : Okay 3 false pattern n
  pes : Okay 2 false patternElements n
  pe : Okay 1 true patternElement n
  ip : Okay 0 true inlinePlaceable n
  ie : Okay 1 true inlineExpression n
  ca : Okay 0 true callArguments n
  al : Okay 3 false argumentList n
  ar : Okay 2 true argument n
  vl : Okay 2 false variantList n
  vs : Okay 1 false variants n
  v : ∀ d, Okay 0 true (fun n i => variant n d i) n

theorem pattern_step {n : Nat} (H : AllOkay n) : Okay 3 false pattern (n + 1) := by
  intro i
  constructor
  · intro hn
    simp only [pattern]
    have := H.pes.nf i (by unfold need at *; omega)
    cases h : patternElements n i with
    | ok els r => simp only; split <;> simp
    | fail => simp
    | fuel => exact absurd h this
  · intro a r e
    simp only [pattern] at e
    cases h : patternElements n i with
    | ok els r' =>
      rw [h] at e; simp only at e
      split at e
      · cases e
      · injection e with _ e2; subst e2
        have := H.pes.le h; simp; omega
    | fail => rw [h] at e; cases e
    | fuel => rw [h] at e; cases e

theorem patternElements_step {n : Nat} (H : AllOkay n) : Okay 2 false patternElements (n + 1) := by
  intro i
  constructor
  · intro hn
    simp only [patternElements]
    have h1 := H.pe.nf i (by unfold need at *; omega)
    cases h : patternElement n i with
    | ok els r =>
      have hlt := H.pe.lt h
      have h2 := H.pes.nf r (by unfold need at *; omega)
      simp only
      cases h' : patternElements n r with
      | ok more r' => simp
      | fail => simp
      | fuel => exact absurd h' h2
    | fail => simp
    | fuel => exact absurd h h1
  · intro a r e
    simp only [patternElements] at e
    cases h : patternElement n i with
    | ok els r1 =>
      rw [h] at e; simp only at e
      have hlt := H.pe.lt h
      cases h' : patternElements n r1 with
      | ok more r' =>
        rw [h'] at e; injection e with _ e2; subst e2
        have := H.pes.le h'; simp; omega
      | fail => rw [h'] at e; cases e
      | fuel => rw [h'] at e; cases e
    | fail => rw [h] at e; injection e with _ e2; subst e2; simp
    | fuel => rw [h] at e; cases e


theorem blockText_len {i r : Inp} {els : List RawEl} (h : blockText i = some (els, r)) : r.length < i.length := by
  unfold blockText at h
  split at h
  · rename_i c r1 hb
    have h1 := blankBlock_len hb
    split at h
    · rename_i r2 hbi
      have h2 := blankInline_len hbi
      split at h
      · simp only at h
        injection h with h; injection h with _ h; subst h
        have := (textRun_len r2).1; omega
      · cases h
    · cases h
  · cases h

theorem patternElement_step {n : Nat} (H : AllOkay n) : Okay 1 true patternElement (n + 1) := by
  intro i
  constructor
  · intro hn
    simp only [patternElement]
    split
    · simp
    · split
      · simp
      · have h1 := H.ip.nf i (by unfold need at *; omega)
        cases h : inlinePlaceable n i with
        | ok e r => simp
        | fuel => exact absurd h h1
        | fail =>
          simp only
          split
          · rename_i c r1 hb
            have hl := blankBlock_len hb
            have hs := spaces_len r1
            have h2 := H.ip.nf (spaces r1) (by unfold need at *; omega)
            cases h' : inlinePlaceable n (spaces r1) with
            | ok e r => simp
            | fail => simp
            | fuel => exact absurd h' h2
          · simp
  · intro a r e
    simp only [patternElement] at e
    split at e
    · rename_i b t r' htr
      injection e with _ e2; subst e2
      have := (textRun_len i).2 (by rw [htr]; simp)
      rw [htr] at this; simp at this ⊢; omega
    · split at e
      · rename_i els r' hbt
        injection e with _ e2; subst e2
        have := blockText_len hbt; simp; omega
      · cases h : inlinePlaceable n i with
        | ok x r' =>
          rw [h] at e; injection e with _ e2; subst e2
          have := H.ip.lt h; simp; omega
        | fuel => rw [h] at e; cases e
        | fail =>
          rw [h] at e; simp only at e
          split at e
          · rename_i c r1 hb
            have hl := blankBlock_len hb
            have hs := spaces_len r1
            cases h' : inlinePlaceable n (spaces r1) with
            | ok x r' =>
              rw [h'] at e; injection e with _ e2; subst e2
              have := H.ip.lt h'; simp; omega
            | fail => rw [h'] at e; cases e
            | fuel => rw [h'] at e; cases e
          · cases e


theorem inlinePlaceable_step {n : Nat} (H : AllOkay n) : Okay 0 true inlinePlaceable (n + 1) := by
  intro i
  constructor
  · intro hn
    simp only [inlinePlaceable]
    split
    · rename_i r
      have hbr := blankOpt_len r
      simp only [List.length_cons] at hn
      have h1 := H.ie.nf (blankOpt r) (by unfold need at *; omega)
      cases hie : inlineExpression n (blankOpt r) with
      | ok e r1 =>
        have hr1 := H.ie.lt hie
        simp only
        split
        · split
          · split <;> simp
          · simp
        · simp
        · rename_i hbody
          split at hbody
          · rename_i r2 hb1
            have hb1l := blankOpt_len r1
            rw [hb1] at hb1l
            simp only [List.length_cons] at hb1l
            have hs := spaces_len r2
            split at hbody
            · have h2 := H.vl.nf (spaces r2) (by unfold need at *; omega)
              cases hv : variantList n (spaces r2) with
              | ok vs r3 => rw [hv] at hbody; cases hbody
              | fail => rw [hv] at hbody; cases hbody
              | fuel => exact absurd hv h2
            · cases hbody
          · cases hbody
      | fail => simp
      | fuel => exact absurd hie h1
    · simp
  · intro a r e
    simp only [inlinePlaceable] at e
    split at e
    · rename_i r0
      have hbr := blankOpt_len r0
      cases hie : inlineExpression n (blankOpt r0) with
      | ok x r1 =>
        have hr1 := H.ie.lt hie
        rw [hie] at e
        simp only at e
        split at e
        · rename_i y r4 hbody
          have hr4 : r4.length ≤ r1.length := by
            split at hbody
            · rename_i r2 hb1
              have hb1l := blankOpt_len r1
              rw [hb1] at hb1l
              simp only [List.length_cons] at hb1l
              have hs := spaces_len r2
              split at hbody
              · cases hv : variantList n (spaces r2) with
                | ok vs r3 =>
                  rw [hv] at hbody; injection hbody with _ h2; subst h2
                  have := H.vl.le hv; omega
                | fail => rw [hv] at hbody; cases hbody
                | fuel => rw [hv] at hbody; cases hbody
              · cases hbody
            · injection hbody with _ h2; subst h2; exact Nat.le_refl _
          split at e
          · rename_i r5 hb4
            have hb4l := blankOpt_len r4
            rw [hb4] at hb4l
            simp only [List.length_cons] at hb4l
            split at e
            · injection e with _ e2; subst e2
              simp only [List.length_cons, if_true]; omega
            · cases e
          · cases e
        · cases e
        · cases e
      | fail => rw [hie] at e; cases e
      | fuel => rw [hie] at e; cases e
    · cases e


theorem inlineExpression_step {n : Nat} (H : AllOkay n) : Okay 1 true inlineExpression (n + 1) := by
  intro i
  constructor
  · intro hn
    simp only [inlineExpression]
    split
    · simp
    · split
      · simp
      · split
        · simp
        · rename_i hfn
          -- the FunctionReference attempt ran out of fuel: impossible
          split at hfn
          · rename_i id r hid
            have hl := identifier_len hid
            have h1 := H.ca.nf r (by unfold need at *; omega)
            cases hc : callArguments n r with
            | ok pn r' => rw [hc] at hfn; simp only at hfn; split at hfn <;> cases hfn
            | fail => rw [hc] at hfn; cases hfn
            | fuel => exact absurd hc h1
          · cases hfn
        · split
          · simp
          · split
            · rename_i r
              split
              · rename_i id r1 hid
                have hl := identifier_len hid
                have ha := attributeAccessorOpt_len r1
                simp only [List.length_cons] at hn
                have h1 := H.ca.nf (attributeAccessorOpt r1).2 (by unfold need at *; omega)
                cases hc : callArguments n (attributeAccessorOpt r1).2 with
                | ok args r3 => simp
                | fail => simp
                | fuel => exact absurd hc h1
              · simp
            · split <;> simp
            · have h1 := H.ip.nf i (by unfold need at *; omega)
              cases hp : inlinePlaceable n i with
              | ok e r => simp
              | fail => simp
              | fuel => exact absurd hp h1
  · intro a r e
    simp only [inlineExpression] at e
    split at e
    · rename_i v r' hs
      injection e with _ e2; subst e2
      have := stringLiteral_len hs; simp; omega
    · split at e
      · rename_i v r' hn
        injection e with _ e2; subst e2
        have := numberLiteral_len hn; simp; omega
      · split at e
        · rename_i x r' hfn
          injection e with _ e2; subst e2
          split at hfn
          · rename_i id r1 hid
            have hl := identifier_len hid
            cases hc : callArguments n r1 with
            | ok pn r2 =>
              rw [hc] at hfn; simp only at hfn
              split at hfn
              · injection hfn with _ h2; subst h2
                have := H.ca.lt hc; simp; omega
              · cases hfn
            | fail => rw [hc] at hfn; cases hfn
            | fuel => rw [hc] at hfn; cases hfn
          · cases hfn
        · cases e
        · split at e
          · rename_i id r1 hid
            have hl := identifier_len hid
            have ha := attributeAccessorOpt_len r1
            injection e with _ e2; subst e2
            simp; omega
          · split at e
            · rename_i r0
              split at e
              · rename_i id r1 hid
                have hl := identifier_len hid
                have ha := attributeAccessorOpt_len r1
                cases hc : callArguments n (attributeAccessorOpt r1).2 with
                | ok args r3 =>
                  rw [hc] at e; injection e with _ e2; subst e2
                  have := H.ca.lt hc; simp only [List.length_cons, if_true]; omega
                | fail =>
                  rw [hc] at e; injection e with _ e2; subst e2
                  simp only [List.length_cons, if_true]; omega
                | fuel => rw [hc] at e; cases e
              · cases e
            · rename_i r0
              split at e
              · rename_i id r1 hid
                have hl := identifier_len hid
                injection e with _ e2; subst e2
                simp only [List.length_cons, if_true]; omega
              · cases e
            · cases hp : inlinePlaceable n i with
              | ok x r' =>
                rw [hp] at e; injection e with _ e2; subst e2
                have := H.ip.lt hp; simp; omega
              | fail => rw [hp] at e; cases e
              | fuel => rw [hp] at e; cases e


theorem callArguments_step {n : Nat} (H : AllOkay n) : Okay 0 true callArguments (n + 1) := by
  intro i
  constructor
  · intro hn
    simp only [callArguments]
    split
    · rename_i r hb
      have hbl := blankOpt_len i
      rw [hb] at hbl
      simp only [List.length_cons] at hbl
      have hbr := blankOpt_len r
      have h1 := H.al.nf (blankOpt r) (by unfold need at *; omega)
      cases ha : argumentList n (blankOpt r) with
      | ok args r1 =>
        simp only
        split
        · split <;> simp
        · simp
      | fail => simp
      | fuel => exact absurd ha h1
    · simp
  · intro a r e
    simp only [callArguments] at e
    split at e
    · rename_i r0 hb
      have hbl := blankOpt_len i
      rw [hb] at hbl
      simp only [List.length_cons] at hbl
      have hbr := blankOpt_len r0
      cases ha : argumentList n (blankOpt r0) with
      | ok args r1 =>
        have hr1 := H.al.le ha
        rw [ha] at e
        simp only at e
        split at e
        · rename_i r2 hb1
          have hb1l := blankOpt_len r1
          rw [hb1] at hb1l
          simp only [List.length_cons] at hb1l
          split at e
          · injection e with _ e2; subst e2
            simp; omega
          · cases e
        · cases e
      | fail => rw [ha] at e; cases e
      | fuel => rw [ha] at e; cases e
    · cases e

theorem argumentList_step {n : Nat} (H : AllOkay n) : Okay 3 false argumentList (n + 1) := by
  intro i
  constructor
  · intro hn
    simp only [argumentList]
    have h1 := H.ar.nf i (by unfold need at *; omega)
    cases ha : argument n i with
    | ok a r =>
      have hr := H.ar.lt ha
      simp only
      split
      · rename_i r1 hb
        have hbl := blankOpt_len r
        rw [hb] at hbl
        simp only [List.length_cons] at hbl
        have hbr := blankOpt_len r1
        have h2 := H.al.nf (blankOpt r1) (by unfold need at *; omega)
        cases hl : argumentList n (blankOpt r1) with
        | ok more r2 => simp
        | fail => simp
        | fuel => exact absurd hl h2
      · simp
    | fail => simp
    | fuel => exact absurd ha h1
  · intro a r e
    simp only [argumentList] at e
    cases ha : argument n i with
    | ok x r0 =>
      have hr := H.ar.lt ha
      rw [ha] at e
      simp only at e
      split at e
      · rename_i r1 hb
        have hbl := blankOpt_len r0
        rw [hb] at hbl
        simp only [List.length_cons] at hbl
        have hbr := blankOpt_len r1
        cases hl : argumentList n (blankOpt r1) with
        | ok more r2 =>
          rw [hl] at e; injection e with _ e2; subst e2
          have := H.al.le hl; simp; omega
        | fail => rw [hl] at e; cases e
        | fuel => rw [hl] at e; cases e
      · injection e with _ e2; subst e2; simp; omega
    | fail => rw [ha] at e; injection e with _ e2; subst e2; simp
    | fuel => rw [ha] at e; cases e

theorem argument_step {n : Nat} (H : AllOkay n) : Okay 2 true argument (n + 1) := by
  intro i
  constructor
  · intro hn
    simp only [argument]
    split
    · simp
    · have h1 := H.ie.nf i (by unfold need at *; omega)
      cases he : inlineExpression n i with
      | ok e r => simp
      | fail => simp
      | fuel => exact absurd he h1
  · intro a r e
    simp only [argument] at e
    split at e
    · rename_i x r' hna
      injection e with _ e2; subst e2
      split at hna
      · rename_i name r0 hid
        have hl := identifier_len hid
        split at hna
        · rename_i r1 hb
          have hbl := blankOpt_len r0
          rw [hb] at hbl
          simp only [List.length_cons] at hbl
          have hb2 := blankOpt_len r1
          split at hna
          · rename_i v r3 hs
            have := stringLiteral_len hs
            injection hna with hna; injection hna with _ h2; subst h2
            simp; omega
          · split at hna
            · rename_i v r3 hn'
              have := numberLiteral_len hn'
              injection hna with hna; injection hna with _ h2; subst h2
              simp; omega
            · cases hna
        · cases hna
      · cases hna
    · cases he : inlineExpression n i with
      | ok x r' =>
        rw [he] at e; injection e with _ e2; subst e2
        have := H.ie.lt he; simp; omega
      | fail => rw [he] at e; cases e
      | fuel => rw [he] at e; cases e


theorem variant_step {n : Nat} (H : AllOkay n) (d : Bool) : Okay 0 true (fun n i => variant n d i) (n + 1) := by
  intro i
  constructor
  · intro hn
    simp only [variant]
    split
    · simp
    · rename_i r hle
      have hl := lineEnd_len hle
      have hb := blankOpt_len r
      split
      · simp
      · rename_i r2 hr2
        have hr2l : r2.length ≤ (blankOpt r).length := by
          split at hr2
          · split at hr2
            · rename_i r' heq
              injection hr2 with hr2; subst hr2
              rw [heq]; simp
            · cases hr2
          · injection hr2 with hr2; subst hr2; exact Nat.le_refl _
        split
        · simp
        · rename_i k r3 hk
          have hkl := variantKey_len hk
          have hs := spaces_len r3
          have h1 := H.pat.nf (spaces r3) (by unfold need at *; omega)
          cases hp : pattern n (spaces r3) with
          | ok p r4 => simp
          | fail => simp
          | fuel => exact absurd hp h1
  · intro a r e
    simp only [variant] at e
    split at e
    · cases e
    · rename_i r0 hle
      have hl := lineEnd_len hle
      have hb := blankOpt_len r0
      split at e
      · cases e
      · rename_i r2 hr2
        have hr2l : r2.length ≤ (blankOpt r0).length := by
          split at hr2
          · split at hr2
            · rename_i r' heq
              injection hr2 with hr2; subst hr2
              rw [heq]; simp
            · cases hr2
          · injection hr2 with hr2; subst hr2; exact Nat.le_refl _
        split at e
        · cases e
        · rename_i k r3 hk
          have hkl := variantKey_len hk
          have hs := spaces_len r3
          cases hp : pattern n (spaces r3) with
          | ok p r4 =>
            rw [hp] at e; injection e with _ e2; subst e2
            have := H.pat.le hp; simp; omega
          | fail => rw [hp] at e; cases e
          | fuel => rw [hp] at e; cases e

theorem variants_step {n : Nat} (H : AllOkay n) : Okay 1 false variants (n + 1) := by
  intro i
  constructor
  · intro hn
    simp only [variants]
    have h1 := (H.v false).nf i (by unfold need at *; omega)
    cases hv : variant n false i with
    | ok v r =>
      have hr := (H.v false).lt (i := i) hv
      have h2 := H.vs.nf r (by unfold need at *; omega)
      simp only
      cases hs : variants n r with
      | ok more r' => simp
      | fail => simp
      | fuel => exact absurd hs h2
    | fail => simp
    | fuel => exact absurd hv h1
  · intro a r e
    simp only [variants] at e
    cases hv : variant n false i with
    | ok v r0 =>
      have hr := (H.v false).lt (i := i) hv
      rw [hv] at e; simp only at e
      cases hs : variants n r0 with
      | ok more r' =>
        rw [hs] at e; injection e with _ e2; subst e2
        have := H.vs.le hs; simp; omega
      | fail => rw [hs] at e; cases e
      | fuel => rw [hs] at e; cases e
    | fail => rw [hv] at e; injection e with _ e2; subst e2; simp
    | fuel => rw [hv] at e; cases e

theorem variantList_step {n : Nat} (H : AllOkay n) : Okay 2 false variantList (n + 1) := by
  intro i
  constructor
  · intro hn
    simp only [variantList]
    have h1 := H.vs.nf i (by unfold need at *; omega)
    cases hv1 : variants n i with
    | ok vs1 r1 =>
      have hr1 := H.vs.le hv1
      have h2 := (H.v true).nf r1 (by unfold need at *; omega)
      simp only
      cases hd : variant n true r1 with
      | ok dv r2 =>
        have hr2 := (H.v true).lt (i := r1) hd
        have h3 := H.vs.nf r2 (by unfold need at *; omega)
        simp only
        cases hv2 : variants n r2 with
        | ok vs2 r3 => simp only; split <;> simp
        | fail => simp
        | fuel => exact absurd hv2 h3
      | fail => simp
      | fuel => exact absurd hd h2
    | fail => simp
    | fuel => exact absurd hv1 h1
  · intro a r e
    simp only [variantList] at e
    cases hv1 : variants n i with
    | ok vs1 r1 =>
      have hr1 := H.vs.le hv1
      rw [hv1] at e; simp only at e
      cases hd : variant n true r1 with
      | ok dv r2 =>
        have hr2 := (H.v true).lt (i := r1) hd
        rw [hd] at e; simp only at e
        cases hv2 : variants n r2 with
        | ok vs2 r3 =>
          have hr3 := H.vs.le hv2
          rw [hv2] at e; simp only at e
          split at e
          · rename_i r4 hle
            have := lineEnd_len hle
            injection e with _ e2; subst e2
            simp; omega
          · cases e
        | fail => rw [hv2] at e; cases e
        | fuel => rw [hv2] at e; cases e
      | fail => rw [hd] at e; cases e
      | fuel => rw [hd] at e; cases e
    | fail => rw [hv1] at e; cases e
    | fuel => rw [hv1] at e; cases e

/-- all productions, by induction on the fuel -/
theorem allOkay (n : Nat) : AllOkay n := by
  induction n with
  | zero =>
    exact {
      pat := okay_zero _ _ _ (fun _ => rfl)
      pes := okay_zero _ _ _ (fun _ => rfl)
      pe := okay_zero _ _ _ (fun _ => rfl)
      ip := okay_zero _ _ _ (fun _ => rfl)
      ie := okay_zero _ _ _ (fun _ => rfl)
      ca := okay_zero _ _ _ (fun _ => rfl)
      al := okay_zero _ _ _ (fun _ => rfl)
      ar := okay_zero _ _ _ (fun _ => rfl)
      vl := okay_zero _ _ _ (fun _ => rfl)
      vs := okay_zero _ _ _ (fun _ => rfl)
      v := fun d => okay_zero _ _ _ (fun _ => rfl) }
  | succ n ih =>
    exact {
      pat := pattern_step ih
      pes := patternElements_step ih
      pe := patternElement_step ih
      ip := inlinePlaceable_step ih
      ie := inlineExpression_step ih
      ca := callArguments_step ih
      al := argumentList_step ih
      ar := argument_step ih
      vl := variantList_step ih
      vs := variants_step ih
      v := fun d => variant_step ih d }


/-! ## entries and the resource loop -/

theorem commentChars_len (i : Inp) : (commentChars i).2.length ≤ i.length := by
  fun_induction commentChars i <;> simp_all <;> omega

theorem commentMarker_len {i r : Inp} {l : Nat} (h : commentMarker i = some (l, r)) : r.length < i.length := by
  unfold commentMarker at h
  split at h <;> simp_all <;> omega

theorem commentBody_len (r : Inp) : (commentBody r).2.length ≤ r.length := by
  unfold commentBody
  split
  · rename_i r'
    have := commentChars_len r'
    simp only [List.length_cons]; omega
  · exact Nat.le_refl _

theorem commentLine_len {i r : Inp} {x : Nat × Bytes} (h : commentLine i = some (x, r)) : r.length < i.length := by
  unfold commentLine at h
  split at h
  · cases h
  · rename_i l r0 hm
    have h1 := commentMarker_len hm
    have hbody := commentBody_len r0
    split at h
    · rename_i r2 hle
      have h2 := lineEnd_len hle
      injection h with h; injection h with _ h; subst h
      omega
    · cases h

theorem blankBlockScan_lt (N : Nat) (i ls : Inp) (c : Nat) : ∀ (c' : Nat) (r : Inp),
    i.length ≤ N → (c = 0 ∨ ls.length < N) → 0 < N →
    blankBlockScan i ls c = some (c', r) → r.length < N := by
  fun_induction blankBlockScan i ls c <;> intro c' r h1 h2 h3 h <;>
    (try simp only [List.length_cons] at h1) <;> grind

theorem blankBlock_lt {i r : Inp} {c : Nat} (hi : i ≠ []) (h : blankBlock i = some (c, r)) : r.length < i.length := by
  have hpos : 0 < i.length := by
    cases i with
    | nil => exact absurd rfl hi
    | cons b t => simp
  exact blankBlockScan_lt i.length i i 0 c r (Nat.le_refl _) (Or.inl rfl) hpos h

theorem junkLine_len (i : Inp) : (junkLine i).2.length ≤ i.length ∧ (i ≠ [] → (junkLine i).2.length < i.length) := by
  unfold junkLine
  have hd := dropWhile_len (· != 10) i
  cases i with
  | nil => simp
  | cons b t =>
    by_cases hb : b = 10
    · subst hb
      simp
    · have hb' : (b != 10) = true := by simpa using hb
      have ht := dropWhile_len (· != 10) t
      simp only [List.dropWhile_cons, hb', if_true]
      split
      · rename_i r' heq
        simp only
        rw [heq] at ht
        simp only [List.length_cons] at ht ⊢
        constructor
        · omega
        · intro _; omega
      · simp only [List.length_cons]
        constructor
        · omega
        · intro _; omega

theorem junkLines_len (n : Nat) (i : Inp) : (junkLines n i).2.length ≤ i.length := by
  induction n generalizing i with
  | zero => simp [junkLines]
  | succ n ih =>
    cases i with
    | nil => simp [junkLines]
    | cons b t =>
      simp only [junkLines]
      split
      · exact Nat.le_refl _
      · have h1 := (junkLine_len (b :: t)).1
        have h2 := ih (junkLine (b :: t)).2
        simp only; omega

theorem junk_lt {i : Inp} (hi : i ≠ []) : (junk i).2.length < i.length := by
  unfold junk
  have h1 := (junkLine_len i).2 hi
  have h2 := junkLines_len (junkLine i).2.length (junkLine i).2
  simp only; omega

/-- `fuel` is enough for a pattern on every input of length `≤ M` -/
def Enough (fuel M : Nat) : Prop := 4 * M + 4 ≤ fuel

theorem attributeP_ok {fuel M : Nat} (hf : Enough fuel M) (i : Inp) (hi : i.length ≤ M) :
    attributeP fuel i ≠ .fuel ∧ ∀ a r, attributeP fuel i = .ok a r → r.length < i.length := by
  have H := allOkay fuel
  unfold attributeP
  split
  · exact ⟨by simp, fun a r e => by cases e⟩
  · rename_i r0 hle
    have h0 := lineEnd_len hle
    have hb := blankOpt_len r0
    split
    · rename_i r1 hb1
      rw [hb1] at hb; simp only [List.length_cons] at hb
      split
      · rename_i id r2 hid
        have h2 := identifier_len hid
        have hs := spaces_len r2
        split
        · rename_i r3 hs3
          rw [hs3] at hs; simp only [List.length_cons] at hs
          have hs2 := spaces_len r3
          have h1 := H.pat.nf (spaces r3) (by unfold need Enough at *; omega)
          cases hp : pattern fuel (spaces r3) with
          | ok p r4 =>
            have := H.pat.le hp
            refine ⟨by simp, fun a r e => ?_⟩
            injection e with _ e2; subst e2; omega
          | fail => exact ⟨by simp, fun a r e => by cases e⟩
          | fuel => exact absurd hp h1
        · exact ⟨by simp, fun a r e => by cases e⟩
      · exact ⟨by simp, fun a r e => by cases e⟩
    · exact ⟨by simp, fun a r e => by cases e⟩

theorem attributesP_ok {fuel M : Nat} (hf : Enough fuel M) (n : Nat) (i : Inp) (hi : i.length ≤ M) (hn : i.length < n) :
    attributesP fuel n i ≠ .fuel ∧ ∀ a r, attributesP fuel n i = .ok a r → r.length ≤ i.length := by
  induction n generalizing i with
  | zero => omega
  | succ n ih =>
    have ha := attributeP_ok hf i hi
    simp only [attributesP]
    cases h : attributeP fuel i with
    | ok a r =>
      have hr := ha.2 a r h
      have hi2 := ih r (by omega) (by omega)
      simp only
      cases h' : attributesP fuel n r with
      | ok more r' =>
        have := hi2.2 more r' h'
        refine ⟨by simp, fun a r e => ?_⟩
        injection e with _ e2; subst e2; omega
      | fail => exact ⟨by simp, fun a r e => by cases e⟩
      | fuel => exact absurd h' hi2.1
    | fail => exact ⟨by simp, fun a r e => by injection e with _ e2; subst e2; exact Nat.le_refl _⟩
    | fuel => exact absurd h ha.1

theorem messageP_ok {fuel M : Nat} (hf : Enough fuel M) (i : Inp) (hi : i.length ≤ M) :
    messageP fuel i ≠ .fuel ∧ ∀ a r, messageP fuel i = .ok a r → r.length < i.length := by
  have H := allOkay fuel
  unfold messageP
  split
  · exact ⟨by simp, fun a r e => by cases e⟩
  · rename_i id r0 hid
    have h0 := identifier_len hid
    have hs := spaces_len r0
    split
    · rename_i r1 hs1
      rw [hs1] at hs; simp only [List.length_cons] at hs
      have hs2 := spaces_len r1
      have h1 := H.pat.nf (spaces r1) (by unfold need Enough at *; omega)
      simp only
      cases hp : pattern fuel (spaces r1) with
      | ok p r3 =>
        have hr3 := H.pat.le hp
        have ha := attributesP_ok hf fuel r3 (by omega) (by unfold Enough at hf; omega)
        simp only
        cases h' : attributesP fuel fuel r3 with
        | ok as r4 =>
          have := ha.2 as r4 h'
          refine ⟨by simp, fun a r e => ?_⟩
          injection e with _ e2; subst e2; omega
        | fail => exact ⟨by simp, fun a r e => by cases e⟩
        | fuel => exact absurd h' ha.1
      | fuel => exact absurd hp h1
      | fail =>
        have ha := attributesP_ok hf fuel (spaces r1) (by omega) (by unfold Enough at hf; omega)
        simp only
        split
        · exact ⟨by simp, fun a r e => by cases e⟩
        · rename_i as r4 _ h'
          have := ha.2 as r4 h'
          refine ⟨by simp, fun a r e => ?_⟩
          injection e with _ e2; subst e2; omega
        · exact ⟨by simp, fun a r e => by cases e⟩
        · rename_i h'; exact absurd h' ha.1
    · exact ⟨by simp, fun a r e => by cases e⟩

theorem termP_ok {fuel M : Nat} (hf : Enough fuel M) (i : Inp) (hi : i.length ≤ M) :
    termP fuel i ≠ .fuel ∧ ∀ a r, termP fuel i = .ok a r → r.length < i.length := by
  have H := allOkay fuel
  unfold termP
  split
  · rename_i r00
    simp only [List.length_cons] at hi
    split
    · exact ⟨by simp, fun a r e => by cases e⟩
    · rename_i id r0 hid
      have h0 := identifier_len hid
      have hs := spaces_len r0
      split
      · rename_i r1 hs1
        rw [hs1] at hs; simp only [List.length_cons] at hs
        have hs2 := spaces_len r1
        have h1 := H.pat.nf (spaces r1) (by unfold need Enough at *; omega)
        cases hp : pattern fuel (spaces r1) with
        | ok p r3 =>
          have hr3 := H.pat.le hp
          have ha := attributesP_ok hf fuel r3 (by omega) (by unfold Enough at hf; omega)
          simp only
          cases h' : attributesP fuel fuel r3 with
          | ok as r4 =>
            have := ha.2 as r4 h'
            refine ⟨by simp, fun a r e => ?_⟩
            injection e with _ e2; subst e2
            simp only [List.length_cons]; omega
          | fail => exact ⟨by simp, fun a r e => by cases e⟩
          | fuel => exact absurd h' ha.1
        | fail => exact ⟨by simp, fun a r e => by cases e⟩
        | fuel => exact absurd hp h1
      · exact ⟨by simp, fun a r e => by cases e⟩
  · exact ⟨by simp, fun a r e => by cases e⟩


theorem entryP_ok {fuel M : Nat} (hf : Enough fuel M) (i : Inp) (hi : i.length ≤ M) :
    entryP fuel i ≠ .fuel ∧ ∀ a r, entryP fuel i = .ok a r → r.length < i.length := by
  have hm := messageP_ok hf i hi
  have ht := termP_ok hf i hi
  unfold entryP
  simp only
  split
  · rename_i e r hmsg
    refine ⟨by simp, fun a r' e' => ?_⟩
    injection e' with _ e2; subst e2
    cases h : messageP fuel i with
    | ok m r1 =>
      rw [h] at hmsg; simp only at hmsg
      have h1 := hm.2 m r1 h
      split at hmsg
      · rename_i r2 hle
        have := lineEnd_len hle
        injection hmsg with _ h2; subst h2; omega
      · cases hmsg
    | fail => rw [h] at hmsg; cases hmsg
    | fuel => rw [h] at hmsg; cases hmsg
  · rename_i hmsg
    cases h : messageP fuel i with
    | ok m r1 => rw [h] at hmsg; simp only at hmsg; split at hmsg <;> cases hmsg
    | fail => rw [h] at hmsg; cases hmsg
    | fuel => exact absurd h hm.1
  · split
    · rename_i e r htrm
      refine ⟨by simp, fun a r' e' => ?_⟩
      injection e' with _ e2; subst e2
      cases h : termP fuel i with
      | ok t r1 =>
        rw [h] at htrm; simp only at htrm
        have h1 := ht.2 t r1 h
        split at htrm
        · rename_i r2 hle
          have := lineEnd_len hle
          injection htrm with _ h2; subst h2; omega
        · cases htrm
      | fail => rw [h] at htrm; cases htrm
      | fuel => rw [h] at htrm; cases htrm
    · rename_i htrm
      cases h : termP fuel i with
      | ok t r1 => rw [h] at htrm; simp only at htrm; split at htrm <;> cases htrm
      | fail => rw [h] at htrm; cases htrm
      | fuel => exact absurd h ht.1
    · split
      · rename_i c r hc
        exact ⟨by simp, fun a r' e' => by injection e' with _ e2; subst e2; exact commentLine_len hc⟩
      · rename_i c r hc
        exact ⟨by simp, fun a r' e' => by injection e' with _ e2; subst e2; exact commentLine_len hc⟩
      · rename_i c r hc
        exact ⟨by simp, fun a r' e' => by injection e' with _ e2; subst e2; exact commentLine_len hc⟩
      · exact ⟨by simp, fun a r' e' => by cases e'⟩

theorem resourceRaw_some {fuel M : Nat} (hf : Enough fuel M) (n : Nat) (i : Inp) (hi : i.length ≤ M)
    (hn : i.length < n) : (resourceRaw fuel n i).isSome = true := by
  induction n generalizing i with
  | zero => omega
  | succ n ih =>
    cases i with
    | nil => simp [resourceRaw]
    | cons b t =>
      have he := entryP_ok hf (b :: t) hi
      simp only [resourceRaw]
      cases h : entryP fuel (b :: t) with
      | ok e r =>
        have hr := he.2 e r h
        have := ih r (by omega) (by simp only [List.length_cons] at hn hr; omega)
        simp only [Option.isSome_map]; exact this
      | fuel => exact absurd h he.1
      | fail =>
        simp only
        split
        · rename_i c r hb
          have hr := blankBlock_lt (by simp) hb
          have := ih r (by omega) (by simp only [List.length_cons] at hn hr; omega)
          simp only [Option.isSome_map]; exact this
        · have hr := junk_lt (i := b :: t) (by simp)
          have := ih (junk (b :: t)).2 (by omega) (by simp only [List.length_cons] at hn hr; omega)
          simp only [Option.isSome_map]; exact this

/-- **Spec totality.** The fuel `SpecGrammar.parse` passes always suffices: the grammar assigns a tree
to every input (so `wellFormed` is decided by that tree, never by fuel exhaustion). -/
theorem parse_isSome (i : Inp) : (SpecGrammar.parse i).isSome = true := by
  unfold SpecGrammar.parse
  have := resourceRaw_some (fuel := fuelFor i) (M := i.length) (by unfold Enough fuelFor; omega)
    (i.length + 1) i (Nat.le_refl _) (by omega)
  simp only [Option.isSome_map]; exact this

end FluentProofs.SpecFuel
