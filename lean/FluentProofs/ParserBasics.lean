import FluentModel.Parser
namespace FluentProofs.Parser
open FluentModel.Syntax

theorem forall_uint8 (P : UInt8 → Prop) (h : ∀ n : Fin 256, P (UInt8.ofNat n.val)) : ∀ b, P b := by
  intro b
  have := h ⟨b.toNat, b.toNat_lt⟩
  simpa using this

theorem ascii_not_cont : ∀ b : UInt8, b < 128 → ((b &&& 0xC0) != 0x80) = true := by
  apply forall_uint8; decide +kernel
theorem isAlpha_lt : ∀ b : UInt8, isAlpha b = true → b < 128 := by
  apply forall_uint8; decide +kernel
theorem isDigit_lt : ∀ b : UInt8, isDigit b = true → b < 128 := by
  apply forall_uint8; decide +kernel
theorem isIdentByte_lt : ∀ b : UInt8, isIdentByte b = true → b < 128 := by
  apply forall_uint8; decide +kernel
theorem isHexDigit_lt : ∀ b : UInt8, isHexDigit b = true → b < 128 := by
  apply forall_uint8; decide +kernel

/-- `i` is a char boundary of `s` (this implies `i ≤ s.size`) -/
def Bnd (s : Src) (i : Nat) : Prop := isBoundary s i = true

/-- The one UTF-8 fact the parser relies on: the position after an ASCII byte is a char boundary.
It holds for the bytes of every `String` / Rust `&str`. -/
def AsciiThenBoundary (s : Src) : Prop :=
  ∀ i b, s[i]? = some b → b < 128 → isBoundary s (i + 1) = true

theorem get_lt {s : Src} {i : Nat} {b : UInt8} (h : s[i]? = some b) : i < s.size :=
  (Array.getElem?_eq_some_iff.mp h).1

theorem Bnd.le {s : Src} {i : Nat} (h : Bnd s i) : i ≤ s.size := by
  unfold Bnd isBoundary at h
  by_cases h1 : i < s.size
  · omega
  · have : s[i]? = none := by simp; omega
    simp [this] at h; omega

theorem bnd_zero (s : Src) : Bnd s 0 := by simp [Bnd, isBoundary]
theorem bnd_size (s : Src) : Bnd s s.size := by simp [Bnd, isBoundary]

theorem bnd_of_ascii {s : Src} {i : Nat} {b : UInt8} (h : s[i]? = some b) (hb : b < 128) : Bnd s i := by
  have := ascii_not_cont b hb
  simp [Bnd, isBoundary, h, this]

theorem bnd_succ {s : Src} (hs : AsciiThenBoundary s) {i : Nat} {b : UInt8} (h : s[i]? = some b) (hb : b < 128) :
    Bnd s (i + 1) := hs i b h hb

/-- position `i` holds an ASCII byte -/
def Asc (s : Src) (i : Nat) : Prop := ∃ b, s[i]? = some b ∧ b < 128

theorem Asc.bnd {s : Src} {i : Nat} (h : Asc s i) : Bnd s i := by
  obtain ⟨b, h1, h2⟩ := h; exact bnd_of_ascii h1 h2
theorem Asc.bnd_succ {s : Src} (hs : AsciiThenBoundary s) {i : Nat} (h : Asc s i) : Bnd s (i + 1) := by
  obtain ⟨b, h1, h2⟩ := h; exact hs i b h1 h2
theorem Asc.lt {s : Src} {i : Nat} (h : Asc s i) : i < s.size := by
  obtain ⟨b, h1, _⟩ := h; exact get_lt h1

/-- `q` is `p` or follows an ASCII byte at a position `≥ p` -/
def After (s : Src) (p q : Nat) : Prop := q = p ∨ (p < q ∧ Asc s (q - 1))

theorem After.bnd {s : Src} (hs : AsciiThenBoundary s) {p q : Nat} (h : After s p q) (hp : Bnd s p) : Bnd s q := by
  rcases h with rfl | ⟨h1, h2⟩
  · exact hp
  · have := h2.bnd_succ hs
    have e : q - 1 + 1 = q := by omega
    rwa [e] at this

theorem After.le {s : Src} {p q : Nat} (h : After s p q) : p ≤ q := by
  rcases h with rfl | ⟨h1, _⟩ <;> omega
theorem After.le_size {s : Src} {p q : Nat} (h : After s p q) (hp : p ≤ s.size) : q ≤ s.size := by
  rcases h with rfl | ⟨h1, h2⟩
  · exact hp
  · have := h2.lt; omega
theorem After.refl (s : Src) (p : Nat) : After s p p := Or.inl rfl
theorem After.trans {s : Src} {p q r : Nat} (h1 : After s p q) (h2 : After s q r) : After s p r := by
  rcases h2 with rfl | ⟨h3, h4⟩
  · exact h1
  · have := h1.le; exact Or.inr ⟨by omega, h4⟩
theorem After.step {s : Src} {p : Nat} (h : Asc s p) : After s p (p + 1) := Or.inr ⟨by omega, by simpa using h⟩

/-! ### skipBlankInline -/

theorem skipBlankInlineGo_spec (s : Src) (n p : Nat) :
    After s p (skipBlankInlineGo s n p) ∧ ∀ j, p ≤ j → j < skipBlankInlineGo s n p → s[j]? = some 32 := by
  induction n generalizing p with
  | zero => simp only [skipBlankInlineGo]; exact ⟨After.refl _ _, fun j h1 h2 => by omega⟩
  | succ n ih =>
    simp only [skipBlankInlineGo]
    split
    · rename_i h
      have h : s[p]? = some 32 := by simpa using h
      have ⟨i1, i2⟩ := ih (p + 1)
      refine ⟨(After.step ⟨32, h, by decide⟩).trans i1, ?_⟩
      intro j h1 h2
      by_cases hj : j = p
      · subst hj; exact h
      · exact i2 j (by omega) h2
    · simp [After.refl]; intro j h1 h2; omega

theorem skipBlankInline_after (s : Src) (p : Nat) : After s p (skipBlankInline s p) :=
  (skipBlankInlineGo_spec s _ p).1
theorem skipBlankInline_spaces (s : Src) (p : Nat) : ∀ j, p ≤ j → j < skipBlankInline s p → s[j]? = some 32 :=
  (skipBlankInlineGo_spec s _ p).2

/-! ### slices, outcomes -/

/-- a byte range on which Rust's `&str[a..b]` is defined -/
def VSpan (s : Src) (sp : Span) : Prop := sp.start ≤ sp.stop ∧ Bnd s sp.start ∧ Bnd s sp.stop

theorem slice_ok {s : Src} {a b : Nat} (h : a ≤ b) (ha : Bnd s a) (hb : Bnd s b) : slice s a b = some ⟨a, b⟩ := by
  have := hb.le
  unfold Bnd at ha hb
  simp [slice, ha, hb, h, this]

theorem slice_eq_some {s : Src} {a b : Nat} {sp : Span} (h : slice s a b = some sp) : sp = ⟨a, b⟩ ∧ VSpan s sp := by
  unfold slice at h
  split at h
  · rename_i hc
    simp at h; subst h
    exact ⟨rfl, hc.1, hc.2.2.1, hc.2.2.2⟩
  · simp at h

theorem VSpan.slice {s : Src} {sp : Span} (h : VSpan s sp) : slice s sp.start sp.stop = some sp :=
  slice_ok h.1 h.2.1 h.2.2

/-- the outcome is `ok`/`err` with the cursor in `[lo, size]`, never `panic`, never `fuel` -/
def Good {α : Type} (s : Src) (lo : Nat) (r : R α) (Q : α → Nat → Prop) : Prop :=
  match r with
  | .ok a q => lo ≤ q ∧ q ≤ s.size ∧ Q a q
  | .err _ q => lo ≤ q ∧ q ≤ s.size
  | .panic _ => False
  | .fuel => False

@[simp] theorem good_ok {α : Type} (s : Src) (lo : Nat) (a : α) (q : Nat) (Q : α → Nat → Prop) :
    Good s lo (.ok a q) Q ↔ (lo ≤ q ∧ q ≤ s.size ∧ Q a q) := Iff.rfl
@[simp] theorem good_err {α : Type} (s : Src) (lo : Nat) (e : PErr) (q : Nat) (Q : α → Nat → Prop) :
    Good s lo (.err e q : R α) Q ↔ (lo ≤ q ∧ q ≤ s.size) := Iff.rfl
@[simp] theorem good_panic {α : Type} (s : Src) (lo : Nat) (m : String) (Q : α → Nat → Prop) :
    Good s lo (.panic m : R α) Q ↔ False := Iff.rfl
@[simp] theorem good_fuel {α : Type} (s : Src) (lo : Nat) (Q : α → Nat → Prop) :
    Good s lo (.fuel : R α) Q ↔ False := Iff.rfl

theorem Good.mono {α : Type} {s : Src} {lo lo' : Nat} {r : R α} {Q Q' : α → Nat → Prop}
    (h : Good s lo r Q) (hlo : lo' ≤ lo) (hQ : ∀ a q, lo ≤ q → q ≤ s.size → Q a q → Q' a q) : Good s lo' r Q' := by
  cases r with
  | ok a q => simp only [good_ok] at h ⊢; exact ⟨by omega, h.2.1, hQ _ _ h.1 h.2.1 h.2.2⟩
  | err e q => simp only [good_err] at h ⊢; omega
  | panic m => exact h
  | fuel => exact h

/-! ### skipEol, skipBlankBlock, skipBlank -/

theorem skipEol_some {s : Src} {p q : Nat} (h : skipEol s p = some q) :
    p < q ∧ s[q - 1]? = some 10 ∧ (q = p + 1 ∨ q = p + 2) := by
  unfold skipEol at h
  split at h
  · rename_i h1
    simp at h; subst h; simpa using h1
  · split at h <;> simp at h
    rename_i h1 h2
    subst h
    simpa using h2
  · simp at h

theorem skipEol_after {s : Src} {p q : Nat} (h : skipEol s p = some q) : After s p q := by
  have ⟨h1, h2, _⟩ := skipEol_some h
  exact Or.inr ⟨h1, 10, h2, by decide⟩

theorem skipBlankBlockGo_after (s : Src) (n p c : Nat) : After s p (skipBlankBlockGo s n p c).1 := by
  induction n generalizing p c with
  | zero => exact After.refl _ _
  | succ n ih =>
    simp only [skipBlankBlockGo]
    split
    · rename_i p' h
      exact ((skipBlankInline_after s p).trans (skipEol_after h)).trans (ih p' (c + 1))
    · split
      · exact After.refl _ _
      · exact skipBlankInline_after s p

theorem skipBlankBlock_after (s : Src) (p : Nat) : After s p (skipBlankBlock s p).1 :=
  skipBlankBlockGo_after s _ p 0

theorem skipBlankGo_after (s : Src) (n p : Nat) : After s p (skipBlankGo s n p) := by
  induction n generalizing p with
  | zero => exact After.refl _ _
  | succ n ih =>
    simp only [skipBlankGo]
    split
    · rename_i h; exact (After.step ⟨32, h, by decide⟩).trans (ih _)
    · rename_i h; exact (After.step ⟨10, h, by decide⟩).trans (ih _)
    · split
      · rename_i h h2
        have h2 : s[p + 1]? = some 10 := by simpa using h2
        have : After s p (p + 2) := Or.inr ⟨by omega, 10, by simpa using h2, by decide⟩
        exact this.trans (ih _)
      · exact After.refl _ _
    · exact After.refl _ _

theorem skipBlank_after (s : Src) (p : Nat) : After s p (skipBlank s p) := skipBlankGo_after s _ p

/-! ### expectByte, takeByteIf -/

theorem isCurrentByte_iff (s : Src) (p : Nat) (b : UInt8) : isCurrentByte s p b = true ↔ s[p]? = some b := by
  simp [isCurrentByte]

theorem expectByte_good (s : Src) (p : Nat) (b : UInt8) (hp : p ≤ s.size) :
    Good s p (expectByte s p b) (fun _ q => q = p + 1 ∧ s[p]? = some b) := by
  unfold expectByte
  split
  · rename_i h
    have h := (isCurrentByte_iff s p b).mp h
    have := get_lt h
    simp [h]; omega
  · simp [hp]

theorem takeByteIf_cases (s : Src) (p : Nat) (b : UInt8) :
    (takeByteIf s p b = (p + 1, true) ∧ s[p]? = some b) ∨ (takeByteIf s p b = (p, false) ∧ s[p]? ≠ some b) := by
  unfold takeByteIf
  split
  · rename_i h; exact Or.inl ⟨rfl, (isCurrentByte_iff s p b).mp h⟩
  · rename_i h; exact Or.inr ⟨rfl, fun h' => h ((isCurrentByte_iff s p b).mpr h')⟩

/-! ### scanWhile, skipDigits, number literals, identifiers -/

theorem scanWhileGo_after (s : Src) (pred : UInt8 → Bool) (hpred : ∀ b, pred b = true → b < 128) (n p : Nat) :
    After s p (scanWhileGo s pred n p) := by
  induction n generalizing p with
  | zero => exact After.refl _ _
  | succ n ih =>
    simp only [scanWhileGo]
    split
    · split
      · rename_i b h hb
        exact (After.step ⟨b, h, hpred b hb⟩).trans (ih _)
      · exact After.refl _ _
    · exact After.refl _ _

theorem scanWhile_after (s : Src) (pred : UInt8 → Bool) (hpred : ∀ b, pred b = true → b < 128) (p : Nat) :
    After s p (scanWhile s pred p) := scanWhileGo_after s pred hpred _ p

theorem skipDigits_good (s : Src) (p : Nat) (hp : p ≤ s.size) :
    Good s p (skipDigits s p) (fun _ q => p < q ∧ After s p q) := by
  unfold skipDigits
  have h := scanWhile_after s isDigit isDigit_lt p
  have h1 := h.le
  have h2 := h.le_size hp
  simp only []
  split
  · simp [hp]
  · rename_i hne
    have : scanWhile s isDigit p ≠ p := by simpa using hne
    simp [h, h2]; omega


theorem Good.cases {α : Type} {s : Src} {lo : Nat} {r : R α} {Q : α → Nat → Prop} (h : Good s lo r Q) :
    (∃ a q, r = .ok a q ∧ lo ≤ q ∧ q ≤ s.size ∧ Q a q) ∨ (∃ e q, r = .err e q ∧ lo ≤ q ∧ q ≤ s.size) := by
  cases r with
  | ok a q => exact Or.inl ⟨a, q, rfl, h⟩
  | err e q => exact Or.inr ⟨e, q, rfl, h⟩
  | panic m => exact h.elim
  | fuel => exact h.elim

theorem getNumberLiteral_good {s : Src} (hs : AsciiThenBoundary s) (p : Nat) (hp : Asc s p) :
    Good s p (getNumberLiteral s p) (fun sp q => p < q ∧ sp = ⟨p, q⟩ ∧ VSpan s sp) := by
  have hps := hp.lt
  have hb := hp.bnd
  unfold getNumberLiteral
  have hA1 : After s p (takeByteIf s p 45).1 := by
    rcases takeByteIf_cases s p 45 with ⟨h, h'⟩ | ⟨h, _⟩ <;> rw [h]
    · exact After.step hp
    · exact After.refl _ _
  generalize (takeByteIf s p 45) = t at *
  obtain ⟨p1, d1⟩ := t
  simp only [] at hA1 ⊢
  have hp1 := hA1.le_size (by omega)
  rcases (skipDigits_good s p1 hp1).cases with ⟨_, p2, hr, h1, h2, h3, h4⟩ | ⟨e, q, hr, h1, h2⟩ <;> simp only [hr]
  · have hA2 := hA1.trans h4
    rcases takeByteIf_cases s p2 46 with ⟨h, h'⟩ | ⟨h, _⟩ <;> rw [h] <;> simp only []
    · have hA3 := hA2.trans (After.step ⟨46, h', by decide⟩)
      have hp3 := hA3.le_size (by omega)
      rcases (skipDigits_good s (p2+1) hp3).cases with ⟨_, p4, hr, h1', h2', h3', h4'⟩ | ⟨e, q, hr, h1', h2'⟩ <;> simp [hr]
      · have hA4 := hA3.trans h4'
        have := hA1.le
        rw [slice_ok (by omega) hb (hA4.bnd hs hb)]
        simp
        refine ⟨by omega, h2', by omega, ?_⟩
        exact ⟨by simp; omega, hb, hA4.bnd hs hb⟩
      · have := hA1.le; omega
    · have := hA1.le
      rw [slice_ok (by omega) hb (hA2.bnd hs hb)]
      simp
      refine ⟨by omega, h2, by omega, ?_⟩
      exact ⟨by simp; omega, hb, hA2.bnd hs hb⟩
  · have := hA1.le; simp; omega

theorem vspan_mk {s : Src} {a b : Nat} (h : a ≤ b) (ha : Bnd s a) (hb : Bnd s b) : VSpan s ⟨a, b⟩ := ⟨h, ha, hb⟩

theorem isIdentifierStart_iff (s : Src) (p : Nat) : isIdentifierStart s p = true ↔ ∃ b, s[p]? = some b ∧ isAlpha b = true := by
  unfold isIdentifierStart
  split <;> simp_all

/-- `get_identifier_unchecked`: the cursor is one past an ASCII letter -/
theorem getIdentifierUnchecked_good {s : Src} (hs : AsciiThenBoundary s) (p : Nat) (b : UInt8)
    (hb : s[p]? = some b) (ha : isAlpha b = true) :
    Good s (p + 1) (getIdentifierUnchecked s (p + 1)) (fun sp q => sp = ⟨p, q⟩ ∧ VSpan s sp ∧ After s (p + 1) q) := by
  have hasc : Asc s p := ⟨b, hb, isAlpha_lt b ha⟩
  have hA := (After.step hasc).trans (scanWhile_after s isIdentByte isIdentByte_lt (p + 1))
  have hA' := scanWhile_after s isIdentByte isIdentByte_lt (p + 1)
  have h1 := hA'.le
  have h2 := hA.le_size (by have := hasc.lt; omega)
  unfold getIdentifierUnchecked
  simp only [usub, show 1 ≤ p + 1 by omega, if_true, Nat.add_sub_cancel]
  rw [slice_ok (by omega) hasc.bnd (hA.bnd hs hasc.bnd)]
  exact (good_ok _ _ _ _ _).mpr ⟨h1, h2, rfl, vspan_mk (by omega) hasc.bnd (hA.bnd hs hasc.bnd), hA'⟩

theorem getIdentifier_good {s : Src} (hs : AsciiThenBoundary s) (p : Nat) (hp : p ≤ s.size) :
    Good s p (getIdentifier s p) (fun sp q => p < q ∧ sp = ⟨p, q⟩ ∧ VSpan s sp ∧ After s p q ∧ isIdentifierStart s p = true) := by
  unfold getIdentifier
  split
  · simp [hp]
  · rename_i h
    have h : isIdentifierStart s p = true := by simpa using h
    obtain ⟨b, hb, ha⟩ := (isIdentifierStart_iff s p).mp h
    refine (getIdentifierUnchecked_good hs p b hb ha).mono (by omega) ?_
    intro sp q h1 h2 ⟨h3, h4, h5⟩
    exact ⟨by omega, h3, h4, (After.step ⟨b, hb, isAlpha_lt b ha⟩).trans h5, h⟩

/-- on `err` at the start position nothing was an identifier start -/
theorem getIdentifier_err_start {s : Src} {p : Nat} {e : PErr} {q : Nat} (h : getIdentifier s p = .err e q) :
    q = p ∧ isIdentifierStart s p = false := by
  unfold getIdentifier at h
  split at h
  · rename_i h1; simp at h; exact ⟨h.2.symm, by simpa using h1⟩
  · unfold getIdentifierUnchecked at h
    simp only [] at h
    split at h
    · simp at h
    · split at h <;> simp at h

theorem getAttributeAccessor_good {s : Src} (hs : AsciiThenBoundary s) (p : Nat) (hp : p ≤ s.size) :
    Good s p (getAttributeAccessor s p) (fun o _ => ∀ sp, o = some sp → VSpan s sp) := by
  unfold getAttributeAccessor
  rcases takeByteIf_cases s p 46 with ⟨h, h'⟩ | ⟨h, _⟩ <;> rw [h] <;> simp only []
  · have := get_lt h'
    rcases (getIdentifier_good hs (p + 1) (by omega)).cases with ⟨sp, q, hr, h1, h2, h3, h4, h5, _⟩ | ⟨e, q, hr, h1, h2⟩ <;>
      simp [hr]
    · exact ⟨by omega, h2, h5⟩
    · omega
  · simp [hp]

/-! ### nextBoundary, unicode escapes, string literals -/

theorem nextBoundaryGo_spec (s : Src) (n i : Nat) (h : i + n = s.size) :
    Bnd s (nextBoundaryGo s n i) ∧ i ≤ nextBoundaryGo s n i := by
  induction n generalizing i with
  | zero =>
    simp only [nextBoundaryGo]
    have : i = s.size := by omega
    subst this; exact ⟨bnd_size s, Nat.le_refl _⟩
  | succ n ih =>
    simp only [nextBoundaryGo]
    split
    · rename_i hb; exact ⟨hb, Nat.le_refl _⟩
    · have := ih (i + 1) (by omega)
      exact ⟨this.1, by omega⟩

theorem nextBoundary_spec (s : Src) (i : Nat) (h : i ≤ s.size) : Bnd s (nextBoundary s i) ∧ i ≤ nextBoundary s i :=
  nextBoundaryGo_spec s _ i (by omega)

theorem skipHexGo_after (s : Src) (n p : Nat) : After s p (skipHexGo s n p) := by
  induction n generalizing p with
  | zero => exact After.refl _ _
  | succ n ih =>
    simp only [skipHexGo]
    split
    · split
      · rename_i b h hb
        exact (After.step ⟨b, h, isHexDigit_lt b hb⟩).trans (ih _)
      · exact After.refl _ _
    · exact After.refl _ _

theorem skipUnicodeEscapeSequence_good {s : Src} (hs : AsciiThenBoundary s) (p len : Nat) (hp : Bnd s p) :
    Good s p (skipUnicodeEscapeSequence s p len) (fun _ _ => True) := by
  have hA := skipHexGo_after s len p
  have h1 := hA.le
  have h2 := hA.le_size hp.le
  unfold skipUnicodeEscapeSequence
  simp only []
  split
  · have hstop : Bnd s (if skipHexGo s len p ≥ s.size then skipHexGo s len p else nextBoundary s (skipHexGo s len p + 1)) ∧
        p ≤ (if skipHexGo s len p ≥ s.size then skipHexGo s len p else nextBoundary s (skipHexGo s len p + 1)) := by
      split
      · exact ⟨hA.bnd hs hp, h1⟩
      · have := nextBoundary_spec s (skipHexGo s len p + 1) (by omega)
        exact ⟨this.1, by omega⟩
    rw [slice_ok hstop.2 hp hstop.1]
    simp [h1, h2]
  · simp [h1, h2]

theorem scanStringGo_good {s : Src} (hs : AsciiThenBoundary s) (n p : Nat) (hp : p ≤ s.size) :
    Good s p (scanStringGo s n p) (fun _ _ => True) := by
  induction n generalizing p with
  | zero => simp [scanStringGo, hp]
  | succ n ih =>
    simp only [scanStringGo]
    split
    · simp [hp]
    · rename_i h0
      have hlt := get_lt h0
      split
      · rename_i h1; have := get_lt h1
        exact (ih (p + 2) (by omega)).mono (by omega) (fun _ _ _ _ _ => trivial)
      · rename_i h1; have := get_lt h1
        exact (ih (p + 2) (by omega)).mono (by omega) (fun _ _ _ _ _ => trivial)
      · rename_i h1; have := get_lt h1
        have hb : Bnd s (p + 2) := bnd_succ hs h1 (by decide)
        rcases (skipUnicodeEscapeSequence_good hs (p + 2) 4 hb).cases with ⟨_, q, hr, h3, h4, _⟩ | ⟨e, q, hr, h3, h4⟩ <;>
          simp only [hr]
        · exact (ih q h4).mono (by omega) (fun _ _ _ _ _ => trivial)
        · simp; omega
      · rename_i h1; have := get_lt h1
        have hb : Bnd s (p + 2) := bnd_succ hs h1 (by decide)
        rcases (skipUnicodeEscapeSequence_good hs (p + 2) 6 hb).cases with ⟨_, q, hr, h3, h4, _⟩ | ⟨e, q, hr, h3, h4⟩ <;>
          simp only [hr]
        · exact (ih q h4).mono (by omega) (fun _ _ _ _ _ => trivial)
        · simp; omega
      · simp [hp]
    · simp [hp]
    · simp [hp]
    · rename_i h0
      have hlt := get_lt h0
      exact (ih (p + 1) (by omega)).mono (by omega) (fun _ _ _ _ _ => trivial)

theorem scanString_good {s : Src} (hs : AsciiThenBoundary s) (p : Nat) (hp : p ≤ s.size) :
    Good s p (scanString s p) (fun _ _ => True) := scanStringGo_good hs _ p hp

/-! ### memchr3, getTextSlice -/

theorem memchr3Go_some {s : Src} {n p e : Nat} (h : memchr3Go s n p = some e) :
    p ≤ e ∧ (s[e]? = some 10 ∨ s[e]? = some 123 ∨ s[e]? = some 125) := by
  induction n generalizing p with
  | zero => simp [memchr3Go] at h
  | succ n ih =>
    simp only [memchr3Go] at h
    split at h
    · simp at h
    · rename_i b hb
      split at h
      · rename_i hc
        simp at h; subst h
        refine ⟨Nat.le_refl _, ?_⟩
        simp only [Bool.or_eq_true, beq_iff_eq] at hc
        rcases hc with (hc | hc) | hc <;> subst hc <;> simp [hb]
      · have := ih h; exact ⟨by omega, this.2⟩

/-- postcondition of `get_text_slice` started at `p` -/
def TextSliceOk (s : Src) (p : Nat) (v : Nat × Nat × Bool × Termination) (q : Nat) : Prop :=
  v.1 = p ∧ p ≤ v.2.1 ∧ Bnd s v.2.1 ∧ Bnd s q ∧ (p < q ∨ s[p]? = some 123) ∧
    (v.2.2.2 = .lineFeed → 1 ≤ v.2.1 ∧ s[v.2.1 - 1]? = some 10)

theorem getTextSlice_good {s : Src} (hs : AsciiThenBoundary s) (p : Nat) (hp : p < s.size) :
    Good s p (getTextSlice s p) (TextSliceOk s p) := by
  unfold getTextSlice
  split
  · omega
  · split
    · exact (good_ok _ _ _ _ _).mpr ⟨by omega, Nat.le_refl _, rfl, by simp only []; omega, bnd_size s, bnd_size s, Or.inl hp,
        fun h => by simp at h⟩
    · rename_i e he
      have ⟨h1, h2⟩ := memchr3Go_some he
      split
      · rename_i h; have := get_lt h; simp; omega
      · rename_i h; have := get_lt h
        have hasc : Asc s e := ⟨10, h, by decide⟩
        split
        · rename_i hc
          have h13 : s[e - 1]? = some 13 := by simpa using hc.2
          exact (good_ok _ _ _ _ _).mpr ⟨h1, by omega, rfl, by simp only []; omega, bnd_of_ascii h13 (by decide), hasc.bnd,
            Or.inl (by omega), fun h => by simp at h⟩
        · exact (good_ok _ _ _ _ _).mpr ⟨by omega, by omega, rfl, by simp only []; omega, hasc.bnd_succ hs, hasc.bnd_succ hs,
            Or.inl (by omega), fun _ => ⟨by simp only []; omega, by simpa using h⟩⟩
      · rename_i h; have := get_lt h
        have hasc : Asc s e := ⟨123, h, by decide⟩
        refine (good_ok _ _ _ _ _).mpr ⟨h1, by omega, rfl, h1, hasc.bnd, hasc.bnd, ?_, fun h => by simp at h⟩
        by_cases hpe : p < e
        · exact Or.inl hpe
        · have : e = p := by omega
          subst this; exact Or.inr h
      · rename_i n1 n2 n3
        rcases h2 with h | h | h
        · exact (n2 h).elim
        · exact (n3 h).elim
        · exact (n1 h).elim

/-! ### trimEnd -/

theorem trimEndGo_spec (s : Src) (start n e : Nat) (he : start ≤ e) (hb : Bnd s e) :
    start ≤ trimEndGo s start n e ∧ trimEndGo s start n e ≤ e ∧ Bnd s (trimEndGo s start n e) := by
  induction n generalizing e with
  | zero => exact ⟨he, Nat.le_refl _, hb⟩
  | succ n ih =>
    simp only [trimEndGo]
    split
    · split
      · rename_i b h
        split
        · rename_i hc
          have hlt : b < 128 := by
            simp only [Bool.or_eq_true, beq_iff_eq] at hc
            rcases hc with (hc | hc) | hc <;> subst hc <;> decide
          have := ih (e - 1) (by omega) (bnd_of_ascii h hlt)
          exact ⟨this.1, by omega, this.2.2⟩
        · exact ⟨he, Nat.le_refl _, hb⟩
      · exact ⟨he, Nat.le_refl _, hb⟩
    · exact ⟨he, Nat.le_refl _, hb⟩

theorem trimEnd_vspan {s : Src} {sp : Span} (h : VSpan s sp) : VSpan s (trimEnd s sp) := by
  have := trimEndGo_spec s sp.start (sp.stop - sp.start) sp.stop h.1 h.2.2
  exact ⟨this.1, h.2.1, this.2.2⟩

/-! ### junk recovery: skipToNextEntryStart -/

theorem rposNewlineGo_some {s : Src} {a n b nl : Nat} (h : rposNewlineGo s a n b = some nl) : a ≤ nl ∧ nl < b := by
  induction n generalizing b with
  | zero => simp [rposNewlineGo] at h
  | succ n ih =>
    simp only [rposNewlineGo] at h
    split at h
    · split at h
      · simp at h; omega
      · have := ih h; omega
    · simp at h

def isEntryByte (b : UInt8) : Bool := isAlpha b || b == 45 || b == 35

theorem isEntryByte_lt : ∀ b : UInt8, isEntryByte b = true → b < 128 := by
  apply forall_uint8; decide +kernel

theorem skipToNextEntryStartGo_spec (s : Src) (n p : Nat) (h : p + n = s.size) :
    p ≤ skipToNextEntryStartGo s n p ∧ Bnd s (skipToNextEntryStartGo s n p) ∧
      (skipToNextEntryStartGo s n p = p → p = s.size ∨ ∃ b, s[p]? = some b ∧ isEntryByte b = true) := by
  induction n generalizing p with
  | zero =>
    simp only [skipToNextEntryStartGo]
    have : p = s.size := by omega
    subst this
    exact ⟨Nat.le_refl _, bnd_size s, fun _ => Or.inl rfl⟩
  | succ n ih =>
    simp only [skipToNextEntryStartGo]
    split
    · rename_i h0
      have : s.size ≤ p := by simpa using h0
      omega
    · rename_i b hb
      split
      · rename_i hc
        have hc : isEntryByte b = true := by
          simp only [Bool.and_eq_true] at hc
          exact hc.2
        exact ⟨Nat.le_refl _, bnd_of_ascii hb (isEntryByte_lt b hc), fun _ => Or.inr ⟨b, hb, hc⟩⟩
      · have := ih (p + 1) (by omega)
        exact ⟨by omega, this.2.1, fun h' => by omega⟩

/-- junk recovery always succeeds, lands on a boundary and makes progress — provided the error
position is inside `[entryStart, size]` and, when it *is* the entry start, the entry's first byte
is not something `skip_to_next_entry_start` stops at. -/
theorem skipToNextEntryStart_spec (s : Src) (entryStart q : Nat) (h1 : entryStart ≤ q) (h2 : q ≤ s.size)
    (h3 : entryStart < s.size)
    (h4 : q = entryStart → ∀ b, s[entryStart]? = some b → isEntryByte b = false) :
    ∃ q1, skipToNextEntryStart s entryStart q = some q1 ∧ entryStart < q1 ∧ Bnd s q1 := by
  unfold skipToNextEntryStart
  have hmin : min q s.size = q := by omega
  simp only [hmin, h1, if_true]
  refine ⟨_, rfl, ?_⟩
  split
  · rename_i nl hnl
    have := rposNewlineGo_some hnl
    have := skipToNextEntryStartGo_spec s (s.size - (nl + 1)) (nl + 1) (by omega)
    exact ⟨by omega, this.2.1⟩
  · have hsp := skipToNextEntryStartGo_spec s (s.size - q) q (by omega)
    refine ⟨?_, hsp.2.1⟩
    by_cases hq : q = entryStart
    · have h4 := h4 hq
      subst hq
      by_cases he : skipToNextEntryStartGo s (s.size - q) q = q
      · rcases hsp.2.2 he with h | ⟨b, hb, hc⟩
        · omega
        · have := h4 b hb; simp [this] at hc
      · omega
    · omega

/-! ### comments -/

theorem isEol_cases {s : Src} {p : Nat} (h : isEol s p = true) :
    s[p]? = none ∨ s[p]? = some 10 ∨ (s[p]? = some 13 ∧ s[p + 1]? = some 10) := by
  unfold isEol at h
  split at h
  · rename_i h0; exact Or.inr (Or.inl h0)
  · rename_i h0; exact Or.inr (Or.inr ⟨h0, by simpa using h⟩)
  · rename_i h0; exact Or.inl h0
  · simp at h

theorem isEol_bnd {s : Src} {p : Nat} (h : isEol s p = true) (hp : p ≤ s.size) : Bnd s p := by
  rcases isEol_cases h with h | h | ⟨h, _⟩
  · have : s.size ≤ p := by simpa using h
    have : p = s.size := by omega
    subst this; exact bnd_size s
  · exact bnd_of_ascii h (by decide)
  · exact bnd_of_ascii h (by decide)

/-- after an end of line has been seen, `skip_eol` either consumes it or we are at the end -/
theorem isEol_skipEol {s : Src} {p : Nat} (h : isEol s p = true) :
    (∃ q, skipEol s p = some q) ∨ (skipEol s p = none ∧ s.size ≤ p) := by
  rcases isEol_cases h with h | h | ⟨h, h'⟩
  · right; simp [skipEol, h]; simpa using h
  · left; simp [skipEol, h]
  · left; simp [skipEol, h, h']

theorem commentLineEndGo_spec (s : Src) (n p : Nat) (h : p + n = s.size) :
    p ≤ commentLineEndGo s n p ∧ commentLineEndGo s n p ≤ s.size ∧ isEol s (commentLineEndGo s n p) = true := by
  induction n generalizing p with
  | zero =>
    simp only [commentLineEndGo]
    refine ⟨Nat.le_refl _, by omega, ?_⟩
    have : s[p]? = none := by simp; omega
    simp [isEol, this]
  | succ n ih =>
    simp only [commentLineEndGo]
    split
    · rename_i hc; exact ⟨Nat.le_refl _, by omega, hc⟩
    · have := ih (p + 1) (by omega)
      exact ⟨by omega, this.2⟩

theorem getCommentLine_good {s : Src} (p : Nat) (hp : Bnd s p) :
    Good s p (getCommentLine s p) (fun sp q => VSpan s sp ∧ isEol s q = true) := by
  have h := commentLineEndGo_spec s (s.size - p) p (by have := hp.le; omega)
  unfold getCommentLine
  simp only []
  rw [slice_ok h.1 hp (isEol_bnd h.2.2 h.2.1)]
  exact (good_ok _ _ _ _ _).mpr ⟨h.1, h.2.1, vspan_mk h.1 hp (isEol_bnd h.2.2 h.2.1), h.2.2⟩

theorem getCommentLevel_cases (s : Src) (p : Nat) :
    (getCommentLevel s p = (0, p) ∧ s[p]? ≠ some 35) ∨
    (∃ l, 1 ≤ l ∧ l ≤ 3 ∧ getCommentLevel s p = (l, p + l) ∧ s[p]? = some 35 ∧ s[p + l - 1]? = some 35) := by
  unfold getCommentLevel
  simp only [isCurrentByte_iff]
  split
  · rename_i h0
    right
    split
    · rename_i h1
      split
      · rename_i h2; exact ⟨3, by omega, by omega, rfl, h0, h2⟩
      · exact ⟨2, by omega, by omega, rfl, h0, h1⟩
    · exact ⟨1, by omega, by omega, rfl, h0, h0⟩
  · rename_i h0; exact Or.inl ⟨rfl, h0⟩

/-- loop invariant of `get_comment` (`start` = where the comment began) -/
def CommentInv (s : Src) (start level : Nat) (content : List Span) (p : Nat) : Prop :=
  (level = 0 ∧ content = [] ∧ p = start ∧ s[p]? = some 35) ∨
  (1 ≤ level ∧ level ≤ 3 ∧ ((start + 2 ≤ p ∧ s[p - 1]? = some 10) ∨ (p = s.size ∧ start < p)))

theorem getCommentGo_good {s : Src} (hs : AsciiThenBoundary s) (start n level : Nat) (content : List Span) (p : Nat)
    (hp : p ≤ s.size) (hn : s.size - p + 1 ≤ n) (hb : Bnd s p) (hc : ∀ sp ∈ content, VSpan s sp)
    (hinv : CommentInv s start level content p) :
    Good s (start + 1) (getCommentGo s n level content p)
      (fun r q => Bnd s q ∧ 1 ≤ r.2 ∧ r.2 ≤ 3 ∧ ∀ sp ∈ r.1, VSpan s sp) := by
  induction n generalizing level content p with
  | zero => omega
  | succ n ih =>
    simp only [getCommentGo]
    split
    · rename_i hlt
      -- the recursive step, shared by the two `get_comment_line` arms
      have step : ∀ l p2, 1 ≤ l → l ≤ 3 → p < p2 → p2 ≤ s.size → start < p2 → Bnd s p2 →
          Good s (start + 1)
            (match getCommentLine s p2 with
             | .ok line q => getCommentGo s n l (content ++ [line]) ((skipEol s q).getD q)
             | .err e q => .err e q
             | .panic m => .panic m
             | .fuel => .fuel)
            (fun r q => Bnd s q ∧ 1 ≤ r.2 ∧ r.2 ≤ 3 ∧ ∀ sp ∈ r.1, VSpan s sp) := by
        intro l p2 hl1 hl3 hpp2 hp2 hst hb2
        rcases (getCommentLine_good p2 hb2).cases with ⟨line, q, hr, h1, h2, h3, h4⟩ | ⟨e, q, hr, h1, h2⟩ <;> simp only [hr]
        · have hbq := isEol_bnd h4 h2
          have hc' : ∀ sp ∈ content ++ [line], VSpan s sp := by
            intro sp hsp
            rcases List.mem_append.mp hsp with h | h
            · exact hc sp h
            · simp at h; subst h; exact h3
          rcases isEol_skipEol h4 with ⟨q', hq'⟩ | ⟨hq', hsz⟩
          · have ⟨e1, e2, e3⟩ := skipEol_some hq'
            have hA := skipEol_after hq'
            simp only [hq', Option.getD_some]
            refine ih l _ q' (hA.le_size h2) (by omega) (hA.bnd hs hbq) hc' ?_
            exact Or.inr ⟨hl1, hl3, Or.inl ⟨by omega, e2⟩⟩
          · simp only [hq', Option.getD_none]
            refine ih l _ q h2 (by omega) hbq hc' ?_
            exact Or.inr ⟨hl1, hl3, Or.inr ⟨by omega, by omega⟩⟩
        · simp; omega
      rcases getCommentLevel_cases s p with ⟨hl, h35⟩ | ⟨l, hl1, hl3, hl, h35, h35'⟩ <;> rw [hl] <;> simp only []
      · -- not a comment line: `ptr -= 1`
        rcases hinv with ⟨_, _, _, h⟩ | ⟨i1, i2, ⟨i3, i4⟩ | ⟨i3, _⟩⟩
        · exact (h35 h).elim
        · simp only [beq_self_eq_true, if_true, usub, show 1 ≤ p by omega]
          exact (good_ok _ _ _ _ _).mpr ⟨by omega, by omega, bnd_of_ascii i4 (by decide), i1, i2, hc⟩
        · omega
      · have hl0 : (l == 0) = false := by simp; omega
        have hpl := get_lt h35'
        simp only [hl0, Bool.false_eq_true, if_false]
        split
        · -- a comment of a different level: `ptr -= level`
          rename_i hdiff
          simp only [usub, Nat.le_add_left, if_true, Nat.add_sub_cancel]
          rcases hinv with ⟨i0, _⟩ | ⟨i1, i2, i3⟩
          · simp [i0] at hdiff
          · exact (good_ok _ _ _ _ _).mpr ⟨by omega, hp, hb, i1, i2, hc⟩
        · have hst : start < p + l := by
            rcases hinv with ⟨_, _, i0, _⟩ | ⟨_, _, i3⟩ <;> omega
          have hbl : Bnd s (p + l) := by
            have := bnd_succ hs h35' (by decide)
            rwa [show p + l - 1 + 1 = p + l by omega] at this
          split
          · exact step l (p + l) hl1 hl3 (by omega) (by omega) hst hbl
          · rcases (expectByte_good s (p + l) 32 (by omega)).cases with ⟨_, q, hr, h1, h2, h3, h4⟩ | ⟨e, q, hr, h1, h2⟩ <;>
              simp only [hr]
            · subst h3
              exact step l (p + l + 1) hl1 hl3 (by omega) h2 (by omega) (bnd_succ hs h4 (by decide))
            · split
              · simp; omega
              · rename_i hne
                simp only [usub, Nat.le_add_left, if_true, Nat.add_sub_cancel]
                rcases hinv with ⟨_, i0, _⟩ | ⟨i1, i2, i3⟩
                · simp [i0] at hne
                · exact (good_ok _ _ _ _ _).mpr ⟨by omega, hp, hb, hl1, hl3, hc⟩
    · rcases hinv with ⟨_, _, _, h⟩ | ⟨i1, i2, i3⟩
      · have := get_lt h; omega
      · exact (good_ok _ _ _ _ _).mpr ⟨by omega, hp, hb, i1, i2, hc⟩

theorem getComment_good {s : Src} (hs : AsciiThenBoundary s) (p : Nat) (h : s[p]? = some 35) :
    Good s (p + 1) (getComment s p) (fun r q => Bnd s q ∧ 1 ≤ r.2 ∧ r.2 ≤ 3 ∧ ∀ sp ∈ r.1, VSpan s sp) := by
  have := get_lt h
  exact getCommentGo_good hs p _ 0 [] p (by omega) (Nat.le_refl _) (bnd_of_ascii h (by decide)) (by simp)
    (Or.inl ⟨rfl, rfl, rfl, h⟩)

/-- `skip_comment`: progress, and the cursor is a boundary unless it is `size + 1` -/
theorem skipCommentGo_spec {s : Src} (hs : AsciiThenBoundary s) (n p : Nat) (hp : p ≤ s.size) (hb : Bnd s p) :
    p ≤ skipCommentGo s n p ∧ skipCommentGo s n p ≤ s.size + 1 ∧ (1 ≤ n → p < skipCommentGo s n p) ∧
      (skipCommentGo s n p ≤ s.size → Bnd s (skipCommentGo s n p)) := by
  induction n generalizing p with
  | zero => exact ⟨Nat.le_refl _, by simp only [skipCommentGo]; omega, by omega, fun _ => hb⟩
  | succ n ih =>
    simp only [skipCommentGo]
    have h := commentLineEndGo_spec s (s.size - p) p (by omega)
    generalize commentLineEndGo s (s.size - p) p = e at h
    have hbe : e + 1 ≤ s.size → Bnd s (e + 1) := by
      intro hle
      rcases isEol_cases h.2.2 with h0 | h0 | ⟨h0, h1⟩
      · have : s.size ≤ e := by simpa using h0
        omega
      · exact bnd_succ hs h0 (by decide)
      · exact bnd_of_ascii h1 (by decide)
    split
    · rename_i hc
      have hc := (isCurrentByte_iff _ _ _).mp hc
      have := get_lt hc
      have := ih (e + 1 + 1) (by omega) (bnd_succ hs hc (by decide))
      exact ⟨by omega, this.2.1, fun _ => by omega, this.2.2.2⟩
    · exact ⟨by omega, by omega, fun _ => by omega, hbe⟩

theorem skipComment_spec {s : Src} (hs : AsciiThenBoundary s) (p : Nat) (hp : p ≤ s.size) (hb : Bnd s p) :
    p < skipComment s p ∧ skipComment s p ≤ s.size + 1 ∧ (skipComment s p ≤ s.size → Bnd s (skipComment s p)) := by
  have := skipCommentGo_spec hs (s.size - p + 1) p hp hb
  exact ⟨this.2.2.1 (by omega), this.2.1, this.2.2.2⟩

/-! ### every `String` satisfies `AsciiThenBoundary` -/

theorem firstByte_not_cont : ∀ b : UInt8, b.IsUTF8FirstByte → ((b &&& 0xC0) != 0x80) = true := by
  apply forall_uint8; decide +kernel

theorem ascii_and_eq_zero : ∀ b : UInt8, b < 128 → b &&& 0x80 = 0 := by
  apply forall_uint8; decide +kernel

theorem pos_byte_eq (str : String) (pos : str.Pos) (h : pos ≠ str.endPos) :
    pos.byte h = str.toByteArray[pos.offset.byteIdx]'(String.Pos.byteIdx_lt_utf8ByteSize pos h) := by
  simp [String.Pos.byte, String.Slice.Pos.byte, String.Slice.getUTF8Byte, String.getUTF8Byte, -String.Pos.byte_toSlice]

/-- a valid position of `str` is a char boundary of its UTF-8 bytes -/
theorem isBoundary_of_isValid (str : String) (r : String.Pos.Raw) (h : r.IsValid str) :
    isBoundary str.toUTF8.data r.byteIdx = true := by
  rcases String.Pos.Raw.isValid_iff_isUTF8FirstByte.mp h with rfl | ⟨hlt, hfb⟩
  · have : str.rawEndPos.byteIdx = str.toUTF8.data.size := rfl
    rw [this]; exact bnd_size _
  · have hlt' : r.byteIdx < str.toUTF8.data.size := String.Pos.Raw.lt_iff.mp hlt
    have hget : str.toUTF8.data[r.byteIdx]? = some (str.getUTF8Byte r hlt) := by
      rw [Array.getElem?_eq_getElem hlt']; rfl
    unfold isBoundary
    rw [hget]
    simp only [firstByte_not_cont _ hfb, Bool.or_true]

theorem asciiThenBoundary_of_string (str : String) : AsciiThenBoundary str.toUTF8.data := by
  intro i b hb hlt
  have hi : i < str.toUTF8.data.size := get_lt hb
  have hbe : str.toUTF8.data[i] = b := by
    have := Array.getElem?_eq_getElem hi
    rw [this] at hb; exact Option.some.inj hb
  -- position `i` is valid, because its byte is a first byte
  have hrlt : (⟨i⟩ : String.Pos.Raw) < str.rawEndPos := String.Pos.Raw.lt_iff.mpr hi
  have hgb : str.getUTF8Byte ⟨i⟩ hrlt = b := hbe
  have hv : (⟨i⟩ : String.Pos.Raw).IsValid str :=
    String.Pos.Raw.isValid_iff_isUTF8FirstByte.mpr (Or.inr ⟨hrlt, by rw [hgb]; exact Or.inl (ascii_and_eq_zero b hlt)⟩)
  let pos : str.Pos := ⟨⟨i⟩, hv⟩
  have hne : pos ≠ str.endPos := by
    intro h
    have := congrArg (fun p => p.offset.byteIdx) h
    simp only [pos, String.offset_endPos, String.byteIdx_rawEndPos] at this
    have e : str.utf8ByteSize = str.toUTF8.data.size := rfl
    omega
  have hbyte : pos.byte hne = b := by rw [pos_byte_eq]; exact hbe
  have hsz : (pos.get hne).utf8Size = 1 := by
    rw [← String.Pos.utf8ByteSize_byte (h := hne)]
    simp only [UInt8.utf8ByteSize, hbyte, ascii_and_eq_zero b hlt, if_true]
  have hnext : (pos.next hne).offset.byteIdx = i + 1 := by
    rw [String.Pos.byteIdx_offset_next, hsz]
  have := isBoundary_of_isValid str (pos.next hne).offset (pos.next hne).isValid
  rwa [hnext] at this

end FluentProofs.Parser
