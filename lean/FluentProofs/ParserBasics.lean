import FluentModel.Parser
