import FluentProofs.ResolverIso2
/-!
# C09: where marks are written (`writeElems_placeable`) and the two-run (isolation on / off) induction
-/
namespace FluentProofs.Bidi
open FluentModel FluentModel.Syntax FluentModel.Resolver

/-! ## the isolation site -/

/-- what is written before the value of a placeable -/
def openMark (env : Env) (len : Nat) (e : Expr Bytes) : Bytes :=
  if env.useIsolating && decide (len > 1) && isolatable e then fsi else []
/-- what is written after the value of a placeable (and after its `{error}` fallback) -/
def closeMark (env : Env) (len : Nat) (e : Expr Bytes) : Bytes :=
  if env.useIsolating && decide (len > 1) && isolatable e then pdi else []
/-- the `{…}` fallback written when the expression tripped the placeable limit -/
def fallback (e : Expr Bytes) (sc3 : Scope) : Bytes := if sc3.dirty then braced (exprWriteError e) else []
/-- the scope handed to the expression: counter bumped, `maybe_track` -/
def trackScope (whole : Pattern Bytes) (sc : Scope) : Scope :=
  if ({ sc with placeables := sc.placeables + 1 } : Scope).travelled.isEmpty = true
  then { sc with placeables := sc.placeables + 1, travelled := [whole] }
  else { sc with placeables := sc.placeables + 1 }

theorem writeElems_placeable (env : Env) (n : Nat) (whole : Pattern Bytes) (len : Nat) (e : Expr Bytes)
    (rest : List (PatElem Bytes)) (w : Bytes) (sc : Scope) :
    writeElems env (n + 1) whole len (.placeable e :: rest) w sc =
      if sc.dirty = true then .ok (w, sc)
      else if sc.placeables + 1 > 255 then .panic "placeables u8 overflow"
      else if sc.placeables + 1 > Generated.maxPlaceables then
        .ok (w, ({ sc with placeables := sc.placeables + 1, dirty := true } : Scope).addError .tooManyPlaceables)
      else match writeExpr env n e (w ++ openMark env len e) (trackScope whole sc) with
        | .ok (w2, sc3) => writeElems env n whole len rest (w2 ++ fallback e sc3 ++ closeMark env len e) sc3
        | .panic m => .panic m
        | .fuel => .fuel := by
  simp only [writeElems]
  split
  · rfl
  split
  · rfl
  split
  · rfl
  · have e1 : (if (env.useIsolating && decide (len > 1) && isolatable e) = true then w ++ fsi else w)
        = w ++ openMark env len e := by
      unfold openMark; split <;> simp
    rw [e1]
    unfold trackScope
    simp only []
    generalize writeExpr env n e (w ++ openMark env len e) _ = r
    rcases r with ⟨⟨w2, sc3⟩⟩ | _ | _
    · simp only []
      congr 1
      unfold fallback closeMark
      split <;> split <;> simp
    · rfl
    · rfl


theorem writeElems_text (env : Env) (n : Nat) (whole : Pattern Bytes) (len : Nat) (v : Bytes)
    (rest : List (PatElem Bytes)) (w : Bytes) (sc : Scope) :
    writeElems env (n + 1) whole len (.text v :: rest) w sc =
      if sc.dirty = true then .ok (w, sc)
      else writeElems env n whole len rest (w ++ (match env.transform with | some f => f v | .none => v)) sc := by
  simp only [writeElems]
  rfl

theorem openMark_off {env : Env} (h : env.useIsolating = false) (len : Nat) (e : Expr Bytes) : openMark env len e = [] := by
  simp [openMark, h]
theorem closeMark_off {env : Env} (h : env.useIsolating = false) (len : Nat) (e : Expr Bytes) : closeMark env len e = [] := by
  simp [closeMark, h]
theorem openMark_single (env : Env) {len : Nat} (h : len ≤ 1) (e : Expr Bytes) : openMark env len e = [] := by
  have : ¬ len > 1 := by omega
  simp [openMark, this]
theorem closeMark_single (env : Env) {len : Nat} (h : len ≤ 1) (e : Expr Bytes) : closeMark env len e = [] := by
  have : ¬ len > 1 := by omega
  simp [closeMark, this]
theorem openMark_not_isolatable (env : Env) (len : Nat) {e : Expr Bytes} (h : isolatable e = false) : openMark env len e = [] := by
  simp [openMark, h]
theorem closeMark_not_isolatable (env : Env) (len : Nat) {e : Expr Bytes} (h : isolatable e = false) : closeMark env len e = [] := by
  simp [closeMark, h]
theorem openMark_site {env : Env} {len : Nat} {e : Expr Bytes} (h1 : env.useIsolating = true) (h2 : len > 1)
    (h3 : isolatable e = true) : openMark env len e = fsi := by
  simp [openMark, h1, h2, h3]
theorem closeMark_site {env : Env} {len : Nat} {e : Expr Bytes} (h1 : env.useIsolating = true) (h2 : len > 1)
    (h3 : isolatable e = true) : closeMark env len e = pdi := by
  simp [closeMark, h1, h2, h3]

/-! ## the same bundle with the switch set -/

/-- `bundle.set_use_isolating(b)` -/
def withIso (env : Env) (b : Bool) : Env := { env with useIsolating := b }

@[simp] theorem withIso_useIsolating (env : Env) (b : Bool) : (withIso env b).useIsolating = b := rfl
@[simp] theorem withIso_msg (env : Env) (b : Bool) : (withIso env b).msg = env.msg := rfl
@[simp] theorem withIso_term (env : Env) (b : Bool) : (withIso env b).term = env.term := rfl
@[simp] theorem withIso_fn (env : Env) (b : Bool) : (withIso env b).fn = env.fn := rfl
@[simp] theorem withIso_transform (env : Env) (b : Bool) : (withIso env b).transform = env.transform := rfl
@[simp] theorem withIso_formatter (env : Env) (b : Bool) : (withIso env b).formatter = env.formatter := rfl
@[simp] theorem withIso_category (env : Env) (b : Bool) : (withIso env b).category = env.category := rfl
@[simp] theorem withIso_tryNumber (env : Env) (b : Bool) : (withIso env b).tryNumber = env.tryNumber := rfl
@[simp] theorem withIso_unescape (env : Env) (b : Bool) : (withIso env b).unescape = env.unescape := rfl
@[simp] theorem withIso_customStr (env : Env) (b : Bool) : (withIso env b).customStr = env.customStr := rfl
@[simp] theorem withIso_args (env : Env) (b : Bool) : (withIso env b).args = env.args := rfl
@[simp] theorem valueString_withIso (env : Env) (b : Bool) (v : Value) : valueString (withIso env b) v = valueString env v := rfl

theorem valueMatches_withIso (env : Env) (b : Bool) (k s : Value) : valueMatches (withIso env b) k s = valueMatches env k s := rfl

theorem selectVariant_withIso (env : Env) (b : Bool) : ∀ (vs : List (Variant Bytes)) (sel : Value),
    selectVariant (withIso env b) vs sel = selectVariant env vs sel
  | [], _ => by simp [selectVariant]
  | .mk k val d :: rest, sel => by
    simp only [selectVariant, withIso_tryNumber, valueMatches_withIso, selectVariant_withIso env b rest sel]

/-! ## `NoIsolatedValueFlow` -/

mutual
/-- expressions `resolveInline` evaluates without writing a pattern into a string -/
def simpleInline : Inline Bytes → Bool
  | .str _ => true
  | .num _ => true
  | .var _ => true
  | .fn _ pos named => simpleList pos && simpleNamed named
  | _ => false
def simpleList : List (Inline Bytes) → Bool
  | [] => true
  | x :: xs => simpleInline x && simpleList xs
def simpleNamed : List (Bytes × Inline Bytes) → Bool
  | [] => true
  | (_, x) :: xs => simpleInline x && simpleNamed xs
end

def simpleArgs : Option (List (Inline Bytes) × List (Bytes × Inline Bytes)) → Bool
  | .none => true
  | some (pos, named) => simpleList pos && simpleNamed named

mutual
/-- every selector and every call argument below is `simpleInline` -/
def nfInline : Inline Bytes → Bool
  | .str _ => true
  | .num _ => true
  | .var _ => true
  | .msg _ _ => true
  | .fn _ pos named => simpleList pos && simpleNamed named
  | .term _ _ args => simpleArgs args
  | .placeable e => nfExpr e
def nfExpr : Expr Bytes → Bool
  | .inline e => nfInline e
  | .select sel vs => simpleInline sel && nfVariants vs
def nfVariants : List (Variant Bytes) → Bool
  | [] => true
  | v :: vs => nfVariant v && nfVariants vs
def nfVariant : Variant Bytes → Bool
  | .mk _ val _ => nfElems val
def nfElems : List (PatElem Bytes) → Bool
  | [] => true
  | e :: es => nfElem e && nfElems es
def nfElem : PatElem Bytes → Bool
  | .text _ => true
  | .placeable e => nfExpr e
end

/-- no entry of the bundle resolves a selector or a call argument by writing a pattern into a string -/
structure NoFlowEnv (env : Env) : Prop where
  msgValue : ∀ id m p, env.msg id = some m → m.value = some p → nfElems p = true
  msgAttr : ∀ id m a, env.msg id = some m → a ∈ m.attributes → nfElems a.value = true
  termValue : ∀ id t, env.term id = some t → nfElems t.value = true
  termAttr : ∀ id t a, env.term id = some t → a ∈ t.attributes → nfElems a.value = true

theorem defaultVariant_nf : ∀ (vs : List (Variant Bytes)) (v : Pattern Bytes),
    nfVariants vs = true → defaultVariant vs = some v → nfElems v = true
  | [], _, _, h => by simp [defaultVariant] at h
  | .mk k val d :: rest, v, ha, h => by
    simp only [nfVariants, nfVariant, Bool.and_eq_true] at ha
    simp only [defaultVariant] at h
    split at h
    · cases h; exact ha.1
    · exact defaultVariant_nf rest v ha.2 h

theorem selectVariant_nf (env : Env) : ∀ (vs : List (Variant Bytes)) (sel : Value) (v : Pattern Bytes),
    nfVariants vs = true → selectVariant env vs sel = .ok (some v) → nfElems v = true
  | [], _, _, _, h => by simp [selectVariant] at h
  | .mk k val d :: rest, sel, v, ha, h => by
    simp only [nfVariants, nfVariant, Bool.and_eq_true] at ha
    simp only [selectVariant] at h
    split at h
    · cases h
    · cases h; exact ha.1
    · exact selectVariant_nf env rest sel v ha.2 h

/-! ## simple expressions resolve identically under both settings -/

structure SInv (env : Env) (n : Nat) : Prop where
  resolveInline : ∀ e sc, simpleInline e = true →
    resolveInline (withIso env true) n e sc = resolveInline (withIso env false) n e sc
  getArguments : ∀ a sc, simpleArgs a = true →
    getArguments (withIso env true) n a sc = getArguments (withIso env false) n a sc
  resolveList : ∀ es sc, simpleList es = true →
    resolveList (withIso env true) n es sc = resolveList (withIso env false) n es sc
  resolveNamed : ∀ es sc, simpleNamed es = true →
    resolveNamed (withIso env true) n es sc = resolveNamed (withIso env false) n es sc

theorem sinv_all (env : Env) : ∀ n, SInv env n
  | 0 => by constructor <;> intros <;> simp [resolveInline, getArguments, resolveList, resolveNamed]
  | n + 1 => by
    have IH := sinv_all env n
    constructor
    · intro e sc he
      cases e with
      | str v => simp only [resolveInline, withIso_unescape]
      | num v => simp only [resolveInline, withIso_tryNumber]
      | var id => simp only [resolveInline, withIso_args]
      | fn id pos named =>
        simp only [resolveInline, withIso_fn]
        rw [IH.getArguments _ _ (by simpa [simpleInline, simpleArgs] using he)]
      | msg id attr => simp [simpleInline] at he
      | term id attr args => simp [simpleInline] at he
      | placeable e => simp [simpleInline] at he
    · intro a sc ha
      cases a with
      | none => simp only [getArguments]
      | some pn =>
        obtain ⟨pos, named⟩ := pn
        simp only [simpleArgs, Bool.and_eq_true] at ha
        simp only [getArguments]
        rw [IH.resolveList _ _ ha.1]
        rcases resolveList (withIso env false) n pos sc with ⟨⟨vs, sc1⟩⟩ | _ | _
        · simp only []; rw [IH.resolveNamed _ _ ha.2]
        · rfl
        · rfl
    · intro es sc he
      cases es with
      | nil => simp only [resolveList]
      | cons e es =>
        simp only [simpleList, Bool.and_eq_true] at he
        simp only [resolveList]
        rw [IH.resolveInline _ _ he.1]
        rcases resolveInline (withIso env false) n e sc with ⟨⟨v, sc1⟩⟩ | _ | _
        · simp only []; rw [IH.resolveList _ _ he.2]
        · rfl
        · rfl
    · intro es sc he
      cases es with
      | nil => simp only [resolveNamed]
      | cons ke es =>
        obtain ⟨k, e⟩ := ke
        simp only [simpleNamed, Bool.and_eq_true] at he
        simp only [resolveNamed]
        rw [IH.resolveInline _ _ he.1]
        rcases resolveInline (withIso env false) n e sc with ⟨⟨v, sc1⟩⟩ | _ | _
        · simp only []; rw [IH.resolveNamed _ _ he.2]
        · rfl
        · rfl

end FluentProofs.Bidi
