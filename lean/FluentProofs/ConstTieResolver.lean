import FluentModel.Generated
import FluentModel.Resolver
/-!
# Constant tie: literals of the hand-written models = constants re-extracted from /repo source

`tools/extract_consts.py` regenerates `FluentModel/Generated.lean` from the Rust source on every
run.  The models below contain the same constants as literals (byte tests, marks, keyword tables).
Each theorem here states that a model literal equals the extracted value; they are imported by the
property files that depend on the literal, so a change of the constant in the Rust source turns
into a failed proof obligation of exactly those properties (in addition to whatever the
correspondence check observes).  All are closed terms decided by kernel evaluation.
-/
namespace FluentProofs.ConstTie
open FluentModel FluentModel.Generated

/-- UTF-8 of a BMP code point ≥ 0x800 (three bytes) -/
def utf8of3 (cp : Nat) : Bytes :=
  [UInt8.ofNat (0xE0 + cp / 4096), UInt8.ofNat (0x80 + (cp / 64) % 64), UInt8.ofNat (0x80 + cp % 64)]

/-- C09: the isolation marks the resolver model writes are the characters `pattern.rs` writes -/
theorem fsi_pdi_from_source :
    Resolver.fsi = utf8of3 fsiCodePoint ∧ Resolver.pdi = utf8of3 pdiCodePoint ∧
    0x800 ≤ fsiCodePoint ∧ fsiCodePoint < 0x10000 ∧ 0x800 ≤ pdiCodePoint ∧ pdiCodePoint < 0x10000 := by decide

/-- C07: the plural keywords `FluentValue::matches` recognises, and the category each denotes -/
theorem plural_keywords_from_source :
    pluralKeywords.map (fun kc => (Resolver.categoryOfKeyword (strBytes kc.1)).map fun c =>
      match c with
      | .zero => "zero" | .one => "one" | .two => "two" | .few => "few" | .many => "many" | .other => "other")
      = pluralKeywords.map (fun kc => some kc.2) := by decide +kernel

/-- C06: the placeable limit fits the `u8` counter with room for the increment that trips it -/
theorem max_placeables_fits_u8 : maxPlaceables ≤ 254 := by decide


end FluentProofs.ConstTie
