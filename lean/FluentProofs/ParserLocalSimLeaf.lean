import FluentProofs.ParserLocalSimDefs
/-!
# Locality of the parser, SIMULATION family, part 2: the leaf scanners

Under `Sim N s₁ s₂` (agreement on `[0, N]`, a line feed at `N - 1`, and at `N` a `#` or an entry head in both sources): every leaf scanner started at `p ≤ N` (blanks, single bytes) resp. `p < N` (scanners that stop
at a line feed) returns the same result on both sources, and the result stays `≤ N` resp. `< N`.
-/
namespace FluentProofs.Parser
open FluentModel.Syntax

section
variable {N : Nat} {s₁ s₂ : Src}

/-! ## blanks -/

theorem sim_skipBlankInlineGo (h : Sim N s₁ s₂) (k₁ k₂ p : Nat) (hp : p ≤ N) (h1 : N - p + 1 ≤ k₁) (h2 : N - p + 1 ≤ k₂) :
    skipBlankInlineGo s₂ k₂ p = skipBlankInlineGo s₁ k₁ p ∧ skipBlankInlineGo s₁ k₁ p ≤ N := by
  induction k₁ generalizing k₂ p with
  | zero => omega
  | succ k₁ ih =>
    cases k₂ with
    | zero => omega
    | succ k₂ =>
      simp only [skipBlankInlineGo, h.get p hp]
      split
      · rename_i h32
        have h32 : s₁[p]? = some 32 := by simpa using h32
        have hlt := h.lt_of_byte hp h32 (by decide)
        exact ih k₂ (p + 1) (by omega) (by omega) (by omega)
      · exact ⟨rfl, hp⟩

theorem skipBlankInline_sim (h : Sim N s₁ s₂) {p : Nat} (hp : p ≤ N) : skipBlankInline s₂ p = skipBlankInline s₁ p :=
  (sim_skipBlankInlineGo h _ _ p hp (by have := h.lt₁ (Nat.le_refl N); omega) (by have := h.lt₂ (Nat.le_refl N); omega)).1

theorem Sim.skipBlankInline_le (h : Sim N s₁ s₂) {p : Nat} (hp : p ≤ N) : skipBlankInline s₁ p ≤ N :=
  (sim_skipBlankInlineGo h _ (s₂.size - p) p hp (by have := h.lt₁ (Nat.le_refl N); omega)
    (by have := h.lt₂ (Nat.le_refl N); omega)).2

theorem Sim.skipBlankInline_lt (h : Sim N s₁ s₂) {p : Nat} (hp : p < N) : skipBlankInline s₁ p < N := by
  have h1 := h.skipBlankInline_le (Nat.le_of_lt hp)
  by_cases he : skipBlankInline s₁ p = N
  · have h32 := skipBlankInline_spaces s₁ p (N - 1) (by omega) (by omega)
    rw [h.nl] at h32
    cases h32
  · omega

theorem Sim.skipBlankInline_N (h : Sim N s₁ s₂) : skipBlankInline s₁ N = N :=
  skipBlankInline_of_ne (h.ne_N₁ (by decide))

theorem skipEol_sim (h : Sim N s₁ s₂) {p : Nat} (hp : p ≤ N) : skipEol s₂ p = skipEol s₁ p := by
  unfold skipEol
  rw [h.get p hp]
  split
  · rfl
  · rename_i h13
    have hlt := h.lt_of_byte hp h13 (by decide)
    rw [h.get _ (Nat.le_of_lt (h.succ_lt hlt h13 (by decide)))]
  · rfl

theorem Sim.skipEol_le (h : Sim N s₁ s₂) {p q : Nat} (hp : p ≤ N) (he : skipEol s₁ p = some q) : q ≤ N := by
  unfold skipEol at he
  split at he
  · rename_i h10
    have hlt := h.lt_of_byte hp h10 (by decide)
    injection he with he; omega
  · rename_i h13
    have hlt := h.lt_of_byte hp h13 (by decide)
    have hlt2 := h.succ_lt hlt h13 (by decide)
    split at he
    · injection he with he; omega
    · cases he
  · cases he

theorem isEol_sim (h : Sim N s₁ s₂) {p : Nat} (hp : p ≤ N) : isEol s₂ p = isEol s₁ p := by
  unfold isEol
  rw [h.get p hp]
  split
  · rfl
  · rename_i h13
    have hlt := h.lt_of_byte hp h13 (by decide)
    rw [h.get _ (Nat.le_of_lt (h.succ_lt hlt h13 (by decide)))]
  · rfl
  · rfl

/-- at `N` there is no end of line -/
theorem Sim.not_isEol_N (h : Sim N s₁ s₂) : isEol s₁ N = false := by
  obtain ⟨b, hb, _⟩ := h.wall₁
  unfold isEol
  split
  · rename_i h10; exact absurd h10 (h.ne_N₁ (by decide))
  · rename_i h13; exact absurd h13 (h.ne_N₁ (by decide))
  · rename_i h0; rw [hb] at h0; cases h0
  · rfl

theorem sim_skipBlankBlockGo (h : Sim N s₁ s₂) (k₁ k₂ p c : Nat) (hp : p ≤ N) (h1 : N - p + 1 ≤ k₁) (h2 : N - p + 1 ≤ k₂) :
    skipBlankBlockGo s₂ k₂ p c = skipBlankBlockGo s₁ k₁ p c ∧ (skipBlankBlockGo s₁ k₁ p c).1 ≤ N := by
  induction k₁ generalizing k₂ p c with
  | zero => omega
  | succ k₁ ih =>
    cases k₂ with
    | zero => omega
    | succ k₂ =>
      have hle := h.skipBlankInline_le hp
      have hge := (skipBlankInline_after s₁ p).le
      simp only [skipBlankBlockGo, skipBlankInline_sim h hp, skipEol_sim h hle]
      cases hE : skipEol s₁ (skipBlankInline s₁ p) with
      | some p' =>
        simp only []
        have := (skipEol_some hE).1
        have := h.skipEol_le hle hE
        exact ih k₂ p' (c + 1) (h.skipEol_le hle hE) (by omega) (by omega)
      | none =>
        simp only []
        rw [if_pos (h.lt₂ hle), if_pos (h.lt₁ hle)]
        exact ⟨rfl, hp⟩

theorem skipBlankBlock_sim (h : Sim N s₁ s₂) {p : Nat} (hp : p ≤ N) : skipBlankBlock s₂ p = skipBlankBlock s₁ p :=
  (sim_skipBlankBlockGo h _ _ p 0 hp (by have := h.lt₁ (Nat.le_refl N); omega) (by have := h.lt₂ (Nat.le_refl N); omega)).1

theorem Sim.skipBlankBlock_le (h : Sim N s₁ s₂) {p : Nat} (hp : p ≤ N) : (skipBlankBlock s₁ p).1 ≤ N :=
  (sim_skipBlankBlockGo h _ (s₂.size - p + 1) p 0 hp (by have := h.lt₁ (Nat.le_refl N); omega)
    (by have := h.lt₂ (Nat.le_refl N); omega)).2

theorem sim_skipBlankGo (h : Sim N s₁ s₂) (k₁ k₂ p : Nat) (hp : p ≤ N) (h1 : N - p + 1 ≤ k₁) (h2 : N - p + 1 ≤ k₂) :
    skipBlankGo s₂ k₂ p = skipBlankGo s₁ k₁ p ∧ skipBlankGo s₁ k₁ p ≤ N := by
  induction k₁ generalizing k₂ p with
  | zero => omega
  | succ k₁ ih =>
    cases k₂ with
    | zero => omega
    | succ k₂ =>
      simp only [skipBlankGo, h.get p hp]
      split
      · rename_i hb
        have hlt := h.lt_of_byte hp hb (by decide)
        exact ih k₂ (p + 1) (by omega) (by omega) (by omega)
      · rename_i hb
        have hlt := h.lt_of_byte hp hb (by decide)
        exact ih k₂ (p + 1) (by omega) (by omega) (by omega)
      · rename_i h13
        have hlt := h.lt_of_byte hp h13 (by decide)
        have hlt2 := h.succ_lt hlt h13 (by decide)
        rw [h.get _ (Nat.le_of_lt hlt2)]
        split
        · exact ih k₂ (p + 2) (by omega) (by omega) (by omega)
        · exact ⟨rfl, hp⟩
      · exact ⟨rfl, hp⟩

theorem skipBlank_sim (h : Sim N s₁ s₂) {p : Nat} (hp : p ≤ N) : skipBlank s₂ p = skipBlank s₁ p :=
  (sim_skipBlankGo h _ _ p hp (by have := h.lt₁ (Nat.le_refl N); omega) (by have := h.lt₂ (Nat.le_refl N); omega)).1

theorem Sim.skipBlank_le (h : Sim N s₁ s₂) {p : Nat} (hp : p ≤ N) : skipBlank s₁ p ≤ N :=
  (sim_skipBlankGo h _ (s₂.size - p) p hp (by have := h.lt₁ (Nat.le_refl N); omega)
    (by have := h.lt₂ (Nat.le_refl N); omega)).2

/-! ## single bytes -/

theorem expectByte_sim (h : Sim N s₁ s₂) {p : Nat} (hp : p ≤ N) (b : UInt8) : expectByte s₂ p b = expectByte s₁ p b := by
  simp only [expectByte, h.cur hp]

theorem takeByteIf_sim (h : Sim N s₁ s₂) {p : Nat} (hp : p ≤ N) (b : UInt8) : takeByteIf s₂ p b = takeByteIf s₁ p b := by
  simp only [takeByteIf, h.cur hp]

theorem isIdentifierStart_sim (h : Sim N s₁ s₂) {p : Nat} (hp : p ≤ N) : isIdentifierStart s₂ p = isIdentifierStart s₁ p := by
  simp only [isIdentifierStart, h.get p hp]

theorem isNumberStart_sim (h : Sim N s₁ s₂) {p : Nat} (hp : p ≤ N) : isNumberStart s₂ p = isNumberStart s₁ p := by
  simp only [isNumberStart, h.get p hp]

/-- a successful `expect_byte` / `take_byte_if` for a byte that cannot stand at `N` happens before `N` -/
theorem Sim.expectByte_ok_lt (h : Sim N s₁ s₂) {p : Nat} (hp : p ≤ N) {b : UInt8} (hb : wallByte b = false) {u : Unit} {q : Nat}
    (he : expectByte s₁ p b = .ok u q) : q = p + 1 ∧ p < N ∧ (b ≠ 10 → q < N) := by
  obtain ⟨rfl, hbyte⟩ := pre_expectByte_ok he
  have hlt := h.lt_of_byte hp hbyte hb
  exact ⟨rfl, hlt, fun hne => h.succ_lt hlt hbyte hne⟩

/-! ## slices and what is computed from them (everything below `N`) -/

theorem isBoundary_sim (h : Sim N s₁ s₂) {i : Nat} (hi : i ≤ N) : isBoundary s₂ i = isBoundary s₁ i := by
  have h1 := h.lt₁ hi
  have h2 := h.lt₂ hi
  have e1 : (i == s₁.size) = false := by simp only [beq_eq_false_iff_ne, ne_eq]; omega
  have e2 : (i == s₂.size) = false := by simp only [beq_eq_false_iff_ne, ne_eq]; omega
  simp only [isBoundary, h.get i hi, e1, e2]

theorem slice_sim (h : Sim N s₁ s₂) (a : Nat) {b : Nat} (hb : b ≤ N) : slice s₂ a b = slice s₁ a b := by
  have hb1 : b ≤ s₁.size := Nat.le_of_lt (h.lt₁ hb)
  have hb2 : b ≤ s₂.size := Nat.le_of_lt (h.lt₂ hb)
  unfold slice
  by_cases hab : a ≤ b
  · simp only [isBoundary_sim h (i := a) (by omega), isBoundary_sim h hb, hb1, hb2]
  · rw [if_neg (fun hc => hab hc.1), if_neg (fun hc => hab hc.1)]

theorem spanBytes_sim (h : Sim N s₁ s₂) {sp : Span} (hsp : sp.stop ≤ N) : spanBytes s₂ sp = spanBytes s₁ sp := by
  have hl1 := h.lt₁ hsp
  have hl2 := h.lt₂ hsp
  simp only [spanBytes]
  congr 1
  apply Array.ext_getElem?
  intro i
  simp only [Array.getElem?_extract]
  have e1 : min sp.stop s₂.size = min sp.stop s₁.size := by omega
  rw [e1]
  split
  · exact h.get _ (by omega)
  · rfl

theorem isCallee_sim (h : Sim N s₁ s₂) {sp : Span} (hsp : sp.stop ≤ N) : isCallee s₂ sp = isCallee s₁ sp := by
  simp only [isCallee, spanBytes_sim h hsp]

/-- the duplicate check of `get_call_arguments` -/
theorem named_any_sim (h : Sim N s₁ s₂) (named : List (Span × Inline Span)) (id : Span)
    (hn : ∀ na ∈ named, na.1.stop ≤ N) (hid : id.stop ≤ N) :
    named.any (fun na => spanBytes s₂ na.1 == spanBytes s₂ id) = named.any (fun na => spanBytes s₁ na.1 == spanBytes s₁ id) := by
  induction named with
  | nil => rfl
  | cons na rest ih =>
    simp only [List.any_cons]
    rw [ih (fun x hx => hn x (List.mem_cons_of_mem _ hx)), spanBytes_sim h (hn na (List.mem_cons_self ..)),
      spanBytes_sim h hid]

theorem sim_trimEndGo (h : Sim N s₁ s₂) (start k e : Nat) (he : e ≤ N) :
    trimEndGo s₂ start k e = trimEndGo s₁ start k e := by
  induction k generalizing e with
  | zero => rfl
  | succ k ih =>
    simp only [trimEndGo]
    split
    · rw [h.get (e - 1) (by omega), ih (e - 1) (by omega)]
    · rfl

theorem trimEnd_sim (h : Sim N s₁ s₂) {sp : Span} (hsp : sp.stop ≤ N) : trimEnd s₂ sp = trimEnd s₁ sp := by
  simp only [trimEnd, sim_trimEndGo h _ _ _ hsp]

theorem sim_nonBlankGo (h : Sim N s₁ s₂) (k a : Nat) {b : Nat} (hb : b ≤ N) : nonBlankGo s₂ k a b = nonBlankGo s₁ k a b := by
  induction k generalizing a with
  | zero => rfl
  | succ k ih =>
    simp only [nonBlankGo]
    split
    · rw [h.get a (by omega), ih]
    · rfl

theorem nonBlank_sim (h : Sim N s₁ s₂) (a : Nat) {b : Nat} (hb : b ≤ N) : nonBlank s₂ a b = nonBlank s₁ a b := by
  simp only [nonBlank, sim_nonBlankGo h _ _ hb]

theorem finishElements_sim (h : Sim N s₁ s₂) (ci : Option Nat) (lnb : Nat) (i : Nat) (els : List Placeholder)
    (hel : ∀ a b ind r, Placeholder.text a b ind r ∈ els → b ≤ N) :
    finishElements s₂ ci lnb i els = finishElements s₁ ci lnb i els := by
  induction els generalizing i with
  | nil => simp only [finishElements]
  | cons ph rest ih =>
    have ihr := fun j => ih j (fun a b ind r hm => hel a b ind r (List.mem_cons_of_mem _ hm))
    cases ph with
    | placeable e => simp only [finishElements, ihr]
    | text start stop indent role =>
      have hs := hel start stop indent role (List.mem_cons_self ..)
      simp only [pre_finishElements_text, ihr, slice_sim h _ hs]
      generalize preFeStart ci start indent role = st'
      split
      · rfl
      · split
        · rfl
        · split
          · rfl
          · rename_i sp hsl
            obtain ⟨rfl, _⟩ := slice_eq_some hsl
            rw [trimEnd_sim h hs]

theorem survivesOf_sim (h : Sim N s₁ s₂) (start : Nat) {stop : Nat} (nb : Bool) (hs : stop ≤ N) :
    survivesOf s₂ start stop nb = survivesOf s₁ start stop nb := by
  unfold survivesOf
  rw [slice_sim h start hs]
  cases nb with
  | false => rfl
  | true =>
    simp only [if_true]
    cases hsl : slice s₁ start stop with
    | none => rfl
    | some sp =>
      obtain ⟨rfl, _⟩ := slice_eq_some hsl
      simp only [Option.map_some]
      rw [trimEnd_sim h hs]

theorem st2Of_sim (h : Sim N s₁ s₂) (st : PatState) (p indent start : Nat) {stop : Nat} (nb : Bool) (term : Termination)
    (hs : stop ≤ N) : st2Of s₂ st p indent start stop nb term = st2Of s₁ st p indent start stop nb term := by
  unfold st2Of
  rw [survivesOf_sim h start nb hs]

end

end FluentProofs.Parser
