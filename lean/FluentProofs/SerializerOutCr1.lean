import FluentProofs.SerializerOutShape5
/-!
# Serializer lemmas, part 22: the shape of `get_pattern`'s output for arbitrary sources (C04)

Generalisation of `SerializerOutShape1/2` from sources without `\r` to ALL sources (no hypothesis on `\r`;
`NoLoneCR` is kept only because other files state their theorems with it).  A text slice that ends in
front of `\r\n` leaves the cursor AT the `\n` with role `LineStart`; the next iteration pushes that `\n`
as a blank-line element.  So the state machine allows a blank-line placeholder after a text that does
not end with `\n` and after a placeable, and the role/cursor relation gets a "pending line feed"
alternative.  A `\r` that is not followed by `\n` is an ordinary text byte: it may occur anywhere in a
text (also as its first or last byte); what the slices guarantee is only that no `\r` INSIDE a text (or
as its last byte) is directly followed by `\n` (`SliceC.nocrlf`, the last clause of `TextBytes`).
-/
namespace FluentProofs.Ser
open FluentModel FluentModel.Syntax FluentModel.Syntax.Ser FluentProofs.Parser

/-- every carriage return is followed by a line feed -/
def NoLoneCR (s : Src) : Prop := ∀ j : Nat, s[j]? = some (13 : UInt8) → s[j + 1]? = some (10 : UInt8)

theorem NoCR.noLone {s : Src} (h : NoCR s) : NoLoneCR s := fun j hj => absurd hj (h j)

/-- the placeholder `ph` may follow state `E` (CRLF version) -/
def okPhC (s : Src) : PSt → Placeholder → Prop
  | _, .placeable _ => True
  | .first .initialLineStart, .text a b _ role =>
    role = .initialLineStart ∧ a < b ∧ TextBytes s a b ∧ ∃ c, s[a]? = some c ∧ c ≠ 32 ∧ c ≠ 10
  | .first .lineStart, .text a b ind role =>
    role = .lineStart ∧ (ContentLine s a b ind ∨ GhostLine s a b ind)
  | .afterNl, .text a b ind role =>
    role = .lineStart ∧ (ContentLine s a b ind ∨ GhostLine s a b ind ∨ BlankPh s a b ind)
  | .afterPl, .text a b ind role =>
    (role = .continuation ∧ a < b ∧ TextBytes s a b) ∨ (role = .lineStart ∧ BlankPh s a b ind)
  | .afterText, .text a b ind role => role = .lineStart ∧ BlankPh s a b ind
  | _, .text _ _ _ _ => False

def chkC (s : Src) : PSt → List Placeholder → Prop
  | _, [] => True
  | E, ph :: l => okPhC s E ph ∧ chkC s (nxt s ph) l

theorem chkC_append (s : Src) (E : PSt) (l1 l2 : List Placeholder) :
    chkC s E (l1 ++ l2) ↔ chkC s E l1 ∧ chkC s (endSt s E l1) l2 := by
  induction l1 generalizing E with
  | nil => simp [chkC, endSt]
  | cons ph l ih => simp [chkC, endSt, ih, and_assoc]

/-- the role and the cursor fit the last placeholder; "pending line feed": the cursor is at the `\n` of a `\r\n` -/
def RoleOKC (s : Src) (E : PSt) (role : TextPos) (p : Nat) : Prop :=
  match E with
  | .first .initialLineStart =>
    role = .initialLineStart ∧ ∀ c, s[p]? = some c → c ≠ 32 ∧ c ≠ 10 ∧ (c = 13 → s[p + 1]? ≠ some 10)
  | .first .lineStart =>
    role = .lineStart ∧ s[skipBlankInline s p]? ≠ some 10 ∧
      (s[skipBlankInline s p]? = some 13 → s[skipBlankInline s p + 1]? ≠ some 10)
  | .first .continuation => False
  | .afterNl => role = .lineStart
  | .afterGhost => role = .continuation ∧ s[p]? = some 123
  | .afterText => (role = .continuation ∧ (s[p]? = some 123 ∨ s.size ≤ p)) ∨ (role = .lineStart ∧ s[p]? = some 10)
  | .afterPl => role = .continuation ∨ (role = .lineStart ∧ s[p]? = some 10)

structure PInvC (s : Src) (r0 : TextPos) (st : PatState) (p : Nat) : Prop where
  chk : chkC s (.first r0) st.elements
  role : RoleOKC s (endSt s (.first r0) st.elements) st.role p
  ci : st.commonIndent = minL (lineInds s (.first r0) st.elements)
  lnb : ∀ i, st.lastNonBlank = some i → (∃ ph, st.elements[i]? = some ph ∧ Surv s ph) ∧
    st.keptCommonIndent = minL (lineInds s (.first r0) (st.elements.take (i + 1)))

/-- pushing one well-shaped placeholder keeps the invariant -/
theorem push_pinvC {s : Src} {r0 : TextPos} {st : PatState} {p : Nat} (hI : PInvC s r0 st p) (ph : Placeholder)
    (ci' : Option Nat) (sv : Bool) (role' : TextPos) (q : Nat)
    (hok : okPhC s (endSt s (.first r0) st.elements) ph)
    (hci : ci' = minL (lineInds s (.first r0) st.elements ++ lineInd s (endSt s (.first r0) st.elements) ph))
    (hsv : sv = true → Surv s ph)
    (hrole : RoleOKC s (nxt s ph) role' q) :
    PInvC s r0 { st with commonIndent := ci',
                         lastNonBlank := if sv then some st.elements.length else st.lastNonBlank,
                         keptCommonIndent := if sv then ci' else st.keptCommonIndent,
                         elements := st.elements ++ [ph], role := role' } q := by
  have hli : lineInds s (.first r0) (st.elements ++ [ph]) =
      lineInds s (.first r0) st.elements ++ lineInd s (endSt s (.first r0) st.elements) ph := by
    rw [lineInds_append]; simp [lineInds]
  constructor
  · show chkC s _ (st.elements ++ [ph])
    rw [chkC_append]
    exact ⟨hI.chk, hok, trivial⟩
  · show RoleOKC s (endSt s _ (st.elements ++ [ph])) role' q
    rw [endSt_append]
    exact hrole
  · show ci' = minL (lineInds s _ (st.elements ++ [ph]))
    rw [hli]; exact hci
  · intro i hi
    simp only [] at hi ⊢
    cases sv with
    | true =>
      simp only [if_true, Option.some.injEq] at hi ⊢
      subst hi
      refine ⟨⟨ph, by simp, hsv rfl⟩, ?_⟩
      rw [List.take_of_length_le (by simp), hli]; exact hci
    | false =>
      simp only [Bool.false_eq_true, if_false] at hi ⊢
      obtain ⟨⟨x, h1, h2⟩, h3⟩ := hI.lnb i hi
      have hlt := getElem?_lt_length h1
      refine ⟨⟨x, getElem?_append_old _ _ _ _ h1, h2⟩, ?_⟩
      rw [List.take_append_of_le_length (by omega)]
      exact h3

/-- assembling one pushed text element -/
theorem text_pushC {s : Src} {r0 : TextPos} {st : PatState} {p : Nat} (hI : PInvC s r0 st p)
    {indent start stop : Nat} {nb : Bool} {term : Termination} {st2 : PatState} {q : Nat}
    (h2 : st2Of s st p indent start stop nb term = some st2)
    (hne : (start != stop || (st.role == .lineStart && term == .placeableStart && start == stop)) = true)
    (hcond : (st.role != .lineStart || nb || term == .lineFeed ||
      (st.role == .lineStart && term == .placeableStart && start == stop)) = true)
    (e : Placeholder)
    (he : elOf st p indent stop nb (st.role == .lineStart && term == .placeableStart && start == stop) = some e)
    (hok : okPhC s (endSt s (.first r0) st.elements) e)
    (hci : (if st.role == .lineStart && (nb || (st.role == .lineStart && term == .placeableStart && start == stop))
        then stepMin st.commonIndent indent else st.commonIndent) =
      minL (lineInds s (.first r0) st.elements ++ lineInd s (endSt s (.first r0) st.elements) e))
    (hsv : survivesOf s start stop nb = some true → Surv s e)
    (hrole : RoleOKC s (nxt s e) (pRoleOf term) q) : PInvC s r0 { st2 with role := pRoleOf term } q := by
  obtain ⟨e', sv, he', hsv', rfl⟩ := st2Of_push hne hcond h2
  rw [he] at he'
  cases he'
  exact push_pinvC hI e _ sv (pRoleOf term) q hok hci (fun h => hsv (by rw [hsv', h])) hrole

/-! ## `get_text_slice` (any source) -/

/-- no `\r` in a range without line feed that is followed by a byte other than `\n` / the end of input -/
theorem no13_of_clean {s : Src} (hcr : NoLoneCR s) {a b : Nat} (hcl : Clean s a b)
    (hend : s[b]? ≠ some 10) : ∀ j, a ≤ j → j < b → s[j]? ≠ some 13 := by
  intro j j1 j2 h13
  have h10 := hcr j h13
  by_cases hj : j + 1 < b
  · exact (hcl (j + 1) (by omega) hj).1 h10
  · have : j + 1 = b := by omega
    rw [this] at h10; exact hend h10

/-- no byte of a range without line feed that is followed by a byte other than `\n` is followed by `\n` -/
theorem nonl_next_of_clean {s : Src} {a b : Nat} (hcl : Clean s a b)
    (hend : s[b]? ≠ some 10) : ∀ j, a ≤ j → j < b → s[j + 1]? ≠ some 10 := by
  intro j j1 j2
  by_cases hj : j + 1 < b
  · exact (hcl (j + 1) (by omega) hj).1
  · have : j + 1 = b := by omega
    rw [this]; exact hend

structure SliceC (s : Src) (p1 stop : Nat) (nb : Bool) (term : Termination) (q : Nat) : Prop where
  le : p1 ≤ stop
  sz : stop ≤ s.size
  nobrace : ∀ j, p1 ≤ j → j < stop → s[j]? ≠ some 123 ∧ s[j]? ≠ some 125
  nonl : ∀ j, p1 ≤ j → j + 1 < stop → s[j]? ≠ some 10
  /-- a `\r` of the text (also its last byte) is not followed by `\n` -/
  nocrlf : ∀ j, p1 ≤ j → j < stop → s[j]? = some 13 → s[j + 1]? ≠ some 10
  lf : term = .lineFeed → p1 < stop ∧ s[stop - 1]? = some 10 ∧ q = stop ∧ nb = nonBlank s p1 (stop - 1)
  pl : term = .placeableStart → s[stop]? = some 123 ∧ q = stop ∧ nb = nonBlank s p1 stop ∧ (p1 < stop → s[stop - 1]? ≠ some 10)
  eof : term = .eof → stop = s.size ∧ q = s.size ∧ nb = nonBlank s p1 stop ∧ (p1 < stop → s[stop - 1]? ≠ some 10)
  crlf : term = .crlf → s[stop]? = some 13 ∧ s[stop + 1]? = some 10 ∧ q = stop + 1 ∧ nb = nonBlank s p1 stop ∧
    (p1 < stop → s[stop - 1]? ≠ some 10)

theorem sliceC {s : Src} {p1 start stop : Nat} {nb : Bool} {term : Termination} {q : Nat}
    (hp : p1 ≤ s.size) (h : getTextSlice s p1 = .ok (start, stop, nb, term) q) :
    start = p1 ∧ SliceC s p1 stop nb term q := by
  unfold getTextSlice at h
  have hng : ¬ p1 > s.size := by omega
  simp only [hng, if_false] at h
  split at h
  · rename_i hm
    simp only [R.ok.injEq, Prod.mk.injEq] at h
    obtain ⟨⟨hs, hst, hnb, ht⟩, hq⟩ := h
    subst hs hst hnb ht hq
    have hcl := memchr3_clean_none hm hp
    have hnn := nonl_next_of_clean hcl (by simp)
    exact ⟨rfl, {
      le := hp, sz := Nat.le_refl _
      nobrace := fun j j1 j2 => ⟨(hcl j j1 j2).2.1, (hcl j j1 j2).2.2⟩
      nonl := fun j j1 j2 => (hcl j j1 (by omega)).1
      nocrlf := fun j j1 j2 _ => hnn j j1 j2
      lf := fun h => by cases h
      pl := fun h => by cases h
      eof := fun _ => ⟨rfl, rfl, rfl, fun hlt => (hcl (s.size - 1) (by omega) (by omega)).1⟩
      crlf := fun h => by cases h }⟩
  · rename_i e hm
    have hcl := memchr3_clean_some hm
    have hpe := (memchr3Go_some hm).1
    split at h
    · cases h
    · rename_i h10
      have hlt := get_lt h10
      split at h
      · rename_i hc
        have h13 : s[e - 1]? = some 13 := by simpa using hc.2
        have hep : e > p1 := hc.1
        simp only [R.ok.injEq, Prod.mk.injEq] at h
        obtain ⟨⟨hs, hst, hnb, ht⟩, hq⟩ := h
        subst hs hst hnb ht hq
        have hcl' : Clean s p1 (e - 1) := fun j j1 j2 => hcl j j1 (by omega)
        have hnn := nonl_next_of_clean hcl' (by rw [h13]; simp)
        exact ⟨rfl, {
          le := by omega, sz := by omega
          nobrace := fun j j1 j2 => ⟨(hcl j j1 (by omega)).2.1, (hcl j j1 (by omega)).2.2⟩
          nonl := fun j j1 j2 => (hcl j j1 (by omega)).1
          nocrlf := fun j j1 j2 _ => hnn j j1 j2
          lf := fun h => by cases h
          pl := fun h => by cases h
          eof := fun h => by cases h
          crlf := fun _ => ⟨h13, by rw [show e - 1 + 1 = e by omega]; exact h10, by omega, rfl,
            fun hl => (hcl (e - 1 - 1) (by omega) (by omega)).1⟩ }⟩
      · rename_i hc
        simp only [R.ok.injEq, Prod.mk.injEq] at h
        obtain ⟨⟨hs, hst, hnb, ht⟩, hq⟩ := h
        subst hs hst hnb ht hq
        exact ⟨rfl, {
          le := by omega, sz := by omega
          nobrace := by
            intro j j1 j2
            by_cases hj : j < e
            · exact ⟨(hcl j j1 hj).2.1, (hcl j j1 hj).2.2⟩
            · have : j = e := by omega
              subst this; rw [h10]; exact ⟨by decide, by decide⟩
          nonl := fun j j1 j2 => (hcl j j1 (by omega)).1
          nocrlf := by
            intro j j1 j2 h13
            by_cases hj : j + 1 < e
            · exact (hcl (j + 1) (by omega) hj).1
            · exfalso
              by_cases hje : j = e
              · subst hje; rw [h10] at h13; cases h13
              · have hje' : j = e - 1 := by omega
                exact hc ⟨by omega, by rw [← hje', h13]; rfl⟩
          lf := fun _ => ⟨by omega, by simpa using h10, rfl, by simp⟩
          pl := fun h => by cases h
          eof := fun h => by cases h
          crlf := fun h => by cases h }⟩
    · rename_i h123
      have hlt := get_lt h123
      simp only [R.ok.injEq, Prod.mk.injEq] at h
      obtain ⟨⟨hs, hst, hnb, ht⟩, hq⟩ := h
      subst hs hst hnb ht hq
      have hnn := nonl_next_of_clean hcl (by rw [h123]; simp)
      exact ⟨rfl, {
        le := hpe, sz := by omega
        nobrace := fun j j1 j2 => ⟨(hcl j j1 j2).2.1, (hcl j j1 j2).2.2⟩
        nonl := fun j j1 j2 => (hcl j j1 (by omega)).1
        nocrlf := fun j j1 j2 _ => hnn j j1 j2
        lf := fun h => by cases h
        pl := fun _ => ⟨h123, rfl, rfl, fun hl => (hcl (e - 1) (by omega) (by omega)).1⟩
        eof := fun h => by cases h
        crlf := fun h => by cases h }⟩
    · cases h

end FluentProofs.Ser
