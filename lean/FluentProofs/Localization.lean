import FluentModel.Localization
/-!
# C18 lemmas: the invariant of `Localization` histories
-/
namespace FluentProofs.Localization
open FluentModel.Fallback FluentModel.Localization

variable {V L K R : Type} [DecidableEq V]

/-- the generator calls recorded in a log, in order -/
def callsOf (log : List (GenEvent V L)) : List (Built V L) :=
  log.filterMap fun e => match e with
    | .call b => some b
    | .prefetch _ => none

omit [DecidableEq V] in
theorem callsOf_append_call (log : List (GenEvent V L)) (b : Built V L) :
    callsOf (log ++ [.call b]) = callsOf log ++ [b] := by
  simp [callsOf, List.filterMap_append]

omit [DecidableEq V] in
theorem callsOf_append_prefetch (log : List (GenEvent V L)) (n : Nat) :
    callsOf (log ++ [.prefetch n]) = callsOf log := by
  simp [callsOf, List.filterMap_append]

/-- no two resource ids with the same value -/
def NodupVals (ids : List (ResId V)) : Prop := (ids.map (·.value)).Nodup

theorem nodupVals_insertId (ids : List (ResId V)) (r : ResId V) (h : NodupVals ids) :
    NodupVals (insertId ids r) := by
  unfold insertId
  split
  · exact h
  · rename_i hn
    unfold NodupVals at *
    simp only [List.map_append, List.map_cons, List.map_nil]
    rw [List.nodup_append]
    refine ⟨h, by simp, ?_⟩
    intro a ha b hb
    simp only [List.mem_singleton] at hb
    subst hb
    intro hab
    subst hab
    apply hn
    simp only [List.mem_map] at ha
    obtain ⟨x, hx, hxv⟩ := ha
    simp only [List.any_eq_true, decide_eq_true_eq]
    exact ⟨x, hx, hxv⟩

theorem nodupVals_extendIds (rs ids : List (ResId V)) (h : NodupVals ids) : NodupVals (extendIds ids rs) := by
  unfold extendIds
  induction rs generalizing ids with
  | nil => exact h
  | cons r rs ih => exact ih _ (nodupVals_insertId ids r h)

omit [DecidableEq V] in
theorem nodupVals_filter (ids : List (ResId V)) (p : ResId V → Bool) (h : NodupVals ids) :
    NodupVals (ids.filter p) := by
  unfold NodupVals at *
  exact List.Nodup.sublist (List.Sublist.map _ List.filter_sublist) h

/-- `from_iter` of a duplicate-free list is that list (as the model's ordered set) -/
theorem extendIds_of_nodup (acc rs : List (ResId V)) (h : NodupVals (acc ++ rs)) :
    extendIds acc rs = acc ++ rs := by
  induction rs generalizing acc with
  | nil => simp [extendIds]
  | cons r rs ih =>
    have hr : (acc.any fun x => decide (x.value = r.value)) = false := by
      unfold NodupVals at h
      simp only [List.map_append, List.map_cons] at h
      rw [List.nodup_append] at h
      obtain ⟨_, _, h3⟩ := h
      cases hany : acc.any fun x => decide (x.value = r.value) with
      | false => rfl
      | true =>
        simp only [List.any_eq_true, decide_eq_true_eq] at hany
        obtain ⟨x, hx, hxv⟩ := hany
        exact absurd hxv (h3 x.value (List.mem_map.2 ⟨x, hx, rfl⟩) r.value (by simp))
    have : extendIds acc (r :: rs) = extendIds (acc ++ [r]) rs := by
      simp [extendIds, List.foldl_cons, insertId, hr]
    rw [this, ih (acc ++ [r]) (by simpa using h)]
    simp

/-- **the invariant** maintained by every operation -/
structure Inv (s : St V L K) : Prop where
  nodup : NodupVals s.resIds
  /-- a cached bundle set was built from the current ids and mode, and — unless the provider was mutated
  without notification — the current locales -/
  fresh : ∀ h, s.bundles = some h →
    h.built.ids = s.resIds ∧ h.built.sync = s.sync ∧ (s.dirty = false → h.built.locales = s.locales)
  /-- generator calls since the last change: one iff a bundle set is cached -/
  epoch : s.epochBuilds = if s.bundles.isSome then 1 else 0
  clean : s.bundles = none → s.dirty = false
  /-- every `Rc` ever created corresponds to one generator call, in order -/
  calls : (callsOf s.log).length = s.nextId
  cachedLogged : ∀ h, s.bundles = some h → (callsOf s.log)[h.id]? = some h.built
  heldLogged : ∀ h ∈ s.held, (callsOf s.log)[h.id]? = some h.built
  inflightLogged : ∀ p ∈ s.inflight, (callsOf s.log)[p.1.id]? = some p.1.built

theorem inv_init (ids : List (ResId V)) (sync : Bool) (locales : List L) :
    Inv (St.init (K := K) ids sync locales) := by
  refine ⟨?_, ?_, ?_, ?_, ?_, ?_, ?_, ?_⟩ <;> simp [St.init, callsOf]
  exact nodupVals_extendIds ids [] (by simp [NodupVals])

omit [DecidableEq V] in
/-- a change: new ids / mode, then `on_change` -/
theorem inv_change (s : St V L K) (hI : Inv s) (ids : List (ResId V)) (sync : Bool) (hn : NodupVals ids) :
    Inv (({ s with resIds := ids, sync := sync } : St V L K).onChange) := by
  refine ⟨?_, ?_, ?_, ?_, ?_, ?_, ?_, ?_⟩ <;> simp [St.onChange]
  · exact hn
  · exact hI.calls
  · exact hI.heldLogged
  · exact fun a b hab => hI.inflightLogged (a, b) hab

theorem getElem?_append_of_some {α : Type} (l : List α) (x : α) (i : Nat) (a : α) (h : l[i]? = some a) :
    (l ++ [x])[i]? = some a := by
  have hi : i < l.length := by
    rcases Nat.lt_or_ge i l.length with hlt | hge
    · exact hlt
    · rw [List.getElem?_eq_none hge] at h; cases h
  rw [List.getElem?_append_left hi]; exact h

omit [DecidableEq V] in
theorem inv_getOrInit (s : St V L K) (hI : Inv s) :
    Inv s.getOrInit.1 ∧ s.getOrInit.1.bundles = some s.getOrInit.2 := by
  unfold St.getOrInit
  cases hb : s.bundles with
  | some h => exact ⟨by simpa using hI, by simp [hb]⟩
  | none =>
    have hd := hI.clean hb
    refine ⟨⟨?_, ?_, ?_, ?_, ?_, ?_, ?_, ?_⟩, rfl⟩
    · exact hI.nodup
    · intro h hh
      simp only [Option.some.injEq] at hh
      subst hh
      exact ⟨rfl, rfl, fun _ => rfl⟩
    · have := hI.epoch
      simp [hb] at this
      simp [this]
    · intro hnone; simp at hnone
    · simp [callsOf_append_call, hI.calls]
    · intro h hh
      simp only [Option.some.injEq] at hh
      subst hh
      simp only [callsOf_append_call]
      rw [← hI.calls]
      simp
    · intro h hh
      simp only [callsOf_append_call]
      exact getElem?_append_of_some _ _ _ _ (hI.heldLogged h hh)
    · intro p hp
      simp only [callsOf_append_call]
      exact getElem?_append_of_some _ _ _ _ (hI.inflightLogged p hp)

omit [DecidableEq V] in
theorem inv_logPrefetch (s : St V L K) (hI : Inv s) (n : Nat) :
    Inv { s with log := s.log ++ [.prefetch n] } := by
  refine ⟨hI.nodup, hI.fresh, hI.epoch, hI.clean, ?_, ?_, ?_, ?_⟩ <;> simp only [callsOf_append_prefetch]
  · exact hI.calls
  · exact hI.cachedLogged
  · exact hI.heldLogged
  · exact hI.inflightLogged

/-- the invariant is preserved by every operation -/
theorem inv_step (answer : Built V L → K → R) (s s' : St V L K) (op : Op V L K) (o : Obs V L R)
    (hI : Inv s) (h : step answer s op = .done (s', o)) : Inv s' := by
  cases op with
  | add r =>
    simp only [step, Outcome.done.injEq, Prod.mk.injEq] at h
    rw [← h.1]
    exact inv_change s hI _ s.sync (nodupVals_insertId _ _ hI.nodup)
  | addMany rs =>
    simp only [step, Outcome.done.injEq, Prod.mk.injEq] at h
    rw [← h.1]
    exact inv_change s hI _ s.sync (nodupVals_extendIds _ _ hI.nodup)
  | remove r =>
    simp only [step, Outcome.done.injEq, Prod.mk.injEq] at h
    rw [← h.1]
    exact inv_change s hI _ s.sync (nodupVals_filter _ _ hI.nodup)
  | removeMany rs =>
    simp only [step, Outcome.done.injEq, Prod.mk.injEq] at h
    rw [← h.1]
    exact inv_change s hI _ s.sync (nodupVals_filter _ _ hI.nodup)
  | setLocales ls =>
    simp only [step, Outcome.done.injEq, Prod.mk.injEq] at h
    rw [← h.1]
    refine ⟨hI.nodup, ?_, hI.epoch, ?_, hI.calls, hI.cachedLogged, hI.heldLogged, hI.inflightLogged⟩
    · intro hd hh
      obtain ⟨h1, h2, _⟩ := hI.fresh hd hh
      refine ⟨h1, h2, ?_⟩
      simp [show s.bundles = some hd from hh]
    · intro hnone
      have : s.bundles = none := hnone
      simp [this, hI.clean this]
  | onChange =>
    simp only [step, Outcome.done.injEq, Prod.mk.injEq] at h
    rw [← h.1]
    exact inv_change s hI s.resIds s.sync hI.nodup
  | setAsync =>
    simp only [step] at h
    split at h
    · simp only [Outcome.done.injEq, Prod.mk.injEq] at h
      rw [← h.1]
      exact inv_change s hI s.resIds false hI.nodup
    · simp only [Outcome.done.injEq, Prod.mk.injEq] at h
      rw [← h.1]; exact hI
  | prefetchSync =>
    obtain ⟨hI', _⟩ := inv_getOrInit s hI
    simp only [step] at h
    split at h
    · simp only [Outcome.done.injEq, Prod.mk.injEq] at h
      rw [← h.1]; exact inv_logPrefetch _ hI' _
    · cases h
  | prefetchAsync =>
    obtain ⟨hI', _⟩ := inv_getOrInit s hI
    simp only [step] at h
    split at h
    · cases h
    · simp only [Outcome.done.injEq, Prod.mk.injEq] at h
      rw [← h.1]; exact inv_logPrefetch _ hI' _
  | bundles =>
    obtain ⟨hI', _⟩ := inv_getOrInit s hI
    simp only [step, Outcome.done.injEq, Prod.mk.injEq] at h
    rw [← h.1]; exact hI'
  | req key =>
    obtain ⟨hI', _⟩ := inv_getOrInit s hI
    simp only [step, Outcome.done.injEq, Prod.mk.injEq] at h
    rw [← h.1]; exact hI'
  | hold =>
    obtain ⟨hI', hb⟩ := inv_getOrInit s hI
    simp only [step, Outcome.done.injEq, Prod.mk.injEq] at h
    rw [← h.1]
    refine ⟨hI'.nodup, hI'.fresh, hI'.epoch, hI'.clean, hI'.calls, hI'.cachedLogged, ?_, hI'.inflightLogged⟩
    intro hd hh
    simp only [List.mem_append, List.mem_singleton] at hh
    rcases hh with hh | rfl
    · exact hI'.heldLogged hd hh
    · exact hI'.cachedLogged _ hb
  | askHeld n key =>
    simp only [step] at h
    split at h <;> (simp only [Outcome.done.injEq, Prod.mk.injEq] at h; rw [← h.1]; exact hI)
  | begin n key =>
    simp only [step] at h
    split at h
    · rename_i hd hget
      simp only [Outcome.done.injEq, Prod.mk.injEq] at h
      rw [← h.1]
      refine ⟨hI.nodup, hI.fresh, hI.epoch, hI.clean, hI.calls, hI.cachedLogged, hI.heldLogged, ?_⟩
      intro p hp
      simp only [List.mem_append, List.mem_singleton] at hp
      rcases hp with hp | rfl
      · exact hI.inflightLogged p hp
      · exact hI.heldLogged _ (List.mem_of_getElem? hget)
    · simp only [Outcome.done.injEq, Prod.mk.injEq] at h
      rw [← h.1]; exact hI
  | finish =>
    simp only [step] at h
    split at h
    · rename_i hd key rest hq
      simp only [Outcome.done.injEq, Prod.mk.injEq] at h
      rw [← h.1]
      refine ⟨hI.nodup, hI.fresh, hI.epoch, hI.clean, hI.calls, hI.cachedLogged, hI.heldLogged, ?_⟩
      intro p hp
      exact hI.inflightLogged p (by rw [hq]; exact List.mem_cons_of_mem _ hp)
    · simp only [Outcome.done.injEq, Prod.mk.injEq] at h
      rw [← h.1]; exact hI

theorem inv_exec (answer : Built V L → K → R) (ops : List (Op V L K)) (s s' : St V L K)
    (hI : Inv s) (h : exec answer s ops = .done s') : Inv s' := by
  induction ops generalizing s with
  | nil => simp only [exec, Outcome.done.injEq] at h; rw [← h]; exact hI
  | cons op ops ih =>
    simp only [exec] at h
    cases hs : step answer s op with
    | panic site => simp [hs, Outcome.bind] at h
    | done r =>
      obtain ⟨s1, o⟩ := r
      simp only [hs, Outcome.bind] at h
      exact ih s1 (inv_step answer s s1 op o hI hs) h

/-! ### what the operations do to the log, the held handles and the requests in flight -/

/-- operations that end an epoch (`on_change` is called, or would be for `set_async` in sync mode) -/
def isChange : Op V L K → Bool
  | .add _ | .addMany _ | .remove _ | .removeMany _ | .onChange | .setAsync => true
  | _ => false

def isFinish : Op V L K → Bool
  | .finish => true
  | _ => false

/-- the arguments the generator would be given now -/
def current (s : St V L K) : Built V L := { sync := s.sync, locales := s.locales, ids := s.resIds }

omit [DecidableEq V] in
theorem getOrInit_cases (s : St V L K) :
    (∃ h, s.bundles = some h ∧ s.getOrInit = (s, h)) ∨
    (s.bundles = none ∧
      s.getOrInit = ({ s with bundles := some ⟨s.nextId, current s⟩, nextId := s.nextId + 1,
                              log := s.log ++ [.call (current s)], epochBuilds := s.epochBuilds + 1 },
                     ⟨s.nextId, current s⟩)) := by
  unfold St.getOrInit current
  cases hb : s.bundles with
  | some h => exact Or.inl ⟨h, rfl, rfl⟩
  | none => exact Or.inr ⟨rfl, rfl⟩

/-- **generator arguments.**  Any operation from any state: either the generator is not consulted, or no
bundle set was cached and the generator is consulted exactly once, with the current mode, locales and
resource ids (which the operation leaves unchanged). -/
theorem step_calls (answer : Built V L → K → R) (s s' : St V L K) (op : Op V L K) (o : Obs V L R)
    (h : step answer s op = .done (s', o)) :
    callsOf s'.log = callsOf s.log ∨
      (s.bundles = none ∧ callsOf s'.log = callsOf s.log ++ [current s] ∧ current s' = current s ∧
        s'.bundles = some ⟨s.nextId, current s⟩) := by
  cases op with
  | add r => simp only [step, Outcome.done.injEq, Prod.mk.injEq] at h; rw [← h.1]; exact Or.inl rfl
  | addMany rs => simp only [step, Outcome.done.injEq, Prod.mk.injEq] at h; rw [← h.1]; exact Or.inl rfl
  | remove r => simp only [step, Outcome.done.injEq, Prod.mk.injEq] at h; rw [← h.1]; exact Or.inl rfl
  | removeMany rs => simp only [step, Outcome.done.injEq, Prod.mk.injEq] at h; rw [← h.1]; exact Or.inl rfl
  | setLocales ls => simp only [step, Outcome.done.injEq, Prod.mk.injEq] at h; rw [← h.1]; exact Or.inl rfl
  | onChange => simp only [step, Outcome.done.injEq, Prod.mk.injEq] at h; rw [← h.1]; exact Or.inl rfl
  | setAsync =>
    simp only [step] at h
    split at h <;> (simp only [Outcome.done.injEq, Prod.mk.injEq] at h; rw [← h.1]; exact Or.inl rfl)
  | prefetchSync =>
    simp only [step] at h
    rcases getOrInit_cases s with ⟨hd, hb, hg⟩ | ⟨hb, hg⟩ <;> rw [hg] at h <;> simp only at h <;> split at h
    · simp only [Outcome.done.injEq, Prod.mk.injEq] at h
      rw [← h.1]; exact Or.inl (callsOf_append_prefetch _ _)
    · cases h
    · simp only [Outcome.done.injEq, Prod.mk.injEq] at h
      rw [← h.1]
      exact Or.inr ⟨hb, by simp [callsOf, List.filterMap_append], rfl, rfl⟩
    · cases h
  | prefetchAsync =>
    simp only [step] at h
    rcases getOrInit_cases s with ⟨hd, hb, hg⟩ | ⟨hb, hg⟩ <;> rw [hg] at h <;> simp only at h <;> split at h
    · cases h
    · simp only [Outcome.done.injEq, Prod.mk.injEq] at h
      rw [← h.1]; exact Or.inl (callsOf_append_prefetch _ _)
    · cases h
    · simp only [Outcome.done.injEq, Prod.mk.injEq] at h
      rw [← h.1]
      exact Or.inr ⟨hb, by simp [callsOf, List.filterMap_append], rfl, rfl⟩
  | bundles =>
    simp only [step] at h
    rcases getOrInit_cases s with ⟨hd, hb, hg⟩ | ⟨hb, hg⟩ <;> rw [hg] at h <;>
      simp only [Outcome.done.injEq, Prod.mk.injEq] at h <;> rw [← h.1]
    · exact Or.inl rfl
    · exact Or.inr ⟨hb, by simp [callsOf_append_call], rfl, rfl⟩
  | req key =>
    simp only [step] at h
    rcases getOrInit_cases s with ⟨hd, hb, hg⟩ | ⟨hb, hg⟩ <;> rw [hg] at h <;>
      simp only [Outcome.done.injEq, Prod.mk.injEq] at h <;> rw [← h.1]
    · exact Or.inl rfl
    · exact Or.inr ⟨hb, by simp [callsOf_append_call], rfl, rfl⟩
  | hold =>
    simp only [step] at h
    rcases getOrInit_cases s with ⟨hd, hb, hg⟩ | ⟨hb, hg⟩ <;> rw [hg] at h <;>
      simp only [Outcome.done.injEq, Prod.mk.injEq] at h <;> rw [← h.1]
    · exact Or.inl rfl
    · exact Or.inr ⟨hb, by simp [callsOf_append_call], rfl, rfl⟩
  | askHeld n key =>
    simp only [step] at h
    split at h <;> (simp only [Outcome.done.injEq, Prod.mk.injEq] at h; rw [← h.1]; exact Or.inl rfl)
  | begin n key =>
    simp only [step] at h
    split at h <;> (simp only [Outcome.done.injEq, Prod.mk.injEq] at h; rw [← h.1]; exact Or.inl rfl)
  | finish =>
    simp only [step] at h
    split at h <;> (simp only [Outcome.done.injEq, Prod.mk.injEq] at h; rw [← h.1]; exact Or.inl rfl)

/-- an operation that is not a change keeps a cached bundle set cached -/
theorem step_keeps_cached (answer : Built V L → K → R) (s s' : St V L K) (op : Op V L K) (o : Obs V L R)
    (hc : isChange op = false) (h : step answer s op = .done (s', o)) (hd : Handle V L)
    (hb : s.bundles = some hd) : s'.bundles = some hd := by
  have hg : s.getOrInit = (s, hd) := by simp [St.getOrInit, hb]
  cases op with
  | add r => simp [isChange] at hc
  | addMany rs => simp [isChange] at hc
  | remove r => simp [isChange] at hc
  | removeMany rs => simp [isChange] at hc
  | onChange => simp [isChange] at hc
  | setAsync => simp [isChange] at hc
  | setLocales ls => simp only [step, Outcome.done.injEq, Prod.mk.injEq] at h; rw [← h.1]; exact hb
  | prefetchSync =>
    simp only [step, hg] at h
    split at h
    · simp only [Outcome.done.injEq, Prod.mk.injEq] at h; rw [← h.1]; exact hb
    · cases h
  | prefetchAsync =>
    simp only [step, hg] at h
    split at h
    · cases h
    · simp only [Outcome.done.injEq, Prod.mk.injEq] at h; rw [← h.1]; exact hb
  | bundles => simp only [step, hg, Outcome.done.injEq, Prod.mk.injEq] at h; rw [← h.1]; exact hb
  | req key => simp only [step, hg, Outcome.done.injEq, Prod.mk.injEq] at h; rw [← h.1]; exact hb
  | hold => simp only [step, hg, Outcome.done.injEq, Prod.mk.injEq] at h; rw [← h.1]; exact hb
  | askHeld n key =>
    simp only [step] at h
    split at h <;> (simp only [Outcome.done.injEq, Prod.mk.injEq] at h; rw [← h.1]; exact hb)
  | begin n key =>
    simp only [step] at h
    split at h <;> (simp only [Outcome.done.injEq, Prod.mk.injEq] at h; rw [← h.1]; exact hb)
  | finish =>
    simp only [step] at h
    split at h <;> (simp only [Outcome.done.injEq, Prod.mk.injEq] at h; rw [← h.1]; exact hb)

/-- within an epoch (no change operation) the generator is consulted at most once, and not at all if
a bundle set is already cached -/
theorem exec_epoch (answer : Built V L → K → R) (ops : List (Op V L K)) (s s' : St V L K)
    (hops : ∀ op ∈ ops, isChange op = false) (h : exec answer s ops = .done s') :
    (s.bundles.isSome → callsOf s'.log = callsOf s.log) ∧
    (callsOf s'.log = callsOf s.log ∨ ∃ b, callsOf s'.log = callsOf s.log ++ [b]) := by
  induction ops generalizing s with
  | nil => simp only [exec, Outcome.done.injEq] at h; rw [← h]; exact ⟨fun _ => rfl, Or.inl rfl⟩
  | cons op ops ih =>
    simp only [exec] at h
    cases hs : step answer s op with
    | panic site => simp [hs, Outcome.bind] at h
    | done r =>
      obtain ⟨s1, o⟩ := r
      simp only [hs, Outcome.bind] at h
      have hc := hops op (by simp)
      obtain ⟨ih1, ih2⟩ := ih s1 (fun op' hop' => hops op' (by simp [hop'])) h
      rcases step_calls answer s s1 op o hs with hsame | ⟨hnone, hadd, _, hb1⟩
      · refine ⟨?_, ?_⟩
        · intro hsome
          obtain ⟨hd, hb⟩ := Option.isSome_iff_exists.1 hsome
          have := step_keeps_cached answer s s1 op o hc hs hd hb
          rw [ih1 (by simp [this]), hsame]
        · rw [← hsame]; exact ih2
      · refine ⟨by intro hsome; simp [hnone] at hsome, Or.inr ⟨current s, ?_⟩⟩
        rw [ih1 (by simp [hb1]), hadd]

/-- held handles are only ever appended -/
theorem step_held (answer : Built V L → K → R) (s s' : St V L K) (op : Op V L K) (o : Obs V L R)
    (h : step answer s op = .done (s', o)) : ∃ more, s'.held = s.held ++ more := by
  cases op with
  | add r => simp only [step, Outcome.done.injEq, Prod.mk.injEq] at h; rw [← h.1]; exact ⟨[], by simp [St.onChange]⟩
  | addMany rs => simp only [step, Outcome.done.injEq, Prod.mk.injEq] at h; rw [← h.1]; exact ⟨[], by simp [St.onChange]⟩
  | remove r => simp only [step, Outcome.done.injEq, Prod.mk.injEq] at h; rw [← h.1]; exact ⟨[], by simp [St.onChange]⟩
  | removeMany rs => simp only [step, Outcome.done.injEq, Prod.mk.injEq] at h; rw [← h.1]; exact ⟨[], by simp [St.onChange]⟩
  | setLocales ls => simp only [step, Outcome.done.injEq, Prod.mk.injEq] at h; rw [← h.1]; exact ⟨[], by simp⟩
  | onChange => simp only [step, Outcome.done.injEq, Prod.mk.injEq] at h; rw [← h.1]; exact ⟨[], by simp [St.onChange]⟩
  | setAsync =>
    simp only [step] at h
    split at h <;> (simp only [Outcome.done.injEq, Prod.mk.injEq] at h; rw [← h.1]; exact ⟨[], by simp [St.onChange]⟩)
  | prefetchSync =>
    simp only [step] at h
    rcases getOrInit_cases s with ⟨hd, hb, hg⟩ | ⟨hb, hg⟩ <;> rw [hg] at h <;> simp only at h <;> split at h <;>
      first | (simp only [Outcome.done.injEq, Prod.mk.injEq] at h; rw [← h.1]; exact ⟨[], by simp⟩) | cases h
  | prefetchAsync =>
    simp only [step] at h
    rcases getOrInit_cases s with ⟨hd, hb, hg⟩ | ⟨hb, hg⟩ <;> rw [hg] at h <;> simp only at h <;> split at h <;>
      first | (simp only [Outcome.done.injEq, Prod.mk.injEq] at h; rw [← h.1]; exact ⟨[], by simp⟩) | cases h
  | bundles =>
    simp only [step] at h
    rcases getOrInit_cases s with ⟨hd, hb, hg⟩ | ⟨hb, hg⟩ <;> rw [hg] at h <;>
      simp only [Outcome.done.injEq, Prod.mk.injEq] at h <;> rw [← h.1] <;> exact ⟨[], by simp⟩
  | req key =>
    simp only [step] at h
    rcases getOrInit_cases s with ⟨hd, hb, hg⟩ | ⟨hb, hg⟩ <;> rw [hg] at h <;>
      simp only [Outcome.done.injEq, Prod.mk.injEq] at h <;> rw [← h.1] <;> exact ⟨[], by simp⟩
  | hold =>
    simp only [step] at h
    rcases getOrInit_cases s with ⟨hd, hb, hg⟩ | ⟨hb, hg⟩ <;> rw [hg] at h <;>
      simp only [Outcome.done.injEq, Prod.mk.injEq] at h <;> rw [← h.1] <;> exact ⟨[_], rfl⟩
  | askHeld n key =>
    simp only [step] at h
    split at h <;> (simp only [Outcome.done.injEq, Prod.mk.injEq] at h; rw [← h.1]; exact ⟨[], by simp⟩)
  | begin n key =>
    simp only [step] at h
    split at h <;> (simp only [Outcome.done.injEq, Prod.mk.injEq] at h; rw [← h.1]; exact ⟨[], by simp⟩)
  | finish =>
    simp only [step] at h
    split at h <;> (simp only [Outcome.done.injEq, Prod.mk.injEq] at h; rw [← h.1]; exact ⟨[], by simp⟩)

theorem exec_held (answer : Built V L → K → R) (ops : List (Op V L K)) (s s' : St V L K)
    (h : exec answer s ops = .done s') : ∃ more, s'.held = s.held ++ more := by
  induction ops generalizing s with
  | nil => simp only [exec, Outcome.done.injEq] at h; rw [← h]; exact ⟨[], by simp⟩
  | cons op ops ih =>
    simp only [exec] at h
    cases hs : step answer s op with
    | panic site => simp [hs, Outcome.bind] at h
    | done r =>
      obtain ⟨s1, o⟩ := r
      simp only [hs, Outcome.bind] at h
      obtain ⟨m1, h1⟩ := step_held answer s s1 op o hs
      obtain ⟨m2, h2⟩ := ih s1 h
      exact ⟨m1 ++ m2, by rw [h2, h1, List.append_assoc]⟩

/-- requests in flight are only appended, except by `finish` -/
theorem step_inflight (answer : Built V L → K → R) (s s' : St V L K) (op : Op V L K) (o : Obs V L R)
    (hf : isFinish op = false) (h : step answer s op = .done (s', o)) :
    ∃ more, s'.inflight = s.inflight ++ more := by
  cases op with
  | add r => simp only [step, Outcome.done.injEq, Prod.mk.injEq] at h; rw [← h.1]; exact ⟨[], by simp [St.onChange]⟩
  | addMany rs => simp only [step, Outcome.done.injEq, Prod.mk.injEq] at h; rw [← h.1]; exact ⟨[], by simp [St.onChange]⟩
  | remove r => simp only [step, Outcome.done.injEq, Prod.mk.injEq] at h; rw [← h.1]; exact ⟨[], by simp [St.onChange]⟩
  | removeMany rs => simp only [step, Outcome.done.injEq, Prod.mk.injEq] at h; rw [← h.1]; exact ⟨[], by simp [St.onChange]⟩
  | setLocales ls => simp only [step, Outcome.done.injEq, Prod.mk.injEq] at h; rw [← h.1]; exact ⟨[], by simp⟩
  | onChange => simp only [step, Outcome.done.injEq, Prod.mk.injEq] at h; rw [← h.1]; exact ⟨[], by simp [St.onChange]⟩
  | setAsync =>
    simp only [step] at h
    split at h <;> (simp only [Outcome.done.injEq, Prod.mk.injEq] at h; rw [← h.1]; exact ⟨[], by simp [St.onChange]⟩)
  | prefetchSync =>
    simp only [step] at h
    rcases getOrInit_cases s with ⟨hd, hb, hg⟩ | ⟨hb, hg⟩ <;> rw [hg] at h <;> simp only at h <;> split at h <;>
      first | (simp only [Outcome.done.injEq, Prod.mk.injEq] at h; rw [← h.1]; exact ⟨[], by simp⟩) | cases h
  | prefetchAsync =>
    simp only [step] at h
    rcases getOrInit_cases s with ⟨hd, hb, hg⟩ | ⟨hb, hg⟩ <;> rw [hg] at h <;> simp only at h <;> split at h <;>
      first | (simp only [Outcome.done.injEq, Prod.mk.injEq] at h; rw [← h.1]; exact ⟨[], by simp⟩) | cases h
  | bundles =>
    simp only [step] at h
    rcases getOrInit_cases s with ⟨hd, hb, hg⟩ | ⟨hb, hg⟩ <;> rw [hg] at h <;>
      simp only [Outcome.done.injEq, Prod.mk.injEq] at h <;> rw [← h.1] <;> exact ⟨[], by simp⟩
  | req key =>
    simp only [step] at h
    rcases getOrInit_cases s with ⟨hd, hb, hg⟩ | ⟨hb, hg⟩ <;> rw [hg] at h <;>
      simp only [Outcome.done.injEq, Prod.mk.injEq] at h <;> rw [← h.1] <;> exact ⟨[], by simp⟩
  | hold =>
    simp only [step] at h
    rcases getOrInit_cases s with ⟨hd, hb, hg⟩ | ⟨hb, hg⟩ <;> rw [hg] at h <;>
      simp only [Outcome.done.injEq, Prod.mk.injEq] at h <;> rw [← h.1] <;> exact ⟨[], by simp⟩
  | askHeld n key =>
    simp only [step] at h
    split at h <;> (simp only [Outcome.done.injEq, Prod.mk.injEq] at h; rw [← h.1]; exact ⟨[], by simp⟩)
  | begin n key =>
    simp only [step] at h
    split at h
    · simp only [Outcome.done.injEq, Prod.mk.injEq] at h; rw [← h.1]; exact ⟨[_], rfl⟩
    · simp only [Outcome.done.injEq, Prod.mk.injEq] at h; rw [← h.1]; exact ⟨[], by simp⟩
  | finish => simp [isFinish] at hf

theorem exec_inflight (answer : Built V L → K → R) (ops : List (Op V L K)) (s s' : St V L K)
    (hops : ∀ op ∈ ops, isFinish op = false) (h : exec answer s ops = .done s') :
    ∃ more, s'.inflight = s.inflight ++ more := by
  induction ops generalizing s with
  | nil => simp only [exec, Outcome.done.injEq] at h; rw [← h]; exact ⟨[], by simp⟩
  | cons op ops ih =>
    simp only [exec] at h
    cases hs : step answer s op with
    | panic site => simp [hs, Outcome.bind] at h
    | done r =>
      obtain ⟨s1, o⟩ := r
      simp only [hs, Outcome.bind] at h
      obtain ⟨m1, h1⟩ := step_inflight answer s s1 op o (hops op (by simp)) hs
      obtain ⟨m2, h2⟩ := ih s1 (fun op' hop' => hops op' (by simp [hop'])) h
      exact ⟨m1 ++ m2, by rw [h2, h1, List.append_assoc]⟩

end FluentProofs.Localization
