import FluentProofs.SerializerML2
/-!
# Serializer lemmas, part 13: select expressions (C04 / T3)

A select expression whose variant values round-trip (`PatRT` one level deeper) round-trips as a
placeable element (`PlRT`): the serializer writes `{ sel ->`, one indented line group per variant
(the default one marked by `*` in the last indentation column) and the closing `}`; `get_placeable`
/ `get_expression` / `get_variants` read it back.
-/
namespace FluentProofs.Ser
open FluentModel FluentModel.Syntax FluentModel.Syntax.Ser FluentProofs.Parser

@[simp] theorem lit_lbracket : lit "[" = [91] := rfl
@[simp] theorem lit_rbracket : lit "]" = [93] := rfl
@[simp] theorem lit_arrow : lit " ->" = [32, 45, 62] := rfl

def isDefault : Variant Bytes → Bool
  | .mk _ _ d => d

def variantValue : Variant Bytes → List (PatElem Bytes)
  | .mk _ v _ => v

def variantKey' : Variant Bytes → VKey Bytes
  | .mk k _ _ => k

def validKey : VKey Bytes → Bool
  | .ident n => validIdent n
  | .num v => validNumber v

/-- selectors the parser accepts: string / number literal, variable, function call, term attribute -/
def validSelector (sel : Inline Bytes) : Bool :=
  validInline sel &&
    (match sel with
     | .str _ => true
     | .num _ => true
     | .var _ => true
     | .fn _ _ _ => true
     | .term _ (some _) _ => true
     | _ => false)

theorem keyBytes_tidy (k : VKey Bytes) (h : validKey k = true) : tidy (keyBytes k) = true := by
  cases k with
  | ident n => exact validIdent_tidy h
  | num v => exact validNumber_tidy h

theorem tidy_ne_last {x : Bytes} (h : tidy x = true) : x ≠ [] ∧ x.getLast? ≠ some 13 ∧ endsNl x = false := by
  unfold tidy at h
  split at h
  · cases h
  · rename_i b hb
    simp at h
    refine ⟨by intro h0; simp [h0] at hb, by rw [hb]; simpa using h.2, by simp [endsNl, hb, h.1]⟩

/-- `write_literal` of a text that ends tidily -/
theorem ws_writeTidy {w : Writer} {L : Nat} {nl : Bool} (hw : WS w L nl) (item : Bytes) (ht : tidy item = true) :
    (w.writeLiteral item).buffer = w.buffer ++ ((if nl then spacesL (4 * L) else []) ++ item).toArray ∧
      WS (w.writeLiteral item) L false := by
  obtain ⟨h1, h2, h3⟩ := tidy_ne_last ht
  have := ws_writeLiteral hw item h1 h2
  rwa [h3] at this

theorem wsc_writeTidy {w : Writer} {L : Nat} {nl : Bool} (hw : WSc w L nl) (item : Bytes) (ht : tidy item = true)
    (hh : item.head? ≠ some 10) :
    (w.writeLiteral item).buffer = w.buffer ++ ((if nl then spacesL (4 * L) else []) ++ item).toArray ∧
      WS (w.writeLiteral item) L false := by
  obtain ⟨h1, h2, h3⟩ := tidy_ne_last ht
  have := wsc_writeLiteral_plain hw item h1 hh h2
  rwa [h3] at this

theorem ws_newline {w : Writer} {L : Nat} (hw : WS w L false) :
    w.newline.buffer = w.buffer ++ #[10] ∧ WS w.newline L true := by
  obtain ⟨a, b, c⟩ := hw
  have hb : w.newline.buffer = w.buffer ++ #[10] := by rw [newline_buffer, b]; simp
  exact ⟨hb, by simp [a], by simp [endsWith, hb], by simp⟩

/-! ## the serializer on the variants -/

theorem serVariant_sel (L : Nat) (key : VKey Bytes) (value : List (PatElem Bytes)) (dflt : Bool)
    (hk : validKey key = true) (hp : PatRT (L + 1) value) (w : Writer) (hw : WS w (L + 1) true) :
    ∃ w', serVariant w (.mk key value dflt) = some w' ∧
      w'.buffer = w.buffer ++ (variantText (L + 1) (.mk key value dflt)).toArray ∧ WS w' (L + 1) false := by
  -- the `*` or the plain indentation, then `[`
  have h1 : ∃ w1, ((if dflt = true then w.writeCharIntoIndent 42 else w).writeLiteral [91]) = w1 ∧
      w1.buffer = w.buffer ++ ((if dflt then spacesL (4 * (L + 1) - 1) ++ [42] else spacesL (4 * (L + 1))) ++ [91]).toArray ∧
      WS w1 (L + 1) false := by
    refine ⟨_, rfl, ?_⟩
    cases dflt with
    | true =>
      obtain ⟨a, b, c⟩ := hw
      have hb := writeCharIntoIndent_after_newline w 42 L c a
      have hw1 : WS (w.writeCharIntoIndent 42) (L + 1) false := by
        refine ⟨by simp [a], ?_, ?_⟩ <;> simp [endsWith, hb]
      obtain ⟨hb2, hw2⟩ := ws_writeTidy hw1 [91] (by decide)
      refine ⟨?_, hw2⟩
      simp only [if_true]
      rw [hb2, hb]
      apply Array.ext'
      simp [spaces_toList, show 4 * (L + 1) - 1 = 4 * L + 3 by omega]
    | false =>
      obtain ⟨hb2, hw2⟩ := ws_writeTidy hw [91] (by decide)
      refine ⟨?_, hw2⟩
      simp only [Bool.false_eq_true, if_false]
      rw [hb2]; simp
  obtain ⟨w1, e1, hb1, hw1⟩ := h1
  obtain ⟨hb2, hw2⟩ := ws_writeTidy hw1 (keyBytes key) (keyBytes_tidy key hk)
  obtain ⟨hb3, hw3⟩ := ws_writeTidy hw2 [93] (by decide)
  obtain ⟨w4, hs4, hb4, hw4⟩ := hp.ser _ hw3
  refine ⟨w4, ?_, ?_, hw4⟩
  · have := hs4
    simp only [serPattern] at this
    cases key with
    | ident n => simp only [serVariant, lit_lbracket, lit_rbracket, e1]; exact this
    | num n => simp only [serVariant, lit_lbracket, lit_rbracket, e1]; exact this
  · rw [hb4, hb3, hb2, hb1]
    apply Array.ext'
    simp [variantText, patText]

theorem serVariants_sel (L : Nat) (vs : List (Variant Bytes))
    (hv : ∀ v ∈ vs, validKey (variantKey' v) = true ∧ PatRT (L + 1) (variantValue v)) :
    ∀ (w : Writer), WS w (L + 1) true →
      ∃ w', serVariants w vs = some w' ∧ w'.buffer = w.buffer ++ (variantsText (L + 1) vs).toArray ∧
        WS w' (L + 1) true := by
  induction vs with
  | nil => intro w hw; exact ⟨w, by simp [serVariants], by simp [variantsText], hw⟩
  | cons v vs ih =>
    intro w hw
    obtain ⟨key, value, dflt⟩ := v
    have hv0 := hv (.mk key value dflt) (List.mem_cons_self)
    obtain ⟨w1, hs1, hb1, hw1⟩ := serVariant_sel L key value dflt hv0.1 hv0.2 w hw
    obtain ⟨hb2, hw2⟩ := ws_newline hw1
    obtain ⟨w3, hs3, hb3, hw3⟩ := ih (fun v hvm => hv v (List.mem_cons_of_mem _ hvm)) w1.newline hw2
    refine ⟨w3, by simp only [serVariants, hs1, hs3], ?_, hw3⟩
    rw [hb3, hb2, hb1]
    apply Array.ext'
    simp [variantsText]

theorem serElement_select (L : Nat) (sel : Inline Bytes) (vs : List (Variant Bytes)) (hsel : validInline sel = true)
    (hv : ∀ v ∈ vs, validKey (variantKey' v) = true ∧ PatRT (L + 1) (variantValue v)) (w : Writer) (nl : Bool)
    (hw : WSc w L nl) :
    ∃ w', serElement w (.placeable (.select sel vs)) = some w' ∧
      w'.buffer = w.buffer ++ ((if nl then spacesL (4 * L) else []) ++ exprText L (.select sel vs)).toArray ∧
      WS w' L false := by
  obtain ⟨hb1, hw1⟩ := wsc_writeTidy hw [123, 32] (by decide) (by decide)
  obtain ⟨hs2, ht2⟩ := serInline_eq_bytes sel hsel (w.writeLiteral [123, 32])
  obtain ⟨hb2, hw2⟩ := ws_writeTidy hw1 (inlineBytes sel) ht2
  obtain ⟨hb3, hw3⟩ := ws_writeTidy hw2 [32, 45, 62] (by decide)
  obtain ⟨hb4, hw4⟩ := ws_newline hw3
  have hw5 := ws_indent hw4
  obtain ⟨w6, hs6, hb6, hw6⟩ := serVariants_sel L vs hv _ hw5
  obtain ⟨w7, hs7, hl7, hb7⟩ := dedent_of_pos (w := w6) (by rw [hw6.1]; omega)
  have hw7 : WS w7 L true := by
    obtain ⟨a, b, c⟩ := hw6
    exact ⟨by omega, by simpa [endsWith, hb7] using b, by simpa [endsWith, hb7] using c⟩
  obtain ⟨hb8, hw8⟩ := ws_writeTidy hw7 [125] (by decide)
  refine ⟨w7.writeLiteral [125], ?_, ?_, hw8⟩
  · simp only [serElement, serExpr, lit_lbrace_sp, lit_rbrace, lit_arrow, hs2, hs6, hs7, Option.map_some]
  · rw [hb8, hb7, hb6]
    simp only [indent_buffer]
    rw [hb4, hb3, hb2, hb1]
    apply Array.ext'
    simp [exprText, inlineText_valid L sel hsel]

/-! ## the parser on a select expression -/

theorem skipBlank_run (s : Src) (k p : Nat) (b : UInt8) (hsp : ∀ j, j < k → s[p + j]? = some 32)
    (hb : s[p + k]? = some b) (h1 : b ≠ 32) (h2 : b ≠ 10) (h3 : b ≠ 13) : skipBlank s p = p + k := by
  induction k generalizing p with
  | zero => exact skipBlank_at_byte s p b (by simpa using hb) h1 h2 h3
  | succ k ih =>
    have h0 : s[p]? = some 32 := by have := hsp 0 (by omega); simpa using this
    rw [skipBlank_space s p h0, ih (p + 1) (fun j hj => by
      have := hsp (j + 1) (by omega); rwa [show p + (j + 1) = p + 1 + j by omega] at this)
      (by rwa [show p + 1 + k = p + (k + 1) by omega])]
    omega

/-- shapes of selectors `get_expression` accepts -/
def selShape : Inline Span → Prop
  | .str _ => True
  | .num _ => True
  | .var _ => True
  | .fn _ _ _ => True
  | .term _ (some _) _ => True
  | _ => False

theorem selShape_of_valid (sel : Inline Bytes) (hv : validSelector sel = true) (e' : Inline Span) (f : Span → Bytes)
    (hm : e'.mapS f = sel) : selShape e' := by
  simp only [validSelector, Bool.and_eq_true] at hv
  cases e' with
  | str v => trivial
  | num v => trivial
  | var v => trivial
  | fn a b c => trivial
  | msg a b => simp only [Inline.mapS] at hm; subst hm; simp at hv
  | placeable e => simp only [Inline.mapS] at hm; subst hm; simp at hv
  | term a b c =>
    cases b with
    | some b => trivial
    | none =>
      cases c with
      | none => simp only [Inline.mapS] at hm; subst hm; simp at hv
      | some pn => obtain ⟨x, y⟩ := pn; simp only [Inline.mapS] at hm; subst hm; simp at hv

theorem getExpression_select (s : Src) (k p1 : Nat) (e' : Inline Span) (pe pa : Nat) (vs' : List (Variant Span))
    (q5 : Nat) (he : getInline s k false p1 = .ok e' pe) (hshape : selShape e') (hsb : skipBlank s pe = pa)
    (h45 : s[pa]? = some 45) (h62 : s[pa + 1]? = some 62) (h10 : s[pa + 2]? = some 10)
    (hvs : getVariants s k false [] (skipBlank s (pa + 3)) = .ok vs' q5) :
    getExpression s (k + 1) p1 = .ok (.select e' vs') q5 := by
  have hsbi : skipBlankInline s (pa + 2) = pa + 2 := skipBlankInline_stay s _ (by rw [h10]; decide)
  have heol : skipEol s (pa + 2) = some (pa + 3) := by simp [skipEol, h10]
  rw [getExpression, he]
  simp only [hsb, isCurrentByte, h45, h62, beq_self_eq_true, Bool.not_true, Bool.or_self, Bool.false_eq_true,
    if_false, hsbi, heol, hvs]
  cases e' with
  | str v => rfl
  | num v => rfl
  | var v => rfl
  | fn a b c => rfl
  | msg a b => exact hshape.elim
  | placeable e => exact hshape.elim
  | term a b c =>
    cases b with
    | some b => rfl
    | none => exact hshape.elim

theorem getPlaceable_select (s : Src) (k p0 p1 : Nat) (e' : Inline Span) (pe pa : Nat) (vs' : List (Variant Span))
    (q5 : Nat) (hsb0 : skipBlank s p0 = p1) (he : getInline s k false p1 = .ok e' pe) (hshape : selShape e')
    (hsb : skipBlank s pe = pa) (h45 : s[pa]? = some 45) (h62 : s[pa + 1]? = some 62) (h10 : s[pa + 2]? = some 10)
    (hvs : getVariants s k false [] (skipBlank s (pa + 3)) = .ok vs' q5) (h125 : s[q5]? = some 125) :
    getPlaceable s (k + 2) p0 = .ok (.select e' vs') (q5 + 1) := by
  have hex := getExpression_select s k p1 e' pe pa vs' q5 he hshape hsb h45 h62 h10 hvs
  have hsbi : skipBlankInline s q5 = q5 := skipBlankInline_stay s _ (by rw [h125]; decide)
  rw [getPlaceable, hsb0, hex]
  simp [hsbi, expectByte, isCurrentByte, h125]

theorem variantKey_at {s : Src} (hs : AsciiThenBoundary s) (key : VKey Bytes) (hk : validKey key = true) (p : Nat)
    (h : At s p (keyBytes key)) (h93 : s[p + (keyBytes key).length]? = some 93) :
    ∃ key', variantKey s p = .ok key' (p + (keyBytes key).length) ∧ key'.mapS (spanBytes s) = key := by
  cases key with
  | ident n =>
    simp only [validKey, keyBytes] at hk h h93 ⊢
    obtain ⟨b, rest, hn, hb, _⟩ := validIdent_head hk
    have h0 : s[p]? = some b := by rw [hn, at_cons] at h; exact h.1
    obtain ⟨_, f2, f3, _⟩ := alpha_facts b hb
    have hns : isNumberStart s p = false := by simp [isNumberStart, h0, f2, f3]
    refine ⟨.ident ⟨p, p + n.length⟩, ?_, by simp [VKey.mapS, at_spanBytes h]⟩
    unfold variantKey
    simp only [hns, Bool.false_eq_true, if_false,
      getIdentifier_at hs p n hk h (fun c hc => by rw [h93] at hc; cases hc; decide)]
  | num v =>
    simp only [validKey, keyBytes] at hk h h93 ⊢
    have hns : isNumberStart s p = true := by
      rcases validNumber_head hk with ⟨d, rest, rfl, hd⟩ | ⟨d, rest, rfl, hd⟩
      · rw [at_cons] at h; simp [isNumberStart, h.1, hd]
      · rw [at_cons] at h; simp [isNumberStart, h.1]
    refine ⟨.num ⟨p, p + v.length⟩, ?_, by simp [VKey.mapS, at_spanBytes h]⟩
    unfold variantKey
    simp only [hns, if_true,
      getNumberLiteral_at hs p v hk h (fun c hc => by rw [h93] at hc; cases hc; decide)]

theorem keyBytes_head (key : VKey Bytes) (hk : validKey key = true) :
    ∃ b, (keyBytes key).head? = some b ∧ b ≠ 32 ∧ b ≠ 10 ∧ b ≠ 13 := by
  cases key with
  | ident n =>
    obtain ⟨b, rest, hn, hb, _⟩ := validIdent_head hk
    obtain ⟨h1, h2, h3, _⟩ := (notBlank_iff b).mp (alpha_notBlank b hb)
    exact ⟨b, by simp [keyBytes, hn], h1, h2, h3⟩
  | num v =>
    rcases validNumber_head hk with ⟨d, rest, rfl, hd⟩ | ⟨d, rest, rfl, hd⟩
    · obtain ⟨h1, h2, h3, _⟩ := (notBlank_iff d).mp (digit_notBlank d hd)
      exact ⟨d, by simp [keyBytes], h1, h2, h3⟩
    · exact ⟨45, by simp [keyBytes], by decide, by decide, by decide⟩

/-- one iteration of `get_variants` -/
theorem getVariants_step {s : Src} (hs : AsciiThenBoundary s) (n P : Nat) (hd dflt : Bool) (acc : List (Variant Span))
    (key : VKey Bytes) (hk : validKey key = true) (value' : List (PatElem Span)) (q3 : Nat)
    (hP : if dflt then s[P]? = some 42 ∧ hd = false else True)
    (hat : At s (P + (if dflt then 1 else 0)) (91 :: (keyBytes key ++ [93])))
    (hpat : getPattern s n (P + (if dflt then 1 else 0) + 1 + (keyBytes key).length + 1) = .ok (some value') q3) :
    ∃ key', key'.mapS (spanBytes s) = key ∧
      getVariants s (n + 1) hd acc P = getVariants s n (hd || dflt) (acc ++ [.mk key' value' dflt]) (skipBlank s q3) := by
  generalize hB : P + (if dflt then 1 else 0) = B at hat hpat
  rw [at_cons, at_append] at hat
  obtain ⟨h91, hkey, h93⟩ := hat
  simp only [at_cons] at h93
  obtain ⟨key', hvk, hmk⟩ := variantKey_at hs key hk (B + 1) hkey h93.1
  refine ⟨key', hmk, ?_⟩
  obtain ⟨b, hb, b1, b2, b3⟩ := keyBytes_head key hk
  have hsb1 : skipBlank s (B + 1) = B + 1 := skipBlank_at_byte s _ b (at_head hkey hb) b1 b2 b3
  have hsb2 : skipBlank s (B + 1 + (keyBytes key).length) = B + 1 + (keyBytes key).length :=
    skipBlank_at_byte s _ 93 h93.1 (by decide) (by decide) (by decide)
  have h1 : takeByteIf s P 42 = (B, dflt) := by
    cases dflt with
    | true =>
      simp only [if_true] at hP hB
      rw [takeByteIf_yes s P 42 hP.1, hB]
    | false =>
      simp only [Bool.false_eq_true, if_false, Nat.add_zero] at hB
      subst hB
      rw [takeByteIf_no s P 42 (by rw [h91]; decide)]
  have h2 : (dflt && hd) = false := by
    cases dflt with
    | true => simp only [if_true] at hP; simp [hP.2]
    | false => rfl
  rw [getVariants]
  simp only [h1, h2, Bool.false_eq_true, if_false, takeByteIf_yes s B 91 h91, Bool.not_true, hsb1]
  have hexp : expectByte s (B + 1 + (keyBytes key).length) 93 = .ok () (B + 1 + (keyBytes key).length + 1) := by
    simp [expectByte, isCurrentByte, h93.1]
  split
  · rename_i k q heq
    have e : variantKey s (B + 1) = R.ok k q := heq
    rw [hvk] at e
    cases e
    simp only [hsb2, hexp, hpat]
  · rename_i e q heq
    have e' : variantKey s (B + 1) = R.err e q := heq
    rw [hvk] at e'; cases e'
  · rename_i m heq
    have e' : variantKey s (B + 1) = R.panic m := heq
    rw [hvk] at e'; cases e'
  · rename_i heq
    have e' : variantKey s (B + 1) = R.fuel := heq
    rw [hvk] at e'; cases e'

theorem getVariants_end (s : Src) (n P : Nat) (acc : List (Variant Span)) (h125 : s[P]? = some 125) :
    getVariants s (n + 1) true acc P = .ok acc P := by
  rw [getVariants]
  simp [takeByteIf_no s P 42 (by rw [h125]; decide), takeByteIf_no s P 91 (by rw [h125]; decide)]

theorem variantText_eq (L : Nat) (key : VKey Bytes) (value : List (PatElem Bytes)) (dflt : Bool) :
    variantText L (.mk key value dflt) =
      (if dflt then spacesL (4 * L - 1) ++ [42] else spacesL (4 * L)) ++ 91 :: (keyBytes key ++ 93 :: patText L value) := by
  simp [variantText, patText]

/-- the line after a variant value: the next variant or the closing brace -/
theorem stopper_after_variant (s : Src) (L G : Nat) (rest : List (Variant Bytes)) (q : Nat)
    (h : At s q (variantsText (L + 1) rest ++ spacesL G ++ [125])) : Stopper s q := by
  cases rest with
  | nil =>
    simp only [variantsText, List.nil_append] at h
    rw [at_append] at h
    simp only [at_cons] at h
    have h125 : s[q + G]? = some 125 := by simpa [spacesL] using h.2.1
    by_cases hL : G = 0
    · subst hL
      right; left
      exact ⟨125, by simpa using h125, by decide, by decide, fun h => absurd h (by decide), by decide⟩
    · right; right
      exact ⟨G, 125, by omega, at_spaces s q _ h.1, h125, Or.inr (Or.inr (Or.inr rfl))⟩
  | cons v vs =>
    obtain ⟨key, value, dflt⟩ := v
    simp only [variantsText, variantText_eq, List.append_assoc] at h
    right; right
    cases dflt with
    | true =>
      simp only [if_true, List.append_assoc] at h
      rw [at_append] at h
      have h42 := h.2
      simp only [List.cons_append, List.nil_append, at_cons] at h42
      exact ⟨4 * (L + 1) - 1, 42, by omega, at_spaces s q _ h.1, by simpa [spacesL] using h42.1,
        Or.inr (Or.inr (Or.inl rfl))⟩
    | false =>
      simp only [Bool.false_eq_true, if_false] at h
      rw [at_append] at h
      have h91 := h.2
      simp only [List.cons_append, at_cons] at h91
      exact ⟨4 * (L + 1), 91, by omega, at_spaces s q _ h.1, by simpa [spacesL] using h91.1, Or.inr (Or.inl rfl)⟩

theorem getVariants_text {s : Src} (hs : AsciiThenBoundary s) (L : Nat) (vs : List (Variant Bytes))
    (hv : ∀ v ∈ vs, validKey (variantKey' v) = true ∧ PatRT (L + 1) (variantValue v)) :
    ∀ (G LS n : Nat) (hd : Bool) (acc : List (Variant Span)),
      At s LS (variantsText (L + 1) vs ++ spacesL G ++ [125]) →
      (vs.filter isDefault).length + (if hd then 1 else 0) = 1 →
      4 * (variantsText (L + 1) vs).length + 9 ≤ n →
      ∃ vs', getVariants s n hd acc (skipBlank s LS) = .ok (acc ++ vs') (LS + (variantsText (L + 1) vs).length + G) ∧
        mapVariants (spanBytes s) vs' = vs := by
  induction vs with
  | nil =>
    intro G LS n hd acc hat hcount hn
    obtain ⟨m, rfl⟩ : ∃ m, n = m + 1 := ⟨n - 1, by omega⟩
    simp only [variantsText, List.nil_append, List.length_nil, Nat.add_zero] at hat ⊢
    rw [at_append] at hat
    simp only [at_cons] at hat
    have h125 : s[LS + G]? = some 125 := by simpa [spacesL] using hat.2.1
    have hhd : hd = true := by cases hd <;> simp_all
    subst hhd
    rw [skipBlank_run s G LS 125 (at_spaces s LS _ hat.1) h125 (by decide) (by decide) (by decide),
      getVariants_end s m _ acc h125]
    exact ⟨[], by simp, rfl⟩
  | cons v rest ih =>
    intro G LS n hd acc hat hcount hn
    obtain ⟨key, value, dflt⟩ := v
    obtain ⟨m, rfl⟩ : ∃ m, n = m + 1 := ⟨n - 1, by omega⟩
    have hv0 := hv (.mk key value dflt) (List.mem_cons_self)
    simp only [variantKey', variantValue] at hv0
    have hvr : ∀ v ∈ rest, validKey (variantKey' v) = true ∧ PatRT (L + 1) (variantValue v) :=
      fun v hvm => hv v (List.mem_cons_of_mem _ hvm)
    -- layout of the variant's lines
    generalize hpre : (if dflt then spacesL (4 * (L + 1) - 1) ++ [42] else spacesL (4 * (L + 1))) = pre at *
    have hprelen : pre.length = 4 * (L + 1) := by
      rw [← hpre]; cases dflt <;> simp [spacesL]; omega
    have htxt : variantsText (L + 1) (.mk key value dflt :: rest) =
        pre ++ (91 :: (keyBytes key ++ [93])) ++ (patText (L + 1) value ++ [10]) ++ variantsText (L + 1) rest := by
      simp [variantsText, variantText_eq, hpre]
    rw [htxt] at hat hn ⊢
    simp only [List.append_assoc] at hat
    rw [at_append, at_append, at_append] at hat
    obtain ⟨hpreAt, hkeyAt, hpatAt0, hrestAt0⟩ := hat
    simp only [List.length_append, List.length_cons, List.length_nil] at hkeyAt hpatAt0 hrestAt0 hn ⊢
    rw [hprelen] at hkeyAt hpatAt0 hrestAt0 hn ⊢
    have hrestAt : At s (LS + (4 * (L + 1) + ((keyBytes key).length + (0 + 1) + 1 + ((patText (L + 1) value).length + 1))))
        (variantsText (L + 1) rest ++ spacesL G ++ [125]) := by
      have := hrestAt0
      simp only [List.cons_append, List.nil_append, at_cons] at this
      have h2 := this.2
      simp only [List.append_assoc]
      rw [show LS + (4 * (L + 1) + ((keyBytes key).length + (0 + 1) + 1 + ((patText (L + 1) value).length + 1))) =
        LS + 4 * (L + 1) + ((keyBytes key).length + (0 + 1) + 1) + (patText (L + 1) value).length + 1 by omega]
      exact h2
    have hpatAt : At s (LS + (4 * (L + 1) + ((keyBytes key).length + (0 + 1) + 1))) (patText (L + 1) value ++ [10]) := by
      rw [at_append]
      refine ⟨by rw [Nat.add_assoc] at hpatAt0; exact hpatAt0, ?_⟩
      have := hrestAt0
      simp only [List.cons_append, List.nil_append, at_cons] at this
      simp only [at_cons]
      refine ⟨?_, trivial⟩
      rw [show LS + (4 * (L + 1) + ((keyBytes key).length + (0 + 1) + 1)) + (patText (L + 1) value).length =
        LS + 4 * (L + 1) + ((keyBytes key).length + (0 + 1) + 1) + (patText (L + 1) value).length by omega]
      exact this.1
    -- the cursor after the indentation
    have hP : skipBlank s LS = LS + 4 * (L + 1) - (if dflt then 1 else 0) ∧
        (if dflt then s[skipBlank s LS]? = some 42 ∧ hd = false else True) := by
      cases dflt with
      | true =>
        simp only [if_true] at hpre
        rw [← hpre, at_append] at hpreAt
        have h42 : s[LS + (4 * (L + 1) - 1)]? = some 42 := by
          have := hpreAt.2; simp only [at_cons] at this; simpa [spacesL] using this.1
        have hsb := skipBlank_run s (4 * (L + 1) - 1) LS 42 (at_spaces s LS _ hpreAt.1) h42 (by decide) (by decide)
          (by decide)
        refine ⟨by rw [hsb]; simp; omega, ?_⟩
        simp only [if_true]
        refine ⟨by rw [hsb]; exact h42, ?_⟩
        simp only [List.filter_cons, isDefault, if_true, List.length_cons] at hcount
        cases hd
        · rfl
        · simp at hcount
      | false =>
        simp only [Bool.false_eq_true, if_false] at hpre
        rw [← hpre] at hpreAt
        have h91 : s[LS + 4 * (L + 1)]? = some 91 := by rw [at_cons] at hkeyAt; exact hkeyAt.1
        have hsb := skipBlank_run s (4 * (L + 1)) LS 91 (at_spaces s LS _ hpreAt) h91 (by decide) (by decide)
          (by decide)
        exact ⟨by rw [hsb]; simp, by simp⟩
    have hB : skipBlank s LS + (if dflt then 1 else 0) = LS + 4 * (L + 1) := by
      rw [hP.1]; cases dflt <;> simp; omega
    -- the value
    have hq' : LS + 4 * (L + 1) + 1 + (keyBytes key).length + 1 + (patText (L + 1) value).length + 1 =
        LS + (4 * (L + 1) + ((keyBytes key).length + (0 + 1) + 1 + ((patText (L + 1) value).length + 1))) := by omega
    have hstop := stopper_after_variant s L G rest _ hrestAt
    obtain ⟨value', hpat, hmv⟩ := hv0.2.parse s (LS + 4 * (L + 1) + 1 + (keyBytes key).length + 1)
      (LS + 4 * (L + 1) + 1 + (keyBytes key).length + 1 + (patText (L + 1) value).length + 1) m hs
      (by rw [show LS + 4 * (L + 1) + 1 + (keyBytes key).length + 1 =
            LS + (4 * (L + 1) + ((keyBytes key).length + (0 + 1) + 1)) by omega]; exact hpatAt)
      ⟨Nat.le_refl _, fun j h1 h2 => by omega, by rw [hq']; exact hstop⟩ (by omega)
    obtain ⟨key', hmk, hstep⟩ := getVariants_step hs m (skipBlank s LS) hd dflt acc key hv0.1 value' _ hP.2
      (by rw [hB]; exact hkeyAt) (by rw [hB]; exact hpat)
    rw [hstep]
    obtain ⟨vs', hloop, hmvs⟩ := ih hvr G
      (LS + 4 * (L + 1) + 1 + (keyBytes key).length + 1 + (patText (L + 1) value).length + 1) m (hd || dflt)
      (acc ++ [.mk key' value' dflt])
      (by rw [hq']; exact hrestAt)
      (by
        simp only [List.filter_cons, isDefault] at hcount
        cases dflt <;> cases hd <;> simp_all)
      (by omega)
    refine ⟨.mk key' value' dflt :: vs', ?_, by simp [mapVariants, Variant.mapS, hmk, hmv, hmvs]⟩
    rw [hloop]
    simp only [List.append_assoc, List.singleton_append]
    congr 1
    omega

theorem skipBlank_endPos_gen (i : Inline Bytes) (s : Src) (pe : Nat) (b : UInt8) (h32 : s[pe]? = some 32)
    (hb : s[pe + 1]? = some b) (b1 : b ≠ 32) (b2 : b ≠ 10) (b3 : b ≠ 13) (b4 : b ≠ 40) (b5 : b ≠ 46) :
    skipBlank s (endPos i s pe) = pe + 1 ∧ Follow s pe := by
  have h1 : skipBlank s (pe + 1) = pe + 1 := skipBlank_at_byte s _ b hb b1 b2 b3
  have h2 : skipBlank s pe = pe + 1 := by rw [skipBlank_space s pe h32, h1]
  refine ⟨?_, ⟨fun c hc => ?_, ?_, ?_⟩⟩
  · unfold endPos; split <;> simp [h1, h2]
  · rw [h32] at hc; cases hc; decide
  · rw [h2, hb]; simpa using b4
  · rw [h2, hb]; simpa using b5

/-- **select expressions**: if the selector is valid, every variant key is valid, every variant value
round-trips one level deeper and exactly one variant is the default, the select placeable round-trips -/
theorem plRT_select (L : Nat) (sel : Inline Bytes) (vs : List (Variant Bytes)) (hsel : validSelector sel = true)
    (hv : ∀ v ∈ vs, validKey (variantKey' v) = true ∧ PatRT (L + 1) (variantValue v))
    (hdef : (vs.filter isDefault).length = 1) : PlRT L (.select sel vs) := by
  have hvsel : validInline sel = true := by
    simp only [validSelector, Bool.and_eq_true] at hsel; exact hsel.1
  refine ⟨by simp [exprText], by
    have : exprText L (.select sel vs) = (123 :: 32 :: (inlineBytes sel ++ [32, 45, 62, 10] ++ variantsText (L + 1) vs ++
        spacesL (4 * L))) ++ [125] := by simp [exprText, inlineText_valid L sel hvsel]
    rw [this, List.getLast?_append]; rfl, fun w nl hw => serElement_select L sel vs hvsel hv w nl hw, ?_⟩
  intro s p n hs hat hn
  obtain ⟨k, rfl⟩ : ∃ k, n = k + 2 := ⟨n - 2, by omega⟩
  have htxt : exprText L (.select sel vs) =
      [123, 32] ++ inlineBytes sel ++ [32, 45, 62, 10] ++ (variantsText (L + 1) vs ++ spacesL (4 * L) ++ [125]) := by
    simp [exprText, inlineText_valid L sel hvsel]
  rw [htxt] at hat hn ⊢
  rw [at_append, at_append, at_append] at hat
  obtain ⟨⟨⟨h0, hselAt⟩, harrow⟩, hvarsAt⟩ := hat
  simp only [at_cons, List.length_cons, List.length_nil, List.length_append] at h0 hselAt harrow hvarsAt hn ⊢
  have hselAt' : At s (p + 2) (inlineBytes sel) := hselAt
  obtain ⟨b, hb, hnb⟩ := inlineBytes_head sel hvsel
  obtain ⟨n1, n2, n3, _⟩ := (notBlank_iff b).mp hnb
  have hsb0 : skipBlank s (p + 1) = p + 2 := by
    rw [skipBlank_space s (p + 1) h0.2.1]; exact skipBlank_at_byte s _ b (at_head hselAt' hb) n1 n2 n3
  have e1 : p + (0 + 1 + 1 + (inlineBytes sel).length) = p + 2 + (inlineBytes sel).length := by omega
  rw [e1] at harrow
  obtain ⟨hsbe, hfol⟩ := skipBlank_endPos_gen sel s (p + 2 + (inlineBytes sel).length) 45 harrow.1 harrow.2.1
    (by decide) (by decide) (by decide) (by decide) (by decide)
  have hfu := fuelInline_le sel hvsel
  obtain ⟨e', he, hme⟩ := getInline_bytes hs sel hvsel (p + 2) k hselAt' hfol (by omega)
  obtain ⟨vs', hvs, hmvs⟩ := getVariants_text hs L vs hv (4 * L) (p + 2 + (inlineBytes sel).length + 1 + 3) k false []
    (by rw [show p + 2 + (inlineBytes sel).length + 1 + 3 = p + (0 + 1 + 1 + (inlineBytes sel).length + (0 + 1 + 1 + 1 + 1)) by
          omega]; exact hvarsAt)
    (by simp [hdef]) (by omega)
  have h125 : s[p + 2 + (inlineBytes sel).length + 1 + 3 + (variantsText (L + 1) vs).length + 4 * L]? = some 125 := by
    rw [at_append, at_append] at hvarsAt
    have := hvarsAt.2
    simp only [at_cons] at this
    have h := this.1
    simp only [List.length_append, spacesL, List.length_replicate] at h
    rw [show p + 2 + (inlineBytes sel).length + 1 + 3 + (variantsText (L + 1) vs).length + 4 * L =
      p + (0 + 1 + 1 + (inlineBytes sel).length + (0 + 1 + 1 + 1 + 1)) + ((variantsText (L + 1) vs).length + 4 * L) by omega]
    exact h
  have hpl := getPlaceable_select s k (p + 1) (p + 2) e' _ _ vs' _ hsb0 he
    (selShape_of_valid sel hsel e' _ hme) hsbe harrow.2.1
    (by rw [show p + 2 + (inlineBytes sel).length + 1 + 1 = p + 2 + (inlineBytes sel).length + 1 + 1 by rfl]; exact harrow.2.2.1)
    (by rw [show p + 2 + (inlineBytes sel).length + 1 + 2 = p + 2 + (inlineBytes sel).length + 1 + 1 + 1 by omega]
        exact harrow.2.2.2.1)
    hvs h125
  refine ⟨.select e' vs', ?_, by simp [Expr.mapS, hme, hmvs]⟩
  rw [hpl]
  congr 1
  simp [spacesL]
  omega

end FluentProofs.Ser
