/-!
# C13 — character-level specification of string-literal unescaping

`decode` is written from the property text, by recursion on *characters* (no bytes, no cursor):

* a character other than `\` is copied;
* `\\` ↦ `\`, `\"` ↦ `"`;
* `\uXXXX` / `\UXXXXXX` with exactly 4 / 6 hex digits ↦ the scalar value with that hex value, U+FFFD when
  the value is a surrogate or above U+10FFFF;
* a malformed escape ↦ U+FFFD.  Its extent (the property leaves it open; this is what the fixed decoder
  does): the backslash and the next character; for `\u`/`\U` additionally the following 4 / 6 *bytes'
  worth* of characters, rounded up to whole characters (or to the end of the input).

`go k` is "skip mode": `k` more bytes belong to the escape that was just decoded.
-/
namespace FluentProofs.UnescapeSpec

def FFFD : Char := '�'

def isHex (c : Char) : Bool :=
  ('0' ≤ c && c ≤ '9') || ('a' ≤ c && c ≤ 'f') || ('A' ≤ c && c ≤ 'F')

def digitVal (c : Char) : Nat :=
  if '0' ≤ c && c ≤ '9' then c.toNat - 48
  else if 'a' ≤ c && c ≤ 'f' then c.toNat - 87
  else c.toNat - 55

def hexNum (cs : List Char) : Nat := cs.foldl (fun a c => a * 16 + digitVal c) 0

/-- the scalar value with code `n`, U+FFFD when `n` is not a scalar value -/
def scalarOr (n : Nat) : Char :=
  if n < 0xD800 ∨ (0xDFFF < n ∧ n < 0x110000) then Char.ofNat n else FFFD

/-- value of `\u`/`\U` followed by `rest`, `n` = 4 / 6 -/
def hexEscape (n : Nat) (rest : List Char) : Char :=
  if (rest.take n).length = n ∧ (rest.take n).all isHex then scalarOr (hexNum (rest.take n)) else FFFD

/-- the character an escape decodes to; `cs` = what follows the backslash -/
def escChar : List Char → Char
  | [] => FFFD
  | c :: rest =>
    if c = '\\' then '\\'
    else if c = '"' then '"'
    else if c = 'u' then hexEscape 4 rest
    else if c = 'U' then hexEscape 6 rest
    else FFFD

/-- number of bytes after the backslash that belong to the escape (before rounding up to a character) -/
def escLen : List Char → Nat
  | [] => 0
  | c :: _ => if c = 'u' then 5 else if c = 'U' then 7 else c.utf8Size

def go : Nat → List Char → List Char
  | _, [] => []
  | k + 1, c :: cs => go (k + 1 - c.utf8Size) cs
  | 0, c :: cs => if c = '\\' then escChar cs :: go (escLen cs) cs else c :: go 0 cs

/-- the specification: what unescaping a string (as a list of characters) yields -/
def decode (cs : List Char) : List Char := go 0 cs

/-- drop `k` bytes' worth of characters, rounded up to whole characters -/
def dropBytes : Nat → List Char → List Char
  | 0, cs => cs
  | _ + 1, [] => []
  | k + 1, c :: cs => dropBytes (k + 1 - c.utf8Size) cs

theorem go_eq_dropBytes (k : Nat) (cs : List Char) : go k cs = go 0 (dropBytes k cs) := by
  induction cs generalizing k with
  | nil => cases k <;> simp [go, dropBytes]
  | cons c cs ih =>
    cases k with
    | zero => simp [dropBytes]
    | succ k => simp only [go, dropBytes]; exact ih _

theorem decode_nil : decode [] = [] := rfl

theorem decode_cons_plain {c : Char} (h : c ≠ '\\') (cs : List Char) :
    decode (c :: cs) = c :: decode cs := by
  simp [decode, go, h]

theorem decode_backslash (cs : List Char) :
    decode ('\\' :: cs) = escChar cs :: decode (dropBytes (escLen cs) cs) := by
  simp only [decode, go]
  rw [go_eq_dropBytes]
  simp

end FluentProofs.UnescapeSpec
