/-!
# C13 — character-level specification of string-literal unescaping

`decode` is written from the property text, by recursion on *characters* (no bytes, no cursor):

* a character other than `\` is copied;
* `\\` ↦ `\`, `\"` ↦ `"`;
* `\uXXXX` / `\UXXXXXX` with exactly 4 / 6 hex digits ↦ the scalar value with that hex value, U+FFFD when
  the value is a surrogate or above U+10FFFF;
* a malformed escape ↦ U+FFFD.  Its extent (the property leaves it open; this is what the fixed decoder
  does): the backslash and the next character; for `\u`/`\U` additionally the following 4 / 6 *bytes'
  worth* of characters, rounded up to whole characters (or to the end of the input).

`go k` is "skip mode": `k` more bytes belong to the escape that was just decoded.
-/
namespace FluentProofs.UnescapeSpec

def FFFD : Char := '�'

def isHex (c : Char) : Bool :=
  ('0' ≤ c && c ≤ '9') || ('a' ≤ c && c ≤ 'f') || ('A' ≤ c && c ≤ 'F')

def digitVal (c : Char) : Nat :=
  if '0' ≤ c && c ≤ '9' then c.toNat - 48
  else if 'a' ≤ c && c ≤ 'f' then c.toNat - 87
  else c.toNat - 55

def hexNum (cs : List Char) : Nat := cs.foldl (fun a c => a * 16 + digitVal c) 0

/-- the scalar value with code `n`, U+FFFD when `n` is not a scalar value -/
def scalarOr (n : Nat) : Char :=
  if n < 0xD800 ∨ (0xDFFF < n ∧ n < 0x110000) then Char.ofNat n else FFFD

/-- value of `\u`/`\U` followed by `rest`, `n` = 4 / 6 -/
def hexEscape (n : Nat) (rest : List Char) : Char :=
  if (rest.take n).length = n ∧ (rest.take n).all isHex then scalarOr (hexNum (rest.take n)) else FFFD

/-- the character an escape decodes to; `cs` = what follows the backslash -/
def escChar : List Char → Char
  | [] => FFFD
  | c :: rest =>
    if c = '\\' then '\\'
    else if c = '"' then '"'
    else if c = 'u' then hexEscape 4 rest
    else if c = 'U' then hexEscape 6 rest
    else FFFD

/-- number of bytes after the backslash that belong to the escape (before rounding up to a character) -/
def escLen : List Char → Nat
  | [] => 0
  | c :: _ => if c = 'u' then 5 else if c = 'U' then 7 else c.utf8Size

def go : Nat → List Char → List Char
  | _, [] => []
  | k + 1, c :: cs => go (k + 1 - c.utf8Size) cs
  | 0, c :: cs => if c = '\\' then escChar cs :: go (escLen cs) cs else c :: go 0 cs

/-- the specification: what unescaping a string (as a list of characters) yields -/
def decode (cs : List Char) : List Char := go 0 cs

/-- drop `k` bytes' worth of characters, rounded up to whole characters -/
def dropBytes : Nat → List Char → List Char
  | 0, cs => cs
  | _ + 1, [] => []
  | k + 1, c :: cs => dropBytes (k + 1 - c.utf8Size) cs

@[simp] theorem dropBytes_zero (cs : List Char) : dropBytes 0 cs = cs := by
  cases cs <;> simp [dropBytes]

theorem go_eq_dropBytes (k : Nat) (cs : List Char) : go k cs = go 0 (dropBytes k cs) := by
  induction cs generalizing k with
  | nil => cases k <;> simp [go, dropBytes]
  | cons c cs ih =>
    cases k with
    | zero => simp [dropBytes]
    | succ k => simp only [go, dropBytes]; exact ih _

theorem decode_nil : decode [] = [] := rfl

theorem decode_cons_plain {c : Char} (h : c ≠ '\\') (cs : List Char) :
    decode (c :: cs) = c :: decode cs := by
  simp [decode, go, h]

theorem decode_backslash (cs : List Char) :
    decode ('\\' :: cs) = escChar cs :: decode (dropBytes (escLen cs) cs) := by
  simp only [decode, go]
  rw [go_eq_dropBytes]
  simp

/-! ### well-formed input: token by token -/

/-- the tokens of a well-formed string literal body -/
inductive Tok where
  | plain (c : Char)            -- any character other than a backslash
  | bs                          -- `\\\\`
  | quote                       -- `\\"`
  | u (ds : List Char)          -- `\\uXXXX`
  | U (ds : List Char)          -- `\\UXXXXXX`

def Tok.Valid : Tok → Prop
  | .plain c => c ≠ '\\'
  | .bs => True
  | .quote => True
  | .u ds => ds.length = 4 ∧ ds.all isHex = true
  | .U ds => ds.length = 6 ∧ ds.all isHex = true

/-- source text of a token -/
def Tok.text : Tok → List Char
  | .plain c => [c]
  | .bs => ['\\', '\\']
  | .quote => ['\\', '"']
  | .u ds => '\\' :: 'u' :: ds
  | .U ds => '\\' :: 'U' :: ds

/-- what the token denotes -/
def Tok.value : Tok → List Char
  | .plain c => [c]
  | .bs => ['\\']
  | .quote => ['"']
  | .u ds => [scalarOr (hexNum ds)]
  | .U ds => [scalarOr (hexNum ds)]

theorem isHex_utf8Size (c : Char) (h : isHex c = true) : c.utf8Size = 1 := by
  have hle : c.val ≤ 0x7f := by
    simp only [isHex, Bool.or_eq_true, Bool.and_eq_true, decide_eq_true_eq] at h
    have e : ∀ a b : Char, a ≤ b ↔ a.val.toNat ≤ b.val.toNat := by
      intro a b; rw [Char.le_def, UInt32.le_iff_toNat_le]
    simp only [e] at h
    rw [UInt32.le_iff_toNat_le]
    have : ('0' : Char).val.toNat = 48 := rfl
    have : ('9' : Char).val.toNat = 57 := rfl
    have : ('a' : Char).val.toNat = 97 := rfl
    have : ('f' : Char).val.toNat = 102 := rfl
    have : ('A' : Char).val.toNat = 65 := rfl
    have : ('F' : Char).val.toNat = 70 := rfl
    have : (0x7f : UInt32).toNat = 127 := rfl
    omega
  simp [Char.utf8Size, hle]

/-- dropping exactly the bytes of a run of hex digits -/
theorem dropBytes_hex (ds rest : List Char) (h : ds.all isHex = true) :
    dropBytes ds.length (ds ++ rest) = rest := by
  induction ds with
  | nil => simp
  | cons d ds ih =>
    simp only [List.all_cons, Bool.and_eq_true] at h
    have h1 := isHex_utf8Size d h.1
    show dropBytes (ds.length + 1 - d.utf8Size) (ds ++ rest) = rest
    rw [h1]
    exact ih h.2

theorem hexEscape_wf (n : Nat) (ds rest : List Char) (hl : ds.length = n) (hh : ds.all isHex = true) :
    hexEscape n (ds ++ rest) = scalarOr (hexNum ds) := by
  have : (ds ++ rest).take n = ds := by rw [← hl]; simp
  unfold hexEscape
  rw [this, if_pos ⟨hl, hh⟩]

theorem decode_tok (t : Tok) (ht : t.Valid) (rest : List Char) :
    decode (t.text ++ rest) = t.value ++ decode rest := by
  cases t with
  | plain c => exact decode_cons_plain ht rest
  | bs =>
    show decode ('\\' :: '\\' :: rest) = _
    rw [decode_backslash]
    have e : dropBytes (escLen ('\\' :: rest)) ('\\' :: rest) = rest := by
      show dropBytes (0 + 1 - 1) rest = rest
      simp
    rw [e]; rfl
  | quote =>
    show decode ('\\' :: '"' :: rest) = _
    rw [decode_backslash]
    have e : dropBytes (escLen ('"' :: rest)) ('"' :: rest) = rest := by
      show dropBytes (0 + 1 - 1) rest = rest
      simp
    rw [e]; rfl
  | u ds =>
    obtain ⟨hl, hh⟩ := ht
    show decode ('\\' :: 'u' :: (ds ++ rest)) = _
    rw [decode_backslash]
    have e1 : escChar ('u' :: (ds ++ rest)) = scalarOr (hexNum ds) := by
      show hexEscape 4 (ds ++ rest) = _
      exact hexEscape_wf 4 ds rest hl hh
    have e2 : dropBytes (escLen ('u' :: (ds ++ rest))) ('u' :: (ds ++ rest)) = rest := by
      show dropBytes (4 + 1 - 1) (ds ++ rest) = rest
      rw [← hl]; exact dropBytes_hex ds rest hh
    rw [e1, e2]; rfl
  | U ds =>
    obtain ⟨hl, hh⟩ := ht
    show decode ('\\' :: 'U' :: (ds ++ rest)) = _
    rw [decode_backslash]
    have e1 : escChar ('U' :: (ds ++ rest)) = scalarOr (hexNum ds) := by
      show hexEscape 6 (ds ++ rest) = _
      exact hexEscape_wf 6 ds rest hl hh
    have e2 : dropBytes (escLen ('U' :: (ds ++ rest))) ('U' :: (ds ++ rest)) = rest := by
      show dropBytes (6 + 1 - 1) (ds ++ rest) = rest
      rw [← hl]; exact dropBytes_hex ds rest hh
    rw [e1, e2]; rfl

/-- a concatenation of plain characters and well-formed escapes decodes token by token -/
theorem decode_tokens (ts : List Tok) (h : ∀ t ∈ ts, t.Valid) :
    decode (ts.flatMap Tok.text) = ts.flatMap Tok.value := by
  induction ts with
  | nil => rfl
  | cons t ts ih =>
    simp only [List.flatMap_cons]
    rw [decode_tok t (h t (List.mem_cons_self)), ih (fun t' ht' => h t' (List.mem_cons_of_mem _ ht'))]

end FluentProofs.UnescapeSpec
