import FluentProofs.ParserLocalSimEntry2
/-!
# Locality of the parser, SIMULATION family, part 6: two sources that hold the same bytes at different offsets

`s₁` holds some bytes `C` (a run of Junk texts, `|C| = L`) at offset `a₁`, `s₂` holds the same bytes at offset `a₂`;
behind them both sources end, or both have a `#` or an entry head at a line start.  Then a failing `get_entry` at the
start of `C` fails in both, with junk recovery ending at the same relative position (`junk_transfer`), and a failing
`get_attribute` inside `C` fails in both (`attr_transfer`).  Proof: cut both sources at the offset (`suffix`, the shift
lemmas), then the two suffixes are equal (end of input) or related by `Sim`.
-/
namespace FluentProofs.Parser
open FluentModel.Syntax

/-- the source from position `a` on -/
def suffix (s : Src) (a : Nat) : Src := s.extract a s.size

theorem suffix_get (s : Src) (a i : Nat) : (suffix s a)[i]? = s[a + i]? := by
  unfold suffix
  rw [Array.getElem?_extract]
  split
  · rfl
  · rename_i hlt
    have : s.size ≤ a + i := by omega
    simp only [Array.getElem?_eq_none_iff.mpr this]

theorem suffix_size (s : Src) (a : Nat) : (suffix s a).size = s.size - a := by
  unfold suffix; rw [Array.size_extract]; omega

theorem shift_suffix {s : Src} {a : Nat} (ha : a ≤ s.size) (hb : isBoundary s a = true) (hls : LS s a) :
    Shift a (suffix s a) s := by
  refine ⟨fun i => ?_, ?_, hb, ?_⟩
  · rw [suffix_get]; congr 1; omega
  · rw [suffix_size]; omega
  · rcases hls with h | h
    · exact Or.inl h
    · exact Or.inr h

theorem exprFuel_suffix (s : Src) (a : Nat) : exprFuel (suffix s a) ≤ exprFuel s := by
  unfold exprFuel; rw [suffix_size]; omega

theorem atb_suffix {s : Src} (hs : AsciiThenBoundary s) (a : Nat) : AsciiThenBoundary (suffix s a) := by
  intro i b hb hlt
  rw [suffix_get] at hb
  have := hs (a + i) b hb hlt
  unfold isBoundary at this ⊢
  rw [suffix_get, suffix_size]
  have hlt' := get_lt hb
  simp only [Bool.or_eq_true, beq_iff_eq] at this ⊢
  rcases this with (h0 | h1) | h2
  · omega
  · left; right; omega
  · right
    rw [show a + (i + 1) = a + i + 1 by omega]
    exact h2

/-- an entry head seen from the suffix -/
theorem bar_suffix {s : Src} {a L E : Nat} (hb : Bar s (a + L) E) (hL : 0 < L) : Bar (suffix s a) L (E - a) := by
  have hlt := hb.lt
  refine ⟨Or.inr ?_, by omega, ?_, ?_, ?_⟩
  · rw [suffix_get, show a + (L - 1) = a + L - 1 by omega]
    exact hb.nl (p := a) (by omega)
  · rw [suffix_get]; exact hb.real
  · intro i h1 h2
    rw [suffix_get]
    exact hb.head (a + i) (by omega) (by omega)
  · rw [suffix_get, show a + (E - a) = E by omega]; exact hb.eq

theorem tailB_suffix {s : Src} {a L : Nat} (ht : TailB s (a + L)) (hL : 0 < L) : TailB (suffix s a) L := by
  rcases ht with h | ⟨E, hb⟩
  · left; rw [suffix_get]; exact h
  · right; exact ⟨E - a, bar_suffix hb hL⟩

section
variable {s₁ s₂ : Src} {a₁ a₂ L : Nat}

/-- the common bytes, then the end of input in both: the suffixes are equal -/
theorem suffix_eq_of_eof (hagree : ∀ i, i ≤ L → s₂[a₂ + i]? = s₁[a₁ + i]?) (heof : s₁[a₁ + L]? = none) :
    suffix s₂ a₂ = suffix s₁ a₁ := by
  have hsz₁ : s₁.size ≤ a₁ + L := by simpa using heof
  have hsz₂ : s₂.size ≤ a₂ + L := by
    have := hagree L (Nat.le_refl _)
    rw [heof] at this
    simpa using this
  apply Array.ext_getElem?
  intro i
  rw [suffix_get, suffix_get]
  by_cases hi : i ≤ L
  · exact hagree i hi
  · have h1 : s₁[a₁ + i]? = none := by simp; omega
    have h2 : s₂[a₂ + i]? = none := by simp; omega
    rw [h1, h2]

/-- the common bytes, then a `#` or an entry head in both: the suffixes are related by `Sim` -/
theorem sim_suffix (hagree : ∀ i, i ≤ L → s₂[a₂ + i]? = s₁[a₁ + i]?) (hL : 0 < L) (hnl : s₁[a₁ + L - 1]? = some 10)
    (ht₁ : TailB s₁ (a₁ + L)) (ht₂ : TailB s₂ (a₂ + L)) : Sim L (suffix s₁ a₁) (suffix s₂ a₂) := by
  refine ⟨fun i hi => ?_, hL, ?_, tailB_suffix ht₁ hL, tailB_suffix ht₂ hL⟩
  · rw [suffix_get, suffix_get]; exact hagree i hi
  · rw [suffix_get, show a₁ + (L - 1) = a₁ + L - 1 by omega]; exact hnl

/-- what stands behind the common bytes: the end of input in both sources, or a `#` / entry head at a line start -/
def TailOK (s₁ s₂ : Src) (a₁ a₂ L : Nat) : Prop :=
  s₁[a₁ + L]? = none ∨ (0 < L ∧ s₁[a₁ + L - 1]? = some 10 ∧ TailB s₁ (a₁ + L) ∧ TailB s₂ (a₂ + L))

/-- a failing `get_entry` seen from the suffix -/
theorem getEntry_err_suffix {s : Src} (hs : AsciiThenBoundary s) {a : Nat} (ha : a < s.size) (hb : isBoundary s a = true)
    (hls : LS s a) {e : PErr} {q : Nat} (hr : getEntry s (exprFuel s) a = .err e q) :
    ∃ e₀ q₀, getEntry (suffix s a) (exprFuel (suffix s a)) 0 = .err e₀ q₀ ∧ q = q₀ + a := by
  have hsh := shift_suffix (Nat.le_of_lt ha) hb hls
  have hfin := getEntry_fin (atb_suffix hs a) (Nat.le_refl _) (p := 0) (by rw [suffix_size]; omega)
  have := getEntry_shift hsh rfl hfin.ne_fuel (exprFuel_suffix s a)
  rw [Nat.zero_add, hr] at this
  rcases hfin with ⟨v, q₀, h0⟩ | ⟨e₀, q₀, h0⟩
  · rw [h0] at this; cases this
  · rw [h0] at this
    injection this with _ hq
    exact ⟨e₀, q₀, h0, hq⟩

/-- a failing `get_entry` of the suffix seen from the source -/
theorem getEntry_err_of_suffix {s : Src} {a : Nat} (ha : a ≤ s.size) (hb : isBoundary s a = true) (hls : LS s a)
    {e₀ : PErr} {q₀ : Nat} (hr : getEntry (suffix s a) (exprFuel (suffix s a)) 0 = .err e₀ q₀) :
    ∃ e, getEntry s (exprFuel s) a = .err e (q₀ + a) := by
  have hsh := shift_suffix ha hb hls
  have := getEntry_shift hsh hr (by nofun) (exprFuel_suffix s a)
  rw [Nat.zero_add] at this
  exact ⟨_, this⟩

/-- **Junk transfer.**  `s₁` has the bytes `C` (`|C| = L`) at `a₁`, `s₂` has them at `a₂` (`hagree`, which includes the
position behind `C`); both offsets are line starts and char boundaries; behind `C`: `TailOK`.  If `get_entry` fails at
`a₁` on `s₁` and junk recovery ends at `a₁ + k`, then `get_entry` fails at `a₂` on `s₂` and junk recovery ends at
`a₂ + k`; moreover `k ≤ L` unless the input ends behind `C`. -/
theorem junk_transfer (hs₁ : AsciiThenBoundary s₁) (hs₂ : AsciiThenBoundary s₂) (ha₁ : a₁ < s₁.size) (ha₂ : a₂ ≤ s₂.size)
    (hb₁ : isBoundary s₁ a₁ = true) (hb₂ : isBoundary s₂ a₂ = true) (hls₁ : LS s₁ a₁) (hls₂ : LS s₂ a₂)
    (hagree : ∀ i, i ≤ L → s₂[a₂ + i]? = s₁[a₁ + i]?) (htail : TailOK s₁ s₂ a₁ a₂ L)
    {e : PErr} {q k : Nat} (hr : getEntry s₁ (exprFuel s₁) a₁ = .err e q)
    (hk : skipToNextEntryStart s₁ a₁ q = some (a₁ + k)) :
    ∃ e' q', getEntry s₂ (exprFuel s₂) a₂ = .err e' q' ∧ skipToNextEntryStart s₂ a₂ q' = some (a₂ + k) := by
  obtain ⟨e₀, q₀, hr₀, rfl⟩ := getEntry_err_suffix hs₁ ha₁ hb₁ hls₁ hr
  have hsh₁ := shift_suffix (Nat.le_of_lt ha₁) hb₁ hls₁
  have hsh₂ := shift_suffix ha₂ hb₂ hls₂
  have hk₀ : skipToNextEntryStart (suffix s₁ a₁) 0 q₀ = some k := by
    have := skipToNextEntryStart_shift hsh₁ 0 q₀
    rw [Nat.zero_add, hk] at this
    cases hx : skipToNextEntryStart (suffix s₁ a₁) 0 q₀ with
    | none => rw [hx] at this; cases this
    | some k' =>
      rw [hx] at this
      simp only [Option.map_some, Option.some.injEq] at this
      congr 1; omega
  -- the same two facts for the suffix of `s₂`
  have key : ∃ e₂ q₂, getEntry (suffix s₂ a₂) (exprFuel (suffix s₂ a₂)) 0 = .err e₂ q₂ ∧
      skipToNextEntryStart (suffix s₂ a₂) 0 q₂ = some k := by
    rcases htail with heof | ⟨hL, hnl, ht₁, ht₂⟩
    · rw [suffix_eq_of_eof hagree heof]
      exact ⟨e₀, q₀, hr₀, hk₀⟩
    · have hsim := sim_suffix hagree hL hnl ht₁ ht₂
      obtain ⟨_, e', q', h1, h2⟩ := junk_sim hsim (atb_suffix hs₁ a₁) (atb_suffix hs₂ a₂) hL hr₀ hk₀
      exact ⟨e', q', h1, h2⟩
  obtain ⟨e₂, q₂, h1, h2⟩ := key
  obtain ⟨e', he'⟩ := getEntry_err_of_suffix ha₂ hb₂ hls₂ h1
  refine ⟨e', q₂ + a₂, he', ?_⟩
  have := skipToNextEntryStart_shift hsh₂ 0 q₂
  rw [Nat.zero_add, h2] at this
  rw [this]
  simp only [Option.map_some, Option.some.injEq]
  omega

/-- **Attribute transfer.**  Same setting; a failing `get_attribute` started inside `C` (at relative position `j < L`)
fails on `s₂`, too. -/
theorem attr_transfer (hs₁ : AsciiThenBoundary s₁) (hs₂ : AsciiThenBoundary s₂) (ha₁ : a₁ ≤ s₁.size) (ha₂ : a₂ ≤ s₂.size)
    (hb₁ : isBoundary s₁ a₁ = true) (hb₂ : isBoundary s₂ a₂ = true) (hls₁ : LS s₁ a₁) (hls₂ : LS s₂ a₂)
    (hagree : ∀ i, i ≤ L → s₂[a₂ + i]? = s₁[a₁ + i]?) (htail : TailOK s₁ s₂ a₁ a₂ L) {j : Nat} (hj : j < L)
    (hjs : a₁ + j ≤ s₁.size) {e : PErr} {q : Nat} (hr : getAttribute s₁ (exprFuel s₁) (a₁ + j) = .err e q) :
    ∃ e' q', getAttribute s₂ (exprFuel s₂) (a₂ + j) = .err e' q' := by
  have hsh₁ := shift_suffix ha₁ hb₁ hls₁
  have hsh₂ := shift_suffix ha₂ hb₂ hls₂
  have hfin := getAttribute_fin (atb_suffix hs₁ a₁) (Nat.le_refl _) (p := j) (by rw [suffix_size]; omega)
  have hup := getAttribute_shift hsh₁ rfl hfin.ne_fuel (exprFuel_suffix s₁ a₁)
  rw [Nat.add_comm j a₁, hr] at hup
  have hr₀ : ∃ e₀ q₀, getAttribute (suffix s₁ a₁) (exprFuel (suffix s₁ a₁)) j = .err e₀ q₀ := by
    rcases hfin with ⟨v, q₀, h0⟩ | ⟨e₀, q₀, h0⟩
    · rw [h0] at hup; cases hup
    · exact ⟨e₀, q₀, h0⟩
  obtain ⟨e₀, q₀, hr₀⟩ := hr₀
  have key : ∃ e₂ q₂, getAttribute (suffix s₂ a₂) (exprFuel (suffix s₂ a₂)) j = .err e₂ q₂ := by
    rcases htail with heof | ⟨hL, hnl, ht₁, ht₂⟩
    · rw [suffix_eq_of_eof hagree heof]
      exact ⟨e₀, q₀, hr₀⟩
    · exact attr_sim (sim_suffix hagree hL hnl ht₁ ht₂) (atb_suffix hs₁ a₁) (atb_suffix hs₂ a₂) hj hr₀
  obtain ⟨e₂, q₂, h2⟩ := key
  have := getAttribute_shift hsh₂ h2 (by nofun) (exprFuel_suffix s₂ a₂)
  rw [Nat.add_comm j a₂] at this
  exact ⟨_, _, this⟩

end

end FluentProofs.Parser
