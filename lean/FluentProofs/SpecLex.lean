import FluentModel.SpecGrammar
import FluentModel.JoinText
import FluentProofs.ParserBasics
namespace FluentProofs.SpecLex
end FluentProofs.SpecLex
