import FluentModel.SpecGrammar
import FluentModel.JoinText
import FluentProofs.ParserBasics
/-!
# Lexical layer: the parser model's scanners versus the grammar's lexical rules (C02, T1)

The parser model works on `s : Src` with a cursor `p`; the grammar (`SpecGrammar`) on the remaining
input.  `rest s p` is the bridge: the bytes of `s` from `p` on.
-/
namespace FluentProofs.SpecLex
open FluentModel FluentModel.Syntax FluentModel.SpecGrammar FluentProofs.Parser

/-- the input that remains at cursor `p` -/
def rest (s : Src) (p : Nat) : List UInt8 := s.toList.drop p

theorem rest_cons {s : Src} {p : Nat} {b : UInt8} (h : s[p]? = some b) : rest s p = b :: rest s (p + 1) := by
  have hlt := get_lt h
  have hb : s[p] = b := by
    have := Array.getElem?_eq_some_iff.mp h
    exact this.2
  unfold rest
  rw [List.drop_eq_getElem_cons (by simpa using hlt)]
  simp [hb]

theorem rest_nil {s : Src} {p : Nat} (h : s[p]? = none) : rest s p = [] := by
  have : s.size ≤ p := by simpa using h
  unfold rest
  exact List.drop_eq_nil_of_le (by simpa using this)

theorem rest_eq_nil_iff {s : Src} {p : Nat} : rest s p = [] ↔ s.size ≤ p := by
  unfold rest; simp

theorem rest_cases (s : Src) (p : Nat) :
    (s[p]? = none ∧ rest s p = []) ∨ (∃ b, s[p]? = some b ∧ rest s p = b :: rest s (p + 1)) := by
  cases h : s[p]? with
  | none => exact Or.inl ⟨rfl, rest_nil h⟩
  | some b => exact Or.inr ⟨b, rfl, rest_cons h⟩


/-! ## blank_inline -/

theorem spaces_cons_ne {b : UInt8} (r : List UInt8) (h : b ≠ 32) : spaces (b :: r) = b :: r := by
  unfold spaces
  split
  · rename_i heq; simp at heq; exact absurd heq.1 h
  · rfl

theorem spaces_skipBlankInlineGo (s : Src) (n p : Nat) (hn : s.size - p ≤ n) :
    spaces (rest s p) = rest s (skipBlankInlineGo s n p) := by
  induction n generalizing p with
  | zero =>
    have : rest s p = [] := rest_eq_nil_iff.mpr (by omega)
    simp [skipBlankInlineGo, this, spaces]
  | succ n ih =>
    simp only [skipBlankInlineGo]
    rcases rest_cases s p with ⟨h1, h2⟩ | ⟨b, h1, h2⟩
    · simp [h1, h2, spaces]
    · by_cases hb : b = 32
      · subst hb
        simp only [h1, h2, beq_self_eq_true, if_true]
        rw [show spaces (32 :: rest s (p + 1)) = spaces (rest s (p + 1)) by simp [spaces]]
        exact ih (p + 1) (by omega)
      · have : (s[p]? == some (32 : UInt8)) = false := by simp [h1, hb]
        simp only [this]
        simp only [Bool.false_eq_true, if_false]
        rw [h2, spaces_cons_ne _ hb]

/-- T1: `blank_inline?` is `skip_blank_inline` -/
theorem spaces_eq_skipBlankInline (s : Src) (p : Nat) :
    spaces (rest s p) = rest s (skipBlankInline s p) :=
  spaces_skipBlankInlineGo s _ p (Nat.le_refl _)


/-! ## line_end -/

theorem lineEnd_other {b : UInt8} (r : List UInt8) (h1 : b ≠ 10) (h2 : b ≠ 13) : lineEnd (b :: r) = none := by
  unfold lineEnd
  split <;> simp_all

theorem lineEnd_cr_other {b : UInt8} (r : List UInt8) (h1 : b ≠ 10) : lineEnd (13 :: b :: r) = none := by
  unfold lineEnd
  split <;> simp_all

theorem lineEnd_cr_eof : lineEnd [13] = none := by decide

/-- T1: `line_end` is `skip_eol`, except that the grammar also accepts `EOF` -/
theorem lineEnd_eq_skipEol (s : Src) (p : Nat) :
    lineEnd (rest s p) =
      (match skipEol s p with
       | some q => some (rest s q)
       | none => if s.size ≤ p then some [] else none) := by
  rcases rest_cases s p with ⟨h1, h2⟩ | ⟨b, h1, h2⟩
  · have : s.size ≤ p := by simpa using h1
    simp [skipEol, h1, h2, lineEnd, this]
  · have hlt : ¬ s.size ≤ p := by have := get_lt h1; omega
    by_cases hb : b = 10
    · subst hb
      simp [skipEol, h1, h2, lineEnd]
    · by_cases hc : b = 13
      · subst hc
        rcases rest_cases s (p + 1) with ⟨g1, g2⟩ | ⟨c, g1, g2⟩
        · simp [skipEol, h1, h2, g1, g2, lineEnd_cr_eof, hlt]
        · by_cases hd : c = 10
          · subst hd
            simp [skipEol, h1, h2, g1, g2, lineEnd]
          · simp [skipEol, h1, h2, g1, g2, lineEnd_cr_other _ hd, hd, hlt]
      · rw [h2, lineEnd_other _ hb hc]
        unfold skipEol
        rw [h1]
        split <;> simp_all


/-! ## blank -/

theorem blankOpt_other {b : UInt8} (r : List UInt8) (h1 : b ≠ 32) (h2 : b ≠ 10) (h3 : b ≠ 13) :
    blankOpt (b :: r) = b :: r := by
  unfold blankOpt
  split <;> simp_all

theorem blankOpt_cr_other {b : UInt8} (r : List UInt8) (h1 : b ≠ 10) : blankOpt (13 :: b :: r) = 13 :: b :: r := by
  unfold blankOpt
  split <;> simp_all

theorem blankOpt_cr_eof : blankOpt [13] = [13] := by
  unfold blankOpt
  split <;> simp_all

theorem blankOpt_skipBlankGo (s : Src) (n p : Nat) (hn : s.size - p ≤ n) :
    blankOpt (rest s p) = rest s (skipBlankGo s n p) := by
  induction n generalizing p with
  | zero =>
    have : rest s p = [] := rest_eq_nil_iff.mpr (by omega)
    simp [skipBlankGo, this, blankOpt]
  | succ n ih =>
    rcases rest_cases s p with ⟨h1, h2⟩ | ⟨b, h1, h2⟩
    · simp [skipBlankGo, h1, h2, blankOpt]
    · by_cases hb : b = 32
      · subst hb
        simp only [skipBlankGo, h1, h2]
        rw [show blankOpt (32 :: rest s (p + 1)) = blankOpt (rest s (p + 1)) by simp [blankOpt]]
        exact ih (p + 1) (by omega)
      · by_cases hc : b = 10
        · subst hc
          simp only [skipBlankGo, h1, h2]
          rw [show blankOpt (10 :: rest s (p + 1)) = blankOpt (rest s (p + 1)) by simp [blankOpt]]
          exact ih (p + 1) (by omega)
        · by_cases hd : b = 13
          · subst hd
            rcases rest_cases s (p + 1) with ⟨g1, g2⟩ | ⟨c, g1, g2⟩
            · simp [skipBlankGo, h1, h2, g1, g2, blankOpt_cr_eof]
            · by_cases he : c = 10
              · subst he
                simp only [skipBlankGo, h1, h2, g1, g2, beq_self_eq_true, if_true]
                rw [show blankOpt (13 :: 10 :: rest s (p + 1 + 1)) = blankOpt (rest s (p + 2)) by simp [blankOpt]]
                exact ih (p + 2) (by omega)
              · have : (s[p + 1]? == some (10 : UInt8)) = false := by simp [g1, he]
                simp only [skipBlankGo, h1, this]
                simp only [Bool.false_eq_true, if_false]
                rw [h2, g2, blankOpt_cr_other _ he]
          · rw [h2, blankOpt_other _ hb hc hd]
            unfold skipBlankGo
            rw [h1]
            split <;> simp_all

/-- T1: `blank?` is `skip_blank` -/
theorem blankOpt_eq_skipBlank (s : Src) (p : Nat) : blankOpt (rest s p) = rest s (skipBlank s p) :=
  blankOpt_skipBlankGo s _ p (Nat.le_refl _)


/-! ## blank_block -/

theorem skipBlankInlineGo_stop (s : Src) (n p : Nat) (hn : s.size - p ≤ n) :
    s[skipBlankInlineGo s n p]? ≠ some 32 := by
  induction n generalizing p with
  | zero =>
    have : s[p]? = none := by simp; omega
    simp [skipBlankInlineGo, this]
  | succ n ih =>
    simp only [skipBlankInlineGo]
    split
    · exact ih (p + 1) (by omega)
    · rename_i h; simpa using h

theorem skipBlankInline_stop (s : Src) (p : Nat) : s[skipBlankInline s p]? ≠ some 32 :=
  skipBlankInlineGo_stop s _ p (Nat.le_refl _)

theorem scan_other {b : UInt8} (r ls : List UInt8) (c : Nat) (h1 : b ≠ 32) (h2 : b ≠ 10) (h3 : b ≠ 13) :
    blankBlockScan (b :: r) ls c = if c == 0 then none else some (c, ls) := by
  unfold blankBlockScan
  split <;> simp_all

theorem scan_cr_other {b : UInt8} (r ls : List UInt8) (c : Nat) (h1 : b ≠ 10) :
    blankBlockScan (13 :: b :: r) ls c = if c == 0 then none else some (c, ls) := by
  unfold blankBlockScan
  split <;> simp_all

theorem scan_cr_eof (ls : List UInt8) (c : Nat) :
    blankBlockScan [13] ls c = if c == 0 then none else some (c, ls) := by
  unfold blankBlockScan
  split <;> simp_all

theorem scan_spaces_go (s : Src) (ls : List UInt8) (c n p : Nat) (hn : s.size - p ≤ n) :
    blankBlockScan (rest s p) ls c = blankBlockScan (rest s (skipBlankInlineGo s n p)) ls c := by
  induction n generalizing p with
  | zero => simp [skipBlankInlineGo]
  | succ n ih =>
    simp only [skipBlankInlineGo]
    split
    · rename_i h
      have h : s[p]? = some 32 := by simpa using h
      rw [rest_cons h, show blankBlockScan (32 :: rest s (p + 1)) ls c = blankBlockScan (rest s (p + 1)) ls c by
        simp [blankBlockScan]]
      exact ih (p + 1) (by omega)
    · rfl

/-- one line of the scan, from a position that is not a space -/
theorem scan_line (s : Src) (ls : List UInt8) (c p : Nat) (hp : s[p]? ≠ some 32) :
    blankBlockScan (rest s p) ls c =
      (match skipEol s p with
       | some q => blankBlockScan (rest s q) (rest s q) (c + 1)
       | none => if s.size ≤ p then some (c, []) else if c == 0 then none else some (c, ls)) := by
  rcases rest_cases s p with ⟨h1, h2⟩ | ⟨b, h1, h2⟩
  · have : s.size ≤ p := by simpa using h1
    simp [skipEol, h1, h2, blankBlockScan, this]
  · have hlt : ¬ s.size ≤ p := by have := get_lt h1; omega
    have hb32 : b ≠ 32 := by intro h; subst h; exact hp h1
    by_cases hb : b = 10
    · subst hb
      simp [skipEol, h1, h2, blankBlockScan]
    · by_cases hc : b = 13
      · subst hc
        rcases rest_cases s (p + 1) with ⟨g1, g2⟩ | ⟨d, g1, g2⟩
        · simp [skipEol, h1, h2, g1, g2, scan_cr_eof, hlt]
        · by_cases hd : d = 10
          · subst hd
            simp [skipEol, h1, h2, g1, g2, blankBlockScan]
          · simp [skipEol, h1, h2, g1, g2, scan_cr_other _ _ _ hd, hd, hlt]
      · rw [h2, scan_other _ _ _ hb32 hb hc]
        unfold skipEol
        rw [h1]
        split <;> simp_all

theorem blankBlockScan_skipBlankBlockGo (s : Src) (n p c : Nat) (hn : s.size - p + 1 ≤ n) (hp : p ≤ s.size) :
    blankBlockScan (rest s p) (rest s p) c =
      (let qc := skipBlankBlockGo s n p c
       if qc.2 = 0 ∧ qc.1 < s.size then none else some (qc.2, rest s qc.1)) := by
  induction n generalizing p c with
  | zero => omega
  | succ n ih =>
    rw [scan_spaces_go s (rest s p) c (s.size - p) p (Nat.le_refl _)]
    change blankBlockScan (rest s (skipBlankInline s p)) (rest s p) c = _
    rw [scan_line s (rest s p) c _ (skipBlankInline_stop s p)]
    have hle := (skipBlankInline_after s p).le
    rcases h : skipEol s (skipBlankInline s p) with _ | q
    · simp only [skipBlankBlockGo, h]
      by_cases h1 : skipBlankInline s p < s.size
      · have h2 : ¬ s.size ≤ skipBlankInline s p := by omega
        have h3 : p < s.size := by omega
        by_cases hc : c = 0 <;> simp [h1, h2, h3, hc]
      · have h2 : s.size ≤ skipBlankInline s p := by omega
        have h4 : rest s (skipBlankInline s p) = [] := rest_eq_nil_iff.mpr h2
        simp [h1, h2, h4]
    · simp only [skipBlankBlockGo, h]
      have hq := skipEol_some h
      have hq2 : q ≤ s.size := ((skipBlankInline_after s p).trans (skipEol_after h)).le_size hp
      exact ih q (c + 1) (by omega) hq2

/-- T1: `blank_block ::= (blank_inline? line_end)+` is `skip_blank_block`: with `(q, c) = skip_blank_block p`
the grammar's blank block takes the same `c` line breaks and ends at the same position `q` (spaces that
run to `EOF` included: `blank_inline? EOF`); it fails exactly when nothing was skipped (`c = 0`) and the
input has not ended. -/
theorem blankBlock_eq_skipBlankBlock (s : Src) (p : Nat) (hp : p ≤ s.size) :
    blankBlock (rest s p) =
      (let qc := skipBlankBlock s p
       if qc.2 = 0 ∧ qc.1 < s.size then none else some (qc.2, rest s qc.1)) :=
  blankBlockScan_skipBlankBlockGo s _ p 0 (Nat.le_refl _) hp

/-! ## segments of the source, scanning loops -/

/-- the bytes of `s` in `[p, q)` -/
def seg (s : Src) (p q : Nat) : List UInt8 := (rest s p).take (q - p)

theorem spanBytes_eq_seg (s : Src) (p q : Nat) : spanBytes s ⟨p, q⟩ = seg s p q := by
  simp [spanBytes, seg, rest]

theorem seg_self (s : Src) (p : Nat) : seg s p p = [] := by simp [seg]

theorem seg_cons {s : Src} {p q : Nat} {b : UInt8} (h : s[p]? = some b) (hq : p < q) :
    seg s p q = b :: seg s (p + 1) q := by
  unfold seg
  rw [rest_cons h, show q - p = (q - (p + 1)) + 1 by omega, List.take_succ_cons]

theorem scanWhileGo_ge (s : Src) (pred : UInt8 → Bool) (n p : Nat) : p ≤ scanWhileGo s pred n p := by
  induction n generalizing p with
  | zero => simp [scanWhileGo]
  | succ n ih =>
    simp only [scanWhileGo]
    split
    · split
      · have := ih (p + 1); omega
      · omega
    · omega

theorem takeWhile_scanWhileGo (s : Src) (pred : UInt8 → Bool) (n p : Nat) (hn : s.size - p ≤ n) :
    (rest s p).takeWhile pred = seg s p (scanWhileGo s pred n p) ∧
    (rest s p).dropWhile pred = rest s (scanWhileGo s pred n p) := by
  induction n generalizing p with
  | zero =>
    have : rest s p = [] := rest_eq_nil_iff.mpr (by omega)
    simp [scanWhileGo, this, seg]
  | succ n ih =>
    rcases rest_cases s p with ⟨h1, h2⟩ | ⟨b, h1, h2⟩
    · simp [scanWhileGo, h1, h2, seg]
    · by_cases hb : pred b = true
      · have hge := scanWhileGo_ge s pred n (p + 1)
        have ⟨i1, i2⟩ := ih (p + 1) (by omega)
        simp only [scanWhileGo, h1, hb, if_true]
        rw [seg_cons h1 (by omega), h2, List.takeWhile_cons, List.dropWhile_cons]
        simp [hb, i1, i2]
      · simp only [scanWhileGo, h1, hb]
        rw [h2, List.takeWhile_cons, List.dropWhile_cons]
        simp [hb, seg_self, ← h2]

theorem takeWhile_scanWhile (s : Src) (pred : UInt8 → Bool) (p : Nat) :
    (rest s p).takeWhile pred = seg s p (scanWhile s pred p) ∧
    (rest s p).dropWhile pred = rest s (scanWhile s pred p) :=
  takeWhile_scanWhileGo s pred _ p (Nat.le_refl _)

/-! ## character classes coincide -/

theorem isAlphaC_eq : ∀ b : UInt8, isAlphaC b = isAlpha b := by
  apply forall_uint8; decide +kernel
theorem isDigitC_eq : ∀ b : UInt8, isDigitC b = isDigit b := by
  apply forall_uint8; decide +kernel
theorem isIdentC_eq : ∀ b : UInt8, isIdentC b = isIdentByte b := by
  apply forall_uint8; decide +kernel
theorem isHexC_eq : ∀ b : UInt8, isHexC b = isHexDigit b := by
  apply forall_uint8; decide +kernel
theorem isIdentC_fun : isIdentC = isIdentByte := funext isIdentC_eq
theorem isDigitC_fun : isDigitC = isDigit := funext isDigitC_eq

/-! ## Identifier -/

/-- T1: `get_identifier` succeeds exactly when the grammar's `Identifier` rule matches, on exactly the
same bytes `s[p..q)`, leaving the same rest; it never panics. -/
theorem identifier_eq_getIdentifier {s : Src} (hs : AsciiThenBoundary s) (p : Nat) :
    match getIdentifier s p with
    | .ok sp q => sp = ⟨p, q⟩ ∧ p < q ∧ identifier (rest s p) = some (spanBytes s sp, rest s q)
    | .err _ _ => identifier (rest s p) = none
    | .panic _ => False
    | .fuel => False := by
  unfold getIdentifier
  rcases rest_cases s p with ⟨h1, h2⟩ | ⟨b, h1, h2⟩
  · simp [isIdentifierStart, h1, h2, identifier]
  · by_cases hb : isAlpha b = true
    · have hst : isIdentifierStart s p = true := by simp [isIdentifierStart, h1, hb]
      simp only [hst, Bool.not_true, Bool.false_eq_true, if_false]
      unfold getIdentifierUnchecked
      have hafter := scanWhile_after s isIdentByte isIdentByte_lt (p + 1)
      have hasc : Asc s p := ⟨b, h1, isAlpha_lt b hb⟩
      have hb1 : Bnd s (p + 1) := hasc.bnd_succ hs
      have hq : Bnd s (scanWhile s isIdentByte (p + 1)) := hafter.bnd hs hb1
      have hle := hafter.le
      have hsl : slice s p (scanWhile s isIdentByte (p + 1)) = some ⟨p, scanWhile s isIdentByte (p + 1)⟩ :=
        slice_ok (by omega) hasc.bnd hq
      have hu : usub (p + 1) 1 = some p := by simp [usub]
      simp only [hu, hsl]
      refine ⟨trivial, by omega, ?_⟩
      have ⟨t1, t2⟩ := takeWhile_scanWhile s isIdentByte (p + 1)
      rw [h2, spanBytes_eq_seg, seg_cons h1 (by omega)]
      simp [identifier, isAlphaC_eq, hb, isIdentC_fun, t1, t2]
    · have hst : isIdentifierStart s p = false := by simp [isIdentifierStart, h1, hb]
      simp only [hst, Bool.not_false, if_true]
      simp [h2, identifier, isAlphaC_eq, hb]


/-! ## NumberLiteral -/

theorem seg_length {s : Src} {p q : Nat} (hq : q ≤ s.size) : (seg s p q).length = q - p := by
  simp [seg, rest]; omega

theorem seg_append {s : Src} {p q r : Nat} (h1 : p ≤ q) (h2 : q ≤ r) : seg s p r = seg s p q ++ seg s q r := by
  unfold seg rest
  rw [show r - p = (q - p) + (r - q) by omega, List.take_add, List.drop_drop]
  rw [show p + (q - p) = q by omega]

theorem digits_eq_skipDigits (s : Src) (p : Nat) (hp : p ≤ s.size) :
    match skipDigits s p with
    | .ok _ q => p < q ∧ After s p q ∧ digits (rest s p) = some (seg s p q, rest s q)
    | .err _ q => q = p ∧ digits (rest s p) = none
    | .panic _ => False
    | .fuel => False := by
  unfold skipDigits
  have ⟨t1, t2⟩ := takeWhile_scanWhile s isDigit p
  have haft := scanWhile_after s isDigit isDigit_lt p
  by_cases h : scanWhile s isDigit p = p
  · rw [h] at t1
    simp [h, digits, isDigitC_fun, t1, seg_self]
  · have hne : (scanWhile s isDigit p == p) = false := by simpa using h
    have hle := haft.le
    have hsz := haft.le_size hp
    simp only [hne, Bool.false_eq_true, if_false]
    refine ⟨by omega, haft, ?_⟩
    have hlen : (seg s p (scanWhile s isDigit p)).length = scanWhile s isDigit p - p := seg_length hsz
    have hnil : (seg s p (scanWhile s isDigit p)).isEmpty = false := by
      cases hseg : seg s p (scanWhile s isDigit p) with
      | nil => rw [hseg] at hlen; simp at hlen; omega
      | cons a t => rfl
    simp [digits, isDigitC_fun, t1, t2, hnil]

/-- the part of `get_number_literal` after the optional sign (`start` = where the literal began) -/
def numRest (s : Src) (start p1 : Nat) : R Span :=
  match skipDigits s p1 with
  | .ok _ p2 =>
    let (p3, dot) := takeByteIf s p2 46
    if dot then
      match skipDigits s p3 with
      | .ok _ p4 => (match slice s start p4 with | some sp => .ok sp p4 | none => .panic "get_number_literal slice")
      | .err e q => .err e q
      | .panic m => .panic m
      | .fuel => .fuel
    else (match slice s start p3 with | some sp => .ok sp p3 | none => .panic "get_number_literal slice")
  | .err e q => .err e q
  | .panic m => .panic m
  | .fuel => .fuel

theorem getNumberLiteral_eq_numRest (s : Src) (p : Nat) :
    getNumberLiteral s p = numRest s p (takeByteIf s p 45).1 := by
  unfold getNumberLiteral numRest
  rcases takeByteIf s p 45 with ⟨p1, d⟩
  rfl

theorem numberAfterSign_no_dot (sign d : List UInt8) (i2 : List UInt8) (i1 : List UInt8)
    (hd : digits i1 = some (d, i2)) (h : ∀ r, i2 ≠ 46 :: r) :
    numberAfterSign sign i1 = some (sign ++ d, i2) := by
  unfold numberAfterSign
  rw [hd]
  cases i2 with
  | nil => rfl
  | cons b r =>
    by_cases hb : b = 46
    · subst hb; exact absurd rfl (h r)
    · simp only

theorem numRest_spec {s : Src} (hs : AsciiThenBoundary s) (start p1 : Nat) (hst : Bnd s start)
    (haft : After s start p1) :
    match numRest s start p1 with
    | .ok sp q => sp = ⟨start, q⟩ ∧ p1 < q ∧
        numberAfterSign (seg s start p1) (rest s p1) = some (seg s start q, rest s q)
    | .err _ _ => numberAfterSign (seg s start p1) (rest s p1) = none ∨
        ∃ q, p1 < q ∧ s[q]? = some 46 ∧
          numberAfterSign (seg s start p1) (rest s p1) = some (seg s start q, rest s q)
    | .panic _ => False
    | .fuel => False := by
  have hp1 : p1 ≤ s.size := haft.le_size hst.le
  have hle1 := haft.le
  unfold numRest
  have hd1 := digits_eq_skipDigits s p1 hp1
  rcases h1 : skipDigits s p1 with ⟨_, p2⟩ | ⟨e, q⟩ | m | _
  · rw [h1] at hd1
    obtain ⟨hlt, haft2, hdig⟩ := hd1
    have hp2 : p2 ≤ s.size := haft2.le_size hp1
    have hb2 : Bnd s p2 := (haft.trans haft2).bnd hs hst
    simp only
    by_cases hdot : s[p2]? = some 46
    · have htb : takeByteIf s p2 46 = (p2 + 1, true) := by simp [takeByteIf, isCurrentByte, hdot]
      simp only [htb, if_true]
      have hp3 : p2 + 1 ≤ s.size := by have := get_lt hdot; omega
      have hd3 := digits_eq_skipDigits s (p2 + 1) hp3
      have hr2 : rest s p2 = 46 :: rest s (p2 + 1) := rest_cons hdot
      rcases h3 : skipDigits s (p2 + 1) with ⟨_, p4⟩ | ⟨e, q⟩ | m | _
      · rw [h3] at hd3
        obtain ⟨hlt3, haft3, hdig3⟩ := hd3
        have haft23 : After s p2 (p2 + 1) := After.step ⟨46, hdot, by decide⟩
        have hb4 : Bnd s p4 := (haft23.trans haft3).bnd hs hb2
        have hsl : slice s start p4 = some ⟨start, p4⟩ := slice_ok (by omega) hst hb4
        simp only [hsl]
        refine ⟨trivial, by omega, ?_⟩
        unfold numberAfterSign
        rw [hdig]
        simp only [hr2, hdig3]
        rw [seg_append (s := s) (p := start) (q := p1) (r := p4) (by omega) (by omega),
            seg_append (s := s) (p := p1) (q := p2) (r := p4) (by omega) (by omega),
            seg_cons (s := s) (p := p2) (q := p4) hdot (by omega)]
        simp
      · rw [h3] at hd3
        simp only
        right
        refine ⟨p2, hlt, hdot, ?_⟩
        unfold numberAfterSign
        rw [hdig]
        simp only [hr2, hd3.2]
        rw [seg_append (s := s) (p := start) (q := p1) (r := p2) (by omega) (by omega)]
      · rw [h3] at hd3; exact hd3
      · rw [h3] at hd3; exact hd3
    · have htb : takeByteIf s p2 46 = (p2, false) := by simp [takeByteIf, isCurrentByte, hdot]
      simp only [htb, Bool.false_eq_true, if_false]
      have hsl : slice s start p2 = some ⟨start, p2⟩ := slice_ok (by omega) hst hb2
      simp only [hsl]
      refine ⟨trivial, hlt, ?_⟩
      rw [numberAfterSign_no_dot _ _ _ _ hdig]
      · rw [seg_append (s := s) (p := start) (q := p1) (r := p2) (by omega) (by omega)]
      · intro r hr
        rcases rest_cases s p2 with ⟨g1, g2⟩ | ⟨b, g1, g2⟩
        · rw [g2] at hr; cases hr
        · rw [g2] at hr
          injection hr with hb _
          subst hb; exact hdot g1
  · rw [h1] at hd1
    simp only
    left
    unfold numberAfterSign
    rw [hd1.2]
  · rw [h1] at hd1; exact hd1
  · rw [h1] at hd1; exact hd1

theorem numberLiteral_no_sign (i : List UInt8) (h : ∀ r, i ≠ 45 :: r) : numberLiteral i = numberAfterSign [] i := by
  unfold numberLiteral
  split
  · rename_i r; exact absurd rfl (h r)
  · rfl

/-- T1/T2: `get_number_literal` versus the grammar's `NumberLiteral`.  Success = the PEG rule matches
exactly `s[p..q)`.  The one asymmetry: on `digits "."` not followed by a digit the Rust scanner reports
an error where the PEG rule matches the digits and stops before the dot (every context of the grammar
then fails on that dot, so both reject the enclosing entry). -/
theorem numberLiteral_eq_getNumberLiteral {s : Src} (hs : AsciiThenBoundary s) (p : Nat) (hp : Bnd s p) :
    match getNumberLiteral s p with
    | .ok sp q => sp = ⟨p, q⟩ ∧ p < q ∧ numberLiteral (rest s p) = some (spanBytes s sp, rest s q)
    | .err _ _ => numberLiteral (rest s p) = none ∨
        ∃ q, p < q ∧ s[q]? = some 46 ∧ numberLiteral (rest s p) = some (seg s p q, rest s q)
    | .panic _ => False
    | .fuel => False := by
  rw [getNumberLiteral_eq_numRest]
  by_cases h45 : s[p]? = some 45
  · have htb : takeByteIf s p 45 = (p + 1, true) := by simp [takeByteIf, isCurrentByte, h45]
    have haft : After s p (p + 1) := After.step ⟨45, h45, by decide⟩
    have hspec := numRest_spec hs p (p + 1) hp haft
    have hseg : seg s p (p + 1) = [45] := by rw [seg_cons h45 (by omega), seg_self]
    have hnl : numberLiteral (rest s p) = numberAfterSign [45] (rest s (p + 1)) := by
      rw [rest_cons h45]; rfl
    rw [htb]
    simp only
    rw [hseg] at hspec
    rcases hr : numRest s p (p + 1) with ⟨sp, q⟩ | ⟨e, q⟩ | m | _
    · rw [hr] at hspec
      obtain ⟨e1, e2, e3⟩ := hspec
      subst e1
      exact ⟨rfl, by omega, by rw [hnl, e3, spanBytes_eq_seg]⟩
    · rw [hr] at hspec
      simp only
      rcases hspec with h | ⟨q, q1, q2, q3⟩
      · left; rw [hnl, h]
      · right; exact ⟨q, by omega, q2, by rw [hnl, q3]⟩
    · rw [hr] at hspec; exact hspec
    · rw [hr] at hspec; exact hspec
  · have htb : takeByteIf s p 45 = (p, false) := by simp [takeByteIf, isCurrentByte, h45]
    have hspec := numRest_spec hs p p hp (After.refl s p)
    have hnl : numberLiteral (rest s p) = numberAfterSign [] (rest s p) := by
      apply numberLiteral_no_sign
      intro r hr
      rcases rest_cases s p with ⟨g1, g2⟩ | ⟨b, g1, g2⟩
      · rw [g2] at hr; cases hr
      · rw [g2] at hr
        injection hr with hb _
        subst hb; exact h45 g1
    rw [htb]
    simp only
    rw [seg_self] at hspec
    rcases hr : numRest s p p with ⟨sp, q⟩ | ⟨e, q⟩ | m | _
    · rw [hr] at hspec
      obtain ⟨e1, e2, e3⟩ := hspec
      subst e1
      exact ⟨rfl, e2, by rw [hnl, e3, spanBytes_eq_seg]⟩
    · rw [hr] at hspec
      simp only
      rcases hspec with h | ⟨q, q1, q2, q3⟩
      · left; rw [hnl, h]
      · right; exact ⟨q, q1, q2, by rw [hnl, q3]⟩
    · rw [hr] at hspec; exact hspec
    · rw [hr] at hspec; exact hspec


/-! ## comment lines -/

theorem commentChars_other {b : UInt8} (r : List UInt8) (h1 : b ≠ 10) (h2 : b ≠ 13) :
    commentChars (b :: r) = (b :: (commentChars r).1, (commentChars r).2) := by
  conv => lhs; unfold commentChars
  split <;> simp_all

theorem commentChars_cr_other {b : UInt8} (r : List UInt8) (h1 : b ≠ 10) :
    commentChars (13 :: b :: r) = (13 :: (commentChars (b :: r)).1, (commentChars (b :: r)).2) := by
  conv => lhs; unfold commentChars
  split <;> simp_all

theorem commentChars_cr_eof : commentChars [13] = ([13], []) := by
  simp [commentChars]

theorem commentLineEndGo_ge (s : Src) (n p : Nat) : p ≤ commentLineEndGo s n p := by
  induction n generalizing p with
  | zero => simp [commentLineEndGo]
  | succ n ih =>
    simp only [commentLineEndGo]
    split
    · omega
    · have := ih (p + 1); omega

theorem commentChars_commentLineEndGo (s : Src) (n p : Nat) (hn : s.size - p ≤ n) :
    commentChars (rest s p) = (seg s p (commentLineEndGo s n p), rest s (commentLineEndGo s n p)) := by
  induction n generalizing p with
  | zero =>
    have : rest s p = [] := rest_eq_nil_iff.mpr (by omega)
    simp [commentLineEndGo, this, commentChars, seg]
  | succ n ih =>
    rcases rest_cases s p with ⟨h1, h2⟩ | ⟨b, h1, h2⟩
    · simp [commentLineEndGo, isEol, h1, h2, commentChars, seg]
    · have hge := commentLineEndGo_ge s n (p + 1)
      by_cases hb : b = 10
      · subst hb
        have : isEol s p = true := by simp [isEol, h1]
        simp only [commentLineEndGo, this, if_true]
        rw [seg_self, h2]
        simp [commentChars]
      · by_cases hc : b = 13
        · subst hc
          rcases rest_cases s (p + 1) with ⟨g1, g2⟩ | ⟨d, g1, g2⟩
          · have hne : isEol s p = false := by simp [isEol, h1, g1]
            simp only [commentLineEndGo, hne, Bool.false_eq_true, if_false]
            have hi := ih (p + 1) (by omega)
            rw [g2] at hi
            have e1 : seg s (p + 1) (commentLineEndGo s n (p + 1)) = [] := by
              have := congrArg Prod.fst hi; simpa [commentChars] using this.symm
            have e2 : rest s (commentLineEndGo s n (p + 1)) = [] := by
              have := congrArg Prod.snd hi; simpa [commentChars] using this.symm
            rw [seg_cons h1 (by omega), h2, g2, commentChars_cr_eof, e1, e2]
          · by_cases hd : d = 10
            · subst hd
              have : isEol s p = true := by simp [isEol, h1, g1]
              simp only [commentLineEndGo, this, if_true]
              rw [seg_self, h2, g2]
              simp [commentChars]
            · have hne : isEol s p = false := by simp [isEol, h1, g1, hd]
              simp only [commentLineEndGo, hne, Bool.false_eq_true, if_false]
              have hi := ih (p + 1) (by omega)
              rw [seg_cons h1 (by omega), h2, g2, commentChars_cr_other _ hd, ← g2, hi]
        · have hne : isEol s p = false := by
            unfold isEol; rw [h1]; split <;> simp_all
          simp only [commentLineEndGo, hne, Bool.false_eq_true, if_false]
          have hi := ih (p + 1) (by omega)
          rw [seg_cons h1 (by omega), h2, commentChars_other _ hb hc, hi]

/-- T1: `get_comment_line` reads exactly the grammar's `comment_char*` -/
theorem commentChars_eq_getCommentLine {s : Src} (p : Nat) (hp : Bnd s p) :
    ∃ e, getCommentLine s p = .ok ⟨p, e⟩ e ∧ commentChars (rest s p) = (spanBytes s ⟨p, e⟩, rest s e) := by
  have h := commentLineEndGo_spec s (s.size - p) p (by have := hp.le; omega)
  refine ⟨commentLineEndGo s (s.size - p) p, ?_, ?_⟩
  · unfold getCommentLine
    simp only []
    rw [slice_ok h.1 hp (isEol_bnd h.2.2 h.2.1)]
  · rw [spanBytes_eq_seg]
    exact commentChars_commentLineEndGo s _ p (Nat.le_refl _)

theorem commentMarker_two (d : UInt8) (r : List UInt8) (hd : d ≠ 35) :
    commentMarker (35 :: 35 :: d :: r) = some (2, d :: r) := by
  simp [commentMarker, hd]

theorem commentMarker_one (c : UInt8) (r : List UInt8) (hc : c ≠ 35) :
    commentMarker (35 :: c :: r) = some (1, c :: r) := by
  simp [commentMarker, hc]

/-- T1: `get_comment_level` is the grammar's ordered choice `"###" | "##" | "#"` -/
theorem commentMarker_eq_getCommentLevel (s : Src) (p : Nat) :
    commentMarker (rest s p) =
      (if (getCommentLevel s p).1 = 0 then none
       else some ((getCommentLevel s p).1, rest s (getCommentLevel s p).2)) := by
  unfold getCommentLevel
  simp only [isCurrentByte_iff]
  rcases rest_cases s p with ⟨h1, h2⟩ | ⟨b, h1, h2⟩
  · simp [h1, h2, commentMarker]
  · by_cases hb : b = 35
    · subst hb
      rcases rest_cases s (p + 1) with ⟨g1, g2⟩ | ⟨c, g1, g2⟩
      · simp [h1, h2, g1, g2, commentMarker]
      · by_cases hc : c = 35
        · subst hc
          rcases rest_cases s (p + 2) with ⟨k1, k2⟩ | ⟨d, k1, k2⟩
          · simp [h1, h2, g1, g2, k1, k2, commentMarker]
          · by_cases hd : d = 35
            · subst hd
              simp [h1, h2, g1, g2, k1, k2, commentMarker]
            · have : commentMarker (35 :: 35 :: d :: rest s (p + 2 + 1)) = some (2, d :: rest s (p + 2 + 1)) :=
                commentMarker_two _ _ hd
              simp [h1, h2, g1, g2, k1, k2, hd, this]
        · have : commentMarker (35 :: c :: rest s (p + 1 + 1)) = some (1, c :: rest s (p + 1 + 1)) :=
            commentMarker_one _ _ hc
          simp [h1, h2, g1, g2, hc, this]
    · have : commentMarker (b :: rest s (p + 1)) = none := by
        unfold commentMarker; split <;> simp_all
      simp [h1, h2, hb, this]


/-! ## StringLiteral -/

theorem skipHexGo_bounds (s : Src) (n p : Nat) : p ≤ skipHexGo s n p ∧ skipHexGo s n p ≤ p + n := by
  induction n generalizing p with
  | zero => simp [skipHexGo]
  | succ n ih =>
    simp only [skipHexGo]
    split
    · split
      · have := ih (p + 1); omega
      · omega
    · omega

theorem hexRun_zero (i : List UInt8) : hexRun 0 i = true := by simp [hexRun]
theorem hexRun_nil (n : Nat) : hexRun (n + 1) [] = false := by simp [hexRun]
theorem hexRun_cons (n : Nat) (b : UInt8) (r : List UInt8) :
    hexRun (n + 1) (b :: r) = (isHexC b && hexRun n r) := by
  simp [hexRun, Bool.and_comm, Bool.and_assoc, Bool.and_left_comm]

theorem hexRun_eq_skipHexGo (s : Src) (n p : Nat) :
    hexRun n (rest s p) = decide (skipHexGo s n p = p + n) := by
  induction n generalizing p with
  | zero => simp [hexRun_zero, skipHexGo]
  | succ n ih =>
    rcases rest_cases s p with ⟨h1, h2⟩ | ⟨b, h1, h2⟩
    · simp [h2, hexRun_nil, skipHexGo, h1]
    · rw [h2, hexRun_cons, isHexC_eq]
      by_cases hb : isHexDigit b = true
      · simp only [skipHexGo, h1, hb, if_true, Bool.true_and]
        rw [ih (p + 1)]
        have : (skipHexGo s n (p + 1) = p + 1 + n) ↔ (skipHexGo s n (p + 1) = p + (n + 1)) := by omega
        simp [this]
      · simp [skipHexGo, h1, hb]

theorem skipUnicode_hexRun {s : Src} (hs : AsciiThenBoundary s) (p len : Nat) (hp : Bnd s p) :
    match skipUnicodeEscapeSequence s p len with
    | .ok _ q => q = p + len ∧ p + len ≤ s.size ∧ hexRun len (rest s p) = true
    | .err _ _ => hexRun len (rest s p) = false
    | .panic _ => False
    | .fuel => False := by
  have hgood := skipUnicodeEscapeSequence_good hs p len hp
  have hb := skipHexGo_bounds s len p
  have hsz := (skipHexGo_after s len p).le_size hp.le
  have hrun := hexRun_eq_skipHexGo s len p
  unfold skipUnicodeEscapeSequence at hgood ⊢
  simp only [] at hgood ⊢
  by_cases hc : skipHexGo s len p - p = len
  · have : (skipHexGo s len p - p != len) = false := by simp [hc]
    simp only [this, Bool.false_eq_true, if_false]
    have e : skipHexGo s len p = p + len := by omega
    exact ⟨e, by omega, by simp [hrun, e]⟩
  · have : (skipHexGo s len p - p != len) = true := by simp [hc]
    simp only [this, if_true] at hgood ⊢
    have e : ¬ skipHexGo s len p = p + len := by omega
    generalize (if skipHexGo s len p ≥ s.size then skipHexGo s len p else nextBoundary s (skipHexGo s len p + 1)) = stop
      at hgood ⊢
    rcases hsl : slice s p stop with _ | seq
    · rw [hsl] at hgood; exact hgood.elim
    · simp only [hsl]
      simp [hrun, e]

/-- lock-step invariant between the string scanner and `quoted_char*` -/
def Lock (s : Src) (n p : Nat) (r : R Unit) : Prop :=
  match r with
  | .ok _ q => p ≤ q ∧ q ≤ s.size ∧ (s[q]? = none ∨ s[q]? = some 34) ∧
      quotedChars n (rest s p) = (seg s p q, rest s q)
  | .err _ _ => ∀ r', (quotedChars n (rest s p)).2 ≠ 34 :: r'
  | .panic _ => False
  | .fuel => False

theorem lock_step {s : Src} {n p p2 : Nat} {r : R Unit} (h : Lock s n p2 r)
    (hq : quotedChar (rest s p) = some (seg s p p2, rest s p2)) (h12 : p ≤ p2) : Lock s (n + 1) p r := by
  cases r with
  | ok u q =>
    obtain ⟨a1, a2, a3, a4⟩ := h
    refine ⟨by omega, a2, a3, ?_⟩
    simp only [quotedChars, hq, a4]
    rw [seg_append h12 a1]
  | err e q =>
    intro r'
    have := h r'
    simp only [quotedChars, hq]
    exact this
  | panic m => exact h
  | fuel => exact h

theorem lock_stop_ok {s : Src} {n p : Nat} (hp : p ≤ s.size) (hq : quotedChar (rest s p) = none)
    (h : s[p]? = none ∨ s[p]? = some 34) : Lock s (n + 1) p (.ok () p) := by
  refine ⟨Nat.le_refl _, hp, h, ?_⟩
  simp [quotedChars, hq, seg_self]

theorem lock_stop_err {s : Src} {n p : Nat} {e : PErr} {q : Nat} (hq : quotedChar (rest s p) = none)
    (h : s[p]? ≠ some 34) : Lock s (n + 1) p (.err e q) := by
  intro r'
  simp only [quotedChars, hq]
  intro hr
  rcases rest_cases s p with ⟨g1, g2⟩ | ⟨b, g1, g2⟩
  · rw [g2] at hr; cases hr
  · rw [g2] at hr; injection hr with hb _; subst hb; exact h g1

theorem quotedChar_plain {b : UInt8} (r : List UInt8) (h1 : b ≠ 92) (h2 : b ≠ 34) (h3 : b ≠ 10) (h4 : b ≠ 13) :
    quotedChar (b :: r) = some ([b], r) := by
  unfold quotedChar
  split <;> simp_all

theorem quotedChar_cr_other {c : UInt8} (r : List UInt8) (h : c ≠ 10) :
    quotedChar (13 :: c :: r) = some ([13], c :: r) := by
  unfold quotedChar
  split <;> simp_all

theorem quotedChar_bs_other {c : UInt8} (r : List UInt8) (h1 : c ≠ 92) (h2 : c ≠ 34) (h3 : c ≠ 117) (h4 : c ≠ 85) :
    quotedChar (92 :: c :: r) = none := by
  unfold quotedChar
  split <;> simp_all

theorem seg_two {s : Src} {p : Nat} {a b : UInt8} (h1 : s[p]? = some a) (h2 : s[p + 1]? = some b) :
    seg s p (p + 2) = [a, b] := by
  rw [seg_cons h1 (by omega), seg_cons h2 (by omega), seg_self]

theorem seg_one {s : Src} {p : Nat} {a : UInt8} (h1 : s[p]? = some a) : seg s p (p + 1) = [a] := by
  rw [seg_cons h1 (by omega), seg_self]

theorem rest_drop (s : Src) (p k : Nat) : (rest s p).drop k = rest s (p + k) := by
  simp [rest, List.drop_drop]

theorem seg_take (s : Src) (p k : Nat) : (rest s p).take k = seg s p (p + k) := by
  simp [seg]

theorem scanStringGo_lock {s : Src} (hs : AsciiThenBoundary s) (n p : Nat) (hn : s.size - p ≤ n) (hp : p ≤ s.size) :
    Lock s n p (scanStringGo s n p) := by
  induction n generalizing p with
  | zero =>
    have hnone : s[p]? = none := by simp; omega
    refine ⟨Nat.le_refl _, hp, Or.inl hnone, ?_⟩
    simp [quotedChars, seg_self]
  | succ n ih =>
    rcases rest_cases s p with ⟨h1, h2⟩ | ⟨b, h1, h2⟩
    · simp only [scanStringGo, h1]
      exact lock_stop_ok hp (by simp [h2, quotedChar]) (Or.inl h1)
    · have hlt := get_lt h1
      by_cases hb : b = 92
      · subst hb
        rcases rest_cases s (p + 1) with ⟨g1, g2⟩ | ⟨c, g1, g2⟩
        · simp only [scanStringGo, h1, g1]
          exact lock_stop_err (by simp [h2, g2, quotedChar]) (by simp [h1])
        · have hlt2 := get_lt g1
          by_cases hc1 : c = 92
          · subst hc1
            simp only [scanStringGo, h1, g1]
            refine lock_step (ih (p + 2) (by omega) (by omega)) ?_ (by omega)
            rw [h2, g2, seg_two h1 g1]; simp [quotedChar]
          · by_cases hc2 : c = 34
            · subst hc2
              simp only [scanStringGo, h1, g1]
              refine lock_step (ih (p + 2) (by omega) (by omega)) ?_ (by omega)
              rw [h2, g2, seg_two h1 g1]; simp [quotedChar]
            · by_cases hc3 : c = 117
              · subst hc3
                have hb2 : Bnd s (p + 2) := bnd_succ hs g1 (by decide)
                have hu := skipUnicode_hexRun hs (p + 2) 4 hb2
                simp only [scanStringGo, h1, g1]
                rcases hr : skipUnicodeEscapeSequence s (p + 2) 4 with ⟨_, q⟩ | ⟨e, q⟩ | m | _
                · rw [hr] at hu
                  obtain ⟨e1, e2, e3⟩ := hu
                  subst e1
                  simp only
                  refine lock_step (ih (p + 2 + 4) (by omega) (by omega)) ?_ (by omega)
                  rw [h2, g2]
                  have : quotedChar (92 :: 117 :: rest s (p + 1 + 1)) =
                      some (92 :: 117 :: (rest s (p + 1 + 1)).take 4, (rest s (p + 1 + 1)).drop 4) := by
                    simp [quotedChar, e3]
                  rw [this, rest_drop, seg_take,
                    seg_append (s := s) (p := p) (q := p + 2) (r := p + 2 + 4) (by omega) (by omega), seg_two h1 g1]
                  rfl
                · rw [hr] at hu
                  simp only
                  exact lock_stop_err (by rw [h2, g2]; simp [quotedChar, hu]) (by simp [h1])
                · rw [hr] at hu; exact hu.elim
                · rw [hr] at hu; exact hu.elim
              · by_cases hc4 : c = 85
                · subst hc4
                  have hb2 : Bnd s (p + 2) := bnd_succ hs g1 (by decide)
                  have hu := skipUnicode_hexRun hs (p + 2) 6 hb2
                  simp only [scanStringGo, h1, g1]
                  rcases hr : skipUnicodeEscapeSequence s (p + 2) 6 with ⟨_, q⟩ | ⟨e, q⟩ | m | _
                  · rw [hr] at hu
                    obtain ⟨e1, e2, e3⟩ := hu
                    subst e1
                    simp only
                    refine lock_step (ih (p + 2 + 6) (by omega) (by omega)) ?_ (by omega)
                    rw [h2, g2]
                    have : quotedChar (92 :: 85 :: rest s (p + 1 + 1)) =
                        some (92 :: 85 :: (rest s (p + 1 + 1)).take 6, (rest s (p + 1 + 1)).drop 6) := by
                      simp [quotedChar, e3]
                    rw [this, rest_drop, seg_take,
                      seg_append (s := s) (p := p) (q := p + 2) (r := p + 2 + 6) (by omega) (by omega), seg_two h1 g1]
                    rfl
                  · rw [hr] at hu
                    simp only
                    exact lock_stop_err (by rw [h2, g2]; simp [quotedChar, hu]) (by simp [h1])
                  · rw [hr] at hu; exact hu.elim
                  · rw [hr] at hu; exact hu.elim
                · have hq : quotedChar (rest s p) = none := by
                    rw [h2, g2]; exact quotedChar_bs_other _ hc1 hc2 hc3 hc4
                  have : scanStringGo s (n + 1) p = .err (mkErr (.unknownEscapeSequence (some c)) p) p := by
                    simp only [scanStringGo, h1, g1]
                    split <;> simp_all
                  rw [this]
                  exact lock_stop_err hq (by simp [h1])
      · by_cases hq34 : b = 34
        · subst hq34
          simp only [scanStringGo, h1]
          exact lock_stop_ok hp (by simp [h2, quotedChar]) (Or.inr h1)
        · by_cases hnl : b = 10
          · subst hnl
            simp only [scanStringGo, h1]
            exact lock_stop_err (by simp [h2, quotedChar]) (by simp [h1])
          · have hgo : scanStringGo s (n + 1) p = scanStringGo s n (p + 1) := by
              simp only [scanStringGo, h1]
              try (split <;> simp_all)
            rw [hgo]
            by_cases hcr : b = 13
            · subst hcr
              rcases rest_cases s (p + 1) with ⟨g1, g2⟩ | ⟨c, g1, g2⟩
              · refine lock_step (ih (p + 1) (by omega) (by omega)) ?_ (by omega)
                rw [h2, g2, seg_one h1]; simp [quotedChar]
              · by_cases hc : c = 10
                · subst hc
                  have hlt2 := get_lt g1
                  have : ∃ e q, scanStringGo s n (p + 1) = .err e q := by
                    cases n with
                    | zero => omega
                    | succ n' => exact ⟨mkErr .unterminatedStringLiteral (p + 1), p + 1, by simp [scanStringGo, g1]⟩
                  obtain ⟨e, q, he⟩ := this
                  rw [he]
                  exact lock_stop_err (by rw [h2, g2]; simp [quotedChar]) (by simp [h1])
                · refine lock_step (ih (p + 1) (by omega) (by omega)) ?_ (by omega)
                  rw [h2, g2, seg_one h1, quotedChar_cr_other _ hc]
            · refine lock_step (ih (p + 1) (by omega) (by omega)) ?_ (by omega)
              rw [h2, seg_one h1, quotedChar_plain _ hb hq34 hnl hcr]

/-- T1/T2: the string-literal scanner of `get_inline_expression` (`scan` from after the opening
quote, then `expect_byte('"')`) accepts exactly the grammar's `StringLiteral` — the same escape set
`\\ \" \uXXXX \UXXXXXX`, no raw line end — with the same raw value `s[p+1..q)`. -/
theorem stringLiteral_eq_scanString {s : Src} (hs : AsciiThenBoundary s) (p : Nat) (h : s[p]? = some 34) :
    match scanString s (p + 1) with
    | .ok _ q =>
      (s[q]? = some 34 ∧ stringLiteral (rest s p) = some (seg s (p + 1) q, rest s (q + 1))) ∨
      (s[q]? = none ∧ stringLiteral (rest s p) = none)
    | .err _ _ => stringLiteral (rest s p) = none
    | .panic _ => False
    | .fuel => False := by
  have hlt := get_lt h
  have hl := scanStringGo_lock hs (s.size - (p + 1)) (p + 1) (Nat.le_refl _) (by omega)
  have hlen : (rest s (p + 1)).length = s.size - (p + 1) := by simp [rest]
  unfold scanString
  rcases hr : scanStringGo s (s.size - (p + 1)) (p + 1) with ⟨_, q⟩ | ⟨e, q⟩ | m | _
  · rw [hr] at hl
    obtain ⟨a1, a2, a3, a4⟩ := hl
    simp only
    rcases a3 with a3 | a3
    · right
      refine ⟨a3, ?_⟩
      rw [rest_cons h]
      simp only [stringLiteral, hlen, a4, rest_nil a3]
    · left
      refine ⟨a3, ?_⟩
      rw [rest_cons h]
      simp only [stringLiteral, hlen, a4, rest_cons a3]
  · rw [hr] at hl
    simp only
    rw [rest_cons h]
    simp only [stringLiteral, hlen]
    have := hl
    unfold Lock at this
    simp only at this
    split
    · rename_i r'' heq
      exact absurd heq (this r'')
    · rfl
  · rw [hr] at hl; exact hl.elim
  · rw [hr] at hl; exact hl.elim


/-! ## VariantKey: the ordered choice `NumberLiteral | Identifier` is decided by the first byte -/

theorem numStart_not_alpha : ∀ b : UInt8, (isDigit b || b == 45) = true → isAlpha b = false := by
  apply forall_uint8; decide +kernel

/-- T1: `get_variant_key` looks at one byte (`is_number_start`) to choose between a number and an
identifier key; the grammar tries `NumberLiteral` first and `Identifier` second.  The two agree because
the rules exclude each other on the first byte. -/
theorem variantKey_choice (s : Src) (p : Nat) :
    (isNumberStart s p = true → identifier (rest s p) = none) ∧
    (isNumberStart s p = false → numberLiteral (rest s p) = none) := by
  rcases rest_cases s p with ⟨h1, h2⟩ | ⟨b, h1, h2⟩
  · simp [isNumberStart, h1, h2, identifier, numberLiteral, numberAfterSign, digits]
  · constructor
    · intro h
      have hb : (isDigit b || b == 45) = true := by simpa [isNumberStart, h1] using h
      have hna : isAlpha b = false := numStart_not_alpha b hb
      simp [h2, identifier, isAlphaC_eq, hna]
    · intro h
      have hb : (isDigit b || b == 45) = false := by simpa [isNumberStart, h1] using h
      have hd : isDigit b = false := by
        cases hx : isDigit b <;> simp_all
      have h45 : b ≠ 45 := by
        intro hx; subst hx; simp at hb
      rw [h2, numberLiteral_no_sign _ (by intro r hr; injection hr with hx _; exact h45 hx)]
      simp [numberAfterSign, digits, isDigitC_eq, hd]


/-! ## inline_text: `text_char+` -/

theorem textRun_special {b : UInt8} (r : List UInt8) (h : b = 10 ∨ b = 123 ∨ b = 125) :
    textRun (b :: r) = ([], b :: r) := by
  rcases h with rfl | rfl | rfl <;> simp [textRun]

theorem textRun_crlf (r : List UInt8) : textRun (13 :: 10 :: r) = ([], 13 :: 10 :: r) := by
  simp [textRun]

theorem textRun_cr_eof : textRun [13] = ([13], []) := by
  simp [textRun]

theorem textRun_cr_other {c : UInt8} (r : List UInt8) (h : c ≠ 10) :
    textRun (13 :: c :: r) = (13 :: (textRun (c :: r)).1, (textRun (c :: r)).2) := by
  conv => lhs; unfold textRun
  split
  · rename_i heq; simp at heq; exact absurd heq.1 h
  · rename_i heq; simp at heq; obtain ⟨rfl, rfl⟩ := heq; simp
  · rename_i heq; simp at heq

theorem textRun_plain {b : UInt8} (r : List UInt8) (h1 : b ≠ 10) (h2 : b ≠ 123) (h3 : b ≠ 125) (h4 : b ≠ 13) :
    textRun (b :: r) = (b :: (textRun r).1, (textRun r).2) := by
  conv => lhs; unfold textRun
  split <;> simp_all

/-- where the run of text chars ends, given the first special byte `e` found by `memchr3` -/
def textEnd (s : Src) (p e : Nat) : Nat :=
  if s[e]? = some 10 ∧ p < e ∧ s[e - 1]? = some 13 then e - 1 else e

theorem textRun_memchr3Go (s : Src) (n p : Nat) (hn : s.size - p ≤ n) :
    match memchr3Go s n p with
    | some e => p ≤ e ∧ e < s.size ∧ (s[e]? = some 10 ∨ s[e]? = some 123 ∨ s[e]? = some 125) ∧
        textRun (rest s p) = (seg s p (textEnd s p e), rest s (textEnd s p e))
    | none => textRun (rest s p) = (seg s p s.size, []) := by
  induction n generalizing p with
  | zero =>
    have : rest s p = [] := rest_eq_nil_iff.mpr (by omega)
    have hs : seg s p s.size = [] := by unfold seg; rw [this]; simp
    simp [memchr3Go, this, textRun, hs]
  | succ n ih =>
    rcases rest_cases s p with ⟨h1, h2⟩ | ⟨b, h1, h2⟩
    · have hs : seg s p s.size = [] := by unfold seg; rw [h2]; simp
      simp [memchr3Go, h1, h2, textRun, hs]
    · have hlt := get_lt h1
      by_cases hsp : b = 10 ∨ b = 123 ∨ b = 125
      · have hc : (b == 10 || b == 123 || b == 125) = true := by
          rcases hsp with rfl | rfl | rfl <;> decide
        simp only [memchr3Go, h1, hc, if_true]
        refine ⟨Nat.le_refl _, hlt, ?_, ?_⟩
        · rcases hsp with rfl | rfl | rfl <;> simp [h1]
        · have : textEnd s p p = p := by simp [textEnd]
          rw [this, seg_self, h2, textRun_special _ hsp]
      · have hb10 : b ≠ 10 := fun h => hsp (Or.inl h)
        have hb123 : b ≠ 123 := fun h => hsp (Or.inr (Or.inl h))
        have hb125 : b ≠ 125 := fun h => hsp (Or.inr (Or.inr h))
        have hc : (b == 10 || b == 123 || b == 125) = false := by simp [hb10, hb123, hb125]
        simp only [memchr3Go, h1, hc, Bool.false_eq_true, if_false]
        by_cases hcrlf : b = 13 ∧ s[p + 1]? = some 10
        · obtain ⟨rfl, g1⟩ := hcrlf
          have hlt2 := get_lt g1
          cases n with
          | zero => omega
          | succ n' =>
            simp only [memchr3Go, g1]
            refine ⟨by omega, hlt2, Or.inl g1, ?_⟩
            have : textEnd s p (p + 1) = p := by simp [textEnd, g1, h1]
            rw [this, seg_self, h2, rest_cons g1, textRun_crlf]
        · -- the text run continues over `b`
          have htr : textRun (rest s p) = (b :: (textRun (rest s (p + 1))).1, (textRun (rest s (p + 1))).2) := by
            rw [h2]
            by_cases h13 : b = 13
            · subst h13
              rcases rest_cases s (p + 1) with ⟨g1, g2⟩ | ⟨c, g1, g2⟩
              · rw [g2, textRun_cr_eof]; simp [textRun]
              · have hc10 : c ≠ 10 := by intro h; subst h; exact hcrlf ⟨rfl, g1⟩
                rw [g2, textRun_cr_other _ hc10]
            · exact textRun_plain _ hb10 hb123 hb125 h13
          have hi := ih (p + 1) (by omega)
          rcases hm : memchr3Go s n (p + 1) with _ | e
          · rw [hm] at hi
            simp only at hi ⊢
            rw [htr, hi, seg_cons h1 (by omega)]
          · rw [hm] at hi
            simp only at hi ⊢
            obtain ⟨a1, a2, a3, a4⟩ := hi
            have hte : textEnd s p e = textEnd s (p + 1) e := by
              unfold textEnd
              by_cases he : e = p + 1
              · subst he
                have : ¬ (s[p + 1]? = some 10 ∧ s[p]? = some 13) := by
                  rintro ⟨x1, x3⟩
                  rw [h1] at x3
                  injection x3 with x3
                  exact hcrlf ⟨x3, x1⟩
                simp
                intro x1 x3
                exact this ⟨x1, x3⟩
              · have : (p < e) = (p + 1 < e) := by apply propext; omega
                simp [this]
            have hge : p + 1 ≤ textEnd s (p + 1) e := by
              unfold textEnd; split <;> omega
            refine ⟨by omega, a2, a3, ?_⟩
            rw [htr, a4, hte, seg_cons h1 (by omega)]


/-- the end of the grammar's text run inside the slice `get_text_slice` returns: a line-feed slice carries
its `\n` -/
def textStop (term : Termination) (stop : Nat) : Nat :=
  match term with
  | .lineFeed => stop - 1
  | _ => stop

/-- T1: `get_text_slice` versus `inline_text ::= text_char+`: the slice starts at the cursor and covers
exactly the grammar's run of text chars (plus the `\n` itself for a line-feed termination); the four
terminations are the four things that can follow a run: `\n`, `\r\n`, `{`, end of input; `}` is the error. -/
theorem textRun_eq_getTextSlice (s : Src) (p : Nat) (hp : p ≤ s.size) :
    match getTextSlice s p with
    | .ok (start, stop, _, term) q => start = p ∧
        textRun (rest s p) = (seg s p (textStop term stop), rest s (textStop term stop)) ∧
        (match term with
         | .lineFeed => s[stop - 1]? = some 10 ∧ q = stop ∧ p < stop
         | .crlf => s[stop]? = some 13 ∧ s[stop + 1]? = some 10 ∧ q = stop + 1
         | .placeableStart => s[stop]? = some 123 ∧ q = stop
         | .eof => stop = s.size ∧ q = s.size)
    | .err _ q => s[q]? = some 125 ∧ textRun (rest s p) = (seg s p q, rest s q)
    | .panic _ => False
    | .fuel => False := by
  unfold getTextSlice
  have hng : ¬ p > s.size := by omega
  simp only [hng, if_false]
  have hm := textRun_memchr3Go s (s.size - p) p (Nat.le_refl _)
  unfold memchr3
  rcases hme : memchr3Go s (s.size - p) p with _ | e
  · rw [hme] at hm
    simp only at hm ⊢
    have : rest s s.size = [] := rest_eq_nil_iff.mpr (Nat.le_refl _)
    simp [textStop, hm, this]
  · rw [hme] at hm
    obtain ⟨a1, a2, a3, a4⟩ := hm
    simp only
    rcases a3 with a3 | a3 | a3
    · simp only [a3]
      by_cases hcr : e > p ∧ s[e - 1]? = some 13
      · have hc : (e > p ∧ (s[e - 1]? == some (13 : UInt8)) = true) := ⟨hcr.1, by simp [hcr.2]⟩
        simp only [hc, and_self, if_true]
        have hte : textEnd s p e = e - 1 := by simp [textEnd, a3, hcr.1, hcr.2]
        have he1 : e - 1 + 1 = e := by omega
        simp [textStop, a4, hte, hcr.2, he1, a3]
      · have hc : ¬ (e > p ∧ (s[e - 1]? == some (13 : UInt8)) = true) := by
          intro h; exact hcr ⟨h.1, by simpa using h.2⟩
        simp only [hc, if_false]
        have hte : textEnd s p e = e := by
          unfold textEnd
          have : ¬ (s[e]? = some 10 ∧ p < e ∧ s[e - 1]? = some 13) := fun h => hcr ⟨h.2.1, h.2.2⟩
          simp [this]
        have hp1 : p < e + 1 := by omega
        simp [textStop, a4, hte, a3, hp1]
    · simp only [a3]
      have hte : textEnd s p e = e := by simp [textEnd, a3]
      simp [textStop, a4, hte, a3]
    · simp only [a3]
      have hte : textEnd s p e = e := by simp [textEnd, a3]
      simp [a4, hte, a3]


/-! ## callee rule -/

theorem isCalleeC_eq : ∀ c : UInt8, isCalleeC c = (isUpper c || isDigit c || c == 95 || c == 45) := by
  apply forall_uint8; decide +kernel

theorem alpha_callee : ∀ b : UInt8, isAlpha b = true → (isUpper b || isDigit b || b == 95 || b == 45) = isUpperC b := by
  apply forall_uint8; decide +kernel

/-- T2: on an identifier (first byte a letter) Rust's `is_callee` (every byte in `[A-Z0-9_-]`) is the
grammar's callee rule `[A-Z][A-Z0-9_-]*` -/
theorem calleeOk_eq_isCallee (s : Src) (sp : Span) (b : UInt8) (r : List UInt8)
    (h : spanBytes s sp = b :: r) (hb : isAlpha b = true) :
    calleeOk (spanBytes s sp) = isCallee s sp := by
  unfold isCallee
  rw [h]
  have hfun : isCalleeC = fun c => isUpper c || isDigit c || c == 95 || c == 45 := funext isCalleeC_eq
  simp only [calleeOk, List.all_cons, alpha_callee b hb, hfun]

end FluentProofs.SpecLex
