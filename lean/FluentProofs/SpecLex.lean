import FluentModel.SpecGrammar
import FluentModel.JoinText
import FluentProofs.ParserBasics
/-!
# Lexical layer: the parser model's scanners versus the grammar's lexical rules (C02, T1)

The parser model works on `s : Src` with a cursor `p`; the grammar (`SpecGrammar`) on the remaining
input.  `rest s p` is the bridge: the bytes of `s` from `p` on.
-/
namespace FluentProofs.SpecLex
open FluentModel FluentModel.Syntax FluentModel.SpecGrammar FluentProofs.Parser

/-- the input that remains at cursor `p` -/
def rest (s : Src) (p : Nat) : List UInt8 := s.toList.drop p

theorem rest_cons {s : Src} {p : Nat} {b : UInt8} (h : s[p]? = some b) : rest s p = b :: rest s (p + 1) := by
  have hlt := get_lt h
  have hb : s[p] = b := by
    have := Array.getElem?_eq_some_iff.mp h
    exact this.2
  unfold rest
  rw [List.drop_eq_getElem_cons (by simpa using hlt)]
  simp [hb]

theorem rest_nil {s : Src} {p : Nat} (h : s[p]? = none) : rest s p = [] := by
  have : s.size ≤ p := by simpa using h
  unfold rest
  exact List.drop_eq_nil_of_le (by simpa using this)

theorem rest_eq_nil_iff {s : Src} {p : Nat} : rest s p = [] ↔ s.size ≤ p := by
  unfold rest; simp

theorem rest_cases (s : Src) (p : Nat) :
    (s[p]? = none ∧ rest s p = []) ∨ (∃ b, s[p]? = some b ∧ rest s p = b :: rest s (p + 1)) := by
  cases h : s[p]? with
  | none => exact Or.inl ⟨rfl, rest_nil h⟩
  | some b => exact Or.inr ⟨b, rfl, rest_cons h⟩


/-! ## blank_inline -/

theorem spaces_cons_ne {b : UInt8} (r : List UInt8) (h : b ≠ 32) : spaces (b :: r) = b :: r := by
  unfold spaces
  split
  · rename_i heq; simp at heq; exact absurd heq.1 h
  · rfl

theorem spaces_skipBlankInlineGo (s : Src) (n p : Nat) (hn : s.size - p ≤ n) :
    spaces (rest s p) = rest s (skipBlankInlineGo s n p) := by
  induction n generalizing p with
  | zero =>
    have : rest s p = [] := rest_eq_nil_iff.mpr (by omega)
    simp [skipBlankInlineGo, this, spaces]
  | succ n ih =>
    simp only [skipBlankInlineGo]
    rcases rest_cases s p with ⟨h1, h2⟩ | ⟨b, h1, h2⟩
    · simp [h1, h2, spaces]
    · by_cases hb : b = 32
      · subst hb
        simp only [h1, h2, beq_self_eq_true, if_true]
        rw [show spaces (32 :: rest s (p + 1)) = spaces (rest s (p + 1)) by simp [spaces]]
        exact ih (p + 1) (by omega)
      · have : (s[p]? == some (32 : UInt8)) = false := by simp [h1, hb]
        simp only [this]
        simp only [Bool.false_eq_true, if_false]
        rw [h2, spaces_cons_ne _ hb]

/-- T1: `blank_inline?` is `skip_blank_inline` -/
theorem spaces_eq_skipBlankInline (s : Src) (p : Nat) :
    spaces (rest s p) = rest s (skipBlankInline s p) :=
  spaces_skipBlankInlineGo s _ p (Nat.le_refl _)


/-! ## line_end -/

theorem lineEnd_other {b : UInt8} (r : List UInt8) (h1 : b ≠ 10) (h2 : b ≠ 13) : lineEnd (b :: r) = none := by
  unfold lineEnd
  split <;> simp_all

theorem lineEnd_cr_other {b : UInt8} (r : List UInt8) (h1 : b ≠ 10) : lineEnd (13 :: b :: r) = none := by
  unfold lineEnd
  split <;> simp_all

theorem lineEnd_cr_eof : lineEnd [13] = none := by decide

/-- T1: `line_end` is `skip_eol`, except that the grammar also accepts `EOF` -/
theorem lineEnd_eq_skipEol (s : Src) (p : Nat) :
    lineEnd (rest s p) =
      (match skipEol s p with
       | some q => some (rest s q)
       | none => if s.size ≤ p then some [] else none) := by
  rcases rest_cases s p with ⟨h1, h2⟩ | ⟨b, h1, h2⟩
  · have : s.size ≤ p := by simpa using h1
    simp [skipEol, h1, h2, lineEnd, this]
  · have hlt : ¬ s.size ≤ p := by have := get_lt h1; omega
    by_cases hb : b = 10
    · subst hb
      simp [skipEol, h1, h2, lineEnd]
    · by_cases hc : b = 13
      · subst hc
        rcases rest_cases s (p + 1) with ⟨g1, g2⟩ | ⟨c, g1, g2⟩
        · simp [skipEol, h1, h2, g1, g2, lineEnd_cr_eof, hlt]
        · by_cases hd : c = 10
          · subst hd
            simp [skipEol, h1, h2, g1, g2, lineEnd]
          · simp [skipEol, h1, h2, g1, g2, lineEnd_cr_other _ hd, hd, hlt]
      · rw [h2, lineEnd_other _ hb hc]
        unfold skipEol
        rw [h1]
        split <;> simp_all


/-! ## blank -/

theorem blankOpt_other {b : UInt8} (r : List UInt8) (h1 : b ≠ 32) (h2 : b ≠ 10) (h3 : b ≠ 13) :
    blankOpt (b :: r) = b :: r := by
  unfold blankOpt
  split <;> simp_all

theorem blankOpt_cr_other {b : UInt8} (r : List UInt8) (h1 : b ≠ 10) : blankOpt (13 :: b :: r) = 13 :: b :: r := by
  unfold blankOpt
  split <;> simp_all

theorem blankOpt_cr_eof : blankOpt [13] = [13] := by
  unfold blankOpt
  split <;> simp_all

theorem blankOpt_skipBlankGo (s : Src) (n p : Nat) (hn : s.size - p ≤ n) :
    blankOpt (rest s p) = rest s (skipBlankGo s n p) := by
  induction n generalizing p with
  | zero =>
    have : rest s p = [] := rest_eq_nil_iff.mpr (by omega)
    simp [skipBlankGo, this, blankOpt]
  | succ n ih =>
    rcases rest_cases s p with ⟨h1, h2⟩ | ⟨b, h1, h2⟩
    · simp [skipBlankGo, h1, h2, blankOpt]
    · by_cases hb : b = 32
      · subst hb
        simp only [skipBlankGo, h1, h2]
        rw [show blankOpt (32 :: rest s (p + 1)) = blankOpt (rest s (p + 1)) by simp [blankOpt]]
        exact ih (p + 1) (by omega)
      · by_cases hc : b = 10
        · subst hc
          simp only [skipBlankGo, h1, h2]
          rw [show blankOpt (10 :: rest s (p + 1)) = blankOpt (rest s (p + 1)) by simp [blankOpt]]
          exact ih (p + 1) (by omega)
        · by_cases hd : b = 13
          · subst hd
            rcases rest_cases s (p + 1) with ⟨g1, g2⟩ | ⟨c, g1, g2⟩
            · simp [skipBlankGo, h1, h2, g1, g2, blankOpt_cr_eof]
            · by_cases he : c = 10
              · subst he
                simp only [skipBlankGo, h1, h2, g1, g2, beq_self_eq_true, if_true]
                rw [show blankOpt (13 :: 10 :: rest s (p + 1 + 1)) = blankOpt (rest s (p + 2)) by simp [blankOpt]]
                exact ih (p + 2) (by omega)
              · have : (s[p + 1]? == some (10 : UInt8)) = false := by simp [g1, he]
                simp only [skipBlankGo, h1, this]
                simp only [Bool.false_eq_true, if_false]
                rw [h2, g2, blankOpt_cr_other _ he]
          · rw [h2, blankOpt_other _ hb hc hd]
            unfold skipBlankGo
            rw [h1]
            split <;> simp_all

/-- T1: `blank?` is `skip_blank` -/
theorem blankOpt_eq_skipBlank (s : Src) (p : Nat) : blankOpt (rest s p) = rest s (skipBlank s p) :=
  blankOpt_skipBlankGo s _ p (Nat.le_refl _)


/-! ## blank_block -/

theorem skipBlankInlineGo_stop (s : Src) (n p : Nat) (hn : s.size - p ≤ n) :
    s[skipBlankInlineGo s n p]? ≠ some 32 := by
  induction n generalizing p with
  | zero =>
    have : s[p]? = none := by simp; omega
    simp [skipBlankInlineGo, this]
  | succ n ih =>
    simp only [skipBlankInlineGo]
    split
    · exact ih (p + 1) (by omega)
    · rename_i h; simpa using h

theorem skipBlankInline_stop (s : Src) (p : Nat) : s[skipBlankInline s p]? ≠ some 32 :=
  skipBlankInlineGo_stop s _ p (Nat.le_refl _)

theorem scan_other {b : UInt8} (r ls : List UInt8) (c : Nat) (h1 : b ≠ 32) (h2 : b ≠ 10) (h3 : b ≠ 13) :
    blankBlockScan (b :: r) ls c = if c == 0 then none else some (c, ls) := by
  unfold blankBlockScan
  split <;> simp_all

theorem scan_cr_other {b : UInt8} (r ls : List UInt8) (c : Nat) (h1 : b ≠ 10) :
    blankBlockScan (13 :: b :: r) ls c = if c == 0 then none else some (c, ls) := by
  unfold blankBlockScan
  split <;> simp_all

theorem scan_cr_eof (ls : List UInt8) (c : Nat) :
    blankBlockScan [13] ls c = if c == 0 then none else some (c, ls) := by
  unfold blankBlockScan
  split <;> simp_all

theorem scan_spaces_go (s : Src) (ls : List UInt8) (c n p : Nat) (hn : s.size - p ≤ n) :
    blankBlockScan (rest s p) ls c = blankBlockScan (rest s (skipBlankInlineGo s n p)) ls c := by
  induction n generalizing p with
  | zero => simp [skipBlankInlineGo]
  | succ n ih =>
    simp only [skipBlankInlineGo]
    split
    · rename_i h
      have h : s[p]? = some 32 := by simpa using h
      rw [rest_cons h, show blankBlockScan (32 :: rest s (p + 1)) ls c = blankBlockScan (rest s (p + 1)) ls c by
        simp [blankBlockScan]]
      exact ih (p + 1) (by omega)
    · rfl

/-- one line of the scan, from a position that is not a space -/
theorem scan_line (s : Src) (ls : List UInt8) (c p : Nat) (hp : s[p]? ≠ some 32) :
    blankBlockScan (rest s p) ls c =
      (match skipEol s p with
       | some q => blankBlockScan (rest s q) (rest s q) (c + 1)
       | none => if s.size ≤ p then some (c, []) else if c == 0 then none else some (c, ls)) := by
  rcases rest_cases s p with ⟨h1, h2⟩ | ⟨b, h1, h2⟩
  · have : s.size ≤ p := by simpa using h1
    simp [skipEol, h1, h2, blankBlockScan, this]
  · have hlt : ¬ s.size ≤ p := by have := get_lt h1; omega
    have hb32 : b ≠ 32 := by intro h; subst h; exact hp h1
    by_cases hb : b = 10
    · subst hb
      simp [skipEol, h1, h2, blankBlockScan]
    · by_cases hc : b = 13
      · subst hc
        rcases rest_cases s (p + 1) with ⟨g1, g2⟩ | ⟨d, g1, g2⟩
        · simp [skipEol, h1, h2, g1, g2, scan_cr_eof, hlt]
        · by_cases hd : d = 10
          · subst hd
            simp [skipEol, h1, h2, g1, g2, blankBlockScan]
          · simp [skipEol, h1, h2, g1, g2, scan_cr_other _ _ _ hd, hd, hlt]
      · rw [h2, scan_other _ _ _ hb32 hb hc]
        unfold skipEol
        rw [h1]
        split <;> simp_all

theorem blankBlockScan_skipBlankBlockGo (s : Src) (n p c : Nat) (hn : s.size - p + 1 ≤ n) (hp : p ≤ s.size) :
    blankBlockScan (rest s p) (rest s p) c =
      (let qc := skipBlankBlockGo s n p c
       if s.size ≤ skipBlankInline s qc.1 then some (qc.2, [])
       else if qc.2 == 0 then none else some (qc.2, rest s qc.1)) := by
  induction n generalizing p c with
  | zero => omega
  | succ n ih =>
    rw [scan_spaces_go s (rest s p) c (s.size - p) p (Nat.le_refl _)]
    change blankBlockScan (rest s (skipBlankInline s p)) (rest s p) c = _
    rw [scan_line s (rest s p) c _ (skipBlankInline_stop s p)]
    rcases h : skipEol s (skipBlankInline s p) with _ | q
    · simp [skipBlankBlockGo, h]
    · simp only [skipBlankBlockGo, h]
      have hq := skipEol_some h
      have hle := (skipBlankInline_after s p).le
      have hq2 : q ≤ s.size := ((skipBlankInline_after s p).trans (skipEol_after h)).le_size hp
      exact ih q (c + 1) (by omega) hq2

/-- T1: `blank_block` versus `skip_blank_block`.  With `(q, c) = skip_blank_block p`: when the line at
`q` has a non-blank character the grammar's blank block is the same `c` line breaks ending at `q`
(and fails when `c = 0`); when only spaces remain up to `EOF` the grammar's blank block also takes
those spaces (`blank_inline? EOF`), which `skip_blank_block` leaves in place. -/
theorem blankBlock_eq_skipBlankBlock (s : Src) (p : Nat) (hp : p ≤ s.size) :
    blankBlock (rest s p) =
      (let qc := skipBlankBlock s p
       if s.size ≤ skipBlankInline s qc.1 then some (qc.2, [])
       else if qc.2 == 0 then none else some (qc.2, rest s qc.1)) :=
  blankBlockScan_skipBlankBlockGo s _ p 0 (Nat.le_refl _) hp


/-! ## segments of the source, scanning loops -/

/-- the bytes of `s` in `[p, q)` -/
def seg (s : Src) (p q : Nat) : List UInt8 := (rest s p).take (q - p)

theorem spanBytes_eq_seg (s : Src) (p q : Nat) : spanBytes s ⟨p, q⟩ = seg s p q := by
  simp [spanBytes, seg, rest]

theorem seg_self (s : Src) (p : Nat) : seg s p p = [] := by simp [seg]

theorem seg_cons {s : Src} {p q : Nat} {b : UInt8} (h : s[p]? = some b) (hq : p < q) :
    seg s p q = b :: seg s (p + 1) q := by
  unfold seg
  rw [rest_cons h, show q - p = (q - (p + 1)) + 1 by omega, List.take_succ_cons]

theorem scanWhileGo_ge (s : Src) (pred : UInt8 → Bool) (n p : Nat) : p ≤ scanWhileGo s pred n p := by
  induction n generalizing p with
  | zero => simp [scanWhileGo]
  | succ n ih =>
    simp only [scanWhileGo]
    split
    · split
      · have := ih (p + 1); omega
      · omega
    · omega

theorem takeWhile_scanWhileGo (s : Src) (pred : UInt8 → Bool) (n p : Nat) (hn : s.size - p ≤ n) :
    (rest s p).takeWhile pred = seg s p (scanWhileGo s pred n p) ∧
    (rest s p).dropWhile pred = rest s (scanWhileGo s pred n p) := by
  induction n generalizing p with
  | zero =>
    have : rest s p = [] := rest_eq_nil_iff.mpr (by omega)
    simp [scanWhileGo, this, seg]
  | succ n ih =>
    rcases rest_cases s p with ⟨h1, h2⟩ | ⟨b, h1, h2⟩
    · simp [scanWhileGo, h1, h2, seg]
    · by_cases hb : pred b = true
      · have hge := scanWhileGo_ge s pred n (p + 1)
        have ⟨i1, i2⟩ := ih (p + 1) (by omega)
        simp only [scanWhileGo, h1, hb, if_true]
        rw [seg_cons h1 (by omega), h2, List.takeWhile_cons, List.dropWhile_cons]
        simp [hb, i1, i2]
      · simp only [scanWhileGo, h1, hb]
        rw [h2, List.takeWhile_cons, List.dropWhile_cons]
        simp [hb, seg_self, ← h2]

theorem takeWhile_scanWhile (s : Src) (pred : UInt8 → Bool) (p : Nat) :
    (rest s p).takeWhile pred = seg s p (scanWhile s pred p) ∧
    (rest s p).dropWhile pred = rest s (scanWhile s pred p) :=
  takeWhile_scanWhileGo s pred _ p (Nat.le_refl _)

/-! ## character classes coincide -/

theorem isAlphaC_eq : ∀ b : UInt8, isAlphaC b = isAlpha b := by
  apply forall_uint8; decide +kernel
theorem isDigitC_eq : ∀ b : UInt8, isDigitC b = isDigit b := by
  apply forall_uint8; decide +kernel
theorem isIdentC_eq : ∀ b : UInt8, isIdentC b = isIdentByte b := by
  apply forall_uint8; decide +kernel
theorem isHexC_eq : ∀ b : UInt8, isHexC b = isHexDigit b := by
  apply forall_uint8; decide +kernel
theorem isIdentC_fun : isIdentC = isIdentByte := funext isIdentC_eq
theorem isDigitC_fun : isDigitC = isDigit := funext isDigitC_eq

/-! ## Identifier -/

/-- T1: `get_identifier` succeeds exactly when the grammar's `Identifier` rule matches, on exactly the
same bytes `s[p..q)`, leaving the same rest; it never panics. -/
theorem identifier_eq_getIdentifier {s : Src} (hs : AsciiThenBoundary s) (p : Nat) :
    match getIdentifier s p with
    | .ok sp q => sp = ⟨p, q⟩ ∧ p < q ∧ identifier (rest s p) = some (spanBytes s sp, rest s q)
    | .err _ _ => identifier (rest s p) = none
    | .panic _ => False
    | .fuel => False := by
  unfold getIdentifier
  rcases rest_cases s p with ⟨h1, h2⟩ | ⟨b, h1, h2⟩
  · simp [isIdentifierStart, h1, h2, identifier]
  · by_cases hb : isAlpha b = true
    · have hst : isIdentifierStart s p = true := by simp [isIdentifierStart, h1, hb]
      simp only [hst, Bool.not_true, Bool.false_eq_true, if_false]
      unfold getIdentifierUnchecked
      have hafter := scanWhile_after s isIdentByte isIdentByte_lt (p + 1)
      have hasc : Asc s p := ⟨b, h1, isAlpha_lt b hb⟩
      have hb1 : Bnd s (p + 1) := hasc.bnd_succ hs
      have hq : Bnd s (scanWhile s isIdentByte (p + 1)) := hafter.bnd hs hb1
      have hle := hafter.le
      have hsl : slice s p (scanWhile s isIdentByte (p + 1)) = some ⟨p, scanWhile s isIdentByte (p + 1)⟩ :=
        slice_ok (by omega) hasc.bnd hq
      have hu : usub (p + 1) 1 = some p := by simp [usub]
      simp only [hu, hsl]
      refine ⟨trivial, by omega, ?_⟩
      have ⟨t1, t2⟩ := takeWhile_scanWhile s isIdentByte (p + 1)
      rw [h2, spanBytes_eq_seg, seg_cons h1 (by omega)]
      simp [identifier, isAlphaC_eq, hb, isIdentC_fun, t1, t2]
    · have hst : isIdentifierStart s p = false := by simp [isIdentifierStart, h1, hb]
      simp only [hst, Bool.not_false, if_true]
      simp [h2, identifier, isAlphaC_eq, hb]


/-! ## NumberLiteral -/

theorem seg_length {s : Src} {p q : Nat} (hq : q ≤ s.size) : (seg s p q).length = q - p := by
  simp [seg, rest]; omega

theorem seg_append {s : Src} {p q r : Nat} (h1 : p ≤ q) (h2 : q ≤ r) : seg s p r = seg s p q ++ seg s q r := by
  unfold seg rest
  rw [show r - p = (q - p) + (r - q) by omega, List.take_add, List.drop_drop]
  rw [show p + (q - p) = q by omega]

theorem digits_eq_skipDigits (s : Src) (p : Nat) (hp : p ≤ s.size) :
    match skipDigits s p with
    | .ok _ q => p < q ∧ After s p q ∧ digits (rest s p) = some (seg s p q, rest s q)
    | .err _ q => q = p ∧ digits (rest s p) = none
    | .panic _ => False
    | .fuel => False := by
  unfold skipDigits
  have ⟨t1, t2⟩ := takeWhile_scanWhile s isDigit p
  have haft := scanWhile_after s isDigit isDigit_lt p
  by_cases h : scanWhile s isDigit p = p
  · rw [h] at t1
    simp [h, digits, isDigitC_fun, t1, seg_self]
  · have hne : (scanWhile s isDigit p == p) = false := by simpa using h
    have hle := haft.le
    have hsz := haft.le_size hp
    simp only [hne, Bool.false_eq_true, if_false]
    refine ⟨by omega, haft, ?_⟩
    have hlen : (seg s p (scanWhile s isDigit p)).length = scanWhile s isDigit p - p := seg_length hsz
    have hnil : (seg s p (scanWhile s isDigit p)).isEmpty = false := by
      cases hseg : seg s p (scanWhile s isDigit p) with
      | nil => rw [hseg] at hlen; simp at hlen; omega
      | cons a t => rfl
    simp [digits, isDigitC_fun, t1, t2, hnil]

/-- the part of `get_number_literal` after the optional sign (`start` = where the literal began) -/
def numRest (s : Src) (start p1 : Nat) : R Span :=
  match skipDigits s p1 with
  | .ok _ p2 =>
    let (p3, dot) := takeByteIf s p2 46
    if dot then
      match skipDigits s p3 with
      | .ok _ p4 => (match slice s start p4 with | some sp => .ok sp p4 | none => .panic "get_number_literal slice")
      | .err e q => .err e q
      | .panic m => .panic m
      | .fuel => .fuel
    else (match slice s start p3 with | some sp => .ok sp p3 | none => .panic "get_number_literal slice")
  | .err e q => .err e q
  | .panic m => .panic m
  | .fuel => .fuel

theorem getNumberLiteral_eq_numRest (s : Src) (p : Nat) :
    getNumberLiteral s p = numRest s p (takeByteIf s p 45).1 := by
  unfold getNumberLiteral numRest
  rcases takeByteIf s p 45 with ⟨p1, d⟩
  rfl

theorem numberAfterSign_no_dot (sign d : List UInt8) (i2 : List UInt8) (i1 : List UInt8)
    (hd : digits i1 = some (d, i2)) (h : ∀ r, i2 ≠ 46 :: r) :
    numberAfterSign sign i1 = some (sign ++ d, i2) := by
  unfold numberAfterSign
  rw [hd]
  cases i2 with
  | nil => rfl
  | cons b r =>
    by_cases hb : b = 46
    · subst hb; exact absurd rfl (h r)
    · simp only

theorem numRest_spec {s : Src} (hs : AsciiThenBoundary s) (start p1 : Nat) (hst : Bnd s start)
    (haft : After s start p1) :
    match numRest s start p1 with
    | .ok sp q => sp = ⟨start, q⟩ ∧ p1 < q ∧
        numberAfterSign (seg s start p1) (rest s p1) = some (seg s start q, rest s q)
    | .err _ _ => numberAfterSign (seg s start p1) (rest s p1) = none ∨
        ∃ q, p1 < q ∧ s[q]? = some 46 ∧
          numberAfterSign (seg s start p1) (rest s p1) = some (seg s start q, rest s q)
    | .panic _ => False
    | .fuel => False := by
  have hp1 : p1 ≤ s.size := haft.le_size hst.le
  have hle1 := haft.le
  unfold numRest
  have hd1 := digits_eq_skipDigits s p1 hp1
  rcases h1 : skipDigits s p1 with ⟨_, p2⟩ | ⟨e, q⟩ | m | _
  · rw [h1] at hd1
    obtain ⟨hlt, haft2, hdig⟩ := hd1
    have hp2 : p2 ≤ s.size := haft2.le_size hp1
    have hb2 : Bnd s p2 := (haft.trans haft2).bnd hs hst
    simp only
    by_cases hdot : s[p2]? = some 46
    · have htb : takeByteIf s p2 46 = (p2 + 1, true) := by simp [takeByteIf, isCurrentByte, hdot]
      simp only [htb, if_true]
      have hp3 : p2 + 1 ≤ s.size := by have := get_lt hdot; omega
      have hd3 := digits_eq_skipDigits s (p2 + 1) hp3
      have hr2 : rest s p2 = 46 :: rest s (p2 + 1) := rest_cons hdot
      rcases h3 : skipDigits s (p2 + 1) with ⟨_, p4⟩ | ⟨e, q⟩ | m | _
      · rw [h3] at hd3
        obtain ⟨hlt3, haft3, hdig3⟩ := hd3
        have haft23 : After s p2 (p2 + 1) := After.step ⟨46, hdot, by decide⟩
        have hb4 : Bnd s p4 := (haft23.trans haft3).bnd hs hb2
        have hsl : slice s start p4 = some ⟨start, p4⟩ := slice_ok (by omega) hst hb4
        simp only [hsl]
        refine ⟨trivial, by omega, ?_⟩
        unfold numberAfterSign
        rw [hdig]
        simp only [hr2, hdig3]
        rw [seg_append (s := s) (p := start) (q := p1) (r := p4) (by omega) (by omega),
            seg_append (s := s) (p := p1) (q := p2) (r := p4) (by omega) (by omega),
            seg_cons (s := s) (p := p2) (q := p4) hdot (by omega)]
        simp
      · rw [h3] at hd3
        simp only
        right
        refine ⟨p2, hlt, hdot, ?_⟩
        unfold numberAfterSign
        rw [hdig]
        simp only [hr2, hd3.2]
        rw [seg_append (s := s) (p := start) (q := p1) (r := p2) (by omega) (by omega)]
      · rw [h3] at hd3; exact hd3
      · rw [h3] at hd3; exact hd3
    · have htb : takeByteIf s p2 46 = (p2, false) := by simp [takeByteIf, isCurrentByte, hdot]
      simp only [htb, Bool.false_eq_true, if_false]
      have hsl : slice s start p2 = some ⟨start, p2⟩ := slice_ok (by omega) hst hb2
      simp only [hsl]
      refine ⟨trivial, hlt, ?_⟩
      rw [numberAfterSign_no_dot _ _ _ _ hdig]
      · rw [seg_append (s := s) (p := start) (q := p1) (r := p2) (by omega) (by omega)]
      · intro r hr
        rcases rest_cases s p2 with ⟨g1, g2⟩ | ⟨b, g1, g2⟩
        · rw [g2] at hr; cases hr
        · rw [g2] at hr
          injection hr with hb _
          subst hb; exact hdot g1
  · rw [h1] at hd1
    simp only
    left
    unfold numberAfterSign
    rw [hd1.2]
  · rw [h1] at hd1; exact hd1
  · rw [h1] at hd1; exact hd1

theorem numberLiteral_no_sign (i : List UInt8) (h : ∀ r, i ≠ 45 :: r) : numberLiteral i = numberAfterSign [] i := by
  unfold numberLiteral
  split
  · rename_i r; exact absurd rfl (h r)
  · rfl

/-- T1/T2: `get_number_literal` versus the grammar's `NumberLiteral`.  Success = the PEG rule matches
exactly `s[p..q)`.  The one asymmetry: on `digits "."` not followed by a digit the Rust scanner reports
an error where the PEG rule matches the digits and stops before the dot (every context of the grammar
then fails on that dot, so both reject the enclosing entry). -/
theorem numberLiteral_eq_getNumberLiteral {s : Src} (hs : AsciiThenBoundary s) (p : Nat) (hp : Bnd s p) :
    match getNumberLiteral s p with
    | .ok sp q => sp = ⟨p, q⟩ ∧ p < q ∧ numberLiteral (rest s p) = some (spanBytes s sp, rest s q)
    | .err _ _ => numberLiteral (rest s p) = none ∨
        ∃ q, p < q ∧ s[q]? = some 46 ∧ numberLiteral (rest s p) = some (seg s p q, rest s q)
    | .panic _ => False
    | .fuel => False := by
  rw [getNumberLiteral_eq_numRest]
  by_cases h45 : s[p]? = some 45
  · have htb : takeByteIf s p 45 = (p + 1, true) := by simp [takeByteIf, isCurrentByte, h45]
    have haft : After s p (p + 1) := After.step ⟨45, h45, by decide⟩
    have hspec := numRest_spec hs p (p + 1) hp haft
    have hseg : seg s p (p + 1) = [45] := by rw [seg_cons h45 (by omega), seg_self]
    have hnl : numberLiteral (rest s p) = numberAfterSign [45] (rest s (p + 1)) := by
      rw [rest_cons h45]; rfl
    rw [htb]
    simp only
    rw [hseg] at hspec
    rcases hr : numRest s p (p + 1) with ⟨sp, q⟩ | ⟨e, q⟩ | m | _
    · rw [hr] at hspec
      obtain ⟨e1, e2, e3⟩ := hspec
      subst e1
      exact ⟨rfl, by omega, by rw [hnl, e3, spanBytes_eq_seg]⟩
    · rw [hr] at hspec
      simp only
      rcases hspec with h | ⟨q, q1, q2, q3⟩
      · left; rw [hnl, h]
      · right; exact ⟨q, by omega, q2, by rw [hnl, q3]⟩
    · rw [hr] at hspec; exact hspec
    · rw [hr] at hspec; exact hspec
  · have htb : takeByteIf s p 45 = (p, false) := by simp [takeByteIf, isCurrentByte, h45]
    have hspec := numRest_spec hs p p hp (After.refl s p)
    have hnl : numberLiteral (rest s p) = numberAfterSign [] (rest s p) := by
      apply numberLiteral_no_sign
      intro r hr
      rcases rest_cases s p with ⟨g1, g2⟩ | ⟨b, g1, g2⟩
      · rw [g2] at hr; cases hr
      · rw [g2] at hr
        injection hr with hb _
        subst hb; exact h45 g1
    rw [htb]
    simp only
    rw [seg_self] at hspec
    rcases hr : numRest s p p with ⟨sp, q⟩ | ⟨e, q⟩ | m | _
    · rw [hr] at hspec
      obtain ⟨e1, e2, e3⟩ := hspec
      subst e1
      exact ⟨rfl, e2, by rw [hnl, e3, spanBytes_eq_seg]⟩
    · rw [hr] at hspec
      simp only
      rcases hspec with h | ⟨q, q1, q2, q3⟩
      · left; rw [hnl, h]
      · right; exact ⟨q, q1, q2, by rw [hnl, q3]⟩
    · rw [hr] at hspec; exact hspec
    · rw [hr] at hspec; exact hspec


/-! ## comment lines -/

theorem commentChars_other {b : UInt8} (r : List UInt8) (h1 : b ≠ 10) (h2 : b ≠ 13) :
    commentChars (b :: r) = (b :: (commentChars r).1, (commentChars r).2) := by
  conv => lhs; unfold commentChars
  split <;> simp_all

theorem commentChars_cr_other {b : UInt8} (r : List UInt8) (h1 : b ≠ 10) :
    commentChars (13 :: b :: r) = (13 :: (commentChars (b :: r)).1, (commentChars (b :: r)).2) := by
  conv => lhs; unfold commentChars
  split <;> simp_all

theorem commentChars_cr_eof : commentChars [13] = ([13], []) := by
  simp [commentChars]

theorem commentLineEndGo_ge (s : Src) (n p : Nat) : p ≤ commentLineEndGo s n p := by
  induction n generalizing p with
  | zero => simp [commentLineEndGo]
  | succ n ih =>
    simp only [commentLineEndGo]
    split
    · omega
    · have := ih (p + 1); omega

theorem commentChars_commentLineEndGo (s : Src) (n p : Nat) (hn : s.size - p ≤ n) :
    commentChars (rest s p) = (seg s p (commentLineEndGo s n p), rest s (commentLineEndGo s n p)) := by
  induction n generalizing p with
  | zero =>
    have : rest s p = [] := rest_eq_nil_iff.mpr (by omega)
    simp [commentLineEndGo, this, commentChars, seg]
  | succ n ih =>
    rcases rest_cases s p with ⟨h1, h2⟩ | ⟨b, h1, h2⟩
    · simp [commentLineEndGo, isEol, h1, h2, commentChars, seg]
    · have hge := commentLineEndGo_ge s n (p + 1)
      by_cases hb : b = 10
      · subst hb
        have : isEol s p = true := by simp [isEol, h1]
        simp only [commentLineEndGo, this, if_true]
        rw [seg_self, h2]
        simp [commentChars]
      · by_cases hc : b = 13
        · subst hc
          rcases rest_cases s (p + 1) with ⟨g1, g2⟩ | ⟨d, g1, g2⟩
          · have hne : isEol s p = false := by simp [isEol, h1, g1]
            simp only [commentLineEndGo, hne, Bool.false_eq_true, if_false]
            have hi := ih (p + 1) (by omega)
            rw [g2] at hi
            have e1 : seg s (p + 1) (commentLineEndGo s n (p + 1)) = [] := by
              have := congrArg Prod.fst hi; simpa [commentChars] using this.symm
            have e2 : rest s (commentLineEndGo s n (p + 1)) = [] := by
              have := congrArg Prod.snd hi; simpa [commentChars] using this.symm
            rw [seg_cons h1 (by omega), h2, g2, commentChars_cr_eof, e1, e2]
          · by_cases hd : d = 10
            · subst hd
              have : isEol s p = true := by simp [isEol, h1, g1]
              simp only [commentLineEndGo, this, if_true]
              rw [seg_self, h2, g2]
              simp [commentChars]
            · have hne : isEol s p = false := by simp [isEol, h1, g1, hd]
              simp only [commentLineEndGo, hne, Bool.false_eq_true, if_false]
              have hi := ih (p + 1) (by omega)
              rw [seg_cons h1 (by omega), h2, g2, commentChars_cr_other _ hd, ← g2, hi]
        · have hne : isEol s p = false := by
            unfold isEol; rw [h1]; split <;> simp_all
          simp only [commentLineEndGo, hne, Bool.false_eq_true, if_false]
          have hi := ih (p + 1) (by omega)
          rw [seg_cons h1 (by omega), h2, commentChars_other _ hb hc, hi]

/-- T1: `get_comment_line` reads exactly the grammar's `comment_char*` -/
theorem commentChars_eq_getCommentLine {s : Src} (p : Nat) (hp : Bnd s p) :
    ∃ e, getCommentLine s p = .ok ⟨p, e⟩ e ∧ commentChars (rest s p) = (spanBytes s ⟨p, e⟩, rest s e) := by
  have h := commentLineEndGo_spec s (s.size - p) p (by have := hp.le; omega)
  refine ⟨commentLineEndGo s (s.size - p) p, ?_, ?_⟩
  · unfold getCommentLine
    simp only []
    rw [slice_ok h.1 hp (isEol_bnd h.2.2 h.2.1)]
  · rw [spanBytes_eq_seg]
    exact commentChars_commentLineEndGo s _ p (Nat.le_refl _)

/-- the grammar's comment marker: `("###" | "##" | "#")` as (level, rest) -/
def commentMarker : List UInt8 → Option (Nat × List UInt8)
  | 35 :: 35 :: 35 :: r => some (3, r)
  | 35 :: 35 :: r => some (2, r)
  | 35 :: r => some (1, r)
  | _ => none

theorem commentMarker_two (d : UInt8) (r : List UInt8) (hd : d ≠ 35) :
    commentMarker (35 :: 35 :: d :: r) = some (2, d :: r) := by
  unfold commentMarker
  split
  · rename_i heq; injection heq with _ h; injection h with _ h; injection h with h _; exact absurd h.symm hd
  · rename_i heq; injection heq with _ h; injection h with _ h; rw [h]
  · rename_i hn _ heq; injection heq with _ h; exact absurd h.symm (hn _)
  · rename_i hn; exact absurd rfl (hn _)

theorem commentMarker_one (c : UInt8) (r : List UInt8) (hc : c ≠ 35) :
    commentMarker (35 :: c :: r) = some (1, c :: r) := by
  unfold commentMarker
  split
  · rename_i heq; injection heq with _ h; injection h with h _; exact absurd h.symm hc
  · rename_i heq; injection heq with _ h; injection h with h _; exact absurd h.symm hc
  · rename_i heq; injection heq with _ h; rw [h]
  · rename_i hn; exact absurd rfl (hn _)

/-- T1: `get_comment_level` is the grammar's ordered choice `"###" | "##" | "#"` -/
theorem commentMarker_eq_getCommentLevel (s : Src) (p : Nat) :
    commentMarker (rest s p) =
      (if (getCommentLevel s p).1 = 0 then none
       else some ((getCommentLevel s p).1, rest s (getCommentLevel s p).2)) := by
  unfold getCommentLevel
  simp only [isCurrentByte_iff]
  rcases rest_cases s p with ⟨h1, h2⟩ | ⟨b, h1, h2⟩
  · simp [h1, h2, commentMarker]
  · by_cases hb : b = 35
    · subst hb
      rcases rest_cases s (p + 1) with ⟨g1, g2⟩ | ⟨c, g1, g2⟩
      · simp [h1, h2, g1, g2, commentMarker]
      · by_cases hc : c = 35
        · subst hc
          rcases rest_cases s (p + 2) with ⟨k1, k2⟩ | ⟨d, k1, k2⟩
          · simp [h1, h2, g1, g2, k1, k2, commentMarker]
          · by_cases hd : d = 35
            · subst hd
              simp [h1, h2, g1, g2, k1, k2, commentMarker]
            · have : commentMarker (35 :: 35 :: d :: rest s (p + 2 + 1)) = some (2, d :: rest s (p + 2 + 1)) :=
                commentMarker_two _ _ hd
              simp [h1, h2, g1, g2, k1, k2, hd, this]
        · have : commentMarker (35 :: c :: rest s (p + 1 + 1)) = some (1, c :: rest s (p + 1 + 1)) :=
            commentMarker_one _ _ hc
          simp [h1, h2, g1, g2, hc, this]
    · have : commentMarker (b :: rest s (p + 1)) = none := by
        unfold commentMarker; split <;> simp_all
      simp [h1, h2, hb, this]

end FluentProofs.SpecLex
