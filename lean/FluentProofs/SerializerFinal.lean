import FluentProofs.SerializerResParse
import FluentProofs.SerializerSources
/-!
# Serializer lemmas, part 16: the round trip for the class `RoundTrippable` (C04 / T3)
-/
namespace FluentProofs.Ser
open FluentModel FluentModel.Syntax FluentModel.Syntax.Ser FluentProofs.Parser

/-- **`RoundTrippable`** (decidable): every entry is of the class `rtEntry`; Junk is allowed when
serialising without junk -/
def RoundTrippable (withJunk : Bool) (r : Resource Bytes) : Bool :=
  r.all fun e => rtEntry e || (!withJunk && isJunk e)

/-- **round trip for junk-free resources of the class, on trees** -/
theorem roundtrip_rt_tree (withJunk : Bool) (r : Resource Bytes) (hr : ∀ e ∈ r, rtEntry e = true) :
    ∃ out, serialize withJunk r = some out ∧
      (AsciiThenBoundary out.toArray →
        ∃ t', parse out.toArray = .done (t', []) ∧ resolve out.toArray t' = r.map canonEntry) := by
  refine ⟨resText false r, serialize_text withJunk r hr, fun hs => ?_⟩
  have hat := at_self (resText false r)
  have hsz : 0 + (resText false r).length = (resText false r).toArray.size := by simp
  -- the text starts with an entry
  have h0 : EntryStart (resText false r).toArray 0 := by
    cases r with
    | nil => left; simp [resText]
    | cons e es =>
      obtain ⟨c, rest, htxt, hc⟩ := entryText_start false e (hr e (List.mem_cons_self))
      have hl : lead false e = 0 := by cases e <;> simp [lead]
      right
      refine ⟨c, ?_, hc⟩
      simp [resText, htxt, hl]
  have hsbb := skipBlankBlock_newlines (resText false r).toArray 0 0 (fun j hj => by omega) (by simpa using h0)
  have hlead : leadRes false r = 0 := by
    cases r with
    | nil => rfl
    | cons e es => cases e <;> simp [leadRes, lead]
  obtain ⟨t', hloop, hmap⟩ := parseLoop_text hs (exprFuel (resText false r).toArray) (by simp [exprFuel]) r hr false 0
    ((resText false r).toArray.size + 1) [] none 0 hat hsz (Or.inl rfl) (by omega)
  refine ⟨t', ?_, hmap⟩
  unfold parse
  simp only [hsbb]
  rw [hlead] at hloop
  simpa [flushC] using hloop

theorem canonComment_eq_nComment (c : List Bytes) : canonComment c = nComment c := rfl

theorem nComment_idem (c : List Bytes) : nComment (nComment c) = nComment c := by
  simp only [nComment, List.map_map]
  apply List.map_congr_left
  intro l _
  simp only [Function.comp]
  split <;> simp_all [isBlankLine]

theorem nEntry_canon (ok : Bytes → Bytes → Bool) (e : Entry Bytes) : nEntry ok (canonEntry e) = nEntry ok e := by
  cases e with
  | message m => cases hc : m.comment <;> simp [canonEntry, nEntry, hc, canonComment_eq_nComment, nComment_idem]
  | term t => cases hc : t.comment <;> simp [canonEntry, nEntry, hc, canonComment_eq_nComment, nComment_idem]
  | comment c => simp [canonEntry, nEntry, canonComment_eq_nComment, nComment_idem]
  | groupComment c => simp [canonEntry, nEntry, canonComment_eq_nComment, nComment_idem]
  | resourceComment c => simp [canonEntry, nEntry, canonComment_eq_nComment, nComment_idem]
  | junk c => rfl

theorem isJunk_canon (e : Entry Bytes) : isJunk (canonEntry e) = isJunk e := by cases e <;> rfl

theorem norm_canon (withJunk : Bool) (r : Resource Bytes) : norm withJunk (r.map canonEntry) = norm withJunk r := by
  simp only [norm, nRes, List.filter_map, List.map_map]
  have : (fun e => withJunk || !isJunk e) ∘ canonEntry = fun e => withJunk || !isJunk e := by
    funext e; simp [isJunk_canon]
  rw [this]
  apply List.map_congr_left
  intro e _
  simp [nEntry_canon]

theorem commentText_canon (pre : Bytes) (c : List Bytes) : commentText pre (canonComment c) = commentText pre c := by
  induction c with
  | nil => rfl
  | cons l ls ih =>
    simp only [canonComment, List.map_cons, commentText] at ih ⊢
    rw [ih]
    cases h : isBlankLine l
    · have : canonLine l = l := by simp [canonLine, h]
      rw [this, h]
    · have : canonLine l = [] := by simp [canonLine, h]
      rw [this]
      have h2 : isBlankLine [] = true := rfl
      simp [h2]

theorem entryText_canon (b : Bool) (e : Entry Bytes) : entryText b (canonEntry e) = entryText b e := by
  cases e with
  | message m => cases hc : m.comment <;> simp [canonEntry, entryText, hc, optCommentText, commentText_canon]
  | term t => cases hc : t.comment <;> simp [canonEntry, entryText, hc, optCommentText, commentText_canon]
  | comment c => simp [canonEntry, entryText, commentText_canon]
  | groupComment c => simp [canonEntry, entryText, commentText_canon]
  | resourceComment c => simp [canonEntry, entryText, commentText_canon]
  | junk c => rfl

theorem resText_canon (b : Bool) (es : List (Entry Bytes)) : resText b (es.map canonEntry) = resText b es := by
  induction es generalizing b with
  | nil => rfl
  | cons e es ih => simp [resText, entryText_canon, ih]

theorem rtComment_canon (c : List Bytes) (h : rtComment c = true) : rtComment (canonComment c) = true := by
  simp only [rtComment, Bool.and_eq_true, Bool.not_eq_true', List.isEmpty_eq_false_iff, List.all_eq_true] at h ⊢
  refine ⟨by simpa [canonComment] using h.1, ?_⟩
  intro l hl
  simp only [canonComment, List.mem_map] at hl
  obtain ⟨l', hl', rfl⟩ := hl
  unfold canonLine
  split
  · rfl
  · exact h.2 l' hl'

theorem rtEntry_canon (e : Entry Bytes) (h : rtEntry e = true) : rtEntry (canonEntry e) = true := by
  cases e with
  | message m =>
    simp only [rtEntry, canonEntry, Bool.and_eq_true] at h ⊢
    refine ⟨h.1, ?_⟩
    cases hc : m.comment with
    | none => simp [rtOptComment]
    | some c => rw [hc] at h; exact rtComment_canon c h.2
  | term t =>
    simp only [rtEntry, canonEntry, Bool.and_eq_true] at h ⊢
    refine ⟨h.1, ?_⟩
    cases hc : t.comment with
    | none => simp [rtOptComment]
    | some c => rw [hc] at h; exact rtComment_canon c h.2
  | comment c => exact rtComment_canon c h
  | groupComment c => exact rtComment_canon c h
  | resourceComment c => exact rtComment_canon c h
  | junk c => simp [rtEntry] at h

/-- the entries that are written when serialising without junk -/
def dropJunk (r : Resource Bytes) : Resource Bytes := r.filter fun e => !isJunk e

theorem serResourceGo_dropJunk (r : Resource Bytes) (w : Writer) (b : Bool) :
    serResourceGo false w b (dropJunk r) = serResourceGo false w b r := by
  induction r generalizing w b with
  | nil => rfl
  | cons e es ih =>
    cases e with
    | junk c => simp only [dropJunk, List.filter_cons, isJunk, Bool.not_true, Bool.false_eq_true, if_false, serResourceGo,
        Bool.not_false, if_true]; exact ih w b
    | message m =>
      simp only [dropJunk, List.filter_cons, isJunk, Bool.not_false, if_true, serResourceGo]
      split
      · rfl
      · exact ih _ _
    | term t =>
      simp only [dropJunk, List.filter_cons, isJunk, Bool.not_false, if_true, serResourceGo]
      split
      · rfl
      · exact ih _ _
    | comment c => simp only [dropJunk, List.filter_cons, isJunk, Bool.not_false, if_true, serResourceGo]; exact ih _ _
    | groupComment c => simp only [dropJunk, List.filter_cons, isJunk, Bool.not_false, if_true, serResourceGo]; exact ih _ _
    | resourceComment c =>
      simp only [dropJunk, List.filter_cons, isJunk, Bool.not_false, if_true, serResourceGo]; exact ih _ _

theorem serialize_dropJunk (r : Resource Bytes) : serialize false (dropJunk r) = serialize false r := by
  simp [serialize, serResourceGo_dropJunk]

theorem norm_dropJunk (r : Resource Bytes) : norm false (dropJunk r) = norm false r := by
  simp [norm, nRes, dropJunk, List.filter_filter]

/-- the part of the resource the serializer writes -/
def written (withJunk : Bool) (r : Resource Bytes) : Resource Bytes := if withJunk then r else dropJunk r

theorem written_rt (withJunk : Bool) (r : Resource Bytes) (h : RoundTrippable withJunk r = true) :
    ∀ e ∈ written withJunk r, rtEntry e = true := by
  simp only [RoundTrippable, List.all_eq_true, Bool.or_eq_true, Bool.and_eq_true, Bool.not_eq_true'] at h
  intro e he
  cases withJunk with
  | true =>
    simp only [written, if_true] at he
    rcases h e he with h1 | ⟨h1, _⟩
    · exact h1
    · cases h1
  | false =>
    simp only [written, Bool.false_eq_true, if_false, dropJunk, List.mem_filter, Bool.not_eq_true'] at he
    rcases h e he.1 with h1 | ⟨_, h2⟩
    · exact h1
    · rw [he.2] at h2; cases h2

/-- **T3 `roundtrip_class`, on trees.**  For every resource of the class `RoundTrippable withJunk`
(decidable): the serializer returns `out`; if `out` has the `&str` invariant, `parse out` returns —
without errors — a tree that is equal to the resource under `norm` (precisely: it resolves to the
written entries with whitespace-only comment lines emptied), and serialising it again gives `out`. -/
theorem roundtrip_rt (withJunk : Bool) (r : Resource Bytes) (h : RoundTrippable withJunk r = true) :
    ∃ out, serialize withJunk r = some out ∧
      (AsciiThenBoundary out.toArray →
        ∃ t', parse out.toArray = .done (t', []) ∧
          norm withJunk (resolve out.toArray t') = norm withJunk r ∧
          serialize withJunk (resolve out.toArray t') = some out) := by
  have hw := written_rt withJunk r h
  obtain ⟨out, hser, hparse⟩ := roundtrip_rt_tree withJunk (written withJunk r) hw
  have hser' : serialize withJunk r = some out := by
    cases withJunk with
    | true => simpa [written] using hser
    | false => rw [← serialize_dropJunk]; simpa [written] using hser
  refine ⟨out, hser', fun hs => ?_⟩
  obtain ⟨t', hp, hres⟩ := hparse hs
  refine ⟨t', hp, ?_, ?_⟩
  · rw [hres, norm_canon]
    cases withJunk with
    | true => simp [written]
    | false => simp only [written, Bool.false_eq_true, if_false]; exact norm_dropJunk r
  · rw [hres]
    have h1 := serialize_text withJunk ((written withJunk r).map canonEntry) (by
      intro e he
      simp only [List.mem_map] at he
      obtain ⟨e', he', rfl⟩ := he
      exact rtEntry_canon e' (hw e' he'))
    rw [h1, resText_canon]
    have h2 := serialize_text withJunk (written withJunk r) hw
    rw [h2] at hser
    exact hser

/-- **T3 `roundtrip_class`, on sources**: both full C04 statements for every `String` whose parse tree
is `RoundTrippable` — no side condition. -/
theorem roundtrip_rt_source (str : String) (withJunk : Bool) (t : Resource Span) (errs : List PErr)
    (hp : parse str.toUTF8.data = .done (t, errs))
    (h : RoundTrippable withJunk (resolve str.toUTF8.data t) = true) :
    ∃ out, serialize withJunk (resolve str.toUTF8.data t) = some out ∧
      ∃ t', parse out.toArray = .done (t', []) ∧
        norm withJunk (resolve out.toArray t') = norm withJunk (resolve str.toUTF8.data t) ∧
        serialize withJunk (resolve out.toArray t') = some out := by
  obtain ⟨out, h1, h2⟩ := roundtrip_rt withJunk _ h
  exact ⟨out, h1, h2 (serialize_atb_of_parse str t errs hp withJunk out h1)⟩

end FluentProofs.Ser
