import FluentModel.Fallback
/-!
# C16 lemmas, part 1: specification vocabulary and the single-key walk

The specification side talks about an ordered list of `(locale, bundle result)` pairs `lbs`
("any ordered locale list and any per-locale bundles"); the model runs on `lbs.map (·.2)` and finds
the locale in `bundle.locales[0]`.  `PerLocale lbs` says that the two agree.
-/
namespace FluentProofs.Fallback
open FluentModel.Fallback

variable {I L A N T RE BE : Type}

/-- the i-th bundle is the bundle of the i-th locale (`bundle.locales[0]`) -/
def PerLocale (lbs : List (L × BundleResult I L A N T RE BE)) : Prop :=
  ∀ p ∈ lbs, p.2.bundleOf.locales.head? = some p.1

theorem PerLocale.cons {p : L × BundleResult I L A N T RE BE} {lbs} (h : PerLocale (p :: lbs)) :
    p.2.bundleOf.locales.head? = some p.1 ∧ PerLocale lbs :=
  ⟨h p (by simp), fun q hq => h q (by simp [hq])⟩

theorem PerLocale.nil : PerLocale ([] : List (L × BundleResult I L A N T RE BE)) := by
  intro p hp; cases hp

theorem locale0_of {b : Bundle I L A N T RE} {l : L} (h : b.locales.head? = some l) :
    locale0 b = .done l := by
  unfold locale0
  cases hb : b.locales with
  | nil => simp [hb] at h
  | cons x xs => simp [hb] at h; simp [h]

/-- the formatted value of key `k` in this locale's bundle, if the bundle has the message with a value -/
def answerOf (k : Key I A) (p : L × BundleResult I L A N T RE BE) : Option (Fmt T RE) :=
  match p.2.bundleOf.getMessage k.id with
  | none => none
  | some m => m.value.map fun v => v k.args

/-- the locale can answer a value request for `k` -/
def answers (k : Key I A) (p : L × BundleResult I L A N T RE BE) : Bool := (answerOf k p).isSome

/-- the locale has the message (with or without a value) -/
def hasMessage (k : Key I A) (p : L × BundleResult I L A N T RE BE) : Bool :=
  (p.2.bundleOf.getMessage k.id).isSome

/-- errors carried by a partially broken bundle, as `LocalizationError::Bundle` -/
def carriedErrs (p : L × BundleResult I L A N T RE BE) : List (LocErr I L RE BE) :=
  p.2.carried.map LocErr.bundle

/-- the entry naming a locale that lacked the value (`MissingValue`) or the message (`MissingMessage`) -/
def missEntry (k : Key I A) (p : L × BundleResult I L A N T RE BE) : LocErr I L RE BE :=
  if hasMessage k p then .missingValue k.id (some p.1) else .missingMessage k.id (some p.1)

/-- what a locale that could not answer contributes: its carried errors, then its entry -/
def missErrs (k : Key I A) (p : L × BundleResult I L A N T RE BE) : List (LocErr I L RE BE) :=
  carriedErrs p ++ [missEntry k p]

/-- the `Resolver` entry of the answering locale: present iff the resolver reported errors -/
def resolverEntry (id : I) (l : L) (errs : List RE) : List (LocErr I L RE BE) :=
  if errs.isEmpty then [] else [.resolver id l errs]

/-- the final locale-less entry -/
def finalEntry (k : Key I A) (sawMessage : Bool) : LocErr I L RE BE :=
  if sawMessage then .missingValue k.id none else .missingMessage k.id none

/-- the first locale (in the given order) that can answer, with its formatting -/
def firstAnswer (k : Key I A) (lbs : List (L × BundleResult I L A N T RE BE)) :
    Option ((L × BundleResult I L A N T RE BE) × Fmt T RE) :=
  lbs.findSome? fun p => (answerOf k p).map fun f => (p, f)

/-- the locales walked before the first one that can answer (all of them if none can) -/
def before (k : Key I A) (lbs : List (L × BundleResult I L A N T RE BE)) :
    List (L × BundleResult I L A N T RE BE) :=
  lbs.takeWhile fun p => !answers (T := T) (RE := RE) k p

/-- **Specification of a single value request** (result, errors pushed, bundles consumed);
`found` is the initial `found_message` flag (`false` for a request). -/
def valueSpecFrom (k : Key I A) (found : Bool) (lbs : List (L × BundleResult I L A N T RE BE)) :
    Option T × List (LocErr I L RE BE) × Nat :=
  match firstAnswer (T := T) k lbs with
  | some (p, f) =>
    (some f.text,
     (before (T := T) (RE := RE) k lbs).flatMap (missErrs k) ++ carriedErrs p ++ resolverEntry k.id p.1 f.errs,
     (before (T := T) (RE := RE) k lbs).length + 1)
  | none =>
    (none,
     lbs.flatMap (missErrs k) ++ [finalEntry k (found || lbs.any (hasMessage k))],
     lbs.length)

abbrev valueSpec (k : Key I A) (lbs : List (L × BundleResult I L A N T RE BE)) :
    Option T × List (LocErr I L RE BE) × Nat :=
  valueSpecFrom k false lbs

theorem unwrapBundle_eq (p : L × BundleResult I L A N T RE BE) (errors : List (LocErr I L RE BE)) :
    unwrapBundle p.2 errors = (p.2.bundleOf, errors ++ carriedErrs p) := by
  unfold unwrapBundle carriedErrs BundleResult.bundleOf BundleResult.carried
  cases p.2 <;> simp

theorem valueSpecFrom_nil (k : Key I A) (found : Bool) :
    valueSpecFrom (L := L) (N := N) (T := T) (RE := RE) (BE := BE) k found [] = (none, [finalEntry k found], 0) := by
  simp [valueSpecFrom, firstAnswer]

theorem valueSpecFrom_cons_answer (k : Key I A) (found : Bool) (p : L × BundleResult I L A N T RE BE)
    (rest : List (L × BundleResult I L A N T RE BE)) (f : Fmt T RE) (ha : answerOf k p = some f) :
    valueSpecFrom k found (p :: rest) = (some f.text, carriedErrs p ++ resolverEntry k.id p.1 f.errs, 1) := by
  simp [valueSpecFrom, firstAnswer, before, answers, ha]

theorem valueSpecFrom_cons_miss (k : Key I A) (found : Bool) (p : L × BundleResult I L A N T RE BE)
    (rest : List (L × BundleResult I L A N T RE BE)) (ha : answerOf (T := T) (RE := RE) k p = none) :
    valueSpecFrom (T := T) k found (p :: rest) =
      ((valueSpecFrom (T := T) k (found || hasMessage k p) rest).1,
       missErrs k p ++ (valueSpecFrom (T := T) k (found || hasMessage k p) rest).2.1,
       (valueSpecFrom (T := T) k (found || hasMessage k p) rest).2.2 + 1) := by
  simp only [valueSpecFrom, firstAnswer, before, answers, ha, List.findSome?_cons, Option.map_none,
    List.takeWhile_cons, Option.isSome_none, Bool.not_false, if_true, List.flatMap_cons, List.any_cons,
    List.length_cons]
  cases List.findSome? (fun p => Option.map (fun f => (p, f)) (answerOf (T := T) (RE := RE) k p)) rest with
  | none => simp [Bool.or_assoc]
  | some pf => simp

/-- the loop of `format_value_from_inner!`, from any loop state -/
theorem valueLoop_spec (k : Key I A) (lbs : List (L × BundleResult I L A N T RE BE))
    (h : PerLocale lbs) (found : Bool) (errors : List (LocErr I L RE BE)) (used : Nat) :
    valueLoop (T := T) k.id k.args (lbs.map (·.2)) found errors used =
      .done ((valueSpecFrom k found lbs).1, errors ++ (valueSpecFrom k found lbs).2.1,
             used + (valueSpecFrom k found lbs).2.2) := by
  induction lbs generalizing found errors used with
  | nil =>
    cases found <;> simp [valueLoop, valueSpecFrom_nil, finalEntry]
  | cons p rest ih =>
    obtain ⟨hl, hrest⟩ := h.cons
    have hloc := locale0_of hl
    simp only [List.map_cons, valueLoop, unwrapBundle_eq]
    cases hm : p.2.bundleOf.getMessage k.id with
    | none =>
      have ha : answerOf (T := T) (RE := RE) k p = none := by simp [answerOf, hm]
      have hh : hasMessage k p = false := by simp [hasMessage, hm]
      simp only [hloc, Outcome.bind, ih hrest, valueSpecFrom_cons_miss k found p rest ha]
      simp [hh, missErrs, missEntry, Nat.add_assoc, Nat.add_comm]
    | some m =>
      have hh : hasMessage k p = true := by simp [hasMessage, hm]
      cases hv : m.value with
      | none =>
        have ha : answerOf (T := T) (RE := RE) k p = none := by simp [answerOf, hm, hv]
        simp only [hloc, Outcome.bind, ih hrest, valueSpecFrom_cons_miss k found p rest ha]
        simp [hv, hh, missErrs, missEntry, Nat.add_assoc, Nat.add_comm]
      | some v =>
        have ha : answerOf (T := T) (RE := RE) k p = some (v k.args) := by simp [answerOf, hm, hv]
        simp only [valueSpecFrom_cons_answer k found p rest _ ha]
        cases he : (v k.args).errs.isEmpty <;> simp [hv, he, hloc, Outcome.bind, resolverEntry, List.append_assoc]

/-- `format_value_from_inner!` = its specification -/
theorem formatValueFromInner_spec (k : Key I A) (lbs : List (L × BundleResult I L A N T RE BE))
    (h : PerLocale lbs) (errors : List (LocErr I L RE BE)) :
    formatValueFromInner (T := T) (lbs.map (·.2)) k.id k.args errors =
      .done ((valueSpec k lbs).1, errors ++ (valueSpec k lbs).2.1, (valueSpec k lbs).2.2) := by
  simpa [formatValueFromInner] using valueLoop_spec (T := T) k lbs h false errors 0

/-! ### the specification in words -/

theorem firstAnswer_append_of_none (k : Key I A) (pre : List (L × BundleResult I L A N T RE BE))
    (hpre : ∀ q ∈ pre, answers (T := T) (RE := RE) k q = false) (rest) :
    firstAnswer (T := T) k (pre ++ rest) = firstAnswer (T := T) k rest := by
  induction pre with
  | nil => rfl
  | cons q pre ih =>
    have hq : answerOf (T := T) (RE := RE) k q = none := by
      have := hpre q (by simp); simpa [answers] using this
    have := ih (fun r hr => hpre r (by simp [hr]))
    simp only [firstAnswer] at this ⊢
    simp [hq, this]

theorem before_append_of_none (k : Key I A) (pre : List (L × BundleResult I L A N T RE BE))
    (hpre : ∀ q ∈ pre, answers (T := T) (RE := RE) k q = false) (rest) :
    before (T := T) (RE := RE) k (pre ++ rest) = pre ++ before (T := T) (RE := RE) k rest := by
  induction pre with
  | nil => rfl
  | cons q pre ih =>
    have hq := hpre q (by simp)
    have := ih (fun r hr => hpre r (by simp [hr]))
    simp only [before] at this ⊢
    simp [hq, this]

/-- if `p` is the first locale that can answer, the request returns `p`'s formatting; the errors are:
for each earlier locale its carried bundle errors and its `MissingMessage`/`MissingValue` entry, then
`p`'s carried errors and its `Resolver` entry (iff the resolver reported errors); `pre.length + 1`
bundles were consumed. -/
theorem valueSpec_first (k : Key I A) (pre post : List (L × BundleResult I L A N T RE BE))
    (p : L × BundleResult I L A N T RE BE) (f : Fmt T RE)
    (hpre : ∀ q ∈ pre, answers (T := T) (RE := RE) k q = false) (hp : answerOf k p = some f) :
    valueSpec k (pre ++ p :: post) =
      (some f.text,
       pre.flatMap (missErrs k) ++ carriedErrs p ++ resolverEntry k.id p.1 f.errs,
       pre.length + 1) := by
  have h1 := firstAnswer_append_of_none (T := T) k pre hpre (p :: post)
  have h2 := before_append_of_none (T := T) k pre hpre (p :: post)
  have h3 : firstAnswer (T := T) k (p :: post) = some (p, f) := by simp [firstAnswer, hp]
  have h4 : before (T := T) (RE := RE) k (p :: post) = [] := by simp [before, answers, hp]
  simp [valueSpec, valueSpecFrom, h1, h2, h3, h4]

theorem firstAnswer_eq_none (k : Key I A) (lbs : List (L × BundleResult I L A N T RE BE)) :
    firstAnswer (T := T) k lbs = none ↔ ∀ q ∈ lbs, answers (T := T) (RE := RE) k q = false := by
  simp [firstAnswer, answers]

/-- if no locale can answer, the request returns nothing; the errors are every locale's carried errors
and entry, in order, then the final locale-less entry (`MissingValue` iff some locale had the
message); all bundles were consumed. -/
theorem valueSpec_none (k : Key I A) (lbs : List (L × BundleResult I L A N T RE BE))
    (h : ∀ q ∈ lbs, answers (T := T) (RE := RE) k q = false) :
    valueSpec (T := T) k lbs =
      (none, lbs.flatMap (missErrs k) ++ [finalEntry k (lbs.any (hasMessage k))], lbs.length) := by
  have := (firstAnswer_eq_none (T := T) k lbs).2 h
  simp [valueSpec, valueSpecFrom, this]

theorem valueSpec_result_none_iff (k : Key I A) (lbs : List (L × BundleResult I L A N T RE BE)) :
    (valueSpec (T := T) k lbs).1 = none ↔ ∀ q ∈ lbs, answers (T := T) (RE := RE) k q = false := by
  rw [← firstAnswer_eq_none]
  unfold valueSpec valueSpecFrom
  cases firstAnswer (T := T) k lbs <;> simp

end FluentProofs.Fallback
