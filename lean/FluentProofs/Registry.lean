import FluentModel.Registry
/-!
# Lemmas for C10 (bundle registry is a keyed map)

* the finite-map law of the `FxHashMap` stand-in;
* the keyed-map specification `Spec = Id → Option Def` with its three operations;
* the index invariant `Inv` and the abstraction `abs` (what the stored indices point at);
* loop lemmas: both `add` loops preserve `Inv` and refine the specification, the error vector of
  `add_resource` is the specification's;
* declarative characterisations of the specification (first wins / last wins / exact error list).
-/
namespace FluentModel.Registry

/-! ## finite map -/

/-- **finite-map law** of the `FxHashMap` stand-in -/
theorem EMap.get_insert (m : EMap) (k : Id) (v : Entry) (k' : Id) :
    EMap.get (EMap.insert m k v) k' = if k = k' then some v else EMap.get m k' := by
  induction m with
  | nil => simp [EMap.insert, EMap.get]
  | cons p rest ih =>
    obtain ⟨k₁, v₁⟩ := p
    unfold EMap.insert
    by_cases h : k₁ = k
    · subst h
      by_cases h' : k₁ = k' <;> simp [EMap.get, h']
    · simp only [h, if_false, EMap.get]
      by_cases h1 : k₁ = k'
      · subst h1
        have : ¬ k = k₁ := fun e => h e.symm
        simp [this]
      · simp [h1, ih]

/-! ## the keyed-map specification -/

/-- what a keyed map `id → definition` holds for an id -/
inductive Def where
  | message (value : Option Text) (attrs : List Attr)
  | term (value : Text) (attrs : List Attr)
  | function (tag : Nat)
deriving DecidableEq, Repr

abbrev Spec := Id → Option Def

def Spec.empty : Spec := fun _ => none

def Spec.set (m : Spec) (id : Id) (d : Def) : Spec := fun i => if id = i then some d else m i

/-- id, kind and definition an AST entry contributes (nothing for Junk / comments) -/
def defOf : AstEntry → Option (Id × Kind × Def)
  | .message id v a => some (id, .message, .message v a)
  | .term id v a => some (id, .term, .term v a)
  | .other => none

/-- specification of `add_resource`: walk the entries in order; an id that is free takes the
definition, an id that is taken is reported and left alone -/
def specAdd : Spec → List AstEntry → Spec × List Overriding
  | m, [] => (m, [])
  | m, e :: rest =>
    match defOf e with
    | none => specAdd m rest
    | some (id, k, d) =>
      match m id with
      | none => specAdd (m.set id d) rest
      | some _ => ((specAdd m rest).1, ⟨k, id⟩ :: (specAdd m rest).2)

/-- specification of `add_resource_overriding`: every definition is stored, in order -/
def specAddOv : Spec → List AstEntry → Spec
  | m, [] => m
  | m, e :: rest =>
    match defOf e with
    | none => specAddOv m rest
    | some (id, _, d) => specAddOv (m.set id d) rest

/-- specification of `add_function` -/
def specFn (m : Spec) (id : Id) (tag : Nat) : Spec × Option Overriding :=
  match m id with
  | none => (m.set id (.function tag), none)
  | some _ => (m, some ⟨.function, id⟩)

def specStep (m : Spec) : Op → Spec × List Overriding
  | .add r => specAdd m r
  | .addOverriding r => (specAddOv m r, [])
  | .addFn id tag => ((specFn m id tag).1, (specFn m id tag).2.toList)

/-- the keyed map after a history -/
def specRun (ops : List Op) : Spec := ops.foldl (fun m op => (specStep m op).1) Spec.empty

/-! ## invariant and abstraction -/

/-- a stored entry for `id` is well formed w.r.t. the resources `rs`: its indices are in range and
point at an AST entry of the stored kind carrying the id it is stored under -/
def WF (rs : List Resource) (id : Id) : Entry → Prop
  | .message ri ei => ∃ v a, entryAt rs ri ei = some (.message id v a)
  | .term ri ei => ∃ v a, entryAt rs ri ei = some (.term id v a)
  | .function _ => True

def Inv (rs : List Resource) (es : EMap) : Prop :=
  ∀ id e, es.get id = some e → WF rs id e

/-- the definition a stored entry denotes (what a kind-checked lookup through the indices finds) -/
def absEntry (rs : List Resource) : Entry → Option Def
  | .message ri ei =>
    match entryAt rs ri ei with
    | some (.message _ v a) => some (.message v a)
    | _ => none
  | .term ri ei =>
    match entryAt rs ri ei with
    | some (.term _ v a) => some (.term v a)
    | _ => none
  | .function tag => some (.function tag)

def abs (rs : List Resource) (es : EMap) : Spec :=
  fun id => match es.get id with
    | none => none
    | some e => absEntry rs e

def Bundle.Inv (b : Bundle) : Prop := Registry.Inv b.resources b.entries

/-- the keyed map a bundle represents -/
def Bundle.abs (b : Bundle) : Spec := Registry.abs b.resources b.entries

theorem entryAt_append_left {rs : List Resource} {ri ei : Nat} {x : AstEntry} (r : Resource)
    (h : entryAt rs ri ei = some x) : entryAt (rs ++ [r]) ri ei = some x := by
  unfold entryAt at h ⊢
  cases hri : rs[ri]? with
  | none => simp [hri] at h
  | some res =>
    have hlt : ri < rs.length := by
      rcases List.getElem?_eq_some_iff.1 hri with ⟨hlt, _⟩; exact hlt
    rw [List.getElem?_append_left hlt, hri]
    simpa [hri] using h

theorem entryAt_append_new (rs : List Resource) (r : Resource) (ei : Nat) :
    entryAt (rs ++ [r]) rs.length ei = r[ei]? := by
  unfold entryAt
  simp

theorem WF.append {rs : List Resource} {id : Id} {e : Entry} (r : Resource) (h : WF rs id e) :
    WF (rs ++ [r]) id e := by
  cases e with
  | message ri ei => obtain ⟨v, a, h⟩ := h; exact ⟨v, a, entryAt_append_left r h⟩
  | term ri ei => obtain ⟨v, a, h⟩ := h; exact ⟨v, a, entryAt_append_left r h⟩
  | function t => trivial

theorem Inv.append {rs : List Resource} {es : EMap} (r : Resource) (h : Inv rs es) :
    Inv (rs ++ [r]) es := fun id e he => (h id e he).append r

theorem absEntry_append {rs : List Resource} {id : Id} {e : Entry} (r : Resource) (h : WF rs id e) :
    absEntry (rs ++ [r]) e = absEntry rs e := by
  cases e with
  | message ri ei =>
    obtain ⟨v, a, h⟩ := h
    simp [absEntry, h, entryAt_append_left r h]
  | term ri ei =>
    obtain ⟨v, a, h⟩ := h
    simp [absEntry, h, entryAt_append_left r h]
  | function t => rfl

theorem abs_append {rs : List Resource} {es : EMap} (r : Resource) (h : Inv rs es) :
    abs (rs ++ [r]) es = abs rs es := by
  funext id
  unfold abs
  cases he : es.get id with
  | none => rfl
  | some e => exact absEntry_append r (h id e he)

theorem absEntry_isSome {rs : List Resource} {id : Id} {e : Entry} (h : WF rs id e) :
    ∃ d, absEntry rs e = some d := by
  cases e with
  | message ri ei => obtain ⟨v, a, h⟩ := h; exact ⟨.message v a, by simp [absEntry, h]⟩
  | term ri ei => obtain ⟨v, a, h⟩ := h; exact ⟨.term v a, by simp [absEntry, h]⟩
  | function t => exact ⟨.function t, rfl⟩

/-- under the invariant an id is free in the index iff it is free in the keyed map -/
theorem abs_eq_none_iff {rs : List Resource} {es : EMap} (h : Inv rs es) (id : Id) :
    abs rs es id = none ↔ es.get id = none := by
  unfold abs
  cases he : es.get id with
  | none => simp
  | some e =>
    obtain ⟨d, hd⟩ := absEntry_isSome (h id e he)
    simp [hd]

theorem Inv.insert {rs : List Resource} {es : EMap} {id : Id} {e : Entry}
    (h : Inv rs es) (hw : WF rs id e) : Inv rs (es.insert id e) := by
  intro id' e' he'
  rw [EMap.get_insert] at he'
  by_cases hid : id = id'
  · subst hid
    simp at he'
    subst he'
    exact hw
  · simp [hid] at he'
    exact h id' e' he'

theorem abs_insert (rs : List Resource) (es : EMap) (id : Id) (e : Entry) (d : Def)
    (hd : absEntry rs e = some d) : abs rs (es.insert id e) = (abs rs es).set id d := by
  funext i
  unfold abs Spec.set
  rw [EMap.get_insert]
  by_cases hid : id = i
  · simp [hid, hd]
  · simp [hid]

/-! ## the loops refine the specification -/

/-- loop of `add_resource`, started at position `pos` of `body` with `rest` still to go -/
theorem addEntries_refines (rs : List Resource) (body : Resource) :
    ∀ (rest : List AstEntry) (pos : Nat) (es : EMap),
      body.drop pos = rest → Inv (rs ++ [body]) es →
      Inv (rs ++ [body]) (addEntries rs.length pos rest es).1 ∧
      abs (rs ++ [body]) (addEntries rs.length pos rest es).1
        = (specAdd (abs (rs ++ [body]) es) rest).1 ∧
      (addEntries rs.length pos rest es).2 = (specAdd (abs (rs ++ [body]) es) rest).2 := by
  intro rest
  induction rest with
  | nil => intro pos es _ h; exact ⟨h, rfl, rfl⟩
  | cons e rest ih =>
    intro pos es hdrop hinv
    have hpos : body[pos]? = some e := by
      have := congrArg (fun l => l[0]?) hdrop
      simpa using this
    have hdrop' : body.drop (pos + 1) = rest := by
      have := congrArg List.tail hdrop
      simpa using this
    have hat : entryAt (rs ++ [body]) rs.length pos = some e := by
      rw [entryAt_append_new]; exact hpos
    cases e with
    | other =>
      simp only [addEntries, keyOf, specAdd, defOf]
      exact ih (pos + 1) es hdrop' hinv
    | message id v a =>
      simp only [addEntries, keyOf, specAdd, defOf]
      cases hget : es.get id with
      | none =>
        have hnone : abs (rs ++ [body]) es id = none := (abs_eq_none_iff hinv id).2 hget
        have hw : WF (rs ++ [body]) id (.message rs.length pos) := ⟨v, a, hat⟩
        have hd : absEntry (rs ++ [body]) (.message rs.length pos) = some (.message v a) := by
          simp [absEntry, hat]
        simp only [hnone]
        have := ih (pos + 1) (es.insert id (.message rs.length pos)) hdrop' (hinv.insert hw)
        rw [abs_insert _ _ _ _ _ hd] at this
        exact this
      | some e0 =>
        have hsome : ∃ d, abs (rs ++ [body]) es id = some d := by
          obtain ⟨d, hd⟩ := absEntry_isSome (hinv id e0 hget)
          exact ⟨d, by simp [abs, hget, hd]⟩
        obtain ⟨d, hd⟩ := hsome
        simp only [hd]
        have := ih (pos + 1) es hdrop' hinv
        exact ⟨this.1, this.2.1, by rw [this.2.2]⟩
    | term id v a =>
      simp only [addEntries, keyOf, specAdd, defOf]
      cases hget : es.get id with
      | none =>
        have hnone : abs (rs ++ [body]) es id = none := (abs_eq_none_iff hinv id).2 hget
        have hw : WF (rs ++ [body]) id (.term rs.length pos) := ⟨v, a, hat⟩
        have hd : absEntry (rs ++ [body]) (.term rs.length pos) = some (.term v a) := by
          simp [absEntry, hat]
        simp only [hnone]
        have := ih (pos + 1) (es.insert id (.term rs.length pos)) hdrop' (hinv.insert hw)
        rw [abs_insert _ _ _ _ _ hd] at this
        exact this
      | some e0 =>
        have hsome : ∃ d, abs (rs ++ [body]) es id = some d := by
          obtain ⟨d, hd⟩ := absEntry_isSome (hinv id e0 hget)
          exact ⟨d, by simp [abs, hget, hd]⟩
        obtain ⟨d, hd⟩ := hsome
        simp only [hd]
        have := ih (pos + 1) es hdrop' hinv
        exact ⟨this.1, this.2.1, by rw [this.2.2]⟩

/-- loop of `add_resource_overriding` -/
theorem addEntriesOverriding_refines (rs : List Resource) (body : Resource) :
    ∀ (rest : List AstEntry) (pos : Nat) (es : EMap),
      body.drop pos = rest → Inv (rs ++ [body]) es →
      Inv (rs ++ [body]) (addEntriesOverriding rs.length pos rest es) ∧
      abs (rs ++ [body]) (addEntriesOverriding rs.length pos rest es)
        = specAddOv (abs (rs ++ [body]) es) rest := by
  intro rest
  induction rest with
  | nil => intro pos es _ h; exact ⟨h, rfl⟩
  | cons e rest ih =>
    intro pos es hdrop hinv
    have hpos : body[pos]? = some e := by
      have := congrArg (fun l => l[0]?) hdrop
      simpa using this
    have hdrop' : body.drop (pos + 1) = rest := by
      have := congrArg List.tail hdrop
      simpa using this
    have hat : entryAt (rs ++ [body]) rs.length pos = some e := by
      rw [entryAt_append_new]; exact hpos
    cases e with
    | other =>
      simp only [addEntriesOverriding, keyOf, specAddOv, defOf]
      exact ih (pos + 1) es hdrop' hinv
    | message id v a =>
      simp only [addEntriesOverriding, keyOf, specAddOv, defOf]
      have hw : WF (rs ++ [body]) id (.message rs.length pos) := ⟨v, a, hat⟩
      have hd : absEntry (rs ++ [body]) (.message rs.length pos) = some (.message v a) := by
        simp [absEntry, hat]
      have := ih (pos + 1) (es.insert id (.message rs.length pos)) hdrop' (hinv.insert hw)
      rw [abs_insert _ _ _ _ _ hd] at this
      exact this
    | term id v a =>
      simp only [addEntriesOverriding, keyOf, specAddOv, defOf]
      have hw : WF (rs ++ [body]) id (.term rs.length pos) := ⟨v, a, hat⟩
      have hd : absEntry (rs ++ [body]) (.term rs.length pos) = some (.term v a) := by
        simp [absEntry, hat]
      have := ih (pos + 1) (es.insert id (.term rs.length pos)) hdrop' (hinv.insert hw)
      rw [abs_insert _ _ _ _ _ hd] at this
      exact this

/-- `add_resource` preserves the invariant, refines `specAdd`, and returns the specification's errors -/
theorem addResource_refines (b : Bundle) (r : Resource) (h : b.Inv) :
    (addResource b r).1.Inv ∧ (addResource b r).1.abs = (specAdd b.abs r).1 ∧
      (addResource b r).2 = (specAdd b.abs r).2 := by
  have := addEntries_refines b.resources r r 0 b.entries (by simp) (Inv.append r h)
  rw [abs_append r h] at this
  exact this

theorem addResourceOverriding_refines (b : Bundle) (r : Resource) (h : b.Inv) :
    (addResourceOverriding b r).Inv ∧ (addResourceOverriding b r).abs = specAddOv b.abs r := by
  have := addEntriesOverriding_refines b.resources r r 0 b.entries (by simp) (Inv.append r h)
  rw [abs_append r h] at this
  exact this

theorem addFunction_refines (b : Bundle) (id : Id) (tag : Nat) (h : b.Inv) :
    (addFunction b id tag).1.Inv ∧ (addFunction b id tag).1.abs = (specFn b.abs id tag).1 ∧
      (addFunction b id tag).2 = (specFn b.abs id tag).2 := by
  unfold addFunction specFn
  cases hget : b.entries.get id with
  | none =>
    have hnone : b.abs id = none := (abs_eq_none_iff h id).2 hget
    simp only [hnone]
    refine ⟨Inv.insert h trivial, ?_, trivial⟩
    exact abs_insert _ _ _ _ _ rfl
  | some e0 =>
    obtain ⟨d, hd⟩ := absEntry_isSome (h id e0 hget)
    have hsome : b.abs id = some d := by simp [Bundle.abs, abs, hget, hd]
    simp only [hsome]
    exact ⟨h, trivial, trivial⟩

theorem step_refines (b : Bundle) (op : Op) (h : b.Inv) :
    (step b op).1.Inv ∧ (step b op).1.abs = (specStep b.abs op).1 ∧
      (step b op).2 = (specStep b.abs op).2 := by
  cases op with
  | add r => exact addResource_refines b r h
  | addOverriding r =>
    have := addResourceOverriding_refines b r h
    exact ⟨this.1, this.2, rfl⟩
  | addFn id tag =>
    have := addFunction_refines b id tag h
    exact ⟨this.1, this.2.1, by simp [step, specStep, this.2.2]⟩

theorem empty_inv : Bundle.empty.Inv := by
  intro id e he
  simp [Bundle.empty, EMap.get] at he

theorem empty_abs : Bundle.empty.abs = Spec.empty := by
  funext id
  simp [Bundle.abs, abs, Bundle.empty, EMap.get, Spec.empty]

theorem foldl_refines (ops : List Op) (b : Bundle) (m : Spec) (h : b.Inv) (hm : b.abs = m) :
    (ops.foldl (fun b op => (step b op).1) b).Inv ∧
    (ops.foldl (fun b op => (step b op).1) b).abs = ops.foldl (fun m op => (specStep m op).1) m := by
  induction ops generalizing b m with
  | nil => exact ⟨h, hm⟩
  | cons op ops ih =>
    have hs := step_refines b op h
    simp only [List.foldl_cons]
    exact ih _ _ hs.1 (by rw [hs.2.1, hm])

/-! ## lookups under the invariant -/

theorem getEntryMessage_eq (b : Bundle) (h : b.Inv) (id : Id) :
    getEntryMessage b id = match b.abs id with
      | some (.message v a) => some ⟨id, v, a⟩
      | _ => none := by
  unfold getEntryMessage Bundle.abs abs
  cases hget : b.entries.get id with
  | none => rfl
  | some e =>
    have hw := h id e hget
    cases e with
    | message ri ei => obtain ⟨v, a, hat⟩ := hw; simp [absEntry, hat]
    | term ri ei => obtain ⟨v, a, hat⟩ := hw; simp [absEntry, hat]
    | function t => simp [absEntry]

theorem getEntryTerm_eq (b : Bundle) (h : b.Inv) (id : Id) :
    getEntryTerm b id = match b.abs id with
      | some (.term v a) => some ⟨id, v, a⟩
      | _ => none := by
  unfold getEntryTerm Bundle.abs abs
  cases hget : b.entries.get id with
  | none => rfl
  | some e =>
    have hw := h id e hget
    cases e with
    | message ri ei => obtain ⟨v, a, hat⟩ := hw; simp [absEntry, hat]
    | term ri ei => obtain ⟨v, a, hat⟩ := hw; simp [absEntry, hat]
    | function t => simp [absEntry]

theorem getEntryFunction_eq (b : Bundle) (h : b.Inv) (id : Id) :
    getEntryFunction b id = match b.abs id with
      | some (.function t) => some t
      | _ => none := by
  unfold getEntryFunction Bundle.abs abs
  cases hget : b.entries.get id with
  | none => rfl
  | some e =>
    have hw := h id e hget
    cases e with
    | message ri ei => obtain ⟨v, a, hat⟩ := hw; simp [absEntry, hat]
    | term ri ei => obtain ⟨v, a, hat⟩ := hw; simp [absEntry, hat]
    | function t => simp [absEntry]

/-! ## what the specification means -/

/-- first definition of `id` in a resource -/
def firstDef (r : List AstEntry) (id : Id) : Option Def :=
  r.findSome? fun e => match defOf e with
    | some (i, _, d) => if i = id then some d else none
    | none => none

/-- last definition of `id` in a resource -/
def lastDef (r : List AstEntry) (id : Id) : Option Def := firstDef r.reverse id

/-- ids defined by a list of entries -/
def idsOf (r : List AstEntry) : List Id := r.filterMap fun e => (defOf e).map (·.1)

theorem firstDef_eq_none_iff (r : List AstEntry) (id : Id) : firstDef r id = none ↔ id ∉ idsOf r := by
  induction r with
  | nil => simp [firstDef, idsOf]
  | cons e rest ih =>
    unfold firstDef idsOf at *
    cases e with
    | other => simpa [defOf] using ih
    | message i v a =>
      by_cases hi : i = id
      · simp [defOf, hi]
      · have : ¬ id = i := fun e => hi e.symm
        simpa [defOf, hi, this] using ih
    | term i v a =>
      by_cases hi : i = id
      · simp [defOf, hi]
      · have : ¬ id = i := fun e => hi e.symm
        simpa [defOf, hi, this] using ih

/-- **first wins**: after `add_resource` an id keeps the definition it had; a free id gets the first
definition the resource gives it -/
theorem specAdd_lookup (m : Spec) (r : List AstEntry) (id : Id) :
    (specAdd m r).1 id = match m id with
      | some d => some d
      | none => firstDef r id := by
  induction r generalizing m with
  | nil => cases h : m id <;> simp [specAdd, firstDef, h]
  | cons e rest ih =>
    cases e with
    | other =>
      simp only [specAdd, defOf]
      rw [ih]
      cases m id <;> simp [firstDef, defOf]
    | message i v a =>
      simp only [specAdd, defOf]
      cases hmi : m i with
      | none =>
        simp only [ih, Spec.set]
        by_cases hi : i = id
        · subst hi; simp [hmi, firstDef, defOf]
        · simp only [hi, if_false]
          cases m id <;> simp [firstDef, defOf, hi]
      | some d0 =>
        simp only [ih]
        by_cases hi : i = id
        · subst hi; simp [hmi]
        · cases m id <;> simp [firstDef, defOf, hi]
    | term i v a =>
      simp only [specAdd, defOf]
      cases hmi : m i with
      | none =>
        simp only [ih, Spec.set]
        by_cases hi : i = id
        · subst hi; simp [hmi, firstDef, defOf]
        · simp only [hi, if_false]
          cases m id <;> simp [firstDef, defOf, hi]
      | some d0 =>
        simp only [ih]
        by_cases hi : i = id
        · subst hi; simp [hmi]
        · cases m id <;> simp [firstDef, defOf, hi]

theorem firstDef_append (r₁ r₂ : List AstEntry) (id : Id) :
    firstDef (r₁ ++ r₂) id = match firstDef r₁ id with
      | some d => some d
      | none => firstDef r₂ id := by
  unfold firstDef
  rw [List.findSome?_append]
  cases List.findSome? _ r₁ <;> rfl

/-- **last wins**: after `add_resource_overriding` an id has the last definition the resource gives
it, or keeps what it had when the resource does not define it -/
theorem specAddOv_lookup (m : Spec) (r : List AstEntry) (id : Id) :
    specAddOv m r id = match lastDef r id with
      | some d => some d
      | none => m id := by
  induction r generalizing m with
  | nil => simp [specAddOv, lastDef, firstDef]
  | cons e rest ih =>
    have hl : lastDef (e :: rest) id = match lastDef rest id with
        | some d => some d
        | none => firstDef [e] id := by
      simp only [lastDef, List.reverse_cons]
      exact firstDef_append _ _ _
    rw [hl]
    cases e with
    | other =>
      simp only [specAddOv, defOf]
      rw [ih]
      cases lastDef rest id <;> simp [firstDef, defOf]
    | message i v a =>
      simp only [specAddOv, defOf]
      rw [ih]
      cases lastDef rest id with
      | some d => rfl
      | none =>
        by_cases hi : i = id <;> simp [Spec.set, firstDef, defOf, hi]
    | term i v a =>
      simp only [specAddOv, defOf]
      rw [ih]
      cases lastDef rest id with
      | some d => rfl
      | none =>
        by_cases hi : i = id <;> simp [Spec.set, firstDef, defOf, hi]

/-- the exact error vector `add_resource` must return: walking the resource in order, an entry is
reported (with its own kind and id) iff its id was defined before the call (`taken`) or is defined
by an earlier entry of this resource (`pre`) -/
def expectedErrors (taken : Id → Bool) : List AstEntry → List AstEntry → List Overriding
  | _, [] => []
  | pre, e :: rest =>
    (match defOf e with
      | some (id, k, _) => if taken id || (idsOf pre).contains id then [⟨k, id⟩] else []
      | none => []) ++ expectedErrors taken (pre ++ [e]) rest

theorem idsOf_append (a b : List AstEntry) : idsOf (a ++ b) = idsOf a ++ idsOf b := by
  simp [idsOf, List.filterMap_append]

theorem mem_idsOf_snoc (pre : List AstEntry) (e : AstEntry) (id : Id) :
    id ∈ idsOf (pre ++ [e]) ↔ (id ∈ idsOf pre ∨ (defOf e).map (·.1) = some id) := by
  rw [idsOf_append, List.mem_append]
  cases h : defOf e <;> simp [idsOf, h, eq_comm]

theorem specAdd_errors_aux (m0 : Spec) (rest : List AstEntry) :
    ∀ (pre : List AstEntry) (m : Spec),
      (∀ id, (m id).isSome = true ↔ ((m0 id).isSome = true ∨ id ∈ idsOf pre)) →
      (specAdd m rest).2 = expectedErrors (fun id => (m0 id).isSome) pre rest := by
  induction rest with
  | nil => intro pre m _; rfl
  | cons e rest ih =>
    intro pre m hm
    cases hde : defOf e with
    | none =>
      simp only [specAdd, hde, expectedErrors, List.nil_append]
      apply ih
      intro id
      rw [mem_idsOf_snoc, hde, hm id]
      simp
    | some p =>
      obtain ⟨i, k, d⟩ := p
      simp only [specAdd, hde, expectedErrors]
      cases hmi : m i with
      | none =>
        have h1 : ¬ ((m0 i).isSome = true ∨ i ∈ idsOf pre) := by
          rw [← hm i, hmi]; simp
        have hc : ((m0 i).isSome || (idsOf pre).contains i) = false := by
          simp only [not_or] at h1
          simp [h1.1, h1.2]
        simp only [hc, Bool.false_eq_true, if_false, List.nil_append]
        apply ih
        intro id
        rw [mem_idsOf_snoc, hde]
        by_cases hi : i = id
        · subst hi; simp [Spec.set]
        · simp [Spec.set, hi, hm id]
      | some d0 =>
        have h1 : ((m0 i).isSome = true ∨ i ∈ idsOf pre) := by
          rw [← hm i, hmi]; rfl
        have hc : ((m0 i).isSome || (idsOf pre).contains i) = true := by
          rcases h1 with h1 | h1 <;> simp [h1]
        simp only [hc, if_true, List.singleton_append]
        congr 1
        apply ih
        intro id
        rw [mem_idsOf_snoc, hde]
        by_cases hi : i = id
        · subst hi; rw [hmi]; simp
        · simp [hi, hm id]

/-- **exact error list** of the specification -/
theorem specAdd_errors (m : Spec) (r : List AstEntry) :
    (specAdd m r).2 = expectedErrors (fun id => (m id).isSome) [] r :=
  specAdd_errors_aux m r [] m (by intro id; simp [idsOf])

end FluentModel.Registry

namespace FluentModel.Registry

/-! ## traces of returned errors -/

/-- the error vectors returned by the calls of a history, in order -/
def trace : Bundle → List Op → List (List Overriding)
  | _, [] => []
  | b, op :: ops => (step b op).2 :: trace (step b op).1 ops

def specTrace : Spec → List Op → List (List Overriding)
  | _, [] => []
  | m, op :: ops => (specStep m op).2 :: specTrace (specStep m op).1 ops

theorem trace_refines (ops : List Op) (b : Bundle) (h : b.Inv) :
    trace b ops = specTrace b.abs ops := by
  induction ops generalizing b with
  | nil => rfl
  | cons op ops ih =>
    have hs := step_refines b op h
    simp only [trace, specTrace]
    rw [ih _ hs.1, hs.2.1, hs.2.2]

/-! ## histories of one kind of call -/

theorem specAdd_fold_lookup (rs : List Resource) (m : Spec) (id : Id) :
    (rs.foldl (fun m r => (specAdd m r).1) m) id = match m id with
      | some d => some d
      | none => firstDef rs.flatten id := by
  induction rs generalizing m with
  | nil => cases h : m id <;> simp [firstDef, h]
  | cons r rs ih =>
    simp only [List.foldl_cons, List.flatten_cons]
    rw [ih, specAdd_lookup, firstDef_append]
    cases m id <;> simp

theorem lastDef_append (r₁ r₂ : List AstEntry) (id : Id) :
    lastDef (r₁ ++ r₂) id = match lastDef r₂ id with
      | some d => some d
      | none => lastDef r₁ id := by
  simp only [lastDef, List.reverse_append]
  exact firstDef_append _ _ _

theorem specAddOv_fold_lookup (rs : List Resource) (m : Spec) (id : Id) :
    (rs.foldl (fun m r => specAddOv m r) m) id = match lastDef rs.flatten id with
      | some d => some d
      | none => m id := by
  induction rs generalizing m with
  | nil => simp [lastDef, firstDef]
  | cons r rs ih =>
    simp only [List.foldl_cons, List.flatten_cons]
    rw [ih, specAddOv_lookup, lastDef_append]
    cases lastDef rs.flatten id <;> simp

end FluentModel.Registry
