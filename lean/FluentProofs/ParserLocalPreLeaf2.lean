import FluentProofs.ParserLocalPreLeaf
/-!
# Locality of the parser, PREFIX family, part 2: the leaf scanners that produce values

Numbers, identifiers, string literals, text slices and comment lines started below `n` do the same on both sources
(`Pre n s₁ s₂`) and stop at or before the line feed at `n - 1`.
-/
namespace FluentProofs.Parser
open FluentModel.Syntax

section
variable {n : Nat} {s₁ s₂ : Src}

/-! ## numbers, identifiers -/

theorem getNumberLiteral_pre (h : Pre n s₁ s₂) {p : Nat} (hp : p < n) :
    getNumberLiteral s₂ p = getNumberLiteral s₁ p ∧ ∀ sp q, getNumberLiteral s₁ p = .ok sp q → q < n := by
  unfold getNumberLiteral
  rw [takeByteIf_pre h hp]
  have hp1 : (takeByteIf s₁ p 45).1 < n := by
    rcases takeByteIf_cases s₁ p 45 with ⟨e, hb⟩ | ⟨e, _⟩ <;> rw [e]
    · exact h.succ_lt hb (by decide)
    · exact hp
  generalize takeByteIf s₁ p 45 = t at hp1 ⊢
  obtain ⟨p1, m⟩ := t
  simp only [] at hp1 ⊢
  rw [skipDigits_pre h hp1]
  cases hd : skipDigits s₁ p1 with
  | ok u p2 =>
    simp only []
    have hp2 := skipDigits_lt_n h hp1 hd
    rw [takeByteIf_pre h hp2]
    have hp3 : (takeByteIf s₁ p2 46).1 < n := by
      rcases takeByteIf_cases s₁ p2 46 with ⟨e, hb⟩ | ⟨e, _⟩ <;> rw [e]
      · exact h.succ_lt hb (by decide)
      · exact hp2
    generalize takeByteIf s₁ p2 46 = t at hp3 ⊢
    obtain ⟨p3, dot⟩ := t
    simp only [] at hp3 ⊢
    cases dot with
    | true =>
      simp only [if_true]
      rw [skipDigits_pre h hp3]
      cases hd2 : skipDigits s₁ p3 with
      | ok u p4 =>
        simp only []
        have hp4 := skipDigits_lt_n h hp3 hd2
        rw [slice_pre h p (Nat.le_of_lt hp4)]
        refine ⟨rfl, ?_⟩
        intro sp q hq
        split at hq
        · injection hq with _ h2; omega
        · cases hq
      | err e q => exact ⟨rfl, by intro sp q hq; cases hq⟩
      | panic m => exact ⟨rfl, by intro sp q hq; cases hq⟩
      | fuel => exact ⟨rfl, by intro sp q hq; cases hq⟩
    | false =>
      simp only [Bool.false_eq_true, if_false]
      rw [slice_pre h p (Nat.le_of_lt hp3)]
      refine ⟨rfl, ?_⟩
      intro sp q hq
      split at hq
      · injection hq with _ h2; omega
      · cases hq
  | err e q => exact ⟨rfl, by intro sp q hq; cases hq⟩
  | panic m => exact ⟨rfl, by intro sp q hq; cases hq⟩
  | fuel => exact ⟨rfl, by intro sp q hq; cases hq⟩

theorem getIdentifierUnchecked_pre (h : Pre n s₁ s₂) {p : Nat} (hp : p < n) :
    getIdentifierUnchecked s₂ p = getIdentifierUnchecked s₁ p ∧
      ∀ sp q, getIdentifierUnchecked s₁ p = .ok sp q → q < n ∧ sp.stop = q := by
  unfold getIdentifierUnchecked
  have hlt := scanWhile_lt_n h isIdentByte (by decide) hp
  simp only [scanWhile_pre h isIdentByte (by decide) hp]
  cases usub p 1 with
  | none => exact ⟨rfl, by intro sp q hq; cases hq⟩
  | some a =>
    simp only []
    rw [slice_pre h a (Nat.le_of_lt hlt)]
    refine ⟨rfl, ?_⟩
    intro sp q hq
    split at hq
    · rename_i sp' hsl
      obtain ⟨rfl, _⟩ := slice_eq_some hsl
      injection hq with h1 h2
      subst h1 h2
      exact ⟨hlt, rfl⟩
    · cases hq

theorem getIdentifier_pre (h : Pre n s₁ s₂) {p : Nat} (hp : p < n) :
    getIdentifier s₂ p = getIdentifier s₁ p ∧ ∀ sp q, getIdentifier s₁ p = .ok sp q → q < n ∧ sp.stop = q := by
  unfold getIdentifier
  rw [isIdentifierStart_pre h hp]
  split
  · exact ⟨rfl, by intro sp q hq; cases hq⟩
  · rename_i hc
    have hc : isIdentifierStart s₁ p = true := by simpa using hc
    obtain ⟨b, hb, ha⟩ := (isIdentifierStart_iff s₁ p).mp hc
    have hne : b ≠ 10 := by intro e; subst e; revert ha; decide
    exact getIdentifierUnchecked_pre h (h.succ_lt hb hne)

theorem getAttributeAccessor_pre (h : Pre n s₁ s₂) {p : Nat} (hp : p < n) :
    getAttributeAccessor s₂ p = getAttributeAccessor s₁ p ∧ ∀ o q, getAttributeAccessor s₁ p = .ok o q → q < n := by
  unfold getAttributeAccessor
  rw [takeByteIf_pre h hp]
  rcases takeByteIf_cases s₁ p 46 with ⟨e, hb⟩ | ⟨e, _⟩ <;> rw [e] <;> simp only []
  · have hlt := h.succ_lt hb (by decide)
    have := getIdentifier_pre h hlt
    rw [this.1]
    simp only [if_true]
    refine ⟨trivial, ?_⟩
    intro o q hq
    cases hid : getIdentifier s₁ (p + 1) with
    | ok id q' =>
      rw [hid] at hq
      injection hq with _ h2
      have := (this.2 id q' hid).1
      omega
    | err e q' => rw [hid] at hq; cases hq
    | panic m => rw [hid] at hq; cases hq
    | fuel => rw [hid] at hq; cases hq
  · simp only [Bool.false_eq_true, if_false]
    refine ⟨trivial, ?_⟩
    intro o q hq
    injection hq with _ h2; omega

/-! ## string literals (successful runs only) -/

theorem skipHexGo_pre (h : Pre n s₁ s₂) (len p : Nat) (hp : p < n) :
    skipHexGo s₂ len p = skipHexGo s₁ len p ∧ skipHexGo s₁ len p < n := by
  induction len generalizing p with
  | zero => exact ⟨rfl, hp⟩
  | succ len ih =>
    simp only [skipHexGo, h.get p hp]
    split
    · rename_i b hb
      split
      · rename_i hx
        have hne : b ≠ 10 := by intro e; subst e; revert hx; decide
        exact ih (p + 1) (h.succ_lt hb hne)
      · exact ⟨rfl, hp⟩
    · exact ⟨rfl, hp⟩

theorem skipUnicodeEscapeSequence_pre (h : Pre n s₁ s₂) {p len : Nat} (hp : p < n) :
    ∀ u q, skipUnicodeEscapeSequence s₁ p len = .ok u q → skipUnicodeEscapeSequence s₂ p len = .ok u q ∧ q < n := by
  unfold skipUnicodeEscapeSequence
  simp only [(skipHexGo_pre h len p hp).1]
  have hlt := (skipHexGo_pre h len p hp).2
  split
  · intro u q hr
    split at hr <;> cases hr
  · intro u q hr
    injection hr with h1 h2
    subst h2
    exact ⟨rfl, hlt⟩

theorem scanStringGo_pre (h : Pre n s₁ s₂) (k₁ k₂ p : Nat) (hp : p < n) (h1 : n - p ≤ k₁) (h2 : n - p ≤ k₂) :
    ∀ u q, scanStringGo s₁ k₁ p = .ok u q → scanStringGo s₂ k₂ p = .ok u q ∧ q < n := by
  induction k₁ generalizing k₂ p with
  | zero => omega
  | succ k₁ ih =>
    cases k₂ with
    | zero => omega
    | succ k₂ =>
      simp only [scanStringGo, h.get p hp]
      split
      · intro u q hr; injection hr with h1 h2; subst h2; exact ⟨rfl, hp⟩
      · rename_i hb
        have hlt := h.succ_lt hb (by decide)
        rw [h.get _ hlt]
        split
        · rename_i hb1
          have hlt2 := h.succ_lt hb1 (by decide)
          exact ih k₂ (p + 2) hlt2 (by omega) (by omega)
        · rename_i hb1
          have hlt2 := h.succ_lt hb1 (by decide)
          exact ih k₂ (p + 2) hlt2 (by omega) (by omega)
        · rename_i hb1
          have hlt2 := h.succ_lt hb1 (by decide)
          cases hs : skipUnicodeEscapeSequence s₁ (p + 2) 4 with
          | ok u' q' =>
            have hm := skipUnicodeEscapeSequence_mono s₁ (p + 2) 4
            rw [hs] at hm
            simp only [mono_ok] at hm
            have := skipUnicodeEscapeSequence_pre h hlt2 u' q' hs
            simp only [this.1]
            exact ih k₂ q' this.2 (by omega) (by omega)
          | err e q' => intro u q hr; cases hr
          | panic m => intro u q hr; cases hr
          | fuel => intro u q hr; cases hr
        · rename_i hb1
          have hlt2 := h.succ_lt hb1 (by decide)
          cases hs : skipUnicodeEscapeSequence s₁ (p + 2) 6 with
          | ok u' q' =>
            have hm := skipUnicodeEscapeSequence_mono s₁ (p + 2) 6
            rw [hs] at hm
            simp only [mono_ok] at hm
            have := skipUnicodeEscapeSequence_pre h hlt2 u' q' hs
            simp only [this.1]
            exact ih k₂ q' this.2 (by omega) (by omega)
          | err e q' => intro u q hr; cases hr
          | panic m => intro u q hr; cases hr
          | fuel => intro u q hr; cases hr
        · intro u q hr; cases hr
      · intro u q hr; injection hr with h1 h2; subst h2; exact ⟨rfl, hp⟩
      · intro u q hr; cases hr
      · rename_i b _ _ hne hb
        have hlt := h.succ_lt hb hne
        exact ih k₂ (p + 1) hlt (by omega) (by omega)

theorem scanString_pre (h : Pre n s₁ s₂) {p : Nat} (hp : p < n) :
    ∀ u q, scanString s₁ p = .ok u q → scanString s₂ p = .ok u q ∧ q < n :=
  scanStringGo_pre h _ _ p hp (by have := h.size; omega) (by have := h.le₂; omega)

/-! ## text slices -/

theorem memchr3Go_pre (h : Pre n s₁ s₂) (k₁ k₂ p : Nat) (hp : p < n) (h1 : n - p ≤ k₁) (h2 : n - p ≤ k₂) :
    memchr3Go s₂ k₂ p = memchr3Go s₁ k₁ p ∧ ∃ e, memchr3Go s₁ k₁ p = some e ∧ e < n := by
  induction k₁ generalizing k₂ p with
  | zero => omega
  | succ k₁ ih =>
    cases k₂ with
    | zero => omega
    | succ k₂ =>
      simp only [memchr3Go, h.get p hp]
      split
      · rename_i h0
        have : s₁.size ≤ p := by simpa using h0
        have := h.size; omega
      · rename_i b hb
        split
        · exact ⟨rfl, p, rfl, hp⟩
        · rename_i hc
          have hne : b ≠ 10 := by intro e; subst e; simp at hc
          exact ih k₂ (p + 1) (h.succ_lt hb hne) (by omega) (by omega)

theorem memchr3_pre (h : Pre n s₁ s₂) {p : Nat} (hp : p < n) :
    memchr3 s₂ p = memchr3 s₁ p ∧ ∃ e, memchr3 s₁ p = some e ∧ e < n :=
  memchr3Go_pre h _ _ p hp (by have := h.size; omega) (by have := h.le₂; omega)

theorem getTextSlice_pre (h : Pre n s₁ s₂) {p : Nat} (hp : p < n) : getTextSlice s₂ p = getTextSlice s₁ p := by
  obtain ⟨e1, e, he, hlt⟩ := memchr3_pre h hp
  have hge : p ≤ e := memchr3Go_ge he
  unfold getTextSlice
  have hs1 : ¬ p > s₁.size := by have := h.size; omega
  have hs2 : ¬ p > s₂.size := by have := h.le₂; omega
  rw [if_neg hs1, if_neg hs2, e1, he]
  simp only []
  rw [h.get e hlt]
  split
  · rfl
  · by_cases hgt : e > p
    · rw [h.get (e - 1) (by omega), nonBlank_pre h p (b := e - 1) (by omega), nonBlank_pre h p (b := e) (by omega)]
    · simp only [hgt, false_and, if_false]
      rw [nonBlank_pre h p (b := e) (by omega)]
  · rw [nonBlank_pre h p (b := e) (by omega)]
  · rfl

/-- where a text slice of `s₁` can end -/
theorem getTextSlice_n (h : Pre n s₁ s₂) {p : Nat} (hp : p < n) {start stop : Nat} {nb : Bool} {term : Termination} {q : Nat}
    (hr : getTextSlice s₁ p = .ok (start, stop, nb, term) q) :
    start = p ∧ stop ≤ n ∧ q ≤ n ∧ (q = n → term = .lineFeed) := by
  obtain ⟨_, e, he, hlt⟩ := memchr3_pre h hp
  have hge : p ≤ e := memchr3Go_ge he
  unfold getTextSlice at hr
  have hs1 : ¬ p > s₁.size := by have := h.size; omega
  rw [if_neg hs1, he] at hr
  simp only [] at hr
  split at hr
  · cases hr
  · split at hr
    · simp only [R.ok.injEq, Prod.mk.injEq] at hr
      obtain ⟨⟨rfl, rfl, _, rfl⟩, rfl⟩ := hr
      exact ⟨rfl, by omega, by omega, fun hq => by omega⟩
    · simp only [R.ok.injEq, Prod.mk.injEq] at hr
      obtain ⟨⟨rfl, rfl, _, rfl⟩, rfl⟩ := hr
      exact ⟨rfl, by omega, by omega, fun _ => rfl⟩
  · simp only [R.ok.injEq, Prod.mk.injEq] at hr
    obtain ⟨⟨rfl, rfl, _, rfl⟩, rfl⟩ := hr
    exact ⟨rfl, by omega, by omega, fun hq => by omega⟩
  · cases hr

/-! ## comments -/

theorem getCommentLevel_pre (h : Pre n s₁ s₂) {p : Nat} (hp : p ≤ n) : getCommentLevel s₂ p = getCommentLevel s₁ p := by
  unfold getCommentLevel
  rw [h.cur hp (by decide)]
  split
  · rename_i hc
    have hlt := h.succ_lt ((isCurrentByte_iff _ _ _).mp hc) (by decide)
    rw [h.cur_lt hlt]
    split
    · rename_i hc1
      have hlt2 := h.succ_lt ((isCurrentByte_iff _ _ _).mp hc1) (by decide)
      rw [h.cur_lt hlt2]
    · rfl
  · rfl

theorem commentLineEndGo_pre (h : Pre n s₁ s₂) (k₁ k₂ p : Nat) (hp : p < n) (h1 : n - p ≤ k₁) (h2 : n - p ≤ k₂) :
    commentLineEndGo s₂ k₂ p = commentLineEndGo s₁ k₁ p ∧ commentLineEndGo s₁ k₁ p < n := by
  induction k₁ generalizing k₂ p with
  | zero => omega
  | succ k₁ ih =>
    cases k₂ with
    | zero => omega
    | succ k₂ =>
      simp only [commentLineEndGo, isEol_pre h hp]
      split
      · exact ⟨rfl, hp⟩
      · rename_i hc
        have hlt : p + 1 < n := by
          by_cases he : p + 1 = n
          · have h10 := h.last₁ (by omega)
            rw [show n - 1 = p by omega] at h10
            exact absurd (by simp [isEol, h10]) hc
          · omega
        exact ih k₂ (p + 1) hlt (by omega) (by omega)

theorem getCommentLine_pre (h : Pre n s₁ s₂) {p : Nat} (hp : p < n) :
    getCommentLine s₂ p = getCommentLine s₁ p ∧ ∀ sp q, getCommentLine s₁ p = .ok sp q → q < n := by
  have hc := commentLineEndGo_pre h (s₁.size - p) (s₂.size - p) p hp (by have := h.size; omega) (by have := h.le₂; omega)
  unfold getCommentLine
  simp only [hc.1]
  rw [slice_pre h p (Nat.le_of_lt hc.2)]
  refine ⟨rfl, ?_⟩
  intro sp q hq
  split at hq
  · injection hq with _ h2; rw [← h2]; exact hc.2
  · cases hq

theorem skipCommentGo_pre (h : Pre n s₁ s₂) (k₁ k₂ p : Nat) (hp : p < n) (h1 : n - p ≤ k₁) (h2 : n - p ≤ k₂) :
    skipCommentGo s₂ k₂ p = skipCommentGo s₁ k₁ p ∧ skipCommentGo s₁ k₁ p ≤ n := by
  induction k₁ generalizing k₂ p with
  | zero => omega
  | succ k₁ ih =>
    cases k₂ with
    | zero => omega
    | succ k₂ =>
      have hc := commentLineEndGo_pre h (s₁.size - p) (s₂.size - p) p hp (by have := h.size; omega) (by have := h.le₂; omega)
      have hge := (commentLineEnd_eol s₁ p).1
      simp only [skipCommentGo, hc.1]
      rw [h.cur (p := commentLineEndGo s₁ (s₁.size - p) p + 1) (by omega) (by decide)]
      split
      · rename_i hc35
        have hlt := h.succ_lt ((isCurrentByte_iff _ _ _).mp hc35) (by decide)
        exact ih k₂ _ hlt (by omega) (by omega)
      · exact ⟨rfl, by omega⟩

theorem skipComment_pre (h : Pre n s₁ s₂) {p : Nat} (hp : p < n) :
    skipComment s₂ p = skipComment s₁ p ∧ skipComment s₁ p ≤ n :=
  skipCommentGo_pre h _ _ p hp (by have := h.size; omega) (by have := h.le₂; omega)

end
end FluentProofs.Parser
