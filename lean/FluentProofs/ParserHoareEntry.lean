import FluentProofs.ParserHoareExpr
/-!
# C01 helpers: attributes, messages, terms, entries (Hoare lemmas with the driver's fuel)
-/
namespace FluentProofs.Parser
open FluentModel.Syntax

theorem getAttribute_good {s : Src} (hs : AsciiThenBoundary s) (p : Nat) (hp : p ≤ s.size) :
    Good s p (getAttribute s (exprFuel s) p) (fun a q => p < q ∧ Bnd s q ∧ allAttr (VSpan s) a) := by
  unfold getAttribute
  rcases (getIdentifier_good hs p hp).cases with ⟨id, q, hr, h1, h2, h3, h4, h5, _⟩ | ⟨e, q, hr, h1, h2⟩ <;> simp only [hr]
  · have hA := skipBlankInline_after s q
    have h6 := hA.le
    have h7 := hA.le_size h2
    rcases (expectByte_good s _ 61 h7).cases with ⟨_, q2, hr2, h8, h9, h10, h11⟩ | ⟨e, q2, hr2, h8, h9⟩ <;> simp only [hr2]
    · subst h10
      rcases (getPattern_good hs _ h9 (bnd_succ hs h11 (by decide))).cases with ⟨o, q3, hr3, h12, h13, h14, h15⟩ | ⟨e, q3, hr3, h12, h13⟩ <;>
        simp only [hr3]
      · cases o with
        | none => simp; omega
        | some pat => exact (good_ok _ _ _ _ _).mpr ⟨by omega, h13, by omega, h14, h5, h15 pat rfl⟩
      · simp; omega
    · simp; omega
  · simp; omega

theorem getAttributesGo_good {s : Src} (hs : AsciiThenBoundary s) (n : Nat) (acc : List (Attribute Span)) (p : Nat)
    (hp : p ≤ s.size) (hb : Bnd s p) (hn : s.size - p + 1 ≤ n) (hacc : ∀ a ∈ acc, allAttr (VSpan s) a) :
    Good s p (getAttributesGo s (exprFuel s) n acc p) (fun attrs q => Bnd s q ∧ ∀ a ∈ attrs, allAttr (VSpan s) a) := by
  induction n generalizing acc p with
  | zero => omega
  | succ n ih =>
    simp only [getAttributesGo]
    have hA := skipBlankInline_after s p
    have h1 := hA.le
    have h2 := hA.le_size hp
    have hstop : Good s p (R.ok acc p) (fun attrs q => Bnd s q ∧ ∀ a ∈ attrs, allAttr (VSpan s) a) :=
      (good_ok _ _ _ _ _).mpr ⟨Nat.le_refl _, hp, hb, hacc⟩
    rcases takeByteIf_cases s (skipBlankInline s p) 46 with ⟨h, h'⟩ | ⟨h, _⟩ <;> rw [h] <;> simp only []
    · have hlt := get_lt h'
      simp only [Bool.not_true, Bool.false_eq_true, if_false]
      rcases (getAttribute_good hs (skipBlankInline s p + 1) (by omega)).cases with ⟨a, q, hr, h3, h4, h5, h6, h7⟩ | ⟨e, q, hr, h3, h4⟩ <;>
        simp only [hr]
      · refine (ih _ q h4 h6 (by omega) ?_).mono (by omega) (fun _ _ _ _ h => h)
        intro x hx
        simp only [List.mem_append, List.mem_singleton] at hx
        rcases hx with hx | rfl
        · exact hacc x hx
        · exact h7
      · exact hstop
    · simpa using hstop

theorem getAttributes_good {s : Src} (hs : AsciiThenBoundary s) (p : Nat) (hp : p ≤ s.size) (hb : Bnd s p) :
    Good s p (getAttributes s (exprFuel s) p) (fun attrs q => Bnd s q ∧ ∀ a ∈ attrs, allAttr (VSpan s) a) :=
  getAttributesGo_good hs _ [] p hp hb (Nat.le_refl _) (by simp)

/-- postcondition of an entry parser started at `p`: either it failed right at `p` on a byte that junk
recovery will step over, or it consumed at least one byte -/
def EntryPost (s : Src) (p : Nat) (r : R (Entry Span)) : Prop :=
  (∃ e, r = .err e p ∧ ∀ b, s[p]? = some b → isEntryByte b = false) ∨
  Good s (p + 1) r (fun e q => Bnd s q ∧ allEntry (VSpan s) e)

theorem getMessage_good {s : Src} (hs : AsciiThenBoundary s) (es p : Nat) (hp : p ≤ s.size) :
    (isIdentifierStart s p = false ∧ ∃ e, getMessage s (exprFuel s) es p = .err e p) ∨
    Good s (p + 1) (getMessage s (exprFuel s) es p) (fun m q => Bnd s q ∧ allEntry (VSpan s) (.message m)) := by
  unfold getMessage
  rcases hid : getIdentifier s p with ⟨id, q⟩ | ⟨e, q⟩ | m | _
  · right
    have hg := getIdentifier_good hs p hp
    rw [hid] at hg
    obtain ⟨h1, h2, h3, h4, h5, _⟩ := hg
    simp only []
    have hA := skipBlankInline_after s q
    have h6 := hA.le
    have h7 := hA.le_size h2
    rcases (expectByte_good s _ 61 h7).cases with ⟨_, q2, hr2, h8, h9, h10, h11⟩ | ⟨e, q2, hr2, h8, h9⟩ <;> simp only [hr2]
    · subst h10
      rcases (getPattern_good hs _ h9 (bnd_succ hs h11 (by decide))).cases with ⟨o, q3, hr3, h12, h13, h14, h15⟩ | ⟨e, q3, hr3, h12, h13⟩ <;>
        simp only [hr3]
      · have hA2 := skipBlankBlock_after s q3
        have h16 := hA2.le
        have h17 := hA2.le_size h13
        rcases (getAttributes_good hs _ h17 (hA2.bnd hs h14)).cases with ⟨attrs, q5, hr5, h18, h19, h20, h21⟩ | ⟨e, q5, hr5, h18, h19⟩ <;>
          simp only [hr5]
        · split
          · simp; omega
          · refine (good_ok _ _ _ _ _).mpr ⟨by omega, h19, h20, h5, ?_, h21, ?_⟩
            · intro v hv; exact h15 v hv
            · intro c hc; simp at hc
        · simp; omega
      · simp; omega
    · simp; omega
  · left
    have := getIdentifier_err_start hid
    obtain ⟨rfl, h2⟩ := this
    exact ⟨h2, e, rfl⟩
  · have hg := getIdentifier_good hs p hp
    rw [hid] at hg; exact hg.elim
  · have hg := getIdentifier_good hs p hp
    rw [hid] at hg; exact hg.elim

theorem getTerm_good {s : Src} (hs : AsciiThenBoundary s) (es p : Nat) (h45 : s[p]? = some 45) :
    Good s (p + 1) (getTerm s (exprFuel s) es p) (fun t q => Bnd s q ∧ allEntry (VSpan s) (.term t)) := by
  unfold getTerm
  have hlt := get_lt h45
  have he : expectByte s p 45 = .ok () (p + 1) := by
    simp [expectByte, isCurrentByte, h45]
  simp only [he]
  rcases (getIdentifier_good hs (p + 1) (by omega)).cases with ⟨id, q, hr, h1, h2, h3, h4, h5, _⟩ | ⟨e, q, hr, h1, h2⟩ <;>
    simp only [hr]
  · have hA := skipBlankInline_after s q
    have h6 := hA.le
    have h7 := hA.le_size h2
    rcases (expectByte_good s _ 61 h7).cases with ⟨_, q2, hr2, h8, h9, h10, h11⟩ | ⟨e, q2, hr2, h8, h9⟩ <;> simp only [hr2]
    · subst h10
      have hA1 := skipBlankInline_after s (skipBlankInline s q + 1)
      have h10 := hA1.le
      have h10' := hA1.le_size h9
      rcases (getPattern_good hs _ h10' (hA1.bnd hs (bnd_succ hs h11 (by decide)))).cases with
        ⟨o, q3, hr3, h12, h13, h14, h15⟩ | ⟨e, q3, hr3, h12, h13⟩ <;> simp only [hr3]
      · have hA2 := skipBlankBlock_after s q3
        have h16 := hA2.le
        have h17 := hA2.le_size h13
        rcases (getAttributes_good hs _ h17 (hA2.bnd hs h14)).cases with ⟨attrs, q5, hr5, h18, h19, h20, h21⟩ | ⟨e, q5, hr5, h18, h19⟩ <;>
          simp only [hr5]
        · cases o with
          | none => simp; omega
          | some v =>
            refine (good_ok _ _ _ _ _).mpr ⟨by omega, h19, h20, h5, h15 v rfl, h21, ?_⟩
            intro c hc; simp at hc
        · simp; omega
      · simp; omega
    · simp; omega
  · simp; omega

theorem not_entry_byte {s : Src} {p : Nat} (h35 : s[p]? ≠ some 35) (h45 : s[p]? ≠ some 45)
    (hid : isIdentifierStart s p = false) : ∀ b, s[p]? = some b → isEntryByte b = false := by
  intro b hb
  have h1 : isAlpha b = false := by
    unfold isIdentifierStart at hid
    simpa [hb] using hid
  have h2 : b ≠ 35 := fun h => h35 (h ▸ hb)
  have h3 : b ≠ 45 := fun h => h45 (h ▸ hb)
  simp [isEntryByte, h1, h2, h3]

theorem getEntry_post {s : Src} (hs : AsciiThenBoundary s) (p : Nat) (hp : p < s.size) :
    EntryPost s p (getEntry s (exprFuel s) p) := by
  unfold getEntry
  split
  · rename_i h35
    right
    rcases (getComment_good hs p h35).cases with ⟨⟨content, level⟩, q, hr, h1, h2, h3, h4, h5, h6⟩ | ⟨e, q, hr, h1, h2⟩ <;>
      simp only [hr]
    · simp only [] at h4 h5 h6
      split
      · exact (good_ok _ _ _ _ _).mpr ⟨h1, h2, h3, h6⟩
      · split
        · exact (good_ok _ _ _ _ _).mpr ⟨h1, h2, h3, h6⟩
        · split
          · exact (good_ok _ _ _ _ _).mpr ⟨h1, h2, h3, h6⟩
          · rename_i n1 n2 n3
            simp only [beq_iff_eq] at n1 n2 n3
            omega
    · simp; omega
  · rename_i h45
    right
    rcases (getTerm_good hs p p h45).cases with ⟨t, q, hr, h1, h2, h3, h4⟩ | ⟨e, q, hr, h1, h2⟩ <;> simp only [hr]
    · exact (good_ok _ _ _ _ _).mpr ⟨h1, h2, h3, h4⟩
    · simp; omega
  · rename_i n35 n45
    rcases getMessage_good hs p p (by omega) with ⟨h1, e, h2⟩ | h
    · left
      rw [h2]
      exact ⟨e, rfl, not_entry_byte n35 n45 h1⟩
    · right
      rcases h.cases with ⟨t, q, hr, h1, h2, h3, h4⟩ | ⟨e, q, hr, h1, h2⟩ <;> simp only [hr]
      · exact (good_ok _ _ _ _ _).mpr ⟨h1, h2, h3, h4⟩
      · simp; omega

/-- an error's recorded slice is a valid byte range -/
def ErrOk (s : Src) (e : PErr) : Prop := ∀ a b, e.slice = some (a, b) → VSpan s ⟨a, b⟩

/-- the loop finished, and every string in the result is a valid slice of the source -/
def Done (s : Src) (o : Outcome (List (Entry Span) × List PErr)) : Prop :=
  ∃ r, o = .done r ∧ (∀ e ∈ r.1, allEntry (VSpan s) e) ∧ (∀ e ∈ r.2, ErrOk s e)

theorem forall_mem_append_singleton {α : Type} {P : α → Prop} {l : List α} {a : α} (h : ∀ x ∈ l, P x) (ha : P a) :
    ∀ x ∈ l ++ [a], P x := by
  intro x hx
  simp only [List.mem_append, List.mem_singleton] at hx
  rcases hx with hx | rfl
  · exact h x hx
  · exact ha

theorem parseLoop_done {s : Src} (hs : AsciiThenBoundary s) (n : Nat) (body : List (Entry Span)) (errors : List PErr)
    (lc : Option (List Span)) (lbc p : Nat) (hp : p ≤ s.size) (hb : Bnd s p) (hn : s.size - p + 1 ≤ n)
    (hbody : ∀ e ∈ body, allEntry (VSpan s) e) (herr : ∀ e ∈ errors, ErrOk s e)
    (hlc : ∀ c, lc = some c → ∀ l ∈ c, VSpan s l) :
    Done s (parseLoop s (exprFuel s) n body errors lc lbc p) := by
  induction n generalizing body errors lc lbc p with
  | zero => omega
  | succ n ih =>
    by_cases hlt : p < s.size
    · have cont_ok : ∀ body' lc' q, p < q → q ≤ s.size → Bnd s q → (∀ e ∈ body', allEntry (VSpan s) e) →
          (∀ c, lc' = some c → ∀ l ∈ c, VSpan s l) →
          Done s (parseLoop s (exprFuel s) n body' errors lc' (skipBlankBlock s q).snd (skipBlankBlock s q).fst) := by
        intro body' lc' q h1 h2 h3 h4 h5
        have hA := skipBlankBlock_after s q
        exact ih body' errors lc' _ _ (hA.le_size h2) (hA.bnd hs h3) (by have := hA.le; omega) h4 herr h5
      have cont_err : ∀ body' e q, p ≤ q → q ≤ s.size → (q = p → ∀ b, s[p]? = some b → isEntryByte b = false) →
          (∀ e ∈ body', allEntry (VSpan s) e) →
          Done s (match skipToNextEntryStart s p q with
            | none => .panic "skip_to_next_entry_start slice"
            | some q1 =>
              (match slice s p q1 with
               | some content =>
                 parseLoop s (exprFuel s) n (body' ++ [.junk content])
                   (errors ++ [{ clampErr e q1 with slice := some (p, q1) }]) none (skipBlankBlock s q1).snd
                   (skipBlankBlock s q1).fst
               | none => .panic "junk slice")) := by
        intro body' e q h1 h2 h3 h4
        obtain ⟨q1, e1, e2, e3⟩ := skipToNextEntryStart_spec s p q h1 h2 hlt h3
        simp only [e1]
        rw [slice_ok (by omega) hb e3]
        simp only []
        have hA := skipBlankBlock_after s q1
        refine ih _ _ none _ _ (hA.le_size e3.le) (hA.bnd hs e3) (by have := hA.le; omega) ?_ ?_ (by simp)
        · exact forall_mem_append_singleton h4 (vspan_mk (by omega) hb e3)
        · refine forall_mem_append_singleton herr ?_
          intro a b hab
          simp only [Option.some.injEq, Prod.mk.injEq] at hab
          obtain ⟨rfl, rfl⟩ := hab
          exact vspan_mk (by omega) hb e3
      have hbc : ∀ c, lc = some c → ∀ e ∈ body ++ [Entry.comment c], allEntry (VSpan s) e :=
        fun c hc => forall_mem_append_singleton hbody (hlc c hc)
      rcases getEntry_post hs p hlt with ⟨e, hr, hne⟩ | hg
      · cases lc with
        | none =>
          simp only [parseLoop, hlt, if_true, hr]
          exact cont_err body e p (Nat.le_refl _) hp (fun _ => hne) hbody
        | some c =>
          simp only [parseLoop, hlt, if_true, hr]
          exact cont_err _ e p (Nat.le_refl _) hp (fun _ => hne) (hbc c rfl)
      · rcases hg.cases with ⟨e, q, hr, h1, h2, h3, h4⟩ | ⟨e, q, hr, h1, h2⟩
        · cases lc with
          | none =>
            cases e <;> simp only [parseLoop, hlt, if_true, hr]
            case comment c => exact cont_ok _ _ q (by omega) h2 h3 hbody (fun c' hc' => by cases hc'; exact h4)
            all_goals exact cont_ok _ _ q (by omega) h2 h3 (forall_mem_append_singleton hbody h4) (by simp)
          | some c =>
            have hc := hlc c rfl
            cases e with
            | message m =>
              by_cases hl : lbc < 2 <;> simp only [parseLoop, hlt, if_true, hr, hl, if_false]
              · refine cont_ok _ _ q (by omega) h2 h3 (forall_mem_append_singleton hbody ?_) (by simp)
                exact ⟨h4.1, h4.2.1, h4.2.2.1, fun c' hc' => by cases hc'; exact hc⟩
              · exact cont_ok _ _ q (by omega) h2 h3 (forall_mem_append_singleton (hbc c rfl) h4) (by simp)
            | term t =>
              by_cases hl : lbc < 2 <;> simp only [parseLoop, hlt, if_true, hr, hl, if_false]
              · refine cont_ok _ _ q (by omega) h2 h3 (forall_mem_append_singleton hbody ?_) (by simp)
                exact ⟨h4.1, h4.2.1, h4.2.2.1, fun c' hc' => by cases hc'; exact hc⟩
              · exact cont_ok _ _ q (by omega) h2 h3 (forall_mem_append_singleton (hbc c rfl) h4) (by simp)
            | comment c2 =>
              simp only [parseLoop, hlt, if_true, hr]
              exact cont_ok _ _ q (by omega) h2 h3 (hbc c rfl) (fun c' hc' => by cases hc'; exact h4)
            | groupComment c2 =>
              simp only [parseLoop, hlt, if_true, hr]
              exact cont_ok _ _ q (by omega) h2 h3 (forall_mem_append_singleton (hbc c rfl) h4) (by simp)
            | resourceComment c2 =>
              simp only [parseLoop, hlt, if_true, hr]
              exact cont_ok _ _ q (by omega) h2 h3 (forall_mem_append_singleton (hbc c rfl) h4) (by simp)
            | junk c2 =>
              simp only [parseLoop, hlt, if_true, hr]
              exact cont_ok _ _ q (by omega) h2 h3 (forall_mem_append_singleton (hbc c rfl) h4) (by simp)
        · cases lc with
          | none =>
            simp only [parseLoop, hlt, if_true, hr]
            exact cont_err body e q (by omega) h2 (fun h => by omega) hbody
          | some c =>
            simp only [parseLoop, hlt, if_true, hr]
            exact cont_err _ e q (by omega) h2 (fun h => by omega) (hbc c rfl)
    · simp only [parseLoop, hlt, if_false]
      cases lc with
      | none => exact ⟨_, rfl, hbody, herr⟩
      | some c => exact ⟨_, rfl, forall_mem_append_singleton hbody (hlc c rfl), herr⟩

/-- postcondition of `get_entry_runtime` started at `p < size` (the cursor may be `size + 1` after a
skipped comment) -/
def RtPost (s : Src) (p : Nat) (r : R (Option (Entry Span))) : Prop :=
  (∃ e, r = .err e p ∧ ∀ b, s[p]? = some b → isEntryByte b = false) ∨
  (∃ o q, r = .ok o q ∧ p < q ∧ q ≤ s.size + 1 ∧ (q ≤ s.size → Bnd s q) ∧ ∀ e, o = some e → allEntry (VSpan s) e) ∨
  (∃ e q, r = .err e q ∧ p < q ∧ q ≤ s.size)

theorem getEntryRuntime_post {s : Src} (hs : AsciiThenBoundary s) (p : Nat) (hp : p < s.size) :
    RtPost s p (getEntryRuntime s (exprFuel s) p) := by
  unfold getEntryRuntime
  split
  · rename_i h35
    have := skipComment_spec hs p (by omega) (bnd_of_ascii h35 (by decide))
    exact Or.inr (Or.inl ⟨none, _, rfl, this.1, this.2.1, this.2.2, by simp⟩)
  · rename_i h45
    right
    rcases (getTerm_good hs p p h45).cases with ⟨t, q, hr, h1, h2, h3, h4⟩ | ⟨e, q, hr, h1, h2⟩ <;> simp only [hr]
    · exact Or.inl ⟨_, _, rfl, by omega, by omega, fun _ => h3, fun e he => by cases he; exact h4⟩
    · exact Or.inr ⟨_, _, rfl, by omega, h2⟩
  · rename_i n35 n45
    rcases getMessage_good hs p p (by omega) with ⟨h1, e, h2⟩ | h
    · left
      rw [h2]
      exact ⟨e, rfl, not_entry_byte n35 n45 h1⟩
    · right
      rcases h.cases with ⟨t, q, hr, h1, h2, h3, h4⟩ | ⟨e, q, hr, h1, h2⟩ <;> simp only [hr]
      · exact Or.inl ⟨_, _, rfl, by omega, by omega, fun _ => h3, fun e he => by cases he; exact h4⟩
      · exact Or.inr ⟨_, _, rfl, by omega, h2⟩

theorem parseRuntimeLoop_done {s : Src} (hs : AsciiThenBoundary s) (n : Nat) (body : List (Entry Span)) (errors : List PErr)
    (p : Nat) (hb : p ≤ s.size → Bnd s p) (hn : s.size - p + 1 ≤ n)
    (hbody : ∀ e ∈ body, allEntry (VSpan s) e) (herr : ∀ e ∈ errors, ErrOk s e) :
    Done s (parseRuntimeLoop s (exprFuel s) n body errors p) := by
  induction n generalizing body errors p with
  | zero => omega
  | succ n ih =>
    by_cases hlt : p < s.size
    · have hbp := hb (by omega)
      have cont_ok : ∀ body' q, p < q → (q ≤ s.size → Bnd s q) → (∀ e ∈ body', allEntry (VSpan s) e) →
          Done s (parseRuntimeLoop s (exprFuel s) n body' errors (skipBlankBlock s q).fst) := by
        intro body' q h1 h3 h4
        have hA := skipBlankBlock_after s q
        refine ih body' errors _ ?_ (by have := hA.le; omega) h4 herr
        intro hle
        have := hA.le
        exact hA.bnd hs (h3 (by omega))
      have cont_err : ∀ body' e q, p ≤ q → q ≤ s.size → (q = p → ∀ b, s[p]? = some b → isEntryByte b = false) →
          (∀ e ∈ body', allEntry (VSpan s) e) →
          Done s (match skipToNextEntryStart s p q with
            | none => .panic "skip_to_next_entry_start slice"
            | some q1 =>
              (match slice s p q1 with
               | some content =>
                 parseRuntimeLoop s (exprFuel s) n (body' ++ [.junk content])
                   (errors ++ [{ clampErr e q1 with slice := some (p, q1) }]) (skipBlankBlock s q1).fst
               | none => .panic "junk slice")) := by
        intro body' e q h1 h2 h3 h4
        obtain ⟨q1, e1, e2, e3⟩ := skipToNextEntryStart_spec s p q h1 h2 hlt h3
        simp only [e1]
        rw [slice_ok (by omega) hbp e3]
        simp only []
        have hA := skipBlankBlock_after s q1
        refine ih _ _ _ (fun _ => hA.bnd hs e3) (by have := hA.le; omega) ?_ ?_
        · exact forall_mem_append_singleton h4 (vspan_mk (by omega) hbp e3)
        · refine forall_mem_append_singleton herr ?_
          intro a b hab
          simp only [Option.some.injEq, Prod.mk.injEq] at hab
          obtain ⟨rfl, rfl⟩ := hab
          exact vspan_mk (by omega) hbp e3
      rcases getEntryRuntime_post hs p hlt with ⟨e, hr, hne⟩ | ⟨o, q, hr, h1, h2, h3, h4⟩ | ⟨e, q, hr, h1, h2⟩
      · simp only [parseRuntimeLoop, hlt, if_true, hr]
        exact cont_err body e p (Nat.le_refl _) (by omega) (fun _ => hne) hbody
      · cases o with
        | none =>
          simp only [parseRuntimeLoop, hlt, if_true, hr]
          exact cont_ok _ q h1 h3 hbody
        | some e =>
          simp only [parseRuntimeLoop, hlt, if_true, hr]
          exact cont_ok _ q h1 h3 (forall_mem_append_singleton hbody (h4 e rfl))
      · simp only [parseRuntimeLoop, hlt, if_true, hr]
        exact cont_err body e q (by omega) h2 (fun h => by omega) hbody
    · simp only [parseRuntimeLoop, hlt, if_false]
      exact ⟨_, rfl, hbody, herr⟩

end FluentProofs.Parser
