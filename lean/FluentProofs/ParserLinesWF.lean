import FluentProofs.ParserLinesSim
/-!
# C05, second sentence: with well-formed comment lines the two parsers agree on Junk and on all errors

`CommentsWellFormed s`: every line whose first byte is `#` matches `#{1,3}( .*)?` (decidable).

Simulation relation: both loop cursors are line starts (or EOF) that are not blank lines, and every line
start strictly between them begins a `#` line or a blank line (`NoHard`).  A parser at a `#` line steps
alone (`get_comment` cannot fail on a well-formed line; `skip_comment` never fails) without recording Junk
and without passing a line that is neither a comment nor blank; when neither cursor is at a `#` line they
coincide and both dispatchers run the same `get_term`/`get_message` with the same Junk and error.
-/
namespace FluentProofs.Parser
open FluentModel.Syntax

/-! ### well-formed comment lines -/

/-- the line starting at `x` (first byte `#`) matches `#{1,3}( .*)?` -/
def hashLineOk (s : Src) (x : Nat) : Bool :=
  isEol s (getCommentLevel s x).2 || s[(getCommentLevel s x).2]? == some 32

/-- every line whose first byte is `#` is a well-formed comment line -/
def CommentsWellFormed (s : Src) : Prop :=
  ∀ x, x < s.size → (x = 0 ∨ s[x - 1]? = some 10) → s[x]? = some 35 → hashLineOk s x = true

instance (s : Src) : Decidable (CommentsWellFormed s) := by
  unfold CommentsWellFormed; exact inferInstance

/-! ### lines that are neither comments nor blank -/

/-- only spaces up to an end of line or up to the end of input -/
def BlankLine (s : Src) (x : Nat) : Prop :=
  (∃ q, skipEol s (skipBlankInline s x) = some q) ∨ s.size ≤ skipBlankInline s x

/-- a line start (inside the input) that begins neither a `#` line nor a blank line -/
def Hard (s : Src) (x : Nat) : Prop := x < s.size ∧ LS s x ∧ s[x]? ≠ some 35 ∧ ¬ BlankLine s x

def NoHard (s : Src) (a b : Nat) : Prop := ∀ x, a ≤ x → x < b → ¬ Hard s x

theorem NoHard.refl (s : Src) (a : Nat) : NoHard s a a := fun x h1 h2 => by omega

theorem NoHard.trans {s : Src} {a b c : Nat} (h1 : NoHard s a b) (h2 : NoHard s b c) : NoHard s a c := by
  intro x hx1 hx2
  by_cases h : x < b
  · exact h1 x hx1 h
  · exact h2 x (by omega) hx2

theorem NoHard.mono {s : Src} {a b a' b' : Nat} (h : NoHard s a b) (ha : a ≤ a') (hb : b' ≤ b) : NoHard s a' b' :=
  fun x h1 h2 => h x (by omega) (by omega)

theorem noHard_of_noNl {s : Src} {a b : Nat} (h : ∀ j, a ≤ j → j < b → s[j]? ≠ some 10) : NoHard s (a + 1) (b + 1) := by
  intro x h1 h2 ⟨_, hls, _⟩
  rcases hls with h0 | h0
  · omega
  · exact h (x - 1) (by omega) (by omega) h0

theorem noHard_single {s : Src} {a : Nat} (h : ¬ Hard s a) : NoHard s a (a + 1) := by
  intro x h1 h2
  have : x = a := by omega
  subst this; exact h

theorem not_hard_hash {s : Src} {p : Nat} (h : s[p]? = some 35) : ¬ Hard s p := fun ⟨_, _, h', _⟩ => h' h

theorem skipEol_cases {s : Src} {p q : Nat} (h : skipEol s p = some q) :
    (q = p + 1 ∧ s[p]? = some 10) ∨ (q = p + 2 ∧ s[p]? = some 13 ∧ s[p + 1]? = some 10) := by
  unfold skipEol at h
  split at h
  · rename_i h0; simp at h; exact Or.inl ⟨h.symm, h0⟩
  · rename_i h0
    split at h <;> simp at h
    rename_i h1
    exact Or.inr ⟨h.symm, h0, by simpa using h1⟩
  · simp at h

theorem skipBlankBlockGo_noHard (s : Src) (n p c : Nat) : NoHard s p (skipBlankBlockGo s n p c).1 := by
  induction n generalizing p c with
  | zero => exact NoHard.refl _ _
  | succ n ih =>
    simp only [skipBlankBlockGo]
    split
    · rename_i p' h
      have h1 : NoHard s p p' := by
        intro x hx1 hx2 ⟨_, hls, _, hnb⟩
        by_cases hx : x = p
        · subst hx; exact hnb (Or.inl ⟨p', h⟩)
        · rcases hls with h0 | h10
          · omega
          · have hsp := skipBlankInline_spaces s p
            have hle := (skipBlankInline_after s p).le
            by_cases hj : x - 1 < skipBlankInline s p
            · have := hsp (x - 1) (by omega) hj
              rw [this] at h10; cases h10
            · rcases skipEol_cases h with ⟨e1, _⟩ | ⟨e1, e2, _⟩
              · omega
              · have : x - 1 = skipBlankInline s p := by omega
                rw [this, e2] at h10; cases h10
      exact h1.trans (ih p' (c + 1))
    · split
      · exact NoHard.refl _ _
      · rename_i hge
        intro x hx1 hx2 ⟨_, hls, _, hnb⟩
        by_cases hx : x = p
        · subst hx; exact hnb (Or.inr (by omega))
        · rcases hls with h0 | h10
          · omega
          · have := skipBlankInline_spaces s p (x - 1) (by omega) (by simp only [] at hx2; omega)
            rw [this] at h10; cases h10

theorem skipBlankBlock_noHard (s : Src) (p : Nat) : NoHard s p (skipBlankBlock s p).1 :=
  skipBlankBlockGo_noHard s _ p 0

theorem skipBlankBlockGo_notBlank (s : Src) (n p c : Nat) (hn : s.size - p + 1 ≤ n) :
    (skipBlankBlockGo s n p c).1 < s.size → ¬ BlankLine s (skipBlankBlockGo s n p c).1 := by
  induction n generalizing p c with
  | zero => omega
  | succ n ih =>
    simp only [skipBlankBlockGo]
    cases hE : skipEol s (skipBlankInline s p) with
    | none =>
      simp only []
      split
      · rename_i hlt
        intro _ hb
        simp only [] at hb
        rcases hb with ⟨q, hq⟩ | hge
        · rw [hE] at hq; cases hq
        · omega
      · intro h; simp only [] at h; omega
    | some p' =>
      simp only []
      have ⟨h1, h2, _⟩ := skipEol_some hE
      have := get_lt h2
      have := (skipBlankInline_after s p).le
      exact ih p' (c + 1) (by omega)

theorem skipBlankBlock_notBlank (s : Src) (p : Nat) :
    (skipBlankBlock s p).1 < s.size → ¬ BlankLine s (skipBlankBlock s p).1 :=
  skipBlankBlockGo_notBlank s _ p 0 (Nat.le_refl _)

/-! ### comments -/

theorem line_step_noHard {s : Src} {pc e : Nat} (hpc : ¬ Hard s pc) (heol : isEol s e = true)
    (hnl : ∀ j, pc ≤ j → j < e → s[j]? ≠ some 10) : NoHard s pc ((skipEol s e).getD e) := by
  have hz : NoHard s pc (e + 1) := (noHard_single hpc).trans (noHard_of_noNl hnl)
  rcases isEol_cases heol with h | h | ⟨h, h'⟩
  · have he : skipEol s e = none := by simp [skipEol, h]
    rw [he]
    exact hz.mono (Nat.le_refl _) (by simp)
  · have he : skipEol s e = some (e + 1) := by simp [skipEol, h]
    rw [he]; exact hz
  · have he : skipEol s e = some (e + 2) := by simp [skipEol, h, h']
    rw [he]
    simp only [Option.getD_some]
    have hnl' : ∀ j, pc ≤ j → j < e + 1 → s[j]? ≠ some 10 := by
      intro j h1 h2
      by_cases hj : j = e
      · subst hj; rw [h]; decide
      · exact hnl j h1 (by omega)
    exact (noHard_single hpc).trans (noHard_of_noNl hnl')

/-- second postcondition of the `get_comment` loop: nothing but comment lines is passed, and an error means
the first line is not a well-formed comment line -/
def CPost2 (s : Src) (p0 : Nat) (content : List Span) (r : R (List Span × Nat)) : Prop :=
  match r with
  | .ok _ q => NoHard s p0 q
  | .err _ _ => content = [] ∧ hashLineOk s p0 = false
  | .panic _ => True
  | .fuel => True

theorem CPost2.of_append {s : Src} {p0 : Nat} {content : List Span} {line : Span} {r : R (List Span × Nat)}
    (h : CPost2 s p0 (content ++ [line]) r) : CPost2 s p0 content r := by
  cases r with
  | ok a q => exact h
  | err e q => exact absurd h.1 (by simp)
  | panic m => trivial
  | fuel => trivial

theorem getCommentGo_post2 (s : Src) (n level : Nat) (content : List Span) (pc p0 : Nat)
    (hinv : (level = 0 ∧ content = [] ∧ pc = p0 ∧ s[pc]? = some 35) ∨ (content ≠ [] ∧ NoHard s p0 pc)) :
    CPost2 s p0 content (getCommentGo s n level content pc) := by
  induction n generalizing level content pc with
  | zero => simp [getCommentGo, CPost2]
  | succ n ih =>
    have hz0 : NoHard s p0 pc := by
      rcases hinv with ⟨_, _, rfl, _⟩ | ⟨_, h2⟩
      · exact NoHard.refl _ _
      · exact h2
    simp only [getCommentGo]
    split
    · rename_i hlt
      obtain ⟨l, hl, hl3, hbytes, hl0⟩ := getCommentLevel_spec s pc
      rw [hl]
      simp only []
      have step : ∀ p2, 1 ≤ l → pc + l ≤ p2 → (∀ j, pc ≤ j → j < p2 → s[j]? ≠ some 10) →
          CPost2 s p0 content
            (match getCommentLine s p2 with
             | .ok line q => getCommentGo s n l (content ++ [line]) ((skipEol s q).getD q)
             | .err e q => .err e q
             | .panic m => .panic m
             | .fuel => .fuel) := by
        intro p2 hl1 hp2 hnl
        unfold getCommentLine
        simp only []
        have he := commentLineEnd_eol s p2
        generalize commentLineEndGo s (s.size - p2) p2 = e at he
        cases hsl : slice s p2 e with
        | none => trivial
        | some sp =>
          simp only []
          have hnl' : ∀ j, pc ≤ j → j < e → s[j]? ≠ some 10 := by
            intro j h1 h2
            by_cases hj : j < p2
            · exact hnl j h1 hj
            · exact he.2.2 j (by omega) h2
          have hpc : ¬ Hard s pc := not_hard_hash (by simpa using hbytes 0 (by omega))
          have hs := line_step_noHard hpc he.2.1 hnl'
          exact (ih l (content ++ [sp]) _ (Or.inr ⟨by simp, hz0.trans hs⟩)).of_append
      split
      · rename_i hl0'
        have hl0' : l = 0 := by simpa using hl0'
        subst hl0'
        rcases hinv with ⟨_, _, _, h35⟩ | ⟨hc, hz⟩
        · exact absurd h35 (hl0 rfl)
        · simp only [usub, Nat.add_zero]
          by_cases h1 : 1 ≤ pc
          · simp only [h1, if_true]
            exact hz.mono (Nat.le_refl _) (by omega)
          · simp only [h1, if_false]
            trivial
      · rename_i hlne
        have hl1 : 1 ≤ l := by
          have : l ≠ 0 := by simpa using hlne
          omega
        split
        · rename_i hdiff
          simp only [usub, Nat.le_add_left, if_true, Nat.add_sub_cancel]
          exact hz0
        · have hnl0 : ∀ j, pc ≤ j → j < pc + l → s[j]? ≠ some 10 := by
            intro j h1 h2
            have := hbytes (j - pc) (by omega)
            rw [show pc + (j - pc) = j by omega] at this
            rw [this]; decide
          split
          · exact step (pc + l) hl1 (Nat.le_refl _) hnl0
          · rename_i hneol
            cases hx : expectByte s (pc + l) 32 with
            | ok u p2 =>
              simp only []
              have hx' : p2 = pc + l + 1 ∧ s[pc + l]? = some 32 := by
                unfold expectByte at hx
                split at hx
                · rename_i hc
                  cases hx
                  exact ⟨rfl, (isCurrentByte_iff _ _ _).mp hc⟩
                · cases hx
              obtain ⟨rfl, h32⟩ := hx'
              refine step (pc + l + 1) hl1 (by omega) ?_
              intro j h1 h2
              by_cases hj : j = pc + l
              · subst hj; rw [h32]; decide
              · exact hnl0 j h1 (by omega)
            | err e q =>
              simp only []
              have hx' : s[pc + l]? ≠ some 32 := by
                unfold expectByte at hx
                split at hx
                · cases hx
                · rename_i hc
                  exact fun h => hc ((isCurrentByte_iff _ _ _).mpr h)
              split
              · rename_i hce
                have hce : content = [] := by simpa using hce
                rcases hinv with ⟨_, _, hpc, _⟩ | ⟨hc, _⟩
                · subst hpc
                  refine ⟨hce, ?_⟩
                  unfold hashLineOk
                  rw [hl]
                  simp only [Bool.or_eq_false_iff, beq_eq_false_iff_ne, ne_eq]
                  exact ⟨by simpa using hneol, hx'⟩
                · exact absurd hce hc
              · simp only [usub, Nat.le_add_left, if_true, Nat.add_sub_cancel]
                exact hz0
            | panic m => trivial
            | fuel => trivial
    · exact hz0

theorem getComment_post2 {s : Src} {p : Nat} (h : s[p]? = some 35) : CPost2 s p [] (getComment s p) :=
  getCommentGo_post2 s _ 0 [] p p (Or.inl ⟨rfl, rfl, rfl, h⟩)

theorem skipCommentGo_noHard (s : Src) (n p : Nat) (hp : ¬ Hard s p) : NoHard s p (skipCommentGo s n p) := by
  induction n generalizing p with
  | zero => exact NoHard.refl _ _
  | succ n ih =>
    simp only [skipCommentGo]
    have he := commentLineEnd_eol s p
    generalize commentLineEndGo s (s.size - p) p = e at he
    have hz : NoHard s p (e + 1) := (noHard_single hp).trans (noHard_of_noNl he.2.2)
    split
    · rename_i hc
      have h35 := (isCurrentByte_iff _ _ _).mp hc
      have hnr : ¬ Hard s (e + 1 + 1) := by
        intro ⟨_, hls, _⟩
        rcases hls with h | h
        · omega
        · simp only [Nat.add_sub_cancel] at h
          rw [h35] at h; cases h
      exact (hz.trans (noHard_single (not_hard_hash h35))).trans (ih (e + 1 + 1) hnr)
    · exact hz

/-! ### the dispatchers on a `#` line -/

/-- on a well-formed `#` line `get_entry` cannot fail, yields no Junk/message/term, and passes nothing but
comment lines -/
theorem getEntry_hash {s : Src} {fuel p : Nat} (h35 : s[p]? = some 35) (hok : hashLineOk s p = true) :
    (∀ e q, getEntry s fuel p ≠ .err e q) ∧ (∀ e q, getEntry s fuel p = .ok e q → NoHard s p q) := by
  have hc := getComment_post2 h35
  unfold getEntry
  simp only [h35]
  cases hr : getComment s p with
  | ok r q =>
    rw [hr] at hc
    obtain ⟨content, level⟩ := r
    simp only []
    refine ⟨fun e q' h => ?_, fun e q' h => ?_⟩
    · split at h
      · cases h
      · split at h
        · cases h
        · split at h <;> cases h
    · split at h
      · cases h; exact hc
      · split at h
        · cases h; exact hc
        · split at h
          · cases h; exact hc
          · cases h
  | err e q =>
    rw [hr] at hc
    have := hc.2
    rw [hok] at this
    cases this
  | panic m =>
    simp only []
    exact ⟨fun e q h => (by cases h), fun e q h => (by cases h)⟩
  | fuel =>
    simp only []
    exact ⟨fun e q h => (by cases h), fun e q h => (by cases h)⟩

theorem getEntryRuntime_hash {s : Src} {fuel p : Nat} (h35 : s[p]? = some 35) :
    getEntryRuntime s fuel p = .ok none (skipComment s p) ∧ NoHard s p (skipComment s p) := by
  refine ⟨?_, skipCommentGo_noHard s _ p (not_hard_hash h35)⟩
  unfold getEntryRuntime
  simp only [h35]

/-! ### the simulation -/

/-- an iteration start: a line start that is not a blank line, or EOF -/
def Start (s : Src) (p : Nat) : Prop := LSE s p ∧ (p < s.size → ¬ BlankLine s p)

theorem start_of_next {s : Src} {q : Nat} (h : NextOk s q) : Start s (skipBlankBlock s q).1 :=
  ⟨skipBlankBlock_LSE h, skipBlankBlock_notBlank s q⟩

def Zone2 (s : Src) (a b : Nat) : Prop := NoHard s (min a b) (max a b)

theorem Zone2.refl (s : Src) (a : Nat) : Zone2 s a a := by
  intro x h1 h2
  have : min a a = a := Nat.min_self a
  have : max a a = a := Nat.max_self a
  omega

theorem Zone2.symm {s : Src} {a b : Nat} (h : Zone2 s a b) : Zone2 s b a := by
  unfold Zone2 at h ⊢
  rwa [Nat.min_comm, Nat.max_comm]

theorem Zone2.step_left {s : Src} {a a' b : Nat} (h : Zone2 s a b) (hle : a ≤ a') (hz : NoHard s a a') :
    Zone2 s a' b := by
  intro x h1 h2
  by_cases hx : a ≤ x ∧ x < a'
  · exact hz x hx.1 hx.2
  · refine h x ?_ ?_
    · have : min a b ≤ min a' b := by
        simp only [Nat.min_def]; split <;> split <;> omega
      omega
    · simp only [Nat.max_def] at h2 ⊢
      split at h2 <;> split <;> omega

theorem Zone2.step_right {s : Src} {a b b' : Nat} (h : Zone2 s a b) (hle : b ≤ b') (hz : NoHard s b b') :
    Zone2 s a b' :=
  (h.symm.step_left hle hz).symm

/-- the lagging cursor of two related iteration starts is at a `#` line -/
theorem Zone2.hash_left {s : Src} {a b : Nat} (h : Zone2 s a b) (hs : Start s a) (hlt : a < b) (ha : a < s.size) :
    s[a]? = some 35 := by
  have := h a (Nat.min_le_left _ _) (by have := Nat.le_max_right a b; omega)
  exact Classical.byContradiction fun h35 => this ⟨ha, hs.1.ls ha, h35, hs.2 ha⟩

/-- **simulation (well-formed comments)**: Junk spans and complete error lists coincide -/
theorem sim_junk (s : Src) (hwf : CommentsWellFormed s) (fuel : Nat) :
    ∀ k n m, n + m ≤ k →
      ∀ (bf : List (Entry Span)) (ef : List PErr) (lc : Option (List Span)) (lbc pf : Nat)
        (br : List (Entry Span)) (er : List PErr) (pr : Nat) (rf rr : List (Entry Span) × List PErr),
        Start s pf → Start s pr → Zone2 s pf pr → junkSpans bf = junkSpans br → ef = er →
        parseLoop s fuel n bf ef lc lbc pf = .done rf → parseRuntimeLoop s fuel m br er pr = .done rr →
        junkSpans rf.1 = junkSpans rr.1 ∧ rf.2 = rr.2 := by
  intro k
  induction k with
  | zero =>
    intro n m hk bf ef lc lbc pf br er pr rf rr _ _ _ _ _ hf _
    have : n = 0 := by omega
    subst this
    simp [parseLoop] at hf
  | succ k ih =>
    intro n m hk bf ef lc lbc pf br er pr rf rr hsf hsr hz hb he hf hr
    cases n with
    | zero => simp [parseLoop] at hf
    | succ n =>
    cases m with
    | zero => simp [parseRuntimeLoop] at hr
    | succ m =>
    by_cases hA : pf < s.size ∧ s[pf]? = some 35
    · -- the full parser is at a comment line: it steps alone
      obtain ⟨hlt, h35⟩ := hA
      have hls := hsf.1.ls hlt
      have hel := getEntry_lines s fuel pf
      have hh := getEntry_hash (fuel := fuel) h35 (hwf pf hlt hls h35)
      rcases parseLoop_step hlt hf with ⟨e, q, body', lc', hre, hloop, _, hj⟩ |
        ⟨e, q, q1, content, body', hre, _⟩
      · rw [hre] at hel
        have h5 := hh.2 e q hre
        refine ih n (m + 1) (by omega) _ _ _ _ _ br er pr rf rr (start_of_next hel.2.1) hsr ?_ ?_ he hloop hr
        · exact hz.step_left (by have := skipBlankBlock_le s q; have := hel.1; omega)
            (h5.trans (skipBlankBlock_noHard s q))
        · rw [hj]; exact hb
      · exact absurd hre (hh.1 e q)
    · by_cases hB : pr < s.size ∧ s[pr]? = some 35
      · -- the runtime parser is at a comment line: it steps alone
        obtain ⟨hlt, h35⟩ := hB
        have hel := getEntryRuntime_lines s fuel pr
        have hh := getEntryRuntime_hash (fuel := fuel) h35
        rcases parseRuntimeLoop_step hlt hr with ⟨o, q, body', hre, hloop, _, hj⟩ |
          ⟨e, q, q1, content, hre, _⟩
        · rw [hre] at hel
          rw [hh.1] at hre
          simp only [R.ok.injEq] at hre
          obtain ⟨rfl, rfl⟩ := hre
          refine ih (n + 1) m (by omega) bf ef lc lbc pf _ er _ rf rr hsf (start_of_next hel.2.1) ?_ ?_ he hf hloop
          · exact hz.step_right (by have := skipBlankBlock_le s (skipComment s pr); have := hel.1; omega)
              (hh.2.trans (skipBlankBlock_noHard s _))
          · rw [hj]; exact hb
        · rw [hh.1] at hre; cases hre
      · -- neither cursor is at a comment line
        have hA' : pf < s.size → s[pf]? ≠ some 35 := fun h h' => hA ⟨h, h'⟩
        have hB' : pr < s.size → s[pr]? ≠ some 35 := fun h h' => hB ⟨h, h'⟩
        have hcases : (pf = pr ∧ pf < s.size) ∨ (¬ pf < s.size ∧ ¬ pr < s.size) := by
          rcases Nat.lt_trichotomy pf pr with h | h | h
          · by_cases hlt : pf < s.size
            · exact absurd (hz.hash_left hsf h hlt) (hA' hlt)
            · exact Or.inr ⟨hlt, by omega⟩
          · by_cases hlt : pf < s.size
            · exact Or.inl ⟨h, hlt⟩
            · exact Or.inr ⟨hlt, by omega⟩
          · by_cases hlt : pr < s.size
            · exact absurd (hz.symm.hash_left hsr h hlt) (hB' hlt)
            · exact Or.inr ⟨by omega, hlt⟩
        rcases hcases with ⟨heq, hlt⟩ | ⟨hgf, hgr⟩
        · subst heq
          have hd := getEntryRuntime_eq_of_not_hash s fuel pf (hA' hlt)
          have hel := getEntry_lines s fuel pf
          rcases parseLoop_step hlt hf with ⟨e, q, body', lc', hre, hloop, _, hj⟩ |
            ⟨e, q, q1, content, body', hre, hq1, hsl, hloop, _, hj⟩
          · rw [hre] at hd hel
            rcases parseRuntimeLoop_step hlt hr with ⟨o, q', body'', hre', hloop', _, hj'⟩ |
              ⟨e', q', q1', content', hre', _⟩
            · rw [hd] at hre'
              simp only [R.ok.injEq] at hre'
              obtain ⟨rfl, rfl⟩ := hre'
              refine ih n m (by omega) _ _ _ _ _ _ _ _ rf rr (start_of_next hel.2.1) (start_of_next hel.2.1)
                (Zone2.refl _ _) ?_ he hloop hloop'
              rw [hj, hj', hb]
            · rw [hd] at hre'; cases hre'
          · rw [hre] at hd
            rcases parseRuntimeLoop_step hlt hr with ⟨o, q', body'', hre', _⟩ |
              ⟨e', q', q1', content', hre', hq1', hsl', hloop'⟩
            · rw [hd] at hre'; cases hre'
            · rw [hd] at hre'
              simp only [R.err.injEq] at hre'
              obtain ⟨rfl, rfl⟩ := hre'
              rw [hq1] at hq1'
              cases hq1'
              rw [hsl] at hsl'
              cases hsl'
              have hl := start_of_next (skipToNextEntryStart_LSE hq1).next
              refine ih n m (by omega) _ _ _ _ _ _ _ _ rf rr hl hl (Zone2.refl _ _) ?_ ?_ hloop hloop'
              · rw [junkSpans_append, junkSpans_append, hj, hb]
              · rw [he]
        · have h1 := parseLoop_end hgf hf
          have h2 := parseRuntimeLoop_end hgr hr
          rw [h1.1, h1.2.2, h2]
          exact ⟨hb, he⟩

theorem start_start (s : Src) : Start s (skipBlankBlock s 0).1 := start_of_next (Or.inl (LS_zero s))

/-- **C05, second sentence**: when every `#` line is a well-formed comment line, the Junk entries and the
complete error lists of the two parsers coincide -/
theorem parse_runtime_junk (s : Src) (hwf : CommentsWellFormed s) (b₁ b₂ : List (Entry Span)) (e₁ e₂ : List PErr)
    (h1 : parse s = .done (b₁, e₁)) (h2 : parseRuntime s = .done (b₂, e₂)) :
    junkSpans b₂ = junkSpans b₁ ∧ e₂ = e₁ := by
  have := sim_junk s hwf _ _ _ _ (Nat.le_refl _) [] [] none 0 _ [] [] _ (b₁, e₁) (b₂, e₂) (start_start s) (start_start s)
    (Zone2.refl _ _) rfl rfl h1 h2
  exact ⟨this.1.symm, this.2.symm⟩

end FluentProofs.Parser
