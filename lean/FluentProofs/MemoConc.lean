import FluentProofs.Memo
/-!
Lemmas for C14, part 3: `concurrent::IntlLangMemoizer` – small-step semantics with one lock, all schedules.
-/
namespace FluentModel.Memo
set_option linter.unusedSectionVars false

section Conc
variable {σ L τ α ι ε ρ : Type} [DecidableEq τ] [DecidableEq α]
variable (X : Ext σ L τ α ι ε) (lang : L) (w₀ : σ)

/-! ### the sequential reference run along the lock-acquisition order (newest first) -/

/-- memoizer and world after running the acquired lookups sequentially, oldest first -/
def seqAfter : List (Nat × Op σ τ α ι ρ) → LMemo L τ α ι ε × σ
  | [] => (LMemo.empty, w₀)
  | (_, op) :: older =>
    let p := seqAfter older
    let r := withTryGet X lang p.1 p.2 op
    (r.memo, r.world)

/-- (thread, outcome) of that sequential run, newest first -/
def seqOuts : List (Nat × Op σ τ α ι ρ) → List (Nat × Outcome ε ρ)
  | [] => []
  | (t, op) :: older =>
    let p := seqAfter X lang w₀ older
    (t, (withTryGet X lang p.1 p.2 op).out) :: seqOuts older

/-- the outcomes that belong to thread `t` -/
def outsOf (t : Nat) (l : List (Nat × Outcome ε ρ)) : List (Outcome ε ρ) :=
  (l.filter fun p => decide (p.1 = t)).map (·.2)

theorem outsOf_cons_same (t : Nat) (r : Outcome ε ρ) (l : List (Nat × Outcome ε ρ)) :
    outsOf t ((t, r) :: l) = r :: outsOf t l := by
  simp [outsOf]

theorem outsOf_cons_other (t t' : Nat) (r : Outcome ε ρ) (l : List (Nat × Outcome ε ρ)) (h : t' ≠ t) :
    outsOf t ((t', r) :: l) = outsOf t l := by
  simp [outsOf, h]

theorem upd_same {β : Type} (f : Nat → β) (t : Nat) (v : β) : upd f t v t = v := by simp [upd]

theorem upd_other {β : Type} (f : Nat → β) (t t' : Nat) (v : β) (h : t' ≠ t) : upd f t v t' = f t' := by
  simp [upd, h]

/-! ### equations of `cstep` -/

theorem cstep_finished (s : CState σ L τ α ι ε ρ) (t : Nat) (hpc : (s.threads t).pc = .idle)
    (hprog : (s.threads t).prog = []) : cstep X s t = s := by
  unfold cstep; simp only [hpc, hprog]

theorem cstep_blocked (s : CState σ L τ α ι ε ρ) (t h : Nat) (hpc : (s.threads t).pc = .idle)
    (hl : s.lock = some h) : cstep X s t = s := by
  unfold cstep; simp only [hpc, hl]
  cases (s.threads t).prog <;> rfl

theorem cstep_acquire (s : CState σ L τ α ι ε ρ) (t : Nat) (op : Op σ τ α ι ρ) (rest : List (Op σ τ α ι ρ))
    (hpc : (s.threads t).pc = .idle) (hprog : (s.threads t).prog = op :: rest) (hl : s.lock = none) :
    cstep X s t = { s with lock := some t, acq := (t, op) :: s.acq
                           threads := upd s.threads t { s.threads t with prog := rest, pc := .locked op } } := by
  unfold cstep; simp only [hpc, hprog, hl]

theorem cstep_body (s : CState σ L τ α ι ε ρ) (t : Nat) (op : Op σ τ α ι ρ)
    (hpc : (s.threads t).pc = .locked op) :
    cstep X s t = { s with memo := (withTryGet X s.lang s.memo s.world op).memo
                           world := (withTryGet X s.lang s.memo s.world op).world
                           threads := upd s.threads t
                             { s.threads t with pc := .done (withTryGet X s.lang s.memo s.world op).out } } := by
  unfold cstep; simp only [hpc]

theorem cstep_release (s : CState σ L τ α ι ε ρ) (t : Nat) (r : Outcome ε ρ)
    (hpc : (s.threads t).pc = .done r) :
    cstep X s t = { s with lock := none
                           threads := upd s.threads t
                             { s.threads t with pc := .idle, results := r :: (s.threads t).results } } := by
  unfold cstep; simp only [hpc]

/-! ### the simulation invariant -/

/-- *Quiescent* states (lock free): everybody is outside `with_try_get`, the shared memoizer and world are
exactly those of the sequential run of the acquired lookups in acquisition order, and every thread holds
exactly the outcomes that run produced for its lookups.
*Lock held by `h`*: everybody else is outside; `h`'s lookup is the newest acquisition; the shared state is the
sequential state before (`locked`) or after (`done`) that lookup, and the pending outcome is the sequential one. -/
structure CInv (s : CState σ L τ α ι ε ρ) : Prop where
  lang_eq : s.lang = lang
  quiet : s.lock = none →
    (∀ t, (s.threads t).pc = .idle) ∧ (s.memo, s.world) = seqAfter X lang w₀ s.acq ∧
    ∀ t, (s.threads t).results = outsOf t (seqOuts X lang w₀ s.acq)
  held : ∀ h, s.lock = some h →
    (∀ t, t ≠ h → (s.threads t).pc = .idle) ∧
    ∃ op older, s.acq = (h, op) :: older ∧
      (∀ t, (s.threads t).results = outsOf t (seqOuts X lang w₀ older)) ∧
      (((s.threads h).pc = .locked op ∧ (s.memo, s.world) = seqAfter X lang w₀ older) ∨
       ((s.threads h).pc =
          .done (withTryGet X lang (seqAfter X lang w₀ older).1 (seqAfter X lang w₀ older).2 op).out ∧
        (s.memo, s.world) = seqAfter X lang w₀ s.acq))

theorem CInv_init (progs : List (List (Op σ τ α ι ρ))) :
    CInv X lang w₀ (CState.init lang w₀ progs : CState σ L τ α ι ε ρ) := by
  refine ⟨rfl, ?_, ?_⟩
  · intro _
    refine ⟨?_, rfl, ?_⟩
    · intro t; simp only [CState.init]; split <;> rfl
    · intro t; simp only [CState.init, seqOuts, outsOf]; split <;> rfl
  · intro h hh; simp [CState.init] at hh

/-- a thread that is inside `with_try_get` holds the lock -/
theorem CInv.holder_of_not_idle {s : CState σ L τ α ι ε ρ} (hi : CInv X lang w₀ s) (t : Nat)
    (hne : (s.threads t).pc ≠ .idle) : s.lock = some t := by
  cases hl : s.lock with
  | none => exact absurd ((hi.quiet hl).1 t) hne
  | some h =>
    by_cases e : t = h
    · rw [e]
    · exact absurd ((hi.held h hl).1 t e) hne

/-- **every step of every thread preserves the simulation invariant** -/
theorem CInv_step (s : CState σ L τ α ι ε ρ) (t : Nat) (hi : CInv X lang w₀ s) :
    CInv X lang w₀ (cstep X s t) := by
  cases hpc : (s.threads t).pc with
  | idle =>
    cases hprog : (s.threads t).prog with
    | nil => rw [cstep_finished X s t hpc hprog]; exact hi
    | cons op rest =>
      cases hl : s.lock with
      | some h => rw [cstep_blocked X s t h hpc hl]; exact hi
      | none =>
        rw [cstep_acquire X s t op rest hpc hprog hl]
        obtain ⟨q1, q2, q3⟩ := hi.quiet hl
        refine ⟨hi.lang_eq, ?_, ?_⟩
        · intro h; cases h
        · intro h hh
          cases hh
          refine ⟨?_, op, s.acq, rfl, ?_, Or.inl ⟨?_, q2⟩⟩
          · intro t' hne; simp only; rw [upd_other _ _ _ _ hne]; exact q1 t'
          · intro t'
            simp only
            by_cases e : t' = t
            · subst e; rw [upd_same]; exact q3 t'
            · rw [upd_other _ _ _ _ e]; exact q3 t'
          · simp only; rw [upd_same]
  | locked op' =>
    rw [cstep_body X s t op' hpc]
    have hl : s.lock = some t := hi.holder_of_not_idle X lang w₀ t (by rw [hpc]; intro h; cases h)
    obtain ⟨h1, op, older, hacq, hres, hd⟩ := hi.held t hl
    rcases hd with ⟨hp, hm⟩ | ⟨hp, _⟩
    · rw [hpc] at hp
      cases hp
      have hm1 : s.memo = (seqAfter X lang w₀ older).1 := congrArg Prod.fst hm
      have hm2 : s.world = (seqAfter X lang w₀ older).2 := congrArg Prod.snd hm
      refine ⟨hi.lang_eq, ?_, ?_⟩
      · intro h; simp only at h; rw [hl] at h; cases h
      · intro h hh
        simp only at hh
        rw [hl] at hh
        cases hh
        refine ⟨?_, op', older, hacq, ?_, Or.inr ⟨?_, ?_⟩⟩
        · intro t' hne; simp only; rw [upd_other _ _ _ _ hne]; exact h1 t' hne
        · intro t'
          simp only
          by_cases e : t' = t
          · subst e; rw [upd_same]; exact hres t'
          · rw [upd_other _ _ _ _ e]; exact hres t'
        · simp only; rw [upd_same, hi.lang_eq, hm1, hm2]
        · simp only; rw [hacq, hi.lang_eq, hm1, hm2]; rfl
    · rw [hpc] at hp; cases hp
  | done r =>
    rw [cstep_release X s t r hpc]
    have hl : s.lock = some t := hi.holder_of_not_idle X lang w₀ t (by rw [hpc]; intro h; cases h)
    obtain ⟨h1, op, older, hacq, hres, hd⟩ := hi.held t hl
    rcases hd with ⟨hp, _⟩ | ⟨hp, hm⟩
    · rw [hpc] at hp; cases hp
    · rw [hpc] at hp
      cases hp
      refine ⟨hi.lang_eq, ?_, ?_⟩
      · intro _
        refine ⟨?_, hm, ?_⟩
        · intro t'
          simp only
          by_cases e : t' = t
          · subst e; rw [upd_same]
          · rw [upd_other _ _ _ _ e]; exact h1 t' e
        · intro t'
          simp only
          rw [hacq]
          simp only [seqOuts]
          by_cases e : t' = t
          · subst e
            rw [upd_same, outsOf_cons_same]
            simp only
            rw [hres t']
          · rw [upd_other _ _ _ _ e, outsOf_cons_other _ _ _ _ (fun x => e x.symm)]
            exact hres t'
      · intro h hh; simp only at hh; cases hh

theorem CInv_run (sched : List Nat) (s : CState σ L τ α ι ε ρ) (hi : CInv X lang w₀ s) :
    CInv X lang w₀ (crun X sched s) := by
  induction sched generalizing s with
  | nil => exact hi
  | cons t rest ih => simp only [crun, List.foldl_cons]; exact ih _ (CInv_step X lang w₀ s t hi)

/-! ### the per-memoizer invariant (at most once …) under every schedule -/

/-- the five kinds of step -/
theorem cstep_cases (s : CState σ L τ α ι ε ρ) (t : Nat) :
    cstep X s t = s ∨
    (∃ op rest, (s.threads t).pc = .idle ∧ (s.threads t).prog = op :: rest ∧ s.lock = none ∧
      cstep X s t = { s with lock := some t, acq := (t, op) :: s.acq
                             threads := upd s.threads t { s.threads t with prog := rest, pc := .locked op } }) ∨
    (∃ op, (s.threads t).pc = .locked op ∧
      cstep X s t = { s with memo := (withTryGet X s.lang s.memo s.world op).memo
                             world := (withTryGet X s.lang s.memo s.world op).world
                             threads := upd s.threads t
                               { s.threads t with pc := .done (withTryGet X s.lang s.memo s.world op).out } }) ∨
    (∃ r, (s.threads t).pc = .done r ∧
      cstep X s t = { s with lock := none
                             threads := upd s.threads t
                               { s.threads t with pc := .idle, results := r :: (s.threads t).results } }) := by
  cases hpc : (s.threads t).pc with
  | idle =>
    cases hprog : (s.threads t).prog with
    | nil => exact Or.inl (cstep_finished X s t hpc hprog)
    | cons op rest =>
      cases hl : s.lock with
      | some h => exact Or.inl (cstep_blocked X s t h hpc hl)
      | none => exact Or.inr (Or.inl ⟨op, rest, rfl, rfl, rfl, cstep_acquire X s t op rest hpc hprog hl⟩)
  | locked op => exact Or.inr (Or.inr (Or.inl ⟨op, rfl, cstep_body X s t op hpc⟩))
  | done r => exact Or.inr (Or.inr (Or.inr ⟨r, rfl, cstep_release X s t r hpc⟩))

theorem lang_cstep (s : CState σ L τ α ι ε ρ) (t : Nat) : (cstep X s t).lang = s.lang := by
  rcases cstep_cases X s t with h | ⟨_, _, _, _, _, h⟩ | ⟨_, _, h⟩ | ⟨_, _, h⟩ <;> rw [h]

theorem LInv_cstep (s : CState σ L τ α ι ε ρ) (t : Nat) (hi : LInv s.lang s.memo) :
    LInv (cstep X s t).lang (cstep X s t).memo := by
  rcases cstep_cases X s t with h | ⟨_, _, _, _, _, h⟩ | ⟨op, _, h⟩ | ⟨_, _, h⟩ <;> rw [h]
  · exact hi
  · exact hi
  · exact LInv_step X s.lang s.memo s.world op hi
  · exact hi

theorem LInv_crun (sched : List Nat) (s : CState σ L τ α ι ε ρ) (hi : LInv s.lang s.memo) :
    LInv (crun X sched s).lang (crun X sched s).memo := by
  induction sched generalizing s with
  | nil => exact hi
  | cons t rest ih => simp only [crun, List.foldl_cons]; exact ih _ (LInv_cstep X s t hi)

/-! ### the acquisition order interleaves the programs -/

/-- lookups of thread `t` in acquisition order (oldest first) -/
def acqOf (t : Nat) (acq : List (Nat × Op σ τ α ι ρ)) : List (Op σ τ α ι ρ) :=
  ((acq.filter fun p => decide (p.1 = t)).map (·.2)).reverse

/-- what thread `t` acquired so far followed by what it still has to start is its program -/
def IInv (P : Nat → List (Op σ τ α ι ρ)) (s : CState σ L τ α ι ε ρ) : Prop :=
  ∀ t, acqOf t s.acq ++ (s.threads t).prog = P t

theorem IInv_step (P : Nat → List (Op σ τ α ι ρ)) (s : CState σ L τ α ι ε ρ) (t : Nat) (hi : IInv P s) :
    IInv P (cstep X s t) := by
  rcases cstep_cases X s t with h | ⟨op, rest, hpc, hprog, hl, h⟩ | ⟨op, hpc, h⟩ | ⟨r, hpc, h⟩ <;> rw [h]
  · exact hi
  · intro t'
    simp only
    have := hi t'
    by_cases e : t' = t
    · subst e
      rw [upd_same]
      rw [hprog] at this
      simp only [acqOf, List.filter_cons, decide_true, if_true, List.map_cons, List.reverse_cons,
        List.append_assoc, List.singleton_append] at this ⊢
      exact this
    · rw [upd_other _ _ _ _ e]
      have hne : ¬ t = t' := fun x => e x.symm
      simp only [acqOf, List.filter_cons, hne, decide_false] at this ⊢
      exact this
  · intro t'
    simp only
    by_cases e : t' = t
    · subst e; rw [upd_same]; exact hi t'
    · rw [upd_other _ _ _ _ e]; exact hi t'
  · intro t'
    simp only
    by_cases e : t' = t
    · subst e; rw [upd_same]; exact hi t'
    · rw [upd_other _ _ _ _ e]; exact hi t'

theorem IInv_run (P : Nat → List (Op σ τ α ι ρ)) (sched : List Nat) (s : CState σ L τ α ι ε ρ)
    (hi : IInv P s) : IInv P (crun X sched s) := by
  induction sched generalizing s with
  | nil => exact hi
  | cons t rest ih => simp only [crun, List.foldl_cons]; exact ih _ (IInv_step X P s t hi)

/-! ### relation to the plain sequential semantics `runOps` -/

theorem runOps_append (a b : List (Op σ τ α ι ρ)) (m : LMemo L τ α ι ε) (w : σ) :
    runOps X lang (a ++ b) m w =
      ((runOps X lang a m w).1 ++ (runOps X lang b (runOps X lang a m w).2.1 (runOps X lang a m w).2.2).1,
       (runOps X lang b (runOps X lang a m w).2.1 (runOps X lang a m w).2.2).2) := by
  induction a generalizing m w with
  | nil => simp [runOps]
  | cons op rest ih => simp only [List.cons_append, runOps]; rw [ih]

/-- running the acquired lookups in acquisition order with the ordinary sequential semantics -/
theorem seqAfter_eq_runOps (acq : List (Nat × Op σ τ α ι ρ)) :
    seqAfter X lang w₀ acq = (runOps X lang (acq.reverse.map (·.2)) LMemo.empty w₀).2 ∧
    (seqOuts X lang w₀ acq).reverse.map (·.2) = (runOps X lang (acq.reverse.map (·.2)) LMemo.empty w₀).1 ∧
    (seqOuts X lang w₀ acq).reverse.map (·.1) = acq.reverse.map (·.1) := by
  induction acq with
  | nil => simp [seqAfter, seqOuts, runOps]
  | cons p older ih =>
    obtain ⟨t, op⟩ := p
    obtain ⟨ih1, ih2, ih3⟩ := ih
    simp only [List.reverse_cons, List.map_append, List.map_cons, List.map_nil]
    rw [runOps_append]
    simp only [runOps, seqAfter, seqOuts, List.reverse_cons, List.map_append, List.map_cons, List.map_nil]
    rw [ih2, ih3, ← ih1]
    simp

/-! ### deadlock freedom and progress -/

/-- **no deadlock**: in every state satisfying the invariant, if some thread is unfinished then some thread
is enabled -/
theorem deadlock_free (s : CState σ L τ α ι ε ρ) (hi : CInv X lang w₀ s) (t : Nat) (hu : unfinished s t) :
    ∃ t', enabled s t' := by
  cases hl : s.lock with
  | none =>
    refine ⟨t, ?_⟩
    have hidle := (hi.quiet hl).1 t
    unfold unfinished at hu
    unfold enabled
    rw [hidle] at hu ⊢
    exact ⟨hu, hl⟩
  | some h =>
    refine ⟨h, ?_⟩
    obtain ⟨_, op, older, _, _, hd⟩ := hi.held h hl
    unfold enabled
    rcases hd with ⟨hp, _⟩ | ⟨hp, _⟩ <;> rw [hp] <;> trivial

/-- a step of a thread that is not enabled changes nothing -/
theorem cstep_not_enabled (s : CState σ L τ α ι ε ρ) (t : Nat) (hne : ¬ enabled s t) : cstep X s t = s := by
  unfold enabled at hne
  rcases cstep_cases X s t with h | ⟨op, rest, hpc, hprog, hl, _⟩ | ⟨op, hpc, _⟩ | ⟨r, hpc, _⟩
  · exact h
  · rw [hpc] at hne; exact absurd ⟨by rw [hprog]; simp, hl⟩ hne
  · rw [hpc] at hne; exact absurd trivial hne
  · rw [hpc] at hne; exact absurd trivial hne

/-- a step of an enabled thread decreases that thread's measure by one and leaves the other threads alone -/
theorem cstep_enabled (s : CState σ L τ α ι ε ρ) (t : Nat) (he : enabled s t) :
    ((cstep X s t).threads t).measure + 1 = (s.threads t).measure ∧
    ∀ t', t' ≠ t → (cstep X s t).threads t' = s.threads t' := by
  unfold enabled at he
  cases hpc : (s.threads t).pc with
  | idle =>
    rw [hpc] at he
    cases hprog : (s.threads t).prog with
    | nil => exact absurd hprog he.1
    | cons op rest =>
      rw [cstep_acquire X s t op rest hpc hprog he.2]
      refine ⟨?_, fun t' h => upd_other _ _ _ _ h⟩
      simp only
      rw [upd_same]
      simp only [Thread.measure, hpc, hprog, List.length_cons]
      omega
  | locked op =>
    rw [cstep_body X s t op hpc]
    refine ⟨?_, fun t' h => upd_other _ _ _ _ h⟩
    simp only
    rw [upd_same]
    simp only [Thread.measure, hpc]
  | done r =>
    rw [cstep_release X s t r hpc]
    refine ⟨?_, fun t' h => upd_other _ _ _ _ h⟩
    simp only
    rw [upd_same]
    simp only [Thread.measure, hpc]

theorem unfinished_iff_measure (s : CState σ L τ α ι ε ρ) (t : Nat) :
    unfinished s t ↔ 0 < (s.threads t).measure := by
  unfold unfinished Thread.measure
  cases (s.threads t).pc with
  | idle =>
    simp only
    cases (s.threads t).prog with
    | nil => simp
    | cons op rest => simp
  | locked op => simp
  | done r => simp

/-- when everybody is finished the lock is free -/
theorem lock_free_of_finished (s : CState σ L τ α ι ε ρ) (hi : CInv X lang w₀ s)
    (hf : ∀ t, ¬ unfinished s t) : s.lock = none := by
  cases hl : s.lock with
  | none => rfl
  | some h =>
    obtain ⟨_, op, older, _, _, hd⟩ := hi.held h hl
    have := hf h
    unfold unfinished at this
    rcases hd with ⟨hp, _⟩ | ⟨hp, _⟩ <;> rw [hp] at this <;> exact absurd trivial this

/-! ### completion: round-robin finishes every thread (no livelock) -/

/-- total measure of threads `0 … n-1` -/
def msum (f : Nat → Thread σ τ α ι ε ρ) : Nat → Nat
  | 0 => 0
  | n + 1 => msum f n + (f n).measure

theorem msum_congr (f g : Nat → Thread σ τ α ι ε ρ) (n : Nat) (h : ∀ t, t < n → f t = g t) :
    msum f n = msum g n := by
  induction n with
  | zero => rfl
  | succ n ih =>
    simp only [msum]
    rw [ih (fun t ht => h t (Nat.lt_succ_of_lt ht)), h n (Nat.lt_succ_self n)]

theorem msum_dec (f g : Nat → Thread σ τ α ι ε ρ) (t n : Nat) (ht : t < n)
    (hsame : ∀ t', t' ≠ t → g t' = f t') (hdec : (g t).measure + 1 = (f t).measure) :
    msum g n + 1 = msum f n := by
  induction n with
  | zero => exact absurd ht (Nat.not_lt_zero _)
  | succ n ih =>
    simp only [msum]
    by_cases e : t = n
    · subst e
      rw [msum_congr g f t (fun t' h' => hsame t' (Nat.ne_of_lt h'))]
      omega
    · have hlt : t < n := by omega
      have := ih hlt
      rw [hsame n (fun x => e x.symm)]
      omega

theorem msum_shift (g : Nat → Thread σ τ α ι ε ρ) (n : Nat) :
    msum g (n + 1) = (g 0).measure + msum (fun t => g (t + 1)) n := by
  induction n with
  | zero => simp [msum]
  | succ n ih =>
    rw [msum, ih]
    simp only [msum]
    omega

theorem msum_zero (f : Nat → Thread σ τ α ι ε ρ) (n : Nat) (h : msum f n = 0) :
    ∀ t, t < n → (f t).measure = 0 := by
  induction n with
  | zero => intro t ht; exact absurd ht (Nat.not_lt_zero _)
  | succ n ih =>
    simp only [msum] at h
    intro t ht
    rcases Nat.lt_succ_iff_lt_or_eq.1 ht with h1 | h1
    · exact ih (by omega) t h1
    · subst h1; omega

/-- threads `n, n+1, …` do not exist (finished from the start) -/
def BInv (n : Nat) (s : CState σ L τ α ι ε ρ) : Prop :=
  ∀ t, n ≤ t → (s.threads t).pc = .idle ∧ (s.threads t).prog = []

theorem BInv.enabled_lt {n : Nat} {s : CState σ L τ α ι ε ρ} (hb : BInv n s) (t : Nat) (he : enabled s t) :
    t < n := by
  rcases Nat.lt_or_ge t n with h | h
  · exact h
  · obtain ⟨h1, h2⟩ := hb t h
    unfold enabled at he
    rw [h1] at he
    exact absurd h2 he.1

theorem BInv_step (n : Nat) (s : CState σ L τ α ι ε ρ) (t : Nat) (hb : BInv n s) : BInv n (cstep X s t) := by
  by_cases he : enabled s t
  · have hlt := hb.enabled_lt t he
    intro t' ht'
    rw [(cstep_enabled X s t he).2 t' (by omega)]
    exact hb t' ht'
  · rw [cstep_not_enabled X s t he]; exact hb

theorem BInv_run (n : Nat) (sched : List Nat) (s : CState σ L τ α ι ε ρ) (hb : BInv n s) :
    BInv n (crun X sched s) := by
  induction sched generalizing s with
  | nil => exact hb
  | cons t rest ih => simp only [crun, List.foldl_cons]; exact ih _ (BInv_step X n s t hb)

theorem crun_append (a b : List Nat) (s : CState σ L τ α ι ε ρ) :
    crun X (a ++ b) s = crun X b (crun X a s) := by
  simp [crun, List.foldl_append]

/-- a step never increases the total measure; an enabled step decreases it by one -/
theorem msum_cstep (n : Nat) (s : CState σ L τ α ι ε ρ) (t : Nat) (hb : BInv n s) :
    (enabled s t → msum (cstep X s t).threads n + 1 = msum s.threads n) ∧
    msum (cstep X s t).threads n ≤ msum s.threads n := by
  by_cases he : enabled s t
  · have h := msum_dec s.threads (cstep X s t).threads t n (hb.enabled_lt t he)
      (cstep_enabled X s t he).2 (cstep_enabled X s t he).1
    exact ⟨fun _ => h, by omega⟩
  · rw [cstep_not_enabled X s t he]
    exact ⟨fun h => absurd h he, Nat.le_refl _⟩

theorem msum_crun_le (n : Nat) (l : List Nat) (s : CState σ L τ α ι ε ρ) (hb : BInv n s) :
    msum (crun X l s).threads n ≤ msum s.threads n := by
  induction l generalizing s with
  | nil => exact Nat.le_refl _
  | cons t rest ih =>
    simp only [crun, List.foldl_cons]
    exact Nat.le_trans (ih _ (BInv_step X n s t hb)) (msum_cstep X n s t hb).2

/-- a schedule that contains a thread which is enabled at its start makes progress -/
theorem msum_crun_lt (n : Nat) (l : List Nat) (s : CState σ L τ α ι ε ρ) (hb : BInv n s) (t : Nat)
    (hmem : t ∈ l) (he : enabled s t) : msum (crun X l s).threads n < msum s.threads n := by
  induction l generalizing s with
  | nil => cases hmem
  | cons t0 rest ih =>
    simp only [crun, List.foldl_cons]
    by_cases he0 : enabled s t0
    · have h1 := (msum_cstep X n s t0 hb).1 he0
      have h2 := msum_crun_le X n rest (cstep X s t0) (BInv_step X n s t0 hb)
      simp only [crun] at h2
      omega
    · rw [cstep_not_enabled X s t0 he0]
      rcases List.mem_cons.1 hmem with e | hm
      · subst e; exact absurd he he0
      · exact ih s hb hm he

/-- one round of round-robin makes progress unless everybody is finished -/
theorem round_progress (n : Nat) (s : CState σ L τ α ι ε ρ) (hi : CInv X lang w₀ s) (hb : BInv n s)
    (hpos : 0 < msum s.threads n) : msum (crun X (List.range n) s).threads n < msum s.threads n := by
  -- some thread below n is unfinished
  have hex : ∃ t, t < n ∧ unfinished s t := by
    apply Classical.byContradiction
    intro hno
    have hz : ∀ k, k ≤ n → msum s.threads k = 0 := by
      intro k hk
      induction k with
      | zero => rfl
      | succ k ih =>
        simp only [msum]
        rw [ih (by omega)]
        have : ¬ unfinished s k := fun hu => hno ⟨k, by omega, hu⟩
        rw [unfinished_iff_measure] at this
        omega
    have := hz n (Nat.le_refl _)
    omega
  obtain ⟨t, _, hu⟩ := hex
  obtain ⟨t', he⟩ := deadlock_free X lang w₀ s hi t hu
  exact msum_crun_lt X n (List.range n) s hb t' (List.mem_range.2 (hb.enabled_lt t' he)) he

theorem roundRobin_succ (n k : Nat) : roundRobin n (k + 1) = List.range n ++ roundRobin n k := by
  simp [roundRobin, List.replicate_succ]

theorem rounds_progress (n k : Nat) (s : CState σ L τ α ι ε ρ) (hi : CInv X lang w₀ s) (hb : BInv n s) :
    msum (crun X (roundRobin n k) s).threads n ≤ msum s.threads n - k := by
  induction k generalizing s with
  | zero => simp [roundRobin, crun]
  | succ k ih =>
    rw [roundRobin_succ, crun_append]
    have hi1 := CInv_run X lang w₀ (List.range n) s hi
    have hb1 := BInv_run X n (List.range n) s hb
    have h2 := ih _ hi1 hb1
    rcases Nat.eq_zero_or_pos (msum s.threads n) with hz | hp
    · have := msum_crun_le X n (List.range n) s hb
      omega
    · have := round_progress X lang w₀ n s hi hb hp
      omega

/-- **completion**: from any state satisfying the invariants, `msum` rounds of round-robin finish everybody -/
theorem rounds_finish (n k : Nat) (s : CState σ L τ α ι ε ρ) (hi : CInv X lang w₀ s) (hb : BInv n s)
    (hk : msum s.threads n ≤ k) : ∀ t, ¬ unfinished (crun X (roundRobin n k) s) t := by
  intro t
  have h0 : msum (crun X (roundRobin n k) s).threads n = 0 := by
    have := rounds_progress X lang w₀ n k s hi hb
    omega
  have hb' := BInv_run X n (roundRobin n k) s hb
  rw [unfinished_iff_measure]
  rcases Nat.lt_or_ge t n with h | h
  · rw [msum_zero _ n h0 t h]; exact Nat.lt_irrefl 0
  · obtain ⟨h1, h2⟩ := hb' t h
    simp [Thread.measure, h1, h2]

theorem BInv_init (progs : List (List (Op σ τ α ι ρ))) :
    BInv progs.length (CState.init lang w₀ progs : CState σ L τ α ι ε ρ) := by
  intro t ht
  simp only [CState.init]
  rw [List.getElem?_eq_none ht]
  exact ⟨rfl, rfl⟩

theorem msum_init (progs : List (List (Op σ τ α ι ρ))) :
    msum (CState.init lang w₀ progs : CState σ L τ α ι ε ρ).threads progs.length
      = 3 * (progs.map List.length).sum := by
  simp only [CState.init]
  induction progs with
  | nil => simp [msum]
  | cons p ps ih =>
    simp only [List.length_cons]
    rw [msum_shift]
    simp only [List.getElem?_cons_succ, List.map_cons, List.sum_cons]
    rw [ih]
    simp [Thread.measure, Thread.start]
    omega

end Conc
end FluentModel.Memo
