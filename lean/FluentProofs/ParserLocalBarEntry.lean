import FluentProofs.ParserLocalBarExpr
/-!
# Barrier family (C03 locality), part 3: entries and the two entry loops

Entry-level parsers started before `n` succeed at or before `n` and fail at or before `E`; junk recovery then
lands at or before `n`; hence both entry loops, started at or before `n`, arrive at the cursor `n` exactly
(`parseLoop_reach`, `parseRuntimeLoop_reach`).
-/
namespace FluentProofs.Parser
open FluentModel.Syntax

variable {s : Src} {n E : Nat}

/-! ## attributes, messages, terms -/

theorem Bar.expectByte_lt (hb : Bar s n E) {p : Nat} {b : UInt8} (hp : p < n) (hne : b ≠ 10) :
    UN (n - 1) (n - 1) (expectByte s p b) := by
  rcases expectByte_cases s p b with ⟨hx, hx'⟩ | ⟨hx, _⟩ <;> rw [hx]
  · have := hb.succ_lt hp (by rw [hx']; intro h; cases h; exact hne rfl)
    un_close
  · un_close

theorem Bar.getAttribute_lt (hb : Bar s n E) (F : Nat) {p : Nat} (hp : p < n) : UN n E (getAttribute s F p) := by
  have hlt := hb.lt
  unfold getAttribute
  rcases (hb.getIdentifier_lt hp).cases with ⟨id, q, hr, h1⟩ | ⟨e, q, hr, h1⟩ | ⟨m, hr⟩ | hr <;> simp only [hr] <;>
    try un_close
  have h2 := hb.skipBlankInline_lt_n (p := q) (by omega)
  rcases (hb.expectByte_lt (b := 61) h2 (by decide)).cases with ⟨_, q2, hr2, h3⟩ | ⟨e2, q2, hr2, h3⟩ | ⟨m, hr2⟩ | hr2 <;>
    simp only [hr2] <;> try un_close
  rcases (hb.getPattern_lt F (p := q2) (by omega)).cases with ⟨o, q3, hr3, h4⟩ | ⟨e3, q3, hr3, h4⟩ | ⟨m, hr3⟩ | hr3 <;>
    simp only [hr3] <;> try un_close
  cases o <;> un_close

theorem Bar.getAttributesGo_le (hb : Bar s n E) (F k : Nat) (acc : List (Attribute Span)) {p : Nat} (hp : p ≤ n) :
    UN n E (getAttributesGo s F k acc p) := by
  have hlt := hb.lt
  induction k generalizing acc p with
  | zero => simp [getAttributesGo]
  | succ k ih =>
    simp only [getAttributesGo]
    have h1 := hb.skipBlankInline_le_n hp
    rcases takeByteIf_cases s (skipBlankInline s p) 46 with ⟨h, h'⟩ | ⟨h, _⟩ <;> rw [h] <;> simp only []
    · simp only [Bool.not_true, Bool.false_eq_true, if_false]
      have h2 := hb.stop2 (hb.le_E h1) h'
      rcases (hb.getAttribute_lt F h2).cases with ⟨a, q, hr, h3⟩ | ⟨e, q, hr, h3⟩ | ⟨m, hr⟩ | hr <;> simp only [hr] <;>
        try un_close
      exact ih _ h3
    · simp only [Bool.not_false, if_true]; un_close

theorem Bar.getAttributes_le (hb : Bar s n E) (F : Nat) {p : Nat} (hp : p ≤ n) : UN n E (getAttributes s F p) :=
  hb.getAttributesGo_le F _ [] hp

theorem Bar.getMessage_lt (hb : Bar s n E) (F es : Nat) {p : Nat} (hp : p < n) : UN n E (getMessage s F es p) := by
  have hlt := hb.lt
  unfold getMessage
  rcases (hb.getIdentifier_lt hp).cases with ⟨id, q, hr, h1⟩ | ⟨e, q, hr, h1⟩ | ⟨m, hr⟩ | hr <;> simp only [hr] <;>
    try un_close
  have h2 := hb.skipBlankInline_lt_n (p := q) (by omega)
  rcases (hb.expectByte_lt (b := 61) h2 (by decide)).cases with ⟨_, q2, hr2, h3⟩ | ⟨e2, q2, hr2, h3⟩ | ⟨m, hr2⟩ | hr2 <;>
    simp only [hr2] <;> try un_close
  rcases (hb.getPattern_lt F (p := q2) (by omega)).cases with ⟨o, q3, hr3, h4⟩ | ⟨e3, q3, hr3, h4⟩ | ⟨m, hr3⟩ | hr3 <;>
    simp only [hr3] <;> try un_close
  have h5 := hb.skipBlankBlock_le_n h4
  rcases (hb.getAttributes_le F h5).cases with ⟨attrs, q5, hr5, h6⟩ | ⟨e5, q5, hr5, h6⟩ | ⟨m, hr5⟩ | hr5 <;>
    simp only [hr5] <;> try un_close
  split <;> un_close

theorem Bar.getTerm_lt (hb : Bar s n E) (F es : Nat) {p : Nat} (hp : p < n) : UN n E (getTerm s F es p) := by
  have hlt := hb.lt
  unfold getTerm
  rcases (hb.expectByte_lt (b := 45) hp (by decide)).cases with ⟨_, p0, hr0, h0⟩ | ⟨e, q, hr0, h0⟩ | ⟨m, hr0⟩ | hr0 <;>
    simp only [hr0] <;> try un_close
  rcases (hb.getIdentifier_lt (p := p0) (by omega)).cases with ⟨id, q, hr, h1⟩ | ⟨e, q, hr, h1⟩ | ⟨m, hr⟩ | hr <;>
    simp only [hr] <;> try un_close
  have h2 := hb.skipBlankInline_lt_n (p := q) (by omega)
  rcases (hb.expectByte_lt (b := 61) h2 (by decide)).cases with ⟨_, q2, hr2, h3⟩ | ⟨e2, q2, hr2, h3⟩ | ⟨m, hr2⟩ | hr2 <;>
    simp only [hr2] <;> try un_close
  have h3' := hb.skipBlankInline_lt_n (p := q2) (by omega)
  rcases (hb.getPattern_lt F h3').cases with ⟨o, q3, hr3, h4⟩ | ⟨e3, q3, hr3, h4⟩ | ⟨m, hr3⟩ | hr3 <;>
    simp only [hr3] <;> try un_close
  have h5 := hb.skipBlankBlock_le_n h4
  rcases (hb.getAttributes_le F h5).cases with ⟨attrs, q5, hr5, h6⟩ | ⟨e5, q5, hr5, h6⟩ | ⟨m, hr5⟩ | hr5 <;>
    simp only [hr5] <;> try un_close
  cases o <;> un_close

/-! ## comments -/

theorem Bar.getCommentGo_le (hb : Bar s n E) (k level : Nat) (content : List Span) {p : Nat} (hp : p ≤ n) :
    UN n E (getCommentGo s k level content p) := by
  have hlt := hb.lt
  induction k generalizing level content p with
  | zero => simp [getCommentGo]
  | succ k ih =>
    simp only [getCommentGo]
    split
    · obtain ⟨l, hl, hl0⟩ := hb.getCommentLevel_lt hp
      rw [hl]
      simp only []
      have step : ∀ p2, p2 < n →
          UN n E
            (match getCommentLine s p2 with
             | .ok line q => getCommentGo s k l (content ++ [line]) ((skipEol s q).getD q)
             | .err e q => .err e q
             | .panic m => .panic m
             | .fuel => .fuel) := by
        intro p2 hp2
        rcases (hb.getCommentLine_lt hp2).cases with ⟨line, q, hr, h1⟩ | ⟨e, q, hr, h1⟩ | ⟨m, hr⟩ | hr <;>
          simp only [hr] <;> try un_close
        apply ih
        cases hE : skipEol s q with
        | none => simp only [Option.getD_none]; omega
        | some q' => simp only [Option.getD_some]; exact hb.skipEol_le_n hE (by omega)
      split
      · simp only [usub]
        split
        · rename_i q heq
          split at heq
          · cases heq; un_close
          · cases heq
        · trivial
      · rename_i hlne
        have hl1 : p + l < n := by
          rcases hl0 with h | h
          · simp [h] at hlne
          · exact h
        split
        · simp only [usub, Nat.le_add_left, if_true, Nat.add_sub_cancel]; un_close
        · split
          · exact step _ hl1
          · rcases expectByte_cases s (p + l) 32 with ⟨hx, hx'⟩ | ⟨hx, _⟩ <;> rw [hx] <;> simp only []
            · exact step _ (hb.succ_lt hl1 (by rw [hx']; decide))
            · split
              · un_close
              · simp only [usub, Nat.le_add_left, if_true, Nat.add_sub_cancel]; un_close
    · un_close

theorem Bar.getComment_lt (hb : Bar s n E) {p : Nat} (hp : p < n) : UN n E (getComment s p) :=
  hb.getCommentGo_le _ 0 [] (Nat.le_of_lt hp)

theorem Bar.skipCommentGo_le (hb : Bar s n E) (k : Nat) {p : Nat} (hp : p < n) : skipCommentGo s k p ≤ n := by
  have hlt := hb.lt
  induction k generalizing p with
  | zero => simp only [skipCommentGo]; omega
  | succ k ih =>
    simp only [skipCommentGo]
    have he := hb.commentLineEnd_lt hp
    split
    · rename_i hc
      have h35 := (isCurrentByte_iff _ _ _).mp hc
      exact ih (hb.stop2 (by omega) h35)
    · omega

theorem Bar.skipComment_le (hb : Bar s n E) {p : Nat} (hp : p < n) : skipComment s p ≤ n :=
  hb.skipCommentGo_le _ hp

/-! ## the entry dispatchers -/

theorem Bar.getEntry_lt (hb : Bar s n E) (F : Nat) {p : Nat} (hp : p < n) : UN n E (getEntry s F p) := by
  unfold getEntry
  split
  · rcases (hb.getComment_lt hp).cases with ⟨⟨content, level⟩, q, hr, h1⟩ | ⟨e, q, hr, h1⟩ | ⟨m, hr⟩ | hr <;>
      simp only [hr] <;> try un_close
    (repeat' split) <;> un_close
  · rcases (hb.getTerm_lt F p hp).cases with ⟨t, q, hr, h1⟩ | ⟨e, q, hr, h1⟩ | ⟨m, hr⟩ | hr <;> simp only [hr] <;>
      un_close
  · rcases (hb.getMessage_lt F p hp).cases with ⟨t, q, hr, h1⟩ | ⟨e, q, hr, h1⟩ | ⟨m, hr⟩ | hr <;> simp only [hr] <;>
      un_close

theorem Bar.getEntryRuntime_lt (hb : Bar s n E) (F : Nat) {p : Nat} (hp : p < n) : UN n E (getEntryRuntime s F p) := by
  unfold getEntryRuntime
  split
  · have := hb.skipComment_le hp
    un_close
  · rcases (hb.getTerm_lt F p hp).cases with ⟨t, q, hr, h1⟩ | ⟨e, q, hr, h1⟩ | ⟨m, hr⟩ | hr <;> simp only [hr] <;>
      un_close
  · rcases (hb.getMessage_lt F p hp).cases with ⟨t, q, hr, h1⟩ | ⟨e, q, hr, h1⟩ | ⟨m, hr⟩ | hr <;> simp only [hr] <;>
      un_close

/-! ## junk recovery -/

theorem rposNewlineGo_none {s : Src} {a k b : Nat} (h : rposNewlineGo s a k b = none) (hk : b - a ≤ k) :
    ∀ j, a ≤ j → j < b → s[j]? ≠ some 10 := by
  induction k generalizing b with
  | zero => intro j h1 h2; omega
  | succ k ih =>
    simp only [rposNewlineGo] at h
    split at h
    · split at h
      · cases h
      · rename_i hgt hne
        intro j h1 h2
        by_cases hj : j = b - 1
        · subst hj; simpa using hne
        · exact ih h (by omega) j h1 (by omega)
    · intro j h1 h2; omega

theorem Bar.skipToNextEntryStartGo_le (hb : Bar s n E) (k : Nat) {p : Nat} (hp : p ≤ n) :
    skipToNextEntryStartGo s k p ≤ n := by
  induction k generalizing p with
  | zero => exact hp
  | succ k ih =>
    simp only [skipToNextEntryStartGo]
    split
    · exact hp
    · rename_i b hb1
      split
      · exact hp
      · rename_i hc
        apply ih
        by_cases hpn : p = n
        · exfalso
          apply hc
          rw [hpn] at hb1 ⊢
          have hr := hb.at_n hb1
          have hnl : (n == 0 || s[n - 1]? == some 10) = true := by
            rcases hb.ls with h | h <;> simp [h]
          simp only [hnl, isReal_entry hr, Bool.and_self]
        · omega

/-- junk recovery after an error at or before `E` in an entry started before `n` stops at or before `n` -/
theorem Bar.skipToNextEntryStart_le (hb : Bar s n E) {p q q1 : Nat} (hp : p < n) (hq : q ≤ E)
    (h : skipToNextEntryStart s p q = some q1) : q1 ≤ n := by
  have hsz := hb.lt_size
  have hlt := hb.lt
  unfold skipToNextEntryStart at h
  have hmin : min q s.size = q := by omega
  simp only [hmin] at h
  split at h
  · simp only [Option.some.injEq] at h
    subst h
    apply hb.skipToNextEntryStartGo_le
    split
    · rename_i nl hnl
      have h1 := rposNewlineGo_some' hnl
      have := hb.stop (x := nl) (by omega) h1.2.2
      exact this
    · rename_i hnone
      apply Classical.byContradiction
      intro hn
      exact rposNewlineGo_none hnone (Nat.le_refl _) (n - 1) (by omega) (by omega) (hb.nl hp)
  · cases h

/-! ## one iteration of each loop, with the accumulators as extensions -/

theorem parseLoop_step_loc {s : Src} {F N : Nat} {body : List (Entry Span)} {errs : List PErr}
    {lc : Option (List Span)} {cnt p : Nat} {r : List (Entry Span) × List PErr} (hp : p < s.size)
    (h : parseLoop s F (N + 1) body errs lc cnt p = .done r) :
    ∃ mid em lc' cnt' p', parseLoop s F N (body ++ mid) (errs ++ em) lc' cnt' p' = .done r ∧
      ((∃ e q, getEntry s F p = .ok e q ∧ p' = (skipBlankBlock s q).1 ∧ junkSpans mid = [] ∧ em = []) ∨
       (∃ e q q1 content, getEntry s F p = .err e q ∧ skipToNextEntryStart s p q = some q1 ∧
          p' = (skipBlankBlock s q1).1 ∧ slice s p q1 = some content ∧ junkSpans mid = [content] ∧
          em = [{ clampErr e q1 with slice := some (p, q1) }])) := by
  unfold parseLoop at h
  simp only [hp, if_true] at h
  cases hr : getEntry s F p with
  | ok ent q =>
    have hnj := getEntry_not_junk s F p ent q hr
    cases lc with
    | none =>
      simp only [hr] at h
      cases ent with
      | comment c => exact ⟨[], [], _, _, _, by simpa using h, Or.inl ⟨_, _, rfl, rfl, rfl, rfl⟩⟩
      | junk c => simp [Entry.isJunk] at hnj
      | message m => exact ⟨[.message m], [], _, _, _, by simpa using h, Or.inl ⟨_, _, rfl, rfl, rfl, rfl⟩⟩
      | term t => exact ⟨[.term t], [], _, _, _, by simpa using h, Or.inl ⟨_, _, rfl, rfl, rfl, rfl⟩⟩
      | groupComment c =>
        exact ⟨[.groupComment c], [], _, _, _, by simpa using h, Or.inl ⟨_, _, rfl, rfl, rfl, rfl⟩⟩
      | resourceComment c =>
        exact ⟨[.resourceComment c], [], _, _, _, by simpa using h, Or.inl ⟨_, _, rfl, rfl, rfl, rfl⟩⟩
    | some c0 =>
      simp only [hr] at h
      cases ent with
      | comment c => exact ⟨[.comment c0], [], _, _, _, by simpa using h, Or.inl ⟨_, _, rfl, rfl, rfl, rfl⟩⟩
      | junk c => simp [Entry.isJunk] at hnj
      | message m =>
        by_cases hl : cnt < 2
        · simp only [hl, if_true] at h
          exact ⟨[.message { m with comment := some c0 }], [], _, _, _, by simpa using h,
            Or.inl ⟨_, _, rfl, rfl, rfl, rfl⟩⟩
        · simp only [hl, if_false] at h
          exact ⟨[.comment c0, .message m], [], _, _, _, by simpa using h, Or.inl ⟨_, _, rfl, rfl, rfl, rfl⟩⟩
      | term t =>
        by_cases hl : cnt < 2
        · simp only [hl, if_true] at h
          exact ⟨[.term { t with comment := some c0 }], [], _, _, _, by simpa using h,
            Or.inl ⟨_, _, rfl, rfl, rfl, rfl⟩⟩
        · simp only [hl, if_false] at h
          exact ⟨[.comment c0, .term t], [], _, _, _, by simpa using h, Or.inl ⟨_, _, rfl, rfl, rfl, rfl⟩⟩
      | groupComment c =>
        exact ⟨[.comment c0, .groupComment c], [], _, _, _, by simpa using h, Or.inl ⟨_, _, rfl, rfl, rfl, rfl⟩⟩
      | resourceComment c =>
        exact ⟨[.comment c0, .resourceComment c], [], _, _, _, by simpa using h,
          Or.inl ⟨_, _, rfl, rfl, rfl, rfl⟩⟩
  | err er q =>
    cases lc with
    | none =>
      simp only [hr] at h
      split at h
      · cases h
      · rename_i q1 hq1
        split at h
        · rename_i content hcontent
          exact ⟨[.junk content], [{ clampErr er q1 with slice := some (p, q1) }], _, _, _, h,
            Or.inr ⟨_, _, _, _, rfl, hq1, rfl, hcontent, rfl, rfl⟩⟩
        · cases h
    | some c0 =>
      simp only [hr] at h
      split at h
      · cases h
      · rename_i q1 hq1
        split at h
        · rename_i content hcontent
          exact ⟨[.comment c0, .junk content], [{ clampErr er q1 with slice := some (p, q1) }], _, _, _,
            by simpa using h, Or.inr ⟨_, _, _, _, rfl, hq1, rfl, hcontent, rfl, rfl⟩⟩
        · cases h
  | panic m => cases lc <;> simp [hr] at h
  | fuel => cases lc <;> simp [hr] at h

theorem parseLoop_step_app {s : Src} {F N : Nat} {body : List (Entry Span)} {errs : List PErr}
    {lc : Option (List Span)} {cnt p : Nat} {r : List (Entry Span) × List PErr} (hp : p < s.size)
    (h : parseLoop s F (N + 1) body errs lc cnt p = .done r) :
    ∃ mid em lc' cnt' p', parseLoop s F N (body ++ mid) (errs ++ em) lc' cnt' p' = .done r ∧
      ((∃ e q, getEntry s F p = .ok e q ∧ p' = (skipBlankBlock s q).1) ∨
       (∃ e q q1, getEntry s F p = .err e q ∧ skipToNextEntryStart s p q = some q1 ∧
          p' = (skipBlankBlock s q1).1)) := by
  obtain ⟨mid, em, lc', cnt', p', hloop, hcase⟩ := parseLoop_step_loc hp h
  refine ⟨mid, em, lc', cnt', p', hloop, ?_⟩
  rcases hcase with ⟨e, q, hr, hp', _, _⟩ | ⟨e, q, q1, _, hr, hq1, hp', _, _, _⟩
  · exact Or.inl ⟨e, q, hr, hp'⟩
  · exact Or.inr ⟨e, q, q1, hr, hq1, hp'⟩

theorem parseRuntimeLoop_step_loc {s : Src} {F N : Nat} {body : List (Entry Span)} {errs : List PErr}
    {p : Nat} {r : List (Entry Span) × List PErr} (hp : p < s.size)
    (h : parseRuntimeLoop s F (N + 1) body errs p = .done r) :
    ∃ mid em p', parseRuntimeLoop s F N (body ++ mid) (errs ++ em) p' = .done r ∧
      ((∃ o q, getEntryRuntime s F p = .ok o q ∧ p' = (skipBlankBlock s q).1 ∧ junkSpans mid = [] ∧ em = []) ∨
       (∃ e q q1 content, getEntryRuntime s F p = .err e q ∧ skipToNextEntryStart s p q = some q1 ∧
          p' = (skipBlankBlock s q1).1 ∧ slice s p q1 = some content ∧ junkSpans mid = [content] ∧
          em = [{ clampErr e q1 with slice := some (p, q1) }])) := by
  unfold parseRuntimeLoop at h
  simp only [hp, if_true] at h
  cases hr : getEntryRuntime s F p with
  | ok o q =>
    simp only [hr] at h
    cases o with
    | none => exact ⟨[], [], _, by simpa using h, Or.inl ⟨_, _, rfl, rfl, rfl, rfl⟩⟩
    | some ent =>
      have hnj := getEntryRuntime_not_junk s F p ent q hr
      exact ⟨[ent], [], _, by simpa using h, Or.inl ⟨_, _, rfl, rfl, junkSpans_single_nonjunk ent hnj, rfl⟩⟩
  | err er q =>
    simp only [hr] at h
    split at h
    · cases h
    · rename_i q1 hq1
      split at h
      · rename_i content hcontent
        exact ⟨[.junk content], [{ clampErr er q1 with slice := some (p, q1) }], _, h,
          Or.inr ⟨_, _, _, _, rfl, hq1, rfl, hcontent, rfl, rfl⟩⟩
      · cases h
  | panic m => simp [hr] at h
  | fuel => simp [hr] at h

theorem parseRuntimeLoop_step_app {s : Src} {F N : Nat} {body : List (Entry Span)} {errs : List PErr}
    {p : Nat} {r : List (Entry Span) × List PErr} (hp : p < s.size)
    (h : parseRuntimeLoop s F (N + 1) body errs p = .done r) :
    ∃ mid em p', parseRuntimeLoop s F N (body ++ mid) (errs ++ em) p' = .done r ∧
      ((∃ o q, getEntryRuntime s F p = .ok o q ∧ p' = (skipBlankBlock s q).1) ∨
       (∃ e q q1, getEntryRuntime s F p = .err e q ∧ skipToNextEntryStart s p q = some q1 ∧
          p' = (skipBlankBlock s q1).1)) := by
  obtain ⟨mid, em, p', hloop, hcase⟩ := parseRuntimeLoop_step_loc hp h
  refine ⟨mid, em, p', hloop, ?_⟩
  rcases hcase with ⟨e, q, hr, hp', _, _⟩ | ⟨e, q, q1, _, hr, hq1, hp', _, _, _⟩
  · exact Or.inl ⟨e, q, hr, hp'⟩
  · exact Or.inr ⟨e, q, q1, hr, hq1, hp'⟩

/-- what one iteration started at `p < n` adds lies inside `[p, n]`, and the cursor moves forward, not past `n` -/
theorem Bar.iter_loc {α : Type} (hb : Bar s n E) {p p' : Nat} {mid : List (Entry Span)} {em : List PErr}
    {noMT : α → Prop} {re : R α} (hlt : p < n) (hE : UN n E re) (hL : ELines s p noMT re)
    (hcase : (∃ e q, re = .ok e q ∧ p' = (skipBlankBlock s q).1 ∧ junkSpans mid = [] ∧ em = []) ∨
       (∃ e q q1 content, re = .err e q ∧ skipToNextEntryStart s p q = some q1 ∧
          p' = (skipBlankBlock s q1).1 ∧ slice s p q1 = some content ∧ junkSpans mid = [content] ∧
          em = [{ clampErr e q1 with slice := some (p, q1) }])) :
    p ≤ p' ∧ p' ≤ n ∧ (∀ sp ∈ junkSpans mid, p ≤ sp.start ∧ sp.stop ≤ n) ∧
      (∀ e ∈ em, ∃ a b, e.slice = some (a, b) ∧ p ≤ a ∧ b ≤ n) := by
  rcases hcase with ⟨e, q, hr, rfl, hj, rfl⟩ | ⟨e, q, q1, content, hr, hq1, rfl, hsl, hj, rfl⟩
  · rw [hr] at hE hL
    have h1 := skipBlankBlock_le s q
    have h2 : p ≤ q := hL.1
    exact ⟨by omega, hb.skipBlankBlock_le_n hE, by rw [hj]; simp, by simp⟩
  · rw [hr] at hE
    have hq1n := hb.skipToNextEntryStart_le hlt hE hq1
    have hge := skipToNextEntryStart_ge hq1
    have h1 := skipBlankBlock_le s q1
    have hc := slice_some_eq hsl
    refine ⟨by omega, hb.skipBlankBlock_le_n hq1n, ?_, ?_⟩
    · rw [hj]
      intro sp hsp
      simp only [List.mem_singleton] at hsp
      subst hsp; subst hc
      exact ⟨Nat.le_refl _, hq1n⟩
    · intro e' he'
      simp only [List.mem_singleton] at he'
      subst he'
      exact ⟨p, q1, rfl, Nat.le_refl _, hq1n⟩

/-! ## the loops arrive at `n` -/

/-- the full parser's entry loop, started at `p ≤ n`, reaches the cursor `n` exactly; the Junk entries and errors
produced on the way lie inside `[p, n]` -/
theorem parseLoop_reach_loc {s : Src} {n E : Nat} (hb : Bar s n E) (F : Nat) :
    ∀ (N : Nat) (body : List (Entry Span)) (errs : List PErr) (lc : Option (List Span)) (cnt p : Nat)
      (r : List (Entry Span) × List PErr), p ≤ n →
      parseLoop s F N body errs lc cnt p = .done r →
      ∃ N' mid errsMid lc' cnt', N' ≤ N ∧
        parseLoop s F N' (body ++ mid) (errs ++ errsMid) lc' cnt' n = .done r ∧
        (∀ sp ∈ junkSpans mid, p ≤ sp.start ∧ sp.stop ≤ n) ∧
        (∀ e ∈ errsMid, ∃ a b, e.slice = some (a, b) ∧ p ≤ a ∧ b ≤ n) := by
  intro N
  induction N with
  | zero => intro body errs lc cnt p r _ h; simp [parseLoop] at h
  | succ N ih =>
    intro body errs lc cnt p r hp h
    by_cases hpn : p = n
    · rw [hpn] at h
      exact ⟨N + 1, [], [], lc, cnt, Nat.le_refl _, by simpa using h, by simp [junkSpans], by simp⟩
    · have hlt : p < n := by omega
      have hsz : p < s.size := by have := hb.lt_size; have := hb.lt; omega
      obtain ⟨mid, em, lc', cnt', p', hloop, hcase⟩ := parseLoop_step_loc hsz h
      obtain ⟨hpp', hp'n, hj, he⟩ := hb.iter_loc hlt (hb.getEntry_lt F hlt) (getEntry_lines s F p) hcase
      obtain ⟨N', mid', em', lc'', cnt'', hN, hfin, hj', he'⟩ := ih _ _ _ _ _ _ hp'n hloop
      refine ⟨N', mid ++ mid', em ++ em', lc'', cnt'', by omega, by
        rw [← List.append_assoc, ← List.append_assoc]; exact hfin, ?_, ?_⟩
      · intro sp hsp
        rw [junkSpans_append] at hsp
        rcases List.mem_append.mp hsp with h1 | h1
        · exact hj sp h1
        · have := hj' sp h1; exact ⟨by omega, this.2⟩
      · intro e hmem
        rcases List.mem_append.mp hmem with h1 | h1
        · exact he e h1
        · obtain ⟨a, b, h2, h3, h4⟩ := he' e h1
          exact ⟨a, b, h2, by omega, h4⟩

/-- the full parser's entry loop, started at or before `n`, reaches the cursor `n` exactly -/
theorem parseLoop_reach {s : Src} {n E : Nat} (hb : Bar s n E) (F : Nat) :
    ∀ (N : Nat) (body : List (Entry Span)) (errs : List PErr) (lc : Option (List Span)) (cnt p : Nat)
      (r : List (Entry Span) × List PErr), p ≤ n →
      parseLoop s F N body errs lc cnt p = .done r →
      ∃ N' mid errsMid lc' cnt', N' ≤ N ∧
        parseLoop s F N' (body ++ mid) (errs ++ errsMid) lc' cnt' n = .done r := by
  intro N body errs lc cnt p r hp h
  obtain ⟨N', mid, em, lc', cnt', hN, hfin, _, _⟩ := parseLoop_reach_loc hb F N body errs lc cnt p r hp h
  exact ⟨N', mid, em, lc', cnt', hN, hfin⟩

/-- the runtime parser's entry loop, started at `p ≤ n`, reaches the cursor `n` exactly; the Junk entries and
errors produced on the way lie inside `[p, n]` -/
theorem parseRuntimeLoop_reach_loc {s : Src} {n E : Nat} (hb : Bar s n E) (F : Nat) :
    ∀ (N : Nat) (body : List (Entry Span)) (errs : List PErr) (p : Nat) (r : List (Entry Span) × List PErr), p ≤ n →
      parseRuntimeLoop s F N body errs p = .done r →
      ∃ N' mid errsMid, N' ≤ N ∧ parseRuntimeLoop s F N' (body ++ mid) (errs ++ errsMid) n = .done r ∧
        (∀ sp ∈ junkSpans mid, p ≤ sp.start ∧ sp.stop ≤ n) ∧
        (∀ e ∈ errsMid, ∃ a b, e.slice = some (a, b) ∧ p ≤ a ∧ b ≤ n) := by
  intro N
  induction N with
  | zero => intro body errs p r _ h; simp [parseRuntimeLoop] at h
  | succ N ih =>
    intro body errs p r hp h
    by_cases hpn : p = n
    · rw [hpn] at h
      exact ⟨N + 1, [], [], Nat.le_refl _, by simpa using h, by simp [junkSpans], by simp⟩
    · have hlt : p < n := by omega
      have hsz : p < s.size := by have := hb.lt_size; have := hb.lt; omega
      obtain ⟨mid, em, p', hloop, hcase⟩ := parseRuntimeLoop_step_loc hsz h
      obtain ⟨hpp', hp'n, hj, he⟩ :=
        hb.iter_loc hlt (hb.getEntryRuntime_lt F hlt) (getEntryRuntime_lines s F p) hcase
      obtain ⟨N', mid', em', hN, hfin, hj', he'⟩ := ih _ _ _ _ hp'n hloop
      refine ⟨N', mid ++ mid', em ++ em', by omega, by
        rw [← List.append_assoc, ← List.append_assoc]; exact hfin, ?_, ?_⟩
      · intro sp hsp
        rw [junkSpans_append] at hsp
        rcases List.mem_append.mp hsp with h1 | h1
        · exact hj sp h1
        · have := hj' sp h1; exact ⟨by omega, this.2⟩
      · intro e hmem
        rcases List.mem_append.mp hmem with h1 | h1
        · exact he e h1
        · obtain ⟨a, b, h2, h3, h4⟩ := he' e h1
          exact ⟨a, b, h2, by omega, h4⟩

/-- the runtime parser's entry loop, started at or before `n`, reaches the cursor `n` exactly -/
theorem parseRuntimeLoop_reach {s : Src} {n E : Nat} (hb : Bar s n E) (F : Nat) :
    ∀ (N : Nat) (body : List (Entry Span)) (errs : List PErr) (p : Nat) (r : List (Entry Span) × List PErr), p ≤ n →
      parseRuntimeLoop s F N body errs p = .done r →
      ∃ N' mid errsMid, N' ≤ N ∧ parseRuntimeLoop s F N' (body ++ mid) (errs ++ errsMid) n = .done r := by
  intro N body errs p r hp h
  obtain ⟨N', mid, em, hN, hfin, _, _⟩ := parseRuntimeLoop_reach_loc hb F N body errs p r hp h
  exact ⟨N', mid, em, hN, hfin⟩

end FluentProofs.Parser
