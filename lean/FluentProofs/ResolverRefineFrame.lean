import FluentModel.Resolver
/-!
# Resolver model: every call leaves `local_args` (and a non-empty `travelled`) as it found them

This is the code-level content of "the term's own arguments are back in force when a nested call returns":
whatever a call does (normal return, cycle, missing reference, limit exceeded), if it returns then
`localArgs` is what it was, and so is `travelled` unless it was empty (the top-level `maybe_track` pushes the
pattern once and never pops it).  Unconditional: no hypothesis on the scope, the bundle or the fuel.
-/
namespace FluentProofs.ResolverRefine
open FluentModel FluentModel.Syntax FluentModel.Num FluentModel.Resolver

/-- `sc'` has the `localArgs` of `sc`, and its `travelled` if that was non-empty -/
def Fr (sc sc' : Scope) : Prop :=
  sc'.localArgs = sc.localArgs ∧ (sc.travelled ≠ [] → sc'.travelled = sc.travelled)

theorem Fr.refl (sc : Scope) : Fr sc sc := ⟨rfl, fun _ => rfl⟩

theorem Fr.trans {a b c : Scope} (h1 : Fr a b) (h2 : Fr b c) : Fr a c :=
  ⟨h2.1.trans h1.1, fun h => by
    have hb := h1.2 h
    rw [h2.2 (by rw [hb]; exact h), hb]⟩

theorem Fr.addError {a b : Scope} (h : Fr a b) (e : RErr) : Fr a (b.addError e) := h

theorem Fr.congr {a b b' : Scope} (h : Fr a b) (h1 : b'.localArgs = b.localArgs) (h2 : b'.travelled = b.travelled) :
    Fr a b' := ⟨h1.trans h.1, fun hne => h2.trans (h.2 hne)⟩

def Frame {α : Type} (sc : Scope) : RR (α × Scope) → Prop
  | .ok (_, sc') => Fr sc sc'
  | _ => True

theorem writeRefError_frame (w : Bytes) (sc0 sc : Scope) (e : Inline Bytes) (h : Fr sc0 sc) :
    Frame sc0 (writeRefError w sc e) := by
  unfold writeRefError
  cases refKindOf e with
  | none => trivial
  | some k => exact h

theorem selectVariant_cases (env : Env) (vs : List (Variant Bytes)) (s : Value) :
    (∃ r, selectVariant env vs s = .ok r) ∨ (∃ m, selectVariant env vs s = .panic m) := by
  induction vs with
  | nil => exact .inl ⟨_, rfl⟩
  | cons v rest ih =>
    obtain ⟨k, val, d⟩ := v
    unfold selectVariant
    simp only []
    cases valueMatches env _ s with
    | none => exact .inr ⟨_, rfl⟩
    | some b => cases b <;> simp [ih]

def FrameAll (env : Env) (n : Nat) : Prop :=
  (∀ whole len es w sc0 sc, Fr sc0 sc → Frame sc0 (writeElems env n whole len es w sc)) ∧
  (∀ p w sc0 sc, Fr sc0 sc → Frame sc0 (writePattern env n p w sc)) ∧
  (∀ p e w sc0 sc, Fr sc0 sc → Frame sc0 (track env n p e w sc)) ∧
  (∀ e w sc0 sc, Fr sc0 sc → Frame sc0 (writeExpr env n e w sc)) ∧
  (∀ vs w sc0 sc, Fr sc0 sc → Frame sc0 (writeDefault env n vs w sc)) ∧
  (∀ e w sc0 sc, Fr sc0 sc → Frame sc0 (writeInline env n e w sc)) ∧
  (∀ e sc0 sc, Fr sc0 sc → Frame sc0 (resolveInline env n e sc)) ∧
  (∀ a sc0 sc, Fr sc0 sc → Frame sc0 (getArguments env n a sc)) ∧
  (∀ es sc0 sc, Fr sc0 sc → Frame sc0 (resolveList env n es sc)) ∧
  (∀ es sc0 sc, Fr sc0 sc → Frame sc0 (resolveNamed env n es sc))

theorem frameAll (env : Env) : ∀ n, FrameAll env n := by
  intro n
  induction n with
  | zero =>
    refine ⟨?_, ?_, ?_, ?_, ?_, ?_, ?_, ?_, ?_, ?_⟩ <;> intros <;> simp [writeElems, writePattern, track, writeExpr,
      writeDefault, writeInline, resolveInline, getArguments, resolveList, resolveNamed, Frame]
  | succ n ih =>
    obtain ⟨iElems, iPat, iTrack, iExpr, iDef, iInl, iRes, iArgs, iList, iNamed⟩ := ih
    refine ⟨?_, ?_, ?_, ?_, ?_, ?_, ?_, ?_, ?_, ?_⟩
    · -- writeElems
      intro whole len es w sc0 sc h
      match es with
      | [] => simpa [writeElems, Frame] using h
      | .text v :: rest =>
        simp only [writeElems]
        split
        · exact h
        · exact iElems whole len rest _ sc0 sc h
      | .placeable e :: rest =>
        simp only [writeElems]
        split
        · exact h
        · split
          · trivial
          · split
            · exact h
            · have h2 : Fr sc0 (if ({ sc with placeables := sc.placeables + 1 } : Scope).travelled.isEmpty = true then
                  { ({ sc with placeables := sc.placeables + 1 } : Scope) with travelled := [whole] }
                  else { sc with placeables := sc.placeables + 1 }) := by
                refine h.trans ⟨?_, ?_⟩
                · split <;> rfl
                · intro hne
                  have : sc.travelled.isEmpty = false := by cases hs : sc.travelled <;> simp_all
                  simp [this]
              revert h2
              generalize (if ({ sc with placeables := sc.placeables + 1 } : Scope).travelled.isEmpty = true then
                  { ({ sc with placeables := sc.placeables + 1 } : Scope) with travelled := [whole] }
                  else { sc with placeables := sc.placeables + 1 }) = sc2
              intro h2
              have h3 := iExpr e (if (env.useIsolating && decide (len > 1) && isolatable e) = true then w ++ fsi else w) sc0 sc2 h2
              revert h3
              generalize writeExpr env n e _ sc2 = r
              intro h3
              match r, h3 with
              | .fuel, _ => trivial
              | .panic _, _ => trivial
              | .ok (w2, sc3), h3 => exact iElems whole len rest _ sc0 sc3 h3
    · intro p w sc0 sc h
      simpa [writePattern] using iElems p p.length p w sc0 sc h
    · -- track
      intro p e w sc0 sc h
      simp only [track]
      split
      · exact h
      · have h1 := iPat p w { sc with travelled := sc.travelled ++ [p] } { sc with travelled := sc.travelled ++ [p] } (Fr.refl _)
        revert h1
        generalize writePattern env n p w _ = r
        intro h1
        match r, h1 with
        | .fuel, _ => trivial
        | .panic _, _ => trivial
        | .ok (w1, sc1), h1 =>
          have h1 : Fr { sc with travelled := sc.travelled ++ [p] } sc1 := h1
          refine h.trans ⟨h1.1, fun _ => ?_⟩
          have := h1.2 (by simp)
          show sc1.travelled.dropLast = sc.travelled
          rw [this]; simp
    · -- writeExpr
      intro e w sc0 sc h
      match e with
      | .inline e => simpa [writeExpr] using iInl e w sc0 sc h
      | .select sel vs =>
        simp only [writeExpr]
        have h1 := iRes sel sc0 sc h
        revert h1
        generalize resolveInline env n sel sc = r
        intro h1
        match r, h1 with
        | .fuel, _ => trivial
        | .panic _, _ => trivial
        | .ok (selector, sc1), h1 =>
          have h1 : Fr sc0 sc1 := h1
          have hsel : Frame sc0 (match selectVariant env vs selector with
              | .ok (some v) => writePattern env n v w sc1
              | .ok .none => writeDefault env n vs w sc1
              | .panic m => .panic m
              | .fuel => .fuel) := by
            rcases selectVariant_cases env vs selector with ⟨r, hr⟩ | ⟨m, hr⟩
            · rw [hr]; cases r with
              | none => exact iDef vs w sc0 sc1 h1
              | some v => exact iPat v w sc0 sc1 h1
            · rw [hr]; trivial
          cases selector <;> first | exact hsel | exact iDef vs w sc0 sc1 h1
    · -- writeDefault
      intro vs w sc0 sc h
      simp only [writeDefault]
      split
      · exact iPat _ w sc0 sc h
      · exact h
    · -- writeInline
      intro e w sc0 sc h
      match e with
      | .str v => simpa [writeInline, Frame] using h
      | .num v => simpa [writeInline, Frame] using h
      | .placeable e => simpa [writeInline] using iExpr e w sc0 sc h
      | .var id =>
        simp only [writeInline]
        split
        · exact h
        · show Fr sc0 _
          split
          · exact h
          · exact h
      | .msg id attr =>
        simp only [writeInline]
        split
        · split
          · split
            · exact iTrack _ _ w sc0 sc h
            · exact writeRefError_frame w sc0 sc _ h
          · split
            · exact iTrack _ _ w sc0 sc h
            · exact h
        · exact writeRefError_frame w sc0 sc _ h
      | .fn id pos named =>
        simp only [writeInline]
        have h1 := iArgs (some (pos, named)) sc0 sc h
        revert h1
        generalize getArguments env n (some (pos, named)) sc = r
        intro h1
        match r, h1 with
        | .fuel, _ => trivial
        | .panic _, _ => trivial
        | .ok ((rp, rn), sc1), h1 =>
          have h1 : Fr sc0 sc1 := h1
          dsimp only
          split
          · split <;> exact h1
          · exact writeRefError_frame w sc0 sc1 _ h1
      | .term id attr args =>
        simp only [writeInline]
        have h1 := iArgs args sc0 sc h
        revert h1
        generalize getArguments env n args sc = r
        intro h1
        match r, h1 with
        | .fuel, _ => trivial
        | .panic _, _ => trivial
        | .ok ((rp, named), sc1), h1 =>
          have h1 : Fr sc0 sc1 := h1
          dsimp only
          split
          · rename_i w1 sc3 heq
            have h3 : Fr { sc1 with localArgs := some named } sc3 := by
              revert heq
              split
              · rename_i p _
                intro heq
                have := iTrack p (.term id attr args) w _ { sc1 with localArgs := some named } (Fr.refl _)
                rw [heq] at this
                exact this
              · intro heq
                have := writeRefError_frame w _ { sc1 with localArgs := some named } (.term id attr args) (Fr.refl _)
                rw [heq] at this
                exact this
            refine h1.trans ⟨rfl, fun hne => ?_⟩
            exact h3.2 hne
          · trivial
          · trivial
    · -- resolveInline
      intro e sc0 sc h
      have hw : ∀ e : Inline Bytes, Frame sc0 (match writeInline env n e [] sc with
          | .ok (w, sc1) => RR.ok (Value.str w, sc1)
          | .panic m => .panic m
          | .fuel => .fuel) := by
        intro e
        have h1 := iInl e [] sc0 sc h
        revert h1
        generalize writeInline env n e [] sc = r
        intro h1
        match r, h1 with
        | .fuel, _ => trivial
        | .panic _, _ => trivial
        | .ok (w, sc1), h1 => exact h1
      match e with
      | .str v => simpa [resolveInline, Frame] using h
      | .num v => simpa [resolveInline, Frame] using h
      | .placeable e => simp only [resolveInline]; exact hw (.placeable e)
      | .msg id attr => simp only [resolveInline]; exact hw (.msg id attr)
      | .term id attr args => simp only [resolveInline]; exact hw (.term id attr args)
      | .var id =>
        simp only [resolveInline]
        split
        · split <;> exact h
        · split <;> exact h
      | .fn id pos named =>
        simp only [resolveInline]
        have h1 := iArgs (some (pos, named)) sc0 sc h
        revert h1
        generalize getArguments env n (some (pos, named)) sc = r
        intro h1
        match r, h1 with
        | .fuel, _ => trivial
        | .panic _, _ => trivial
        | .ok ((rp, rn), sc1), h1 =>
          have h1 : Fr sc0 sc1 := h1
          dsimp only
          split <;> exact h1
    · -- getArguments
      intro a sc0 sc h
      match a with
      | .none => simpa [getArguments, Frame] using h
      | some (pos, named) =>
        simp only [getArguments]
        have h1 := iList pos sc0 sc h
        revert h1
        generalize resolveList env n pos sc = r
        intro h1
        match r, h1 with
        | .fuel, _ => trivial
        | .panic _, _ => trivial
        | .ok (vs, sc1), h1 =>
          have h1 : Fr sc0 sc1 := h1
          dsimp only
          have h2 := iNamed named sc0 sc1 h1
          revert h2
          generalize resolveNamed env n named sc1 = r2
          intro h2
          match r2, h2 with
          | .fuel, _ => trivial
          | .panic _, _ => trivial
          | .ok (ns, sc2), h2 => exact h2
    · -- resolveList
      intro es sc0 sc h
      match es with
      | [] => simpa [resolveList, Frame] using h
      | e :: es =>
        simp only [resolveList]
        have h1 := iRes e sc0 sc h
        revert h1
        generalize resolveInline env n e sc = r
        intro h1
        match r, h1 with
        | .fuel, _ => trivial
        | .panic _, _ => trivial
        | .ok (v, sc1), h1 =>
          have h1 : Fr sc0 sc1 := h1
          dsimp only
          have h2 := iList es sc0 sc1 h1
          revert h2
          generalize resolveList env n es sc1 = r2
          intro h2
          match r2, h2 with
          | .fuel, _ => trivial
          | .panic _, _ => trivial
          | .ok (ns, sc2), h2 => exact h2
    · -- resolveNamed
      intro es sc0 sc h
      match es with
      | [] => simpa [resolveNamed, Frame] using h
      | (k, e) :: es =>
        simp only [resolveNamed]
        have h1 := iRes e sc0 sc h
        revert h1
        generalize resolveInline env n e sc = r
        intro h1
        match r, h1 with
        | .fuel, _ => trivial
        | .panic _, _ => trivial
        | .ok (v, sc1), h1 =>
          have h1 : Fr sc0 sc1 := h1
          dsimp only
          have h2 := iNamed es sc0 sc1 h1
          revert h2
          generalize resolveNamed env n es sc1 = r2
          intro h2
          match r2, h2 with
          | .fuel, _ => trivial
          | .panic _, _ => trivial
          | .ok (ns, sc2), h2 => exact h2

end FluentProofs.ResolverRefine
