import FluentProofs.ParserLocalSimExpr
/-!
# Locality of the parser, SIMULATION family, part 4: the pattern functions and the joint induction
-/
namespace FluentProofs.Parser
open FluentModel.Syntax

/-! ## the text branch of `getPatternLoop`, named piece by piece -/

/-- replica of the model's local `pre` in `getPatternLoop` -/
def preOf (s : Src) (st : PatState) (p : Nat) : Option (Nat × Nat) :=
  if st.role == .lineStart then
    let p1 := skipBlankInline s p
    let indent := p1 - p
    match s[p1]? with
    | some b =>
      if indent == 0 then
        if !isEol s p1 then none else some (indent, p1)
      else if !isBytePatternContinuation b then none
      else some (indent, p1)
    | none => none
  else some (0, p)

/-- replica of the model's local `pEnd` -/
def pEndOf (s : Src) (p : Nat) : Nat :=
  let p1 := skipBlankInline s p
  let indent := p1 - p
  match s[p1]? with
  | some b => if indent == 0 then p1 else if !isBytePatternContinuation b then p else p1
  | none => p1

/-- replica of the model's local `role'` -/
def roleAfter (term : Termination) : TextPos :=
  match term with
  | .lineFeed => TextPos.lineStart
  | .crlf => TextPos.lineStart
  | .placeableStart => TextPos.continuation
  | .eof => TextPos.continuation

/-- the branch of `getPatternLoop` for a byte other than `{` -/
def textStep (s : Src) (n : Nat) (st : PatState) (p : Nat) : R PatState :=
  match preOf s st p with
  | none => .ok st (pEndOf s p)
  | some (indent, p1) =>
    match getTextSlice s p1 with
    | .ok (start, stop, nb, term) q =>
      (match st2Of s st p indent start stop nb term with
       | some st2 => getPatternLoop s n { st2 with role := roleAfter term } q
       | none => .panic "get_pattern: end - 1 underflow or text slice")
    | .err e q => .err e q
    | .panic m => .panic m
    | .fuel => .fuel

theorem getPatternLoop_text (s : Src) (n : Nat) (st : PatState) (p : Nat) (hlt : p < s.size)
    (hc : isCurrentByte s p 123 = false) : getPatternLoop s (n + 1) st p = textStep s n st p := by
  simp only [getPatternLoop, hlt, hc, if_true, Bool.false_eq_true, if_false]
  rfl

/-- the branch of `getPatternLoop` for a `{` -/
def placeStep (s : Src) (n : Nat) (st : PatState) (p : Nat) : R PatState :=
  let st1 := if st.role == .lineStart then { st with commonIndent := some 0 } else st
  match getPlaceable s n (p + 1) with
  | .ok e q =>
    getPatternLoop s n { st1 with lastNonBlank := some st1.elements.length,
                                  keptCommonIndent := st1.commonIndent,
                                  elements := st1.elements ++ [.placeable e],
                                  role := .continuation } q
  | .err e q => .err e q
  | .panic m => .panic m
  | .fuel => .fuel

theorem getPatternLoop_place (s : Src) (n : Nat) (st : PatState) (p : Nat) (hlt : p < s.size)
    (hc : isCurrentByte s p 123 = true) : getPatternLoop s (n + 1) st p = placeStep s n st p := by
  simp only [getPatternLoop, hlt, hc, if_true]
  rfl

/-! ## `SimP`: the relation on loop outcomes together with the `PSn` of an `ok` outcome below `N` -/

def SimP (N : Nat) (H : Prop) (r₁ r₂ : R PatState) : Prop :=
  SimR N H r₁ r₂ ∧ ∀ st' q, r₁ = .ok st' q → q ≤ N → PSn N st'

section
variable {N : Nat} {H : Prop}

theorem SimP.ok {st : PatState} {q : Nat} (hq : q ≤ N) (hst : PSn N st) : SimP N H (.ok st q) (.ok st q) :=
  ⟨SimR.of_eq rfl hq, fun st' q' e _ => by cases e; exact hst⟩

theorem SimP.err {e : PErr} {q : Nat} (hq : q ≤ N) : SimP N H (.err e q) (.err e q) :=
  ⟨SimR.of_eq rfl hq, fun st' q' e _ => by cases e⟩

theorem SimP.panic {m : String} : SimP N H (.panic m) (.panic m) :=
  ⟨SimR.of_eq rfl trivial, fun st' q' e _ => by cases e⟩

theorem SimP.fuel : SimP N H .fuel .fuel :=
  ⟨SimR.of_eq rfl trivial, fun st' q' e _ => by cases e⟩

theorem SimP.of_past {r₁ r₂ : R PatState} (hH : ¬ H) (h1 : Past N r₁) (h2 : Past N r₂) : SimP N H r₁ r₂ :=
  ⟨SimR.of_past hH h1 h2, fun st' q' e hq => by subst e; simp only [past_ok] at h1; omega⟩

/-- one source: the loop started behind `N` stays behind `N` -/
theorem getPatternLoop_past (s : Src) (f : Nat) (st : PatState) {q : Nat} (hq : N < q) : Past N (getPatternLoop s f st q) :=
  ((gspecs_all s f).patternLoop st q).past hq

/-- one source: a placeable that ends behind `N` puts the `{` branch behind `N` -/
theorem placeStep_past (s : Src) (f : Nat) (st : PatState) (p : Nat) (h : Past N (getPlaceable s f (p + 1))) :
    Past N (placeStep s f st p) := by
  unfold placeStep
  simp only []
  rcases hpl : getPlaceable s f (p + 1) with ⟨e, q⟩ | ⟨e, q⟩ | m | _ <;> rw [hpl] at h <;> simp only []
  · exact getPatternLoop_past s f _ h
  · exact h
  · trivial
  · trivial

end

section
variable {N : Nat} {s₁ s₂ : Src}

theorem preOf_sim (h : Sim N s₁ s₂) (st : PatState) {p : Nat} (hp : p < N) : preOf s₂ st p = preOf s₁ st p := by
  have hp1 := h.skipBlankInline_lt hp
  unfold preOf
  simp only []
  rw [skipBlankInline_sim h (Nat.le_of_lt hp), h.get _ (Nat.le_of_lt hp1), isEol_sim h (Nat.le_of_lt hp1)]

theorem pEndOf_sim (h : Sim N s₁ s₂) {p : Nat} (hp : p < N) : pEndOf s₂ p = pEndOf s₁ p := by
  have hp1 := h.skipBlankInline_lt hp
  unfold pEndOf
  simp only []
  rw [skipBlankInline_sim h (Nat.le_of_lt hp), h.get _ (Nat.le_of_lt hp1)]

theorem Sim.pEndOf_lt (h : Sim N s₁ s₂) {p : Nat} (hp : p < N) : pEndOf s₁ p < N := by
  have hp1 := h.skipBlankInline_lt hp
  unfold pEndOf
  simp only []
  split
  · split
    · exact hp1
    · split
      · exact hp
      · exact hp1
  · exact hp1

theorem Sim.preOf_lt (h : Sim N s₁ s₂) {st : PatState} {p : Nat} (hp : p < N) {indent p1 : Nat}
    (hpre : preOf s₁ st p = some (indent, p1)) : p1 < N := by
  have hp1 := h.skipBlankInline_lt hp
  unfold preOf at hpre
  simp only [] at hpre
  split at hpre
  · split at hpre
    · split at hpre <;> split at hpre <;> simp at hpre <;> obtain ⟨_, rfl⟩ := hpre <;> exact hp1
    · simp at hpre
  · simp at hpre
    obtain ⟨_, rfl⟩ := hpre
    exact hp

theorem textStep_sstep (h : Sim N s₁ s₂) {f : Nat} (IH : SSpecs N s₁ s₂ f) (st : PatState) (p : Nat) (hp : p < N)
    (hst : PSn N st) : SimP N (Hash s₁ N) (textStep s₁ f st p) (textStep s₂ f st p) := by
  unfold textStep
  rw [preOf_sim h st hp, pEndOf_sim h hp]
  cases hpre : preOf s₁ st p with
  | none => exact SimP.ok (Nat.le_of_lt (h.pEndOf_lt hp)) hst
  | some ip =>
    obtain ⟨indent, p1⟩ := ip
    have hp1 : p1 < N := h.preOf_lt hp hpre
    simp only []
    rw [getTextSlice_sim h hp1]
    rcases hts : getTextSlice s₁ p1 with ⟨⟨start, stop, nb, term⟩, q⟩ | ⟨e, q⟩ | m | _ <;> simp only []
    · obtain ⟨t1, t2, t3, t4⟩ := h.getTextSlice_ok hp1 hts
      rw [st2Of_sim h st p indent start nb term t2]
      cases hst2 : st2Of s₁ st p indent start stop nb term with
      | none => exact SimP.panic
      | some st2 =>
        have hps : PSn N st2 := st2Of_PSn hst2 hst t2
        exact IH.patternLoop _ q t3 (fun e => by rw [t4 e]; rfl) (fun a b ind r hm => hps a b ind r hm)
    · exact SimP.err (Nat.le_of_lt (h.getTextSlice_err hp1 hts))
    · exact SimP.panic
    · exact SimP.fuel

theorem placeStep_sstep (h : Sim N s₁ s₂) {f : Nat} (IH : SSpecs N s₁ s₂ f) (st : PatState) (p : Nat) (hp : p < N)
    (hst : PSn N st) : SimP N (Hash s₁ N) (placeStep s₁ f st p) (placeStep s₂ f st p) := by
  rcases IH.placeable (p + 1) (by omega) with ⟨hle, heq⟩ | ⟨hH, h1, h2⟩
  · unfold placeStep
    simp only []
    rw [heq]
    rcases hpl : getPlaceable s₁ f (p + 1) with ⟨e, q⟩ | ⟨e, q⟩ | m | _ <;> rw [hpl] at hle <;> simp only []
    · obtain ⟨q', rfl, hcl⟩ := getPlaceable_ok_brace hpl
      have hq' : q' < N := h.lt_of_byte (by simp only [curLe_ok] at hle; omega) hcl (by decide)
      have hq1 : q' + 1 < N := h.succ_lt hq' hcl (by decide)
      have key : ∀ st1 : PatState, st1.elements = st.elements →
          PSn N { st1 with lastNonBlank := some st1.elements.length, keptCommonIndent := st1.commonIndent,
                           elements := st1.elements ++ [.placeable e], role := .continuation } := by
        intro st1 hel a b ind r hmem
        simp only [List.mem_append, List.mem_singleton] at hmem
        rcases hmem with hmem | hmem
        · exact hst a b ind r (hel ▸ hmem)
        · cases hmem
      exact IH.patternLoop _ _ (Nat.le_of_lt hq1) (fun e => absurd e (by omega)) (key _ (by split <;> rfl))
    · exact SimP.err hle
    · exact SimP.panic
    · exact SimP.fuel
  · exact SimP.of_past hH (placeStep_past s₁ f st p h1) (placeStep_past s₂ f st p h2)

theorem patternLoop_sstep (h : Sim N s₁ s₂) {f : Nat} (IH : SSpecs N s₁ s₂ f) (st : PatState) (p : Nat) (hp : p ≤ N)
    (hrole : p = N → st.role = .lineStart) (hst : PSn N st) :
    SimR N (Hash s₁ N) (getPatternLoop s₁ (f + 1) st p) (getPatternLoop s₂ (f + 1) st p) ∧
      ∀ st' q, getPatternLoop s₁ (f + 1) st p = .ok st' q → q ≤ N → PSn N st' := by
  show SimP N (Hash s₁ N) (getPatternLoop s₁ (f + 1) st p) (getPatternLoop s₂ (f + 1) st p)
  by_cases hpn : p = N
  · -- at `N`: a letter, `-` or `#` at a line start does not continue the pattern
    subst hpn
    have hrl := hrole rfl
    obtain ⟨b, hb, hw⟩ := h.wall₁
    have hb2 : s₂[p]? = some b := by rw [h.get p (Nat.le_refl _)]; exact hb
    have hne : b ≠ 123 := by intro e; subst e; exact absurd hw (by decide)
    have c1 : isCurrentByte s₁ p 123 = false := by simp [isCurrentByte, hb, hne]
    have c2 : isCurrentByte s₂ p 123 = false := by simp [isCurrentByte, hb2, hne]
    have e1 : skipBlankInline s₁ p = p := h.skipBlankInline_N
    have e2 : skipBlankInline s₂ p = p := by rw [skipBlankInline_sim h (Nat.le_refl _)]; exact e1
    have n1 : isEol s₁ p = false := h.not_isEol_N
    have n2 : isEol s₂ p = false := by rw [isEol_sim h (Nat.le_refl _)]; exact n1
    have r1 : textStep s₁ f st p = .ok st p := by
      simp [textStep, preOf, pEndOf, hrl, e1, hb, n1]
    have r2 : textStep s₂ f st p = .ok st p := by
      simp [textStep, preOf, pEndOf, hrl, e2, hb2, n2]
    rw [getPatternLoop_text _ _ _ _ (h.lt₁ hp) c1, getPatternLoop_text _ _ _ _ (h.lt₂ hp) c2, r1, r2]
    exact SimP.ok (Nat.le_refl _) hst
  · have hlt : p < N := by omega
    cases hc : isCurrentByte s₁ p 123 with
    | true =>
      rw [getPatternLoop_place _ _ _ _ (h.lt₁ hp) hc, getPatternLoop_place _ _ _ _ (h.lt₂ hp) (by rw [h.cur hp]; exact hc)]
      exact placeStep_sstep h IH st p hlt hst
    | false =>
      rw [getPatternLoop_text _ _ _ _ (h.lt₁ hp) hc, getPatternLoop_text _ _ _ _ (h.lt₂ hp) (by rw [h.cur hp]; exact hc)]
      exact textStep_sstep h IH st p hlt hst

/-! ## `getPattern` -/

/-- what `getPattern` does with the outcome of the loop -/
def patWrap (s : Src) (r : R PatState) : R (Option (Pattern Span)) :=
  match r with
  | .ok st q =>
    (match st.lastNonBlank with
     | some lnb =>
       (match finishElements s st.keptCommonIndent lnb 0 st.elements with
        | some els => .ok (some els) q
        | none => .panic "get_pattern slice")
     | none => .ok none q)
  | .err e q => .err e q
  | .panic m => .panic m
  | .fuel => .fuel

theorem patWrap_past (s : Src) {r : R PatState} (hr : Past N r) : Past N (patWrap s r) := by
  unfold patWrap
  cases r with
  | ok st q =>
    simp only []
    split
    · split
      · exact hr
      · trivial
    · exact hr
  | err e q => exact hr
  | panic m => trivial
  | fuel => trivial

theorem patWrap_curLe (s : Src) {r : R PatState} (hr : CurLe N r) : CurLe N (patWrap s r) := by
  unfold patWrap
  cases r with
  | ok st q =>
    simp only []
    split
    · split
      · exact hr
      · trivial
    · exact hr
  | err e q => exact hr
  | panic m => trivial
  | fuel => trivial

theorem patWrap_sim (h : Sim N s₁ s₂) {r : R PatState} (hr : ∀ st q, r = .ok st q → PSn N st) :
    patWrap s₂ r = patWrap s₁ r := by
  unfold patWrap
  cases r with
  | ok st q =>
    simp only []
    have e : ∀ lnb, finishElements s₂ st.keptCommonIndent lnb 0 st.elements
        = finishElements s₁ st.keptCommonIndent lnb 0 st.elements :=
      fun lnb => finishElements_sim h _ lnb 0 _ (hr st q rfl)
    simp only [e]
  | err e q => rfl
  | panic m => rfl
  | fuel => rfl

theorem pattern_sstep (h : Sim N s₁ s₂) {f : Nat} (IH : SSpecs N s₁ s₂ f) (p : Nat) (hp : p < N) :
    SimR N (Hash s₁ N) (getPattern s₁ (f + 1) p) (getPattern s₂ (f + 1) p) := by
  have key : ∀ role p2, p2 ≤ N → (p2 = N → role = TextPos.lineStart) →
      SimR N (Hash s₁ N) (patWrap s₁ (getPatternLoop s₁ f ⟨[], none, none, role, none⟩ p2))
        (patWrap s₂ (getPatternLoop s₂ f ⟨[], none, none, role, none⟩ p2)) := by
    intro role p2 hp2 hrl
    obtain ⟨hs, hps⟩ := IH.patternLoop ⟨[], none, none, role, none⟩ p2 hp2 hrl (by intro a b i r hmem; cases hmem)
    rcases hs with ⟨hle, heq⟩ | ⟨hH, h1, h2⟩
    · rw [heq]
      refine SimR.of_eq (patWrap_sim h (fun st q e => hps st q e ?_)) (patWrap_curLe s₁ hle)
      rw [e] at hle
      exact hle
    · exact SimR.of_past hH (patWrap_past s₁ h1) (patWrap_past s₂ h2)
  simp only [getPattern]
  have hp1 := h.skipBlankInline_lt hp
  rw [skipBlankInline_sim h (Nat.le_of_lt hp), skipEol_sim h (Nat.le_of_lt hp1)]
  cases hE : skipEol s₁ (skipBlankInline s₁ p) with
  | none =>
    simp only []
    exact key _ _ (Nat.le_of_lt hp1) (fun e => absurd e (by omega))
  | some q0 =>
    have hq0 := h.skipEol_le (Nat.le_of_lt hp1) hE
    simp only []
    rw [skipBlankBlock_sim h hq0]
    exact key _ _ (h.skipBlankBlock_le hq0) (fun _ => rfl)

theorem sspecs_all (h : Sim N s₁ s₂) (f : Nat) : SSpecs N s₁ s₂ f := by
  induction f with
  | zero =>
    exact {
      patternLoop := fun st p _ _ _ => by
        simp only [getPatternLoop]
        exact ⟨SimR.of_eq rfl trivial, fun st' q e => by cases e⟩
      pattern := fun p _ => by simp only [getPattern]; exact SimR.of_eq rfl trivial
      placeable := fun p _ => by simp only [getPlaceable]; exact SimR.of_eq rfl trivial
      expression := fun p _ => by simp only [getExpression]; exact SimR.of_eq rfl trivial
      inline := fun ol p _ => by simp only [getInline]; exact SimR.of_eq rfl trivial
      callArguments := fun p _ => by simp only [getCallArguments]; exact SimR.of_eq rfl trivial
      callArgsLoop := fun pos named p _ _ => by simp only [getCallArgsLoop]; exact SimR.of_eq rfl trivial
      variants := fun hd acc p _ => by simp only [getVariants]; exact SimR.of_eq rfl trivial }
  | succ f ih =>
    exact {
      patternLoop := fun st p h1 h2 h3 => patternLoop_sstep h ih st p h1 h2 h3
      pattern := fun p h1 => pattern_sstep h ih p h1
      placeable := fun p h1 => placeable_sstep h ih p h1
      expression := fun p h1 => expression_sstep h ih p h1
      inline := fun ol p h1 => inline_sstep h ih ol p h1
      callArguments := fun p h1 => callArguments_sstep h ih p h1
      callArgsLoop := fun pos named p h1 h2 => callArgsLoop_sstep h ih pos named p h1 h2
      variants := fun hd acc p h1 => variants_sstep h ih hd acc p h1 }

end

end FluentProofs.Parser
