import FluentProofs.SerializerOutCr1
/-!
# Serializer lemmas, part 23: the loop of `get_pattern` keeps the shape invariant, any source (C04)
-/
namespace FluentProofs.Ser
open FluentModel FluentModel.Syntax FluentModel.Syntax.Ser FluentProofs.Parser

theorem SliceC.toN {s : Src} {p1 stop : Nat} {nb : Bool} {term : Termination} {q : Nat}
    (h : SliceC s p1 stop nb term q) (ht : term ≠ .crlf) : SliceN s p1 stop nb term q :=
  { le := h.le, sz := h.sz, nobrace := h.nobrace,
    nonl := h.nonl, lf := h.lf, pl := h.pl, eof := h.eof, nocrlf := ht }

theorem roleOK_toC {s : Src} {E : PSt} {role : TextPos} {p : Nat} (h : RoleOK s E role p)
    (hE : ∀ r, E ≠ .first r) : RoleOKC s E role p := by
  cases E with
  | first r => exact absurd rfl (hE r)
  | afterNl => exact h
  | afterGhost => exact h
  | afterText => exact Or.inl h
  | afterPl => exact Or.inl h

theorem nxt_ne_first (s : Src) (ph : Placeholder) (r : TextPos) : nxt s ph ≠ .first r := by
  cases ph with
  | placeable e => simp [nxt]
  | text a b ind role =>
    simp only [nxt]
    split
    · simp
    · split <;> simp

/-- role and cursor after a text placeholder that is not a ghost (any termination) -/
theorem roleOKC_after_text {s : Src} {p1 stop : Nat} {nb : Bool} {term : Termination} {q : Nat}
    (hS : SliceC s p1 stop nb term q) (hlt : p1 < stop) (a ind : Nat) (role : TextPos)
    (hg : isGhost a stop ind role = false) : RoleOKC s (nxt s (.text a stop ind role)) (pRoleOf term) q := by
  by_cases ht : term = .crlf
  · subst ht
    obtain ⟨_, h2, h3, _, h5⟩ := hS.crlf rfl
    have := h5 hlt
    simp only [nxt, hg, Bool.false_eq_true, if_false, endsLF, beq_iff_eq, this, RoleOKC, pRoleOf]
    subst h3
    exact Or.inr ⟨trivial, h2⟩
  · exact roleOK_toC (roleOK_after_text (hS.toN ht) hlt a ind role hg) (nxt_ne_first s _)

theorem textBytes_ofC {s : Src} {p p1 stop : Nat} {nb : Bool} {term : Termination} {q : Nat}
    (hS : SliceC s p1 stop nb term q) (hsp : ∀ j, p ≤ j → j < p1 → s[j]? = some 32) : TextBytes s p stop := by
  refine ⟨hS.sz, ?_, ?_, ?_⟩
  · intro j j1 j2
    by_cases hj : j < p1
    · rw [hsp j j1 hj]; exact ⟨by decide, by decide⟩
    · exact hS.nobrace j (by omega) j2
  · intro j j1 j2
    by_cases hj : j < p1
    · rw [hsp j j1 hj]; decide
    · exact hS.nonl j (by omega) j2
  · intro j j1 j2 h13
    by_cases hj : j < p1
    · rw [hsp j j1 hj] at h13; cases h13
    · exact hS.nocrlf j (by omega) (by omega) h13

/-- a slice that starts at `\r\n`: empty, the cursor goes to the `\n` -/
theorem slice_at_cr {s : Src} {p1 stop : Nat} {nb : Bool} {term : Termination} {q : Nat}
    (hS : SliceC s p1 stop nb term q) (h13 : s[p1]? = some 13) (h10 : s[p1 + 1]? = some 10) :
    term = .crlf ∧ stop = p1 ∧ q = p1 + 1 := by
  have hle := hS.le
  have hstop : stop = p1 := by
    by_cases h : p1 < stop
    · exact absurd h10 (hS.nocrlf p1 (Nat.le_refl _) h h13)
    · omega
  subst hstop
  cases term with
  | lineFeed => have := (hS.lf rfl).1; omega
  | crlf => obtain ⟨_, _, h3, _⟩ := hS.crlf rfl; exact ⟨rfl, rfl, h3⟩
  | placeableStart => have := (hS.pl rfl).1; rw [h13] at this; cases this
  | eof => have := (hS.eof rfl).1; have := get_lt h13; omega

theorem st2Of_empty' {s : Src} {st : PatState} {p indent start : Nat} {nb : Bool} :
    st2Of s st p indent start start nb .crlf = some st := by
  simp [st2Of]

/-- **an empty slice in front of `\r\n`**: nothing is pushed, the line feed is pending -/
theorem step_emptyC {s : Src} {r0 : TextPos} {st : PatState} {p : Nat} (hI : PInvC s r0 st p)
    {p1 : Nat} (h13 : s[p1]? = some 13) (h10 : s[p1 + 1]? = some 10)
    (hE : endSt s (.first r0) st.elements = .afterNl ∨ endSt s (.first r0) st.elements = .afterPl)
    {indent start stop : Nat} {nb : Bool} {term : Termination} {q : Nat} {st2 : PatState}
    (hst : start = p1) (hS : SliceC s p1 stop nb term q)
    (h2 : st2Of s st p indent start stop nb term = some st2) : PInvC s r0 { st2 with role := pRoleOf term } q := by
  obtain ⟨rfl, rfl, rfl⟩ := slice_at_cr hS h13 h10
  subst hst
  rw [st2Of_empty'] at h2
  cases h2
  refine ⟨hI.chk, ?_, hI.ci, hI.lnb⟩
  show RoleOKC s (endSt s (.first r0) st.elements) (pRoleOf .crlf) (start + 1)
  rcases hE with h | h <;> rw [h]
  · rfl
  · exact Or.inr ⟨rfl, h10⟩

/-- the states in which a slice in the middle of a line can start -/
theorem roleOKC_nls {s : Src} {E : PSt} {role : TextPos} {p : Nat} (h : RoleOKC s E role p)
    (hr : (role == .lineStart) = false) (hp : p < s.size) (h123 : s[p]? ≠ some 123) :
    (E = .first .initialLineStart ∧ role = .initialLineStart ∧
      ∀ c, s[p]? = some c → c ≠ 32 ∧ c ≠ 10 ∧ (c = 13 → s[p + 1]? ≠ some 10)) ∨
    (E = .afterPl ∧ role = .continuation) := by
  cases E with
  | first r =>
    cases r <;> simp only [RoleOKC] at h
    · exact Or.inl ⟨rfl, h.1, h.2⟩
    · rw [h.1] at hr; simp at hr
  | afterNl => simp only [RoleOKC] at h; rw [h] at hr; simp at hr
  | afterGhost => simp only [RoleOKC] at h; exact absurd h.2 h123
  | afterText =>
    simp only [RoleOKC] at h
    rcases h with ⟨_, h' | h'⟩ | ⟨h', _⟩
    · exact absurd h' h123
    · omega
    · rw [h'] at hr; simp at hr
  | afterPl =>
    simp only [RoleOKC] at h
    rcases h with h | ⟨h', _⟩
    · exact Or.inr ⟨rfl, h⟩
    · rw [h'] at hr; simp at hr

/-- the states in which a line can start -/
theorem roleOKC_ls {s : Src} {E : PSt} {role : TextPos} {p : Nat} (h : RoleOKC s E role p) (hr : role = .lineStart) :
    (E = .first .lineStart ∧ s[skipBlankInline s p]? ≠ some 10 ∧
      (s[skipBlankInline s p]? = some 13 → s[skipBlankInline s p + 1]? ≠ some 10)) ∨ E = .afterNl ∨
    ((E = .afterText ∨ E = .afterPl) ∧ s[p]? = some 10) := by
  subst hr
  cases E with
  | first r => cases r <;> simp only [RoleOKC] at h <;> first | exact Or.inl ⟨rfl, h.2⟩ | (exfalso; simp at h)
  | afterNl => exact Or.inr (Or.inl rfl)
  | afterGhost => simp [RoleOKC] at h
  | afterText =>
    simp only [RoleOKC] at h
    rcases h with ⟨h', _⟩ | ⟨_, h'⟩
    · cases h'
    · exact Or.inr (Or.inr ⟨Or.inl rfl, h'⟩)
  | afterPl =>
    simp only [RoleOKC] at h
    rcases h with h' | ⟨_, h'⟩
    · cases h'
    · exact Or.inr (Or.inr ⟨Or.inr rfl, h'⟩)

/-- **a text slice in the middle of a line** -/
theorem step_midC {s : Src} {r0 : TextPos} {st : PatState} {p : Nat} (hI : PInvC s r0 st p)
    (hp : p < s.size) (h123 : s[p]? ≠ some 123) (hr : (st.role == .lineStart) = false)
    {start stop : Nat} {nb : Bool} {term : Termination} {q : Nat} {st2 : PatState}
    (hst : start = p) (hS : SliceC s p stop nb term q)
    (h2 : st2Of s st p 0 start stop nb term = some st2) : PInvC s r0 { st2 with role := pRoleOf term } q := by
  have hE := roleOKC_nls hI.role hr hp h123
  by_cases h13 : s[p]? = some 13 ∧ s[p + 1]? = some 10
  · rcases hE with ⟨_, _, hc⟩ | ⟨hE, _⟩
    · exact absurd h13.2 ((hc 13 h13.1).2.2 rfl)
    · exact step_emptyC hI h13.1 h13.2 (Or.inr hE) hst hS h2
  · subst hst
    have hlt : start < stop := by
      have hle := hS.le
      by_cases h : start = stop
      · exfalso
        subst h
        cases term with
        | lineFeed => have := (hS.lf rfl).1; omega
        | crlf => exact h13 ⟨(hS.crlf rfl).1, (hS.crlf rfl).2.1⟩
        | placeableStart => exact h123 (hS.pl rfl).1
        | eof => have := (hS.eof rfl).1; omega
      · omega
    have hne : (start != stop) = true := by simp; omega
    have hg : isGhost start stop 0 st.role = false := by simp [isGhost, hr]
    have hTB := textBytes_ofC (p := start) hS (fun j j1 j2 => by omega)
    have hr' : st.role ≠ .lineStart := by simpa using hr
    refine text_pushC hI h2 (by simp [hne]) (by simp [hr, hr']) (.text start stop 0 st.role) (by simp [elOf, hr]) ?_ ?_
      (surv_of_survives (by omega)) (roleOKC_after_text hS hlt start 0 st.role hg)
    · rcases hE with ⟨hE, hrole, hc⟩ | ⟨hE, hrole⟩
      · rw [hE]
        have hsome : s[start]? = some s[start] := by simp [hp]
        exact ⟨hrole, hlt, hTB, _, hsome, (hc _ hsome).1, (hc _ hsome).2.1⟩
      · rw [hE]; exact Or.inl ⟨hrole, hlt, hTB⟩
    · simp only [hr, Bool.false_and, Bool.false_eq_true, if_false, lineInd, List.append_nil]
      exact hI.ci

/-! ## line starts -/

theorem preOf_factsC {s : Src} {st : PatState} {p indent p1 : Nat}
    (h : preOf s st p = some (indent, p1)) :
    (st.role = .lineStart ∧ p1 = skipBlankInline s p ∧ p + indent = p1 ∧
      ∃ b, s[p1]? = some b ∧ b ≠ 32 ∧ (indent = 0 → b = 10 ∨ (b = 13 ∧ s[p1 + 1]? = some 10)) ∧
        (0 < indent → b ≠ 46 ∧ b ≠ 125 ∧ b ≠ 91 ∧ b ≠ 42)) ∨
    ((st.role == .lineStart) = false ∧ indent = 0 ∧ p1 = p) := by
  unfold preOf at h
  split at h
  · rename_i hr
    left
    have hr' : st.role = .lineStart := by simpa using hr
    have hle := (skipBlankInline_after s p).le
    simp only [] at h
    split at h
    · rename_i b hb
      have h32 : b ≠ 32 := fun h0 => sbi_stop s p (by rw [hb, h0])
      split at h
      · rename_i hi
        split at h
        · cases h
        · rename_i he
          simp only [Option.some.injEq, Prod.mk.injEq] at h
          obtain ⟨rfl, rfl⟩ := h
          have hi' : skipBlankInline s p - p = 0 := by simpa using hi
          refine ⟨hr', rfl, by omega, b, hb, h32, fun _ => ?_, fun h0 => by omega⟩
          have he' : isEol s (skipBlankInline s p) = true := by simpa using he
          rcases isEol_cases he' with h1 | h1 | ⟨h1, h1'⟩
          · rw [hb] at h1; cases h1
          · rw [hb] at h1; cases h1; exact Or.inl rfl
          · rw [hb] at h1; cases h1; exact Or.inr ⟨rfl, h1'⟩
      · rename_i hi
        split at h
        · cases h
        · rename_i hc
          simp only [Option.some.injEq, Prod.mk.injEq] at h
          obtain ⟨rfl, rfl⟩ := h
          have hi' : skipBlankInline s p - p ≠ 0 := by simpa using hi
          refine ⟨hr', rfl, by omega, b, hb, h32, fun h0 => by omega, fun _ => ?_⟩
          simp only [isBytePatternContinuation, Bool.not_not] at hc
          refine ⟨?_, ?_, ?_, ?_⟩ <;> (intro h0; apply hc; subst h0; decide)
    · cases h
  · rename_i hr
    right
    simp only [Option.some.injEq, Prod.mk.injEq] at h
    exact ⟨by simpa using hr, h.1.symm, h.2.symm⟩

theorem not_crlf_at_nl {s : Src} {p1 stop : Nat} {nb : Bool} {term : Termination} {q : Nat}
    (hS : SliceC s p1 stop nb term q) (h10 : s[p1]? = some 10) : term ≠ .crlf := by
  intro ht
  obtain ⟨h1, _, _, _, h5⟩ := hS.crlf ht
  have hle := hS.le
  by_cases h : p1 = stop
  · subst h; rw [h10] at h1; cases h1
  · by_cases h' : p1 + 1 < stop
    · exact hS.nonl p1 (Nat.le_refl _) h' h10
    · have : stop - 1 = p1 := by omega
      exact h5 (by omega) (by rw [this]; exact h10)

theorem not_crlf_at_brace {s : Src} {p1 stop : Nat} {nb : Bool} {term : Termination} {q : Nat}
    (hS : SliceC s p1 stop nb term q) (h123 : s[p1]? = some 123) : term ≠ .crlf := by
  intro ht
  obtain ⟨h1, _⟩ := hS.crlf ht
  have hle := hS.le
  by_cases h : p1 = stop
  · subst h; rw [h123] at h1; cases h1
  · exact (hS.nobrace p1 (Nat.le_refl _) (by omega)).1 h123

/-- **a blank line** (also the pending `\n` of a `\r\n`) -/
theorem step_blankC {s : Src} {r0 : TextPos} {st : PatState} {p : Nat} (hI : PInvC s r0 st p)
    (hr : st.role = .lineStart) {indent p1 : Nat} (hp1 : p1 = skipBlankInline s p) (h10 : s[p1]? = some 10)
    {start stop : Nat} {nb : Bool} {term : Termination} {q : Nat} {st2 : PatState}
    (hst : start = p1) (hS : SliceC s p1 stop nb term q)
    (h2 : st2Of s st p indent start stop nb term = some st2) : PInvC s r0 { st2 with role := pRoleOf term } q := by
  obtain ⟨rfl, rfl, rfl, rfl⟩ := slice_at_nl (hS.toN (not_crlf_at_nl hS h10)) h10
  subst hst
  have hbl : BlankPh s start (start + 1) 0 := ⟨rfl, rfl, h10⟩
  refine text_pushC hI h2 (by simp) (by simp) (.text start (start + 1) 0 st.role)
    (by simp [elOf, hr, usub]) ?_ ?_ (by simp [survivesOf]) ?_
  · rcases roleOKC_ls hI.role hr with ⟨_, h, _⟩ | h | ⟨h | h, _⟩
    · rw [← hp1] at h; exact absurd h10 h
    · rw [h]; exact ⟨hr, Or.inr (Or.inr hbl)⟩
    · rw [h]; exact ⟨hr, hbl⟩
    · rw [h]; exact Or.inr ⟨hr, hbl⟩
  · simp only [hr, Bool.false_or, Bool.and_false, Bool.false_eq_true, if_false, lineInd, isBlankPh, h10,
      beq_self_eq_true, Bool.and_self, Bool.not_true, List.append_nil]
    simpa using hI.ci
  · have : nxt s (.text start (start + 1) 0 st.role) = .afterNl := by
      simp [nxt, isGhost, endsLF, h10]
    rw [this]; simp [RoleOKC, pRoleOf]

/-- the states in which a line that is not blank can start -/
theorem roleOKC_ls_real {s : Src} {E : PSt} {role : TextPos} {p : Nat} (h : RoleOKC s E role p)
    (hr : role = .lineStart) {b : UInt8} (hb : s[skipBlankInline s p]? = some b) (h10 : b ≠ 10) :
    E = .first .lineStart ∨ E = .afterNl := by
  rcases roleOKC_ls h hr with ⟨h, _⟩ | h | ⟨_, h⟩
  · exact Or.inl h
  · exact Or.inr h
  · exfalso
    have : skipBlankInline s p = p := by
      unfold skipBlankInline
      cases hn : s.size - p with
      | zero => rfl
      | succ n => simp [skipBlankInlineGo, h]
    rw [this, h] at hb; cases hb; exact h10 rfl

/-- **the indentation in front of a placeable that starts a line** -/
theorem step_ghostC {s : Src} {r0 : TextPos} {st : PatState} {p : Nat} (hI : PInvC s r0 st p)
    (hr : st.role = .lineStart) {indent p1 : Nat} (hp1 : p1 = skipBlankInline s p) (hind : p + indent = p1)
    (hpos : 0 < indent)
    (hsp : ∀ j, p ≤ j → j < p1 → s[j]? = some 32) (h123 : s[p1]? = some 123)
    {start stop : Nat} {nb : Bool} {term : Termination} {q : Nat} {st2 : PatState}
    (hst : start = p1) (hS : SliceC s p1 stop nb term q)
    (h2 : st2Of s st p indent start stop nb term = some st2) : PInvC s r0 { st2 with role := pRoleOf term } q := by
  obtain ⟨rfl, rfl, rfl, rfl⟩ := slice_at_brace (hS.toN (not_crlf_at_brace hS h123)) h123
  subst hst
  have hlt := get_lt h123
  have hgl : GhostLine s p start indent := ⟨by omega, by omega, hsp⟩
  refine text_pushC hI h2 (by simp [hr]) (by simp [hr]) (.text p start indent st.role)
    (by simp [elOf, hr]) ?_ ?_ (by simp [survivesOf]) ?_
  · rcases roleOKC_ls_real hI.role hr (by rw [← hp1]; exact h123) (by decide) with h | h
    · rw [h]; exact ⟨hr, Or.inr hgl⟩
    · rw [h]; exact ⟨hr, Or.inr (Or.inl hgl)⟩
  · have hb : isBlankPh s p start indent = false := by
      simp only [isBlankPh, Bool.and_eq_false_iff, beq_eq_false_iff_ne]; left; left; omega
    simp only [hr, beq_self_eq_true, Bool.and_self, Bool.or_true, if_true, lineInd, hb, Bool.not_false]
    rw [minL_snoc, ← hI.ci]
  · have : nxt s (.text p start indent st.role) = .afterGhost := by
      simp [nxt, isGhost, hr]; omega
    rw [this]; simp [RoleOKC, pRoleOf, h123]

/-- **a line with content** -/
theorem step_contentC {s : Src} {r0 : TextPos} {st : PatState} {p : Nat} (hI : PInvC s r0 st p)
    (hr : st.role = .lineStart) {indent p1 : Nat} (hp1 : p1 = skipBlankInline s p) (hind : p + indent = p1)
    (hpos : 0 < indent)
    (hsp : ∀ j, p ≤ j → j < p1 → s[j]? = some 32) {b : UInt8} (hb : s[p1]? = some b)
    (h32 : b ≠ 32) (h10 : b ≠ 10) (h123 : b ≠ 123) (h13 : b = 13 → s[p1 + 1]? ≠ some 10) (hcont : b ≠ 46 ∧ b ≠ 125 ∧ b ≠ 91 ∧ b ≠ 42)
    {start stop : Nat} {nb : Bool} {term : Termination} {q : Nat} {st2 : PatState}
    (hst : start = p1) (hS : SliceC s p1 stop nb term q)
    (h2 : st2Of s st p indent start stop nb term = some st2) : PInvC s r0 { st2 with role := pRoleOf term } q := by
  obtain ⟨hlt, rfl⟩ : p1 < stop ∧ nb = true := by
    by_cases ht : term = .crlf
    · subst ht
      obtain ⟨c1, c2, _, c4, _⟩ := hS.crlf rfl
      have hle := hS.le
      have : p1 < stop := by
        by_cases h : p1 = stop
        · subst h; rw [hb] at c1; cases c1; exact absurd c2 (h13 rfl)
        · omega
      exact ⟨this, by rw [c4]; exact nonBlank_first this hb h32⟩
    · exact slice_at_content (hS.toN ht) hb h32 h10 h123
  subst hst
  have hne' : start ≠ stop := by omega
  have hcl : ContentLine s p stop indent :=
    ⟨by omega, fun j j1 j2 => hsp j j1 (by omega), ⟨b, by rw [hind]; exact hb, h32, h10, hcont.1, hcont.2.2.1, hcont.2.2.2⟩,
      textBytes_ofC hS hsp⟩
  have hg : isGhost p stop indent st.role = false := by simp [isGhost]; intro _; omega
  refine text_pushC hI h2 (by simp [hne']) (by simp) (.text p stop indent st.role)
    (by simp [elOf]) ?_ ?_ (surv_of_survives (by omega)) (roleOKC_after_text hS hlt p indent st.role hg)
  · rcases roleOKC_ls_real hI.role hr (by rw [← hp1]; exact hb) h10 with h | h
    · rw [h]; exact ⟨hr, Or.inl hcl⟩
    · rw [h]; exact ⟨hr, Or.inl hcl⟩
  · have hbl : isBlankPh s p stop indent = false := by
      simp only [isBlankPh, Bool.and_eq_false_iff, beq_eq_false_iff_ne]; left; left; omega
    simp only [hr, beq_self_eq_true, Bool.true_or, Bool.and_self, if_true, lineInd, hbl, Bool.not_false]
    rw [minL_snoc, ← hI.ci]

/-! ## the loop -/

theorem step_textC {s : Src} {r0 : TextPos} {st : PatState} {p : Nat} (hI : PInvC s r0 st p)
    (hp : p < s.size) (h123 : s[p]? ≠ some 123) {indent p1 : Nat} (hpre : preOf s st p = some (indent, p1))
    {start stop : Nat} {nb : Bool} {term : Termination} {q : Nat} {st2 : PatState}
    (hts : getTextSlice s p1 = .ok (start, stop, nb, term) q)
    (h2 : st2Of s st p indent start stop nb term = some st2) : PInvC s r0 { st2 with role := pRoleOf term } q := by
  rcases preOf_factsC hpre with ⟨hr, hp1, hind, b, hb, h32, hz, hpos⟩ | ⟨hr, rfl, rfl⟩
  · have hsz : p1 ≤ s.size := Nat.le_of_lt (get_lt hb)
    obtain ⟨hst, hS⟩ := sliceC hsz hts
    have hsp : ∀ j, p ≤ j → j < p1 → s[j]? = some 32 := by rw [hp1]; exact skipBlankInline_spaces s p
    by_cases h10 : b = 10
    · subst h10; exact step_blankC hI hr hp1 hb hst hS h2
    · by_cases h13 : b = 13 ∧ s[p1 + 1]? = some 10
      · obtain ⟨h13, h10'⟩ := h13
        subst h13
        refine step_emptyC hI hb h10' (Or.inl ?_) hst hS h2
        rcases roleOKC_ls_real hI.role hr (by rw [← hp1]; exact hb) (by decide) with h | h
        · exfalso
          have := hI.role
          rw [h] at this
          exact this.2.2 (by rw [← hp1]; exact hb) (by rw [← hp1]; exact h10')
        · exact h
      · have hi : 0 < indent := by
          rcases Nat.eq_zero_or_pos indent with h | h
          · rcases hz h with h' | h'
            · exact absurd h' h10
            · exact absurd h' h13
          · exact h
        by_cases hb123 : b = 123
        · subst hb123; exact step_ghostC hI hr hp1 hind hi hsp hb hst hS h2
        · exact step_contentC hI hr hp1 hind hi hsp hb h32 h10 hb123 (fun h0 h1 => h13 ⟨h0, h1⟩) (hpos hi) hst hS h2
  · obtain ⟨hst, hS⟩ := sliceC (Nat.le_of_lt hp) hts
    exact step_midC hI hp h123 hr hst hS h2

/-- **the loop of `get_pattern` keeps the shape invariant** (any source) -/
theorem patternLoop_pinvC {s : Src} (r0 : TextPos) :
    ∀ (n : Nat) (st : PatState) (p : Nat) (st' : PatState) (q : Nat), PInvC s r0 st p →
      getPatternLoop s n st p = .ok st' q → ∃ p', PInvC s r0 st' p' := by
  intro n
  induction n with
  | zero => intro st p st' q _ h; simp [getPatternLoop] at h
  | succ n ih =>
    intro st p st' q hI h
    by_cases hp : p < s.size
    · by_cases h123 : s[p]? = some 123
      · cases hpl : getPlaceable s n (p + 1) with
        | ok e q1 =>
          rw [loop_placeable s n st p hp h123 hpl] at h
          refine ih _ _ _ _ ?_ h
          have hnl : (st.role == .lineStart) = nlOf (endSt s (.first r0) st.elements) := by
            have hR := hI.role
            generalize endSt s (.first r0) st.elements = E at hR
            cases E with
            | first r =>
              cases r <;> simp only [RoleOKC] at hR
              · rw [hR.1]; rfl
              · rw [hR.1]; rfl
            | afterNl => simp only [RoleOKC] at hR; rw [hR]; rfl
            | afterGhost => simp only [RoleOKC] at hR; rw [hR.1]; rfl
            | afterText =>
              simp only [RoleOKC] at hR
              rcases hR with ⟨h', _⟩ | ⟨_, h'⟩
              · rw [h']; rfl
              · rw [h123] at h'; cases h'
            | afterPl =>
              simp only [RoleOKC] at hR
              rcases hR with h' | ⟨_, h'⟩
              · rw [h']; rfl
              · rw [h123] at h'; cases h'
          have key := push_pinvC hI (.placeable e) (if st.role == .lineStart then some 0 else st.commonIndent) true
            .continuation q1 (by cases endSt s (.first r0) st.elements <;> trivial)
            (by
              simp only [lineInd, ← hnl]
              split
              · rw [minL_snoc, ← hI.ci, stepMin_zero]
              · rw [List.append_nil]; exact hI.ci)
            (fun _ => trivial) (by simp [nxt, RoleOKC])
          simp only [if_true] at key
          exact key
        | err e q1 =>
          have hc : isCurrentByte s p 123 = true := by simp [isCurrentByte, h123]
          simp [getPatternLoop, hp, hc, hpl] at h
        | panic m =>
          have hc : isCurrentByte s p 123 = true := by simp [isCurrentByte, h123]
          simp [getPatternLoop, hp, hc, hpl] at h
        | fuel =>
          have hc : isCurrentByte s p 123 = true := by simp [isCurrentByte, h123]
          simp [getPatternLoop, hp, hc, hpl] at h
      · have hc : isCurrentByte s p 123 = false := by simpa [isCurrentByte] using h123
        rw [loop_unfold s n st p hp hc] at h
        cases hpre : preOf s st p with
        | none =>
          simp only [hpre] at h
          cases h
          exact ⟨p, hI⟩
        | some ip =>
          obtain ⟨indent, p1⟩ := ip
          simp only [hpre] at h
          cases hts : getTextSlice s p1 with
          | ok v q1 =>
            obtain ⟨start, stop, nb, term⟩ := v
            simp only [hts] at h
            cases h2 : st2Of s st p indent start stop nb term with
            | none => simp [h2] at h
            | some st2 =>
              simp only [h2] at h
              exact ih _ _ _ _ (step_textC hI hp h123 hpre hts h2) h
          | err e q1 => simp [hts] at h
          | panic m => simp [hts] at h
          | fuel => simp [hts] at h
    · have : getPatternLoop s (n + 1) st p = .ok st p := by
        simp only [getPatternLoop, hp, if_false]
      rw [this] at h
      cases h
      exact ⟨p, hI⟩

theorem pinvC_init_inline {s : Src} (p1 : Nat) (h32 : s[p1]? ≠ some 32) (hE : skipEol s p1 = none) :
    PInvC s .initialLineStart ⟨[], none, none, .initialLineStart, none⟩ p1 := by
  refine ⟨trivial, ⟨rfl, ?_⟩, rfl, fun i hi => by cases hi⟩
  intro c hc
  refine ⟨fun h0 => h32 (by rw [hc, h0]), fun h0 => ?_, fun h0 h10 => ?_⟩
  · subst h0; simp [skipEol, hc] at hE
  · subst h0
    simp [skipEol, hc, h10] at hE

theorem pinvC_init_block {s : Src} (q : Nat) :
    PInvC s .lineStart ⟨[], none, none, .lineStart, none⟩ (skipBlankBlock s q).1 := by
  have hnb : ∀ b, s[skipBlankInline s (skipBlankBlock s q).1]? = some b →
      skipEol s (skipBlankInline s (skipBlankBlock s q).1) = none := by
    intro b hb
    have hlt := get_lt hb
    have hle := (skipBlankInline_after s (skipBlankBlock s q).1).le
    have hnb := skipBlankBlock_notBlank s q (by omega)
    cases hE : skipEol s (skipBlankInline s (skipBlankBlock s q).1) with
    | none => rfl
    | some q' => exact absurd (Or.inl ⟨q', hE⟩) hnb
  refine ⟨trivial, ⟨rfl, ?_, ?_⟩, rfl, fun i hi => by cases hi⟩
  · intro h10
    have := hnb _ h10
    simp [skipEol, h10] at this
  · intro h13 h10
    have := hnb _ h13
    simp [skipEol, h13, h10] at this

end FluentProofs.Ser
