import FluentProofs.SpecLex
/-!
# The dedentation core: the parser model's offset arithmetic versus the grammar's abstract syntax (C02, T2)

`Parser.finishElements` turns a line-start text placeholder `(start, stop, indent)` into the slice
`start + min indent common .. stop` and trims the last element with `trimEnd`; the grammar's
abstract syntax (`SpecGrammar.finishPattern`) removes `common` spaces from every indent
(`dedent`), joins adjacent text and drops trailing white space of the last element.  This file proves
the pure facts that connect the two, for all sources and offsets.
-/
namespace FluentProofs.SpecDedent
open FluentModel FluentModel.Syntax FluentModel.SpecGrammar FluentProofs.Parser FluentProofs.SpecLex

/-! ## the common indent is the minimum of the indents -/

/-- the indents that take part in the dedentation -/
def indentsOf : List RawEl → List Nat
  | [] => []
  | .indent k :: rest => k :: indentsOf rest
  | _ :: rest => indentsOf rest

theorem commonIndent_le (els : List RawEl) (c : Nat) (h : commonIndent els = some c) :
    ∀ k ∈ indentsOf els, c ≤ k := by
  induction els generalizing c with
  | nil => intro k hk; simp [indentsOf] at hk
  | cons e rest ih =>
    cases e with
    | text t => simpa [commonIndent, indentsOf] using ih c (by simpa [commonIndent] using h)
    | placeable x => simpa [commonIndent, indentsOf] using ih c (by simpa [commonIndent] using h)
    | indent k0 =>
      intro k hk
      simp only [indentsOf, List.mem_cons] at hk
      simp only [commonIndent] at h
      cases hc : commonIndent rest with
      | none =>
        rw [hc] at h
        have hk0 : k0 = c := by simpa using h
        have hnil : indentsOf rest = [] := by
          clear ih h hk
          induction rest with
          | nil => rfl
          | cons e r ihr =>
            cases e with
            | text t => simpa [commonIndent, indentsOf] using ihr (by simpa [commonIndent] using hc)
            | placeable x => simpa [commonIndent, indentsOf] using ihr (by simpa [commonIndent] using hc)
            | indent k1 =>
              simp only [commonIndent] at hc
              split at hc <;> simp at hc
        rcases hk with rfl | hk
        · omega
        · rw [hnil] at hk; simp at hk
      | some c' =>
        rw [hc] at h
        have hmin : min k0 c' = c := by simpa using h
        rcases hk with rfl | hk
        · omega
        · have := ih c' hc k hk; omega

theorem commonIndent_mem (els : List RawEl) (c : Nat) (h : commonIndent els = some c) : c ∈ indentsOf els := by
  induction els generalizing c with
  | nil => simp [commonIndent] at h
  | cons e rest ih =>
    cases e with
    | text t => simpa [commonIndent, indentsOf] using ih c (by simpa [commonIndent] using h)
    | placeable x => simpa [commonIndent, indentsOf] using ih c (by simpa [commonIndent] using h)
    | indent k0 =>
      simp only [commonIndent] at h
      simp only [indentsOf, List.mem_cons]
      cases hc : commonIndent rest with
      | none => rw [hc] at h; left; simpa using h.symm
      | some c' =>
        rw [hc] at h
        have hmin : min k0 c' = c := by simpa using h
        by_cases hle : k0 ≤ c'
        · left; omega
        · right
          have : c = c' := by omega
          subst this; exact ih c hc

/-- T2: `commonIndent` is the minimum over the indents of all `block_text`/`block_placeable` lines:
a lower bound that is attained (so `dedent` never removes more than a line has, and removes
everything from at least one line). -/
theorem commonIndent_is_min (els : List RawEl) (c : Nat) (h : commonIndent els = some c) :
    c ∈ indentsOf els ∧ ∀ k ∈ indentsOf els, c ≤ k :=
  ⟨commonIndent_mem els c h, commonIndent_le els c h⟩

/-! ## offset arithmetic of `finishElements` = `dedent` on the indent -/

theorem seg_spaces (s : Src) (a k : Nat) (h : ∀ j, a ≤ j → j < a + k → s[j]? = some 32) :
    seg s a (a + k) = List.replicate k 32 := by
  induction k generalizing a with
  | zero => simp [seg_self]
  | succ k ih =>
    have h0 : s[a]? = some 32 := h a (Nat.le_refl _) (by omega)
    rw [seg_cons h0 (by omega), show a + (k + 1) = (a + 1) + k by omega,
      ih (a + 1) (fun j h1 h2 => h j (by omega) (by omega))]
    rfl

/-- the text the grammar's `dedent` leaves of an indent of `k` spaces -/
def dedentText (c k : Nat) : Bytes :=
  match dedent c (.indent k) with
  | .text t => t
  | .placeable _ => []

theorem dedentText_eq (c k : Nat) : dedentText c k = List.replicate (k - c) 32 := rfl

/-- T2 (dedentation core): for a line whose first `indent` bytes are spaces, the slice
`start + min indent common .. stop` that `finishElements` takes is exactly what the grammar's abstract
syntax produces for that line: the indent with `common` spaces removed, followed by the line's text. -/
theorem dedent_offset (s : Src) (start stop indent common : Nat)
    (hsp : ∀ j, start ≤ j → j < start + indent → s[j]? = some 32) (h : start + indent ≤ stop) :
    spanBytes s ⟨start + min indent common, stop⟩ =
      dedentText common indent ++ spanBytes s ⟨start + indent, stop⟩ := by
  rw [spanBytes_eq_seg, spanBytes_eq_seg, dedentText_eq]
  have hmin : min indent common ≤ indent := Nat.min_le_left _ _
  rw [seg_append (s := s) (p := start + min indent common) (q := start + indent) (r := stop) (by omega) h]
  congr 1
  have := seg_spaces s (start + min indent common) (indent - min indent common)
    (fun j h1 h2 => hsp j (by omega) (by omega))
  rw [show start + min indent common + (indent - min indent common) = start + indent by omega] at this
  rw [this]
  congr 1
  omega

/-- the same for `common_indent = None` (no line took part): the whole indent is removed -/
theorem dedent_offset_none (s : Src) (start stop indent : Nat) :
    spanBytes s ⟨start + indent, stop⟩ = dedentText indent indent ++ spanBytes s ⟨start + indent, stop⟩ := by
  simp [dedentText_eq]

/-! ## `Slice::trim` versus "the last element loses trailing spaces" -/

/-- what `matches_fluent_ws` accepts -/
def isTrimByte (b : UInt8) : Bool := b == 32 || b == 13 || b == 10

theorem seg_snoc {s : Src} {a e : Nat} {b : UInt8} (hae : a < e) (hb : s[e - 1]? = some b) :
    seg s a e = seg s a (e - 1) ++ [b] := by
  obtain ⟨k, rfl⟩ : ∃ k, e = k + 1 := ⟨e - 1, by omega⟩
  have hb' : s[k]? = some b := by simpa using hb
  rw [seg_append (s := s) (p := a) (q := k) (r := k + 1) (by omega) (by omega), seg_one hb']
  simp

theorem trimEndGo_seg (s : Src) (start n e : Nat) (hn : e - start ≤ n) (he : e ≤ s.size) :
    seg s start (trimEndGo s start n e) = ((seg s start e).reverse.dropWhile isTrimByte).reverse := by
  induction n generalizing e with
  | zero =>
    have : seg s start e = [] := by
      unfold seg; rw [show e - start = 0 by omega]; simp
    simp [trimEndGo, this]
  | succ n ih =>
    simp only [trimEndGo]
    by_cases hgt : e > start
    · simp only [hgt, if_true]
      have hlt : e - 1 < s.size := by omega
      have hsome : s[e - 1]? = some s[e - 1] := by simp [hlt]
      rw [hsome]
      simp only
      have hsn := seg_snoc (s := s) (a := start) (e := e) hgt hsome
      by_cases hw : (s[e - 1] == 32 || s[e - 1] == 13 || s[e - 1] == 10) = true
      · simp only [hw, if_true]
        rw [ih (e - 1) (by omega) (by omega), hsn]
        have : isTrimByte s[e - 1] = true := hw
        simp [List.dropWhile_cons, this]
      · have hw' : (s[e - 1] == 32 || s[e - 1] == 13 || s[e - 1] == 10) = false := by simpa using hw
        simp only [hw', Bool.false_eq_true, if_false]
        rw [hsn]
        have : isTrimByte s[e - 1] = false := hw'
        simp [List.dropWhile_cons, this]
    · simp only [hgt, if_false]
      have : seg s start e = [] := by
        unfold seg; rw [show e - start = 0 by omega]; simp
      simp [this]

/-- `Slice::trim` removes the trailing bytes in `{' ', '\r', '\n'}` -/
theorem trimEnd_bytes (s : Src) (sp : Span) (h : sp.stop ≤ s.size) :
    spanBytes s (trimEnd s sp) = ((spanBytes s sp).reverse.dropWhile isTrimByte).reverse := by
  unfold trimEnd
  rw [spanBytes_eq_seg, spanBytes_eq_seg]
  exact trimEndGo_seg s sp.start _ sp.stop (Nat.le_refl _) h

theorem isTrimByte_eq : isTrimByte = isTrailingWs := by
  funext b
  simp only [isTrimByte, isTrailingWs]
  cases (b == 32) <;> cases (b == 13) <;> cases (b == 10) <;> rfl

/-- T2: `Slice::trim` on the last text element is the grammar's "the last element loses trailing white
space" (space, `\n`, `\r` — the reference implementation's `trailingWSRe`), byte for byte. -/
theorem trimEnd_eq_dropTrailingWs (s : Src) (sp : Span) (h : sp.stop ≤ s.size) :
    spanBytes s (trimEnd s sp) = dropTrailingWs (spanBytes s sp) := by
  rw [trimEnd_bytes s sp h, isTrimByte_eq]
  rfl

/-! ## the grammar's patterns are in joined normal form -/

/-- no two adjacent text elements -/
def NoAdjText : List (PatElem Bytes) → Prop
  | [] => True
  | [_] => True
  | .text _ :: .text _ :: _ => False
  | _ :: e :: rest => NoAdjText (e :: rest)

theorem noAdjText_tail {e : PatElem Bytes} {l : List (PatElem Bytes)} (h : NoAdjText (e :: l)) : NoAdjText l := by
  cases l with
  | nil => trivial
  | cons e2 r =>
    cases e with
    | text a => cases e2 with
      | text b => simp [NoAdjText] at h
      | placeable x => simpa [NoAdjText] using h
    | placeable x => simpa [NoAdjText] using h

theorem noAdjText_cons_placeable {x : Expr Bytes} {l : List (PatElem Bytes)} (h : NoAdjText l) :
    NoAdjText (.placeable x :: l) := by
  cases l with
  | nil => trivial
  | cons e2 r => simpa [NoAdjText] using h

theorem noAdjText_cons_text {a : Bytes} {l : List (PatElem Bytes)} (h : NoAdjText l)
    (hl : ∀ b r, l ≠ .text b :: r) : NoAdjText (.text a :: l) := by
  cases l with
  | nil => trivial
  | cons e2 r =>
    cases e2 with
    | text b => exact absurd rfl (hl b r)
    | placeable y => simpa [NoAdjText] using h

theorem joinAdjacent_noAdj (l : List (PatElem Bytes)) : NoAdjText (joinAdjacent l) := by
  induction l with
  | nil => trivial
  | cons e rest ih =>
    cases e with
    | placeable x => simp only [joinAdjacent]; exact noAdjText_cons_placeable ih
    | text a =>
      simp only [joinAdjacent]
      cases hj : joinAdjacent rest with
      | nil => trivial
      | cons e2 r =>
        rw [hj] at ih
        cases e2 with
        | text b =>
          simp only
          apply noAdjText_cons_text (noAdjText_tail ih)
          intro c r' hr
          subst hr
          simp [NoAdjText] at ih
        | placeable y =>
          simp only
          apply noAdjText_cons_text ih
          intro c r' hr
          cases hr

theorem noAdjText_text_swap {a b : Bytes} {l : List (PatElem Bytes)} (h : NoAdjText (.text a :: l)) :
    NoAdjText (.text b :: l) := by
  cases l with
  | nil => trivial
  | cons e2 r =>
    cases e2 with
    | text c => simp [NoAdjText] at h
    | placeable y => simpa [NoAdjText] using h

theorem trimFirst_noAdj {l : List (PatElem Bytes)} (h : NoAdjText l) : NoAdjText (trimFirst l) := by
  cases l with
  | nil => exact h
  | cons e rest =>
    cases e with
    | text t => exact noAdjText_text_swap h
    | placeable x => exact h

theorem trimLast_noAdj {l : List (PatElem Bytes)} (h : NoAdjText l) : NoAdjText (trimLast l) := by
  induction l with
  | nil => exact h
  | cons e rest ih =>
    cases rest with
    | nil => cases e <;> trivial
    | cons e2 r =>
      have ht := ih (noAdjText_tail h)
      have hun : trimLast (e :: e2 :: r) = e :: trimLast (e2 :: r) := by
        cases e <;> simp [trimLast]
      rw [hun]
      cases e with
      | placeable x => exact noAdjText_cons_placeable ht
      | text a =>
        apply noAdjText_cons_text ht
        intro b r' hr
        cases e2 with
        | text c => simp [NoAdjText] at h
        | placeable y =>
          cases r with
          | nil => simp [trimLast] at hr
          | cons e3 r3 => simp [trimLast] at hr

theorem filter_noAdj {l : List (PatElem Bytes)} (h : NoAdjText l) : NoAdjText (l.filter nonEmptyEl) := by
  induction l with
  | nil => exact h
  | cons e rest ih =>
    have ht := ih (noAdjText_tail h)
    cases e with
    | placeable x =>
      simp only [List.filter_cons, nonEmptyEl, if_true]
      exact noAdjText_cons_placeable ht
    | text a =>
      simp only [List.filter_cons]
      split
      · apply noAdjText_cons_text ht
        intro b r' hr
        cases rest with
        | nil => simp at hr
        | cons e2 r =>
          cases e2 with
          | text c => simp [NoAdjText] at h
          | placeable y => simp [List.filter_cons, nonEmptyEl] at hr
      · exact ht

/-- T2: every pattern the grammar's abstract syntax produces is in joined normal form (no two adjacent
text elements) — the form `joinText` brings the parser's trees into before they are compared. -/
theorem finishPattern_noAdj (els : List RawEl) : NoAdjText (finishPattern els) := by
  unfold finishPattern
  exact filter_noAdj (trimLast_noAdj (trimFirst_noAdj (joinAdjacent_noAdj _)))

/-- … and contains no empty text element -/
theorem finishPattern_nonEmpty (els : List RawEl) : ∀ e ∈ finishPattern els, nonEmptyEl e = true := by
  intro e he
  unfold finishPattern at he
  exact (List.mem_filter.mp he).2

end FluentProofs.SpecDedent
