import FluentProofs.ResolverTotal
import FluentProofs.BytesOrder
/-!
# Output bound for the resolver model (C06, part 3)

`|output| ≤ M + (maxPlaceables + 1) * (2 * M + E + 6)` where

* `M` bounds, for every pattern of the bundle (message/term values, attribute values, variant values,
  at any nesting) the total size of its text elements after the transform, and every literal /
  error token (`{id}`, `{-term.attr}`, `{$var}`, `FN()`) of the bundle;
* `E` bounds `valueString` of every caller argument, of every result of a registered function and of
  every literal passed as a named argument to a term.

Accounting: every byte written is either text of the pattern being written (each pattern is entered
at most once per counted placeable, plus the start pattern) or is written by a counted placeable
itself (isolation marks 6, its error token ≤ `M`, a value ≤ `E` or a literal/token ≤ `M`); the
counter never exceeds `maxPlaceables + 1`.  Invariant of the induction:
`|w'| + placeables * K ≤ |w| + direct(node) + placeables' * K` with `K = 2 * M + E + 6`.

Named arguments of term calls must be literals (`namedLit`; the grammar guarantees it,
`get_inline_expression(only_literal = true)`): for arbitrary ASTs a named argument could carry a
whole resolved message into a term that prints it several times, and sizes would multiply per
nesting level — that genuinely exponential case is outside the parser's range.
-/
namespace FluentProofs.Resolver
open FluentModel FluentModel.Syntax FluentModel.Resolver

/-- total size of the text elements of one pattern (after the transform) -/
def textBytes (env : Env) : List (PatElem Bytes) → Nat
  | [] => 0
  | .text v :: r => (match env.transform with | some f => f v | .none => v).length + textBytes env r
  | .placeable _ :: r => textBytes env r

def Small (env : Env) (E : Nat) (v : Value) : Prop := (valueString env v).length ≤ E

/-- size of the error token `{…}` of an inline expression -/
def tokLen (e : Inline Bytes) : Nat := (braced (inlineWriteError e)).length

/-- named arguments are string/number literals whose printed value is at most `E` bytes -/
def namedLit (env : Env) (E : Nat) : List (Bytes × Inline Bytes) → Prop
  | [] => True
  | (_, .str v) :: r => Small env E (.str (env.unescape v)) ∧ namedLit env E r
  | (_, .num v) :: r => Small env E (env.tryNumber v) ∧ namedLit env E r
  | _ :: _ => False

mutual
/-- every literal and error token below this node is at most `M` bytes, every nested pattern has at most
`M` bytes of text, and named arguments of term calls are small literals -/
def okInline (env : Env) (M E : Nat) : Inline Bytes → Prop
  | .str v => (env.unescape v).length ≤ M
  | .num v => (valueString env (env.tryNumber v)).length ≤ M
  | .var id => tokLen (.var id) ≤ M
  | .msg id a => tokLen (.msg id a) ≤ M
  | .term id a .none => tokLen (.term id a .none) ≤ M
  | .term id a (some (p, n)) =>
    tokLen (.term id a (some (p, n))) ≤ M ∧ okInlines env M E p ∧ okNamed env M E n ∧ namedLit env E n
  | .fn id p n => tokLen (.fn id p n) ≤ M ∧ okInlines env M E p ∧ okNamed env M E n
  | .placeable e => okExpr env M E e
def okInlines (env : Env) (M E : Nat) : List (Inline Bytes) → Prop
  | [] => True
  | x :: xs => okInline env M E x ∧ okInlines env M E xs
def okNamed (env : Env) (M E : Nat) : List (Bytes × Inline Bytes) → Prop
  | [] => True
  | (_, x) :: xs => okInline env M E x ∧ okNamed env M E xs
def okExpr (env : Env) (M E : Nat) : Expr Bytes → Prop
  | .inline e => okInline env M E e
  | .select s vs => okInline env M E s ∧ okVariants env M E vs
def okVariants (env : Env) (M E : Nat) : List (Variant Bytes) → Prop
  | [] => True
  | v :: vs => okVariant env M E v ∧ okVariants env M E vs
def okVariant (env : Env) (M E : Nat) : Variant Bytes → Prop
  | .mk _ val _ => textBytes env val ≤ M ∧ okElems env M E val
def okElems (env : Env) (M E : Nat) : List (PatElem Bytes) → Prop
  | [] => True
  | e :: es => okElem env M E e ∧ okElems env M E es
def okElem (env : Env) (M E : Nat) : PatElem Bytes → Prop
  | .text _ => True
  | .placeable e => okExpr env M E e ∧ (braced (exprWriteError e)).length ≤ M
end

/-- a pattern within the bounds -/
def okPat (env : Env) (M E : Nat) (p : Pattern Bytes) : Prop := textBytes env p ≤ M ∧ okElems env M E p

/-- the arguments of the enclosing term call print small -/
def LocOk (env : Env) (E : Nat) (sc : Scope) : Prop :=
  ∀ l, sc.localArgs = some l → ∀ k v, l.get k = some v → Small env E v

theorem LocOk.congr {env : Env} {E : Nat} {a b : Scope} (h : b.localArgs = a.localArgs) (ha : LocOk env E a) :
    LocOk env E b := by
  unfold LocOk; rw [h]; exact ha

/-- per-placeable budget -/
def Kb (M E : Nat) : Nat := 2 * M + E + 6

@[simp] theorem braced_length (b : Bytes) : (braced b).length = b.length + 2 := by
  simp [braced]

theorem ite_append_length (c : Bool) (w x : Bytes) : (if c = true then w ++ x else w).length ≤ w.length + x.length := by
  cases c <;> simp

/-! ## values installed as term arguments -/

theorem get_ofPairs_mem (ns : List (Bytes × Value)) (k : Bytes) (v : Value)
    (h : ArgList.get (ArgList.ofPairs ns) k = some v) : ∃ kv ∈ ns, kv.2 = v := by
  unfold ArgList.get ArgList.ofPairs Args.fromPairs at h
  rw [Args.getL_foldl bytesLt_strictTotal ([] : List (Bytes × Value)) ns k trivial] at h
  cases hf : ns.reverse.find? (fun p => p.1 = k) with
  | none => rw [hf] at h; simp [Args.getL] at h
  | some p =>
    rw [hf] at h
    simp only [Option.some.injEq] at h
    exact ⟨p, List.mem_reverse.1 (List.mem_of_find?_eq_some hf), h⟩

theorem resolveNamed_small (env : Env) (E : Nat) (es : List (Bytes × Inline Bytes)) :
    ∀ n sc vs sc', namedLit env E es → resolveNamed env n es sc = .ok (vs, sc') →
      ∀ kv ∈ vs, Small env E kv.2 := by
  induction es with
  | nil =>
    intro n sc vs sc' _ hr
    cases n with
    | zero => simp [resolveNamed] at hr
    | succ n => simp [resolveNamed] at hr; intro kv hkv; rw [hr.1] at hkv; cases hkv
  | cons ke r ih =>
    intro n sc vs sc' hl hr
    obtain ⟨k, e⟩ := ke
    cases n with
    | zero => simp [resolveNamed] at hr
    | succ n =>
      cases n with
      | zero => simp [resolveNamed, resolveInline] at hr
      | succ n =>
        have key : ∀ val, Small env E val → namedLit env E r → resolveInline env (n + 1) e sc = .ok (val, sc) →
            ∀ kv ∈ vs, Small env E kv.2 := by
          intro val hv hlr he
          simp only [resolveNamed, he] at hr
          rcases hr2 : resolveNamed env (n + 1) r sc with ⟨⟨vs2, sc2⟩⟩ | ⟨m⟩ | _ <;> rw [hr2] at hr <;> simp at hr
          obtain ⟨rfl, rfl⟩ := hr
          intro kv hkv
          rcases List.mem_cons.1 hkv with rfl | hkv
          · exact hv
          · exact ih _ _ _ _ hlr hr2 kv hkv
        cases e with
        | str v => simp only [namedLit] at hl; exact key _ hl.1 hl.2 (by simp [resolveInline])
        | num v => simp only [namedLit] at hl; exact key _ hl.1 hl.2 (by simp [resolveInline])
        | var _ => simp [namedLit] at hl
        | msg _ _ => simp [namedLit] at hl
        | term _ _ _ => simp [namedLit] at hl
        | fn _ _ _ => simp [namedLit] at hl
        | placeable _ => simp [namedLit] at hl

/-- the named arguments a term call installs print small -/
theorem getArguments_named_small (env : Env) (E n : Nat)
    (args : Option (List (Inline Bytes) × List (Bytes × Inline Bytes))) (sc sc1 : Scope) (rp : List Value)
    (named : ArgList) (hr : getArguments env n args sc = .ok ((rp, named), sc1))
    (hlit : ∀ p nm, args = some (p, nm) → namedLit env E nm) :
    ∀ k v, named.get k = some v → Small env E v := by
  cases n with
  | zero => simp [getArguments] at hr
  | succ n =>
    cases args with
    | none =>
      simp [getArguments] at hr
      intro k v h; rw [hr.1.2] at h; simp [ArgList.get, Args.getL] at h
    | some pn =>
      obtain ⟨p, nm⟩ := pn
      simp only [getArguments] at hr
      rcases h1 : resolveList env n p sc with ⟨⟨vs, sc0⟩⟩ | ⟨m⟩ | _ <;> rw [h1] at hr <;> simp only [] at hr
      · rcases h2 : resolveNamed env n nm sc0 with ⟨⟨ns, sc2⟩⟩ | ⟨m⟩ | _ <;> rw [h2] at hr <;> simp at hr
        obtain ⟨⟨_, rfl⟩, _⟩ := hr
        intro k v h
        obtain ⟨kv, hm, rfl⟩ := get_ofPairs_mem ns k v h
        exact resolveNamed_small env E nm n sc0 ns sc2 (hlit p nm rfl) h2 kv hm
      · cases hr
      · cases hr

/-! ## variants -/

theorem selectVariant_ok (env : Env) (M E : Nat) (vs : List (Variant Bytes)) (sel : Value) (v : Pattern Bytes)
    (h : selectVariant env vs sel = .ok (some v)) (hv : okVariants env M E vs) : okPat env M E v := by
  induction vs with
  | nil => simp [selectVariant] at h
  | cons x rest ih =>
    obtain ⟨key, value, d⟩ := x
    simp only [selectVariant] at h
    simp only [okVariants, okVariant] at hv
    split at h
    · cases h
    · cases h; exact hv.1
    · exact ih h hv.2

theorem defaultVariant_ok (env : Env) (M E : Nat) (vs : List (Variant Bytes)) (v : Pattern Bytes)
    (h : defaultVariant vs = some v) (hv : okVariants env M E vs) : okPat env M E v := by
  induction vs with
  | nil => simp [defaultVariant] at h
  | cons x rest ih =>
    obtain ⟨key, value, d⟩ := x
    simp only [defaultVariant] at h
    simp only [okVariants, okVariant] at hv
    split at h
    · cases h; exact hv.1
    · exact ih h hv.2

/-! ## the joint statement -/

/-- the accounting inequality -/
def Acc (M E : Nat) (direct : Nat) (w : Bytes) (sc : Scope) (w' : Bytes) (sc' : Scope) : Prop :=
  w'.length + sc.placeables * Kb M E ≤ w.length + direct + sc'.placeables * Kb M E

structure Out (env : Env) (M E n : Nat) : Prop where
  writeElems : ∀ whole len els w sc w' sc', okElems env M E els → LocOk env E sc →
    writeElems env n whole len els w sc = .ok (w', sc') → Acc M E (textBytes env els) w sc w' sc'
  writePattern : ∀ p w sc w' sc', okElems env M E p → LocOk env E sc →
    writePattern env n p w sc = .ok (w', sc') → Acc M E (textBytes env p) w sc w' sc'
  track : ∀ p e w sc w' sc', okPat env M E p → tokLen e ≤ M → LocOk env E sc →
    track env n p e w sc = .ok (w', sc') → Acc M E M w sc w' sc'
  writeExpr : ∀ e w sc w' sc', okExpr env M E e → LocOk env E sc →
    writeExpr env n e w sc = .ok (w', sc') → Acc M E (M + E) w sc w' sc'
  writeDefault : ∀ vs w sc w' sc', okVariants env M E vs → LocOk env E sc →
    writeDefault env n vs w sc = .ok (w', sc') → Acc M E M w sc w' sc'
  writeInline : ∀ e w sc w' sc', okInline env M E e → LocOk env E sc →
    writeInline env n e w sc = .ok (w', sc') → Acc M E (M + E) w sc w' sc'

theorem out_zero (env : Env) (M E : Nat) : Out env M E 0 := by
  constructor <;> intros <;> rename_i hr <;>
    simp [writeElems, writePattern, track, writeExpr, writeDefault, writeInline] at hr

section step
variable {env : Env} {M E n : Nat} (hmax : Generated.maxPlaceables ≤ 254)
  (hReach : ∀ p, Reach env p → okPat env M E p)
  (hArgs : ∀ k v, env.args.bind (·.get k) = some v → Small env E v)
  (hFn : ∀ id f rp rn, env.fn id = some f → Small env E (f rp rn))
  (IH : Out env M E n)
include IH

theorem writePattern_out (p : Pattern Bytes) (w : Bytes) (sc : Scope) (w' : Bytes) (sc' : Scope)
    (hp : okElems env M E p) (hl : LocOk env E sc) (hr : writePattern env (n + 1) p w sc = .ok (w', sc')) :
    Acc M E (textBytes env p) w sc w' sc' := by
  simp only [writePattern] at hr
  exact IH.writeElems _ _ _ _ _ _ _ hp hl hr

theorem writeDefault_out (vs : List (Variant Bytes)) (w : Bytes) (sc : Scope) (w' : Bytes) (sc' : Scope)
    (hv : okVariants env M E vs) (hl : LocOk env E sc) (hr : writeDefault env (n + 1) vs w sc = .ok (w', sc')) :
    Acc M E M w sc w' sc' := by
  simp only [writeDefault] at hr
  split at hr
  · rename_i v hd
    have hok := defaultVariant_ok env M E vs v hd hv
    have := IH.writePattern v w sc w' sc' hok.2 hl hr
    have := hok.1
    unfold Acc at *; omega
  · cases hr
    show w.length + sc.placeables * Kb M E ≤ w.length + M + sc.placeables * Kb M E
    omega

theorem track_out (p : Pattern Bytes) (e : Inline Bytes) (w : Bytes) (sc : Scope) (w' : Bytes) (sc' : Scope)
    (hp : okPat env M E p) (he : tokLen e ≤ M) (hl : LocOk env E sc)
    (hr : track env (n + 1) p e w sc = .ok (w', sc')) : Acc M E M w sc w' sc' := by
  simp only [track] at hr
  split at hr
  · cases hr
    show (w ++ braced (inlineWriteError e)).length + sc.placeables * Kb M E ≤ w.length + M + sc.placeables * Kb M E
    unfold tokLen at he; rw [List.length_append]; omega
  · rcases hw : writePattern env n p w { sc with travelled := sc.travelled ++ [p] } with ⟨⟨w1, sc1⟩⟩ | ⟨m⟩ | _ <;>
      rw [hw] at hr <;> simp only [] at hr
    · cases hr
      have h1 : w'.length + sc.placeables * Kb M E ≤ w.length + textBytes env p + sc1.placeables * Kb M E :=
        IH.writePattern p w { sc with travelled := sc.travelled ++ [p] } w' sc1 hp.2
          (LocOk.congr (a := sc) rfl hl) hw
      have := hp.1
      show w'.length + sc.placeables * Kb M E ≤ w.length + M + sc1.placeables * Kb M E
      omega
    · cases hr
    · cases hr

theorem select_tail_out (vs : List (Variant Bytes)) (w : Bytes) (sc1 : Scope) (selector : Value) (w' : Bytes)
    (sc' : Scope) (hv : okVariants env M E vs) (hl : LocOk env E sc1)
    (hr : (match selectVariant env vs selector with
      | .ok (some v) => writePattern env n v w sc1
      | .ok .none => writeDefault env n vs w sc1
      | .panic m => .panic m
      | .fuel => .fuel) = .ok (w', sc')) : Acc M E M w sc1 w' sc' := by
  rcases hs : selectVariant env vs selector with ⟨_ | v⟩ | ⟨m⟩ | _ <;> rw [hs] at hr <;> simp only [] at hr
  · exact IH.writeDefault _ _ _ _ _ hv hl hr
  · have hok := selectVariant_ok env M E vs selector v hs hv
    have := IH.writePattern v w sc1 w' sc' hok.2 hl hr
    have := hok.1
    unfold Acc at *; omega
  · cases hr
  · cases hr

include hmax in
theorem writeExpr_out (e : Expr Bytes) (w : Bytes) (sc : Scope) (w' : Bytes) (sc' : Scope)
    (he : okExpr env M E e) (hl : LocOk env E sc) (hr : writeExpr env (n + 1) e w sc = .ok (w', sc')) :
    Acc M E (M + E) w sc w' sc' := by
  cases e with
  | inline e =>
    simp only [writeExpr] at hr
    simp only [okExpr] at he
    exact IH.writeInline _ _ _ _ _ he hl hr
  | select sel vs =>
    simp only [writeExpr] at hr
    simp only [okExpr] at he
    rcases hs : resolveInline env n sel sc with ⟨⟨selector, sc1⟩⟩ | ⟨m⟩ | _ <;> rw [hs] at hr <;> simp only [] at hr
    · have hst := ((inv_all hmax env n).resolveInline sel sc).step_of_ok hs
      have hl1 : LocOk env E sc1 := LocOk.congr hst.localArgs hl
      have hpl := Nat.mul_le_mul_right (Kb M E) hst.placeables
      have key : Acc M E M w sc1 w' sc' := by
        cases selector with
        | str b => exact select_tail_out IH vs w sc1 _ w' sc' he.2 hl1 hr
        | num b => exact select_tail_out IH vs w sc1 _ w' sc' he.2 hl1 hr
        | custom t => exact IH.writeDefault _ _ _ _ _ he.2 hl1 hr
        | none => exact IH.writeDefault _ _ _ _ _ he.2 hl1 hr
        | error => exact IH.writeDefault _ _ _ _ _ he.2 hl1 hr
      unfold Acc at *; omega
    · cases hr
    · cases hr

omit IH in
theorem restore_ok {r : RR (Bytes × Scope)} {outer : Option ArgList} {w' : Bytes} {sc' : Scope}
    (h : (match r with
      | .ok (w1, sc3) => (.ok (w1, { sc3 with localArgs := outer }) : RR (Bytes × Scope))
      | .panic m => .panic m
      | .fuel => .fuel) = .ok (w', sc')) : ∃ sc3, r = .ok (w', sc3) ∧ sc'.placeables = sc3.placeables := by
  rcases r with ⟨⟨w1, sc3⟩⟩ | ⟨m⟩ | _
  · simp only [] at h; cases h; exact ⟨sc3, rfl, rfl⟩
  · cases h
  · cases h

omit IH in
theorem writeRefError_out (w : Bytes) (sc : Scope) (e : Inline Bytes) (w' : Bytes) (sc' : Scope)
    (he : tokLen e ≤ M) (hr : writeRefError w sc e = .ok (w', sc')) : Acc M E M w sc w' sc' := by
  unfold writeRefError at hr
  split at hr
  · cases hr
  · cases hr
    show (w ++ braced (inlineWriteError e)).length + sc.placeables * Kb M E ≤ w.length + M + sc.placeables * Kb M E
    unfold tokLen at he; rw [List.length_append]; omega

include hmax hReach hArgs hFn in
theorem writeInline_out (e : Inline Bytes) (w : Bytes) (sc : Scope) (w' : Bytes) (sc' : Scope)
    (he : okInline env M E e) (hl : LocOk env E sc) (hr : writeInline env (n + 1) e w sc = .ok (w', sc')) :
    Acc M E (M + E) w sc w' sc' := by
  have weaken : Acc M E M w sc w' sc' → Acc M E (M + E) w sc w' sc' := by
    intro h; unfold Acc at *; omega
  cases e with
  | str v =>
    simp only [writeInline] at hr; cases hr
    simp only [okInline] at he
    unfold Acc; rw [List.length_append]; omega
  | num v =>
    simp only [writeInline] at hr; cases hr
    simp only [okInline] at he
    unfold Acc; rw [List.length_append]; omega
  | msg id attr =>
    simp only [okInline] at he
    simp only [writeInline] at hr
    apply weaken
    cases hm : env.msg id with
    | none => rw [hm] at hr; exact writeRefError_out _ _ _ _ _ he hr
    | some m =>
      rw [hm] at hr
      cases attr with
      | some a =>
        simp only [] at hr
        cases hp : findAttr m.attributes a with
        | none => rw [hp] at hr; exact writeRefError_out _ _ _ _ _ he hr
        | some p =>
          rw [hp] at hr
          exact IH.track _ _ _ _ _ _ (hReach p (Or.inl ⟨id, m, hm, Or.inr ⟨a, hp⟩⟩)) he hl hr
      | none =>
        simp only [] at hr
        cases hp : m.value with
        | none =>
          rw [hp] at hr; simp only [] at hr; cases hr
          show (w ++ braced (inlineWriteError (Inline.msg id none))).length + sc.placeables * Kb M E ≤
            w.length + M + sc.placeables * Kb M E
          unfold tokLen at he; rw [List.length_append]; omega
        | some p =>
          rw [hp] at hr
          exact IH.track _ _ _ _ _ _ (hReach p (Or.inl ⟨id, m, hm, Or.inl hp⟩)) he hl hr
  | term id attr args =>
    simp only [writeInline] at hr
    apply weaken
    have htok : tokLen (.term id attr args) ≤ M := by
      cases args with
      | none => simpa only [okInline] using he
      | some pn => obtain ⟨p, nm⟩ := pn; simp only [okInline] at he; exact he.1
    have hlit : ∀ p nm, args = some (p, nm) → namedLit env E nm := by
      intro p nm h; subst h; simp only [okInline] at he; exact he.2.2.2
    rcases hg : getArguments env n args sc with ⟨⟨⟨rp, named⟩, sc1⟩⟩ | ⟨m⟩ | _ <;> rw [hg] at hr <;> simp only [] at hr
    · have hst := ((inv_all hmax env n).getArguments args sc).step_of_ok hg
      have hpl := Nat.mul_le_mul_right (Kb M E) hst.placeables
      have hsmall := getArguments_named_small env E n args sc sc1 rp named hg hlit
      have hl2 : LocOk env E { sc1 with localArgs := some named } := by
        intro l hl' k v hk
        have : l = named := by cases hl'; rfl
        subst this; exact hsmall k v hk
      obtain ⟨sc3, hr3, hpl3⟩ := restore_ok hr
      have key : Acc M E M w { sc1 with localArgs := some named } w' sc3 := by
        cases ht : env.term id with
        | none => rw [ht] at hr3; exact writeRefError_out _ _ _ _ _ htok hr3
        | some t =>
          rw [ht] at hr3
          cases attr with
          | none =>
            exact IH.track _ _ _ _ _ _ (hReach _ (Or.inr ⟨id, t, ht, Or.inl rfl⟩)) htok hl2 hr3
          | some a =>
            simp only [] at hr3
            cases hp : findAttr t.attributes a with
            | none => rw [hp] at hr3; exact writeRefError_out _ _ _ _ _ htok hr3
            | some p =>
              rw [hp] at hr3
              exact IH.track _ _ _ _ _ _ (hReach p (Or.inr ⟨id, t, ht, Or.inr ⟨a, hp⟩⟩)) htok hl2 hr3
      unfold Acc at *
      have e1 : ({ sc1 with localArgs := some named } : Scope).placeables = sc1.placeables := rfl
      rw [e1] at key; rw [hpl3]
      omega
    · cases hr
    · cases hr
  | fn id pos named =>
    simp only [okInline] at he
    simp only [writeInline] at hr
    rcases hg : getArguments env n (some (pos, named)) sc with ⟨⟨⟨rp, rn⟩, sc1⟩⟩ | ⟨m⟩ | _ <;> rw [hg] at hr <;>
      simp only [] at hr
    · have hst := ((inv_all hmax env n).getArguments _ sc).step_of_ok hg
      have hpl := Nat.mul_le_mul_right (Kb M E) hst.placeables
      cases hf : env.fn id with
      | none =>
        rw [hf] at hr
        have := writeRefError_out (M := M) (E := E) _ _ _ _ _ he.1 hr
        unfold Acc at *; omega
      | some f =>
        rw [hf] at hr; simp only [] at hr
        have hE := hFn id f rp rn hf
        have htk := he.1
        unfold tokLen at htk; rw [braced_length] at htk
        unfold Small at hE
        split at hr <;> cases hr <;> unfold Acc <;> rw [List.length_append] <;> omega
    · cases hr
    · cases hr
  | var id =>
    simp only [okInline] at he
    simp only [writeInline] at hr
    split at hr
    · rename_i v hv
      cases hr
      have hE : Small env E v := by
        cases hla : sc.localArgs with
        | some l => rw [hla] at hv; exact hl l hla id v hv
        | none => rw [hla] at hv; exact hArgs id v hv
      unfold Small at hE
      unfold Acc; rw [List.length_append]; omega
    · cases hr
      unfold tokLen at he
      unfold Acc; rw [List.length_append]
      have : (if sc.localArgs.isNone = true then sc.addError (RErr.reference (RefKind.variable id)) else sc).placeables =
          sc.placeables := by split <;> rfl
      rw [this]; omega
  | placeable e =>
    simp only [okInline] at he
    simp only [writeInline] at hr
    exact IH.writeExpr _ _ _ _ _ he hl hr

include hmax in
theorem writeElems_out (whole : Pattern Bytes) (len : Nat) (els : List (PatElem Bytes)) (w : Bytes) (sc : Scope)
    (w' : Bytes) (sc' : Scope) (hp : okElems env M E els) (hl : LocOk env E sc)
    (hr : writeElems env (n + 1) whole len els w sc = .ok (w', sc')) :
    Acc M E (textBytes env els) w sc w' sc' := by
  cases els with
  | nil => simp only [writeElems] at hr; cases hr; unfold Acc; omega
  | cons el rest =>
    simp only [okElems] at hp
    cases el with
    | text v =>
      simp only [writeElems] at hr
      split at hr
      · cases hr; unfold Acc; omega
      · have := IH.writeElems _ _ _ _ _ _ _ hp.2 hl hr
        unfold Acc at *
        simp only [textBytes]
        rw [List.length_append] at this
        cases ht : env.transform <;> simp only [ht] at this ⊢ <;> omega
    | placeable e =>
      simp only [okElem] at hp
      simp only [writeElems] at hr
      simp only [textBytes]
      split at hr
      · cases hr; unfold Acc; omega
      split at hr
      · cases hr
      split at hr
      · cases hr
        unfold Acc
        show w.length + sc.placeables * Kb M E ≤ w.length + textBytes env rest + (sc.placeables + 1) * Kb M E
        rw [Nat.add_mul]; omega
      · generalize hsc2 : (if ({ sc with placeables := sc.placeables + 1 } : Scope).travelled.isEmpty = true
          then { sc with placeables := sc.placeables + 1, travelled := [whole] }
          else { sc with placeables := sc.placeables + 1 }) = sc2 at hr
        have hpl2 : sc2.placeables = sc.placeables + 1 := by rw [← hsc2]; split <;> rfl
        have hla2 : sc2.localArgs = sc.localArgs := by rw [← hsc2]; split <;> rfl
        rcases he : writeExpr env n e (if (env.useIsolating && decide (len > 1) && isolatable e) = true then w ++ fsi else w) sc2
          with ⟨⟨w2, sc3⟩⟩ | ⟨m⟩ | _ <;> rw [he] at hr <;> simp only [] at hr
        · have hst := ((inv_all hmax env n).writeExpr e _ sc2).step_of_ok he
          have hl2 : LocOk env E sc2 := LocOk.congr hla2 hl
          have hl3 : LocOk env E sc3 := LocOk.congr hst.localArgs hl2
          have h1 := IH.writeExpr _ _ _ _ _ hp.1.1 hl2 he
          have h2 := IH.writeElems _ _ _ _ _ _ _ hp.2 hl3 hr
          have a1 := ite_append_length (env.useIsolating && decide (len > 1) && isolatable e) w fsi
          have a2 := ite_append_length sc3.dirty w2 (braced (exprWriteError e))
          have a3 := ite_append_length (env.useIsolating && decide (len > 1) && isolatable e)
            (if sc3.dirty = true then w2 ++ braced (exprWriteError e) else w2) pdi
          have f1 : fsi.length = 3 := rfl
          have f2 : pdi.length = 3 := rfl
          have hb := hp.1.2
          unfold Acc at *
          rw [hpl2, Nat.add_mul] at h1
          have hK : Kb M E = 2 * M + E + 6 := rfl
          omega
        · cases hr
        · cases hr

end step

/-- **the accounting invariant holds at every fuel** -/
theorem out_all (hmax : Generated.maxPlaceables ≤ 254) (env : Env) (M E : Nat)
    (hReach : ∀ p, Reach env p → okPat env M E p)
    (hArgs : ∀ k v, env.args.bind (·.get k) = some v → Small env E v)
    (hFn : ∀ id f rp rn, env.fn id = some f → Small env E (f rp rn)) : ∀ n, Out env M E n := by
  intro n
  induction n with
  | zero => exact out_zero env M E
  | succ n IH =>
    exact ⟨writeElems_out hmax IH, writePattern_out IH, track_out IH, writeExpr_out hmax IH, writeDefault_out IH,
      writeInline_out hmax hReach hArgs hFn IH⟩

/-- the explicit output bound -/
def outBound (M E : Nat) : Nat := M + (Generated.maxPlaceables + 1) * Kb M E

theorem locOk_init (env : Env) (E : Nat) : LocOk env E ({} : Scope) := by
  intro l h; cases h

theorem writePattern_init_bound (hmax : Generated.maxPlaceables ≤ 254) (env : Env) (M E : Nat)
    (hReach : ∀ p, Reach env p → okPat env M E p)
    (hArgs : ∀ k v, env.args.bind (·.get k) = some v → Small env E v)
    (hFn : ∀ id f rp rn, env.fn id = some f → Small env E (f rp rn))
    (p : Pattern Bytes) (hp : okPat env M E p) (fuel : Nat) (w : Bytes) (sc : Scope)
    (h : writePattern env fuel p [] {} = .ok (w, sc)) : w.length ≤ outBound M E := by
  have hacc := (out_all hmax env M E hReach hArgs hFn fuel).writePattern p [] {} w sc hp.2 (locOk_init env E) h
  have hst := ((inv_all hmax env fuel).writePattern p [] {}).step_of_ok h
  have hpl : sc.placeables ≤ Generated.maxPlaceables + 1 := by
    rcases (final_scope hst).1 with h | ⟨h, _⟩ <;> omega
  have hm := Nat.mul_le_mul_right (Kb M E) hpl
  have := hp.1
  unfold Acc at hacc
  have e0 : ({} : Scope).placeables = 0 := rfl
  have e1 : ([] : Bytes).length = 0 := rfl
  rw [e0, e1, Nat.zero_mul] at hacc
  unfold outBound; omega

theorem resolvePattern_init_bound (hmax : Generated.maxPlaceables ≤ 254) (env : Env) (M E : Nat)
    (hReach : ∀ p, Reach env p → okPat env M E p)
    (hArgs : ∀ k v, env.args.bind (·.get k) = some v → Small env E v)
    (hFn : ∀ id f rp rn, env.fn id = some f → Small env E (f rp rn))
    (p : Pattern Bytes) (hp : okPat env M E p) (fuel : Nat) (w : Bytes) (sc : Scope)
    (h : resolvePattern env fuel p {} = .ok (w, sc)) : w.length ≤ outBound M E := by
  unfold resolvePattern at h
  split at h
  · cases h
    have := hp.1
    simp only [textBytes] at this
    unfold outBound
    cases ht : env.transform <;> simp only [ht] at this ⊢ <;> omega
  · exact writePattern_init_bound hmax env M E hReach hArgs hFn p hp fuel w sc h

end FluentProofs.Resolver
