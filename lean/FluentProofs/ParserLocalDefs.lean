import FluentProofs.ParserLines
/-!
# Locality of the parser (C03, containment sentence): shared definitions

Three lemma families are built on these definitions (one joint induction over all parser functions each):

* `ParserLocalShift*.lean` — **shift**: if `s₂` is `s₁` with `d` bytes put in front (`Shift d s₁ s₂`), every parser
  function started at `p + d` on `s₂` does exactly what it does at `p` on `s₁`, with every position of the
  result moved by `d` (and more fuel does not change a result that is not `fuel`).
* `ParserLocalBar*.lean` — **barrier**: if position `n` of `s` is a line start that holds an entry head
  (`Bar s n E`: a letter or `-` at `n`, then only identifier bytes and spaces up to an `=` at `E`), no parser
  function started before `n` gets past the `=`: successful entry-level runs end at or before `n`, failing runs
  report a cursor `≤ E`; hence the entry loop, started anywhere `≤ n`, arrives at `n` exactly.
* `ParserLocalPre*.lean` — **prefix**: if `s₁` ends with a line feed at `n = s₁.size` and `s₂` agrees with `s₁` below
  `n` and has the end of input or a `stopByte` at `n` (`Pre n s₁ s₂`), every successful entry-level run on `s₁`
  is reproduced on `s₂`.
-/
namespace FluentProofs.Parser
open FluentModel.Syntax

/-! ## moving positions by `d` -/

/-- a byte range moved by `d` -/
def shSpan (d : Nat) (sp : Span) : Span := ⟨sp.start + d, sp.stop + d⟩

/-- error kinds carry spans, too -/
def shEK (d : Nat) : EK → EK
  | .expectedMessageField id => .expectedMessageField (shSpan d id)
  | .expectedTermField id => .expectedTermField (shSpan d id)
  | .duplicatedNamedArgument nm => .duplicatedNamedArgument (shSpan d nm)
  | .invalidUnicodeEscapeSequence seq => .invalidUnicodeEscapeSequence (shSpan d seq)
  | .expectedToken b => .expectedToken b
  | .expectedCharRange r => .expectedCharRange r
  | .forbiddenCallee => .forbiddenCallee
  | .missingDefaultVariant => .missingDefaultVariant
  | .missingValue => .missingValue
  | .multipleDefaultVariants => .multipleDefaultVariants
  | .messageReferenceAsSelector => .messageReferenceAsSelector
  | .termReferenceAsSelector => .termReferenceAsSelector
  | .messageAttributeAsSelector => .messageAttributeAsSelector
  | .termAttributeAsPlaceable => .termAttributeAsPlaceable
  | .unterminatedStringLiteral => .unterminatedStringLiteral
  | .positionalArgumentFollowsNamed => .positionalArgumentFollowsNamed
  | .unknownEscapeSequence b => .unknownEscapeSequence b
  | .unbalancedClosingBrace => .unbalancedClosingBrace
  | .expectedInlineExpression => .expectedInlineExpression
  | .expectedSimpleExpressionAsSelector => .expectedSimpleExpressionAsSelector
  | .expectedLiteral => .expectedLiteral

/-- a parser error with every position moved by `d` -/
def shErr (d : Nat) (e : PErr) : PErr :=
  ⟨e.posStart + d, e.posEnd + d, e.slice.map (fun ab => (ab.1 + d, ab.2 + d)), shEK d e.kind⟩

/-- an outcome with the value mapped by `f` and the cursor / error moved by `d` -/
def shR {α β : Type} (f : α → β) (d : Nat) : R α → R β
  | .ok a p => .ok (f a) (p + d)
  | .err e p => .err (shErr d e) (p + d)
  | .panic m => .panic m
  | .fuel => .fuel

@[simp] theorem shR_ok {α β : Type} (f : α → β) (d : Nat) (a : α) (p : Nat) : shR f d (.ok a p) = .ok (f a) (p + d) := rfl
@[simp] theorem shR_err {α β : Type} (f : α → β) (d : Nat) (e : PErr) (p : Nat) :
    shR f d (.err e p : R α) = .err (shErr d e) (p + d) := rfl
@[simp] theorem shR_panic {α β : Type} (f : α → β) (d : Nat) (m : String) : shR f d (.panic m : R α) = .panic m := rfl
@[simp] theorem shR_fuel {α β : Type} (f : α → β) (d : Nat) : shR f d (.fuel : R α) = .fuel := rfl

/-- a pattern placeholder moved by `d` (`indent` is a length, not a position) -/
def shPh (d : Nat) : Placeholder → Placeholder
  | .placeable e => .placeable (e.mapS (shSpan d))
  | .text start stop indent role => .text (start + d) (stop + d) indent role

/-- the state of the pattern loop moved by `d` (indices into `elements` and indents are unchanged) -/
def shSt (d : Nat) (st : PatState) : PatState := { st with elements := st.elements.map (shPh d) }

/-- an entry moved by `d` -/
abbrev shEntry (d : Nat) : Entry Span → Entry Span := Entry.mapS (shSpan d)

/-- `s₂` is `s₁` with `d` bytes in front.  `bnd`: the seam is a char boundary of `s₂` (automatic for `d = 0`;
for `d > 0` it holds when `s₁` is empty or starts with an ASCII byte); `nl`: the `d` bytes end with a line feed. -/
structure Shift (d : Nat) (s₁ s₂ : Src) : Prop where
  get : ∀ i, s₂[i + d]? = s₁[i]?
  size : s₂.size = s₁.size + d
  bnd : isBoundary s₂ d = true
  nl : d = 0 ∨ s₂[d - 1]? = some 10

/-! ## barrier: an entry head at a line start -/

/-- position `n` of `s` is a line start that holds an entry head: a letter or `-` at `n`, then only identifier
bytes (`[a-zA-Z0-9_-]`) and spaces, up to an `=` at `E`.  (`identifier blank_inline* "="` and
`"-" identifier blank_inline* "="` are of this form.) -/
structure Bar (s : Src) (n E : Nat) : Prop where
  ls : LS s n
  lt : n < E
  real : ∃ b, s[n]? = some b ∧ isReal b = true
  head : ∀ i, n ≤ i → i < E → ∃ b, s[i]? = some b ∧ (isIdentByte b = true ∨ b = 32)
  eq : s[E]? = some 61

/-! ## prefix: `s₂` continues `s₁` after its final line feed with end of input or a `stopByte` -/

/-- a byte that, at a line start right after a complete entry, ends that entry exactly as the end of input does -/
def stopByte (b : UInt8) : Bool :=
  b != 32 && b != 10 && b != 13 && b != 35 && b != 46 && b != 123 && (b &&& 0xC0) != 0x80

theorem stopByte_of_isReal : ∀ b : UInt8, isReal b = true → stopByte b = true := by
  apply forall_uint8; decide +kernel

/-- `s₁` has size `n` and (unless empty) ends with a line feed; `s₂` agrees with `s₁` below `n` and has the end of
input or a `stopByte` (anything but a space, LF, CR, `#`, `.`, `{` or a UTF-8 continuation byte; in particular a
letter or `-`) at `n`. -/
structure Pre (n : Nat) (s₁ s₂ : Src) : Prop where
  size : s₁.size = n
  get : ∀ i, i < n → s₂[i]? = s₁[i]?
  ls : LS s₁ n
  stop : s₂.size = n ∨ ∃ b, s₂[n]? = some b ∧ stopByte b = true

/-! ## the pending comment of the full parser's entry loop -/

/-- what the end of `parseLoop` does with a pending comment -/
def flushC (lc : Option (List Span)) : List (Entry Span) :=
  match lc with
  | some c => [.comment c]
  | none => []

/-- what the first iteration of `parseLoop` does with a pending comment `c` when the entry it parses is not a
comment: attach it to the message / term (fewer than 2 blank lines in between), else put it in front -/
def attachC (c : List Span) (cnt : Nat) : List (Entry Span) → List (Entry Span)
  | .message m :: rest =>
    if cnt < 2 then .message { m with comment := some c } :: rest else .comment c :: .message m :: rest
  | .term t :: rest =>
    if cnt < 2 then .term { t with comment := some c } :: rest else .comment c :: .term t :: rest
  | l => .comment c :: l

/-- `attachC` for an optional pending comment -/
def attachO (lc : Option (List Span)) (cnt : Nat) (l : List (Entry Span)) : List (Entry Span) :=
  match lc with
  | some c => attachC c cnt l
  | none => l

end FluentProofs.Parser
