import FluentProofs.CacheLive
/-!
# Lemmas about the cache LTS: the task-level operations the driver runs (`pollTask`, `opRun`) are
runs of fine-grained labels; fuel sufficiency; laziness; sync = async without `Pending`
-/
namespace FluentProofs.Cache
open FluentModel.Cache

variable {α : Type}

/-! ### what one `poll_next` does to the consumers' request fields and to the cache length -/

theorem pollNext_active (s : St α) (c t : Task) :
    (((pollNext s c).1).cons t).active = (s.cons t).active ∧
    (((pollNext s c).1).cons t).want = (s.cons t).want := by
  have hc := pollNext_cases s c
  generalize pollNext s c = r at hc
  by_cases ht : t = c
  · subst ht; cases hc <;> simp [wakeAll_cons]
  · cases hc <;> simp [ht, wakeAll_cons]

/-- a delivered item moves the cursor by exactly one, and is the cached item at the old cursor -/
theorem pollNext_some {s s' : St α} {c : Task} {it : α} (h : pollNext s c = (s', .ready (some it))) :
    (s'.cons c).curr = (s.cons c).curr + 1 ∧ s'.items[(s.cons c).curr]? = some it := by
  have hc := pollNext_cases s c
  rw [h] at hc
  generalize hr : (s', PollRes.ready (some it)) = r at hc
  cases hc with
  | cached hlt =>
    simp only [Prod.mk.injEq, PollRes.ready.injEq] at hr
    obtain ⟨rfl, hit⟩ := hr
    simp [← hit]
  | pend src' _ _ => simp at hr
  | item src' it' hl hp =>
    simp only [Prod.mk.injEq, PollRes.ready.injEq, Option.some.injEq] at hr
    obtain ⟨rfl, rfl⟩ := hr
    simp [hl]
  | ended src' _ _ => simp at hr
  | over _ => simp at hr

/-- Laziness, one step: the cache grows only when the polled stream stands exactly at the end of the
cache, then by exactly one item, which is handed to that stream; the source is polled in no other
situation. -/
theorem pollNext_lazy (s : St α) (c : Task) :
    ((s.cons c).curr ≠ s.items.length →
      (pollNext s c).1.items = s.items ∧ (pollNext s c).1.src = s.src) ∧
    ((s.cons c).curr = s.items.length →
      (pollNext s c).1.src.polls = s.src.polls + 1 ∧
      ((pollNext s c).1.items = s.items ∨
        ((pollNext s c).1.items.length = s.items.length + 1 ∧
         (((pollNext s c).1).cons c).curr = (pollNext s c).1.items.length))) := by
  have hc := pollNext_cases s c
  generalize pollNext s c = r at hc
  cases hc with
  | cached h => exact ⟨fun _ => ⟨rfl, rfl⟩, fun e => by omega⟩
  | over h => exact ⟨fun _ => ⟨rfl, rfl⟩, fun e => by omega⟩
  | pend src' h hp =>
    obtain ⟨_, rfl⟩ := poll_pending hp
    exact ⟨fun e => absurd h e, fun _ => ⟨rfl, Or.inl rfl⟩⟩
  | item src' it h hp =>
    obtain ⟨_, n, r, hr, rfl⟩ := poll_ready_some hp
    refine ⟨fun e => absurd h e, fun _ => ⟨by simp, Or.inr ⟨by simp, by simp [h]⟩⟩⟩
  | ended src' h hp =>
    obtain ⟨_, _, _, rfl⟩ := poll_ready_none hp
    exact ⟨fun e => absurd h e, fun _ => ⟨by simp, Or.inl (by simp)⟩⟩

/-! ### task-level operations as label runs -/

theorem run_append (s : St α) (l₁ l₂ : List Label) : run s (l₁ ++ l₂) = run (run s l₁) l₂ := by
  simp [run, List.foldl_append]

theorem step_poll_false {s : St α} {c : Task} (h : (s.cons c).active = true) :
    step s (.poll c false) = (pollNext s c).1 := by
  simp [step, h]

theorem step_poll_true {s : St α} {c : Task} (h : (s.cons c).active = true) :
    step s (.poll c true) = (pollNext (clearWoken s c) c).1 := by
  simp [step, h]

/-- labels a task poll of `c` is made of -/
def OwnLabel (c : Task) (l : Label) : Prop := l = .poll c false ∨ l = .finish c

theorem pollLoop_run (fuel : Nat) (s : St α) (c : Task) (h : (s.cons c).active = true) :
    ∃ rest, (∀ l ∈ rest, OwnLabel c l) ∧ (pollLoop (fuel + 1) s c).1 = run (pollNext s c).1 rest := by
  induction fuel generalizing s with
  | zero =>
    unfold pollLoop
    split
    · rename_i s' hq; exact ⟨[], by simp, by simp [hq, run]⟩
    · rename_i s' hq; exact ⟨[.finish c], by simp [OwnLabel], by simp [hq, run, step]⟩
    · rename_i s' it hq
      split
      · exact ⟨[.finish c], by simp [OwnLabel], by simp [hq, run, step]⟩
      · exact ⟨[], by simp, by simp [hq, run, pollLoop]⟩
  | succ fuel ih =>
    unfold pollLoop
    split
    · rename_i s' hq; exact ⟨[], by simp, by simp [hq, run]⟩
    · rename_i s' hq; exact ⟨[.finish c], by simp [OwnLabel], by simp [hq, run, step]⟩
    · rename_i s' it hq
      split
      · exact ⟨[.finish c], by simp [OwnLabel], by simp [hq, run, step]⟩
      · have ha : (s'.cons c).active = true := by
          have := (pollNext_active s c c).1; rw [hq] at this; simpa [h] using this
        obtain ⟨rest, hr1, hr2⟩ := ih s' ha
        refine ⟨.poll c false :: rest, ?_, ?_⟩
        · intro l hl
          rcases List.mem_cons.1 hl with rfl | hl
          · exact Or.inl rfl
          · exact hr1 l hl
        · rw [hr2, hq]
          simp [run, List.foldl, step_poll_false ha]

/-- one task poll = the fresh `poll_next` followed by further `poll_next`s of the same stream and
possibly its `finish` -/
theorem pollTask_run (s : St α) (c : Task) :
    ∃ ls, (∀ l ∈ ls, l = .poll c true ∨ OwnLabel c l) ∧ (pollTask s c).1 = run s ls := by
  unfold pollTask
  split
  · rename_i h
    have h' : ((clearWoken s c).cons c).active = true := by simpa [clearWoken] using h
    obtain ⟨rest, hr1, hr2⟩ := pollLoop_run (s.cons c).want (clearWoken s c) c h'
    refine ⟨.poll c true :: rest, ?_, ?_⟩
    · intro l hl
      rcases List.mem_cons.1 hl with rfl | hl
      · exact Or.inl rfl
      · exact Or.inr (hr1 l hl)
    · rw [hr2]; simp [run, List.foldl, step_poll_true h]
  · exact ⟨[], by simp, rfl⟩

theorem opStep_run (s : St α) (op : Op) : ∃ ls, opStep s op = run s ls := by
  cases op with
  | start c d => exact ⟨[.start c d], rfl⟩
  | poll c => obtain ⟨ls, _, h⟩ := pollTask_run s c; exact ⟨ls, h⟩
  | fire => exact ⟨[.fire], rfl⟩

/-- every state the driver can reach with task-level operations is reached by a sequence of
fine-grained labels: all invariants proved for `run` hold for `opRun` -/
theorem opRun_run (s : St α) (ops : List Op) : ∃ ls, opRun s ops = run s ls := by
  induction ops generalizing s with
  | nil => exact ⟨[], rfl⟩
  | cons op r ih =>
    obtain ⟨l₁, h₁⟩ := opStep_run s op
    obtain ⟨l₂, h₂⟩ := ih (opStep s op)
    exact ⟨l₁ ++ l₂, by rw [run_append, ← h₁, ← h₂]; rfl⟩

/-- the waker assignment is the same after any task-level operations -/
theorem opRun_grp (s : St α) (ops : List Op) : (opRun s ops).grp = s.grp := by
  obtain ⟨ls, h⟩ := opRun_run s ops
  rw [h, run_grp]

theorem pollTask_grp (s : St α) (c : Task) : (pollTask s c).1.grp = s.grp := by
  obtain ⟨ls, _, h⟩ := pollTask_run s c
  rw [h, run_grp]

/-! ### fuel -/

theorem pollLoop_fuel (fuel : Nat) (s : St α) (c : Task)
    (h1 : 1 ≤ fuel) (h2 : (s.cons c).want < fuel + (s.cons c).curr) :
    (pollLoop fuel s c).2 ≠ .outOfFuel := by
  induction fuel generalizing s with
  | zero => omega
  | succ fuel ih =>
    unfold pollLoop
    split
    · simp
    · simp
    · rename_i s' it hq
      split
      · simp
      · rename_i hlt
        have hc := (pollNext_some hq).1
        have hw := (pollNext_active s c c).2; rw [hq] at hw
        simp only at hw
        apply ih s' <;> omega

theorem pollTask_fuel (s : St α) (c : Task) : (pollTask s c).2 ≠ .outOfFuel := by
  unfold pollTask
  split
  · apply pollLoop_fuel
    · omega
    · simp [clearWoken]; omega
  · simp


/-! ### the iterator variant is the stream variant without `Pending` -/

/-- the source never answers `Pending` and nobody is registered -/
def NoPend (s : St α) : Prop := (∀ p ∈ s.src.rest, p.1 = 0) ∧ s.src.endNeed = 0 ∧ s.pending = []

theorem poll_eq_next (src : Source α) (w : Task) (h0 : ∀ p ∈ src.rest, p.1 = 0) (he : src.endNeed = 0) :
    src.poll w = (src.next.1, .ready src.next.2) := by
  unfold Source.poll Source.next Source.need
  cases hr : src.rest with
  | nil => simp [he]
  | cons p r =>
    obtain ⟨n, it⟩ := p
    have : n = 0 := h0 (n, it) (by simp [hr])
    subst this
    simp

theorem next_rest (src : Source α) : (∀ p ∈ src.next.1.rest, p ∈ src.rest) ∧ src.next.1.endNeed = src.endNeed := by
  unfold Source.next
  cases hr : src.rest with
  | nil => simp
  | cons p r =>
    obtain ⟨n, it⟩ := p
    exact ⟨fun q hq => List.mem_cons_of_mem _ hq, rfl⟩

theorem pollNext_eq_syncNext {s : St α} (c : Task) (hs : NoPend s) :
    pollNext s c = ((syncNext s c).1, .ready (syncNext s c).2) ∧ NoPend (syncNext s c).1 := by
  obtain ⟨h0, he, hp⟩ := hs
  unfold pollNext syncNext pollNextItem
  simp only [poll_eq_next s.src (s.grp c) h0 he]
  have hn := next_rest s.src
  split
  · exact ⟨rfl, h0, he, hp⟩
  · split
    · cases hnx : s.src.next with
      | mk src' v =>
        rw [hnx] at hn
        cases v with
        | some it =>
          simp only [hp, St.wakeAll, List.foldl]
          refine ⟨trivial, ?_, ?_, rfl⟩
          · intro p hp'; exact h0 p (hn.1 p hp')
          · simpa [he] using hn.2
        | none =>
          simp only [hp, St.wakeAll, List.foldl]
          refine ⟨?_, ?_, ?_, ?_⟩
          · cases s; simp_all
          · intro p hp'; exact h0 p (hn.1 p hp')
          · simpa [he] using hn.2
          · simp
    · exact ⟨rfl, h0, he, hp⟩

theorem noPend_finishReq {s : St α} (c : Task) (hs : NoPend s) : NoPend (finishReq s c) := by
  unfold finishReq; split <;> simpa [NoPend] using hs

theorem noPend_startReq {s : St α} (c : Task) (d : Nat) (hs : NoPend s) : NoPend (startReq s c d) := by
  unfold startReq; split <;> simpa [NoPend] using hs

theorem noPend_clearWoken {s : St α} (c : Task) (hs : NoPend s) : NoPend (clearWoken s c) := by
  simpa [NoPend, clearWoken] using hs

theorem syncLoop_eq_pollLoop (fuel : Nat) {s : St α} (c : Task) (hs : NoPend s) :
    syncLoop fuel s c = pollLoop fuel s c ∧ NoPend (syncLoop fuel s c).1 := by
  induction fuel generalizing s with
  | zero => exact ⟨rfl, hs⟩
  | succ fuel ih =>
    obtain ⟨h1, h2⟩ := pollNext_eq_syncNext c hs
    unfold syncLoop pollLoop
    rw [h1]
    cases hq : syncNext s c with
    | mk s' v =>
      rw [hq] at h2
      cases v with
      | none => exact ⟨rfl, noPend_finishReq c h2⟩
      | some it =>
        simp only
        split
        · exact ⟨rfl, noPend_finishReq c h2⟩
        · exact ih h2

theorem syncTask_eq_pollTask {s : St α} (c : Task) (hs : NoPend s) :
    syncTask s c = pollTask s c ∧ NoPend (syncTask s c).1 := by
  unfold syncTask pollTask
  split
  · exact syncLoop_eq_pollLoop _ c (noPend_clearWoken c hs)
  · exact ⟨rfl, hs⟩

theorem syncOpStep_eq_opStep {s : St α} (op : Op) (hs : NoPend s) :
    syncOpStep s op = opStep s op ∧ NoPend (syncOpStep s op) := by
  cases op with
  | start c d => exact ⟨rfl, noPend_startReq c d hs⟩
  | poll c =>
    have := syncTask_eq_pollTask c hs
    exact ⟨by simp [syncOpStep, opStep, this.1], this.2⟩
  | fire =>
    refine ⟨?_, hs⟩
    have hn : s.src.need = 0 := by
      unfold Source.need
      cases hr : s.src.rest with
      | nil => simpa [hr] using hs.2.1
      | cons p r => obtain ⟨n, it⟩ := p; exact hs.1 (n, it) (by simp [hr])
    simp [syncOpStep, opStep, fireSrc, Source.fire, hn]


/-! ### laziness at task level: the cache never grows beyond the deepest request -/

theorem pollNext_other (s : St α) (c t : Task) (ht : t ≠ c) :
    (((pollNext s c).1).cons t).curr = (s.cons t).curr := by
  have hc := pollNext_cases s c
  generalize pollNext s c = r at hc
  cases hc <;> simp [ht, wakeAll_cons]

theorem pollNext_self (s : St α) (c : Task) :
    match (pollNext s c).2 with
    | .pending => (((pollNext s c).1).cons c).curr = (s.cons c).curr
    | .ready _ => (((pollNext s c).1).cons c).waiting = false := by
  have hc := pollNext_cases s c
  generalize pollNext s c = r at hc
  cases hc <;> simp

/-- every request in flight still needs a bundle and is no deeper than `D`; the cache is no longer
than `D` -/
def OpInv (D : Nat) (s : St α) : Prop :=
  (∀ c, (s.cons c).active = true →
    (s.cons c).curr < max (s.cons c).want 1 ∧ max (s.cons c).want 1 ≤ D) ∧ s.items.length ≤ D

theorem opInv_mono {D D' : Nat} {s : St α} (h : OpInv D s) (hd : D ≤ D') : OpInv D' s :=
  ⟨fun c hc => ⟨(h.1 c hc).1, Nat.le_trans (h.1 c hc).2 hd⟩, Nat.le_trans h.2 hd⟩

theorem opInv_finishReq {D : Nat} {s : St α} (c : Task) (hw : (s.cons c).waiting = false)
    (h1 : ∀ t, t ≠ c → (s.cons t).active = true →
      (s.cons t).curr < max (s.cons t).want 1 ∧ max (s.cons t).want 1 ≤ D)
    (h2 : s.items.length ≤ D) : OpInv D (finishReq s c) := by
  unfold finishReq
  rw [if_neg (by simp [hw])]
  refine ⟨?_, h2⟩
  intro t hta
  by_cases ht : t = c
  · subst ht; simp at hta
  · simp only [modCons_cons, ht, if_false] at hta ⊢
    exact h1 t ht hta

@[simp] theorem finishReq_items (s : St α) (c : Task) : (finishReq s c).items = s.items := by
  unfold finishReq; split <;> rfl

/-- the task-level loop keeps `OpInv`, and an answer is the cached item at the request's depth -/
theorem pollLoop_opInv {D : Nat} (fuel : Nat) (s : St α) (c : Task) (h : OpInv D s)
    (ha : (s.cons c).active = true) :
    OpInv D (pollLoop fuel s c).1 ∧
    ∀ it, (pollLoop fuel s c).2 = .done (some it) →
      (pollLoop fuel s c).1.items[max (s.cons c).want 1 - 1]? = some it := by
  induction fuel generalizing s with
  | zero => exact ⟨h, fun it hit => by simp [pollLoop] at hit⟩
  | succ fuel ih =>
    have hself := pollNext_self s c
    have hlazy := pollNext_lazy s c
    have hc := h.1 c ha
    -- the other consumers, and the cache bound, after the poll
    have hoth : ∀ t, t ≠ c → (((pollNext s c).1).cons t).active = true →
        (((pollNext s c).1).cons t).curr < max (((pollNext s c).1).cons t).want 1 ∧
        max (((pollNext s c).1).cons t).want 1 ≤ D := by
      intro t ht hta
      rw [(pollNext_active s c t).1] at hta
      rw [(pollNext_active s c t).2, pollNext_other s c t ht]
      exact h.1 t hta
    have hwant := (pollNext_active s c c).2
    have hitems : (pollNext s c).1.items.length ≤ D := by
      by_cases he : (s.cons c).curr = s.items.length
      · rcases (hlazy.2 he).2 with h1 | ⟨h1, _⟩
        · rw [h1]; exact h.2
        · omega
      · rw [(hlazy.1 he).1]; exact h.2
    unfold pollLoop
    split
    · rename_i s' hq
      rw [hq] at hself hoth hitems hwant
      simp only at hself hoth hitems hwant
      refine ⟨⟨?_, hitems⟩, fun it hit => by simp at hit⟩
      intro t hta
      by_cases ht : t = c
      · subst ht; rw [hself, hwant]; exact hc
      · exact hoth t ht hta
    · rename_i s' hq
      rw [hq] at hself hoth hitems
      exact ⟨opInv_finishReq c hself hoth hitems, fun it hit => by simp at hit⟩
    · rename_i s' it hq
      have hcur := pollNext_some hq
      rw [hq] at hself hoth hitems hwant
      simp only at hself hoth hitems hwant
      split
      · rename_i hle
        refine ⟨opInv_finishReq c hself hoth hitems, ?_⟩
        intro it' hit
        simp only [TaskRes.done.injEq, Option.some.injEq] at hit
        subst hit
        rw [hwant, hcur.1] at hle
        have : max (s.cons c).want 1 - 1 = (s.cons c).curr := by omega
        rw [finishReq_items, this]
        exact hcur.2
      · rename_i hlt
        have ha' : (s'.cons c).active = true := by
          have := (pollNext_active s c c).1; rw [hq] at this; simpa [ha] using this
        have := ih s' (by
          refine ⟨?_, hitems⟩
          intro t hta
          by_cases ht : t = c
          · subst ht; rw [hwant] at hlt ⊢; omega
          · exact hoth t ht hta) ha'
        rw [hwant] at this
        exact this

theorem opInv_clearWoken {D : Nat} {s : St α} (c : Task) (h : OpInv D s) : OpInv D (clearWoken s c) := by
  refine ⟨?_, h.2⟩
  intro t hta
  by_cases ht : t = c
  · subst ht; simp [clearWoken] at hta ⊢; exact h.1 t hta
  · simp [clearWoken, ht] at hta ⊢; exact h.1 t hta

/-- a completed request of depth `want` is answered by the cached item number `want` -/
theorem pollTask_answer {D : Nat} {s : St α} (c : Task) (h : OpInv D s) (it : α)
    (hr : (pollTask s c).2 = .done (some it)) :
    (pollTask s c).1.items[max (s.cons c).want 1 - 1]? = some it := by
  unfold pollTask at hr ⊢
  split
  · rename_i ha
    rw [if_pos ha] at hr
    have := (pollLoop_opInv ((s.cons c).want + 1) _ c (opInv_clearWoken c h)
      (by simpa [clearWoken] using ha)).2 it hr
    simpa [clearWoken] using this
  · rename_i ha
    rw [if_neg ha] at hr
    simp at hr

/-- depth of the request an operation issues (0 if it issues none) -/
def opDepth (s : St α) : Op → Nat
  | .start c d => if (s.cons c).active then 0 else max d 1
  | _ => 0

/-- deepest request issued along a run of task-level operations -/
def deepest : St α → List Op → Nat
  | _, [] => 0
  | s, op :: r => max (opDepth s op) (deepest (opStep s op) r)

theorem opInv_opStep {D : Nat} {s : St α} (op : Op) (h : OpInv D s) :
    OpInv (max D (opDepth s op)) (opStep s op) := by
  cases op with
  | fire =>
    simp only [opStep, opDepth, Nat.max_zero]
    unfold fireSrc
    split
    · rename_i src' t _
      refine ⟨?_, h.2⟩
      intro c hc
      by_cases hct : s.grp c = t
      · simp [hct] at hc ⊢; exact h.1 c hc
      · simp [hct] at hc ⊢; exact h.1 c hc
    · exact h
  | poll c =>
    simp only [opStep, opDepth, Nat.max_zero]
    unfold pollTask
    split
    · rename_i ha
      refine (pollLoop_opInv _ _ c (opInv_clearWoken c h) ?_).1
      simpa [clearWoken] using ha
    · exact h
  | start c d =>
    simp only [opStep, opDepth]
    unfold startReq
    split
    · simpa using h
    · refine ⟨?_, Nat.le_trans h.2 (Nat.le_max_left _ _)⟩
      intro t hta
      by_cases ht : t = c
      · subst ht; simp; omega
      · simp only [modCons_cons, ht, if_false] at hta ⊢
        have := h.1 t hta
        omega

theorem opInv_opRun {D : Nat} {s : St α} (ops : List Op) (h : OpInv D s) :
    OpInv (max D (deepest s ops)) (opRun s ops) := by
  induction ops generalizing s D with
  | nil => simpa [deepest, opRun] using h
  | cons op r ih =>
    have := ih (opInv_opStep op h)
    have e : max (max D (opDepth s op)) (deepest (opStep s op) r) = max D (deepest s (op :: r)) := by
      simp only [deepest]; omega
    rw [e] at this
    exact this

end FluentProofs.Cache
