import FluentProofs.ParserLocalShiftExpr
/-!
# Locality of the parser, SHIFT family, part 3: the pattern loop, and the joint induction

`shspecs_all`: `ShSpecs d s₁ s₂ n` for every `n`; the exported `get*_shift` lemmas of the eight mutually recursive
functions follow.
-/
namespace FluentProofs.Parser
open FluentModel.Syntax

/-! ## one iteration of the pattern loop, with its pieces named -/

/-- replica of the model's local `pre` (indent and cursor of a line-start slice, `none` = `break`) -/
def shPre (s : Src) (st : PatState) (p : Nat) : Option (Nat × Nat) :=
  if st.role == .lineStart then
    let p1 := skipBlankInline s p
    let indent := p1 - p
    match s[p1]? with
    | some b =>
      if indent == 0 then
        if !isEol s p1 then none else some (indent, p1)
      else if !isBytePatternContinuation b then none
      else some (indent, p1)
    | none => none
  else some (0, p)

/-- replica of the cursor after `break` -/
def shPEnd (s : Src) (p : Nat) : Nat :=
  let p1 := skipBlankInline s p
  let indent := p1 - p
  match s[p1]? with
  | some b => if indent == 0 then p1 else if !isBytePatternContinuation b then p else p1
  | none => p1

/-- the role of the text after a slice that ended with `term` -/
def shRole : Termination → TextPos
  | .lineFeed => .lineStart
  | .crlf => .lineStart
  | .placeableStart => .continuation
  | .eof => .continuation

theorem patternLoop_text (s : Src) (n : Nat) (st : PatState) (p : Nat) (hlt : p < s.size)
    (h123 : isCurrentByte s p 123 = false) :
    getPatternLoop s (n + 1) st p =
      (match shPre s st p with
       | none => .ok st (shPEnd s p)
       | some (indent, p1) =>
         match getTextSlice s p1 with
         | .ok (start, stop, nb, term) q =>
           (match st2Of s st p indent start stop nb term with
            | some st2 => getPatternLoop s n { st2 with role := shRole term } q
            | none => .panic "get_pattern: end - 1 underflow or text slice")
         | .err e q => .err e q
         | .panic m => .panic m
         | .fuel => .fuel) := by
  simp only [getPatternLoop, hlt, if_true, h123, Bool.false_eq_true, if_false]
  rfl

/-- the state after a placeable -/
def stPl (st : PatState) (e : Expr Span) : PatState :=
  { elements := st.elements ++ [.placeable e], lastNonBlank := some st.elements.length,
    commonIndent := if st.role == .lineStart then some 0 else st.commonIndent,
    role := .continuation,
    keptCommonIndent := if st.role == .lineStart then some 0 else st.commonIndent }

theorem patternLoop_placeable (s : Src) (n : Nat) (st : PatState) (p : Nat) (hlt : p < s.size)
    (h123 : isCurrentByte s p 123 = true) :
    getPatternLoop s (n + 1) st p =
      (match getPlaceable s n (p + 1) with
       | .ok e q => getPatternLoop s n (stPl st e) q
       | .err e q => .err e q
       | .panic m => .panic m
       | .fuel => .fuel) := by
  simp only [getPatternLoop, hlt, if_true, h123]
  cases getPlaceable s n (p + 1) with
  | ok e q => simp only [stPl]; split <;> rfl
  | err e q => rfl
  | panic m => rfl
  | fuel => rfl

theorem patternLoop_exit (s : Src) (n : Nat) (st : PatState) (p : Nat) (h : ¬ p < s.size) :
    getPatternLoop s (n + 1) st p = .ok st p := by
  simp only [getPatternLoop, h, if_false]

section
variable {d : Nat} {s₁ s₂ : Src}

theorem shPre_shift (h : Shift d s₁ s₂) (st : PatState) (p : Nat) :
    shPre s₂ (shSt d st) (p + d) = (shPre s₁ st p).map (fun ip => (ip.1, ip.2 + d)) := by
  simp only [shPre, shSt]
  shs h
  simp only [show skipBlankInline s₁ p + d - (p + d) = skipBlankInline s₁ p - p from by omega]
  split
  · cases s₁[skipBlankInline s₁ p]? with
    | none => rfl
    | some b =>
      simp only []
      split
      · split <;> rfl
      · split <;> rfl
  · rfl

theorem shPEnd_shift (h : Shift d s₁ s₂) (p : Nat) : shPEnd s₂ (p + d) = shPEnd s₁ p + d := by
  simp only [shPEnd]
  shs h
  simp only [show skipBlankInline s₁ p + d - (p + d) = skipBlankInline s₁ p - p from by omega]
  cases s₁[skipBlankInline s₁ p]? with
  | none => rfl
  | some b =>
    simp only []
    split
    · rfl
    · split <;> rfl

theorem survivesOf_shift (h : Shift d s₁ s₂) (start stop : Nat) (nb : Bool) :
    survivesOf s₂ (start + d) (stop + d) nb = survivesOf s₁ start stop nb := by
  simp only [survivesOf, slice_shift h]
  split
  · cases slice s₁ start stop with
    | none => rfl
    | some sp =>
      simp only [Option.map_some, trimEnd_shift h]
      simp only [shSpan]
      congr 1
      rw [Bool.eq_iff_iff]; simp only [bne_iff_ne, ne_eq]; omega
  · rfl

theorem elOf_shift (d : Nat) (st : PatState) (p indent stop : Nat) (nb pl : Bool) (hstop : pl = false → 0 < stop) :
    elOf (shSt d st) (p + d) indent (stop + d) nb pl = (elOf st p indent stop nb pl).map (shPh d) := by
  simp only [elOf, shSt]
  by_cases hc : (st.role == TextPos.lineStart && !nb && !pl) = true
  · have hpl : pl = false := by
      cases pl with
      | false => rfl
      | true => simp at hc
    have := hstop hpl
    have e1 : usub (stop + d) 1 = some (stop - 1 + d) := by
      simp only [usub]; rw [if_pos (by omega)]; congr 1; omega
    have e2 : usub stop 1 = some (stop - 1) := by
      simp only [usub]; rw [if_pos (by omega)]
    simp only [hc, if_true, e1, e2, Option.map_some, shPh]
  · simp only [hc, Bool.false_eq_true, if_false, Option.map_some, shPh]

theorem st2Of_shift (h : Shift d s₁ s₂) (st : PatState) (p indent start stop : Nat) (nb : Bool) (term : Termination)
    (hle : start ≤ stop) :
    st2Of s₂ (shSt d st) (p + d) indent (start + d) (stop + d) nb term =
      (st2Of s₁ st p indent start stop nb term).map (shSt d) := by
  have e0 : (start + d != stop + d) = (start != stop) := by
    rw [Bool.eq_iff_iff]; simp only [bne_iff_ne, ne_eq]; omega
  have e0' : (start + d == stop + d) = (start == stop) := by
    rw [Bool.eq_iff_iff]; simp only [beq_iff_eq]; omega
  have er : (shSt d st).role = st.role := rfl
  have ec : (shSt d st).commonIndent = st.commonIndent := rfl
  simp only [st2Of, e0, e0', er, ec, survivesOf_shift h]
  split
  · rename_i hc1
    split
    · have hstop : (st.role == TextPos.lineStart && term == Termination.placeableStart && start == stop) = false →
          0 < stop := by
        intro hpl
        rw [hpl] at hc1
        have : start ≠ stop := by simpa using hc1
        omega
      rw [elOf_shift d st p indent stop nb _ hstop]
      cases elOf st p indent stop nb (st.role == TextPos.lineStart && term == Termination.placeableStart && start == stop) with
      | none => rfl
      | some e =>
        cases survivesOf s₁ start stop nb with
        | none => rfl
        | some sv =>
          simp only [Option.map_some, shSt, List.length_map, List.map_append, List.map_cons, List.map_nil]
    · rfl
  · rfl

theorem stPl_shift (d : Nat) (st : PatState) (e : Expr Span) :
    stPl (shSt d st) (e.mapS (shSpan d)) = shSt d (stPl st e) := by
  simp only [stPl, shSt, List.length_map, List.map_append, List.map_cons, List.map_nil, shPh]
  rfl

theorem patternLoop_sh_step (h : Shift d s₁ s₂) {n : Nat} (IH : ShSpecs d s₁ s₂ n) (st : PatState) (p : Nat)
    (r : R PatState) (hr : getPatternLoop s₁ (n + 1) st p = r) (hne : r ≠ .fuel) (m : Nat) (hm : n + 1 ≤ m) :
    getPatternLoop s₂ m (shSt d st) (p + d) = shR (shSt d) d r := by
  obtain ⟨m', rfl⟩ : ∃ m', m = m' + 1 := ⟨m - 1, by omega⟩
  subst hr
  by_cases c0 : p < s₁.size
  · have c0' : p + d < s₂.size := by rw [h.lt]; exact c0
    by_cases c1 : isCurrentByte s₁ p 123 = true
    · have c1' : isCurrentByte s₂ (p + d) 123 = true := by rw [isCurrentByte_shift h]; exact c1
      rw [patternLoop_placeable s₁ n st p c0 c1] at hne ⊢
      rw [patternLoop_placeable s₂ m' _ _ c0' c1', h.sh1]
      cases hpl : getPlaceable s₁ n (p + 1) with
      | fuel => rw [hpl] at hne; exact absurd rfl hne
      | panic msg => rw [IH.placeable _ _ hpl (by nofun) m' (by omega)]; rfl
      | err e q => rw [IH.placeable _ _ hpl (by nofun) m' (by omega)]; rfl
      | ok e q =>
        rw [IH.placeable _ _ hpl (by nofun) m' (by omega)]
        rw [hpl] at hne
        simp only [shR_ok, stPl_shift]
        exact IH.patternLoop _ _ _ rfl hne m' (by omega)
    · have c1f : isCurrentByte s₁ p 123 = false := by simpa using c1
      have c1f' : isCurrentByte s₂ (p + d) 123 = false := by rw [isCurrentByte_shift h]; exact c1f
      rw [patternLoop_text s₁ n st p c0 c1f] at hne ⊢
      rw [patternLoop_text s₂ m' _ _ c0' c1f', shPre_shift h]
      cases hpre : shPre s₁ st p with
      | none => simp only [Option.map_none, shPEnd_shift h, shR_ok]
      | some ip =>
        obtain ⟨indent, p1⟩ := ip
        simp only [Option.map_some, getTextSlice_shift h]
        rw [hpre] at hne
        simp only [] at hne
        cases hts : getTextSlice s₁ p1 with
        | ok v q =>
          obtain ⟨start, stop, nb, term⟩ := v
          have hle := getTextSlice_le hts
          simp only [shR_ok, shTS, st2Of_shift h _ _ _ _ _ _ _ hle]
          rw [hts] at hne
          simp only [] at hne
          cases hst : st2Of s₁ st p indent start stop nb term with
          | none => rfl
          | some st2 =>
            simp only [Option.map_some]
            rw [hst] at hne
            simp only [] at hne
            exact IH.patternLoop _ _ _ rfl hne m' (by omega)
        | err e q => rfl
        | panic msg => rfl
        | fuel => rfl
  · have c0' : ¬ p + d < s₂.size := by rw [h.lt]; exact c0
    rw [patternLoop_exit s₁ n st p c0, patternLoop_exit s₂ m' _ _ c0']
    rfl

theorem pattern_sh_step (h : Shift d s₁ s₂) {n : Nat} (IH : ShSpecs d s₁ s₂ n) (p : Nat)
    (r : R (Option (Pattern Span))) (hr : getPattern s₁ (n + 1) p = r) (hne : r ≠ .fuel) (m : Nat) (hm : n + 1 ≤ m) :
    getPattern s₂ m (p + d) = shR (Option.map (mapPat (shSpan d))) d r := by
  obtain ⟨m', rfl⟩ : ∃ m', m = m' + 1 := ⟨m - 1, by omega⟩
  subst hr
  have key : ∀ role p2,
      (match getPatternLoop s₁ n ⟨[], none, none, role, none⟩ p2 with
        | .ok st q =>
          (match st.lastNonBlank with
           | some lnb =>
             (match finishElements s₁ st.keptCommonIndent lnb 0 st.elements with
              | some els => R.ok (some els) q
              | none => .panic "get_pattern slice")
           | none => .ok none q)
        | .err e q => .err e q
        | .panic m => .panic m
        | .fuel => .fuel) ≠ .fuel →
      (match getPatternLoop s₂ m' ⟨[], none, none, role, none⟩ (p2 + d) with
        | .ok st q =>
          (match st.lastNonBlank with
           | some lnb =>
             (match finishElements s₂ st.keptCommonIndent lnb 0 st.elements with
              | some els => R.ok (some els) q
              | none => .panic "get_pattern slice")
           | none => .ok none q)
        | .err e q => .err e q
        | .panic m => .panic m
        | .fuel => .fuel) =
      shR (Option.map (mapPat (shSpan d))) d
        (match getPatternLoop s₁ n ⟨[], none, none, role, none⟩ p2 with
        | .ok st q =>
          (match st.lastNonBlank with
           | some lnb =>
             (match finishElements s₁ st.keptCommonIndent lnb 0 st.elements with
              | some els => R.ok (some els) q
              | none => .panic "get_pattern slice")
           | none => .ok none q)
        | .err e q => .err e q
        | .panic m => .panic m
        | .fuel => .fuel) := by
    intro role p2 hne'
    have hl' := fun r hl hne => IH.patternLoop ⟨[], none, none, role, none⟩ p2 r hl hne m' (by omega)
    rw [show shSt d ⟨[], none, none, role, none⟩ = ⟨[], none, none, role, none⟩ from rfl] at hl'
    cases hl : getPatternLoop s₁ n ⟨[], none, none, role, none⟩ p2 with
    | fuel => rw [hl] at hne'; exact absurd rfl hne'
    | panic msg => rw [hl' _ hl (by nofun)]; rfl
    | err e q => rw [hl' _ hl (by nofun)]; rfl
    | ok st q =>
      rw [hl' _ hl (by nofun)]
      simp only [shR_ok, shSt, finishElements_shift h]
      cases st.lastNonBlank with
      | none => rfl
      | some lnb =>
        simp only []
        cases finishElements s₁ st.keptCommonIndent lnb 0 st.elements <;> rfl
  simp only [getPattern] at hne ⊢
  shs h
  cases hE : skipEol s₁ (skipBlankInline s₁ p) with
  | none =>
    rw [hE] at hne
    exact key _ _ hne
  | some q =>
    rw [hE] at hne
    simp only [Option.map_some]
    shs h
    exact key _ _ hne

theorem shspecs_all (h : Shift d s₁ s₂) (n : Nat) : ShSpecs d s₁ s₂ n := by
  induction n with
  | zero =>
    refine ⟨?_, ?_, ?_, ?_, ?_, ?_, ?_, ?_⟩ <;> intros <;> subst_vars <;>
      simp [getPatternLoop, getPattern, getPlaceable, getExpression, getInline, getCallArguments, getCallArgsLoop,
        getVariants] at *
  | succ n ih =>
    exact {
      patternLoop := fun st p r hr hne m hm => patternLoop_sh_step h ih st p r hr hne m hm
      pattern := fun p r hr hne m hm => pattern_sh_step h ih p r hr hne m hm
      placeable := fun p r hr hne m hm => placeable_sh_step h ih p r hr hne m hm
      expression := fun p r hr hne m hm => expression_sh_step h ih p r hr hne m hm
      inline := fun ol p r hr hne m hm => inline_sh_step h ih ol p r hr hne m hm
      callArguments := fun p r hr hne m hm => callArguments_sh_step h ih p r hr hne m hm
      callArgsLoop := fun pos named p r hr hne m hm => callArgsLoop_sh_step h ih pos named p r hr hne m hm
      variants := fun hd acc p r hr hne m hm => variants_sh_step h ih hd acc p r hr hne m hm }

/-! ## exported: the eight functions -/

theorem getPatternLoop_shift (h : Shift d s₁ s₂) {F₁ F₂ : Nat} {st : PatState} {p : Nat} {r : R PatState}
    (hr : getPatternLoop s₁ F₁ st p = r) (hne : r ≠ .fuel) (hF : F₁ ≤ F₂) :
    getPatternLoop s₂ F₂ (shSt d st) (p + d) = shR (shSt d) d r := (shspecs_all h F₁).patternLoop st p r hr hne F₂ hF

theorem getPattern_shift (h : Shift d s₁ s₂) {F₁ F₂ : Nat} {p : Nat} {r : R (Option (Pattern Span))}
    (hr : getPattern s₁ F₁ p = r) (hne : r ≠ .fuel) (hF : F₁ ≤ F₂) :
    getPattern s₂ F₂ (p + d) = shR (Option.map (mapPat (shSpan d))) d r := (shspecs_all h F₁).pattern p r hr hne F₂ hF

theorem getPlaceable_shift (h : Shift d s₁ s₂) {F₁ F₂ : Nat} {p : Nat} {r : R (Expr Span)}
    (hr : getPlaceable s₁ F₁ p = r) (hne : r ≠ .fuel) (hF : F₁ ≤ F₂) :
    getPlaceable s₂ F₂ (p + d) = shR (Expr.mapS (shSpan d)) d r := (shspecs_all h F₁).placeable p r hr hne F₂ hF

theorem getExpression_shift (h : Shift d s₁ s₂) {F₁ F₂ : Nat} {p : Nat} {r : R (Expr Span)}
    (hr : getExpression s₁ F₁ p = r) (hne : r ≠ .fuel) (hF : F₁ ≤ F₂) :
    getExpression s₂ F₂ (p + d) = shR (Expr.mapS (shSpan d)) d r := (shspecs_all h F₁).expression p r hr hne F₂ hF

theorem getInline_shift (h : Shift d s₁ s₂) {F₁ F₂ : Nat} {ol : Bool} {p : Nat} {r : R (Inline Span)}
    (hr : getInline s₁ F₁ ol p = r) (hne : r ≠ .fuel) (hF : F₁ ≤ F₂) :
    getInline s₂ F₂ ol (p + d) = shR (Inline.mapS (shSpan d)) d r := (shspecs_all h F₁).inline ol p r hr hne F₂ hF

theorem getCallArguments_shift (h : Shift d s₁ s₂) {F₁ F₂ : Nat} {p : Nat}
    {r : R (Option (List (Inline Span) × List (Span × Inline Span)))}
    (hr : getCallArguments s₁ F₁ p = r) (hne : r ≠ .fuel) (hF : F₁ ≤ F₂) :
    getCallArguments s₂ F₂ (p + d) = shR (Option.map (shArgs d)) d r := (shspecs_all h F₁).callArguments p r hr hne F₂ hF

theorem getCallArgsLoop_shift (h : Shift d s₁ s₂) {F₁ F₂ : Nat} {pos : List (Inline Span)}
    {named : List (Span × Inline Span)} {p : Nat} {r : R (List (Inline Span) × List (Span × Inline Span))}
    (hr : getCallArgsLoop s₁ F₁ pos named p = r) (hne : r ≠ .fuel) (hF : F₁ ≤ F₂) :
    getCallArgsLoop s₂ F₂ (mapInl (shSpan d) pos) (mapNamed (shSpan d) named) (p + d) = shR (shArgs d) d r :=
  (shspecs_all h F₁).callArgsLoop pos named p r hr hne F₂ hF

theorem getVariants_shift (h : Shift d s₁ s₂) {F₁ F₂ : Nat} {hd : Bool} {acc : List (Variant Span)} {p : Nat}
    {r : R (List (Variant Span))}
    (hr : getVariants s₁ F₁ hd acc p = r) (hne : r ≠ .fuel) (hF : F₁ ≤ F₂) :
    getVariants s₂ F₂ hd (mapVariants (shSpan d) acc) (p + d) = shR (mapVariants (shSpan d)) d r :=
  (shspecs_all h F₁).variants hd acc p r hr hne F₂ hF

end
end FluentProofs.Parser
