import FluentModel.UnescapeFast
/-!
# The driver's linear-time functions equal the specification model, on all inputs

`loopFast` keeps the written bytes in an `Array UInt8`; the invariant is simply "the array holds the
list `loop` holds" (`loopFast_eq`, by induction on the fuel, for every start/ptr/accumulator).  From
it: `unescapeUnicodeFast = unescapeUnicode` and `unescapeUnicodeToStringFast = unescapeUnicodeToString`
as functions — every outcome (`done` with bytes and owned/borrowed flag, `panic`, `outOfFuel`), no
side condition (the input need not even be valid UTF-8).
-/
namespace FluentProofs.UnescapeFast
open FluentModel FluentModel.Unescape

/-- accumulator invariant: running `loopFast` on an array is running `loop` on its list -/
theorem loopFast_eq (s : Src) : ∀ (fuel start ptr : Nat) (out : Array UInt8),
    loopResult (loopFast s fuel start ptr out) = loop s fuel start ptr out.toList := by
  intro fuel
  induction fuel with
  | zero => intro start ptr out; simp [loopFast, loop, loopResult]
  | succ fuel ih =>
    intro start ptr out
    simp only [loopFast, loop]
    cases hb : s[ptr]? with
    | none => simp [loopResult]
    | some b =>
      simp only
      split
      · exact ih _ _ _
      · cases hc : (if (start != ptr) = true then strIndex s start ptr else Outcome.done []) with
        | panic => simp [loopResult]
        | outOfFuel => simp [loopResult]
        | done chunk =>
          simp only
          cases hp : skipToBoundary s (s.size + 1) (escape s (ptr + 1)).2 with
          | panic => simp [loopResult]
          | outOfFuel => simp [loopResult]
          | done p =>
            simp only
            rw [ih]
            simp

theorem unescapeFast_eq (s : Src) : unescapeFast s = unescape s := by
  simp [unescapeFast, unescape, loopFast_eq]

/-- **writer form**: the function the driver runs is `unescapeUnicode`, on every input -/
theorem unescapeUnicodeFast_eq (pre : Bytes) (s : Src) :
    unescapeUnicodeFast pre s = unescapeUnicode pre s := by
  unfold unescapeUnicodeFast unescapeUnicode
  rw [unescapeFast_eq]
  rcases unescape s with ⟨o, _ | _⟩ | _ | _ <;> rfl

/-- **string form**: the function the driver runs is `unescapeUnicodeToString`, on every input -/
theorem unescapeUnicodeToStringFast_eq (s : Src) :
    unescapeUnicodeToStringFast s = unescapeUnicodeToString s := by
  unfold unescapeUnicodeToStringFast unescapeUnicodeToString
  rw [unescapeFast_eq]
  rcases unescape s with ⟨o, _ | _⟩ | _ | _ <;> rfl

/-! ## the driver's hex coding (not needed by any property; recorded so that the switch is exact) -/

theorem hexDecodeFastAux_eq : ∀ (n : Nat) (cs : List Char) (acc : Array UInt8), cs.length ≤ n →
    (hexDecodeFastAux cs acc).map Array.toList = (hexDecodeAux cs).map (acc.toList ++ ·) := by
  intro n
  induction n with
  | zero =>
    intro cs acc h
    match cs, h with
    | [], _ => simp [hexDecodeFastAux, hexDecodeAux]
  | succ n ih =>
    intro cs acc h
    match cs, h with
    | [], _ => simp [hexDecodeFastAux, hexDecodeAux]
    | [_], _ => simp [hexDecodeFastAux, hexDecodeAux]
    | a :: b :: rest, h =>
      simp only [hexDecodeFastAux, hexDecodeAux]
      cases hexVal a with
      | none => simp
      | some x =>
        cases hexVal b with
        | none => simp
        | some y =>
          simp only
          rw [ih rest _ (by simp at h; omega)]
          cases hexDecodeAux rest <;> simp

theorem hexDecodeFast_eq (s : String) : hexDecodeFast s = hexDecode s := by
  unfold hexDecodeFast hexDecode
  split
  · rfl
  · rw [hexDecodeFastAux_eq _ _ _ (Nat.le_refl _)]
    cases hexDecodeAux s.toList <;> simp

theorem hexEncodeFastAux_eq : ∀ (bs : Bytes) (acc : String),
    hexEncodeFastAux bs acc = acc ++ hexEncode bs := by
  intro bs
  induction bs with
  | nil => intro acc; simp [hexEncodeFastAux, hexEncode]
  | cons b rest ih =>
    intro acc
    rw [hexEncodeFastAux, ih]
    apply String.toList_inj.mp
    simp [hexEncode, String.toList_append, String.toList_push]

theorem hexEncFast_eq (bs : Bytes) : hexEncFast bs = hexEnc bs := by
  unfold hexEncFast hexEnc
  split
  · rfl
  · rw [hexEncodeFastAux_eq]; simp

end FluentProofs.UnescapeFast
