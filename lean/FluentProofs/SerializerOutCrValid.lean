import FluentProofs.SerializerOutCr5
import FluentProofs.SerializerOutValid
/-!
# Serializer lemmas, part 21: CRLF sources — the *normalised* output of the parser is in the class (C04)

For a source in which every `\r` is followed by `\n` the parser cuts `x\r\ny` into `text "x"`, `text "\n"`,
`text "y"`: the tree is not in the class `rtEntry`, but `normSafe` of it is, and
`serialize wj (normSafe wj r) = serialize wj r` (`serialize_normSafe`).  Here:

1. `norm_normSafe`: joining everything after joining the `JoinOK` pairs is joining everything;
2. the top level of `nPat okSafe` is `joinTop` followed by `nElem okSafe` on the elements, and `mlPattern`
   does not look inside placeables beyond `isSelectExpr`;
3. the deep bridge `cInline … cElems` from `validEntry` + the deep pattern shape (after `joinTop`) to the
   class predicates on the normalised resolved tree;
4. `rtEntry_normSafe_of_parse`, `roundTrippable_normSafe_of_parse`.
-/
namespace FluentProofs.Ser
open FluentModel FluentModel.Syntax FluentModel.Syntax.Ser FluentProofs.Parser

/-! ## (1) `norm ∘ normSafe = norm` -/

theorem nPat_all_joinHead (ok : Bytes → Bytes → Bool) (x : PatElem Bytes) (R : List (PatElem Bytes)) :
    nPat okAll (joinHead ok x R) = nPat okAll (x :: R) := by
  unfold joinHead
  split
  · rename_i a b rest
    split
    · -- joined
      simp only [nPat, nElem]
      cases hR : nPat okAll rest with
      | nil => simp [joinHead]
      | cons y ys =>
        cases y with
        | text c => simp [joinHead, List.append_assoc]
        | placeable e => simp [joinHead]
    · rfl
  · rfl

section idem
variable (ok : Bytes → Bytes → Bool)

mutual
theorem nInline_all_n (i : Inline Bytes) : nInline okAll (nInline ok i) = nInline okAll i := by
  cases i with
  | placeable e => simp only [nInline]; rw [nExpr_all_n e]
  | fn id pos named => simp only [nInline]; rw [nInl_all_n pos, nNamed_all_n named]
  | term a b c =>
    cases c with
    | none => simp [nInline]
    | some pn => obtain ⟨p, n⟩ := pn; simp only [nInline]; rw [nInl_all_n p, nNamed_all_n n]
  | _ => simp [nInline]
theorem nInl_all_n (xs : List (Inline Bytes)) : nInl okAll (nInl ok xs) = nInl okAll xs := by
  cases xs with
  | nil => simp [nInl]
  | cons x xs => simp only [nInl]; rw [nInline_all_n x, nInl_all_n xs]
theorem nNamed_all_n (xs : List (Bytes × Inline Bytes)) : nNamed okAll (nNamed ok xs) = nNamed okAll xs := by
  cases xs with
  | nil => simp [nNamed]
  | cons x xs => obtain ⟨n, v⟩ := x; simp only [nNamed]; rw [nInline_all_n v, nNamed_all_n xs]
theorem nExpr_all_n (e : Expr Bytes) : nExpr okAll (nExpr ok e) = nExpr okAll e := by
  cases e with
  | inline i => simp only [nExpr]; rw [nInline_all_n i]
  | select sel vs => simp only [nExpr]; rw [nInline_all_n sel, nVariants_all_n vs]
theorem nVariants_all_n (vs : List (Variant Bytes)) : nVariants okAll (nVariants ok vs) = nVariants okAll vs := by
  cases vs with
  | nil => simp [nVariants]
  | cons v vs => simp only [nVariants]; rw [nVariant_all_n v, nVariants_all_n vs]
theorem nVariant_all_n (v : Variant Bytes) : nVariant okAll (nVariant ok v) = nVariant okAll v := by
  cases v with
  | mk k val d => simp only [nVariant]; rw [nPat_all_n val]
theorem nPat_all_n (es : List (PatElem Bytes)) : nPat okAll (nPat ok es) = nPat okAll es := by
  cases es with
  | nil => simp [nPat]
  | cons e es =>
    rw [nPat, nPat_all_joinHead, nPat, nPat_all_n es, nElem_all_n e, ← nPat]
theorem nElem_all_n (e : PatElem Bytes) : nElem okAll (nElem ok e) = nElem okAll e := by
  cases e with
  | text v => simp [nElem]
  | placeable x => simp only [nElem]; rw [nExpr_all_n x]
end

theorem nAttr_all_n (a : Attribute Bytes) : nAttr okAll (nAttr ok a) = nAttr okAll a := by
  simp [nAttr, nPat_all_n]

theorem nEntry_all_n (e : Entry Bytes) : nEntry okAll (nEntry ok e) = nEntry okAll e := by
  cases e with
  | message m =>
    cases hv : m.value <;> cases hc : m.comment <;>
      simp [nEntry, hv, hc, nPat_all_n, nComment_idem, nAttr_all_n, Function.comp_def]
  | term t => cases hc : t.comment <;> simp [nEntry, hc, nPat_all_n, nComment_idem, nAttr_all_n, Function.comp_def]
  | comment c => simp [nEntry, nComment_idem]
  | groupComment c => simp [nEntry, nComment_idem]
  | resourceComment c => simp [nEntry, nComment_idem]
  | junk c => rfl

theorem isJunk_nEntry (e : Entry Bytes) : isJunk (nEntry ok e) = isJunk e := by
  cases e <;> rfl

end idem

/-- **joining everything after joining the `JoinOK` pairs is joining everything** -/
theorem norm_normSafe (withJunk : Bool) (r : Resource Bytes) : norm withJunk (normSafe withJunk r) = norm withJunk r := by
  simp only [norm, normSafe, nRes]
  induction r with
  | nil => rfl
  | cons e es ih =>
    simp only [List.filter_cons]
    split
    · rename_i hk
      simp only [List.map_cons, List.filter_cons, isJunk_nEntry, hk, if_true, nEntry_all_n]
      rw [ih]
    · exact ih

/-! ## (2) the top level of `nPat okSafe` -/

section top
variable (ok ok' : Bytes → Bytes → Bool)

theorem map_nElem_joinHead (e : PatElem Bytes) (R : List (PatElem Bytes)) :
    (joinHead ok e R).map (nElem ok') = joinHead ok (nElem ok' e) (R.map (nElem ok')) := by
  cases e with
  | placeable x => simp [joinHead, nElem]
  | text a =>
    cases R with
    | nil => simp [joinHead, nElem]
    | cons y ys =>
      cases y with
      | placeable x => simp [joinHead, nElem]
      | text b =>
        simp only [joinHead, nElem, List.map_cons]
        split <;> simp [nElem]

end top

/-- `nPat okSafe` = join at the top level, then normalise inside the placeables -/
theorem nPat_safe_eq_joinTop (B : List (PatElem Bytes)) : nPat okSafe B = (joinTop B).map (nElem okSafe) := by
  induction B with
  | nil => simp [nPat, joinTop]
  | cons e es ih =>
    rw [nPat, joinTop, map_nElem_joinHead, ih]

section mlmap
variable (ok : Bytes → Bytes → Bool)

theorem isMultiline_map_nElem (X : List (PatElem Bytes)) : isMultiline (X.map (nElem ok)) = isMultiline X := by
  induction X with
  | nil => rfl
  | cons e es ih =>
    cases e with
    | text v => simp [nElem, isMultiline, ih]
    | placeable x => simp [nElem, isMultiline, ih, isSelectExpr_nExpr]

theorem hasLeadingTextDot_map_nElem (X : List (PatElem Bytes)) :
    hasLeadingTextDot (X.map (nElem ok)) = hasLeadingTextDot X := by
  cases X with
  | nil => rfl
  | cons e es =>
    cases e with
    | text v => cases v <;> simp [nElem, hasLeadingTextDot]
    | placeable x => simp [nElem, hasLeadingTextDot]

theorem startsOnNewLine_map_nElem (X : List (PatElem Bytes)) :
    startsOnNewLine (X.map (nElem ok)) = startsOnNewLine X := by
  simp [startsOnNewLine, isMultiline_map_nElem, hasLeadingTextDot_map_nElem]

theorem lineStartOK_map_nElem (v : Bytes) (es : List (PatElem Bytes)) :
    lineStartOK v (es.map (nElem ok)) = lineStartOK v es := by
  unfold lineStartOK
  cases es with
  | nil => rfl
  | cons e es => cases e <;> simp [nElem]

theorem mlElems_map_nElem (nl : Bool) (X : List (PatElem Bytes)) : mlElems nl (X.map (nElem ok)) = mlElems nl X := by
  induction X generalizing nl with
  | nil => rfl
  | cons e es ih =>
    cases e with
    | placeable x => simp [nElem, mlElems, ih]
    | text v =>
      simp only [List.map_cons, nElem, mlElems, ih, lineStartOK_map_nElem]
      cases es with
      | nil => rfl
      | cons e' es' => cases e' <;> simp [nElem]

theorem excesses_map_nElem (nl : Bool) (X : List (PatElem Bytes)) : excesses nl (X.map (nElem ok)) = excesses nl X := by
  induction X generalizing nl with
  | nil => rfl
  | cons e es ih => cases e <;> simp [nElem, excesses, ih]

theorem mlLastOK_map_nElem (X : List (PatElem Bytes)) : mlLastOK (X.map (nElem ok)) = mlLastOK X := by
  induction X with
  | nil => rfl
  | cons e es ih =>
    cases es with
    | nil => cases e <;> simp [nElem, mlLastOK]
    | cons e' es' =>
      have h1 : ∀ a b : PatElem Bytes, ∀ l, mlLastOK (a :: b :: l) = mlLastOK (b :: l) := by
        intro a b l; cases a <;> simp [mlLastOK]
      simp only [List.map_cons] at ih ⊢
      rw [h1, h1, ih]

theorem mlFirstOK_map_nElem (X : List (PatElem Bytes)) : mlFirstOK (X.map (nElem ok)) = mlFirstOK X := by
  have hs := startsOnNewLine_map_nElem ok X
  cases X with
  | nil => rfl
  | cons e es =>
    cases e with
    | placeable x => simp [nElem, mlFirstOK]
    | text v =>
      simp only [List.map_cons, nElem] at hs
      simp only [List.map_cons, nElem, mlFirstOK, hs]

/-- `mlPattern` depends on the placeables only through `isSelectExpr` -/
theorem mlPattern_map_nElem (X : List (PatElem Bytes)) : mlPattern (X.map (nElem ok)) = mlPattern X := by
  simp only [mlPattern, startsOnNewLine_map_nElem, mlElems_map_nElem, mlLastOK_map_nElem, mlFirstOK_map_nElem,
    isMultiline_map_nElem, excesses_map_nElem, List.isEmpty_map]

end mlmap

/-- the pattern shape of the normalised pattern is the pattern shape after top-level joining -/
theorem mlPattern_nPat_safe (B : List (PatElem Bytes)) : mlPattern (nPat okSafe B) = mlPattern (joinTop B) := by
  rw [nPat_safe_eq_joinTop, mlPattern_map_nElem]

theorem rtElems_joinHead (ok : Bytes → Bytes → Bool) (e : PatElem Bytes) (R : List (PatElem Bytes)) :
    rtElems (joinHead ok e R) = rtElems (e :: R) := by
  unfold joinHead
  split
  · split
    · simp [rtElems]
    · rfl
  · rfl

/-- the placeables of `joinTop B` are those of `B` -/
theorem placeable_mem_joinTop (x : Expr Bytes) (B : List (PatElem Bytes)) :
    PatElem.placeable x ∈ joinTop B ↔ PatElem.placeable x ∈ B := by
  induction B with
  | nil => simp [joinTop]
  | cons e es ih =>
    have hj : ∀ (e : PatElem Bytes) (R : List (PatElem Bytes)),
        PatElem.placeable x ∈ joinHead okSafe e R ↔ PatElem.placeable x ∈ e :: R := by
      intro e R
      unfold joinHead
      split
      · split
        · simp
        · rfl
      · rfl
    rw [joinTop, hj]
    simp only [List.mem_cons, ih]

/-- `rtElems` of a mapped pattern from `rtExpr` of the mapped placeables -/
theorem rtElems_map_nElem (X : List (PatElem Bytes)) (h : ∀ x, PatElem.placeable x ∈ X → rtExpr (nExpr okSafe x) = true) :
    rtElems (X.map (nElem okSafe)) = true := by
  induction X with
  | nil => rfl
  | cons e es ih =>
    have hes := ih (fun x hx => h x (List.mem_cons_of_mem _ hx))
    cases e with
    | text v => simpa [nElem, rtElems] using hes
    | placeable x =>
      simp only [List.map_cons, nElem, rtElems, Bool.and_eq_true]
      exact ⟨h x List.mem_cons_self, hes⟩

/-! ## (3) leaves under `n…` -/

theorem isNamedValue_nInline (ok : Bytes → Bytes → Bool) (v : Inline Bytes) :
    isNamedValue (nInline ok v) = isNamedValue v := by
  cases v with
  | term a b c =>
    cases c with
    | none => rfl
    | some pn => obtain ⟨p, n⟩ := pn; rfl
  | _ => rfl

theorem selShapeB_nInline (ok : Bytes → Bytes → Bool) (v : Inline Bytes) : selShapeB (nInline ok v) = selShapeB v := by
  cases v with
  | term a b c =>
    cases c with
    | none => cases b <;> rfl
    | some pn => obtain ⟨p, n⟩ := pn; cases b <;> rfl
  | _ => rfl

theorem nNamed_fst (ok : Bytes → Bytes → Bool) (xs : List (Bytes × Inline Bytes)) :
    (nNamed ok xs).map Prod.fst = xs.map Prod.fst := by
  induction xs with
  | nil => rfl
  | cons x xs ih => obtain ⟨n, v⟩ := x; simp [nNamed, ih]

theorem namesNodup_nNamed (ok : Bytes → Bytes → Bool) (xs : List (Bytes × Inline Bytes)) :
    namesNodup (nNamed ok xs) = namesNodup xs := by
  simp [namesNodup, nNamed_fst]

theorem filter_default_nVariants (ok : Bytes → Bytes → Bool) (vs : List (Variant Bytes)) :
    ((nVariants ok vs).filter isDefault).length = (vs.filter isDefault).length := by
  induction vs with
  | nil => rfl
  | cons v vs ih =>
    obtain ⟨k, val, d⟩ := v
    cases d <;> simp [nVariants, nVariant, isDefault, List.filter_cons, ih]

/-- an inline expression that is not a term attribute, as the expression of a placeable, normalised -/
theorem rtExpr_inline_n_of {f : Span → Bytes} (ok : Bytes → Bytes → Bool) (i : Inline Span) (hnt : isTermAttr i = false)
    (hi : rtInline (nInline ok (i.mapS f)) = true) : rtExpr (.inline (nInline ok (i.mapS f))) = true := by
  cases i with
  | term id attr args =>
    cases attr with
    | some a => simp [isTermAttr] at hnt
    | none =>
      cases args with
      | none => simpa [Inline.mapS, nInline, rtExpr] using hi
      | some pn => obtain ⟨pos, named⟩ := pn; simpa [Inline.mapS, nInline, rtExpr] using hi
  | _ => simpa [Inline.mapS, nInline, rtExpr] using hi

/-! ## (4) the deep bridge for the normalised tree -/

/-- the per-call pattern fact that is assumed: the pattern shape of the resolved pattern after top-level joining -/
abbrev PPj (s : Src) : List (PatElem Span) → Prop := fun els => mlPattern (joinTop (mapPat (spanBytes s) els)) = true

section bridge
variable {s : Src}

mutual
theorem cInline : ∀ (i : Inline Span), vInline s i = true → dInline (PPj s) nvShape i →
    rtInline (nInline okSafe (i.mapS (spanBytes s))) = true
  | .str v, hv, _ => validStrBody_of _ hv
  | .num v, hv, _ => validNumber_of _ hv
  | .var id, hv, _ => identOk_valid hv
  | .msg id attr, hv, _ => by
    simp only [vInline, Bool.and_eq_true] at hv
    simp only [Inline.mapS, nInline, rtInline, Bool.and_eq_true]
    exact ⟨identOk_valid hv.1, optIdent_of hv.2⟩
  | .term id attr none, hv, _ => by
    simp only [vInline, Bool.and_eq_true] at hv
    simp only [Inline.mapS, nInline, rtInline, Bool.and_eq_true]
    exact ⟨identOk_valid hv.1, optIdent_of hv.2⟩
  | .term id attr (some (pos, named)), hv, hd => by
    simp only [vInline, Bool.and_eq_true] at hv
    simp only [dInline] at hd
    simp only [Inline.mapS, nInline, rtInline, Bool.and_eq_true]
    refine ⟨⟨⟨⟨identOk_valid hv.1.1.1.1, optIdent_of hv.1.1.1.2⟩, cInl pos hv.1.1.2 hd.1⟩,
      cNamed named hv.1.2 hd.2⟩, ?_⟩
    rw [namesNodup_nNamed]; exact namesNodup_of hv.2
  | .fn id pos named, hv, hd => by
    simp only [vInline, Bool.and_eq_true] at hv
    simp only [dInline] at hd
    simp only [Inline.mapS, nInline, rtInline, Bool.and_eq_true]
    refine ⟨⟨⟨⟨identOk_valid hv.1.1.1.1, isCalleeName_of hv.1.1.1.2⟩, cInl pos hv.1.1.2 hd.1⟩,
      cNamed named hv.1.2 hd.2⟩, ?_⟩
    rw [namesNodup_nNamed]; exact namesNodup_of hv.2
  | .placeable e, hv, hd => by
    simp only [vInline] at hv
    simp only [dInline] at hd
    simp only [Inline.mapS, nInline, rtInline]
    exact cExpr e hv hd
theorem cInl : ∀ (xs : List (Inline Span)), vInl s xs = true → dInl (PPj s) nvShape xs →
    rtInl (nInl okSafe (mapInl (spanBytes s) xs)) = true
  | [], _, _ => rfl
  | x :: xs, hv, hd => by
    simp only [vInl, Bool.and_eq_true] at hv
    simp only [dInl] at hd
    simp only [mapInl, nInl, rtInl, Bool.and_eq_true]
    exact ⟨cInline x hv.1 hd.1, cInl xs hv.2 hd.2⟩
theorem cNamed : ∀ (xs : List (Span × Inline Span)), vNamed s xs = true → dNamed (PPj s) nvShape xs →
    rtNamed (nNamed okSafe (mapNamed (spanBytes s) xs)) = true
  | [], _, _ => rfl
  | (n, x) :: xs, hv, hd => by
    simp only [vNamed, Bool.and_eq_true] at hv
    simp only [dNamed] at hd
    simp only [mapNamed, nNamed, rtNamed, Bool.and_eq_true]
    refine ⟨⟨⟨identOk_valid hv.1.1, ?_⟩, cInline x hv.1.2 hd.1.2⟩, cNamed xs hv.2 hd.2⟩
    rw [isNamedValue_nInline]; exact isNamedValue_of hd.1.1
theorem cExpr : ∀ (e : Expr Span), vExpr s e = true → dExpr (PPj s) nvShape e →
    rtExpr (nExpr okSafe (e.mapS (spanBytes s))) = true
  | .inline i, hv, hd => by
    simp only [vExpr, Bool.and_eq_true, Bool.not_eq_true'] at hv
    simp only [dExpr] at hd
    simp only [Expr.mapS, nExpr]
    exact rtExpr_inline_n_of okSafe i hv.2 (cInline i hv.1 hd)
  | .select sel vs, hv, hd => by
    simp only [vExpr, Bool.and_eq_true, beq_iff_eq] at hv
    simp only [dExpr] at hd
    simp only [Expr.mapS, nExpr, rtExpr, Bool.and_eq_true, decide_eq_true_eq]
    refine ⟨⟨⟨cInline sel hv.1.1.1 hd.1, ?_⟩, cVariants vs hv.1.2 hd.2⟩, ?_⟩
    · rw [selShapeB_nInline]; exact selShapeB_of sel hv.1.1.2
    · rw [filter_default_nVariants, filter_default_length]; exact hv.2
theorem cVariants : ∀ (vs : List (Variant Span)), vVariants s vs = true → dVariants (PPj s) nvShape vs →
    rtVariants (nVariants okSafe (mapVariants (spanBytes s) vs)) = true
  | [], _, _ => rfl
  | v :: vs, hv, hd => by
    simp only [vVariants, Bool.and_eq_true] at hv
    simp only [dVariants] at hd
    simp only [mapVariants, nVariants, rtVariants, Bool.and_eq_true]
    exact ⟨cVariant v hv.1 hd.1, cVariants vs hv.2 hd.2⟩
theorem cVariant : ∀ (v : Variant Span), vVariant s v = true → dVariant (PPj s) nvShape v →
    rtVariant (nVariant okSafe (v.mapS (spanBytes s))) = true
  | .mk k val d, hv, hd => by
    simp only [vVariant, Bool.and_eq_true] at hv
    simp only [dVariant] at hd
    simp only [Variant.mapS, nVariant, rtVariant, Bool.and_eq_true]
    refine ⟨⟨validKey_of hv.1.1, ?_⟩, cElems val hv.2 hd.2⟩
    rw [mlPattern_nPat_safe]; exact hd.1
theorem cElems : ∀ (es : List (PatElem Span)), vPat s es = true → dElems (PPj s) nvShape es →
    rtElems (nPat okSafe (mapPat (spanBytes s) es)) = true
  | [], _, _ => rfl
  | .text v :: es, hv, hd => by
    simp only [vPat, Bool.and_eq_true] at hv
    simp only [dElems] at hd
    simp only [mapPat, PatElem.mapS, nPat, nElem, rtElems_joinHead, rtElems]
    exact cElems es hv.2 hd.2
  | .placeable e :: es, hv, hd => by
    simp only [vPat, vPatElem, Bool.and_eq_true] at hv
    simp only [dElems, dElem] at hd
    simp only [mapPat, PatElem.mapS, nPat, nElem, rtElems_joinHead, rtElems, Bool.and_eq_true]
    exact ⟨cExpr e hv.1 hd.1, cElems es hv.2 hd.2⟩
end

end bridge

/-! ## patterns, attributes, entries -/

theorem rtPattern_n_of {s : Src} (els : List (PatElem Span)) (hv : vPat s els = true) (hd : dPat (PPj s) nvShape els) :
    rtPattern (nPat okSafe (mapPat (spanBytes s) els)) = true := by
  simp only [rtPattern, Bool.and_eq_true]
  refine ⟨?_, cElems els hv hd.2⟩
  rw [mlPattern_nPat_safe]; exact hd.1

theorem rtAttrs_n_of {s : Src} (as : List (Attribute Span)) (hv : as.all (attrOk s) = true)
    (hd : dAttrs (PPj s) nvShape as) :
    ((as.map (Attribute.mapS (spanBytes s))).map (nAttr okSafe)).all rtAttr = true := by
  simp only [List.all_eq_true, List.mem_map] at hv ⊢
  rintro _ ⟨_, ⟨a, ha, rfl⟩, rfl⟩
  have h1 := hv a ha
  simp only [attrOk, patOk, Bool.and_eq_true] at h1
  simp only [rtAttr, nAttr, Attribute.mapS, Bool.and_eq_true]
  exact ⟨identOk_valid h1.1, rtPattern_n_of _ h1.2.2 (hd a ha)⟩

theorem rtOptComment_n_of {s : Src} (o : Option (List Span)) (h : OptCmtOK s o) :
    rtOptComment ((o.map (List.map (spanBytes s))).map nComment) = true := by
  cases o with
  | none => rfl
  | some c => exact rtComment_canon _ (h c rfl)

/-- one entry: valid, deeply of the pattern shape after joining, comments of the class -/
theorem rtEntry_n_of {s : Src} (e : Entry Span) (hv : ValidEntry s e) (hd : dEntry (PPj s) nvShape e) (hc : cEntry s e) :
    (∃ c, e = .junk c) ∨ rtEntry (nEntry okSafe (e.mapS (spanBytes s))) = true := by
  cases e with
  | junk c => exact Or.inl ⟨c, rfl⟩
  | comment c => exact Or.inr (rtComment_canon _ hc)
  | groupComment c => exact Or.inr (rtComment_canon _ hc)
  | resourceComment c => exact Or.inr (rtComment_canon _ hc)
  | term t =>
    right
    simp only [ValidEntry, validEntry, patOk, Bool.and_eq_true] at hv
    simp only [Entry.mapS, nEntry, rtEntry, Bool.and_eq_true]
    exact ⟨⟨⟨identOk_valid hv.1.1, rtPattern_n_of _ hv.1.2.2 hd.1⟩, rtAttrs_n_of _ hv.2 hd.2⟩, rtOptComment_n_of _ hc⟩
  | message m =>
    right
    simp only [ValidEntry, validEntry, Bool.and_eq_true] at hv
    simp only [Entry.mapS, nEntry, rtEntry, Bool.and_eq_true]
    refine ⟨⟨⟨identOk_valid hv.1.1.1, ?_⟩, rtAttrs_n_of _ hv.1.2 hd.2⟩, rtOptComment_n_of _ hc⟩
    cases hval : m.value with
    | none =>
      have := hv.2
      simp only [hval, Option.isSome_none, Bool.false_or] at this
      simpa using this
    | some v =>
      have h1 := hv.1.1.2
      simp only [hval, patOk, Bool.and_eq_true] at h1
      simp only [Option.map_some]
      exact rtPattern_n_of v h1.2 (hd.1 v hval)

/-! ## (5) the final theorems -/

/-- **The parser's normalised output is in the class** — for sources in which every `\r` is followed by `\n`,
given the pattern shape (after top-level joining) of everything `get_pattern` returns: every entry of the tree
returned by `parse` is Junk, or its `nEntry okSafe` normal form is an entry of the class `rtEntry`. -/
theorem rtEntry_normSafe_of_parse (s : Src) (hcr : NoLoneCR s)
    (hpat : ∀ n p els q, getPattern s n p = .ok (some els) q → mlPattern (joinTop (mapPat (spanBytes s) els)) = true)
    (t : Resource Span) (errs : List PErr) (h : parse s = .done (t, errs)) :
    ∀ e ∈ t, (∃ c, e = .junk c) ∨ rtEntry (nEntry okSafe (e.mapS (spanBytes s))) = true := by
  intro e he
  exact rtEntry_n_of e (parse_valid s t errs h e he)
    (parse_deep s (PPj s) nvShape hpat (getInline_literal_shape s) t errs h e he)
    (parse_comments_cr s hcr t errs h e he)

/-- resource form: `normSafe` of the resolved tree is `RoundTrippable withJunk`, provided — when Junk is to be
serialised — that there is no Junk entry -/
theorem roundTrippable_normSafe_of_parse (s : Src) (hcr : NoLoneCR s)
    (hpat : ∀ n p els q, getPattern s n p = .ok (some els) q → mlPattern (joinTop (mapPat (spanBytes s) els)) = true)
    (t : Resource Span) (errs : List PErr) (h : parse s = .done (t, errs)) :
    ∀ withJunk : Bool, (withJunk = true → ∀ e ∈ t, ∀ c, e ≠ .junk c) →
      RoundTrippable withJunk (normSafe withJunk (resolve s t)) = true := by
  intro withJunk hnj
  simp only [RoundTrippable, normSafe, nRes, resolve, List.all_eq_true, List.mem_map, List.mem_filter]
  rintro _ ⟨_, ⟨⟨e, he, rfl⟩, _⟩, rfl⟩
  rcases rtEntry_normSafe_of_parse s hcr hpat t errs h e he with ⟨c, hc⟩ | h'
  · subst hc
    cases withJunk with
    | true => exact absurd rfl (hnj rfl _ he c)
    | false => simp [Entry.mapS, nEntry, isJunk]
  · simp [h']

/-- the instance with the pattern-shape theorem of `SerializerOutCr5` plugged in -/
theorem roundTrippable_normSafe_of_parse' (s : Src) (hcr : NoLoneCR s)
    (t : Resource Span) (errs : List PErr) (h : parse s = .done (t, errs)) :
    ∀ withJunk : Bool, (withJunk = true → ∀ e ∈ t, ∀ c, e ≠ .junk c) →
      RoundTrippable withJunk (normSafe withJunk (resolve s t)) = true :=
  roundTrippable_normSafe_of_parse s hcr (fun n p els q h => getPattern_mlPattern_join hcr n p els q h) t errs h

/-! ## (6) every source — lone `\r` included -/

/-- **The parser's normalised output is in the class, for EVERY source**: every entry of the tree returned by `parse`
is Junk, or its `nEntry okSafe` normal form is an entry of the class `rtEntry` (pattern shape:
`getPattern_mlPattern_joinAll`; comments: `parse_comments_all`). -/
theorem rtEntry_normSafe_of_parse_all (s : Src) (t : Resource Span) (errs : List PErr)
    (h : parse s = .done (t, errs)) :
    ∀ e ∈ t, (∃ c, e = .junk c) ∨ rtEntry (nEntry okSafe (e.mapS (spanBytes s))) = true := by
  intro e he
  exact rtEntry_n_of e (parse_valid s t errs h e he)
    (parse_deep s (PPj s) nvShape (fun n p els q h => getPattern_mlPattern_joinAll s n p els q h)
      (getInline_literal_shape s) t errs h e he)
    (parse_comments_all s t errs h e he)

/-- resource form, every source: `normSafe` of the resolved tree is `RoundTrippable withJunk`, provided — when Junk is
to be serialised — that there is no Junk entry -/
theorem roundTrippable_normSafe_of_parse_all (s : Src) (t : Resource Span) (errs : List PErr)
    (h : parse s = .done (t, errs)) :
    ∀ withJunk : Bool, (withJunk = true → ∀ e ∈ t, ∀ c, e ≠ .junk c) →
      RoundTrippable withJunk (normSafe withJunk (resolve s t)) = true := by
  intro withJunk hnj
  simp only [RoundTrippable, normSafe, nRes, resolve, List.all_eq_true, List.mem_map, List.mem_filter]
  rintro _ ⟨_, ⟨⟨e, he, rfl⟩, _⟩, rfl⟩
  rcases rtEntry_normSafe_of_parse_all s t errs h e he with ⟨c, hc⟩ | h'
  · subst hc
    cases withJunk with
    | true => exact absurd rfl (hnj rfl _ he c)
    | false => simp [Entry.mapS, nEntry, isJunk]
  · simp [h']

end FluentProofs.Ser
