import FluentModel.ResolverSpec
/-!
# Facts about the reference semantics `ResolverSpec` alone: what an evaluation can add to the error log

`SpecAll D env f`: every spec call at fuel `f` extends the log it is given (`LogOk`): a `.val` outcome returns
`log ++ added`, a `.limit` outcome returns `log ++ added ++ [tooManyPlaceables]`, and no entry of `added` is
`tooManyPlaceables`; with `D = true` (every select expression of the pattern and of every message and term of
the bundle has a default variant — true of every parsed resource) no entry is `missingDefault` either, so the
entries are exactly `reference`, `noValue` and `cyclic` reports.
-/
namespace FluentProofs.ResolverRefine
open FluentModel FluentModel.Syntax FluentModel.Num FluentModel.Resolver FluentModel.ResolverSpec

/-! ## "every select expression has a default variant" -/
mutual
def inlineD : Inline Bytes → Bool
  | .fn _ p n => inlinesD p && namedD n
  | .term _ _ (some (p, n)) => inlinesD p && namedD n
  | .placeable e => exprD e
  | _ => true
def inlinesD : List (Inline Bytes) → Bool
  | [] => true
  | x :: xs => inlineD x && inlinesD xs
def namedD : List (Bytes × Inline Bytes) → Bool
  | [] => true
  | (_, x) :: xs => inlineD x && namedD xs
def exprD : Expr Bytes → Bool
  | .inline e => inlineD e
  | .select s vs => inlineD s && variantsD vs && (defaultVariant vs).isSome
def variantsD : List (Variant Bytes) → Bool
  | [] => true
  | .mk _ v _ :: vs => patD v && variantsD vs
def patD : List (PatElem Bytes) → Bool
  | [] => true
  | e :: es => elemD e && patD es
def elemD : PatElem Bytes → Bool
  | .text _ => true
  | .placeable e => exprD e
end

def argsD : Option (List (Inline Bytes) × List (Bytes × Inline Bytes)) → Bool
  | .none => true
  | some (p, n) => inlinesD p && namedD n

/-- every pattern of the bundle has defaults everywhere -/
def EnvD (env : Env) : Prop :=
  (∀ id m, env.msg id = some m →
    (∀ p, m.value = some p → patD p = true) ∧ ∀ a ∈ m.attributes, patD a.value = true) ∧
  (∀ id t, env.term id = some t → patD t.value = true ∧ ∀ a ∈ t.attributes, patD a.value = true)

theorem findAttr_D {attrs : List (Attribute Bytes)} {a : Bytes} {p : Pattern Bytes}
    (h : ∀ x ∈ attrs, patD x.value = true) (hf : findAttr attrs a = some p) : patD p = true := by
  unfold findAttr at hf
  cases hx : attrs.find? (fun x => x.id == a) with
  | none => simp [hx] at hf
  | some x =>
    simp [hx] at hf
    subst hf
    exact h x (List.mem_of_find?_eq_some hx)

theorem selectVariant_D (env : Env) {vs : List (Variant Bytes)} {s : Value} {v : Pattern Bytes}
    (h : variantsD vs = true) (hs : selectVariant env vs s = .ok (some v)) : patD v = true := by
  induction vs with
  | nil => simp [selectVariant] at hs
  | cons x rest ih =>
    obtain ⟨k, val, d⟩ := x
    simp only [variantsD, Bool.and_eq_true] at h
    unfold selectVariant at hs
    simp only [] at hs
    split at hs
    · cases hs
    · simp only [RR.ok.injEq, Option.some.injEq] at hs; subst hs; exact h.1
    · exact ih h.2 hs

theorem defaultVariant_D {vs : List (Variant Bytes)} {v : Pattern Bytes}
    (h : variantsD vs = true) (hs : defaultVariant vs = some v) : patD v = true := by
  induction vs with
  | nil => simp [defaultVariant] at hs
  | cons x rest ih =>
    obtain ⟨k, val, d⟩ := x
    simp only [variantsD, Bool.and_eq_true] at h
    simp only [defaultVariant] at hs
    split at hs
    · simp only [Option.some.injEq] at hs; subst hs; exact h.1
    · exact ih h.2 hs

/-! ## the log discipline -/

/-- an entry an evaluation may add on a normal path -/
def Rep (D : Bool) (x : RErr) : Prop := x ≠ .tooManyPlaceables ∧ (D = true → x ≠ .missingDefault)

def LogOk {α : Type} (D : Bool) (log : List RErr) : Out α → Prop
  | .val _ _ l' => ∃ added, l' = log ++ added ∧ ∀ x ∈ added, Rep D x
  | .limit lg => ∃ added, lg = log ++ added ++ [.tooManyPlaceables] ∧ ∀ x ∈ added, Rep D x
  | _ => True

theorem LogOk.val_refl {α : Type} (D : Bool) (log : List RErr) (a : α) (c : Nat) : LogOk D log (.val a c log) :=
  ⟨[], by simp, by simp⟩

theorem LogOk.val_add {α : Type} (D : Bool) (log : List RErr) (a : α) (c : Nat) (e : RErr) (h : Rep D e) :
    LogOk D log (.val a c (log ++ [e])) :=
  ⟨[e], rfl, by simpa using h⟩

theorem LogOk.trans {α : Type} {D : Bool} {log a1 : List RErr} {r : Out α} (h1 : ∀ x ∈ a1, Rep D x)
    (h2 : LogOk D (log ++ a1) r) : LogOk D log r := by
  match r, h2 with
  | .val _ _ _, ⟨a2, e, h⟩ => exact ⟨a1 ++ a2, by simp [e], by
      intro x hx; rcases List.mem_append.1 hx with hx | hx; exact h1 x hx; exact h x hx⟩
  | .limit _, ⟨a2, e, h⟩ => exact ⟨a1 ++ a2, by simp [e], by
      intro x hx; rcases List.mem_append.1 hx with hx | hx; exact h1 x hx; exact h x hx⟩
  | .panic _, _ => trivial
  | .fuel, _ => trivial

/-- continue after a sub-evaluation that returned normally -/
theorem LogOk.after {α β : Type} {D : Bool} {log l1 : List RErr} {b : β} {c1 : Nat} {r1 : Out β} {r : Out α}
    (h1 : LogOk D log r1) (e : r1 = .val b c1 l1) (h2 : LogOk D l1 r) : LogOk D log r := by
  subst e
  obtain ⟨a1, rfl, ha⟩ := h1
  exact LogOk.trans ha h2

theorem LogOk.limit_of {α β : Type} {D : Bool} {log l : List RErr} {r1 : Out β}
    (h1 : LogOk D log r1) (e : r1 = .limit l) : LogOk (α := α) D log (.limit l) := by
  subst e; exact h1

theorem rep_reference (D : Bool) (k : RefKind) : Rep D (.reference k) := ⟨by simp, by simp⟩
theorem rep_noValue (D : Bool) (id : Bytes) : Rep D (.noValue id) := ⟨by simp, by simp⟩
theorem rep_cyclic (D : Bool) : Rep D .cyclic := ⟨by simp, by simp⟩


def SpecAll (D : Bool) (f : Nat) : Prop :=
  (∀ c n es count log, (D = true → EnvD c.env) → (D = true → patD es = true) →
     LogOk D log (evalElems c f n es count log)) ∧
  (∀ c p src count log, (D = true → EnvD c.env) → (D = true → patD p = true) →
     LogOk D log (evalRef c f p src count log)) ∧
  (∀ c e count log, (D = true → EnvD c.env) → (D = true → exprD e = true) →
     LogOk D log (evalExpr c f e count log)) ∧
  (∀ c e count log, (D = true → EnvD c.env) → (D = true → inlineD e = true) →
     LogOk D log (evalInline c f e count log)) ∧
  (∀ c e count log, (D = true → EnvD c.env) → (D = true → inlineD e = true) →
     LogOk D log (evalValue c f e count log)) ∧
  (∀ c a count log, (D = true → EnvD c.env) → (D = true → argsD a = true) →
     LogOk D log (evalArgs c f a count log)) ∧
  (∀ c es count log, (D = true → EnvD c.env) → (D = true → inlinesD es = true) →
     LogOk D log (evalList c f es count log)) ∧
  (∀ c es count log, (D = true → EnvD c.env) → (D = true → namedD es = true) →
     LogOk D log (evalNamed c f es count log))

theorem specAll (D : Bool) : ∀ f, SpecAll D f := by
  intro f
  induction f with
  | zero =>
    refine ⟨?_, ?_, ?_, ?_, ?_, ?_, ?_, ?_⟩ <;> intros <;>
      simp [evalElems, evalRef, evalExpr, evalInline, evalValue, evalArgs, evalList, evalNamed, LogOk]
  | succ f ih =>
    obtain ⟨iElems, iRef, iExpr, iInl, iVal, iArgs, iList, iNamed⟩ := ih
    refine ⟨?_, ?_, ?_, ?_, ?_, ?_, ?_, ?_⟩
    · -- evalElems
      intro c n es count log hE hD
      match es with
      | [] => simp only [evalElems]; exact LogOk.val_refl D log _ _
      | .text v :: rest =>
        simp only [evalElems]
        have h1 := iElems c n rest count log hE (fun d => by have := hD d; simp_all [patD])
        revert h1
        generalize evalElems c f n rest count log = r
        intro h1
        cases r <;> exact h1
      | .placeable e :: rest =>
        simp only [evalElems]
        split
        · exact ⟨[], by simp, by simp⟩
        · have h1 := iExpr c e (count + 1) log hE (fun d => by have := hD d; simp_all [patD, elemD])
          split
          · rename_i s c1 l1 hEq
            have h2 := iElems c n rest c1 l1 hE (fun d => by have := hD d; simp_all [patD])
            refine LogOk.after h1 hEq ?_
            revert h2
            generalize evalElems c f n rest c1 l1 = r
            intro h2
            cases r <;> exact h2
          · rename_i l hEq
            exact LogOk.limit_of h1 hEq
          · trivial
          · trivial
    · -- evalRef
      intro c p src count log hE hD
      simp only [evalRef]
      split
      · exact LogOk.val_add D log _ _ _ (rep_cyclic D)
      · exact iElems _ _ _ _ _ hE hD
    · -- evalExpr
      intro c e count log hE hD
      match e with
      | .inline e => simp only [evalExpr]; exact iInl c e count log hE (fun d => by have := hD d; simp_all [exprD])
      | .select sel vs =>
        simp only [evalExpr]
        have hDs : D = true → inlineD sel = true ∧ variantsD vs = true ∧ (defaultVariant vs).isSome = true := by
          intro d; have := hD d; simp_all [exprD]
        have h1 := iVal c sel count log hE (fun d => (hDs d).1)
        split
        · rename_i selector c1 l1 hEq
          refine LogOk.after h1 hEq ?_
          split
          · rename_i v hch
            refine iElems c _ v c1 l1 hE (fun d => ?_)
            revert hch
            split
            · intro hch; exact selectVariant_D c.env (hDs d).2.1 hch
            · intro hch; exact selectVariant_D c.env (hDs d).2.1 hch
            · intro hch; cases hch
          · split
            · rename_i v hdv
              exact iElems c _ v c1 l1 hE (fun d => defaultVariant_D (hDs d).2.1 hdv)
            · rename_i hdv
              refine LogOk.val_add D l1 _ _ _ ⟨by simp, fun d => ?_⟩
              have := (hDs d).2.2
              simp [hdv] at this
          · trivial
          · trivial
        · rename_i l hEq
          exact LogOk.limit_of h1 hEq
        · trivial
        · trivial
    · -- evalInline
      intro c e count log hE hD
      match e with
      | .str v => simp only [evalInline]; exact LogOk.val_refl D log _ _
      | .num v => simp only [evalInline]; exact LogOk.val_refl D log _ _
      | .placeable e => simp only [evalInline]; exact iExpr c e count log hE (fun d => by have := hD d; simp_all [inlineD])
      | .var id =>
        simp only [evalInline]
        split
        · split <;> exact LogOk.val_refl D log _ _
        · split
          · exact LogOk.val_refl D log _ _
          · exact LogOk.val_add D log _ _ _ (rep_reference D _)
      | .msg id attr =>
        simp only [evalInline]
        split
        · exact LogOk.val_add D log _ _ _ (rep_reference D _)
        · rename_i m hm
          split
          · split
            · rename_i p hp
              exact iRef c p _ count log hE (fun d => findAttr_D ((hE d).1 id m hm).2 hp)
            · exact LogOk.val_add D log _ _ _ (rep_reference D _)
          · split
            · rename_i p hp
              exact iRef c p _ count log hE (fun d => ((hE d).1 id m hm).1 p hp)
            · exact LogOk.val_add D log _ _ _ (rep_noValue D _)
      | .fn id pos named =>
        simp only [evalInline]
        have h1 := iArgs c (some (pos, named)) count log hE (fun d => by have := hD d; simp_all [inlineD, argsD])
        split
        · rename_i rp rn c1 l1 hEq
          refine LogOk.after h1 hEq ?_
          split
          · split <;> exact LogOk.val_refl D l1 _ _
          · exact LogOk.val_add D l1 _ _ _ (rep_reference D _)
        · rename_i l hEq
          exact LogOk.limit_of h1 hEq
        · trivial
        · trivial
      | .term id attr args =>
        simp only [evalInline]
        have h1 := iArgs c args count log hE (fun d => by
          have := hD d
          match args with
          | .none => rfl
          | some (p, n) => simp_all [inlineD, argsD])
        split
        · rename_i rp named c1 l1 hEq
          refine LogOk.after h1 hEq ?_
          split
          · rename_i p hp
            refine iRef _ p _ c1 l1 hE (fun d => ?_)
            revert hp
            split
            · rename_i t ht
              split
              · intro hp; exact findAttr_D ((hE d).2 id t ht).2 hp
              · intro hp; simp only [Option.some.injEq] at hp; subst hp; exact ((hE d).2 id t ht).1
            · intro hp; cases hp
          · exact LogOk.val_add D l1 _ _ _ (rep_reference D _)
        · rename_i l hEq
          exact LogOk.limit_of h1 hEq
        · trivial
        · trivial
    · -- evalValue
      intro c e count log hE hD
      have hw : ∀ e : Inline Bytes, (D = true → inlineD e = true) →
          LogOk D log (match evalInline c f e count log with
            | .val s count' log' => Out.val (Value.str s) count' log'
            | .limit l => .limit l
            | .panic m => .panic m
            | .fuel => .fuel) := by
        intro e hD
        have h1 := iInl c e count log hE hD
        revert h1
        generalize evalInline c f e count log = r
        intro h1
        cases r <;> exact h1
      match e with
      | .str v => simp only [evalValue]; exact LogOk.val_refl D log _ _
      | .num v => simp only [evalValue]; exact LogOk.val_refl D log _ _
      | .placeable e => simp only [evalValue]; exact hw _ hD
      | .msg id attr => simp only [evalValue]; exact hw _ hD
      | .term id attr args => simp only [evalValue]; exact hw _ hD
      | .var id =>
        simp only [evalValue]
        split
        · exact LogOk.val_refl D log _ _
        · split
          · exact LogOk.val_refl D log _ _
          · exact LogOk.val_add D log _ _ _ (rep_reference D _)
      | .fn id pos named =>
        simp only [evalValue]
        have h1 := iArgs c (some (pos, named)) count log hE (fun d => by have := hD d; simp_all [inlineD, argsD])
        split
        · rename_i rp rn c1 l1 hEq
          refine LogOk.after h1 hEq ?_
          split
          · exact LogOk.val_refl D l1 _ _
          · exact LogOk.val_add D l1 _ _ _ (rep_reference D _)
        · rename_i l hEq
          exact LogOk.limit_of h1 hEq
        · trivial
        · trivial
    · -- evalArgs
      intro c a count log hE hD
      match a with
      | .none => simp only [evalArgs]; exact LogOk.val_refl D log _ _
      | some (pos, named) =>
        simp only [evalArgs]
        have h1 := iList c pos count log hE (fun d => by have := hD d; simp_all [argsD])
        split
        · rename_i vs c1 l1 hEq
          refine LogOk.after h1 hEq ?_
          have h2 := iNamed c named c1 l1 hE (fun d => by have := hD d; simp_all [argsD])
          revert h2
          generalize evalNamed c f named c1 l1 = r
          intro h2
          cases r <;> exact h2
        · rename_i l hEq
          exact LogOk.limit_of h1 hEq
        · trivial
        · trivial
    · -- evalList
      intro c es count log hE hD
      match es with
      | [] => simp only [evalList]; exact LogOk.val_refl D log _ _
      | e :: es =>
        simp only [evalList]
        have h1 := iVal c e count log hE (fun d => by have := hD d; simp_all [inlinesD])
        split
        · rename_i v c1 l1 hEq
          refine LogOk.after h1 hEq ?_
          have h2 := iList c es c1 l1 hE (fun d => by have := hD d; simp_all [inlinesD])
          revert h2
          generalize evalList c f es c1 l1 = r
          intro h2
          cases r <;> exact h2
        · rename_i l hEq
          exact LogOk.limit_of h1 hEq
        · trivial
        · trivial
    · -- evalNamed
      intro c es count log hE hD
      match es with
      | [] => simp only [evalNamed]; exact LogOk.val_refl D log _ _
      | (k, e) :: es =>
        simp only [evalNamed]
        have h1 := iVal c e count log hE (fun d => by have := hD d; simp_all [namedD])
        split
        · rename_i v c1 l1 hEq
          refine LogOk.after h1 hEq ?_
          have h2 := iNamed c es c1 l1 hE (fun d => by have := hD d; simp_all [namedD])
          revert h2
          generalize evalNamed c f es c1 l1 = r
          intro h2
          cases r <;> exact h2
        · rename_i l hEq
          exact LogOk.limit_of h1 hEq
        · trivial
        · trivial

end FluentProofs.ResolverRefine
