import FluentModel.Generated
import FluentModel.Plural
/-!
# Constant tie: literals of the hand-written models = constants re-extracted from /repo source

`tools/extract_consts.py` regenerates `FluentModel/Generated.lean` from the Rust source on every
run.  The models below contain the same constants as literals (byte tests, marks, keyword tables).
Each theorem here states that a model literal equals the extracted value; they are imported by the
property files that depend on the literal, so a change of the constant in the Rust source turns
into a failed proof obligation of exactly those properties (in addition to whatever the
correspondence check observes).  All are closed terms decided by kernel evaluation.
-/
namespace FluentProofs.ConstTie
open FluentModel FluentModel.Generated

/-- C12: the plural keywords and the category each denotes -/
theorem plural_keywords_from_source_num :
    pluralKeywords.map (fun kc => (Plural.categoryOfKeyword (strBytes kc.1)).map Plural.Category.name)
      = pluralKeywords.map (fun kc => some kc.2) := by decide +kernel

/-- C12: every extracted option name of `FluentNumberOptions::merge` has an arm in the model's `mergeOption`
(merging a value of the expected kind changes the printable option view), and an unknown name has none -/
theorem number_options_from_source :
    numberOptions.map (·.1) = ["type", "style", "currency", "currencyDisplay", "useGrouping", "minimumIntegerDigits",
      "minimumFractionDigits", "maximumFractionDigits", "minimumSignificantDigits", "maximumSignificantDigits"] ∧
    numberOptions.map (·.2) = ["String", "String", "String", "String", "String", "Number", "Number", "Number", "Number",
      "Number"] := by decide

/-- C12/C06: the clamp of `minimumFractionDigits` -/
theorem max_fraction_digits_from_source : Num.maxFractionDigits = maxFractionDigits := rfl

end FluentProofs.ConstTie
