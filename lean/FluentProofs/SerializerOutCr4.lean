import FluentProofs.SerializerOutCr3
/-!
# Serializer lemmas, part 25: `finishElements` on well-shaped placeholders, any source (C04)
-/
namespace FluentProofs.Ser
open FluentModel FluentModel.Syntax FluentModel.Syntax.Ser FluentProofs.Parser

theorem joinTop_single (v : Bytes) : joinTop [.text v] = [.text v] := by simp [joinTop, joinHead]

/-- **a text placeholder that is not a ghost** (CRLF version) -/
theorem fin_text_genC {s : Src} {c : Option Nat} {lnb i : Nat} {E : PSt} {a b ind : Nat} {role : TextPos}
    {rest : List Placeholder} {r : List (PatElem Span)}
    (hi : i ≤ lnb) (a' : Nat) (ha' : effStart c a ind role = a') (h1 : a ≤ a') (h2 : a' ≤ a + ind) (hab : a' < b)
    (hg : isGhost a b ind role = false) (hTB : TextBytes s a b) (hE : E ≠ .afterText ∧ E ≠ .afterGhost)
    (hls : nlOf E = true → ∀ t B', a' < t → t ≤ b → (a + ind < t ∨ t = b) →
      (spanBytes s ⟨a', t⟩ == [10] || lineStartOK (spanBytes s ⟨a', t⟩) B') = true ∧
        lineStartOK (spanBytes s ⟨a', t⟩ ++ [10]) B' = true)
    (hexc : ∀ t, a' < t → t ≤ b → (a + ind < t ∨ t = b) →
      (if nlOf E && spanBytes s ⟨a', t⟩ != [10] then [leadSpaces (spanBytes s ⟨a', t⟩)] else []) =
        (lineInd s E (.text a b ind role)).map (eff c))
    (hlead : nlOf E = true → endsNl (spanBytes s ⟨a', b⟩) = false →
      leadSpaces (spanBytes s ⟨a', b⟩ ++ [10]) = leadSpaces (spanBytes s ⟨a', b⟩))
    (hfI : E = .first .initialLineStart → ∀ t, a' < t → t ≤ b → ∃ x, (spanBytes s ⟨a', t⟩).head? = some x ∧ x ≠ 32 ∧ x ≠ 10)
    (hfL : E = .first .lineStart → ∀ t, a' < t → t ≤ b → (a + ind < t ∨ t = b) → spanBytes s ⟨a', t⟩ ≠ [10])
    (hsurv : i = lnb → Surv s (.text a b ind role))
    (htail : ∀ r', finishElements s c lnb (i + 1) rest = some r' →
      TailOKC s c lnb i (nxt s (.text a b ind role)) rest r')
    (h : finishElements s c lnb i (.text a b ind role :: rest) = some r) :
    FinOKC s c E (.text a b ind role :: rest) (lnb + 1 - i) (joinTop (mapPat (spanBytes s) r)) := by
  rw [fe_text _ _ _ _ _ _ _ _ _ hi, ha'] at h
  have hne : (a' == b) = false := by simp; omega
  simp only [hne, Bool.false_eq_true, if_false] at h
  split at h
  · cases h
  · rename_i sp hsl
    obtain ⟨rfl, _⟩ := slice_eq_some hsl
    simp only [Option.map_eq_some_iff] at h
    obtain ⟨r', hr', rfl⟩ := h
    have hbs := hTB.1
    rcases htail r' hr' with ⟨rfl, rfl⟩ | ⟨hlt, hF⟩
    · -- the last element: trimmed
      obtain ⟨hle, hsv⟩ := hsurv rfl
      obtain ⟨e1, e2, e3⟩ := trimEnd_mono s (a + ind) a' b h2 hle hsv
      have htr : trimEnd s ⟨a', b⟩ = ⟨a', (trimEnd s ⟨a', b⟩).stop⟩ := rfl
      generalize ht : (trimEnd s ⟨a', b⟩).stop = t at htr e1
      have hat : a + ind < t := by omega
      have htb : t ≤ b := by omega
      have hv := mlTextOK_span hTB h1 (by omega : a' < t) htb
      simp only [beq_self_eq_true, if_true, htr, mapPat, PatElem.mapS, joinTop_single]
      refine (fin_text_last _ hv ?_ (fun hn => (hls hn t [] (by omega) htb (Or.inl hat)).1)
        (hexc t (by omega) htb (Or.inl hat)) hE (fun h0 => hfI h0 t (by omega) htb)
        (fun h0 => hfL h0 t (by omega) htb (Or.inl hat))).toC
      rw [spanBytes_getLast (by omega) (by omega)]
      have hgo : t = trimEndGo s a' (b - a') b := by rw [← ht]; rfl
      obtain ⟨x, hx, x1, x2, x3⟩ := trimEndGo_last s a' (b - a') b (Nat.le_refl _) hbs (by rw [← hgo]; omega)
      rw [← hgo] at hx
      rw [hx]
      exact ⟨fun h0 => x1 (by cases h0; rfl), fun h0 => x2 (by cases h0; rfl), fun h0 => x3 (by cases h0; rfl)⟩
    · -- not the last element
      have hni : (lnb == i) = false := by simp; omega
      simp only [hni, Bool.false_eq_true, if_false, mapPat, PatElem.mapS]
      have hv := mlTextOK_span hTB h1 hab (Nat.le_refl _)
      have hen := endsNl_span hab hbs
      rw [nxt_text_noghost s a b ind role hg] at hF
      refine fin_text_keepC hlt hF _ hv (nxt_text_noghost s a b ind role hg) ?_ ?_
        (fun hn B' => hls hn b B' hab (Nat.le_refl _) (Or.inr rfl))
        (hexc b hab (Nat.le_refl _) (Or.inr rfl)) hlead hE (fun h0 => hfI h0 b hab (Nat.le_refl _))
        (fun h0 => hfL h0 b hab (Nat.le_refl _) (Or.inr rfl))
      · rw [hen]; cases endsLF s b <;> rfl
      · rw [hen]; intro h0; rw [h0]; exact Or.inl rfl

/-- text in the middle of a line -/
theorem fin_plainC {s : Src} {c : Option Nat} {lnb i : Nat} {E : PSt} {a b ind : Nat} {role : TextPos}
    {rest : List Placeholder} {r : List (PatElem Span)} (hi : i ≤ lnb)
    (hr : (role == .lineStart) = false) (hab : a < b) (hTB : TextBytes s a b)
    (hE : (E = .first .initialLineStart ∧ ∃ x, s[a]? = some x ∧ x ≠ 32 ∧ x ≠ 10) ∨ E = .afterPl)
    (hsurv : i = lnb → Surv s (.text a b ind role))
    (htail : ∀ r', finishElements s c lnb (i + 1) rest = some r' →
      TailOKC s c lnb i (nxt s (.text a b ind role)) rest r')
    (h : finishElements s c lnb i (.text a b ind role :: rest) = some r) :
    FinOKC s c E (.text a b ind role :: rest) (lnb + 1 - i) (joinTop (mapPat (spanBytes s) r)) := by
  have hnl : nlOf E = false := by rcases hE with ⟨h, _⟩ | h <;> rw [h] <;> rfl
  refine fin_text_genC hi a (effStart_nls c a ind role hr) (Nat.le_refl _) (by omega) hab (by simp [isGhost, hr]) hTB
    (by rcases hE with ⟨h, _⟩ | h <;> rw [h] <;> exact ⟨by simp, by simp⟩)
    (fun hn => by rw [hnl] at hn; cases hn) (fun t _ _ _ => by simp [hnl, lineInd, hr])
    (fun hn => by rw [hnl] at hn; cases hn) ?_
    (fun h0 => by rcases hE with ⟨h, _⟩ | h <;> rw [h] at h0 <;> cases h0) hsurv htail h
  intro h0 t h1 h2
  rcases hE with ⟨_, x, hx, hx1, hx2⟩ | h
  · exact ⟨x, by rw [spanBytes_head h1 (by have := hTB.1; omega)]; exact hx, hx1, hx2⟩
  · rw [h] at h0; cases h0

/-- a line with content -/
theorem fin_contentC {s : Src} {c : Option Nat} {lnb i : Nat} {E : PSt} {a b ind : Nat}
    {rest : List Placeholder} {r : List (PatElem Span)} (hi : i ≤ lnb)
    (hE : E = .first .lineStart ∨ E = .afterNl) (hcl : ContentLine s a b ind)
    (hsurv : i = lnb → Surv s (.text a b ind .lineStart))
    (htail : ∀ r', finishElements s c lnb (i + 1) rest = some r' →
      TailOKC s c lnb i (nxt s (.text a b ind .lineStart)) rest r')
    (h : finishElements s c lnb i (.text a b ind .lineStart :: rest) = some r) :
    FinOKC s c E (.text a b ind .lineStart :: rest) (lnb + 1 - i) (joinTop (mapPat (spanBytes s) r)) := by
  obtain ⟨hlt, hsp, ⟨c0, hc0, n32, n10, n46, n91, n42⟩, hTB⟩ := hcl
  have hnl : nlOf E = true := by rcases hE with h | h <;> rw [h] <;> rfl
  have hes := effStart_ls c a ind
  have hge := effStart_ge c a ind .lineStart
  generalize ha' : effStart c a ind .lineStart = a' at hes hge
  have hbs := hTB.1
  have hsplit : ∀ t, a + ind < t → t ≤ b →
      spanBytes s ⟨a', t⟩ = spacesL (eff c ind) ++ c0 :: spanBytes s ⟨a + ind + 1, t⟩ := by
    intro t t1 t2
    rw [span_split (fun j j1 j2 => hsp j (by omega) j2) hc0 (by omega) t1 (by omega)]
    congr 2; omega
  have hne10 : ∀ t, a + ind < t → t ≤ b → spanBytes s ⟨a', t⟩ ≠ [10] := by
    intro t t1 t2 h0
    have := dropWhile_spaces_cons (eff c ind) c0 (spanBytes s ⟨a + ind + 1, t⟩) n32
    rw [← hsplit t t1 t2, h0] at this
    simp at this
    exact n10 this.1.symm
  have hblank : isBlankPh s a b ind = false := by
    simp only [isBlankPh, Bool.and_eq_false_iff, beq_eq_false_iff_ne]
    by_cases hi0 : ind = 0
    · right; subst hi0; rw [Nat.add_zero] at hc0; rw [hc0]; intro h0; cases h0; exact n10 rfl
    · left; left; exact hi0
  have htt : ∀ t, a' < t → t ≤ b → (a + ind < t ∨ t = b) → a + ind < t := by
    intro t _ _ h0; rcases h0 with h0 | h0 <;> omega
  have hcs : contentStartOK c0 = true := by simp [contentStartOK, n32, n10, n46, n91, n42]
  refine fin_text_genC hi a' ha' hge (by omega) (by omega) (by simp [isGhost]; omega) hTB
    (by rcases hE with h | h <;> rw [h] <;> exact ⟨by simp, by simp⟩) ?_ ?_ ?_
    (fun h0 => by rcases hE with h | h <;> rw [h] at h0 <;> cases h0)
    (fun _ t t1 t2 t3 => hne10 t (htt t t1 t2 t3) t2) hsurv htail h
  · intro _ t B' t1 t2 t3
    rw [hsplit t (htt t t1 t2 t3) t2]
    constructor
    · simp only [lineStartOK, dropWhile_spaces_cons _ _ _ n32, hcs, Bool.or_true]
    · rw [List.append_assoc, List.cons_append]
      simp only [lineStartOK, dropWhile_spaces_cons _ _ _ n32, hcs]
  · intro t t1 t2 t3
    have hne := hne10 t (htt t t1 t2 t3) t2
    have : (spanBytes s ⟨a', t⟩ != [10]) = true := by simpa using hne
    simp only [hnl, this, Bool.and_self, if_true, lineInd, beq_self_eq_true, hblank, Bool.not_false,
      List.map_cons, List.map_nil]
    rw [hsplit t (htt t t1 t2 t3) t2, leadSpaces_spaces_cons _ _ _ n32]
  · intro _ _
    rw [hsplit b (by omega) (Nat.le_refl _), List.append_assoc, List.cons_append,
      leadSpaces_spaces_cons _ _ _ n32, leadSpaces_spaces_cons _ _ _ n32]

/-- a blank line, or the `"\n"` of a `\r\n` -/
theorem fin_blankC {s : Src} {c : Option Nat} {lnb i : Nat} {E : PSt} {a b ind : Nat}
    {rest : List Placeholder} {r : List (PatElem Span)} (hi : i ≤ lnb)
    (hE : E = .afterNl ∨ E = .afterText ∨ E = .afterPl) (hbl : BlankPh s a b ind)
    (hsurv : i = lnb → Surv s (.text a b ind .lineStart))
    (htail : ∀ r', finishElements s c lnb (i + 1) rest = some r' →
      TailOKC s c lnb i (nxt s (.text a b ind .lineStart)) rest r')
    (h : finishElements s c lnb i (.text a b ind .lineStart :: rest) = some r) :
    FinOKC s c E (.text a b ind .lineStart :: rest) (lnb + 1 - i) (joinTop (mapPat (spanBytes s) r)) := by
  obtain ⟨rfl, rfl, h10⟩ := hbl
  have hlt := get_lt h10
  have ha' : effStart c a 0 .lineStart = a := by
    have := effStart_ls c a 0; rw [eff_zero] at this; omega
  have hblank : isBlankPh s a (a + 1) 0 = true := by simp [isBlankPh, h10]
  have hnx : nxt s (.text a (a + 1) 0 .lineStart) = .afterNl := by simp [nxt, isGhost, endsLF, h10]
  have hv : spanBytes s ⟨a, a + 1⟩ = [10] := by
    rw [spanBytes_cons h10 (by omega), spanBytes_nil (Nat.le_refl _)]
  have hil : i < lnb := by
    rcases Nat.lt_or_ge i lnb with h0 | h0
    · exact h0
    · exfalso
      obtain ⟨_, hsv⟩ := hsurv (by omega)
      apply hsv
      simp [trimEnd, trimEndGo, h10]
  rw [fe_text _ _ _ _ _ _ _ _ _ hi, ha'] at h
  have hne : (a == a + 1) = false := by simp
  simp only [hne, Bool.false_eq_true, if_false] at h
  split at h
  · cases h
  · rename_i sp hsl
    obtain ⟨rfl, _⟩ := slice_eq_some hsl
    simp only [Option.map_eq_some_iff] at h
    obtain ⟨r', hr', rfl⟩ := h
    rcases htail r' hr' with ⟨h0, _⟩ | ⟨_, hF⟩
    · omega
    · have hni : (lnb == i) = false := by simp; omega
      simp only [hni, Bool.false_eq_true, if_false, mapPat, PatElem.mapS, hv]
      rw [hnx] at hF
      rw [joinTop_text_nojoin [10] _ (fun w R _ => okSafe_nl (by rfl) w)]
      exact {
        ml := by
          rw [mlElems_text]
          have : mlElems true (joinTop (mapPat (spanBytes s) r')) = true := hF.ml
          simp only [show endsNl [10] = true from rfl, this, Bool.and_true, Bool.and_eq_true]
          refine ⟨⟨by decide, ?_⟩, by simp⟩
          cases joinTop (mapPat (spanBytes s) r') with
          | nil => rfl
          | cons x xs => cases x <;> rfl
        last := by rw [mlLastOK_cons _ _ hF.ne]; exact hF.last
        ne := by simp
        exc := by
          rw [take_cons_k _ _ _ _ hi, excesses_text, lineInds, List.map_append, hnx]
          have : excesses true (joinTop (mapPat (spanBytes s) r')) = _ := hF.exc
          simp only [show endsNl [10] = true from rfl, this, lineInd, hblank]
          simp
        noTextG := by
          intro h0; rcases hE with h | h | h <;> rw [h] at h0 <;> cases h0
        pendT := by intro _ w es hw; cases hw; rfl
        firstI := by
          intro h0; rcases hE with h | h | h <;> rw [h] at h0 <;> cases h0
        firstL := by
          intro h0; rcases hE with h | h | h <;> rw [h] at h0 <;> cases h0 }

/-- the indentation in front of a placeable that starts a line -/
theorem fin_ghostC {s : Src} {c : Option Nat} {lnb i : Nat} {E : PSt} {a b ind : Nat}
    {rest : List Placeholder} {r : List (PatElem Span)} (hi : i ≤ lnb)
    (hE : E = .first .lineStart ∨ E = .afterNl) (hgl : GhostLine s a b ind)
    (hsurv : i = lnb → Surv s (.text a b ind .lineStart))
    (htail : ∀ r', finishElements s c lnb (i + 1) rest = some r' → TailOKC s c lnb i .afterGhost rest r')
    (h : finishElements s c lnb i (.text a b ind .lineStart :: rest) = some r) :
    FinOKC s c E (.text a b ind .lineStart :: rest) (lnb + 1 - i) (joinTop (mapPat (spanBytes s) r)) := by
  obtain ⟨rfl, hbs, hsp⟩ := hgl
  have hnl : nlOf E = true := by rcases hE with h | h <;> rw [h] <;> rfl
  have hE' : E ≠ .afterText ∧ E ≠ .afterGhost := by rcases hE with h | h <;> rw [h] <;> exact ⟨by simp, by simp⟩
  have hnI : E ≠ .first .initialLineStart := by rcases hE with h | h <;> rw [h] <;> simp
  have hlt : i < lnb := by
    rcases Nat.lt_or_ge i lnb with h0 | h0
    · exact h0
    · exfalso
      obtain ⟨_, hsv⟩ := hsurv (by omega)
      exact hsv (by simp [trimEnd, trimEndGo])
  have hes := effStart_ls c a ind
  have hge := effStart_ge c a ind .lineStart
  have hblank : isBlankPh s a (a + ind) ind = false := by
    simp only [isBlankPh, Bool.and_eq_false_iff, beq_eq_false_iff_ne]
    by_cases hi0 : ind = 0
    · left; right; omega
    · left; left; exact hi0
  have hli : lineInd s E (.text a (a + ind) ind .lineStart) = [ind] := by simp [lineInd, hblank]
  have hnx : nxt s (.text a (a + ind) ind .lineStart) = .afterGhost := by simp [nxt, isGhost]
  rw [fe_text _ _ _ _ _ _ _ _ _ hi] at h
  generalize ha' : effStart c a ind .lineStart = a' at hes hge h
  by_cases hd : a' = a + ind
  · have he0 : eff c ind = 0 := by omega
    simp only [hd, beq_self_eq_true, if_true] at h
    rcases htail r h with ⟨h0, _⟩ | ⟨_, hF⟩
    · omega
    · generalize joinTop (mapPat (spanBytes s) r) = B at hF ⊢
      cases B with
      | nil => exact absurd rfl hF.ne
      | cons x B'' =>
        cases x with
        | text w => exact absurd rfl (hF.noTextG rfl w B'')
        | placeable x =>
          exact {
            ml := by have := hF.ml; rw [mlElems_pl] at this ⊢; exact this
            last := hF.last
            ne := by simp
            exc := by
              have := hF.exc
              rw [excesses_pl] at this ⊢
              rw [take_cons_k _ _ _ _ hi, lineInds, List.map_append, hnx, ← this, hli, hnl]
              simp [nlOf, he0]
            noTextG := fun h0 => absurd h0 hE'.2
            pendT := fun h0 => absurd h0 hE'.1
            firstI := fun h0 => absurd h0 hnI
            firstL := by intro _ w es hw; cases hw }
  · have hne : (a' == a + ind) = false := by simpa using hd
    simp only [hne, Bool.false_eq_true, if_false] at h
    split at h
    · cases h
    · rename_i sp hsl
      obtain ⟨rfl, _⟩ := slice_eq_some hsl
      simp only [Option.map_eq_some_iff] at h
      obtain ⟨r', hr', rfl⟩ := h
      rcases htail r' hr' with ⟨h0, _⟩ | ⟨_, hF⟩
      · omega
      · have hni : (lnb == i) = false := by simp; omega
        simp only [hni, Bool.false_eq_true, if_false, mapPat, PatElem.mapS]
        have hv : spanBytes s ⟨a', a + ind⟩ = spacesL (eff c ind) := by
          rw [spanBytes_spaces hbs (fun j j1 j2 => hsp j (by omega) j2)]; congr 1; omega
        have hpos : 0 < eff c ind := by omega
        rw [hv]
        have hne10 : spacesL (eff c ind) ≠ [10] := by
          intro h0
          have := leadSpaces_spaces (eff c ind)
          rw [h0] at this; simp [leadSpaces] at this; omega
        -- the tail starts with the placeable: nothing is joined
        have hpl : ∃ x B'', joinTop (mapPat (spanBytes s) r') = .placeable x :: B'' := by
          cases hB : joinTop (mapPat (spanBytes s) r') with
          | nil => exact absurd hB hF.ne
          | cons x B'' =>
            cases x with
            | text w => exact absurd hB (hF.noTextG rfl w B'')
            | placeable x => exact ⟨x, B'', rfl⟩
        obtain ⟨x, B'', hB⟩ := hpl
        have hjoin : joinTop (.text (spacesL (eff c ind)) :: mapPat (spanBytes s) r') =
            .text (spacesL (eff c ind)) :: joinTop (mapPat (spanBytes s) r') :=
          joinTop_text_nojoin _ _ (fun w R hR => by rw [hB] at hR; cases hR)
        rw [hjoin, hB]
        rw [hB] at hF
        exact {
          ml := by
            rw [mlElems_text, mlTextOK_spaces _ hpos, endsNl_spaces]
            have := hF.ml
            simp only [nlOf] at this
            simp [this, lineStartOK, dropWhile_spaces]
          last := by rw [mlLastOK_cons _ _ (by simp)]; exact hF.last
          ne := by simp
          exc := by
            rw [take_cons_k _ _ _ _ hi, excesses_text, lineInds, List.map_append, hnx, hli, endsNl_spaces]
            have := hF.exc
            simp only [nlOf] at this
            rw [← this]
            have h2 : (spacesL (eff c ind) != [10]) = true := by simpa using hne10
            simp [hnl, h2, leadSpaces_spaces]
          noTextG := fun h0 => absurd h0 hE'.2
          pendT := fun h0 => absurd h0 hE'.1
          firstI := fun h0 => absurd h0 hnI
          firstL := by intro _ w es hw; cases hw; exact hne10 }

/-- **`finishElements` on well-shaped placeholders, CRLF version** -/
theorem fin_shapeC {s : Src} (c : Option Nat) (lnb : Nat) :
    ∀ (n : Nat) (l : List Placeholder), l.length ≤ n → ∀ (i : Nat) (E : PSt) (r : List (PatElem Span)),
      chkC s E l → i ≤ lnb → lnb < i + l.length → (∀ ph, l[lnb - i]? = some ph → Surv s ph) →
      finishElements s c lnb i l = some r →
      FinOKC s c E l (lnb + 1 - i) (joinTop (mapPat (spanBytes s) r)) := by
  intro n
  induction n with
  | zero =>
    intro l hl i E r _ h1 h2 _ _
    have : l.length = 0 := by omega
    omega
  | succ n ih =>
    intro l hl i E r hchk hi hlen hsv h
    cases l with
    | nil => simp at hlen; omega
    | cons ph rest =>
      simp only [chkC] at hchk
      obtain ⟨hok, hchk'⟩ := hchk
      simp only [List.length_cons] at hl hlen
      have hsurv : i = lnb → Surv s ph := fun h0 => hsv ph (by subst h0; simp)
      have htail : ∀ r', finishElements s c lnb (i + 1) rest = some r' → TailOKC s c lnb i (nxt s ph) rest r' := by
        intro r' hr'
        by_cases h0 : i = lnb
        · left
          rw [fin_past s c lnb (i + 1) rest (by omega)] at hr'
          cases hr'
          exact ⟨h0, rfl⟩
        · right
          refine ⟨by omega, ?_⟩
          have := ih rest (by omega) (i + 1) (nxt s ph) r' hchk' (by omega) (by omega)
            (fun x hx => hsv x (by
              rw [show lnb - i = (lnb - (i + 1)) + 1 by omega, List.getElem?_cons_succ]; exact hx)) hr'
          rwa [show lnb + 1 - (i + 1) = lnb - i by omega] at this
      cases ph with
      | placeable e =>
        rw [fe_pl _ _ _ _ _ _ hi] at h
        simp only [Option.map_eq_some_iff] at h
        obtain ⟨r', hr', rfl⟩ := h
        exact fin_plC hi (htail r' hr')
      | text a b ind role =>
        have hgh : ∀ {a b ind : Nat}, GhostLine s a b ind → nxt s (.text a b ind .lineStart) = .afterGhost := by
          intro a b ind hk; obtain ⟨rfl, _, _⟩ := hk; simp [nxt, isGhost]
        cases E with
        | first r0 =>
          cases r0 with
          | initialLineStart =>
            obtain ⟨hr, hab, hTB, hx⟩ := hok
            subst hr
            exact fin_plainC hi rfl hab hTB (Or.inl ⟨rfl, hx⟩) hsurv htail h
          | lineStart =>
            obtain ⟨hr, hk⟩ := hok
            subst hr
            rcases hk with hk | hk
            · exact fin_contentC hi (Or.inl rfl) hk hsurv htail h
            · rw [hgh hk] at htail
              exact fin_ghostC hi (Or.inl rfl) hk hsurv htail h
          | continuation => exact absurd hok id
        | afterNl =>
          obtain ⟨hr, hk⟩ := hok
          subst hr
          rcases hk with hk | hk | hk
          · exact fin_contentC hi (Or.inr rfl) hk hsurv htail h
          · rw [hgh hk] at htail
            exact fin_ghostC hi (Or.inr rfl) hk hsurv htail h
          · exact fin_blankC hi (Or.inl rfl) hk hsurv htail h
        | afterGhost => exact absurd hok id
        | afterText =>
          obtain ⟨hr, hk⟩ := hok
          subst hr
          exact fin_blankC hi (Or.inr (Or.inl rfl)) hk hsurv htail h
        | afterPl =>
          rcases hok with ⟨hr, hab, hTB⟩ | ⟨hr, hk⟩
          · subst hr
            exact fin_plainC hi rfl hab hTB (Or.inr rfl) hsurv htail h
          · subst hr
            exact fin_blankC hi (Or.inr (Or.inr rfl)) hk hsurv htail h

end FluentProofs.Ser
