import FluentProofs.SerializerJunkSrcEnd
import FluentProofs.SerializerJunkSrcHead
/-!
# Serializer lemmas, part 20: the Junk entries of a parse tree, seen in the source (C04)

`SrcGood s prev t`: for every Junk entry of the tree `t` (spans into the source `s`): its span starts at a line start that
is not blank, `get_entry` fails there and junk recovery ends at the span's end (`JunkSrc`); behind a message or term the
span starts where that entry ended (`MTStop`); and behind it stands (`Cont`) the end of input, the next Junk, or — at a
line start — the `#` / entry head of the next entry.  `parse_srcGood`: the tree returned by `parse` has this property
(induction along the entry loop).
-/
namespace FluentProofs.Ser
open FluentModel FluentModel.Syntax FluentModel.Syntax.Ser FluentProofs.Parser

/-- the class form of a parsed entry -/
def nE (s : Src) (e : Entry Span) : Entry Bytes := nEntry okSafe (e.mapS (spanBytes s))

theorem normSafe_resolve (s : Src) (t : Resource Span) : normSafe true (resolve s t) = t.map (nE s) := by
  simp only [normSafe, nRes, resolve, Bool.true_or]
  rw [List.filter_eq_self.mpr (fun _ _ => rfl), List.map_map]
  rfl

/-! ## helpers -/

/-- `skip_blank_block` ends in front of a line that is not blank -/
theorem skipBlankBlockGo_blockStop (s : Src) : ∀ (n q c : Nat), s.size - q + 1 ≤ n → BlockStop s (skipBlankBlockGo s n q c).1 := by
  intro n
  induction n with
  | zero => intro q c h; omega
  | succ n ih =>
    intro q c hn
    rw [skipBlankBlockGo]
    have hge := (skipBlankInline_after s q).le
    cases hE : skipEol s (skipBlankInline s q) with
    | some q' =>
      simp only []
      have h1 := skipEol_some hE
      have h2 := get_lt h1.2.1
      exact ih q' (c + 1) (by omega)
    | none =>
      simp only []
      by_cases hlt : skipBlankInline s q < s.size
      · simp only [hlt, if_true]
        intro m c'
        rw [skipBlankBlockGo, hE]
        simp [hlt]
      · simp only [hlt, if_false]
        intro m c'
        have hnone : s[skipBlankInline s q]? = none := by simp; omega
        have hst : skipBlankInline s (skipBlankInline s q) = skipBlankInline s q :=
          skipBlankInline_stay s _ (by rw [hnone]; nofun)
        rw [skipBlankBlockGo, hst, hE]
        simp [hlt]

theorem skipBlankBlock_blockStop (s : Src) (q : Nat) : BlockStop s (skipBlankBlock s q).1 :=
  skipBlankBlockGo_blockStop s _ q 0 (Nat.le_refl _)

theorem entryStart_of_ends {s : Src} {q : Nat} (h : EndsAtEntryStart s q) : EntryStart s q := by
  rcases h with h | ⟨c, hc, hb, _⟩
  · exact Or.inl h
  · refine Or.inr ⟨c, hc, ?_⟩
    simp only [Bool.or_eq_true, beq_iff_eq] at hb
    rcases hb with (hb | hb) | hb
    · exact Or.inl hb
    · exact Or.inr (Or.inl hb)
    · exact Or.inr (Or.inr hb)

/-- the bytes of a span stand in the source -/
theorem at_span {s : Src} (a b : Nat) (hle : b ≤ s.size) : At s a (spanBytes s ⟨a, b⟩) := by
  generalize hbs : spanBytes s ⟨a, b⟩ = bs
  have hlen : bs.length = b - a := by rw [← hbs]; exact spanBytes_length s a b hle
  have hget : ∀ i, i < b - a → bs[i]? = s[a + i]? := by
    intro i hi; rw [← hbs]; exact spanBytes_get' hle hi
  clear hbs
  induction bs generalizing a with
  | nil => trivial
  | cons x xs ih =>
    simp only [List.length_cons] at hlen
    rw [at_cons]
    constructor
    · have := hget 0 (by omega)
      simpa using this.symm
    · exact ih (a + 1) (by omega) (fun i hi => by
        have := hget (i + 1) (by omega)
        simp only [List.getElem?_cons_succ] at this
        rw [show a + (i + 1) = a + 1 + i by omega] at this
        exact this)

/-! ## the property -/

/-- what stands at `p`, where the entry loop (no comment pending) goes on to produce the entries `l` -/
def Cont (s : Src) (p : Nat) : List (Entry Span) → Prop
  | [] => s.size ≤ p
  | e :: es =>
    match e with
    | .junk sp => sp.start = p ∧ p < sp.stop ∧ sp.stop ≤ s.size ∧ Parser.LSE s sp.stop ∧ Cont s sp.stop es
    | e => p < s.size ∧ LS s p ∧ TailB s p ∧ s[p]? = (entryText false (nE s e)).head?

/-- a Junk span in the source -/
structure JunkSrc (s : Src) (sp : Span) : Prop where
  lt : sp.start < sp.stop
  le : sp.stop ≤ s.size
  ls : LS s sp.start
  block : BlockStop s sp.start
  fail : ∃ e q, getEntry s (exprFuel s) sp.start = .err e q ∧ skipToNextEntryStart s sp.start q = some sp.stop
  ends : LS s sp.stop ∨ s.size ≤ sp.stop

/-- every Junk entry of the tree is a `JunkSrc`, starts where a preceding message / term ended, and is followed by
`Cont` -/
def SrcGood (s : Src) : Bool → List (Entry Span) → Prop
  | _, [] => True
  | prev, e :: es =>
    match e with
    | .junk sp => JunkSrc s sp ∧ (prev = true → MTStop s sp.start) ∧ Cont s sp.stop es ∧ SrcGood s false es
    | e => SrcGood s (isMT (nE s e)) es

theorem SrcGood.nonjunk {s : Src} {prev : Bool} {e : Entry Span} {es : List (Entry Span)} (he : e.isJunk = false) :
    SrcGood s prev (e :: es) = SrcGood s (isMT (nE s e)) es := by
  cases e <;> first | rfl | (simp [Entry.isJunk] at he)

/-- a list that starts with an entry that is not Junk: `prev` does not matter -/
theorem SrcGood.prev_irrel {s : Src} {prev prev' : Bool} {l : List (Entry Span)}
    (hl : ∀ e es, l = e :: es → e.isJunk = false) (h : SrcGood s prev l) : SrcGood s prev' l := by
  cases l with
  | nil => trivial
  | cons e es =>
    have he := hl e es rfl
    rw [SrcGood.nonjunk he] at h ⊢
    exact h

/-! ## the first byte of the text of an entry of the class -/

/-- the entry's text starts with a comment -/
def hashHead : Entry Bytes → Bool
  | .comment _ => true
  | .groupComment _ => true
  | .resourceComment _ => true
  | .message m => m.comment.isSome
  | .term t => t.comment.isSome
  | .junk _ => false

theorem commentText_head35 (pre : Bytes) (c : List Bytes) (hp : pre.head? = some 35) (hc : rtComment c = true) :
    (commentText pre c).head? = some 35 := by
  simp only [rtComment, Bool.and_eq_true, Bool.not_eq_true', List.isEmpty_eq_false_iff] at hc
  cases c with
  | nil => exact absurd rfl hc.1
  | cons l ls =>
    cases pre with
    | nil => simp at hp
    | cons x xs => simp at hp; subst hp; simp [commentText]

theorem entryText_head_hash (e : Entry Bytes) (he : rtEntry e = true) (hk : hashHead e = true) :
    (entryText false e).head? = some 35 := by
  cases e with
  | message m =>
    simp only [rtEntry, Bool.and_eq_true] at he
    simp only [hashHead] at hk
    cases hc : m.comment with
    | none => rw [hc] at hk; cases hk
    | some c =>
      rw [hc] at he
      have := commentText_head35 [35] c rfl he.2
      cases hct : commentText [35] c with
      | nil => rw [hct] at this; cases this
      | cons x xs => rw [hct] at this; simp [entryText, hc, optCommentText, hct]; simpa using this
  | term t =>
    simp only [rtEntry, Bool.and_eq_true] at he
    simp only [hashHead] at hk
    cases hc : t.comment with
    | none => rw [hc] at hk; cases hk
    | some c =>
      rw [hc] at he
      have := commentText_head35 [35] c rfl he.2
      cases hct : commentText [35] c with
      | nil => rw [hct] at this; cases this
      | cons x xs => rw [hct] at this; simp [entryText, hc, optCommentText, hct]; simpa using this
  | comment c =>
    have := commentText_head35 [35] c rfl he
    cases hct : commentText [35] c with
    | nil => rw [hct] at this; cases this
    | cons x xs => rw [hct] at this; simp [entryText, hct]; simpa using this
  | groupComment c =>
    have := commentText_head35 [35, 35] c rfl he
    cases hct : commentText [35, 35] c with
    | nil => rw [hct] at this; cases this
    | cons x xs => rw [hct] at this; simp [entryText, hct]; simpa using this
  | resourceComment c =>
    have := commentText_head35 [35, 35, 35] c rfl he
    cases hct : commentText [35, 35, 35] c with
    | nil => rw [hct] at this; cases this
    | cons x xs => rw [hct] at this; simp [entryText, hct]; simpa using this
  | junk c => cases hk

/-- the class of the entries of a tree (what `rtEntry_normSafe_of_parse` gives) -/
def Cls (s : Src) (l : List (Entry Span)) : Prop := ∀ e ∈ l, (∃ c, e = .junk c) ∨ rtEntry (nE s e) = true

theorem Cls.tail {s : Src} {a l : List (Entry Span)} (h : Cls s (a ++ l)) : Cls s l :=
  fun e he => h e (List.mem_append_right _ he)

theorem Cls.rt {s : Src} {l : List (Entry Span)} (h : Cls s l) {e : Entry Span} (he : e ∈ l) (hj : e.isJunk = false) :
    rtEntry (nE s e) = true := by
  rcases h e he with ⟨c, rfl⟩ | h
  · simp [Entry.isJunk] at hj
  · exact h

/-- `Cont` for an entry whose text starts with a comment, at a `#` -/
theorem cont_hash {s : Src} {p : Nat} {e : Entry Span} {es : List (Entry Span)} (hlt : p < s.size) (hls : LS s p)
    (h35 : s[p]? = some 35) (hj : e.isJunk = false) (hrt : rtEntry (nE s e) = true) (hk : hashHead (nE s e) = true) :
    Cont s p (e :: es) := by
  have : Cont s p (e :: es) = (p < s.size ∧ LS s p ∧ TailB s p ∧ s[p]? = (entryText false (nE s e)).head?) := by
    cases e <;> first | rfl | (simp [Entry.isJunk] at hj)
  rw [this]
  exact ⟨hlt, hls, Or.inl h35, by rw [entryText_head_hash _ hrt hk]; exact h35⟩

/-! ## the entry loop -/

/-- the invariant of the loop position: where `skip_blank_block` stopped -/
def PosOK (s : Src) (p : Nat) : Prop := p < s.size → LS s p ∧ BlockStop s p

theorem posOK_after {s : Src} {q : Nat} (h : NextOk s q) : PosOK s (skipBlankBlock s q).1 :=
  fun hlt => ⟨(skipBlankBlock_LSE h).ls hlt, skipBlankBlock_blockStop s q⟩

/-- the rest of the loop after one iteration that added `ab` -/
theorem loop_rest {s : Src} {F N : Nat} {ab : List (Entry Span)} {ae : List PErr} {lc' : Option (List Span)} {cnt' p' : Nat}
    {l : List (Entry Span)} {errs : List PErr}
    (h : parseLoop s F N ([] ++ ab) ([] ++ ae) lc' cnt' p' = .done (l, errs)) :
    ∃ l' errs', parseLoop s F N [] [] lc' cnt' p' = .done (l', errs') ∧ l = ab ++ l' := by
  rw [parseLoop_acc_eq] at h
  obtain ⟨⟨l', errs'⟩, h', heq⟩ := mapD_eq_done h
  simp only [prep, List.nil_append, Prod.mk.injEq] at heq
  exact ⟨l', errs', h', heq.1.symm⟩

/-- **the entry loop produces a `SrcGood` list** -/
theorem parseLoop_srcGood {s : Src} (hs : AsciiThenBoundary s) :
    ∀ (N : Nat) (lc : Option (List Span)) (cnt p : Nat) (prev : Bool) (l : List (Entry Span)) (errs : List PErr),
      parseLoop s (exprFuel s) N [] [] lc cnt p = .done (l, errs) → PosOK s p →
      (lc = none → prev = true → MTStop s p) → Cls s l →
      SrcGood s prev l ∧ (lc = none → Cont s p l) := by
  intro N
  induction N with
  | zero => intro lc cnt p prev l errs h; simp [parseLoop_zero] at h
  | succ N ih =>
    intro lc cnt p prev l errs h hpos hmt hcls
    rw [parseLoop_succ] at h
    by_cases hlt : p < s.size
    · simp only [hlt, if_true] at h
      obtain ⟨hls, hblock⟩ := hpos hlt
      have hlines := getEntry_lines s (exprFuel s) p
      cases hge : getEntry s (exprFuel s) p with
      | ok e q =>
        rw [hge] at hlines
        have hnext : PosOK s (skipBlankBlock s q).1 := posOK_after hlines.2.1
        cases e with
        | comment c =>
          simp only [loopStep, hge] at h
          obtain ⟨l', errs', h', rfl⟩ := loop_rest h
          have h35 := getEntry_comment_hash hge (Or.inl ⟨c, rfl⟩)
          obtain ⟨rest, hhead⟩ := parseLoop_pending_head h'
          -- the head of `l'` carries the comment
          have hhd : ∃ e0 rest0, l' = e0 :: rest0 ∧ e0.isJunk = false ∧ hashHead (nE s e0) = true := by
            rcases hhead with h1 | ⟨m, h1⟩ | ⟨t', h1⟩
            · exact ⟨_, _, h1, rfl, rfl⟩
            · exact ⟨_, _, h1, rfl, rfl⟩
            · exact ⟨_, _, h1, rfl, rfl⟩
          obtain ⟨e0, rest0, hl', hj0, hk0⟩ := hhd
          have hcls' : Cls s l' := hcls.tail
          have hirr : ∀ e es, l' = e :: es → e.isJunk = false := by
            intro e es he; rw [hl'] at he; injection he with h1 _; rw [← h1]; exact hj0
          obtain ⟨g1, _⟩ := ih (some c) _ _ false l' errs' h' hnext (fun hx => by cases hx) hcls'
          cases lc with
          | none =>
            simp only [Parser.flushC, List.nil_append]
            refine ⟨SrcGood.prev_irrel hirr g1, fun _ => ?_⟩
            rw [hl']
            exact cont_hash hlt hls h35 hj0 (hcls'.rt (by rw [hl']; exact List.mem_cons_self) hj0) hk0
          | some c0 =>
            simp only [Parser.flushC, List.cons_append, List.nil_append]
            exact ⟨by rw [SrcGood.nonjunk rfl]; exact SrcGood.prev_irrel hirr g1, fun hx => by cases hx⟩
        | message m =>
          obtain ⟨hgm, _⟩ := getEntry_ok_message hge
          have hend := getMessage_end hgm
          have hq : (skipBlankBlock s q).1 = q := by rw [hend.1.blockStop.sbb]
          obtain ⟨⟨E, hbar⟩, hid1, hid2, hid3, hcm⟩ := getMessage_bar hgm hls
          cases lc with
          | none =>
            simp only [loopStep, hge] at h
            obtain ⟨l', errs', h', rfl⟩ := loop_rest h
            obtain ⟨g1, _⟩ := ih none _ _ true l' errs' h' hnext (fun _ _ => by rw [hq]; exact hend) hcls.tail
            refine ⟨by rw [List.singleton_append, SrcGood.nonjunk rfl]; exact g1, fun _ => ?_⟩
            rw [List.singleton_append]
            refine ⟨hlt, hls, Or.inr ⟨E, hbar⟩, ?_⟩
            have hrt := hcls.rt (e := .message m) (by simp) rfl
            have hidne : spanBytes s m.id ≠ [] := by
              intro h0
              have := spanBytes_length s m.id.start m.id.stop hid3
              rw [h0] at this; simp at this; omega
            have : (entryText false (nE s (.message m))).head? = (spanBytes s m.id).head? := by
              simp only [nE, Entry.mapS, nEntry, entryText, hcm, Option.map_none, optCommentText, List.nil_append,
                List.append_assoc]
              cases hb : spanBytes s m.id with
              | nil => exact absurd hb hidne
              | cons x xs => simp
            rw [this, show m.id = ⟨m.id.start, m.id.stop⟩ from rfl, spanBytes_head (by omega) hid3, hid1]
          | some c0 =>
            by_cases hc2 : cnt < 2
            · simp only [loopStep, hge, hc2, if_true] at h
              obtain ⟨l', errs', h', rfl⟩ := loop_rest h
              obtain ⟨g1, _⟩ := ih none _ _ true l' errs' h' hnext (fun _ _ => by rw [hq]; exact hend) hcls.tail
              exact ⟨by rw [List.singleton_append, SrcGood.nonjunk rfl]; exact g1, fun hx => by cases hx⟩
            · simp only [loopStep, hge, hc2, if_false] at h
              obtain ⟨l', errs', h', rfl⟩ := loop_rest h
              obtain ⟨g1, _⟩ := ih none _ _ true l' errs' h' hnext (fun _ _ => by rw [hq]; exact hend) hcls.tail
              exact ⟨by simp only [List.cons_append, List.nil_append]; rw [SrcGood.nonjunk rfl, SrcGood.nonjunk rfl]; exact g1,
                fun hx => by cases hx⟩
        | term t' =>
          obtain ⟨hgt, h45⟩ := getEntry_ok_term hge
          have hend := getTerm_end hgt
          have hq : (skipBlankBlock s q).1 = q := by rw [hend.1.blockStop.sbb]
          obtain ⟨⟨E, hbar⟩, _, hcm⟩ := getTerm_bar hgt hls
          cases lc with
          | none =>
            simp only [loopStep, hge] at h
            obtain ⟨l', errs', h', rfl⟩ := loop_rest h
            obtain ⟨g1, _⟩ := ih none _ _ true l' errs' h' hnext (fun _ _ => by rw [hq]; exact hend) hcls.tail
            refine ⟨by rw [List.singleton_append, SrcGood.nonjunk rfl]; exact g1, fun _ => ?_⟩
            rw [List.singleton_append]
            refine ⟨hlt, hls, Or.inr ⟨E, hbar⟩, ?_⟩
            rw [h45]
            simp [nE, Entry.mapS, nEntry, entryText, hcm, optCommentText]
          | some c0 =>
            by_cases hc2 : cnt < 2
            · simp only [loopStep, hge, hc2, if_true] at h
              obtain ⟨l', errs', h', rfl⟩ := loop_rest h
              obtain ⟨g1, _⟩ := ih none _ _ true l' errs' h' hnext (fun _ _ => by rw [hq]; exact hend) hcls.tail
              exact ⟨by rw [List.singleton_append, SrcGood.nonjunk rfl]; exact g1, fun hx => by cases hx⟩
            · simp only [loopStep, hge, hc2, if_false] at h
              obtain ⟨l', errs', h', rfl⟩ := loop_rest h
              obtain ⟨g1, _⟩ := ih none _ _ true l' errs' h' hnext (fun _ _ => by rw [hq]; exact hend) hcls.tail
              exact ⟨by simp only [List.cons_append, List.nil_append]; rw [SrcGood.nonjunk rfl, SrcGood.nonjunk rfl]; exact g1,
                fun hx => by cases hx⟩
        | groupComment c =>
          simp only [loopStep, hge] at h
          obtain ⟨l', errs', h', rfl⟩ := loop_rest h
          have h35 := getEntry_comment_hash hge (Or.inr (Or.inl ⟨c, rfl⟩))
          obtain ⟨g1, _⟩ := ih none _ _ false l' errs' h' hnext (fun _ hx => by cases hx) hcls.tail
          cases lc with
          | none =>
            simp only [Parser.flushC, List.nil_append, List.singleton_append]
            refine ⟨by rw [SrcGood.nonjunk rfl]; exact g1, fun _ => ?_⟩
            exact cont_hash hlt hls h35 rfl (hcls.rt (e := .groupComment c) (by simp [Parser.flushC]) rfl) rfl
          | some c0 =>
            simp only [Parser.flushC, List.cons_append, List.nil_append]
            exact ⟨by rw [SrcGood.nonjunk rfl, SrcGood.nonjunk rfl]; exact g1, fun hx => by cases hx⟩
        | resourceComment c =>
          simp only [loopStep, hge] at h
          obtain ⟨l', errs', h', rfl⟩ := loop_rest h
          have h35 := getEntry_comment_hash hge (Or.inr (Or.inr ⟨c, rfl⟩))
          obtain ⟨g1, _⟩ := ih none _ _ false l' errs' h' hnext (fun _ hx => by cases hx) hcls.tail
          cases lc with
          | none =>
            simp only [Parser.flushC, List.nil_append, List.singleton_append]
            refine ⟨by rw [SrcGood.nonjunk rfl]; exact g1, fun _ => ?_⟩
            exact cont_hash hlt hls h35 rfl (hcls.rt (e := .resourceComment c) (by simp [Parser.flushC]) rfl) rfl
          | some c0 =>
            simp only [Parser.flushC, List.cons_append, List.nil_append]
            exact ⟨by rw [SrcGood.nonjunk rfl, SrcGood.nonjunk rfl]; exact g1, fun hx => by cases hx⟩
        | junk c => exact absurd (getEntry_not_junk s _ p _ q hge) (by simp [Entry.isJunk])
      | err e q =>
        -- Junk
        have hq12 : p ≤ q ∧ q ≤ s.size ∧ (q = p → ∀ b, s[p]? = some b → isEntryByte b = false) := by
          rcases getEntry_post hs p hlt with ⟨e', hr, hne⟩ | hg
          · rw [hge] at hr; injection hr with _ hq; subst hq
            exact ⟨Nat.le_refl _, Nat.le_of_lt hlt, fun _ => hne⟩
          · rw [hge] at hg
            simp only [good_err] at hg
            exact ⟨by omega, hg.2, fun hx => by omega⟩
        obtain ⟨q1, hsk, hpq1, hbq1⟩ := skipToNextEntryStart_spec s p q hq12.1 hq12.2.1 hlt hq12.2.2
        have hsl : slice s p q1 = some ⟨p, q1⟩ := slice_ok (by omega) (bnd_of_LS hs hls) hbq1
        simp only [loopStep, hge, hsk, hsl] at h
        obtain ⟨l', errs', h', rfl⟩ := loop_rest h
        have hends := skipToNextEntryStart_ends s p q q1 hsk
        have hst : EntryStart s q1 := entryStart_of_ends hends
        have hq1 : skipBlankBlock s q1 = (q1, 0) := hst.blockStop.sbb
        rw [hq1] at h'
        have hpos1 : PosOK s q1 := fun hlt1 => ⟨(endsAtEntryStart_LSE hends).ls hlt1, hst.blockStop⟩
        have hcls' : Cls s l' := hcls.tail
        obtain ⟨g1, g2⟩ := ih none 0 q1 false l' errs' h' hpos1 (fun _ hx => by cases hx) hcls'
        have hjs : JunkSrc s ⟨p, q1⟩ :=
          ⟨hpq1, hbq1.le, hls, hblock, ⟨e, q, hge, hsk⟩, endsAtEntryStart_LSE hends⟩
        cases lc with
        | none =>
          simp only [Parser.flushC, List.nil_append, List.singleton_append]
          exact ⟨⟨hjs, fun hp => hmt rfl hp, g2 rfl, g1⟩, fun _ => ⟨rfl, hpq1, hbq1.le, endsAtEntryStart_LSE hends, g2 rfl⟩⟩
        | some c0 =>
          simp only [Parser.flushC, List.cons_append, List.nil_append]
          exact ⟨by rw [SrcGood.nonjunk rfl]; exact ⟨hjs, fun hp => absurd hp (by simp [nE, Entry.mapS, nEntry, isMT]), g2 rfl, g1⟩,
            fun hx => by cases hx⟩
      | panic m => simp [loopStep, hge] at h
      | fuel => simp [loopStep, hge] at h
    · simp only [hlt, if_false] at h
      injection h with h
      simp only [List.nil_append, Prod.mk.injEq] at h
      obtain ⟨rfl, _⟩ := h
      cases lc with
      | none => exact ⟨trivial, fun _ => by simp only [Parser.flushC, Cont]; omega⟩
      | some c0 => exact ⟨by simp only [Parser.flushC]; rw [SrcGood.nonjunk rfl]; trivial, fun hx => by cases hx⟩

/-- **the tree returned by `parse` is `SrcGood`** (every source) -/
theorem parse_srcGood {s : Src} (hs : AsciiThenBoundary s) {t : Resource Span} {errs : List PErr}
    (h : parse s = .done (t, errs)) : Cls s t ∧ SrcGood s false t := by
  have hcls : Cls s t := fun e he =>
    rtEntry_normSafe_of_parse_all s t errs h e he
  unfold parse at h
  exact ⟨hcls, (parseLoop_srcGood hs _ none 0 _ false t errs h (posOK_after (Or.inl (LS_zero s)))
    (fun _ hx => by cases hx) hcls).1⟩

end FluentProofs.Ser
