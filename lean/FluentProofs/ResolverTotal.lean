import FluentProofs.Resolver
/-!
# Fuel sufficiency for the resolver model (C06, part 2)

The fuel of the model bounds the *depth* of the call chain (siblings get the same fuel).  The chain
is bounded because

* inside one pattern's AST the calls descend structurally (`depthElems`/`depthExpr`/`depthInline`
  count the model calls per AST level, list spines included);
* following a message/term reference (`track` → `writePattern` of another pattern of the bundle) can
  only happen below a placeable of a pattern, and entering a placeable increments the counter; the
  counter is monotone over the whole call (not only along the chain), at most
  `maxPlaceables + 1`, and once `dirty` is set `writeElems` returns at once.

Potential: `G S (R sc)` with `R sc` = number of counter increments still possible
(`0` when dirty, else `maxPlaceables + 1 - placeables`) and `G S r = r * (S + 1) + 3`, where `S`
bounds `depthPat` of every pattern reachable through `env.msg`/`env.term`.
-/
namespace FluentProofs.Resolver
open FluentModel FluentModel.Syntax FluentModel.Resolver

/-! ## syntactic depth (number of nested model calls spent inside one pattern's AST) -/

mutual
def depthInline : Inline Bytes → Nat
  | .str _ => 1
  | .num _ => 1
  | .var _ => 1
  | .msg _ _ => 1
  | .term _ _ .none => 2
  | .term _ _ (some (p, n)) => 2 + max (depthInlines p) (depthNamed n)
  | .fn _ p n => 2 + max (depthInlines p) (depthNamed n)
  | .placeable e => 1 + depthExpr e
def depthInlines : List (Inline Bytes) → Nat
  | [] => 1
  | x :: xs => 1 + max (1 + depthInline x) (depthInlines xs)
def depthNamed : List (Bytes × Inline Bytes) → Nat
  | [] => 1
  | (_, x) :: xs => 1 + max (1 + depthInline x) (depthNamed xs)
def depthExpr : Expr Bytes → Nat
  | .inline e => 1 + depthInline e
  | .select s vs => 1 + max (1 + depthInline s) (depthVariants vs)
def depthVariants : List (Variant Bytes) → Nat
  | [] => 1
  | v :: vs => max (depthVariant v) (depthVariants vs)
def depthVariant : Variant Bytes → Nat
  | .mk _ val _ => 2 + depthElems val
def depthElems : List (PatElem Bytes) → Nat
  | [] => 1
  | e :: es => 1 + max (depthElem e) (depthElems es)
def depthElem : PatElem Bytes → Nat
  | .text _ => 0
  | .placeable e => depthExpr e
end

/-- depth of a pattern: `writePattern` + the element loop + the deepest placeable -/
def depthPat (p : Pattern Bytes) : Nat := 1 + depthElems p

def depthArgs : Option (List (Inline Bytes) × List (Bytes × Inline Bytes)) → Nat
  | .none => 1
  | some (p, n) => 1 + max (depthInlines p) (depthNamed n)

/-- a pattern the resolver can reach through a reference: value or attribute of a message or term -/
def Reach (env : Env) (p : Pattern Bytes) : Prop :=
  (∃ id m, env.msg id = some m ∧ (m.value = some p ∨ ∃ a, findAttr m.attributes a = some p)) ∨
  (∃ id t, env.term id = some t ∧ (t.value = p ∨ ∃ a, findAttr t.attributes a = some p))

/-! ## the potential -/

def G (S r : Nat) : Nat := r * (S + 1) + 3

theorem G_mono {S a b : Nat} (h : a ≤ b) : G S a ≤ G S b := by
  unfold G; exact Nat.add_le_add_right (Nat.mul_le_mul_right _ h) _
theorem G_succ (S r : Nat) : G S (r + 1) = G S r + S + 1 := by
  unfold G; rw [Nat.succ_mul]; omega
theorem G_ge (S r : Nat) : 3 ≤ G S r := by unfold G; omega

/-- counter increments still possible -/
def R (sc : Scope) : Nat := if sc.dirty then 0 else Generated.maxPlaceables + 1 - sc.placeables
/-- increments still possible after the next one -/
def P (sc : Scope) : Nat := Generated.maxPlaceables - sc.placeables

/-- fuel that suffices for `writeElems` -/
def EN (S : Nat) (els : List (PatElem Bytes)) (sc : Scope) : Nat :=
  if sc.dirty then 1 else depthElems els + G S (P sc)
/-- fuel that suffices for `writePattern` -/
def PN (S : Nat) (p : Pattern Bytes) (sc : Scope) : Nat :=
  if sc.dirty then 2 else 1 + depthElems p + G S (P sc)
/-- fuel that suffices for `track` of a pattern of depth ≤ `S` -/
def TN (S : Nat) (sc : Scope) : Nat :=
  if sc.dirty then 3 else 1 + S + G S (P sc)

theorem R_congr {a b : Scope} (h : Same a b) : R a = R b := by unfold R; rw [h.1, h.2.1]
theorem P_congr {a b : Scope} (h : Same a b) : P a = P b := by unfold P; rw [h.1]
theorem EN_congr {S : Nat} {els : List (PatElem Bytes)} {a b : Scope} (h : Same a b) : EN S els a = EN S els b := by
  unfold EN; rw [P_congr h, h.2.1]
theorem PN_congr {S : Nat} {p : Pattern Bytes} {a b : Scope} (h : Same a b) : PN S p a = PN S p b := by
  unfold PN; rw [P_congr h, h.2.1]

theorem Step.R_le {a b : Scope} (h : Step a b) : R b ≤ R a := by
  unfold R
  have := h.placeables
  have := h.dirty
  cases ha : a.dirty <;> cases hb : b.dirty <;> simp_all
  omega

theorem Step.P_le {a b : Scope} (h : Step a b) : P b ≤ P a := by
  unfold P; have := h.placeables; omega

theorem GR_clean {S : Nat} {sc : Scope} (hok : ScopeOk sc) (hd : sc.dirty = false) :
    G S (R sc) = G S (P sc) + S + 1 := by
  have : R sc = P sc + 1 := by
    unfold R P; rw [hd]
    rcases hok with h | ⟨_, h⟩
    · simp; omega
    · rw [hd] at h; cases h
  rw [this, G_succ]

theorem TN_le {S : Nat} {sc : Scope} (hok : ScopeOk sc) : TN S sc ≤ G S (R sc) := by
  unfold TN
  cases hd : sc.dirty
  · simp; rw [GR_clean hok hd]; omega
  · simp; exact G_ge _ _

theorem PN_le {S : Nat} (p : Pattern Bytes) (sc : Scope) : PN S p sc ≤ 1 + depthElems p + G S (R sc) := by
  unfold PN
  cases hd : sc.dirty
  · simp
    apply G_mono; unfold R P; rw [hd]; simp; omega
  · simp; have := G_ge S (R sc); omega

/-! ## variants -/

theorem selectVariant_depth (env : Env) (vs : List (Variant Bytes)) (sel : Value) (v : Pattern Bytes)
    (h : selectVariant env vs sel = .ok (some v)) : 2 + depthElems v ≤ depthVariants vs := by
  induction vs with
  | nil => simp [selectVariant] at h
  | cons x rest ih =>
    obtain ⟨key, value, d⟩ := x
    simp only [selectVariant] at h
    simp only [depthVariants, depthVariant]
    split at h
    · cases h
    · cases h; omega
    · have := ih h; omega

theorem defaultVariant_depth (vs : List (Variant Bytes)) (v : Pattern Bytes)
    (h : defaultVariant vs = some v) : 2 + depthElems v ≤ depthVariants vs := by
  induction vs with
  | nil => simp [defaultVariant] at h
  | cons x rest ih =>
    obtain ⟨key, value, d⟩ := x
    simp only [defaultVariant] at h
    simp only [depthVariants, depthVariant]
    split at h
    · cases h; omega
    · have := ih h; omega

/-! ## the joint statement at fuel `n` -/

structure Tot (env : Env) (S n : Nat) : Prop where
  writeElems : ∀ whole len els w sc, ScopeOk sc → EN S els sc ≤ n →
    writeElems env n whole len els w sc ≠ .fuel
  writePattern : ∀ p w sc, ScopeOk sc → PN S p sc ≤ n → writePattern env n p w sc ≠ .fuel
  track : ∀ p e w sc, ScopeOk sc → depthPat p ≤ S → TN S sc ≤ n → track env n p e w sc ≠ .fuel
  writeExpr : ∀ e w sc, ScopeOk sc → depthExpr e + G S (R sc) ≤ n → writeExpr env n e w sc ≠ .fuel
  writeDefault : ∀ vs w sc, ScopeOk sc → depthVariants vs + G S (R sc) ≤ n → writeDefault env n vs w sc ≠ .fuel
  writeInline : ∀ e w sc, ScopeOk sc → depthInline e + G S (R sc) ≤ n → writeInline env n e w sc ≠ .fuel
  resolveInline : ∀ e sc, ScopeOk sc → 1 + depthInline e + G S (R sc) ≤ n → resolveInline env n e sc ≠ .fuel
  getArguments : ∀ a sc, ScopeOk sc → depthArgs a + G S (R sc) ≤ n → getArguments env n a sc ≠ .fuel
  resolveList : ∀ es sc, ScopeOk sc → depthInlines es + G S (R sc) ≤ n → resolveList env n es sc ≠ .fuel
  resolveNamed : ∀ es sc, ScopeOk sc → depthNamed es + G S (R sc) ≤ n → resolveNamed env n es sc ≠ .fuel

theorem tot_zero (env : Env) (S : Nat) : Tot env S 0 := by
  constructor
  · intro _ _ els _ sc _ h; exfalso; unfold EN at h; have := G_ge S (P sc); split at h <;> omega
  · intro p _ sc _ h; exfalso; unfold PN at h; split at h <;> omega
  · intro _ _ _ sc _ _ h; exfalso; unfold TN at h; split at h <;> omega
  all_goals (intros; rename_i sc _ h; exfalso; have := G_ge S (R sc); omega)

section step
variable {env : Env} {S n : Nat} (hmax : Generated.maxPlaceables ≤ 254)
  (hS : ∀ p, Reach env p → depthPat p ≤ S) (IH : Tot env S n)
include IH

theorem writePattern_tot (p : Pattern Bytes) (w : Bytes) (sc : Scope) (hok : ScopeOk sc)
    (hf : PN S p sc ≤ n + 1) : writePattern env (n + 1) p w sc ≠ .fuel := by
  simp only [writePattern]
  refine IH.writeElems _ _ _ _ _ hok ?_
  unfold PN at hf; unfold EN
  split at hf <;> simp_all <;> omega

theorem writeDefault_tot (vs : List (Variant Bytes)) (w : Bytes) (sc : Scope) (hok : ScopeOk sc)
    (hf : depthVariants vs + G S (R sc) ≤ n + 1) : writeDefault env (n + 1) vs w sc ≠ .fuel := by
  simp only [writeDefault]
  split
  · rename_i v hv
    have := defaultVariant_depth vs v hv
    have := PN_le (S := S) v sc
    exact IH.writePattern _ _ _ hok (by omega)
  · simp

theorem track_tot (p : Pattern Bytes) (e : Inline Bytes) (w : Bytes) (sc : Scope) (hok : ScopeOk sc)
    (hp : depthPat p ≤ S) (hf : TN S sc ≤ n + 1) : track env (n + 1) p e w sc ≠ .fuel := by
  simp only [track]
  split
  · simp
  · have hsame : Same sc { sc with travelled := sc.travelled ++ [p] } := ⟨rfl, rfl, rfl⟩
    have h := IH.writePattern p w { sc with travelled := sc.travelled ++ [p] } (ScopeOk.congr hsame hok) (by
      rw [← PN_congr hsame]
      unfold TN at hf; unfold PN; unfold depthPat at hp
      split at hf <;> simp_all <;> omega)
    rcases hr : writePattern env n p w { sc with travelled := sc.travelled ++ [p] } with ⟨⟨w1, sc1⟩⟩ | ⟨m⟩ | _
    · simp
    · simp
    · exact absurd hr h

theorem select_tail_tot (vs : List (Variant Bytes)) (w : Bytes) (sc1 : Scope) (selector : Value)
    (hok : ScopeOk sc1) (hf : depthVariants vs + G S (R sc1) ≤ n) :
    (match selectVariant env vs selector with
      | .ok (some v) => writePattern env n v w sc1
      | .ok .none => writeDefault env n vs w sc1
      | .panic m => .panic m
      | .fuel => .fuel) ≠ .fuel := by
  rcases hr : selectVariant env vs selector with ⟨_ | v⟩ | ⟨m⟩ | _
  · exact IH.writeDefault _ _ _ hok hf
  · have := selectVariant_depth env vs selector v hr
    have := PN_le (S := S) v sc1
    exact IH.writePattern _ _ _ hok (by omega)
  · simp
  · exact absurd hr (selectVariant_ne_fuel env vs selector)

include hmax in
theorem writeExpr_tot (e : Expr Bytes) (w : Bytes) (sc : Scope) (hok : ScopeOk sc)
    (hf : depthExpr e + G S (R sc) ≤ n + 1) : writeExpr env (n + 1) e w sc ≠ .fuel := by
  cases e with
  | inline e =>
    simp only [depthExpr] at hf
    simp only [writeExpr]; exact IH.writeInline _ _ _ hok (by omega)
  | select sel vs =>
    simp only [depthExpr] at hf
    simp only [writeExpr]
    rcases hr : resolveInline env n sel sc with ⟨⟨selector, sc1⟩⟩ | ⟨m⟩ | _
    · have hst := ((inv_all hmax env n).resolveInline sel sc).step_of_ok hr
      have hok1 := hst.ok hok
      have hm := G_mono (S := S) hst.R_le
      have hf1 : depthVariants vs + G S (R sc1) ≤ n := by omega
      cases selector with
      | str b => exact select_tail_tot IH vs w sc1 _ hok1 hf1
      | num b => exact select_tail_tot IH vs w sc1 _ hok1 hf1
      | custom t => exact IH.writeDefault _ _ _ hok1 hf1
      | none => exact IH.writeDefault _ _ _ hok1 hf1
      | error => exact IH.writeDefault _ _ _ hok1 hf1
    · simp
    · exact absurd hr (IH.resolveInline sel sc hok (by omega))

include hmax in
theorem getArguments_tot (a : Option (List (Inline Bytes) × List (Bytes × Inline Bytes))) (sc : Scope)
    (hok : ScopeOk sc) (hf : depthArgs a + G S (R sc) ≤ n + 1) : getArguments env (n + 1) a sc ≠ .fuel := by
  cases a with
  | none => simp [getArguments]
  | some pn =>
    obtain ⟨pos, named⟩ := pn
    simp only [depthArgs] at hf
    simp only [getArguments]
    rcases hr : resolveList env n pos sc with ⟨⟨vs, sc1⟩⟩ | ⟨m⟩ | _
    · have hst := ((inv_all hmax env n).resolveList pos sc).step_of_ok hr
      have hok1 := hst.ok hok
      have hm := G_mono (S := S) hst.R_le
      simp only []
      rcases hr2 : resolveNamed env n named sc1 with ⟨⟨ns, sc2⟩⟩ | ⟨m⟩ | _
      · simp
      · simp
      · exact absurd hr2 (IH.resolveNamed named sc1 hok1 (by omega))
    · simp
    · exact absurd hr (IH.resolveList pos sc hok (by omega))

include hmax in
theorem resolveList_tot (es : List (Inline Bytes)) (sc : Scope)
    (hok : ScopeOk sc) (hf : depthInlines es + G S (R sc) ≤ n + 1) : resolveList env (n + 1) es sc ≠ .fuel := by
  cases es with
  | nil => simp [resolveList]
  | cons e es =>
    simp only [depthInlines] at hf
    simp only [resolveList]
    rcases hr : resolveInline env n e sc with ⟨⟨v, sc1⟩⟩ | ⟨m⟩ | _
    · have hst := ((inv_all hmax env n).resolveInline e sc).step_of_ok hr
      have hok1 := hst.ok hok
      have hm := G_mono (S := S) hst.R_le
      simp only []
      rcases hr2 : resolveList env n es sc1 with ⟨⟨vs, sc2⟩⟩ | ⟨m⟩ | _
      · simp
      · simp
      · exact absurd hr2 (IH.resolveList es sc1 hok1 (by omega))
    · simp
    · exact absurd hr (IH.resolveInline e sc hok (by omega))

include hmax in
theorem resolveNamed_tot (es : List (Bytes × Inline Bytes)) (sc : Scope)
    (hok : ScopeOk sc) (hf : depthNamed es + G S (R sc) ≤ n + 1) : resolveNamed env (n + 1) es sc ≠ .fuel := by
  cases es with
  | nil => simp [resolveNamed]
  | cons ke es =>
    obtain ⟨k, e⟩ := ke
    simp only [depthNamed] at hf
    simp only [resolveNamed]
    rcases hr : resolveInline env n e sc with ⟨⟨v, sc1⟩⟩ | ⟨m⟩ | _
    · have hst := ((inv_all hmax env n).resolveInline e sc).step_of_ok hr
      have hok1 := hst.ok hok
      have hm := G_mono (S := S) hst.R_le
      simp only []
      rcases hr2 : resolveNamed env n es sc1 with ⟨⟨vs, sc2⟩⟩ | ⟨m⟩ | _
      · simp
      · simp
      · exact absurd hr2 (IH.resolveNamed es sc1 hok1 (by omega))
    · simp
    · exact absurd hr (IH.resolveInline e sc hok (by omega))

omit IH in
theorem restore_ne_fuel {r : RR (Bytes × Scope)} (outer : Option ArgList) (h : r ≠ .fuel) :
    (match r with
      | .ok (w1, sc3) => (.ok (w1, { sc3 with localArgs := outer }) : RR (Bytes × Scope))
      | .panic m => .panic m
      | .fuel => .fuel) ≠ .fuel := by
  rcases r with ⟨⟨w1, sc3⟩⟩ | ⟨m⟩ | _
  · simp
  · simp
  · exact absurd rfl h

omit IH in
theorem writeRefError_ne_fuel (w : Bytes) (sc : Scope) (e : Inline Bytes) : writeRefError w sc e ≠ .fuel := by
  unfold writeRefError; split <;> simp

include hmax hS in
theorem writeInline_tot (e : Inline Bytes) (w : Bytes) (sc : Scope) (hok : ScopeOk sc)
    (hf : depthInline e + G S (R sc) ≤ n + 1) : writeInline env (n + 1) e w sc ≠ .fuel := by
  have hT := TN_le (S := S) hok
  cases e with
  | str v => simp [writeInline]
  | num v => simp [writeInline]
  | msg id attr =>
    simp only [depthInline] at hf
    simp only [writeInline]
    cases hm : env.msg id with
    | none => exact writeRefError_ne_fuel _ _ _
    | some m =>
      cases attr with
      | some a =>
        simp only []
        cases hp : findAttr m.attributes a with
        | none => exact writeRefError_ne_fuel _ _ _
        | some p => exact IH.track _ _ _ _ hok (hS p (Or.inl ⟨id, m, hm, Or.inr ⟨a, hp⟩⟩)) (by omega)
      | none =>
        simp only []
        cases hp : m.value with
        | none => simp
        | some p => exact IH.track _ _ _ _ hok (hS p (Or.inl ⟨id, m, hm, Or.inl hp⟩)) (by omega)
  | term id attr args =>
    simp only [writeInline]
    have hfa : depthArgs args + 1 + G S (R sc) ≤ n + 1 := by
      cases args with
      | none => simp only [depthInline] at hf; simp only [depthArgs]; omega
      | some pn => obtain ⟨p, nm⟩ := pn; simp only [depthInline] at hf; simp only [depthArgs]; omega
    have hda : 1 ≤ depthArgs args := by
      cases args with
      | none => simp [depthArgs]
      | some pn => obtain ⟨p, nm⟩ := pn; simp only [depthArgs]; omega
    rcases hr : getArguments env n args sc with ⟨⟨⟨rp, named⟩, sc1⟩⟩ | ⟨m⟩ | _
    · have hst := ((inv_all hmax env n).getArguments args sc).step_of_ok hr
      have hok1 := hst.ok hok
      have hm := G_mono (S := S) hst.R_le
      simp only []
      apply restore_ne_fuel
      have hsame : Same sc1 { sc1 with localArgs := some named } := ⟨rfl, rfl, rfl⟩
      have hT2 := TN_le (S := S) (ScopeOk.congr hsame hok1)
      rw [← R_congr hsame] at hT2
      cases ht : env.term id with
      | none => exact writeRefError_ne_fuel _ _ _
      | some t =>
        cases attr with
        | none =>
          exact IH.track _ _ _ _ (ScopeOk.congr hsame hok1) (hS _ (Or.inr ⟨id, t, ht, Or.inl rfl⟩)) (by omega)
        | some a =>
          simp only []
          cases hp : findAttr t.attributes a with
          | none => exact writeRefError_ne_fuel _ _ _
          | some p =>
            exact IH.track _ _ _ _ (ScopeOk.congr hsame hok1) (hS p (Or.inr ⟨id, t, ht, Or.inr ⟨a, hp⟩⟩)) (by omega)
    · simp
    · exact absurd hr (IH.getArguments args sc hok (by omega))
  | fn id pos named =>
    simp only [depthInline] at hf
    simp only [writeInline]
    rcases hr : getArguments env n (some (pos, named)) sc with ⟨⟨⟨rp, rn⟩, sc1⟩⟩ | ⟨m⟩ | _
    · simp only []
      split
      · split <;> simp
      · exact writeRefError_ne_fuel _ _ _
    · simp
    · exact absurd hr (IH.getArguments _ sc hok (by simp only [depthArgs]; omega))
  | var id =>
    simp only [writeInline]
    split <;> simp
  | placeable e =>
    simp only [depthInline] at hf
    simp only [writeInline]; exact IH.writeExpr _ _ _ hok (by omega)

theorem resolveInline_tot (e : Inline Bytes) (sc : Scope) (hok : ScopeOk sc)
    (hf : 1 + depthInline e + G S (R sc) ≤ n + 1) : resolveInline env (n + 1) e sc ≠ .fuel := by
  have viaWrite : (match writeInline env n e [] sc with
      | .ok (w, sc1) => (.ok (.str w, sc1) : RR (Value × Scope))
      | .panic m => .panic m
      | .fuel => .fuel) ≠ .fuel := by
    rcases hr : writeInline env n e [] sc with ⟨⟨w, sc1⟩⟩ | ⟨m⟩ | _
    · simp
    · simp
    · exact absurd hr (IH.writeInline e [] sc hok (by omega))
  cases e with
  | str v => simp [resolveInline]
  | num v => simp [resolveInline]
  | var id =>
    simp only [resolveInline]
    repeat' split
    all_goals simp
  | fn id pos named =>
    simp only [depthInline] at hf
    simp only [resolveInline]
    rcases hr : getArguments env n (some (pos, named)) sc with ⟨⟨⟨rp, rn⟩, sc1⟩⟩ | ⟨m⟩ | _
    · simp only []
      split <;> simp
    · simp
    · exact absurd hr (IH.getArguments _ sc hok (by simp only [depthArgs]; omega))
  | msg id attr => simp only [resolveInline]; exact viaWrite
  | term id attr args => simp only [resolveInline]; exact viaWrite
  | placeable e => simp only [resolveInline]; exact viaWrite

include hmax in
theorem writeElems_tot (whole : Pattern Bytes) (len : Nat) (els : List (PatElem Bytes)) (w : Bytes) (sc : Scope)
    (hok : ScopeOk sc) (hf : EN S els sc ≤ n + 1) : writeElems env (n + 1) whole len els w sc ≠ .fuel := by
  cases els with
  | nil => simp [writeElems]
  | cons el rest =>
    cases el with
    | text v =>
      simp only [writeElems]
      split
      · simp
      · rename_i hd
        refine IH.writeElems _ _ _ _ _ hok ?_
        unfold EN at hf ⊢
        simp only [depthElems, depthElem] at hf
        split at hf
        · contradiction
        · simp only [if_neg hd]; omega
    | placeable e =>
      simp only [writeElems]
      split
      · simp
      rename_i hd
      have hd : sc.dirty = false := by cases h : sc.dirty <;> simp_all
      split
      · simp
      split
      · simp
      · rename_i _ hle
        have hle' : ¬ sc.placeables + 1 > Generated.maxPlaceables := hle
        unfold EN at hf
        simp only [depthElems, depthElem, hd, Bool.false_eq_true, ↓reduceIte] at hf
        generalize hsc2 : (if ({ sc with placeables := sc.placeables + 1 } : Scope).travelled.isEmpty = true
          then { sc with placeables := sc.placeables + 1, travelled := [whole] }
          else { sc with placeables := sc.placeables + 1 }) = sc2
        have hsame : Same { sc with placeables := sc.placeables + 1 } sc2 := by
          rw [← hsc2]; split <;> exact ⟨rfl, rfl, rfl⟩
        have hok2 : ScopeOk sc2 := ScopeOk.congr hsame (Or.inl (by show sc.placeables + 1 ≤ _; omega))
        have hR2 : R sc2 = P sc := by
          rw [← R_congr hsame]; unfold R P
          have : ({ sc with placeables := sc.placeables + 1 } : Scope).dirty = sc.dirty := rfl
          rw [this, hd]; show Generated.maxPlaceables + 1 - (sc.placeables + 1) = _; simp
        have hP2 : P sc2 ≤ P sc := by
          rw [← P_congr hsame]; unfold P; show _ - (sc.placeables + 1) ≤ _; omega
        rcases hr : writeExpr env n e (if (env.useIsolating && decide (len > 1) && isolatable e) = true then w ++ fsi else w) sc2
          with ⟨⟨w2, sc3⟩⟩ | ⟨m⟩ | _
        · have hst := ((inv_all hmax env n).writeExpr e _ sc2).step_of_ok hr
          have hok3 := hst.ok hok2
          have hm := G_mono (S := S) (Nat.le_trans hst.P_le hP2)
          simp only []
          refine IH.writeElems _ _ _ _ _ hok3 ?_
          unfold EN
          have := G_ge S (P sc)
          split <;> omega
        · simp
        · exact absurd hr (IH.writeExpr e _ sc2 hok2 (by rw [hR2]; omega))

end step

/-- **fuel sufficiency, joint form**: every function of the block, started in a `ScopeOk` scope with
the stated fuel, does not run out of fuel -/
theorem tot_all (hmax : Generated.maxPlaceables ≤ 254) (env : Env) (S : Nat)
    (hS : ∀ p, Reach env p → depthPat p ≤ S) : ∀ n, Tot env S n := by
  intro n
  induction n with
  | zero => exact tot_zero env S
  | succ n IH =>
    exact ⟨writeElems_tot hmax IH, writePattern_tot IH, track_tot IH, writeExpr_tot hmax IH, writeDefault_tot IH,
      writeInline_tot hmax hS IH, resolveInline_tot IH, getArguments_tot hmax IH, resolveList_tot hmax IH,
      resolveNamed_tot hmax IH⟩

/-! ## top level: `format_pattern` / `write_pattern` -/

/-- explicit fuel bound: `(maxPlaceables + 1) * (S + 1) + 2` for bundles whose patterns have depth ≤ `S` -/
def fuelBound (S : Nat) : Nat := (Generated.maxPlaceables + 1) * (S + 1) + 2

theorem scopeOk_init : ScopeOk ({} : Scope) := Or.inl (Nat.zero_le _)

theorem PN_init_le (S : Nat) (p : Pattern Bytes) (hp : depthPat p ≤ S) : PN S p ({} : Scope) ≤ fuelBound S := by
  unfold PN fuelBound P depthPat at *
  show 1 + depthElems p + G S (Generated.maxPlaceables - 0) ≤ _
  unfold G
  rw [Nat.sub_zero, Nat.succ_mul]; omega

theorem resolvePattern_good (hmax : Generated.maxPlaceables ≤ 254) (env : Env) (fuel : Nat) (p : Pattern Bytes)
    (sc : Scope) : Good env sc (resolvePattern env fuel p sc) := by
  unfold resolvePattern
  split
  · simp only [good_ok]; exact Step.refl _
  · exact (inv_all hmax env fuel).writePattern _ _ _

theorem resolvePattern_ne_fuel (hmax : Generated.maxPlaceables ≤ 254) (env : Env) (S : Nat)
    (hS : ∀ p, Reach env p → depthPat p ≤ S) (fuel : Nat) (p : Pattern Bytes) (hp : depthPat p ≤ S)
    (hf : fuelBound S ≤ fuel) : resolvePattern env fuel p {} ≠ .fuel := by
  unfold resolvePattern
  split
  · simp
  · exact (tot_all hmax env S hS fuel).writePattern p [] {} scopeOk_init (Nat.le_trans (PN_init_le S p hp) hf)

/-- the final scope of a call started in the initial scope -/
theorem final_scope {sc : Scope} (h : Step ({} : Scope) sc) :
    ScopeOk sc ∧ sc.errors.count RErr.tooManyPlaceables = (if sc.dirty then 1 else 0) := by
  refine ⟨h.ok scopeOk_init, ?_⟩
  obtain ⟨l, h1, h2⟩ := h.errors
  have : ({} : Scope).errors = [] := rfl
  rw [h1, this, List.nil_append, h2]
  unfold flip
  have : ({} : Scope).dirty = false := rfl
  rw [this]
  cases sc.dirty <;> simp

end FluentProofs.Resolver
