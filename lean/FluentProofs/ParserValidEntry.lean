import FluentProofs.ParserValidExpr
/-!
# `ValidEntry` pass: attributes, messages, terms, entries and the two entry loops

Hypothesis-free (any byte source, any fuel): every message or term that ends up in the body of
`parse` / `parseRuntime` satisfies `ValidEntry`.
-/
namespace FluentProofs.Parser
open FluentModel FluentModel.Syntax

theorem getPattern_patOk {s : Src} {fuel p : Nat} {o : Option (Pattern Span)} {q : Nat}
    (h : getPattern s fuel p = .ok o q) : ∀ els, o = some els → patOk s els = true :=
  (vspecs_all s fuel).pattern p o q h

theorem getAttribute_attrOk {s : Src} {fuel p : Nat} {a : Attribute Span} {q : Nat}
    (h : getAttribute s fuel p = .ok a q) : attrOk s a = true := by
  unfold getAttribute at h
  rcases hr : getIdentifier s p with ⟨id, q1⟩ | ⟨e1, q1⟩ | m | _ <;> simp only [hr] at h <;> try contradiction
  rcases hr2 : expectByte s (skipBlankInline s q1) 61 with ⟨u, q2⟩ | ⟨e1, q2⟩ | m | _ <;> simp only [hr2] at h <;>
    try contradiction
  rcases hr3 : getPattern s fuel q2 with ⟨o, q3⟩ | ⟨e1, q3⟩ | m | _ <;> simp only [hr3] at h <;> try contradiction
  cases o with
  | none => simp only [] at h; contradiction
  | some pat =>
    simp only [] at h
    injection h with h1 h2; subst h1
    simp [attrOk, getIdentifier_identOk hr, getPattern_patOk hr3 pat rfl]

theorem getAttributesGo_attrOk {s : Src} {fuel n : Nat} {acc attrs : List (Attribute Span)} {p q : Nat}
    (h : getAttributesGo s fuel n acc p = .ok attrs q) (hacc : acc.all (attrOk s) = true) :
    attrs.all (attrOk s) = true := by
  induction n generalizing acc p with
  | zero => simp [getAttributesGo] at h
  | succ n ih =>
    simp only [getAttributesGo] at h
    rcases takeByteIf_cases s (skipBlankInline s p) 46 with ⟨ht, _⟩ | ⟨ht, _⟩ <;> rw [ht] at h <;> simp only [] at h
    · simp only [Bool.not_true, Bool.false_eq_true, if_false] at h
      rcases hr : getAttribute s fuel (skipBlankInline s p + 1) with ⟨a, q1⟩ | ⟨e1, q1⟩ | m | _ <;> simp only [hr] at h <;>
        try contradiction
      · refine ih h ?_
        simp [List.all_append, hacc, getAttribute_attrOk hr]
      · injection h with h1 h2; subst h1; exact hacc
    · simp only [Bool.not_false, if_true] at h
      injection h with h1 h2; subst h1; exact hacc

theorem getAttributes_attrOk {s : Src} {fuel p : Nat} {attrs : List (Attribute Span)} {q : Nat}
    (h : getAttributes s fuel p = .ok attrs q) : attrs.all (attrOk s) = true :=
  getAttributesGo_attrOk h rfl

theorem getMessage_valid {s : Src} {fuel es p : Nat} {m : Message Span} {q : Nat}
    (h : getMessage s fuel es p = .ok m q) : validEntry s (.message m) = true := by
  unfold getMessage at h
  rcases hr : getIdentifier s p with ⟨id, q1⟩ | ⟨e1, q1⟩ | m' | _ <;> simp only [hr] at h <;> try contradiction
  rcases hr2 : expectByte s (skipBlankInline s q1) 61 with ⟨u, q2⟩ | ⟨e1, q2⟩ | m' | _ <;> simp only [hr2] at h <;>
    try contradiction
  rcases hr3 : getPattern s fuel q2 with ⟨o, q3⟩ | ⟨e1, q3⟩ | m' | _ <;> simp only [hr3] at h <;> try contradiction
  rcases hr4 : getAttributes s fuel (skipBlankBlock s q3).1 with ⟨attrs, q5⟩ | ⟨e1, q5⟩ | m' | _ <;>
    simp only [hr4] at h <;> try contradiction
  split at h
  · contradiction
  · rename_i hne
    injection h with h1 h2; subst h1
    have hid := getIdentifier_identOk hr
    have hat := getAttributes_attrOk hr4
    have hp := getPattern_patOk hr3
    cases o with
    | none =>
      have : attrs.isEmpty = false := by simpa using hne
      simp [validEntry, hid, hat, this]
    | some v => simp [validEntry, hid, hat, hp v rfl]

theorem getTerm_valid {s : Src} {fuel es p : Nat} {t : Term Span} {q : Nat}
    (h : getTerm s fuel es p = .ok t q) : validEntry s (.term t) = true := by
  unfold getTerm at h
  rcases hr0 : expectByte s p 45 with ⟨u0, p0⟩ | ⟨e1, q1⟩ | m' | _ <;> simp only [hr0] at h <;> try contradiction
  rcases hr : getIdentifier s p0 with ⟨id, q1⟩ | ⟨e1, q1⟩ | m' | _ <;> simp only [hr] at h <;> try contradiction
  rcases hr2 : expectByte s (skipBlankInline s q1) 61 with ⟨u, q2⟩ | ⟨e1, q2⟩ | m' | _ <;> simp only [hr2] at h <;>
    try contradiction
  rcases hr3 : getPattern s fuel (skipBlankInline s q2) with ⟨o, q3⟩ | ⟨e1, q3⟩ | m' | _ <;> simp only [hr3] at h <;>
    try contradiction
  rcases hr4 : getAttributes s fuel (skipBlankBlock s q3).1 with ⟨attrs, q5⟩ | ⟨e1, q5⟩ | m' | _ <;>
    simp only [hr4] at h <;> try contradiction
  cases o with
  | none => simp only [] at h; contradiction
  | some v =>
    simp only [] at h
    injection h with h1 h2; subst h1
    simp [validEntry, getIdentifier_identOk hr, getAttributes_attrOk hr4, getPattern_patOk hr3 v rfl]

theorem getEntry_valid {s : Src} {fuel p : Nat} {e : Entry Span} {q : Nat}
    (h : getEntry s fuel p = .ok e q) : validEntry s e = true := by
  unfold getEntry at h
  split at h
  · rcases hr : getComment s p with ⟨⟨content, level⟩, q1⟩ | ⟨e1, q1⟩ | m' | _ <;> simp only [hr] at h <;>
      try contradiction
    split at h
    · injection h with h1 h2; subst h1; rfl
    · split at h
      · injection h with h1 h2; subst h1; rfl
      · split at h
        · injection h with h1 h2; subst h1; rfl
        · contradiction
  · rcases hr : getTerm s fuel p p with ⟨t, q1⟩ | ⟨e1, q1⟩ | m' | _ <;> simp only [hr] at h <;> try contradiction
    injection h with h1 h2; subst h1; exact getTerm_valid hr
  · rcases hr : getMessage s fuel p p with ⟨t, q1⟩ | ⟨e1, q1⟩ | m' | _ <;> simp only [hr] at h <;> try contradiction
    injection h with h1 h2; subst h1; exact getMessage_valid hr

theorem getEntryRuntime_valid {s : Src} {fuel p : Nat} {o : Option (Entry Span)} {q : Nat}
    (h : getEntryRuntime s fuel p = .ok o q) : ∀ e, o = some e → validEntry s e = true := by
  unfold getEntryRuntime at h
  split at h
  · injection h with h1 h2; subst h1; intro e he; cases he
  · rcases hr : getTerm s fuel p p with ⟨t, q1⟩ | ⟨e1, q1⟩ | m' | _ <;> simp only [hr] at h <;> try contradiction
    injection h with h1 h2; subst h1; intro e he; cases he; exact getTerm_valid hr
  · rcases hr : getMessage s fuel p p with ⟨t, q1⟩ | ⟨e1, q1⟩ | m' | _ <;> simp only [hr] at h <;> try contradiction
    injection h with h1 h2; subst h1; intro e he; cases he; exact getMessage_valid hr

/-! ### the loops -/

/-- all messages and terms of a body (comments stripped) are valid -/
def VB (s : Src) (l : List (Entry Span)) : Prop := ∀ e ∈ msgsTerms l, validEntry s e = true

theorem VB.all {s : Src} {l : List (Entry Span)} (h : VB s l) : ∀ e ∈ l, validEntry s e = true := by
  induction l with
  | nil => intro e he; cases he
  | cons x xs ih =>
    intro e he
    rcases List.mem_cons.mp he with rfl | he
    · cases e with
      | message m => exact h (.message { m with comment := none }) (by simp [msgsTerms])
      | term t => exact h (.term { t with comment := none }) (by simp [msgsTerms])
      | _ => rfl
    · refine ih ?_ e he
      intro y hy
      refine h y ?_
      cases x <;> simp [msgsTerms, hy]

theorem VB.one {s : Src} {e : Entry Span} (h : validEntry s e = true) : ∀ x ∈ msgsTerms [e], validEntry s x = true := by
  intro x hx
  cases e <;> simp [msgsTerms] at hx
  · subst hx; exact h
  · subst hx; exact h

theorem VB.of_eq {s : Src} {l l' : List (Entry Span)} (h : VB s l) (he : msgsTerms l' = msgsTerms l) : VB s l' := by
  unfold VB; rw [he]; exact h

theorem VB.of_eq_append {s : Src} {l l' ex : List (Entry Span)} (h : VB s l)
    (hx : ∀ x ∈ ex, validEntry s x = true) (he : msgsTerms l' = msgsTerms l ++ ex) : VB s l' := by
  unfold VB; rw [he]
  intro e hm
  rcases List.mem_append.mp hm with hm | hm
  · exact h e hm
  · exact hx e hm

theorem parseLoop_valid (s : Src) (fuel n : Nat) (body : List (Entry Span)) (errors : List PErr)
    (lc : Option (List Span)) (lbc p : Nat) (hb : VB s body) :
    ∀ r, parseLoop s fuel n body errors lc lbc p = .done r → VB s r.1 := by
  induction n generalizing body errors lc lbc p with
  | zero => intro r h; simp [parseLoop] at h
  | succ n ih =>
    intro r h
    by_cases hlt : p < s.size
    · rcases parseLoop_step hlt h with ⟨e, q, body', lc', hr, hloop, hm, _⟩ | ⟨e, q, q1, content, body', hr, _, _, hloop, hm, _⟩
      · exact ih _ _ _ _ _ (hb.of_eq_append (VB.one (getEntry_valid hr)) hm) r hloop
      · refine ih _ _ _ _ _ ?_ r hloop
        refine hb.of_eq ?_
        rw [msgsTerms_append, hm]; simp [msgsTerms]
    · exact hb.of_eq (parseLoop_end hlt h).2.1

theorem parseRuntimeLoop_valid (s : Src) (fuel n : Nat) (body : List (Entry Span)) (errors : List PErr)
    (p : Nat) (hb : VB s body) :
    ∀ r, parseRuntimeLoop s fuel n body errors p = .done r → VB s r.1 := by
  induction n generalizing body errors p with
  | zero => intro r h; simp [parseRuntimeLoop] at h
  | succ n ih =>
    intro r h
    by_cases hlt : p < s.size
    · rcases parseRuntimeLoop_step hlt h with ⟨o, q, body', hr, hloop, hm, _⟩ | ⟨e, q, q1, content, hr, _, _, hloop⟩
      · refine ih _ _ _ (hb.of_eq_append ?_ hm) r hloop
        cases o with
        | none => intro x hx; simp [msgsTerms] at hx
        | some e => exact VB.one (getEntryRuntime_valid hr e rfl)
      · refine ih _ _ _ ?_ r hloop
        refine hb.of_eq ?_
        rw [msgsTerms_append]; simp [msgsTerms]
    · have := parseRuntimeLoop_end hlt h
      rw [this]; exact hb

/-- **every entry in the body of `parse` is valid** (any source) -/
theorem parse_valid (s : Src) (body : Resource Span) (errs : List PErr) (h : parse s = .done (body, errs)) :
    ∀ e ∈ body, ValidEntry s e :=
  (parseLoop_valid s _ _ [] [] none 0 _ (fun e he => by cases he) _ h).all

/-- **every entry in the body of `parseRuntime` is valid** (any source) -/
theorem parseRuntime_valid (s : Src) (body : Resource Span) (errs : List PErr)
    (h : parseRuntime s = .done (body, errs)) : ∀ e ∈ body, ValidEntry s e :=
  (parseRuntimeLoop_valid s _ _ [] [] _ (fun e he => by cases he) _ h).all

end FluentProofs.Parser
