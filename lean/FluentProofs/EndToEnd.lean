import FluentModel.Bundle
import FluentProofs.ResolverTotal
import FluentProofs.ResolverBound
/-!
# Lemmas for the end-to-end composition (`Props/E2E.lean`)

* the registry built by `Bundle.ofSources` is finite and every entry of it has an origin: a configured
  function, or a message / term of the tree the runtime parser returned for one of the sources;
* `regDepth` (maximum syntactic depth over the registry) bounds `depthPat` of every pattern the resolver
  can reach (`Reach`), so it is an `S` for `C06.format_total`;
* `regNeed` (maximum text / token size over the registry, a computable function) gives `okPat` for every
  reachable pattern, so it is an `M` for `C06.output_bound`.

The totality of the parser is a hypothesis here (`hp`); `Props/E2E.lean` discharges it with `C01`.
-/
namespace FluentProofs.EndToEnd
open FluentModel FluentModel.Syntax FluentModel.Resolver FluentModel.Bundle FluentProofs.Resolver

/-! ## the registry -/

theorem get_mem {r : Reg} {id : Bytes} {e : Ent} (h : r.get id = some e) : (id, e) ∈ r := by
  unfold Reg.get at h
  rw [Option.map_eq_some_iff] at h
  obtain ⟨kv, hf, rfl⟩ := h
  have h1 := List.find?_some hf
  have h2 := List.mem_of_find?_eq_some hf
  have : kv.1 = id := by simpa using h1
  subst this; exact h2

theorem mem_set {r : Reg} {id : Bytes} {e : Ent} {x : Bytes × Ent} (h : x ∈ r.set id e) :
    x ∈ r ∨ x = (id, e) := by
  unfold Reg.set at h
  split at h
  · rw [List.mem_map] at h
    obtain ⟨kv, hkv, hx⟩ := h
    split at hx
    · exact Or.inr hx.symm
    · exact Or.inl (hx ▸ hkv)
  · rw [List.mem_append] at h
    rcases h with h | h
    · exact Or.inl h
    · exact Or.inr (by simpa using h)

/-- `x` is the registry entry of a message or term of the tree `res` -/
def FromRes (res : Resource Bytes) (x : Bytes × Ent) : Prop :=
  (∃ m, Entry.message m ∈ res ∧ x = (m.id, .message m)) ∨
  (∃ t, Entry.term t ∈ res ∧ x = (t.id, .term t))

theorem FromRes.cons {e : Entry Bytes} {res : Resource Bytes} {x : Bytes × Ent} (h : FromRes res x) :
    FromRes (e :: res) x := by
  rcases h with ⟨m, hm, hx⟩ | ⟨t, ht, hx⟩
  · exact Or.inl ⟨m, List.mem_cons_of_mem _ hm, hx⟩
  · exact Or.inr ⟨t, List.mem_cons_of_mem _ ht, hx⟩

/-- one iteration of `addResource` -/
def step (ov : Bool) (r : Reg) (e : Entry Bytes) : Reg :=
  match e with
  | .message m => if ov || (r.get m.id).isNone then r.set m.id (.message m) else r
  | .term t => if ov || (r.get t.id).isNone then r.set t.id (.term t) else r
  | _ => r

theorem addResource_eq (r : Reg) (ov : Bool) (res : Resource Bytes) :
    addResource r ov res = res.foldl (step ov) r := rfl

theorem mem_step {ov : Bool} {r : Reg} {e : Entry Bytes} {x : Bytes × Ent} (h : x ∈ step ov r e) :
    x ∈ r ∨ FromRes [e] x := by
  unfold step at h
  split at h
  · rename_i m
    split at h
    · rcases mem_set h with h | h
      · exact Or.inl h
      · exact Or.inr (Or.inl ⟨m, List.mem_singleton.2 rfl, h⟩)
    · exact Or.inl h
  · rename_i t
    split at h
    · rcases mem_set h with h | h
      · exact Or.inl h
      · exact Or.inr (Or.inr ⟨t, List.mem_singleton.2 rfl, h⟩)
    · exact Or.inl h
  · exact Or.inl h

theorem mem_foldl_step {ov : Bool} {x : Bytes × Ent} (res : Resource Bytes) :
    ∀ r : Reg, x ∈ res.foldl (step ov) r → x ∈ r ∨ FromRes res x := by
  induction res with
  | nil => intro r h; exact Or.inl h
  | cons e res ih =>
    intro r h
    rw [List.foldl_cons] at h
    rcases ih _ h with h | h
    · rcases mem_step h with h | h
      · exact Or.inl h
      · right
        rcases h with ⟨m, hm, hx⟩ | ⟨t, ht, hx⟩
        · exact Or.inl ⟨m, by rw [List.mem_singleton.1 hm]; exact List.mem_cons_self, hx⟩
        · exact Or.inr ⟨t, by rw [List.mem_singleton.1 ht]; exact List.mem_cons_self, hx⟩
    · exact Or.inr h.cons

/-- every entry of the registry after `add_resource[_overriding]` was there before or is a message/term of
the resource -/
theorem mem_addResource {r : Reg} {ov : Bool} {res : Resource Bytes} {x : Bytes × Ent}
    (h : x ∈ addResource r ov res) : x ∈ r ∨ FromRes res x := by
  rw [addResource_eq] at h; exact mem_foldl_step res r h

theorem mem_addFunctions {x : Bytes × Ent} (fns : List (Bytes × Fn)) :
    ∀ r : Reg, x ∈ addFunctions r fns → x ∈ r ∨ ∃ nf ∈ fns, x = (nf.1, .function nf.2) := by
  induction fns with
  | nil => intro r h; exact Or.inl h
  | cons nf fns ih =>
    intro r h
    unfold addFunctions at h
    rw [List.foldl_cons] at h
    rcases ih _ h with h | ⟨nf', hm, hx⟩
    · split at h
      · rcases mem_set h with h | h
        · exact Or.inl h
        · exact Or.inr ⟨nf, List.mem_cons_self, h⟩
      · exact Or.inl h
    · exact Or.inr ⟨nf', List.mem_cons_of_mem _ hm, hx⟩

/-- where an entry of the bundle's registry comes from -/
def Origin (cfg : BundleCfg) (srcs : List (Bool × String)) (x : Bytes × Ent) : Prop :=
  (∃ nf ∈ cfg.functions, x = (nf.1, .function nf.2)) ∨
  (∃ s ∈ srcs, ∃ res errs, parseRuntime (srcOf s.2) = .done (res, errs) ∧
    FromRes (resolve (srcOf s.2) res) x)

/-- loading never fails when the parser is total on the sources, and the registry only holds what was
there before and entries of the parsed trees -/
theorem loadSources_some (srcs : List (Bool × String))
    (hp : ∀ s ∈ srcs, ∃ r, parseRuntime (srcOf s.2) = .done r) :
    ∀ r0 : Reg, ∃ r, loadSources r0 srcs = some r ∧
      ∀ x ∈ r, x ∈ r0 ∨ ∃ s ∈ srcs, ∃ res errs, parseRuntime (srcOf s.2) = .done (res, errs) ∧
        FromRes (resolve (srcOf s.2) res) x := by
  induction srcs with
  | nil => intro r0; exact ⟨r0, rfl, fun x hx => Or.inl hx⟩
  | cons s rest ih =>
    intro r0
    obtain ⟨⟨res, errs⟩, hres⟩ := hp s List.mem_cons_self
    have hl : loadSource r0 s = some (addResource r0 s.1 (resolve (srcOf s.2) res)) := by
      unfold loadSource; rw [hres]
    obtain ⟨r, hr, hmem⟩ := ih (fun s' hs' => hp s' (List.mem_cons_of_mem _ hs')) (addResource r0 s.1 (resolve (srcOf s.2) res))
    refine ⟨r, by simp only [loadSources, hl, hr], fun x hx => ?_⟩
    rcases hmem x hx with h | ⟨s', hs', res', errs', hp', hf'⟩
    · rcases mem_addResource h with h | h
      · exact Or.inl h
      · exact Or.inr ⟨s, List.mem_cons_self, res, errs, hres, h⟩
    · exact Or.inr ⟨s', List.mem_cons_of_mem _ hs', res', errs', hp', hf'⟩

theorem ofSources_some (cfg : BundleCfg) (srcs : List (Bool × String))
    (hp : ∀ s ∈ srcs, ∃ r, parseRuntime (srcOf s.2) = .done r) :
    ∃ b, Bundle.ofSources cfg srcs = some b ∧ b.cfg = cfg ∧ ∀ x ∈ b.reg, Origin cfg srcs x := by
  obtain ⟨r, hr, hmem⟩ := loadSources_some srcs hp (addFunctions [] cfg.functions)
  refine ⟨⟨cfg, r⟩, by simp [Bundle.ofSources, hr], rfl, fun x hx => ?_⟩
  rcases hmem x hx with h | h
  · rcases mem_addFunctions cfg.functions [] h with h | h
    · cases h
    · exact Or.inl h
  · exact Or.inr h

/-! ## what the resolver sees -/

theorem env_msg {b : Bundle} {args : Option ArgList} {id : Bytes} {m : Message Bytes}
    (h : (b.env args).msg id = some m) : b.reg.get id = some (.message m) := by
  simp only [Bundle.env] at h
  split at h
  · cases h; assumption
  · cases h

theorem env_term {b : Bundle} {args : Option ArgList} {id : Bytes} {t : Term Bytes}
    (h : (b.env args).term id = some t) : b.reg.get id = some (.term t) := by
  simp only [Bundle.env] at h
  split at h
  · cases h; assumption
  · cases h

theorem env_fn {b : Bundle} {args : Option ArgList} {id : Bytes} {f : Fn}
    (h : (b.env args).fn id = some f) : b.reg.get id = some (.function f) := by
  simp only [Bundle.env] at h
  split at h
  · cases h; assumption
  · cases h

theorem findAttr_mem {as : List (Attribute Bytes)} {a : Bytes} {p : Pattern Bytes}
    (h : findAttr as a = some p) : ∃ at' ∈ as, at'.value = p := by
  unfold findAttr at h
  rw [Option.map_eq_some_iff] at h
  obtain ⟨x, hf, hx⟩ := h
  exact ⟨x, List.mem_of_find?_eq_some hf, hx⟩

/-- a pattern of a registry entry: the value or an attribute value of a message or term -/
def EntPat (e : Ent) (p : Pattern Bytes) : Prop :=
  match e with
  | .message m => m.value = some p ∨ ∃ a ∈ m.attributes, a.value = p
  | .term t => t.value = p ∨ ∃ a ∈ t.attributes, a.value = p
  | .function _ => False

/-- everything the resolver can reach through a reference is a pattern of a registry entry -/
theorem reach_entPat {b : Bundle} {args : Option ArgList} {p : Pattern Bytes} (h : Reach (b.env args) p) :
    ∃ x ∈ b.reg, EntPat x.2 p := by
  rcases h with ⟨id, m, hm, hv⟩ | ⟨id, t, ht, hv⟩
  · refine ⟨(id, .message m), get_mem (env_msg hm), ?_⟩
    rcases hv with hv | ⟨a, ha⟩
    · exact Or.inl hv
    · exact Or.inr (findAttr_mem ha)
  · refine ⟨(id, .term t), get_mem (env_term ht), ?_⟩
    rcases hv with hv | ⟨a, ha⟩
    · exact Or.inl hv
    · exact Or.inr (findAttr_mem ha)

/-- the pattern `Bundle.format` starts from is one of them -/
theorem pattern_reach {b : Bundle} {id : Bytes} {attr : Option Bytes} {p : Pattern Bytes}
    (h : b.pattern id attr = some p) (args : Option ArgList) : Reach (b.env args) p := by
  unfold Bundle.pattern at h
  split at h
  · cases h
  · rename_i m hm
    refine Or.inl ⟨id, m, hm, ?_⟩
    cases attr with
    | none => exact Or.inl h
    | some a => exact Or.inr ⟨a, h⟩

/-! ## maxima over the (finite) registry -/

section maxima
variable (f : Pattern Bytes → Nat)

def attrsMax : List (Attribute Bytes) → Nat
  | [] => 0
  | a :: as => max (f a.value) (attrsMax as)

def entMax : Ent → Nat
  | .message m => max (match m.value with | some p => f p | none => 0) (attrsMax f m.attributes)
  | .term t => max (f t.value) (attrsMax f t.attributes)
  | .function _ => 0

/-- maximum of `f` over every value and attribute value of every message and term of the registry -/
def regMax : Reg → Nat
  | [] => 0
  | kv :: r => max (entMax f kv.2) (regMax r)

theorem attrsMax_le {as : List (Attribute Bytes)} {a : Attribute Bytes} (h : a ∈ as) :
    f a.value ≤ attrsMax f as := by
  induction as with
  | nil => cases h
  | cons x as ih =>
    simp only [attrsMax]
    rcases List.mem_cons.1 h with rfl | h
    · exact Nat.le_max_left _ _
    · exact Nat.le_trans (ih h) (Nat.le_max_right _ _)

theorem entMax_le {e : Ent} {p : Pattern Bytes} (h : EntPat e p) : f p ≤ entMax f e := by
  cases e with
  | message m =>
    simp only [entMax]
    rcases h with h | ⟨a, ha, rfl⟩
    · rw [h]; exact Nat.le_max_left _ _
    · exact Nat.le_trans (attrsMax_le f ha) (Nat.le_max_right _ _)
  | term t =>
    simp only [entMax]
    rcases h with rfl | ⟨a, ha, rfl⟩
    · exact Nat.le_max_left _ _
    · exact Nat.le_trans (attrsMax_le f ha) (Nat.le_max_right _ _)
  | function g => cases h

theorem regMax_le {r : Reg} {x : Bytes × Ent} (h : x ∈ r) : entMax f x.2 ≤ regMax f r := by
  induction r with
  | nil => cases h
  | cons kv r ih =>
    simp only [regMax]
    rcases List.mem_cons.1 h with rfl | h
    · exact Nat.le_max_left _ _
    · exact Nat.le_trans (ih h) (Nat.le_max_right _ _)

/-- `regMax f` bounds `f` on every reachable pattern -/
theorem reach_le_regMax {b : Bundle} {args : Option ArgList} {p : Pattern Bytes} (h : Reach (b.env args) p) :
    f p ≤ regMax f b.reg := by
  obtain ⟨x, hx, hp⟩ := reach_entPat h
  exact Nat.le_trans (entMax_le f hp) (regMax_le f hx)

end maxima

/-- the depth bound `S` of the bundle: maximum `depthPat` over the registry -/
def regDepth (r : Reg) : Nat := regMax depthPat r

theorem reach_depth {b : Bundle} {args : Option ArgList} {p : Pattern Bytes} (h : Reach (b.env args) p) :
    depthPat p ≤ regDepth b.reg := reach_le_regMax depthPat h

/-! ## sizes: a computable `M` for `C06.output_bound` -/

/-- named arguments are string / number literals (what `get_inline_expression(only_literal = true)` accepts) -/
def namedLitB : List (Bytes × Inline Bytes) → Bool
  | [] => true
  | (_, .str _) :: r => namedLitB r
  | (_, .num _) :: r => namedLitB r
  | _ :: _ => false

/-- the largest printed literal among named arguments -/
def namedE (env : Env) : List (Bytes × Inline Bytes) → Nat
  | [] => 0
  | (_, .str v) :: r => max (valueString env (.str (env.unescape v))).length (namedE env r)
  | (_, .num v) :: r => max (valueString env (env.tryNumber v)).length (namedE env r)
  | _ :: r => namedE env r

theorem namedLit_of (env : Env) (E : Nat) (n : List (Bytes × Inline Bytes)) :
    namedLitB n = true → namedE env n ≤ E → namedLit env E n := by
  induction n with
  | nil => intro _ _; simp [namedLit]
  | cons ke r ih =>
    obtain ⟨k, e⟩ := ke
    intro hl hE
    cases e with
    | str v =>
      simp only [namedLitB] at hl
      simp only [namedE, Nat.max_le] at hE
      simp only [namedLit]
      exact ⟨hE.1, ih hl hE.2⟩
    | num v =>
      simp only [namedLitB] at hl
      simp only [namedE, Nat.max_le] at hE
      simp only [namedLit]
      exact ⟨hE.1, ih hl hE.2⟩
    | fn _ _ _ => simp [namedLitB] at hl
    | msg _ _ => simp [namedLitB] at hl
    | term _ _ _ => simp [namedLitB] at hl
    | var _ => simp [namedLitB] at hl
    | placeable _ => simp [namedLitB] at hl

mutual
/-- the least `M` (and, for named literals of term calls, `E`) for which the `ok…` predicates of
`ResolverBound` hold below this node -/
def needInline (env : Env) : Inline Bytes → Nat
  | .str v => (env.unescape v).length
  | .num v => (valueString env (env.tryNumber v)).length
  | .var id => tokLen (.var id)
  | .msg id a => tokLen (.msg id a)
  | .term id a .none => tokLen (.term id a .none)
  | .term id a (some (p, n)) =>
    max (tokLen (.term id a (some (p, n)))) (max (needInlines env p) (max (needNamed env n) (namedE env n)))
  | .fn id p n => max (tokLen (.fn id p n)) (max (needInlines env p) (needNamed env n))
  | .placeable e => needExpr env e
def needInlines (env : Env) : List (Inline Bytes) → Nat
  | [] => 0
  | x :: xs => max (needInline env x) (needInlines env xs)
def needNamed (env : Env) : List (Bytes × Inline Bytes) → Nat
  | [] => 0
  | (_, x) :: xs => max (needInline env x) (needNamed env xs)
def needExpr (env : Env) : Expr Bytes → Nat
  | .inline e => needInline env e
  | .select s vs => max (needInline env s) (needVariants env vs)
def needVariants (env : Env) : List (Variant Bytes) → Nat
  | [] => 0
  | v :: vs => max (needVariant env v) (needVariants env vs)
def needVariant (env : Env) : Variant Bytes → Nat
  | .mk _ val _ => max (textBytes env val) (needElems env val)
def needElems (env : Env) : List (PatElem Bytes) → Nat
  | [] => 0
  | e :: es => max (needElem env e) (needElems env es)
def needElem (env : Env) : PatElem Bytes → Nat
  | .text _ => 0
  | .placeable e => max (needExpr env e) (braced (exprWriteError e)).length
end

mutual
/-- every named argument of a term call below this node is a literal -/
def litInline : Inline Bytes → Bool
  | .term _ _ (some (p, n)) => litInlines p && litNamed n && namedLitB n
  | .fn _ p n => litInlines p && litNamed n
  | .placeable e => litExpr e
  | _ => true
def litInlines : List (Inline Bytes) → Bool
  | [] => true
  | x :: xs => litInline x && litInlines xs
def litNamed : List (Bytes × Inline Bytes) → Bool
  | [] => true
  | (_, x) :: xs => litInline x && litNamed xs
def litExpr : Expr Bytes → Bool
  | .inline e => litInline e
  | .select s vs => litInline s && litVariants vs
def litVariants : List (Variant Bytes) → Bool
  | [] => true
  | v :: vs => litVariant v && litVariants vs
def litVariant : Variant Bytes → Bool
  | .mk _ val _ => litElems val
def litElems : List (PatElem Bytes) → Bool
  | [] => true
  | e :: es => litElem e && litElems es
def litElem : PatElem Bytes → Bool
  | .text _ => true
  | .placeable e => litExpr e
end

mutual
theorem okInline_of (env : Env) (M E : Nat) (e : Inline Bytes) (hl : litInline e = true)
    (hM : needInline env e ≤ M) (hE : needInline env e ≤ E) : okInline env M E e := by
  cases e with
  | str v => simpa only [okInline, needInline] using hM
  | num v => simpa only [okInline, needInline] using hM
  | var id => simpa only [okInline, needInline] using hM
  | msg id a => simpa only [okInline, needInline] using hM
  | placeable x =>
    simp only [litInline] at hl
    simp only [needInline] at hM hE
    simp only [okInline]
    exact okExpr_of env M E x hl hM hE
  | fn id p n =>
    simp only [litInline, Bool.and_eq_true] at hl
    simp only [needInline, Nat.max_le] at hM hE
    simp only [okInline]
    exact ⟨hM.1, okInlines_of env M E p hl.1 hM.2.1 hE.2.1, okNamed_of env M E n hl.2 hM.2.2 hE.2.2⟩
  | term id a args =>
    cases args with
    | none => simpa only [okInline, needInline] using hM
    | some pn =>
      obtain ⟨p, n⟩ := pn
      simp only [litInline, Bool.and_eq_true] at hl
      simp only [needInline, Nat.max_le] at hM hE
      simp only [okInline]
      exact ⟨hM.1, okInlines_of env M E p hl.1.1 hM.2.1 hE.2.1, okNamed_of env M E n hl.1.2 hM.2.2.1 hE.2.2.1,
        namedLit_of env E n hl.2 hE.2.2.2⟩
theorem okInlines_of (env : Env) (M E : Nat) (es : List (Inline Bytes)) (hl : litInlines es = true)
    (hM : needInlines env es ≤ M) (hE : needInlines env es ≤ E) : okInlines env M E es := by
  cases es with
  | nil => simp only [okInlines]
  | cons x xs =>
    simp only [litInlines, Bool.and_eq_true] at hl
    simp only [needInlines, Nat.max_le] at hM hE
    simp only [okInlines]
    exact ⟨okInline_of env M E x hl.1 hM.1 hE.1, okInlines_of env M E xs hl.2 hM.2 hE.2⟩
theorem okNamed_of (env : Env) (M E : Nat) (es : List (Bytes × Inline Bytes)) (hl : litNamed es = true)
    (hM : needNamed env es ≤ M) (hE : needNamed env es ≤ E) : okNamed env M E es := by
  cases es with
  | nil => simp only [okNamed]
  | cons kx xs =>
    obtain ⟨k, x⟩ := kx
    simp only [litNamed, Bool.and_eq_true] at hl
    simp only [needNamed, Nat.max_le] at hM hE
    simp only [okNamed]
    exact ⟨okInline_of env M E x hl.1 hM.1 hE.1, okNamed_of env M E xs hl.2 hM.2 hE.2⟩
theorem okExpr_of (env : Env) (M E : Nat) (e : Expr Bytes) (hl : litExpr e = true)
    (hM : needExpr env e ≤ M) (hE : needExpr env e ≤ E) : okExpr env M E e := by
  cases e with
  | inline x =>
    simp only [litExpr] at hl
    simp only [needExpr] at hM hE
    simp only [okExpr]
    exact okInline_of env M E x hl hM hE
  | select s vs =>
    simp only [litExpr, Bool.and_eq_true] at hl
    simp only [needExpr, Nat.max_le] at hM hE
    simp only [okExpr]
    exact ⟨okInline_of env M E s hl.1 hM.1 hE.1, okVariants_of env M E vs hl.2 hM.2 hE.2⟩
theorem okVariants_of (env : Env) (M E : Nat) (vs : List (Variant Bytes)) (hl : litVariants vs = true)
    (hM : needVariants env vs ≤ M) (hE : needVariants env vs ≤ E) : okVariants env M E vs := by
  cases vs with
  | nil => simp only [okVariants]
  | cons v vs =>
    simp only [litVariants, Bool.and_eq_true] at hl
    simp only [needVariants, Nat.max_le] at hM hE
    simp only [okVariants]
    exact ⟨okVariant_of env M E v hl.1 hM.1 hE.1, okVariants_of env M E vs hl.2 hM.2 hE.2⟩
theorem okVariant_of (env : Env) (M E : Nat) (v : Variant Bytes) (hl : litVariant v = true)
    (hM : needVariant env v ≤ M) (hE : needVariant env v ≤ E) : okVariant env M E v := by
  cases v with
  | mk k val d =>
    simp only [litVariant] at hl
    simp only [needVariant, Nat.max_le] at hM hE
    simp only [okVariant]
    exact ⟨hM.1, okElems_of env M E val hl hM.2 hE.2⟩
theorem okElems_of (env : Env) (M E : Nat) (es : List (PatElem Bytes)) (hl : litElems es = true)
    (hM : needElems env es ≤ M) (hE : needElems env es ≤ E) : okElems env M E es := by
  cases es with
  | nil => simp only [okElems]
  | cons x xs =>
    simp only [litElems, Bool.and_eq_true] at hl
    simp only [needElems, Nat.max_le] at hM hE
    simp only [okElems]
    exact ⟨okElem_of env M E x hl.1 hM.1 hE.1, okElems_of env M E xs hl.2 hM.2 hE.2⟩
theorem okElem_of (env : Env) (M E : Nat) (e : PatElem Bytes) (hl : litElem e = true)
    (hM : needElem env e ≤ M) (hE : needElem env e ≤ E) : okElem env M E e := by
  cases e with
  | text v => simp only [okElem]
  | placeable x =>
    simp only [litElem] at hl
    simp only [needElem, Nat.max_le] at hM hE
    simp only [okElem]
    exact ⟨okExpr_of env M E x hl hM.1 hE.1, hM.2⟩
end

/-- text bytes, literals and error tokens of one pattern: the least `M` with `okPat env M _ p` -/
def needPat (env : Env) (p : Pattern Bytes) : Nat := max (textBytes env p) (needElems env p)

theorem okPat_of (env : Env) (M E : Nat) (p : Pattern Bytes) (hl : litElems p = true)
    (hM : needPat env p ≤ M) (hE : needPat env p ≤ E) : okPat env M E p := by
  unfold needPat at hM hE
  rw [Nat.max_le] at hM hE
  exact ⟨hM.1, okElems_of env M E p hl hM.2 hE.2⟩

/-- decidable check on the registry: every named argument of a term call is a literal -/
def attrsLit (as : List (Attribute Bytes)) : Bool := as.all fun a => litElems a.value
def entLit : Ent → Bool
  | .message m => (match m.value with | some p => litElems p | none => true) && attrsLit m.attributes
  | .term t => litElems t.value && attrsLit t.attributes
  | .function _ => true
def regLit (r : Reg) : Bool := r.all fun kv => entLit kv.2

theorem entLit_pat {e : Ent} {p : Pattern Bytes} (hl : entLit e = true) (h : EntPat e p) : litElems p = true := by
  cases e with
  | message m =>
    simp only [entLit, Bool.and_eq_true] at hl
    rcases h with h | ⟨a, ha, rfl⟩
    · rw [h] at hl; exact hl.1
    · exact List.all_eq_true.1 hl.2 a ha
  | term t =>
    simp only [entLit, Bool.and_eq_true] at hl
    rcases h with rfl | ⟨a, ha, rfl⟩
    · exact hl.1
    · exact List.all_eq_true.1 hl.2 a ha
  | function g => cases h

/-- `M` of the loaded bundle: the largest `needPat` over the registry -/
def regNeed (b : Bundle) (args : Option ArgList) : Nat := regMax (needPat (b.env args)) b.reg

/-- every reachable pattern is within `M = regNeed`, for any `E ≥ M` -/
theorem reach_okPat {b : Bundle} {args : Option ArgList} (hl : regLit b.reg = true) {M E : Nat}
    (hM : regNeed b args ≤ M) (hE : regNeed b args ≤ E) {p : Pattern Bytes} (h : Reach (b.env args) p) :
    okPat (b.env args) M E p := by
  have hn := reach_le_regMax (needPat (b.env args)) h
  obtain ⟨x, hx, hp⟩ := reach_entPat h
  have hlp := entLit_pat (List.all_eq_true.1 hl x hx) hp
  exact okPat_of _ M E p hlp (Nat.le_trans hn hM) (Nat.le_trans hn hE)

/-- the largest printed caller argument -/
def argsE (env : Env) : Option ArgList → Nat
  | none => 0
  | some l => l.foldr (fun kv n => max (valueString env kv.2).length n) 0

theorem getL_mem {l : ArgList} {k : Bytes} {v : Value} (h : ArgList.get l k = some v) : ∃ kv ∈ l, kv.2 = v := by
  unfold ArgList.get at h
  induction l with
  | nil => simp [Args.getL] at h
  | cons x l ih =>
    obtain ⟨k', v'⟩ := x
    simp only [Args.getL] at h
    split at h
    · obtain ⟨kv, hm, hv⟩ := ih h
      exact ⟨kv, List.mem_cons_of_mem _ hm, hv⟩
    · split at h
      · cases h
      · cases h; exact ⟨_, List.mem_cons_self, rfl⟩

theorem args_small (env : Env) (args : Option ArgList) (k : Bytes) (v : Value)
    (h : args.bind (·.get k) = some v) : (valueString env v).length ≤ argsE env args := by
  cases args with
  | none => cases h
  | some l =>
    obtain ⟨kv, hm, rfl⟩ := getL_mem (l := l) (k := k) h
    simp only [argsE]
    clear h
    induction l with
    | nil => cases hm
    | cons x l ih =>
      simp only [List.foldr_cons]
      rcases List.mem_cons.1 hm with rfl | hm
      · exact Nat.le_max_left _ _
      · exact Nat.le_trans (ih hm) (Nat.le_max_right _ _)

end FluentProofs.EndToEnd
