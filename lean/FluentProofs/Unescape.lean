import FluentModel.Unescape
import FluentProofs.UnescapeSpec
/-! Lemmas for C13: the byte-cursor model `FluentModel.Unescape` against the character-level `decode`. -/
namespace FluentProofs.Unescape
open FluentModel FluentModel.Unescape FluentProofs.UnescapeSpec

/-- UTF-8 encoding of a list of characters (Lean core's `String.utf8EncodeChar` per character) -/
def enc (cs : List Char) : Bytes := cs.flatMap String.utf8EncodeChar

/-- the `&str` whose characters are `cs` -/
def src (cs : List Char) : Src := (enc cs).toArray

@[simp] theorem enc_nil : enc [] = [] := rfl
theorem enc_cons (c : Char) (cs : List Char) : enc (c :: cs) = String.utf8EncodeChar c ++ enc cs := by
  simp [enc]
theorem enc_append (a b : List Char) : enc (a ++ b) = enc a ++ enc b := by
  simp [enc]
theorem enc_singleton (c : Char) : enc [c] = String.utf8EncodeChar c := by simp [enc]

@[simp] theorem src_size (cs : List Char) : (src cs).size = (enc cs).length := by simp [src]
theorem src_get (cs : List Char) (i : Nat) : (src cs)[i]? = (enc cs)[i]? := by simp [src]

theorem char_lt (c : Char) : c.toNat < 0x110000 := by
  have := c.valid
  simp only [Char.toNat]
  rcases this with h | h
  · have : c.val.toNat < 0xd800 := h
    omega
  · exact h.2

/-- shape of one character's UTF-8: a boundary byte followed by continuation bytes -/
theorem enc_shape (c : Char) :
    ∃ b tl, String.utf8EncodeChar c = b :: tl ∧ byteIsCharBoundary b = true ∧
      (∀ x ∈ tl, byteIsCharBoundary x = false) ∧
      (c.toNat < 128 → tl = [] ∧ b = UInt8.ofNat c.toNat) ∧
      (128 ≤ c.toNat → 128 ≤ b.toNat) := by
  unfold String.utf8EncodeChar
  have hv := char_lt c
  simp only [Char.toNat] at *
  generalize c.val.toNat = v at *
  split
  · refine ⟨_, _, rfl, ?_, ?_, ?_, ?_⟩ <;> simp [byteIsCharBoundary, UInt8.lt_iff_toNat_lt, UInt8.le_iff_toNat_le] <;> omega
  · split
    · refine ⟨_, _, rfl, ?_, ?_, ?_, ?_⟩ <;> simp [byteIsCharBoundary, UInt8.lt_iff_toNat_lt, UInt8.le_iff_toNat_le] <;> omega
    · split
      · refine ⟨_, _, rfl, ?_, ?_, ?_, ?_⟩ <;> simp [byteIsCharBoundary, UInt8.lt_iff_toNat_lt, UInt8.le_iff_toNat_le] <;> omega
      · refine ⟨_, _, rfl, ?_, ?_, ?_, ?_⟩ <;> simp [byteIsCharBoundary, UInt8.lt_iff_toNat_lt, UInt8.le_iff_toNat_le] <;> omega

theorem enc_length_cons (c : Char) (cs : List Char) : (enc (c :: cs)).length = c.utf8Size + (enc cs).length := by
  simp [enc_cons]

/-- byte `j` after the split point of `a ++ b` is byte `j` of `b` -/
theorem get_split (a b : List Char) (j : Nat) : (src (a ++ b))[(enc a).length + j]? = (enc b)[j]? := by
  rw [src_get, enc_append, List.getElem?_append_right (by omega)]
  congr 1; omega

theorem get_split0 (a b : List Char) : (src (a ++ b))[(enc a).length]? = (enc b)[0]? := by
  have := get_split a b 0
  simpa using this

/-- B1: every split point of the character list is a char boundary -/
theorem boundary_split (a b : List Char) : isCharBoundary (src (a ++ b)) (enc a).length = true := by
  unfold isCharBoundary
  rw [get_split0]
  cases b with
  | nil => simp
  | cons c b =>
    obtain ⟨b0, tl, h, hb, -⟩ := enc_shape c
    simp [enc_cons, h, hb]

/-- B2: a position strictly inside a character is not a boundary -/
theorem not_boundary_inside (a : List Char) (c : Char) (b : List Char) (j : Nat) (h0 : 0 < j)
    (hj : j < c.utf8Size) : isCharBoundary (src (a ++ c :: b)) ((enc a).length + j) = false := by
  unfold isCharBoundary
  rw [get_split]
  obtain ⟨b0, tl, h, -, htl, -⟩ := enc_shape c
  have hl : (String.utf8EncodeChar c).length = c.utf8Size := String.length_utf8EncodeChar c
  rw [h] at hl
  simp only [List.length_cons] at hl
  obtain ⟨j', rfl⟩ : ∃ j', j = j' + 1 := ⟨j - 1, by omega⟩
  have hj' : j' < tl.length := by omega
  have : (enc (c :: b))[j' + 1]? = some tl[j'] := by
    rw [enc_cons, h]
    simp [List.getElem?_append_left, hj']
  rw [this]
  have hx := htl tl[j'] (List.getElem_mem hj')
  simp [hx]

/-! ### slices -/

theorem extract_split (a b c : List Char) :
    ((src (a ++ b ++ c)).extract (enc a).length (enc (a ++ b)).length).toList = enc b := by
  simp [src, List.extract_eq_take_drop, enc_append]

/-- `&input[start..ptr]` between two split points is the encoding of the characters in between -/
theorem strGet_split (a b c : List Char) :
    strGet (src (a ++ b ++ c)) (enc a).length (enc (a ++ b)).length = some (enc b) := by
  unfold strGet
  have h1 : isCharBoundary (src (a ++ b ++ c)) (enc a).length = true := by
    rw [List.append_assoc]; exact boundary_split a (b ++ c)
  have h2 : isCharBoundary (src (a ++ b ++ c)) (enc (a ++ b)).length = true := boundary_split (a ++ b) c
  have h3 : (enc a).length ≤ (enc (a ++ b)).length := by simp [enc_append]
  simp [h1, h2, h3, extract_split]

theorem strIndex_split (a b c : List Char) :
    strIndex (src (a ++ b ++ c)) (enc a).length (enc (a ++ b)).length = .done (enc b) := by
  simp [strIndex, strGet_split]

/-! ### scanning plain text -/

theorem loop_scan (S : Src) (m : Nat) : ∀ (q f st : Nat) (out : Bytes),
    (∀ j, j < m → ∃ b, S[q + j]? = some b ∧ b ≠ 0x5C) →
    loop S (f + m) st q out = loop S f st (q + m) out := by
  induction m with
  | zero => intros; rfl
  | succ m ih =>
    intro q f st out h
    obtain ⟨b, hb, hne⟩ := h 0 (by omega)
    have : f + (m + 1) = (f + m) + 1 := by omega
    rw [this, loop]
    simp only [Nat.add_zero] at hb
    simp only [hb, bne_iff_ne, ne_eq, hne, not_false_eq_true, ↓reduceIte]
    rw [ih (q + 1) f st out]
    · congr 1; omega
    · intro j hj
      have := h (j + 1) (by omega)
      have e : q + 1 + j = q + (j + 1) := by omega
      rw [e]; exact this

theorem byte_ne_backslash_of_cont {x : UInt8} (h : byteIsCharBoundary x = false) : x ≠ 0x5C := by
  intro e; subst e; revert h; decide

/-- no byte of the encoding of a character other than `\` is `0x5C` -/
theorem enc_char_no_backslash (c : Char) (hc : c ≠ '\\') : ∀ x ∈ String.utf8EncodeChar c, x ≠ 0x5C := by
  obtain ⟨b0, tl, h, hb, htl, hascii, hhi⟩ := enc_shape c
  intro x hx
  rw [h] at hx
  rcases List.mem_cons.1 hx with rfl | hx
  · intro e
    by_cases hlt : c.toNat < 128
    · have := (hascii hlt).2
      rw [e] at this
      have h2 : (0x5C : UInt8).toNat = (UInt8.ofNat c.toNat).toNat := by rw [this]
      simp at h2
      have : c.toNat = 92 := by omega
      apply hc
      apply Char.ext
      apply UInt32.toNat_inj.1
      exact this
    · have := hhi (by omega)
      rw [e] at this
      simp at this
  · exact byte_ne_backslash_of_cont (htl x hx)

end FluentProofs.Unescape
