import FluentModel.Unescape
import FluentProofs.UnescapeSpec
/-! Lemmas for C13: the byte-cursor model `FluentModel.Unescape` against the character-level `decode`. -/
namespace FluentProofs.Unescape
open FluentModel FluentModel.Unescape FluentProofs.UnescapeSpec

/-- UTF-8 encoding of a list of characters (Lean core's `String.utf8EncodeChar` per character) -/
def enc (cs : List Char) : Bytes := cs.flatMap String.utf8EncodeChar

/-- the `&str` whose characters are `cs` -/
def src (cs : List Char) : Src := (enc cs).toArray

@[simp] theorem enc_nil : enc [] = [] := rfl
theorem enc_cons (c : Char) (cs : List Char) : enc (c :: cs) = String.utf8EncodeChar c ++ enc cs := by
  simp [enc]
theorem enc_append (a b : List Char) : enc (a ++ b) = enc a ++ enc b := by
  simp [enc]
theorem enc_singleton (c : Char) : enc [c] = String.utf8EncodeChar c := by simp [enc]

@[simp] theorem src_size (cs : List Char) : (src cs).size = (enc cs).length := by simp [src]
theorem src_get (cs : List Char) (i : Nat) : (src cs)[i]? = (enc cs)[i]? := by simp [src]

theorem char_lt (c : Char) : c.toNat < 0x110000 := by
  have := c.valid
  simp only [Char.toNat]
  rcases this with h | h
  · have : c.val.toNat < 0xd800 := h
    omega
  · exact h.2

/-- shape of one character's UTF-8: a boundary byte followed by continuation bytes -/
theorem enc_shape (c : Char) :
    ∃ b tl, String.utf8EncodeChar c = b :: tl ∧ byteIsCharBoundary b = true ∧
      (∀ x ∈ tl, byteIsCharBoundary x = false) ∧
      (c.toNat < 128 → tl = [] ∧ b = UInt8.ofNat c.toNat) ∧
      (128 ≤ c.toNat → 128 ≤ b.toNat) := by
  unfold String.utf8EncodeChar
  have hv := char_lt c
  simp only [Char.toNat] at *
  generalize c.val.toNat = v at *
  split
  · refine ⟨_, _, rfl, ?_, ?_, ?_, ?_⟩ <;> simp [byteIsCharBoundary, UInt8.lt_iff_toNat_lt, UInt8.le_iff_toNat_le] <;> omega
  · split
    · refine ⟨_, _, rfl, ?_, ?_, ?_, ?_⟩ <;> simp [byteIsCharBoundary, UInt8.lt_iff_toNat_lt, UInt8.le_iff_toNat_le] <;> omega
    · split
      · refine ⟨_, _, rfl, ?_, ?_, ?_, ?_⟩ <;> simp [byteIsCharBoundary, UInt8.lt_iff_toNat_lt, UInt8.le_iff_toNat_le] <;> omega
      · refine ⟨_, _, rfl, ?_, ?_, ?_, ?_⟩ <;> simp [byteIsCharBoundary, UInt8.lt_iff_toNat_lt, UInt8.le_iff_toNat_le] <;> omega

theorem enc_length_cons (c : Char) (cs : List Char) : (enc (c :: cs)).length = c.utf8Size + (enc cs).length := by
  simp [enc_cons]

/-- byte `j` after the split point of `a ++ b` is byte `j` of `b` -/
theorem get_split (a b : List Char) (j : Nat) : (src (a ++ b))[(enc a).length + j]? = (enc b)[j]? := by
  rw [src_get, enc_append, List.getElem?_append_right (by omega)]
  congr 1; omega

theorem get_split0 (a b : List Char) : (src (a ++ b))[(enc a).length]? = (enc b)[0]? := by
  have := get_split a b 0
  simpa using this

/-- B1: every split point of the character list is a char boundary -/
theorem boundary_split (a b : List Char) : isCharBoundary (src (a ++ b)) (enc a).length = true := by
  unfold isCharBoundary
  rw [get_split0]
  cases b with
  | nil => simp
  | cons c b =>
    obtain ⟨b0, tl, h, hb, -⟩ := enc_shape c
    simp [enc_cons, h, hb]

/-- B2: a position strictly inside a character is not a boundary -/
theorem not_boundary_inside (a : List Char) (c : Char) (b : List Char) (j : Nat) (h0 : 0 < j)
    (hj : j < c.utf8Size) : isCharBoundary (src (a ++ c :: b)) ((enc a).length + j) = false := by
  unfold isCharBoundary
  rw [get_split]
  obtain ⟨b0, tl, h, -, htl, -⟩ := enc_shape c
  have hl : (String.utf8EncodeChar c).length = c.utf8Size := String.length_utf8EncodeChar c
  rw [h] at hl
  simp only [List.length_cons] at hl
  obtain ⟨j', rfl⟩ : ∃ j', j = j' + 1 := ⟨j - 1, by omega⟩
  have hj' : j' < tl.length := by omega
  have : (enc (c :: b))[j' + 1]? = some tl[j'] := by
    rw [enc_cons, h]
    simp [List.getElem?_append_left, hj']
  rw [this]
  have hx := htl tl[j'] (List.getElem_mem hj')
  simp [hx]

/-! ### slices -/

theorem extract_split (a b c : List Char) :
    ((src (a ++ (b ++ c))).extract (enc a).length (enc (a ++ b)).length).toList = enc b := by
  simp [src, List.extract_eq_take_drop, enc_append]

/-- `input.get(start..ptr)` between two split points is the encoding of the characters in between -/
theorem strGet_split (a b c : List Char) :
    strGet (src (a ++ (b ++ c))) (enc a).length (enc (a ++ b)).length = some (enc b) := by
  unfold strGet
  have h1 : isCharBoundary (src (a ++ (b ++ c))) (enc a).length = true := boundary_split a (b ++ c)
  have h2 : isCharBoundary (src (a ++ (b ++ c))) (enc (a ++ b)).length = true := by
    rw [← List.append_assoc]; exact boundary_split (a ++ b) c
  have h3 : (enc a).length ≤ (enc (a ++ b)).length := by simp [enc_append]
  rw [h1, h2, extract_split]
  simp [h3]

/-- `&input[start..ptr]` -/
theorem strIndex_split (a b c : List Char) :
    strIndex (src (a ++ (b ++ c))) (enc a).length (enc (a ++ b)).length = .done (enc b) := by
  unfold strIndex
  rw [strGet_split]

/-! ### scanning plain text -/

theorem loop_scan (S : Src) (m : Nat) : ∀ (q f st : Nat) (out : Bytes),
    (∀ j, j < m → ∃ b, S[q + j]? = some b ∧ b ≠ 0x5C) →
    loop S (f + m) st q out = loop S f st (q + m) out := by
  induction m with
  | zero => intros; rfl
  | succ m ih =>
    intro q f st out h
    obtain ⟨b, hb, hne⟩ := h 0 (by omega)
    have : f + (m + 1) = (f + m) + 1 := by omega
    rw [this, loop]
    simp only [Nat.add_zero] at hb
    simp only [hb, bne_iff_ne, ne_eq, hne, not_false_eq_true, ↓reduceIte]
    rw [ih (q + 1) f st out]
    · congr 1; omega
    · intro j hj
      have := h (j + 1) (by omega)
      have e : q + 1 + j = q + (j + 1) := by omega
      rw [e]; exact this

theorem byte_ne_backslash_of_cont {x : UInt8} (h : byteIsCharBoundary x = false) : x ≠ 0x5C := by
  intro e; subst e; revert h; decide

/-- no byte of the encoding of a character other than `\` is `0x5C` -/
theorem enc_char_no_backslash (c : Char) (hc : c ≠ '\\') : ∀ x ∈ String.utf8EncodeChar c, x ≠ 0x5C := by
  obtain ⟨b0, tl, h, hb, htl, hascii, hhi⟩ := enc_shape c
  intro x hx
  rw [h] at hx
  rcases List.mem_cons.1 hx with rfl | hx
  · intro e
    by_cases hlt : c.toNat < 128
    · have := (hascii hlt).2
      rw [e] at this
      have h2 : (0x5C : UInt8).toNat = (UInt8.ofNat c.toNat).toNat := by rw [this]
      simp at h2
      have : c.toNat = 92 := by omega
      apply hc
      apply Char.ext
      apply UInt32.toNat_inj.1
      exact this
    · have := hhi (by omega)
      rw [e] at this
      simp at this
  · exact byte_ne_backslash_of_cont (htl x hx)

/-! ### the boundary-skip loop -/

theorem dropBytes_suffix (cs : List Char) : ∀ k, ∃ t, cs = t ++ dropBytes k cs := by
  induction cs with
  | nil => intro k; exact ⟨[], by cases k <;> simp [dropBytes]⟩
  | cons c cs ih =>
    intro k
    cases k with
    | zero => exact ⟨[], by simp [dropBytes]⟩
    | succ k =>
      obtain ⟨t, ht⟩ := ih (k + 1 - c.utf8Size)
      refine ⟨c :: t, ?_⟩
      simp only [dropBytes, List.cons_append]
      rw [← ht]

theorem skip_at_boundary (S : Src) (fuel p : Nat) (h : isCharBoundary S p = true) :
    skipToBoundary S (fuel + 1) p = .done p := by
  simp [skipToBoundary, h]

theorem skip_past_end (S : Src) (fuel p : Nat) (h : S.size ≤ p) :
    skipToBoundary S (fuel + 1) p = .done p := by
  have : ¬ p < S.size := by omega
  simp [skipToBoundary, this]

/-- from inside a character the skip loop stops exactly at the end of that character -/
theorem skip_inside (a : List Char) (c : Char) (b : List Char) (d : Nat) : ∀ (j fuel : Nat),
    0 < j → j + d = c.utf8Size → d + 1 ≤ fuel →
    skipToBoundary (src (a ++ c :: b)) fuel ((enc a).length + j) = .done ((enc a).length + c.utf8Size) := by
  induction d with
  | zero =>
    intro j fuel _ hj hf
    obtain ⟨f, rfl⟩ : ∃ f, fuel = f + 1 := ⟨fuel - 1, by omega⟩
    have hb : isCharBoundary (src (a ++ c :: b)) ((enc a).length + j) = true := by
      have := boundary_split (a ++ [c]) b
      simp only [List.append_assoc, List.singleton_append] at this
      rw [enc_append, enc_singleton, List.length_append, String.length_utf8EncodeChar] at this
      have e : j = c.utf8Size := by omega
      rw [e]; exact this
    rw [skip_at_boundary _ _ _ hb]
    congr 2
  | succ d ih =>
    intro j fuel hj0 hj hf
    obtain ⟨f, rfl⟩ : ∃ f, fuel = f + 1 := ⟨fuel - 1, by omega⟩
    have hnb := not_boundary_inside a c b j hj0 (by omega)
    have hlt : (enc a).length + j < (src (a ++ c :: b)).size := by
      simp [enc_append, enc_cons]; omega
    rw [skipToBoundary]
    simp only [hlt, hnb, decide_true, Bool.not_false, Bool.and_self, ↓reduceIte]
    have := ih (j + 1) f (by omega) (by omega) (by omega)
    rw [← this]; congr 1

theorem skip_spec (cs : List Char) : ∀ (a : List Char) (k fuel : Nat),
    (enc (a ++ cs)).length + 1 ≤ fuel →
    ∃ p, skipToBoundary (src (a ++ cs)) fuel ((enc a).length + k) = .done p ∧
      (p + (enc (dropBytes k cs)).length = (enc (a ++ cs)).length ∨
        (dropBytes k cs = [] ∧ (enc (a ++ cs)).length ≤ p)) := by
  induction cs with
  | nil =>
    intro a k fuel hf
    obtain ⟨f, rfl⟩ : ∃ f, fuel = f + 1 := ⟨fuel - 1, by omega⟩
    refine ⟨(enc a).length + k, skip_past_end _ _ _ (by simp), Or.inr ⟨by cases k <;> rfl, by simp⟩⟩
  | cons c cs ih =>
    intro a k fuel hf
    cases k with
    | zero =>
      obtain ⟨f, rfl⟩ : ∃ f, fuel = f + 1 := ⟨fuel - 1, by omega⟩
      refine ⟨(enc a).length, ?_, Or.inl ?_⟩
      · exact skip_at_boundary _ _ _ (boundary_split a (c :: cs))
      · simp [dropBytes, enc_append]
    | succ k =>
      by_cases hk : c.utf8Size ≤ k + 1
      · have e1 : a ++ c :: cs = (a ++ [c]) ++ cs := by simp
        have e2 : (enc a).length + (k + 1) = (enc (a ++ [c])).length + (k + 1 - c.utf8Size) := by
          rw [enc_append, enc_singleton, List.length_append, String.length_utf8EncodeChar]; omega
        have := ih (a ++ [c]) (k + 1 - c.utf8Size) fuel (by rw [← e1]; exact hf)
        rw [← e1, ← e2] at this
        simpa [dropBytes] using this
      · have hpos := c.utf8Size_pos
        have hd : dropBytes (k + 1) (c :: cs) = cs := by
          have : k + 1 - c.utf8Size = 0 := by omega
          simp [dropBytes, this]
        have hlen : (enc (a ++ c :: cs)).length = (enc a).length + c.utf8Size + (enc cs).length := by
          simp [enc_append, enc_cons]; omega
        refine ⟨(enc a).length + c.utf8Size, ?_, Or.inl ?_⟩
        · exact skip_inside a c cs (c.utf8Size - (k + 1)) (k + 1) fuel (by omega) (by omega) (by rw [hlen] at hf; omega)
        · rw [hd, hlen]

/-! ### hex digits: characters (specification) against bytes (model) -/

def toByte (c : Char) : UInt8 := UInt8.ofNat c.toNat

theorem char_le_iff (a b : Char) : a ≤ b ↔ a.toNat ≤ b.toNat := by
  rw [Char.le_def, UInt32.le_iff_toNat_le]; rfl

theorem isHex_iff (c : Char) : isHex c = true ↔
    (48 ≤ c.toNat ∧ c.toNat ≤ 57) ∨ (97 ≤ c.toNat ∧ c.toNat ≤ 102) ∨ (65 ≤ c.toNat ∧ c.toNat ≤ 70) := by
  simp [isHex, char_le_iff, or_assoc]

theorem enc_ascii (c : Char) (h : c.toNat < 128) : String.utf8EncodeChar c = [toByte c] := by
  obtain ⟨b0, tl, he, -, -, hascii, -⟩ := enc_shape c
  obtain ⟨h1, h2⟩ := hascii h
  rw [he, h1, h2]; rfl

theorem utf8Size_ascii (c : Char) (h : c.toNat < 128) : c.utf8Size = 1 := by
  rw [← String.length_utf8EncodeChar, enc_ascii c h]; rfl

theorem toByte_toNat (c : Char) (h : c.toNat < 128) : (toByte c).toNat = c.toNat := by
  simp [toByte]; omega

theorem isAsciiHexDigit_iff (b : UInt8) : isAsciiHexDigit b = true ↔
    (48 ≤ b.toNat ∧ b.toNat ≤ 57) ∨ (65 ≤ b.toNat ∧ b.toNat ≤ 70) ∨ (97 ≤ b.toNat ∧ b.toNat ≤ 102) := by
  simp [isAsciiHexDigit, UInt8.le_iff_toNat_le, or_assoc]

theorem isAsciiHexDigit_toByte (c : Char) (h : isHex c = true) : isAsciiHexDigit (toByte c) = true := by
  have h' := (isHex_iff c).1 h
  rw [isAsciiHexDigit_iff, toByte_toNat c (by omega)]
  omega

theorem hexDigitValue_toByte (c : Char) (h : isHex c = true) : hexDigitValue (toByte c) = some (digitVal c) := by
  have h' := (isHex_iff c).1 h
  have hb := toByte_toNat c (by omega)
  unfold hexDigitValue digitVal
  simp only [UInt8.le_iff_toNat_le, char_le_iff, hb, Bool.and_eq_true, decide_eq_true_eq]
  simp only [show (48 : UInt8).toNat = 48 from rfl, show (57 : UInt8).toNat = 57 from rfl,
    show (65 : UInt8).toNat = 65 from rfl, show (70 : UInt8).toNat = 70 from rfl,
    show (97 : UInt8).toNat = 97 from rfl, show (102 : UInt8).toNat = 102 from rfl,
    show ('0' : Char).toNat = 48 from rfl, show ('9' : Char).toNat = 57 from rfl,
    show ('a' : Char).toNat = 97 from rfl, show ('f' : Char).toNat = 102 from rfl]
  repeat' split
  all_goals first | rfl | omega

theorem digitVal_lt (c : Char) (h : isHex c = true) : digitVal c < 16 := by
  have h' := (isHex_iff c).1 h
  unfold digitVal
  simp only [char_le_iff, Bool.and_eq_true, decide_eq_true_eq,
    show ('0' : Char).toNat = 48 from rfl, show ('9' : Char).toNat = 57 from rfl,
    show ('a' : Char).toNat = 97 from rfl, show ('f' : Char).toNat = 102 from rfl]
  split
  · omega
  · split <;> omega

/-- the encoding of hex-digit characters is one byte per character -/
theorem enc_hex (w : List Char) (h : w.all isHex = true) : enc w = w.map toByte := by
  induction w with
  | nil => rfl
  | cons c w ih =>
    simp only [List.all_cons, Bool.and_eq_true] at h
    have h' := (isHex_iff c).1 h.1
    rw [enc_cons, enc_ascii c (by omega), ih h.2]; rfl

/-- if the first `n` bytes are ASCII hex digits, they are `n` hex-digit characters -/
theorem hex_bytes_chars : ∀ (n : Nat) (r : List Char), n ≤ (enc r).length →
    ((enc r).take n).all isAsciiHexDigit = true →
    (r.take n).length = n ∧ (r.take n).all isHex = true := by
  intro n
  induction n with
  | zero => intro r _ _; simp
  | succ n ih =>
    intro r hn hall
    cases r with
    | nil => simp at hn
    | cons c r =>
      obtain ⟨b0, tl, he, -, -, hascii, hhi⟩ := enc_shape c
      rw [enc_cons, he] at hall hn
      simp only [List.cons_append, List.take_succ_cons, List.all_cons, Bool.and_eq_true] at hall
      have hb0 := (isAsciiHexDigit_iff b0).1 hall.1
      have hc : c.toNat < 128 := by
        rcases Nat.lt_or_ge c.toNat 128 with h | h
        · exact h
        · have := hhi h; omega
      obtain ⟨htl, hb⟩ := hascii hc
      subst htl
      have hcb : b0.toNat = c.toNat := by rw [hb]; exact toByte_toNat c hc
      have hcx : isHex c = true := by rw [isHex_iff]; omega
      simp only [List.nil_append] at hall hn
      have := ih r (by simp at hn; omega) hall.2
      simp [List.take_succ_cons, this.1, this.2, hcx]

theorem radix16_hex (w : List Char) : ∀ (acc m : Nat), w.all isHex = true → acc < 16 ^ m → m + w.length ≤ 8 →
    radix16Digits (w.map toByte) acc = some (w.foldl (fun a c => a * 16 + digitVal c) acc) := by
  induction w with
  | nil => intros; rfl
  | cons c w ih =>
    intro acc m h hacc hm
    simp only [List.all_cons, Bool.and_eq_true] at h
    have hv := digitVal_lt c h.1
    have hp : 16 ^ (m + 1) = 16 ^ m * 16 := by rw [Nat.pow_succ]
    have hle : 16 ^ (m + 1) ≤ 16 ^ 8 := Nat.pow_le_pow_right (by decide) (by simp at hm; omega)
    have h8 : 16 ^ 8 = 4294967296 := by decide
    have hnew : acc * 16 + digitVal c < 16 ^ (m + 1) := by omega
    simp only [List.map_cons, radix16Digits, hexDigitValue_toByte c h.1, List.foldl_cons]
    rw [if_pos (by omega)]
    exact ih _ (m + 1) h.2 hnew (by simp at hm ⊢; omega)

theorem fromStrRadix16_hex (w : List Char) (h : w.all isHex = true) (hne : w ≠ []) (hlen : w.length ≤ 8) :
    fromStrRadix16 (w.map toByte) = some (hexNum w) := by
  cases w with
  | nil => exact absurd rfl hne
  | cons c w =>
    have hc : isHex c = true := by simp only [List.all_cons, Bool.and_eq_true] at h; exact h.1
    have h' := (isHex_iff c).1 hc
    have hb := toByte_toNat c (by omega)
    have hne43 : toByte c ≠ 43 := by
      intro e; rw [e] at hb; simp at hb; omega
    have : fromStrRadix16 (List.map toByte (c :: w)) = radix16Digits (List.map toByte (c :: w)) 0 := by
      simp only [List.map_cons]
      unfold fromStrRadix16
      split
      · rename_i heq; cases heq
      · rename_i heq; simp only [List.cons.injEq] at heq; exact absurd heq.1 hne43
      · rename_i heq; simp only [List.cons.injEq] at heq; exact absurd heq.1 hne43
      · rfl
    rw [this]
    exact radix16_hex (c :: w) 0 0 h (by simp) (by simpa using hlen)

theorem unknownChar_eq : unknownChar = FFFD := by decide

theorem charFromU32_scalarOr (n : Nat) :
    (match charFromU32 n with | some c => c | none => unknownChar) = scalarOr n := by
  unfold charFromU32 scalarOr
  by_cases h : n < 0xD800 ∨ (0xDFFF < n ∧ n < 0x110000)
  · have : (decide (n < 0xD800) || (decide (0xDFFF < n) && decide (n < 0x110000))) = true := by
      simpa using h
    rw [if_pos this, if_pos h]
  · have : ¬ (decide (n < 0xD800) || (decide (0xDFFF < n) && decide (n < 0x110000))) = true := by
      simpa using h
    rw [if_neg this, if_neg h]; exact unknownChar_eq

theorem boundary_le_size (S : Src) (i : Nat) (h : isCharBoundary S i = true) : i ≤ S.size := by
  unfold isCharBoundary at h
  cases hg : S[i]? with
  | some b =>
    have := (Array.getElem?_eq_some_iff.1 hg).1
    omega
  | none =>
    rw [hg] at h
    simp at h
    omega

/-- the hex window: `encode_unicode(input.get(seq_start..seq_start + len))` is the specification's
`hexEscape` of the characters that follow -/
theorem encodeUnicode_window (a r : List Char) (n : Nat) (hn0 : 0 < n) (hn8 : n ≤ 8) :
    encodeUnicode (strGet (src (a ++ r)) (enc a).length ((enc a).length + n)) = hexEscape n r := by
  by_cases hw : (r.take n).length = n ∧ (r.take n).all isHex = true
  · -- well-formed: exactly n hex digits follow
    obtain ⟨hl, hh⟩ := hw
    have hr : r = r.take n ++ r.drop n := (List.take_append_drop n r).symm
    have henc := enc_hex _ hh
    have hq : (enc a).length + n = (enc (a ++ r.take n)).length := by
      rw [enc_append, List.length_append, henc, List.length_map, hl]
    have hg : strGet (src (a ++ r)) (enc a).length ((enc a).length + n) = some (enc (r.take n)) := by
      rw [hq]
      have := strGet_split a (r.take n) (r.drop n)
      rw [List.take_append_drop] at this
      exact this
    have hallb : (enc (r.take n)).all isAsciiHexDigit = true := by
      rw [henc, List.all_map]
      rw [List.all_eq_true] at hh ⊢
      intro c hc; exact isAsciiHexDigit_toByte c (hh c hc)
    have hne : r.take n ≠ [] := by intro e; rw [e] at hl; simp at hl; omega
    unfold encodeUnicode hexEscape
    rw [hg, if_pos ⟨hl, hh⟩]
    simp only [Option.filter_some, hallb, ↓reduceIte]
    rw [henc, fromStrRadix16_hex _ hh hne (by omega)]
    simp only [Option.bind_some]
    exact charFromU32_scalarOr _
  · -- malformed: the model's window is `None`, or contains a non-hex byte
    have hspec : hexEscape n r = FFFD := by unfold hexEscape; rw [if_neg hw]
    rw [hspec]
    unfold encodeUnicode
    cases hg : strGet (src (a ++ r)) (enc a).length ((enc a).length + n) with
    | none => simp [unknownChar_eq]
    | some bs =>
      unfold strGet at hg
      split at hg
      · rename_i hc
        simp only [Bool.and_eq_true] at hc
        have hle := boundary_le_size _ _ hc.2
        simp only [src_size, enc_append, List.length_append] at hle
        have hbs : bs = (enc r).take n := by
          have := Option.some.inj hg
          rw [← this]
          simp [src, List.extract_eq_take_drop, enc_append]
        have hnot : bs.all isAsciiHexDigit = false := by
          rcases hb : bs.all isAsciiHexDigit with _ | _
          · rfl
          · exfalso; apply hw
            rw [hbs] at hb
            exact hex_bytes_chars n r (by omega) hb
        simp only [Option.filter_some, hnot, Bool.false_eq_true, ↓reduceIte]
        exact unknownChar_eq
      · cases hg

/-! ### one escape -/

theorem char_eq_of_toNat {c d : Char} (h : c.toNat = d.toNat) : c = d := by
  apply Char.ext
  apply UInt32.toNat_inj.1
  exact h

theorem toByte_inj {c d : Char} (hc : c.toNat < 128) (hd : d.toNat < 128) (h : toByte c = toByte d) : c = d := by
  apply char_eq_of_toNat
  rw [← toByte_toNat c hc, ← toByte_toNat d hd, h]

theorem dropBytes_one_cons (c : Char) (r : List Char) : dropBytes 1 (c :: r) = r := by
  have := c.utf8Size_pos
  have e : 0 + 1 - c.utf8Size = 0 := by omega
  show dropBytes (0 + 1 - c.utf8Size) r = r
  rw [e]; cases r <;> rfl

theorem dropBytes_size_cons (c : Char) (r : List Char) : dropBytes c.utf8Size (c :: r) = r := by
  have := c.utf8Size_pos
  obtain ⟨k, hk⟩ : ∃ k, c.utf8Size = k + 1 := ⟨c.utf8Size - 1, by omega⟩
  rw [hk]
  show dropBytes (k + 1 - c.utf8Size) r = r
  have e : k + 1 - c.utf8Size = 0 := by omega
  rw [e]; cases r <;> rfl

/-- `escape` at the position after a backslash: the decoded character is the specification's `escChar`,
and the cursor advance `k` drops the same characters as the specification's `escLen` once rounded up -/
theorem escape_spec (a cs : List Char) :
    ∃ k, escape (src (a ++ cs)) (enc a).length = (escChar cs, (enc a).length + k) ∧
      dropBytes k cs = dropBytes (escLen cs) cs := by
  cases cs with
  | nil =>
    refine ⟨1, ?_, rfl⟩
    unfold escape
    rw [get_split0]
    simp [escChar, unknownChar_eq]
  | cons c r =>
    obtain ⟨b0, tl, he, -, -, hascii, hhi⟩ := enc_shape c
    have hget : (src (a ++ c :: r))[(enc a).length]? = some b0 := by
      rw [get_split0, enc_cons, he]; rfl
    by_cases hc : c.toNat < 128
    · have hb : b0 = toByte c := (hascii hc).2
      by_cases h1 : c = '\\'
      · subst h1
        have hb' : b0 = 0x5C := by rw [hb]; rfl
        refine ⟨1, ?_, ?_⟩
        · unfold escape; rw [hget]; simp [hb', escChar]
        · rfl
      by_cases h2 : c = '"'
      · subst h2
        have hb' : b0 = 0x22 := by rw [hb]; rfl
        refine ⟨1, ?_, ?_⟩
        · unfold escape; rw [hget]; simp [hb', escChar]
        · rfl
      by_cases h3 : c = 'u'
      · subst h3
        have hb' : b0 = 0x75 := by rw [hb]; rfl
        have hq : (enc (a ++ ['u'])).length = (enc a).length + 1 := by
          rw [enc_append, List.length_append]; rfl
        have hw := encodeUnicode_window (a ++ ['u']) r 4 (by omega) (by omega)
        rw [hq] at hw
        simp only [List.append_assoc, List.singleton_append] at hw
        refine ⟨5, ?_, ?_⟩
        · unfold escape; rw [hget]
          simp only [hb']
          simp [escChar, hw]
        · rfl
      by_cases h4 : c = 'U'
      · subst h4
        have hb' : b0 = 0x55 := by rw [hb]; rfl
        have hq : (enc (a ++ ['U'])).length = (enc a).length + 1 := by
          rw [enc_append, List.length_append]; rfl
        have hw := encodeUnicode_window (a ++ ['U']) r 6 (by omega) (by omega)
        rw [hq] at hw
        simp only [List.append_assoc, List.singleton_append] at hw
        refine ⟨7, ?_, ?_⟩
        · unfold escape; rw [hget]
          simp only [hb']
          simp [escChar, hw]
        · rfl
      · have n1 : (b0 == 0x5C) = false := by
          rw [beq_eq_false_iff_ne]; intro e; apply h1
          exact toByte_inj hc (by decide) (by rw [← hb, e]; rfl)
        have n2 : (b0 == 0x22) = false := by
          rw [beq_eq_false_iff_ne]; intro e; apply h2
          exact toByte_inj hc (by decide) (by rw [← hb, e]; rfl)
        have n3 : (b0 == 0x75) = false := by
          rw [beq_eq_false_iff_ne]; intro e; apply h3
          exact toByte_inj hc (by decide) (by rw [← hb, e]; rfl)
        have n4 : (b0 == 0x55) = false := by
          rw [beq_eq_false_iff_ne]; intro e; apply h4
          exact toByte_inj hc (by decide) (by rw [← hb, e]; rfl)
        refine ⟨1, ?_, ?_⟩
        · unfold escape; rw [hget]
          simp [n1, n2, n3, n4, escChar, h1, h2, h3, h4, unknownChar_eq]
        · rw [dropBytes_one_cons]
          simp only [escLen, h3, h4, ↓reduceIte]
          rw [dropBytes_size_cons]
    · have hge := hhi (by omega)
      have n1 : (b0 == 0x5C) = false := by
        rw [beq_eq_false_iff_ne]; intro e; rw [e] at hge; simp at hge
      have n2 : (b0 == 0x22) = false := by
        rw [beq_eq_false_iff_ne]; intro e; rw [e] at hge; simp at hge
      have n3 : (b0 == 0x75) = false := by
        rw [beq_eq_false_iff_ne]; intro e; rw [e] at hge; simp at hge
      have n4 : (b0 == 0x55) = false := by
        rw [beq_eq_false_iff_ne]; intro e; rw [e] at hge; simp at hge
      have h1 : c ≠ '\\' := by intro e; subst e; exact hc (by decide)
      have h2 : c ≠ '"' := by intro e; subst e; exact hc (by decide)
      have h3 : c ≠ 'u' := by intro e; subst e; exact hc (by decide)
      have h4 : c ≠ 'U' := by intro e; subst e; exact hc (by decide)
      refine ⟨1, ?_, ?_⟩
      · unfold escape; rw [hget]
        simp [n1, n2, n3, n4, escChar, h1, h2, h3, h4, unknownChar_eq]
      · rw [dropBytes_one_cons]
        simp only [escLen, h3, h4, ↓reduceIte]
        rw [dropBytes_size_cons]

/-! ### the main loop -/

/-- the input contains a backslash -/
def hasBS (cs : List Char) : Bool := cs.any (fun c => c == '\\')

theorem hasBS_cons (c : Char) (cs : List Char) : hasBS (c :: cs) = (c == '\\' || hasBS cs) := by
  simp [hasBS]

theorem decode_noBS (cs : List Char) (h : hasBS cs = false) : decode cs = cs := by
  induction cs with
  | nil => rfl
  | cons c cs ih =>
    rw [hasBS_cons] at h
    simp only [Bool.or_eq_false_iff, beq_eq_false_iff_ne, ne_eq] at h
    rw [decode_cons_plain h.1, ih h.2]

theorem loop_at_end (S : Src) (fuel st p : Nat) (out : Bytes) (h : S.size ≤ p) :
    loop S (fuel + 1) st p out = .done (st, p, out) := by
  have : S[p]? = none := Array.getElem?_eq_none_iff.2 h
  rw [loop]; simp [this]

theorem enc_backslash : String.utf8EncodeChar '\\' = [0x5C] := by decide

theorem enc_dropBytes_le (k : Nat) (cs : List Char) : (enc (dropBytes k cs)).length ≤ (enc cs).length := by
  obtain ⟨t, ht⟩ := dropBytes_suffix cs k
  conv => rhs; rw [ht]
  simp [enc_append]

theorem length_dropBytes_le (k : Nat) (cs : List Char) : (dropBytes k cs).length ≤ cs.length := by
  obtain ⟨t, ht⟩ := dropBytes_suffix cs k
  conv => rhs; rw [ht]
  simp

theorem main_loop (n : Nat) : ∀ (pre plain rest : List Char) (out : Bytes) (fuel : Nat),
    rest.length ≤ n → hasBS plain = false → (enc rest).length + 1 ≤ fuel →
    finish (src (pre ++ (plain ++ rest)))
        (loop (src (pre ++ (plain ++ rest))) fuel (enc pre).length (enc (pre ++ plain)).length out) =
      if (enc pre).length = 0 ∧ hasBS rest = false then .done (out, false)
      else .done (out ++ enc plain ++ enc (decode rest), true) := by
  induction n with
  | zero =>
    intro pre plain rest out fuel hn hplain hfuel
    have : rest = [] := List.eq_nil_of_length_eq_zero (by omega)
    subst this
    obtain ⟨f, rfl⟩ : ∃ f, fuel = f + 1 := ⟨fuel - 1, by omega⟩
    rw [loop_at_end _ _ _ _ _ (by simp)]
    unfold finish
    by_cases h0 : (enc pre).length = 0
    · simp [h0, hasBS]
    · have hne : ((enc pre).length == 0) = false := by simpa using h0
      simp only [hne, Bool.false_eq_true, ↓reduceIte, h0, false_and]
      by_cases hp : (enc pre).length = (enc (pre ++ plain)).length
      · have : enc plain = [] := by
          rw [enc_append, List.length_append] at hp
          exact List.eq_nil_of_length_eq_zero (by omega)
        simp [hp, this, decode_nil]
      · have hne2 : ((enc pre).length != (enc (pre ++ plain)).length) = true := by simpa using hp
        rw [if_pos hne2, strIndex_split pre plain []]
        simp [decode_nil]
  | succ n ih =>
    intro pre plain rest out fuel hn hplain hfuel
    cases rest with
    | nil => exact (by
        obtain ⟨f, rfl⟩ : ∃ f, fuel = f + 1 := ⟨fuel - 1, by omega⟩
        rw [loop_at_end _ _ _ _ _ (by simp)]
        unfold finish
        by_cases h0 : (enc pre).length = 0
        · simp [h0, hasBS]
        · have hne : ((enc pre).length == 0) = false := by simpa using h0
          simp only [hne, Bool.false_eq_true, ↓reduceIte, h0, false_and]
          by_cases hp : (enc pre).length = (enc (pre ++ plain)).length
          · have : enc plain = [] := by
              rw [enc_append, List.length_append] at hp
              exact List.eq_nil_of_length_eq_zero (by omega)
            simp [hp, this, decode_nil]
          · have hne2 : ((enc pre).length != (enc (pre ++ plain)).length) = true := by simpa using hp
            rw [if_pos hne2, strIndex_split pre plain []]
            simp [decode_nil])
    | cons c cs =>
      by_cases hc : c = '\\'
      · -- an escape
        subst hc
        obtain ⟨f, rfl⟩ : ∃ f, fuel = f + 1 := ⟨fuel - 1, by omega⟩
        have hlenBS : (enc ('\\' :: cs)).length = 1 + (enc cs).length := by
          rw [enc_cons, enc_backslash]; simp; omega
        generalize hS : src (pre ++ (plain ++ '\\' :: cs)) = S
        have hS1 : src ((pre ++ plain) ++ '\\' :: cs) = S := by rw [← hS]; simp
        have hS2 : src ((pre ++ plain ++ ['\\']) ++ cs) = S := by rw [← hS]; simp
        have hsize : S.size = (enc (pre ++ plain)).length + 1 + (enc cs).length := by
          rw [← hS1, src_size, enc_append, List.length_append, hlenBS]; omega
        have hget : S[(enc (pre ++ plain)).length]? = some 0x5C := by
          rw [← hS1, get_split0, enc_cons, enc_backslash]; rfl
        have hchunk : (if ((enc pre).length != (enc (pre ++ plain)).length) = true
              then strIndex S (enc pre).length (enc (pre ++ plain)).length else Outcome.done []) =
            Outcome.done (enc plain) := by
          by_cases hp : (enc pre).length = (enc (pre ++ plain)).length
          · have : enc plain = [] := by
              rw [enc_append, List.length_append] at hp
              exact List.eq_nil_of_length_eq_zero (by omega)
            simp [hp, this]
          · have hne2 : ((enc pre).length != (enc (pre ++ plain)).length) = true := by simpa using hp
            rw [if_pos hne2, ← hS, strIndex_split pre plain ('\\' :: cs)]
        have hq : (enc (pre ++ plain ++ ['\\'])).length = (enc (pre ++ plain)).length + 1 := by
          rw [enc_append _ ['\\'], List.length_append, enc_singleton, enc_backslash]; rfl
        obtain ⟨k, hesc, hdrop⟩ := escape_spec (pre ++ plain ++ ['\\']) cs
        rw [hS2, hq] at hesc
        obtain ⟨p', hskip, hp'⟩ := skip_spec cs (pre ++ plain ++ ['\\']) k (S.size + 1)
          (by have := src_size (pre ++ plain ++ ['\\'] ++ cs); rw [hS2] at this; omega)
        rw [hS2, hq] at hskip
        rw [loop]
        simp only [hget, bne_self_eq_false, Bool.false_eq_true, ↓reduceIte, hchunk, hesc, hskip]
        rw [decode_backslash, ← hdrop]
        have hnz : ¬ ((enc pre).length = 0 ∧ hasBS ('\\' :: cs) = false) := by
          intro h; have := h.2; simp [hasBS_cons] at this
        rw [if_neg hnz]
        obtain ⟨t, ht⟩ := dropBytes_suffix cs k
        generalize hd : dropBytes k cs = d at *
        have htot : (enc (pre ++ plain ++ ['\\'] ++ cs)).length = S.size := by
          rw [← hS2, src_size]
        rw [htot] at hp'
        rcases hp' with hp' | ⟨hnil, hp'⟩
        · -- the cursor lands on the split point before `d`
          have hpre' : (enc (pre ++ plain ++ ['\\'] ++ t)).length = p' := by
            have : (enc (pre ++ plain ++ ['\\'] ++ cs)).length =
                (enc (pre ++ plain ++ ['\\'] ++ t)).length + (enc d).length := by
              conv => lhs; rw [ht]
              rw [← List.append_assoc, enc_append _ d, List.length_append]
            omega
          have hS3 : src ((pre ++ plain ++ ['\\'] ++ t) ++ ([] ++ d)) = S := by
            rw [← hS2, ht]; simp
          have hih := ih (pre ++ plain ++ ['\\'] ++ t) [] d
            (out ++ enc plain ++ String.utf8EncodeChar (escChar cs)) f
            (by have := length_dropBytes_le k cs; rw [hd] at this; simp at hn; omega)
            rfl
            (by have := enc_dropBytes_le k cs; rw [hd] at this; rw [hlenBS] at hfuel; omega)
          rw [hS3] at hih
          simp only [List.append_nil] at hih
          rw [hpre'] at hih
          rw [hih]
          have hp'nz : ¬ (p' = 0 ∧ hasBS d = false) := by
            intro h
            rw [← hpre', enc_append, enc_append _ ['\\'], enc_singleton, enc_backslash] at h
            simp at h
          rw [if_neg hp'nz]
          simp [enc_cons, List.append_assoc]
        · -- the cursor is at or past the end of the input
          subst hnil
          obtain ⟨f', rfl⟩ : ∃ f', f = f' + 1 := ⟨f - 1, by rw [hlenBS] at hfuel; omega⟩
          rw [loop_at_end _ _ _ _ _ hp']
          unfold finish
          have hp'nz : (p' == 0) = false := by
            rw [beq_eq_false_iff_ne]; omega
          simp [hp'nz, decode_nil, enc_cons]
      · -- a plain character: the cursor walks over its bytes
        have hsz := String.length_utf8EncodeChar c
        have hlen : (enc (c :: cs)).length = c.utf8Size + (enc cs).length := enc_length_cons c cs
        obtain ⟨f, rfl⟩ : ∃ f, fuel = f + c.utf8Size := ⟨fuel - c.utf8Size, by omega⟩
        generalize hS : src (pre ++ (plain ++ c :: cs)) = S
        have hS1 : src ((pre ++ plain) ++ c :: cs) = S := by rw [← hS]; simp
        have hS2 : src (pre ++ ((plain ++ [c]) ++ cs)) = S := by rw [← hS]; simp
        have hscan := loop_scan S c.utf8Size (enc (pre ++ plain)).length f (enc pre).length out (by
          intro j hj
          rw [← hS1, get_split, enc_cons, List.getElem?_append_left (by omega)]
          have hj' : j < (String.utf8EncodeChar c).length := by omega
          refine ⟨(String.utf8EncodeChar c)[j], List.getElem?_eq_getElem hj', ?_⟩
          exact enc_char_no_backslash c hc _ (List.getElem_mem hj'))
        rw [hscan]
        have hq : (enc (pre ++ plain)).length + c.utf8Size = (enc (pre ++ (plain ++ [c]))).length := by
          rw [← List.append_assoc, enc_append _ [c], List.length_append, enc_singleton, hsz]
        have hplain' : hasBS (plain ++ [c]) = false := by
          simp only [hasBS, List.any_append, Bool.or_eq_false_iff] at hplain ⊢
          refine ⟨hplain, ?_⟩
          simp [hc]
        have hih := ih pre (plain ++ [c]) cs out f (by simp at hn; omega) hplain' (by omega)
        rw [hS2, ← hq] at hih
        rw [hih]
        have hbs : hasBS (c :: cs) = hasBS cs := by
          rw [hasBS_cons]; simp [hc]
        rw [hbs, decode_cons_plain hc]
        simp [enc_append, enc_cons, List.append_assoc]

/-! ### entry points -/

/-- `unescape` on the UTF-8 of any character list: never panics, never runs out of fuel, writes the
UTF-8 of `decode`, and answers `true` exactly when there was a backslash -/
theorem unescape_spec (cs : List Char) :
    unescape (src cs) = if hasBS cs = true then .done (enc (decode cs), true) else .done ([], false) := by
  have h := main_loop cs.length [] [] cs [] ((src cs).size + 1) (Nat.le_refl _) rfl (by simp)
  simp only [List.nil_append, enc_nil, List.length_nil, true_and] at h
  unfold unescape
  rw [h]
  cases hasBS cs <;> simp

theorem unescapeUnicodeToString_spec (cs : List Char) :
    unescapeUnicodeToString (src cs) = .done (enc (decode cs), hasBS cs) := by
  unfold unescapeUnicodeToString
  rw [unescape_spec]
  cases h : hasBS cs
  · simp [src, decode_noBS cs h]
  · simp

theorem unescapeUnicode_spec (w : Bytes) (cs : List Char) :
    unescapeUnicode w (src cs) = .done (w ++ enc (decode cs)) := by
  unfold unescapeUnicode
  rw [unescape_spec]
  cases h : hasBS cs
  · simp [src, decode_noBS cs h]
  · simp

/-- the bytes of a `String` are the encoding of its characters -/
theorem string_bytes (s : String) : s.toUTF8.data = src s.toList := by
  have : s.toUTF8 = s.toList.utf8Encode := by
    conv => lhs; rw [← String.ofList_toList (s := s)]
    exact String.toByteArray_ofList
  rw [this]
  simp [List.utf8Encode, src, enc]

/-- every valid UTF-8 byte array is the encoding of a character list -/
theorem validUTF8_bytes (b : ByteArray) (h : b.IsValidUTF8) : ∃ cs, b.data = src cs := by
  obtain ⟨m, hm⟩ := h
  exact ⟨m, by rw [hm]; simp [List.utf8Encode, src, enc]⟩

theorem hasBS_iff (cs : List Char) : hasBS cs = true ↔ '\\' ∈ cs := by
  simp [hasBS]

/-- UTF-8 bytes of a character list (through Lean's `String`) -/
def utf8 (cs : List Char) : Bytes := (String.ofList cs).toUTF8.data.toList

theorem utf8_eq_enc (cs : List Char) : utf8 cs = enc cs := by
  unfold utf8
  rw [string_bytes, String.toList_ofList]; simp [src]

end FluentProofs.Unescape
