import FluentProofs.MemoIntl
/-!
Lemmas for C14, part 2b: the re-entrant lookup `MOp.lookupReenter` – a `with_try_get` whose callback calls
`IntlMemoizer::get_for_lang` for its own language while the lookup is still active, compares the returned `Rc`
with the one it runs on and drops it.

* `reenter_same` – "shared while in use": through a handle that `get_for_lang` handed out and that is still
  alive, the inner call is handed the very memoizer the lookup runs on;
* `reenter_transparent` – and then the whole re-entrant lookup is observationally a plain lookup: same final state
  (strong counts back to what they were, table untouched, no id consumed), same outcome, same construct event.

The case analyses of `MemoIntl.lean` (invariant, no dangling handle, registration / language / id stability …)
cover `lookupReenter` as well, so every history below may itself contain re-entrant lookups.
-/
namespace FluentModel.Memo
set_option linter.unusedSectionVars false

section AList
variable {κ β : Type} [DecidableEq κ]

/-- overwriting a key with the value it already has changes nothing -/
theorem aset_self (m : List (κ × β)) (k : κ) (v : β) (h : aget m k = some v) : aset m k v = m := by
  induction m with
  | nil => simp [aget] at h
  | cons p r ih =>
    obtain ⟨k₁, v₁⟩ := p
    by_cases e : k₁ = k
    · subst e
      simp only [aget, if_true] at h
      cases h
      simp [aset]
    · simp only [aget, e, if_false] at h
      simp [aset, e, ih h]

/-- the second write to a key wins -/
theorem aset_aset (m : List (κ × β)) (k : κ) (v v' : β) : aset (aset m k v) k v' = aset m k v' := by
  induction m with
  | nil => simp [aset]
  | cons p r ih =>
    obtain ⟨k₁, v₁⟩ := p
    by_cases e : k₁ = k
    · subst e; simp [aset]
    · simp [aset, e, ih]

end AList

section Intl
variable {σ L τ α ι ε ρ : Type} [DecidableEq L] [DecidableEq τ] [DecidableEq α]

/-- handle `h` is alive, and the per-language table holds, for the language of the memoizer `h` refers to, a weak
reference to exactly that memoizer.  (`get_for_lang` establishes this for the handle it returns, and it stays true
for as long as the handle is alive: `registered_of_getForLang`.  A handle from `newLang` is not registered.) -/
def Registered (s : MState σ L τ α ι ε) (h : Nat) : Prop :=
  ∃ oid o, s.handles[h]? = some (some oid) ∧ aget s.heap oid = some o ∧ aget s.table o.lang = some oid

/-- the `same` flag of a re-entrant lookup whose inner `get_for_lang` is handed the memoizer the lookup runs on:
`some true` when the callback ran, `none` when the construction failed (no callback, no inner call) -/
def sameOk : Outcome ε ρ → Option Bool
  | .ok _ => some true
  | .err _ => none

/-- the callback's inner `get_for_lang(l)` + `drop`, when the table entry of `l` is the live allocation `oid`:
the weak entry is upgraded (strong + 1), the comparison says "same", the drop undoes the upgrade – the state is
*exactly* what it was -/
theorem reenterStep_registered (ρ : Type) (s : MState σ L τ α ι ε) (l : L) (oid : Nat) (o : Obj L τ α ι ε)
    (ho : aget s.heap oid = some o) (hpos : 0 < o.strong) (ht : aget s.table l = some oid) :
    reenterStep ρ s l oid = (s, true) := by
  have hg : getStep (ρ := ρ) s l =
      ({ s with heap := aset s.heap oid { o with strong := o.strong + 1 }
                handles := s.handles ++ [some oid] }, .handle s.handles.length oid) := by
    simp only [getStep, ht, ho]
  have hnot : ¬ (o.strong + 1 ≤ 1) := by omega
  have hback : ({ o with strong := o.strong + 1 - 1 } : Obj L τ α ι ε) = o := by
    cases o; simp
  unfold reenterStep
  simp only [hg, dropStep, List.getElem?_concat_length, aget_aset, if_true, hnot, if_false, aset_aset,
    MObs.allocId, BEq.rfl, hback, aset_self _ _ _ ho]

/-- **the re-entrant lookup through a registered handle** is the plain lookup (same final state, same outcome,
same construct event) and reports that the inner `get_for_lang` returned the memoizer it runs on -/
theorem lookupReenter_registered (X : Ext σ L τ α ι ε) (s : MState σ L τ α ι ε) (hi : MInv s) (h : Nat)
    (op : Op σ τ α ι ρ) (hr : Registered s h) :
    ∃ s' out ev, mstep X s (.lookup h op) = (s', .res out ev) ∧
      mstep X s (.lookupReenter h op) = (s', .resReenter out ev (sameOk out)) := by
  obtain ⟨oid, o, hh, ho, ht⟩ := hr
  obtain ⟨_, hpos, _, _⟩ := hi.heap_ok oid o ho
  simp only [mstep, lookupStep, hh, ho]
  refine ⟨_, _, _, rfl, ?_⟩
  cases hout : (withTryGet X o.lang o.memo s.world op).out with
  | err e => rfl
  | ok r =>
    simp only [sameOk]
    have key := reenterStep_registered ρ
      ({ s with heap := aset s.heap oid { o with memo := (withTryGet X o.lang o.memo s.world op).memo }
                world := (withTryGet X o.lang o.memo s.world op).world } : MState σ L τ α ι ε)
      o.lang oid { o with memo := (withTryGet X o.lang o.memo s.world op).memo }
      (by simp only; rw [aget_aset]; simp) hpos ht
    rw [key]

/-- `get_for_lang(l)` registers the handle it returns, and the handle stays registered for as long as it is alive,
whatever happens in between (other languages, other handles created and dropped, plain and re-entrant lookups,
failures) -/
theorem registered_of_getForLang (X : Ext σ L τ α ι ε) (s₁ : MState σ L τ α ι ε) (hi : MInv s₁) (l : L)
    (mid : List (MOp σ L τ α ι ρ)) (oid : Nat)
    (halive : (mrun X mid (mstep (ρ := ρ) X s₁ (.getForLang l)).1).2.handles[s₁.handles.length]? = some (some oid)) :
    Registered (mrun X mid (mstep (ρ := ρ) X s₁ (.getForLang l)).1).2 s₁.handles.length := by
  obtain ⟨oid', o', _, h2, h3, _, _⟩ := getForLang_result (ρ := ρ) X s₁ l hi
  have hi' := MInv_step X s₁ (.getForLang l : MOp σ L τ α ι ρ) hi
  have hlt : s₁.handles.length < (mstep (ρ := ρ) X s₁ (.getForLang l)).1.handles.length := by
    rw [h2]; simp
  have hreg : (mstep (ρ := ρ) X s₁ (.getForLang l)).1.handles[s₁.handles.length]? = some (some oid) →
      aget (mstep (ρ := ρ) X s₁ (.getForLang l)).1.table l = some oid := by
    intro g
    rw [h2, List.getElem?_concat_length] at g
    cases g
    exact h3
  obtain ⟨ht, o, ho⟩ := shared_while_alive X mid _ hi' s₁.handles.length oid l hlt hreg halive
  have hl : o.lang = l := ((MInv_run X mid _ hi').table_ok l oid ht).2 o ho
  exact ⟨oid, o, halive, ho, by rw [hl]; exact ht⟩

/-! ### the headline statements: reachable states -/

/-- **shared while in use, seen from inside a lookup.**  Take any reachable state (`pre`: any history from
`IntlMemoizer::default()`, re-entrant lookups included), let `get_for_lang(l)` hand out handle `h`, let anything
happen (`mid`), and suppose `h` has not been dropped.  Then a lookup through `h` whose callback calls
`get_for_lang` for its own language is handed the very memoizer it runs on: the flag is `some true` whenever the
callback ran (`none` = construction failed, the callback never ran); it is never `some false`. -/
theorem reenter_same (X : Ext σ L τ α ι ε) (w : σ) (pre mid : List (MOp σ L τ α ι ρ)) (l : L) (op : Op σ τ α ι ρ) :
    let s₁ : MState σ L τ α ι ε := (mrun X pre (MState.init w)).2
    let h := s₁.handles.length
    let s₃ := (mrun X mid (mstep (ρ := ρ) X s₁ (.getForLang l)).1).2
    (∃ oid, s₃.handles[h]? = some (some oid)) →
    ∃ out ev, (mstep X s₃ (.lookupReenter h op)).2 = .resReenter out ev (sameOk out) := by
  intro s₁ h s₃ ⟨oid, halive⟩
  have hi₁ : MInv s₁ := MInv_run X pre _ (MInv_init w)
  have hi₃ : MInv s₃ := MInv_run X mid _ (MInv_step X s₁ _ hi₁)
  obtain ⟨s', out, ev, _, e2⟩ :=
    lookupReenter_registered X s₃ hi₃ h op (registered_of_getForLang X s₁ hi₁ l mid oid halive)
  exact ⟨out, ev, by rw [e2]⟩

/-- **the re-entrant call is transparent**: under the same hypotheses the re-entrant lookup ends in exactly the
state of the plain lookup (every strong count, the table, the id counter, the handles, the caches, the world) and
its outcome and construct event are those of the plain lookup. -/
theorem reenter_transparent (X : Ext σ L τ α ι ε) (w : σ) (pre mid : List (MOp σ L τ α ι ρ)) (l : L)
    (op : Op σ τ α ι ρ) :
    let s₁ : MState σ L τ α ι ε := (mrun X pre (MState.init w)).2
    let h := s₁.handles.length
    let s₃ := (mrun X mid (mstep (ρ := ρ) X s₁ (.getForLang l)).1).2
    (∃ oid, s₃.handles[h]? = some (some oid)) →
    (mstep X s₃ (.lookupReenter h op)).1 = (mstep X s₃ (.lookup h op)).1 ∧
    ∃ out ev same, (mstep X s₃ (.lookupReenter h op)).2 = .resReenter out ev same ∧
      (mstep X s₃ (.lookup h op)).2 = .res out ev := by
  intro s₁ h s₃ ⟨oid, halive⟩
  have hi₁ : MInv s₁ := MInv_run X pre _ (MInv_init w)
  have hi₃ : MInv s₃ := MInv_run X mid _ (MInv_step X s₁ _ hi₁)
  obtain ⟨s', out, ev, e1, e2⟩ :=
    lookupReenter_registered X s₃ hi₃ h op (registered_of_getForLang X s₁ hi₁ l mid oid halive)
  exact ⟨by rw [e1, e2], out, ev, sameOk out, by rw [e2], by rw [e1]⟩

end Intl
end FluentModel.Memo
