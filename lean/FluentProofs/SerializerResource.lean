import FluentProofs.SerializerExtClass
/-!
# Serializer lemmas, part 14: whole resources (C04 / T3)

Messages and terms with attributes and attached comments, free comments of the three levels (with
the `wrote_non_junk_entry` blank-line logic), and Junk when serialising without junk.
-/
namespace FluentProofs.Ser
open FluentModel FluentModel.Syntax FluentModel.Syntax.Ser FluentProofs.Parser

/-! ## the class of entries and their text -/

def rtAttr (a : Attribute Bytes) : Bool := validIdent a.id && rtPattern a.value

/-- a comment line: no line feed inside (a lone `\r` is allowed) -/
def commentLineOK (l : Bytes) : Bool := l.all fun b => b != 10

/-- `TextWriter::newline` doubles a trailing `\r` of the line -/
def crDbl (l : Bytes) : Bytes := if endsCr l then [13] else []

def rtComment (c : List Bytes) : Bool := !c.isEmpty && c.all commentLineOK

def rtOptComment : Option (List Bytes) → Bool
  | none => true
  | some c => rtComment c

/-- **entries of the class** -/
def rtEntry : Entry Bytes → Bool
  | .message m =>
    validIdent m.id &&
      (match m.value with
       | some v => rtPattern v
       | none => !m.attributes.isEmpty) && m.attributes.all rtAttr && rtOptComment m.comment
  | .term t => validIdent t.id && rtPattern t.value && t.attributes.all rtAttr && rtOptComment t.comment
  | .comment c => rtComment c
  | .groupComment c => rtComment c
  | .resourceComment c => rtComment c
  | .junk _ => false

/-- text of a comment block with prefix `pre` (`#`, `##`, `###`) -/
def commentText (pre : Bytes) : List Bytes → Bytes
  | [] => []
  | l :: ls => pre ++ (if isBlankLine l then [] else 32 :: (l ++ crDbl l)) ++ 10 :: commentText pre ls

def attrText (a : Attribute Bytes) : Bytes := 10 :: (spacesL 4 ++ 46 :: (a.id ++ [32, 61] ++ patText 1 a.value))

def attrsText : List (Attribute Bytes) → Bytes
  | [] => []
  | a :: as => attrText a ++ attrsText as

def optCommentText : Option (List Bytes) → Bytes
  | none => []
  | some c => commentText [35] c

def optPatText : Option (List (PatElem Bytes)) → Bytes
  | none => []
  | some v => patText 0 v

/-- text of an entry; `b` = a non-junk entry has been written before (`wrote_non_junk_entry`) -/
def entryText (b : Bool) : Entry Bytes → Bytes
  | .message m => optCommentText m.comment ++ m.id ++ [32, 61] ++ optPatText m.value ++ attrsText m.attributes ++ [10]
  | .term t => optCommentText t.comment ++ 45 :: (t.id ++ [32, 61] ++ patText 0 t.value ++ attrsText t.attributes ++ [10])
  | .comment c => (if b then [10] else []) ++ commentText [35] c ++ [10]
  | .groupComment c => (if b then [10] else []) ++ commentText [35, 35] c ++ [10]
  | .resourceComment c => (if b then [10] else []) ++ commentText [35, 35, 35] c ++ [10]
  | .junk _ => []

def resText : Bool → List (Entry Bytes) → Bytes
  | _, [] => []
  | b, e :: es => entryText b e ++ resText true es

/-! ## the serializer -/

/-- at indent level 0 indentation is empty -/
theorem ws0_writeLiteral {w : Writer} {nl : Bool} (hw : WS w 0 nl) (item : Bytes) (hne : item ≠ [])
    (h13 : item.getLast? ≠ some 13) :
    (w.writeLiteral item).buffer = w.buffer ++ item.toArray ∧ WS (w.writeLiteral item) 0 (endsNl item) := by
  obtain ⟨hb, hw1⟩ := ws_writeLiteral hw item hne h13
  refine ⟨?_, hw1⟩
  rw [hb]; cases nl <;> simp [spacesL]

theorem ws0_writeTidy {w : Writer} {nl : Bool} (hw : WS w 0 nl) (item : Bytes) (ht : tidy item = true) :
    (w.writeLiteral item).buffer = w.buffer ++ item.toArray ∧ WS (w.writeLiteral item) 0 false := by
  obtain ⟨h1, h2, h3⟩ := tidy_ne_last ht
  have := ws0_writeLiteral hw item h1 h2
  rwa [h3] at this

theorem commentLine_ne {l : Bytes} (hb : isBlankLine l = false) : l ≠ [] := by
  intro h0; subst h0; simp [isBlankLine] at hb

theorem commentLine_head {l : Bytes} (hl : commentLineOK l = true) : l.head? ≠ some 10 := by
  intro h
  simp only [commentLineOK, List.all_eq_true] at hl
  have := hl 10 (List.mem_of_mem_head? h)
  simp at this

/-- `newline` whatever the writer ends with -/
theorem wsc_newline {w : Writer} {L : Nat} (hw : WSc w L false) :
    w.newline.buffer = w.buffer ++ ((if endsWith w 13 then [13] else []) ++ [(10 : UInt8)]).toArray ∧
      WS w.newline L true := by
  have hb : w.newline.buffer = w.buffer ++ ((if endsWith w 13 then [13] else []) ++ [(10 : UInt8)]).toArray := by
    rw [newline_buffer]; split <;> simp
  refine ⟨hb, by simp [hw.1], ?_, by simp⟩
  simp [Writer.newline, endsWith]

theorem serComment_text (pre : Bytes) (hp : tidy pre = true) (c : List Bytes) (hc : ∀ l ∈ c, commentLineOK l = true) :
    ∀ (w : Writer) (nl : Bool), WS w 0 nl → c ≠ [] →
      (serComment w pre c).buffer = w.buffer ++ (commentText pre c).toArray ∧ WS (serComment w pre c) 0 true := by
  induction c with
  | nil => intro w nl _ h; exact absurd rfl h
  | cons l ls ih =>
    intro w nl hw _
    have hl := hc l (List.mem_cons_self)
    obtain ⟨hb1, hw1⟩ := ws0_writeTidy hw pre hp
    -- the line
    have hline : ∃ w2, (if (!isBlankLine l) = true then ((w.writeLiteral pre).writeLiteral (lit " ")).writeLiteral l
          else w.writeLiteral pre) = w2 ∧
        w2.newline.buffer = w.buffer ++ (pre ++ (if isBlankLine l then [] else 32 :: (l ++ crDbl l)) ++ [10]).toArray ∧
        WS w2.newline 0 true := by
      refine ⟨_, rfl, ?_⟩
      cases hbl : isBlankLine l
      · simp only [Bool.not_false, if_true, lit_sp]
        obtain ⟨hb2, hw2⟩ := ws0_writeTidy hw1 [32] (by decide)
        obtain ⟨hb3, hw3, h13⟩ := wsc_writeLiteral hw2.toC l (commentLine_ne hbl)
        have hh : (l.head? == some 10) = false := by simpa using commentLine_head hl
        rw [hh, Bool.and_false] at hb3
        have hnl : endsNl l = false := by
          simp only [endsNl, beq_eq_false_iff_ne, ne_eq]
          intro h
          simp only [commentLineOK, List.all_eq_true] at hl
          have := hl 10 (List.mem_of_getLast? h)
          simp at this
        rw [hnl] at hw3
        obtain ⟨hb4, hw4⟩ := wsc_newline hw3
        refine ⟨?_, hw4⟩
        rw [hb4, hb3, hb2, hb1, h13]; apply Array.ext'; simp [crDbl]
      · simp only [Bool.not_true, Bool.false_eq_true, if_false]
        obtain ⟨hb4, hw4⟩ := ws_newline hw1
        exact ⟨by rw [hb4, hb1]; apply Array.ext'; simp, hw4⟩
    obtain ⟨w2, e2, hb3, hw3⟩ := hline
    simp only [serComment, e2]
    cases ls with
    | nil =>
      simp only [serComment, commentText]
      refine ⟨?_, hw3⟩
      rw [hb3]
    | cons l2 ls2 =>
      obtain ⟨hb4, hw4⟩ := ih (fun x hx => hc x (List.mem_cons_of_mem _ hx)) w2.newline true hw3 (by simp)
      refine ⟨?_, hw4⟩
      rw [hb4, hb3]; apply Array.ext'; simp [commentText]

theorem serAttributesGo_text (as : List (Attribute Bytes)) (hv : ∀ a ∈ as, rtAttr a = true) :
    ∀ w : Writer, WS w 1 false →
      ∃ w', serAttributesGo w as = some w' ∧ w'.buffer = w.buffer ++ (attrsText as).toArray ∧ WS w' 1 false := by
  induction as with
  | nil => intro w hw; exact ⟨w, rfl, by simp [attrsText], hw⟩
  | cons a as ih =>
    intro w hw
    have ha := hv a (List.mem_cons_self)
    simp only [rtAttr, Bool.and_eq_true] at ha
    obtain ⟨hb1, hw1⟩ := ws_newline hw
    obtain ⟨hb2, hw2⟩ := ws_writeTidy hw1 [46] (by decide)
    obtain ⟨hb3, hw3⟩ := ws_writeTidy hw2 a.id (validIdent_tidy ha.1)
    obtain ⟨hb4, hw4⟩ := ws_writeTidy hw3 [32, 61] (by decide)
    obtain ⟨w5, hs5, hb5, hw5⟩ := (rtPattern_patRT a.value ha.2 1).ser _ hw4
    obtain ⟨w6, hs6, hb6, hw6⟩ := ih (fun x hx => hv x (List.mem_cons_of_mem _ hx)) w5 hw5
    refine ⟨w6, by simp only [serAttributesGo, lit_dot, lit_eq, hs5, hs6], ?_, hw6⟩
    rw [hb6, hb5, hb4, hb3, hb2, hb1]
    apply Array.ext'
    simp [attrsText, attrText, spacesL]

theorem serAttributes_text (as : List (Attribute Bytes)) (hv : ∀ a ∈ as, rtAttr a = true) (w : Writer)
    (hw : WS w 0 false) :
    ∃ w', serAttributes w as = some w' ∧ w'.buffer = w.buffer ++ (attrsText as).toArray ∧ WS w' 0 false := by
  cases as with
  | nil => exact ⟨w, by simp [serAttributes], by simp [attrsText], hw⟩
  | cons a as =>
    obtain ⟨w1, hs1, hb1, hw1⟩ := serAttributesGo_text (a :: as) hv w.indent (ws_indent hw)
    obtain ⟨w2, hs2, hl2, hb2⟩ := dedent_of_pos (w := w1) (by rw [hw1.1]; omega)
    refine ⟨w2, by simp [serAttributes, hs1, hs2], by rw [hb2, hb1]; rfl, ?_⟩
    obtain ⟨a1, b1, c1⟩ := hw1
    exact ⟨by omega, by simpa [endsWith, hb2] using b1, by simpa [endsWith, hb2] using c1⟩

@[simp] theorem lit_hash : lit "#" = [35] := rfl
@[simp] theorem lit_hash2 : lit "##" = [35, 35] := rfl
@[simp] theorem lit_hash3 : lit "###" = [35, 35, 35] := rfl

theorem serOptComment_text (oc : Option (List Bytes)) (hc : rtOptComment oc = true) (w : Writer) (nl : Bool)
    (hw : WS w 0 nl) :
    ∃ nl', ((match oc with
        | some c => serComment w (lit "#") c
        | none => w).buffer = w.buffer ++ (optCommentText oc).toArray) ∧
      WS (match oc with
        | some c => serComment w (lit "#") c
        | none => w) 0 nl' := by
  cases oc with
  | none => exact ⟨nl, by simp [optCommentText], hw⟩
  | some c =>
    simp only [rtOptComment, rtComment, Bool.and_eq_true, Bool.not_eq_true', List.isEmpty_eq_false_iff,
      List.all_eq_true] at hc
    have := serComment_text [35] (by decide) c hc.2 w nl hw hc.1
    exact ⟨true, by simpa [optCommentText, lit_hash] using this.1, by simpa [lit_hash] using this.2⟩

theorem serEntry_text (withJunk : Bool) (e : Entry Bytes) (he : rtEntry e = true) (es : List (Entry Bytes))
    (w : Writer) (nl b : Bool) (hw : WS w 0 nl) :
    ∃ w', w'.buffer = w.buffer ++ (entryText b e).toArray ∧ WS w' 0 true ∧
      serResourceGo withJunk w b (e :: es) = serResourceGo withJunk w' true es := by
  have free : ∀ (pre : Bytes) (c : List Bytes), tidy pre = true → rtComment c = true →
      (serFreeComment w b pre c).buffer = w.buffer ++ ((if b then [10] else []) ++ commentText pre c ++ [10]).toArray ∧
        WS (serFreeComment w b pre c) 0 true := by
    intro pre c hp hc
    simp only [rtComment, Bool.and_eq_true, Bool.not_eq_true', List.isEmpty_eq_false_iff, List.all_eq_true] at hc
    simp only [serFreeComment]
    cases b with
    | true =>
      -- a blank line first; the buffer ends with `\\n` here, which `newline` does not care about
      have hb0 : w.newline.buffer = w.buffer ++ #[10] := by rw [newline_buffer, hw.2.1]; simp
      have hw0 : WS w.newline 0 true := ⟨by simp [hw.1], by simp [endsWith, hb0], by simp⟩
      obtain ⟨hb1, hw1⟩ := serComment_text pre hp c hc.2 w.newline true hw0 hc.1
      have hb2 : (serComment w.newline pre c).newline.buffer = (serComment w.newline pre c).buffer ++ #[10] := by
        rw [newline_buffer, hw1.2.1]; simp
      refine ⟨?_, by simp [hw.1], by simp [endsWith, hb2], by simp⟩
      simp only [if_true]
      rw [hb2, hb1, hb0]; apply Array.ext'; simp
    | false =>
      obtain ⟨hb1, hw1⟩ := serComment_text pre hp c hc.2 w nl hw hc.1
      have hb2 : (serComment w pre c).newline.buffer = (serComment w pre c).buffer ++ #[10] := by
        rw [newline_buffer, hw1.2.1]; simp
      refine ⟨?_, by simp [hw.1], by simp [endsWith, hb2], by simp⟩
      simp only [Bool.false_eq_true, if_false]
      rw [hb2, hb1]; apply Array.ext'; simp
  cases e with
  | message m =>
    obtain ⟨id, value, attrs, comment⟩ := m
    simp only [rtEntry, Bool.and_eq_true, List.all_eq_true] at he
    obtain ⟨⟨⟨hid, hval⟩, hattrs⟩, hcom⟩ := he
    -- after the attached comment
    have body : ∀ (w0 : Writer) (nl0 : Bool), WS w0 0 nl0 →
        ∃ w', w'.buffer = w0.buffer ++ (id ++ [32, 61] ++ optPatText value ++ attrsText attrs ++ [10]).toArray ∧
          WS w' 0 true ∧
          (match value with
            | some v => serPattern ((w0.writeLiteral id).writeLiteral [32, 61]) v
            | none => some ((w0.writeLiteral id).writeLiteral [32, 61])).bind
              (fun w3 => (serAttributes w3 attrs).map Writer.newline) = some w' := by
      intro w0 nl0 hw0
      obtain ⟨hb2, hw2⟩ := ws0_writeTidy hw0 id (validIdent_tidy hid)
      obtain ⟨hb3, hw3⟩ := ws0_writeTidy hw2 [32, 61] (by decide)
      cases value with
      | none =>
        obtain ⟨w5, hs5, hb5, hw5⟩ := serAttributes_text attrs hattrs _ hw3
        obtain ⟨hb6, hw6⟩ := ws_newline hw5
        refine ⟨w5.newline, ?_, hw6, by simp [hs5]⟩
        rw [hb6, hb5, hb3, hb2]; apply Array.ext'; simp [optPatText]
      | some v =>
        simp only at hval
        obtain ⟨w4, hs4, hb4, hw4⟩ := (rtPattern_patRT v hval 0).ser _ hw3
        obtain ⟨w5, hs5, hb5, hw5⟩ := serAttributes_text attrs hattrs w4 hw4
        obtain ⟨hb6, hw6⟩ := ws_newline hw5
        refine ⟨w5.newline, ?_, hw6, by simp [hs4, hs5]⟩
        rw [hb6, hb5, hb4, hb3, hb2]; apply Array.ext'; simp [optPatText]
    cases comment with
    | none =>
      obtain ⟨w', hb', hw', hs'⟩ := body w nl hw
      refine ⟨w', by rw [hb']; apply Array.ext'; simp [entryText, optCommentText], hw', ?_⟩
      simp only [serResourceGo, serMessage, lit_eq]
      cases value with
      | none => simp only [Option.bind] at hs'; simp only [hs']
      | some v =>
        simp only [Option.bind] at hs'
        cases hsp : serPattern ((w.writeLiteral id).writeLiteral [32, 61]) v with
        | none => rw [hsp] at hs'; cases hs'
        | some w3 => rw [hsp] at hs'; simp only [] at hs'; simp only [hsp, hs']
    | some c =>
      simp only [rtOptComment, rtComment, Bool.and_eq_true, Bool.not_eq_true', List.isEmpty_eq_false_iff,
        List.all_eq_true] at hcom
      obtain ⟨hbc, hwc⟩ := serComment_text [35] (by decide) c hcom.2 w nl hw hcom.1
      obtain ⟨w', hb', hw', hs'⟩ := body (serComment w [35] c) true hwc
      refine ⟨w', by rw [hb', hbc]; apply Array.ext'; simp [entryText, optCommentText], hw', ?_⟩
      simp only [serResourceGo, serMessage, lit_eq, lit_hash]
      cases value with
      | none => simp only [Option.bind] at hs'; simp only [hs']
      | some v =>
        simp only [Option.bind] at hs'
        cases hsp : serPattern (((serComment w [35] c).writeLiteral id).writeLiteral [32, 61]) v with
        | none => rw [hsp] at hs'; cases hs'
        | some w3 => rw [hsp] at hs'; simp only [] at hs'; simp only [hsp, hs']
  | term t =>
    obtain ⟨id, value, attrs, comment⟩ := t
    simp only [rtEntry, Bool.and_eq_true, List.all_eq_true] at he
    obtain ⟨⟨⟨hid, hval⟩, hattrs⟩, hcom⟩ := he
    have body : ∀ (w0 : Writer) (nl0 : Bool), WS w0 0 nl0 →
        ∃ w', w'.buffer = w0.buffer ++ (45 :: (id ++ [32, 61] ++ patText 0 value ++ attrsText attrs ++ [10])).toArray ∧
          WS w' 0 true ∧
          (serPattern (((w0.writeLiteral [45]).writeLiteral id).writeLiteral [32, 61]) value).bind
              (fun w3 => (serAttributes w3 attrs).map Writer.newline) = some w' := by
      intro w0 nl0 hw0
      obtain ⟨hb2a, hw2a⟩ := ws0_writeTidy hw0 [45] (by decide)
      obtain ⟨hb2, hw2⟩ := ws0_writeTidy hw2a id (validIdent_tidy hid)
      obtain ⟨hb3, hw3⟩ := ws0_writeTidy hw2 [32, 61] (by decide)
      obtain ⟨w4, hs4, hb4, hw4⟩ := (rtPattern_patRT value hval 0).ser _ hw3
      obtain ⟨w5, hs5, hb5, hw5⟩ := serAttributes_text attrs hattrs w4 hw4
      obtain ⟨hb6, hw6⟩ := ws_newline hw5
      refine ⟨w5.newline, ?_, hw6, by simp [hs4, hs5]⟩
      rw [hb6, hb5, hb4, hb3, hb2, hb2a]; apply Array.ext'; simp
    cases comment with
    | none =>
      obtain ⟨w', hb', hw', hs'⟩ := body w nl hw
      refine ⟨w', by rw [hb']; apply Array.ext'; simp [entryText, optCommentText], hw', ?_⟩
      simp only [serResourceGo, serTerm, lit_eq, lit_minus]
      simp only [Option.bind] at hs'
      cases hsp : serPattern (((w.writeLiteral [45]).writeLiteral id).writeLiteral [32, 61]) value with
      | none => rw [hsp] at hs'; cases hs'
      | some w3 => rw [hsp] at hs'; simp only [] at hs'; simp only [hsp, hs']
    | some c =>
      simp only [rtOptComment, rtComment, Bool.and_eq_true, Bool.not_eq_true', List.isEmpty_eq_false_iff,
        List.all_eq_true] at hcom
      obtain ⟨hbc, hwc⟩ := serComment_text [35] (by decide) c hcom.2 w nl hw hcom.1
      obtain ⟨w', hb', hw', hs'⟩ := body (serComment w [35] c) true hwc
      refine ⟨w', by rw [hb', hbc]; apply Array.ext'; simp [entryText, optCommentText], hw', ?_⟩
      simp only [serResourceGo, serTerm, lit_eq, lit_minus, lit_hash]
      simp only [Option.bind] at hs'
      cases hsp : serPattern ((((serComment w [35] c).writeLiteral [45]).writeLiteral id).writeLiteral [32, 61]) value with
      | none => rw [hsp] at hs'; cases hs'
      | some w3 => rw [hsp] at hs'; simp only [] at hs'; simp only [hsp, hs']
  | comment c =>
    obtain ⟨hb, hw'⟩ := free [35] c (by decide) he
    exact ⟨_, by simpa [entryText] using hb, hw', by simp [serResourceGo]⟩
  | groupComment c =>
    obtain ⟨hb, hw'⟩ := free [35, 35] c (by decide) he
    exact ⟨_, by simpa [entryText] using hb, hw', by simp [serResourceGo]⟩
  | resourceComment c =>
    obtain ⟨hb, hw'⟩ := free [35, 35, 35] c (by decide) he
    exact ⟨_, by simpa [entryText] using hb, hw', by simp [serResourceGo]⟩
  | junk c => simp [rtEntry] at he

theorem serResourceGo_text (withJunk : Bool) (r : List (Entry Bytes)) (hr : ∀ e ∈ r, rtEntry e = true) :
    ∀ (w : Writer) (nl b : Bool), WS w 0 nl →
      ∃ w', serResourceGo withJunk w b r = some w' ∧ w'.buffer = w.buffer ++ (resText b r).toArray := by
  induction r with
  | nil => intro w nl b _; exact ⟨w, rfl, by simp [resText]⟩
  | cons e es ih =>
    intro w nl b hw
    obtain ⟨w1, hb1, hw1, hs1⟩ := serEntry_text withJunk e (hr e (List.mem_cons_self)) es w nl b hw
    obtain ⟨w2, hs2, hb2⟩ := ih (fun x hx => hr x (List.mem_cons_of_mem _ hx)) w1 true true hw1
    exact ⟨w2, by rw [hs1, hs2], by rw [hb2, hb1]; apply Array.ext'; simp [resText]⟩

/-- **the serializer on a resource of class entries** writes `resText` -/
theorem serialize_text (withJunk : Bool) (r : List (Entry Bytes)) (hr : ∀ e ∈ r, rtEntry e = true) :
    serialize withJunk r = some (resText false r) := by
  obtain ⟨w', hs, hb⟩ := serResourceGo_text withJunk r hr {} false false ⟨rfl, rfl, rfl⟩
  simp [serialize, hs, hb]

end FluentProofs.Ser
