import FluentModel.Serializer
/-!
# Serializer lemmas, part 1: the `TextWriter` and the indentation invariant (C04 / T1a, T1b)

* every `TextWriter` primitive keeps `indentLevel` (except `indent`/`dedent`, by ±1);
* every serializer function returns `some` writer with the `indentLevel` it was given
  (mutual structural induction over `Inline`/`Expr`/`Variant`/`PatElem`), hence `dedent`
  never underflows and `serialize` never panics;
* the exact buffer effect of `writeLiteral`, `newline`, `writeCharIntoIndent`.
-/
namespace FluentProofs.Ser
open FluentModel FluentModel.Syntax FluentModel.Syntax.Ser

/-! ## `indentLevel` bookkeeping of the primitives -/

@[simp] theorem pushAll_indentLevel (w : Writer) (bs : Bytes) : (w.pushAll bs).indentLevel = w.indentLevel := rfl
@[simp] theorem writeIndent_indentLevel (w : Writer) : w.writeIndent.indentLevel = w.indentLevel := rfl
@[simp] theorem newline_indentLevel (w : Writer) : w.newline.indentLevel = w.indentLevel := rfl
@[simp] theorem indent_indentLevel (w : Writer) : w.indent.indentLevel = w.indentLevel + 1 := rfl
@[simp] theorem indent_buffer (w : Writer) : w.indent.buffer = w.buffer := rfl

@[simp] theorem writeLiteral_indentLevel (w : Writer) (item : Bytes) :
    (w.writeLiteral item).indentLevel = w.indentLevel := by
  unfold Writer.writeLiteral
  simp only []
  split <;> split <;> rfl

@[simp] theorem writeCharIntoIndent_indentLevel (w : Writer) (ch : UInt8) :
    (w.writeCharIntoIndent ch).indentLevel = w.indentLevel := by
  unfold Writer.writeCharIntoIndent
  simp only []
  split <;> rfl

theorem dedent_indent (w : Writer) : w.indent.dedent = some w := by
  simp [Writer.dedent, Writer.indent]

theorem dedent_of_pos {w : Writer} (h : 1 ≤ w.indentLevel) :
    ∃ w', w.dedent = some w' ∧ w'.indentLevel = w.indentLevel - 1 ∧ w'.buffer = w.buffer := by
  refine ⟨{ w with indentLevel := w.indentLevel - 1 }, ?_, rfl, rfl⟩
  simp [Writer.dedent, h]

theorem dedent_eq_some {w w' : Writer} (h : w.dedent = some w') :
    w'.indentLevel + 1 = w.indentLevel ∧ w'.buffer = w.buffer := by
  unfold Writer.dedent at h
  split at h
  · cases h; exact ⟨by simp; omega, rfl⟩
  · cases h

/-! ## T1a — the indentation invariant -/

/-- `r` is `some` writer whose indent level is `k` -/
def Keeps (k : Nat) (r : Option Writer) : Prop := ∃ w', r = some w' ∧ w'.indentLevel = k

theorem Keeps.some {k : Nat} {w : Writer} (h : w.indentLevel = k) : Keeps k (some w) := ⟨w, rfl, h⟩

theorem Keeps.map {k : Nat} {r : Option Writer} (h : Keeps k r) (f : Writer → Writer)
    (hf : ∀ w, (f w).indentLevel = w.indentLevel) : Keeps k (r.map f) := by
  obtain ⟨w', rfl, h'⟩ := h
  exact ⟨f w', rfl, by rw [hf, h']⟩

theorem patternPre_indentLevel (w : Writer) (p : List (PatElem Bytes)) :
    (patternPre w p).indentLevel = w.indentLevel + (if isMultiline p then 1 else 0) := by
  unfold patternPre
  simp only []
  split <;> split <;> simp

theorem patternPost_keeps (p : List (PatElem Bytes)) (w : Writer) (k : Nat)
    (h : w.indentLevel = k + (if isMultiline p then 1 else 0)) : Keeps k (patternPost p w) := by
  unfold patternPost
  split
  · rename_i hm
    simp [hm] at h
    obtain ⟨w', h1, h2, _⟩ := dedent_of_pos (w := w) (by omega)
    exact ⟨w', h1, by omega⟩
  · rename_i hm
    simp [hm] at h
    exact ⟨w, rfl, h⟩

mutual

theorem serInline_keeps (e : Inline Bytes) (w : Writer) : Keeps w.indentLevel (serInline w e) := by
  cases e with
  | str v => simp [serInline, Keeps]
  | num v => simp [serInline, Keeps]
  | var id => simp [serInline, Keeps]
  | msg id attr => cases attr <;> simp [serInline, Keeps]
  | fn id pos named =>
    unfold serInline
    obtain ⟨⟨w1, b⟩, h1, h1'⟩ := serPositional_keeps pos ((w.writeLiteral id).writeLiteral (lit "(")) false
    simp only [h1]
    have := serNamed_keeps named w1 b
    simp at h1'
    rw [h1'] at this
    exact this.map _ (by simp)
  | term id attr args =>
    cases args with
    | none => cases attr <;> simp [serInline, Keeps]
    | some pn =>
      obtain ⟨pos, named⟩ := pn
      cases attr with
      | none =>
        unfold serInline
        obtain ⟨⟨w1, b⟩, h1, h1'⟩ := serPositional_keeps pos
          (((w.writeLiteral (lit "-")).writeLiteral id).writeLiteral (lit "(")) false
        simp only [h1]
        have := serNamed_keeps named w1 b
        simp at h1'
        rw [h1'] at this
        exact this.map _ (by simp)
      | some a =>
        unfold serInline
        obtain ⟨⟨w1, b⟩, h1, h1'⟩ := serPositional_keeps pos
          (((((w.writeLiteral (lit "-")).writeLiteral id).writeLiteral (lit ".")).writeLiteral a).writeLiteral (lit "(")) false
        simp only [h1]
        have := serNamed_keeps named w1 b
        simp at h1'
        rw [h1'] at this
        exact this.map _ (by simp)
  | placeable e =>
    unfold serInline
    have := serExpr_keeps e (w.writeLiteral (lit "{"))
    simp at this
    exact this.map _ (by simp)

theorem serPositional_keeps (xs : List (Inline Bytes)) (w : Writer) (written : Bool) :
    ∃ r, serPositional w written xs = some r ∧ r.1.indentLevel = w.indentLevel := by
  cases xs with
  | nil => exact ⟨(w, written), by simp [serPositional], rfl⟩
  | cons x xs =>
    unfold serPositional
    simp only []
    obtain ⟨w2, h2, h2'⟩ := serInline_keeps x (if written then w.writeLiteral (lit ", ") else w)
    simp only [h2]
    obtain ⟨r, h3, h3'⟩ := serPositional_keeps xs w2 true
    refine ⟨r, h3, ?_⟩
    rw [h3', h2']
    split <;> simp

theorem serNamed_keeps (xs : List (Bytes × Inline Bytes)) (w : Writer) (written : Bool) :
    Keeps w.indentLevel (serNamed w written xs) := by
  cases xs with
  | nil => exact ⟨w, by simp [serNamed], rfl⟩
  | cons x xs =>
    obtain ⟨n, v⟩ := x
    unfold serNamed
    simp only []
    obtain ⟨w3, h3, h3'⟩ := serInline_keeps v
      (((if written then w.writeLiteral (lit ", ") else w).writeLiteral n).writeLiteral (lit ": "))
    simp only [h3]
    have := serNamed_keeps xs w3 true
    rw [h3'] at this
    have e : ((((if written then w.writeLiteral (lit ", ") else w).writeLiteral n).writeLiteral (lit ": "))).indentLevel
        = w.indentLevel := by
      split <;> simp
    rw [e] at this
    exact this

theorem serExpr_keeps (e : Expr Bytes) (w : Writer) : Keeps w.indentLevel (serExpr w e) := by
  cases e with
  | inline i => unfold serExpr; exact serInline_keeps i w
  | select sel vs =>
    unfold serExpr
    obtain ⟨w1, h1, h1'⟩ := serInline_keeps sel w
    simp only [h1]
    obtain ⟨w3, h3, h3'⟩ := serVariants_keeps vs (((w1.writeLiteral (lit " ->")).newline).indent)
    simp only [h3]
    simp at h3'
    obtain ⟨w', h4, h4', _⟩ := dedent_of_pos (w := w3) (by omega)
    exact ⟨w', h4, by omega⟩

theorem serVariants_keeps (vs : List (Variant Bytes)) (w : Writer) : Keeps w.indentLevel (serVariants w vs) := by
  cases vs with
  | nil => exact ⟨w, by simp [serVariants], rfl⟩
  | cons v vs =>
    unfold serVariants
    obtain ⟨w1, h1, h1'⟩ := serVariant_keeps v w
    simp only [h1]
    have := serVariants_keeps vs w1.newline
    simp [h1'] at this
    exact this

theorem serVariant_keeps (v : Variant Bytes) (w : Writer) : Keeps w.indentLevel (serVariant w v) := by
  cases v with
  | mk key value dflt =>
    unfold serVariant
    simp only []
    generalize hw2 : ((((if dflt = true then w.writeCharIntoIndent 42 else w).writeLiteral (lit "[")).writeLiteral
      (match key with | .ident n => n | .num v => v)).writeLiteral (lit "]")) = w2
    have hw2l : w2.indentLevel = w.indentLevel := by
      subst hw2; split <;> simp
    obtain ⟨w3, h3, h3'⟩ := serElements_keeps value (patternPre w2 value)
    simp only [h3]
    rw [patternPre_indentLevel, hw2l] at h3'
    exact patternPost_keeps value w3 _ h3'

theorem serElements_keeps (es : List (PatElem Bytes)) (w : Writer) : Keeps w.indentLevel (serElements w es) := by
  cases es with
  | nil => exact ⟨w, by simp [serElements], rfl⟩
  | cons e es =>
    unfold serElements
    obtain ⟨w1, h1, h1'⟩ := serElement_keeps e w
    simp only [h1]
    have := serElements_keeps es w1
    rw [h1'] at this
    exact this

theorem serElement_keeps (e : PatElem Bytes) (w : Writer) : Keeps w.indentLevel (serElement w e) := by
  cases e with
  | text v => simp [serElement, Keeps]
  | placeable e =>
    cases e with
    | select sel vs =>
      unfold serElement
      have := serExpr_keeps (.select sel vs) (w.writeLiteral (lit "{ "))
      simp at this
      exact this.map _ (by simp)
    | inline i =>
      cases i with
      | placeable e =>
        unfold serElement
        have := serExpr_keeps e (w.writeLiteral (lit "{{ "))
        simp at this
        exact this.map _ (by simp)
      | str v =>
        unfold serElement
        have := serInline_keeps (.str v) (w.writeLiteral (lit "{ "))
        simp at this
        exact this.map _ (by simp)
      | num v =>
        unfold serElement
        have := serInline_keeps (.num v) (w.writeLiteral (lit "{ "))
        simp at this
        exact this.map _ (by simp)
      | var v =>
        unfold serElement
        have := serInline_keeps (.var v) (w.writeLiteral (lit "{ "))
        simp at this
        exact this.map _ (by simp)
      | msg a b =>
        unfold serElement
        have := serInline_keeps (.msg a b) (w.writeLiteral (lit "{ "))
        simp at this
        exact this.map _ (by simp)
      | term a b c =>
        unfold serElement
        have := serInline_keeps (.term a b c) (w.writeLiteral (lit "{ "))
        simp at this
        exact this.map _ (by simp)
      | fn a b c =>
        unfold serElement
        have := serInline_keeps (.fn a b c) (w.writeLiteral (lit "{ "))
        simp at this
        exact this.map _ (by simp)

end

/-! ### entries and resources -/

theorem serPattern_keeps (p : List (PatElem Bytes)) (w : Writer) : Keeps w.indentLevel (serPattern w p) := by
  unfold serPattern
  obtain ⟨w3, h3, h3'⟩ := serElements_keeps p (patternPre w p)
  simp only [h3]
  rw [patternPre_indentLevel] at h3'
  exact patternPost_keeps p w3 _ h3'

@[simp] theorem serComment_indentLevel (pre : Bytes) (ls : List Bytes) (w : Writer) :
    (serComment w pre ls).indentLevel = w.indentLevel := by
  induction ls generalizing w with
  | nil => rfl
  | cons l ls ih =>
    unfold serComment
    simp only []
    rw [ih]
    split <;> simp

theorem serAttributesGo_keeps (as : List (Attribute Bytes)) (w : Writer) :
    Keeps w.indentLevel (serAttributesGo w as) := by
  induction as generalizing w with
  | nil => exact ⟨w, rfl, rfl⟩
  | cons a as ih =>
    unfold serAttributesGo
    simp only []
    obtain ⟨w2, h2, h2'⟩ := serPattern_keeps a.value
      (((w.newline.writeLiteral (lit ".")).writeLiteral a.id).writeLiteral (lit " ="))
    simp only [h2]
    have := ih w2
    simp at h2'
    rw [h2'] at this
    exact this

theorem serAttributes_keeps (as : List (Attribute Bytes)) (w : Writer) :
    Keeps w.indentLevel (serAttributes w as) := by
  unfold serAttributes
  split
  · exact ⟨w, rfl, rfl⟩
  · obtain ⟨w1, h1, h1'⟩ := serAttributesGo_keeps as w.indent
    simp only [h1]
    simp at h1'
    obtain ⟨w', h4, h4', _⟩ := dedent_of_pos (w := w1) (by omega)
    exact ⟨w', h4, by omega⟩

theorem serMessage_keeps (m : Message Bytes) (w : Writer) : Keeps w.indentLevel (serMessage w m) := by
  unfold serMessage
  simp only []
  generalize hw2 : ((match m.comment with
      | some c => serComment w (lit "#") c
      | none => w).writeLiteral m.id).writeLiteral (lit " =") = w2
  have hw2l : w2.indentLevel = w.indentLevel := by
    subst hw2; split <;> simp
  cases m.value with
  | none =>
    simp only []
    have := serAttributes_keeps m.attributes w2
    rw [hw2l] at this
    exact this.map _ (by simp)
  | some v =>
    simp only []
    obtain ⟨w3, h3, h3'⟩ := serPattern_keeps v w2
    simp only [h3]
    have := serAttributes_keeps m.attributes w3
    rw [h3', hw2l] at this
    exact this.map _ (by simp)

theorem serTerm_keeps (t : Term Bytes) (w : Writer) : Keeps w.indentLevel (serTerm w t) := by
  unfold serTerm
  simp only []
  generalize hw2 : (((match t.comment with
      | some c => serComment w (lit "#") c
      | none => w).writeLiteral (lit "-")).writeLiteral t.id).writeLiteral (lit " =") = w2
  have hw2l : w2.indentLevel = w.indentLevel := by
    subst hw2; split <;> simp
  obtain ⟨w3, h3, h3'⟩ := serPattern_keeps t.value w2
  simp only [h3]
  have := serAttributes_keeps t.attributes w3
  rw [h3', hw2l] at this
  exact this.map _ (by simp)

@[simp] theorem serFreeComment_indentLevel (w : Writer) (b : Bool) (pre : Bytes) (c : List Bytes) :
    (serFreeComment w b pre c).indentLevel = w.indentLevel := by
  unfold serFreeComment
  simp only []
  split <;> simp

theorem serResourceGo_keeps (withJunk : Bool) (es : List (Entry Bytes)) (w : Writer) (b : Bool) :
    Keeps w.indentLevel (serResourceGo withJunk w b es) := by
  induction es generalizing w b with
  | nil => exact ⟨w, rfl, rfl⟩
  | cons e es ih =>
    unfold serResourceGo
    cases e with
    | message m =>
      obtain ⟨w1, h1, h1'⟩ := serMessage_keeps m w
      simp only [h1]; rw [← h1']; exact ih _ _
    | term t =>
      obtain ⟨w1, h1, h1'⟩ := serTerm_keeps t w
      simp only [h1]; rw [← h1']; exact ih _ _
    | comment c => simpa using ih (serFreeComment w b (lit "#") c) true
    | groupComment c => simpa using ih (serFreeComment w b (lit "##") c) true
    | resourceComment c => simpa using ih (serFreeComment w b (lit "###") c) true
    | junk content =>
      simp only []
      split
      · exact ih _ _
      · simpa using ih (w.writeLiteral content) false

/-- **T1a.** `serialize` never panics: for every resource (any tree shape whatsoever) and both
options the model returns `some` bytes, i.e. the `expect` in `TextWriter::dedent` is unreachable. -/
theorem serialize_isSome (withJunk : Bool) (r : Resource Bytes) : ∃ out, serialize withJunk r = some out := by
  obtain ⟨w, h, _⟩ := serResourceGo_keeps withJunk r {} false
  exact ⟨w.buffer.toList, by simp [serialize, h]⟩


/-! ## T1b — what the `TextWriter` primitives do to the buffer -/

/-- `n` spaces -/
def spaces (n : Nat) : Array UInt8 := Array.replicate n 32

theorem writeIndentGo_eq (n : Nat) (b : Array UInt8) : writeIndentGo n b = b ++ spaces (4 * n) := by
  induction n generalizing b with
  | zero => simp [writeIndentGo, spaces]
  | succ n ih =>
    rw [writeIndentGo, ih]
    have : spaces (4 * (n + 1)) = #[32, 32, 32, 32] ++ spaces (4 * n) := by
      apply Array.ext'
      have : 4 * (n + 1) = 4 + 4 * n := by omega
      simp [spaces, this, ← List.replicate_append_replicate]
    rw [this, Array.append_assoc]

/-- `write_indent` appends exactly `4 · indentLevel` spaces. -/
theorem writeIndent_buffer (w : Writer) : w.writeIndent.buffer = w.buffer ++ spaces (4 * w.indentLevel) :=
  writeIndentGo_eq _ _

theorem endsWith_iff (w : Writer) (b : UInt8) : endsWith w b = true ↔ w.buffer.back? = some b := by
  simp [endsWith]

@[simp] theorem spaces_back (n : Nat) : (spaces n).back? = if n = 0 then none else some 32 := by
  simp [spaces, Array.back?_replicate]

/-- `newline` appends `\n`, preceded by a second `\r` when the buffer ends with `\r`. -/
theorem newline_buffer (w : Writer) :
    w.newline.buffer = w.buffer ++ (if endsWith w 13 then #[13, 10] else #[10]) := by
  unfold Writer.newline
  split <;> simp_all <;> apply Array.ext' <;> simp

@[simp] theorem newline_endsWith (w : Writer) : endsWith w.newline 10 = true := by
  simp [Writer.newline, endsWith]

/-- **`write_literal` right after a line break**: the line starts with exactly `4 · indentLevel`
spaces, then the literal (no `\r` is inserted). -/
theorem writeLiteral_after_newline (w : Writer) (item : Bytes) (h : endsWith w 10 = true) :
    (w.writeLiteral item).buffer = w.buffer ++ spaces (4 * w.indentLevel) ++ item.toArray := by
  unfold Writer.writeLiteral
  simp only [h, if_true]
  have h2 : endsWith w.writeIndent 13 = false := by
    rw [endsWith_iff] at h
    simp [endsWith, writeIndent_buffer, Array.back?_append, h]
    split <;> simp
  simp [h2, Writer.pushAll, writeIndent_buffer]

/-- **`write_literal` elsewhere**: the literal is appended; a `\r` is inserted first iff the buffer
ends with `\r` and the literal starts with `\n`. -/
theorem writeLiteral_mid_line (w : Writer) (item : Bytes) (h : endsWith w 10 = false) :
    (w.writeLiteral item).buffer =
      w.buffer ++ (if endsWith w 13 && item.head? == some 10 then #[13] else #[]) ++ item.toArray := by
  unfold Writer.writeLiteral
  simp only [h]
  simp only [Bool.false_eq_true, if_false, Writer.pushAll]
  split <;> simp

/-- `write_literal` only appends. -/
theorem writeLiteral_appends (w : Writer) (item : Bytes) :
    ∃ mid, (w.writeLiteral item).buffer = w.buffer ++ mid ++ item.toArray := by
  cases h : endsWith w 10
  · exact ⟨_, writeLiteral_mid_line w item h⟩
  · exact ⟨_, writeLiteral_after_newline w item h⟩

/-- `newline` only appends. -/
theorem newline_appends (w : Writer) : ∃ mid, w.newline.buffer = w.buffer ++ mid := ⟨_, newline_buffer w⟩

/-! ### `String::pop` and `write_char_into_indent` -/

theorem popChar_push_ascii (b : Array UInt8) (x : UInt8) (hx : (x &&& 0xC0) ≠ 0x80) : popChar (b.push x) = b := by
  unfold popChar
  simp only [Array.size_push]
  rw [popCharGo]
  simp [hx]

/-- **`write_char_into_indent` at the start of a line inside indent level `k + 1`** (the only
situation in which the serializer calls it, see `serVariants_eq_spec`): the line gets its
`4·(k+1)` indentation spaces and the last of them is replaced by the character — nothing that was
in the buffer before is touched. -/
theorem writeCharIntoIndent_after_newline (w : Writer) (ch : UInt8) (k : Nat) (h : endsWith w 10 = true)
    (hk : w.indentLevel = k + 1) :
    (w.writeCharIntoIndent ch).buffer = w.buffer ++ spaces (4 * k + 3) ++ #[ch] := by
  unfold Writer.writeCharIntoIndent
  simp only [h, if_true]
  rw [writeIndent_buffer, hk]
  have : spaces (4 * (k + 1)) = (spaces (4 * k + 3)).push 32 := by
    apply Array.ext'
    have : 4 * (k + 1) = (4 * k + 3) + 1 := by omega
    simp [spaces, this, List.replicate_succ']
  rw [this, ← Array.push_append, popChar_push_ascii _ _ (by decide)]
  simp

/-- `write_char_into_indent` in general: when the (indented) buffer ends with a byte that is not a
UTF-8 continuation byte, exactly that byte is replaced. -/
theorem writeCharIntoIndent_mid_line (w : Writer) (ch x : UInt8) (b : Array UInt8) (h : w.buffer = b.push x)
    (hx10 : x ≠ 10) (hx : (x &&& 0xC0) ≠ 0x80) :
    (w.writeCharIntoIndent ch).buffer = b.push ch := by
  unfold Writer.writeCharIntoIndent
  have : endsWith w 10 = false := by simp [endsWith, h, hx10]
  simp only [this]
  simp [h, popChar_push_ascii _ _ hx]

/-! ### the only use of `write_char_into_indent`: the `*` of a default variant -/

/-- the `*` of a default variant written directly: indentation minus one space, then `*` -/
def starIndent (w : Writer) : Writer :=
  { w with buffer := w.buffer ++ spaces (4 * w.indentLevel - 1) ++ #[42] }

/-- `serVariants` with the `*` written by `starIndent` (pure appending) instead of
`write_char_into_indent` (which pops a character) -/
def serVariantsSpec (w : Writer) : List (Variant Bytes) → Option Writer
  | [] => some w
  | .mk key value dflt :: vs =>
    match serVariant (if dflt then starIndent w else w) (.mk key value false) with
    | none => none
    | some w1 => serVariantsSpec w1.newline vs

theorem serVariant_default (w : Writer) (key : VKey Bytes) (value : List (PatElem Bytes)) :
    serVariant w (.mk key value true) = serVariant (w.writeCharIntoIndent 42) (.mk key value false) := by
  simp [serVariant]

theorem writeCharIntoIndent_eq_starIndent (w : Writer) (h : endsWith w 10 = true) (hk : 1 ≤ w.indentLevel) :
    w.writeCharIntoIndent 42 = starIndent w := by
  obtain ⟨k, hk⟩ : ∃ k, w.indentLevel = k + 1 := ⟨w.indentLevel - 1, by omega⟩
  have h1 := writeCharIntoIndent_after_newline w 42 k h hk
  have h2 := writeCharIntoIndent_indentLevel w 42
  have h3 : (starIndent w).buffer = w.buffer ++ spaces (4 * k + 3) ++ #[42] := by
    simp [starIndent, hk]; congr 2
  cases hw : w.writeCharIntoIndent 42 with
  | mk b l =>
    rw [hw] at h1 h2
    simp at h1 h2
    simp [starIndent, h1, h2, hk]; congr 2

/-- **`write_char_into_indent` only ever replaces an indentation space.**  Whenever the variant
list of a select expression is serialised (the writer is then at the start of a line inside indent
level ≥ 1, and stays so between variants), `serVariants` coincides with `serVariantsSpec`, in which
the `*` is appended after `4k − 1` spaces and no character of the buffer is ever removed. -/
theorem serVariants_eq_spec (vs : List (Variant Bytes)) (w : Writer) (h : endsWith w 10 = true)
    (hk : 1 ≤ w.indentLevel) : serVariants w vs = serVariantsSpec w vs := by
  induction vs generalizing w with
  | nil => simp [serVariants, serVariantsSpec]
  | cons v vs ih =>
    obtain ⟨key, value, dflt⟩ := v
    unfold serVariants serVariantsSpec
    have e : serVariant w (.mk key value dflt) =
        serVariant (if dflt then starIndent w else w) (.mk key value false) := by
      cases dflt
      · simp
      · simp [serVariant_default, writeCharIntoIndent_eq_starIndent w h hk]
    rw [e]
    obtain ⟨w1, h1, h1'⟩ := serVariant_keeps (.mk key value false) (if dflt then starIndent w else w)
    simp only [h1]
    apply ih
    · simp
    · simp [h1']; split <;> simp [starIndent, hk]

/-- `serialize_expression` on a select expression, with the variants written by `serVariantsSpec` -/
theorem serExpr_select_eq (w : Writer) (sel : Inline Bytes) (vs : List (Variant Bytes)) :
    serExpr w (.select sel vs) =
      match serInline w sel with
      | none => none
      | some w1 =>
        match serVariantsSpec (((w1.writeLiteral (lit " ->")).newline).indent) vs with
        | none => none
        | some w3 => w3.dedent := by
  rw [serExpr]
  cases serInline w sel with
  | none => rfl
  | some w1 =>
    simp only []
    rw [serVariants_eq_spec _ _ (by simpa [endsWith] using newline_endsWith _) (by simp)]
    rfl

end FluentProofs.Ser
