import FluentModel.Plural
/-!
# `FluentNumberOptions::merge`: an option given in the call replaces the value's, all others are kept
(support for C12 `number_options_override`)
-/
namespace FluentProofs.Num
open FluentModel FluentModel.Num FluentModel.Plural

theorem restGet_filter_ne (r : List (String × String)) (name k : String) (h : k ≠ name) :
    restGet (r.filter (fun kv => kv.1 != name)) k = restGet r k := by
  induction r with
  | nil => rfl
  | cons p t ih =>
    obtain ⟨a, b⟩ := p
    by_cases ha : a = name
    · subst ha
      have hak : (a == k) = false := by simp; exact fun e => h e.symm
      simp [List.filter_cons, restGet, hak, ih]
    · have : (a != name) = true := by simp [ha]
      simp only [List.filter_cons, this, if_true, restGet, ih]

theorem restGet_filter_self (r : List (String × String)) (name : String) :
    restGet (r.filter (fun kv => kv.1 != name)) name = none := by
  induction r with
  | nil => rfl
  | cons p t ih =>
    obtain ⟨a, b⟩ := p
    by_cases ha : a = name
    · subst ha; simp [List.filter_cons, ih]
    · have h1 : (a != name) = true := by simp [ha]
      have h2 : (a == name) = false := by simp [ha]
      simp only [List.filter_cons, h1, if_true, restGet, h2, ih]
      simp

theorem restGet_insert_self (r : List (String × String)) (name v : String) (h : restGet r name = none) :
    restGet (restInsert name v r) name = some v := by
  induction r with
  | nil => simp [restInsert, restGet]
  | cons p t ih =>
    obtain ⟨a, b⟩ := p
    have hne : (a == name) = false := by
      cases hc : (a == name) with
      | false => rfl
      | true => simp [restGet, hc] at h
    have ht : restGet t name = none := by simpa [restGet, hne] using h
    unfold restInsert
    split
    · simp [restGet]
    · simp [restGet, hne, ih ht]

theorem restGet_insert_ne (r : List (String × String)) (name v k : String) (h : k ≠ name) :
    restGet (restInsert name v r) k = restGet r k := by
  have hnk : (name == k) = false := by simp; exact fun e => h e.symm
  induction r with
  | nil => simp [restInsert, restGet, hnk]
  | cons p t ih =>
    obtain ⟨a, b⟩ := p
    unfold restInsert
    split
    · simp [restGet, hnk]
    · simp [restGet, ih]

theorem restGet_restSet_self (r : List (String × String)) (name : String) (v : Option String) :
    restGet (restSet r name v) name = v := by
  unfold restSet
  cases v with
  | none => exact restGet_filter_self r name
  | some x => exact restGet_insert_self _ name x (restGet_filter_self r name)

theorem restGet_restSet_ne (r : List (String × String)) (name k : String) (v : Option String) (h : k ≠ name) :
    restGet (restSet r name v) k = restGet r k := by
  unfold restSet
  cases v with
  | none => exact restGet_filter_ne r name k h
  | some x => rw [restGet_insert_ne _ name x k h]; exact restGet_filter_ne r name k h

/-- an option with another name is untouched by one `merge` arm -/
theorem getOption_mergeOption_ne (o : NumOptions) (k : String) (v : Val) (name : String) (h : name ≠ k) :
    getOption (mergeOption o k v) name = getOption o name := by
  unfold mergeOption
  split <;> first
    | rfl
    | (unfold getOption
       split <;> first
         | rfl
         | (simp only []; rw [restGet_restSet_ne _ _ _ _ (by first | exact h | decide)])
         | (exact absurd rfl h))

/-- the option named by the pair gets the pair's value when `merge` has an arm for it, and is untouched otherwise -/
theorem getOption_mergeOption_self (o : NumOptions) (k : String) (v : Val) :
    getOption (mergeOption o k v) k = (optionOf k v).getD (getOption o k) := by
  unfold mergeOption
  split
  case h_11 h1 h2 h3 h4 h5 h6 h7 h8 h9 h10 =>
    have : optionOf k v = none := by
      unfold optionOf
      split <;> first | rfl | (exfalso; simp_all)
    simp [this]
  all_goals
    simp only [getOption, optionOf, restGet_restSet_self, Option.getD_some]
    try (repeat' split) <;> simp_all

/-- what the named arguments of a `NUMBER` call say about option `name`: the last pair `(name, v)` that `merge`
has an arm for (`optionOf name v ≠ none`) -/
def effective : List (String × Val) → String → Option String
  | [], _ => none
  | (k, v) :: rest, name =>
    match effective rest name with
    | some s => some s
    | none => if k = name then optionOf name v else none

theorem merge_cons (o : NumOptions) (k : String) (v : Val) (rest : List (String × Val)) :
    merge o ((k, v) :: rest) = merge (mergeOption o k v) rest := by
  simp [merge]

theorem getOption_merge (o : NumOptions) (named : List (String × Val)) (name : String) :
    getOption (merge o named) name = (effective named name).getD (getOption o name) := by
  induction named generalizing o with
  | nil => simp [merge, effective]
  | cons p rest ih =>
    obtain ⟨k, v⟩ := p
    rw [merge_cons, ih, effective]
    cases he : effective rest name with
    | some s => simp
    | none =>
      simp only [Option.getD_none]
      by_cases hk : k = name
      · subst hk; simp [getOption_mergeOption_self]
      · have hk' : name ≠ k := fun e => hk e.symm
        simp [hk, getOption_mergeOption_ne o k v name hk']

end FluentProofs.Num
