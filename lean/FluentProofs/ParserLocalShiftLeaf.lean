import FluentProofs.ParserLocalDefs
/-!
# Locality of the parser, SHIFT family, part 1: the leaf scanners

Under `h : Shift d s₁ s₂` (`s₂` is `s₁` with `d` bytes in front) every leaf function run on `s₂` at `p + d` does what
it does on `s₁` at `p`, with all positions of the result moved by `d`.
-/
namespace FluentProofs.Parser
open FluentModel.Syntax

theorem sh1 (d p : Nat) : p + d + 1 = p + 1 + d := by omega
theorem sh2 (d p : Nat) : p + d + 2 = p + 2 + d := by omega
theorem sh3 (d p : Nat) : p + d + 3 = p + 3 + d := by omega

section
variable {d : Nat} {s₁ s₂ : Src}

theorem Shift.lt (h : Shift d s₁ s₂) (p : Nat) : (p + d < s₂.size) = (p < s₁.size) := by
  have := h.size; apply propext; omega
theorem Shift.ge (h : Shift d s₁ s₂) (p : Nat) : (p + d ≥ s₂.size) = (p ≥ s₁.size) := by
  have := h.size; apply propext; omega
theorem Shift.gt (h : Shift d s₁ s₂) (p : Nat) : (p + d > s₂.size) = (p > s₁.size) := by
  have := h.size; apply propext; omega
theorem Shift.le (h : Shift d s₁ s₂) (p : Nat) : (p + d ≤ s₂.size) = (p ≤ s₁.size) := by
  have := h.size; apply propext; omega
theorem Shift.fuel (h : Shift d s₁ s₂) (p : Nat) : s₂.size - (p + d) = s₁.size - p := by
  have := h.size; omega
theorem Shift.fuel1 (h : Shift d s₁ s₂) (p : Nat) : s₂.size - (p + d) + 1 = s₁.size - p + 1 := by
  have := h.size; omega
/-- the byte before a shifted position `p + d` with `p > 0` -/
theorem Shift.get_pred (h : Shift d s₁ s₂) {p : Nat} (hp : 0 < p) : s₂[p + d - 1]? = s₁[p - 1]? := by
  rw [show p + d - 1 = (p - 1) + d by omega]; exact h.get _

theorem shErr_mkErr (d : Nat) (k : EK) (p : Nat) : shErr d (mkErr k p) = mkErr (shEK d k) (p + d) := by
  simp only [shErr, mkErr, Option.map_none, sh1 d]

theorem shErr_mkErr2 (d : Nat) (k : EK) (a b : Nat) : shErr d (mkErr2 k a b) = mkErr2 (shEK d k) (a + d) (b + d) := by
  simp only [shErr, mkErr2, Option.map_none]

/-! ## helper.rs -/

theorem isCurrentByte_shift (h : Shift d s₁ s₂) (p : Nat) (b : UInt8) :
    isCurrentByte s₂ (p + d) b = isCurrentByte s₁ p b := by
  simp only [isCurrentByte, h.get]

theorem skipBlankInlineGo_shift (h : Shift d s₁ s₂) (n p : Nat) :
    skipBlankInlineGo s₂ n (p + d) = skipBlankInlineGo s₁ n p + d := by
  induction n generalizing p with
  | zero => rfl
  | succ n ih =>
    simp only [skipBlankInlineGo, h.get, sh1 d, ih]
    split <;> rfl

theorem skipBlankInline_shift (h : Shift d s₁ s₂) (p : Nat) :
    skipBlankInline s₂ (p + d) = skipBlankInline s₁ p + d := by
  simp only [skipBlankInline, h.fuel, skipBlankInlineGo_shift h]

theorem skipEol_shift (h : Shift d s₁ s₂) (p : Nat) :
    skipEol s₂ (p + d) = (skipEol s₁ p).map (· + d) := by
  simp only [skipEol, h.get, sh1 d, sh2 d]
  split
  · rfl
  · split <;> rfl
  · rfl

theorem isEol_shift (h : Shift d s₁ s₂) (p : Nat) : isEol s₂ (p + d) = isEol s₁ p := by
  simp only [isEol, h.get, sh1 d]

theorem skipBlankBlockGo_shift (h : Shift d s₁ s₂) (n p c : Nat) :
    skipBlankBlockGo s₂ n (p + d) c = ((skipBlankBlockGo s₁ n p c).1 + d, (skipBlankBlockGo s₁ n p c).2) := by
  induction n generalizing p c with
  | zero => rfl
  | succ n ih =>
    simp only [skipBlankBlockGo, skipBlankInline_shift h, skipEol_shift h, h.lt]
    cases hE : skipEol s₁ (skipBlankInline s₁ p) with
    | some q => simp only [Option.map_some, ih]
    | none =>
      simp only [Option.map_none]
      split <;> rfl

theorem skipBlankBlock_shift (h : Shift d s₁ s₂) (p : Nat) :
    skipBlankBlock s₂ (p + d) = ((skipBlankBlock s₁ p).1 + d, (skipBlankBlock s₁ p).2) := by
  simp only [skipBlankBlock, h.fuel1, skipBlankBlockGo_shift h]

theorem skipBlankBlock_shift_fst (h : Shift d s₁ s₂) (p : Nat) :
    (skipBlankBlock s₂ (p + d)).1 = (skipBlankBlock s₁ p).1 + d := by rw [skipBlankBlock_shift h]
theorem skipBlankBlock_shift_snd (h : Shift d s₁ s₂) (p : Nat) :
    (skipBlankBlock s₂ (p + d)).2 = (skipBlankBlock s₁ p).2 := by rw [skipBlankBlock_shift h]

theorem skipBlankGo_shift (h : Shift d s₁ s₂) (n p : Nat) :
    skipBlankGo s₂ n (p + d) = skipBlankGo s₁ n p + d := by
  induction n generalizing p with
  | zero => rfl
  | succ n ih =>
    simp only [skipBlankGo, h.get, sh1 d, sh2 d, ih]
    split
    · rfl
    · rfl
    · split <;> rfl
    · rfl

theorem skipBlank_shift (h : Shift d s₁ s₂) (p : Nat) : skipBlank s₂ (p + d) = skipBlank s₁ p + d := by
  simp only [skipBlank, h.fuel, skipBlankGo_shift h]

theorem expectByte_shift (h : Shift d s₁ s₂) (p : Nat) (b : UInt8) :
    expectByte s₂ (p + d) b = shR id d (expectByte s₁ p b) := by
  simp only [expectByte, isCurrentByte_shift h]
  split
  · simp only [shR_ok, id, sh1 d]
  · simp only [shR_err, shErr_mkErr, shEK]

theorem takeByteIf_shift (h : Shift d s₁ s₂) (p : Nat) (b : UInt8) :
    takeByteIf s₂ (p + d) b = ((takeByteIf s₁ p b).1 + d, (takeByteIf s₁ p b).2) := by
  simp only [takeByteIf, isCurrentByte_shift h]
  split
  · simp only [sh1 d]
  · rfl

theorem isIdentifierStart_shift (h : Shift d s₁ s₂) (p : Nat) : isIdentifierStart s₂ (p + d) = isIdentifierStart s₁ p := by
  simp only [isIdentifierStart, h.get]

theorem isNumberStart_shift (h : Shift d s₁ s₂) (p : Nat) : isNumberStart s₂ (p + d) = isNumberStart s₁ p := by
  simp only [isNumberStart, h.get]

theorem scanWhileGo_shift (h : Shift d s₁ s₂) (pred : UInt8 → Bool) (n p : Nat) :
    scanWhileGo s₂ pred n (p + d) = scanWhileGo s₁ pred n p + d := by
  induction n generalizing p with
  | zero => rfl
  | succ n ih =>
    simp only [scanWhileGo, h.get, sh1 d, ih]
    split
    · split <;> rfl
    · rfl

theorem scanWhile_shift (h : Shift d s₁ s₂) (pred : UInt8 → Bool) (p : Nat) :
    scanWhile s₂ pred (p + d) = scanWhile s₁ pred p + d := by
  simp only [scanWhile, h.fuel, scanWhileGo_shift h]

theorem skipDigits_shift (h : Shift d s₁ s₂) (p : Nat) : skipDigits s₂ (p + d) = shR id d (skipDigits s₁ p) := by
  simp only [skipDigits, scanWhile_shift h]
  by_cases hc : scanWhile s₁ isDigit p = p
  · simp only [hc, beq_self_eq_true, if_true, shR_err, shErr_mkErr, shEK]
  · have hc' : ¬ scanWhile s₁ isDigit p + d = p + d := by omega
    simp only [beq_iff_eq, hc, hc', if_false, shR_ok, id]

/-! ## boundaries and slices -/

theorem isBoundary_shift (h : Shift d s₁ s₂) (i : Nat) : isBoundary s₂ (i + d) = isBoundary s₁ i := by
  by_cases hi : i = 0
  · subst hi
    rw [Nat.zero_add, h.bnd]
    simp [isBoundary]
  · have hsz := h.size
    simp only [isBoundary, h.get]
    have e1 : (i + d == 0) = (i == 0) := by
      rw [Bool.eq_iff_iff]; simp only [beq_iff_eq]; omega
    have e2 : (i + d == s₂.size) = (i == s₁.size) := by
      rw [Bool.eq_iff_iff]; simp only [beq_iff_eq]; omega
    rw [e1, e2]

theorem slice_shift (h : Shift d s₁ s₂) (a b : Nat) : slice s₂ (a + d) (b + d) = (slice s₁ a b).map (shSpan d) := by
  simp only [slice, isBoundary_shift h, h.le, Nat.add_le_add_iff_right]
  split <;> rfl

theorem spanBytes_shift (h : Shift d s₁ s₂) (sp : Span) : spanBytes s₂ (shSpan d sp) = spanBytes s₁ sp := by
  have hsz := h.size
  simp only [spanBytes, shSpan]
  congr 1
  apply Array.ext_getElem?
  intro i
  simp only [Array.getElem?_extract]
  have e1 : min (sp.stop + d) s₂.size - (sp.start + d) = min sp.stop s₁.size - sp.start := by omega
  rw [e1, show sp.start + d + i = (sp.start + i) + d by omega, h.get]

theorem isCallee_shift (h : Shift d s₁ s₂) (sp : Span) : isCallee s₂ (shSpan d sp) = isCallee s₁ sp := by
  simp only [isCallee, spanBytes_shift h]

/-! ## numbers, identifiers -/

theorem getNumberLiteral_shift (h : Shift d s₁ s₂) (p : Nat) :
    getNumberLiteral s₂ (p + d) = shR (shSpan d) d (getNumberLiteral s₁ p) := by
  simp only [getNumberLiteral, takeByteIf_shift h]
  generalize takeByteIf s₁ p 45 = t
  obtain ⟨p1, m⟩ := t
  simp only [skipDigits_shift h]
  cases skipDigits s₁ p1 with
  | ok u p2 =>
    simp only [shR_ok, takeByteIf_shift h]
    generalize takeByteIf s₁ p2 46 = t
    obtain ⟨p3, dot⟩ := t
    simp only []
    cases dot with
    | true =>
      simp only [if_true, skipDigits_shift h]
      cases skipDigits s₁ p3 with
      | ok u p4 => simp only [shR_ok, slice_shift h]; cases slice s₁ p p4 <;> rfl
      | err e q => rfl
      | panic m => rfl
      | fuel => rfl
    | false =>
      simp only [Bool.false_eq_true, if_false, slice_shift h]
      cases slice s₁ p p3 <;> rfl
  | err e q => rfl
  | panic m => rfl
  | fuel => rfl

/-- all call sites have the cursor one past the first byte -/
theorem getIdentifierUnchecked_shift (h : Shift d s₁ s₂) (p : Nat) :
    getIdentifierUnchecked s₂ (p + 1 + d) = shR (shSpan d) d (getIdentifierUnchecked s₁ (p + 1)) := by
  have e1 : usub (p + 1 + d) 1 = some (p + d) := by simp only [usub]; rw [if_pos (by omega)]; congr 1; omega
  have e2 : usub (p + 1) 1 = some p := by simp only [usub]; rw [if_pos (by omega)]; congr 1
  simp only [getIdentifierUnchecked, scanWhile_shift h, e1, e2, slice_shift h]
  cases slice s₁ p (scanWhile s₁ isIdentByte (p + 1)) <;> rfl

theorem getIdentifier_shift (h : Shift d s₁ s₂) (p : Nat) :
    getIdentifier s₂ (p + d) = shR (shSpan d) d (getIdentifier s₁ p) := by
  simp only [getIdentifier, isIdentifierStart_shift h, sh1 d, getIdentifierUnchecked_shift h]
  split
  · simp only [shR_err, shErr_mkErr, shEK]
  · rfl

theorem getAttributeAccessor_shift (h : Shift d s₁ s₂) (p : Nat) :
    getAttributeAccessor s₂ (p + d) = shR (Option.map (shSpan d)) d (getAttributeAccessor s₁ p) := by
  simp only [getAttributeAccessor, takeByteIf_shift h]
  generalize takeByteIf s₁ p 46 = t
  obtain ⟨p1, dot⟩ := t
  simp only [getIdentifier_shift h]
  cases dot with
  | true =>
    simp only [if_true]
    cases getIdentifier s₁ p1 <;> rfl
  | false => rfl

/-! ## string literals -/

theorem nextBoundaryGo_shift (h : Shift d s₁ s₂) (n i : Nat) :
    nextBoundaryGo s₂ n (i + d) = nextBoundaryGo s₁ n i + d := by
  induction n generalizing i with
  | zero => rfl
  | succ n ih =>
    simp only [nextBoundaryGo, isBoundary_shift h, sh1 d, ih]
    split <;> rfl

theorem nextBoundary_shift (h : Shift d s₁ s₂) (i : Nat) : nextBoundary s₂ (i + d) = nextBoundary s₁ i + d := by
  simp only [nextBoundary, h.fuel, nextBoundaryGo_shift h]

theorem skipHexGo_shift (h : Shift d s₁ s₂) (n p : Nat) : skipHexGo s₂ n (p + d) = skipHexGo s₁ n p + d := by
  induction n generalizing p with
  | zero => rfl
  | succ n ih =>
    simp only [skipHexGo, h.get, sh1 d, ih]
    split
    · split <;> rfl
    · rfl

theorem skipUnicodeEscapeSequence_shift (h : Shift d s₁ s₂) (p len : Nat) :
    skipUnicodeEscapeSequence s₂ (p + d) len = shR id d (skipUnicodeEscapeSequence s₁ p len) := by
  simp only [skipUnicodeEscapeSequence, skipHexGo_shift h, h.ge, sh1 d, nextBoundary_shift h,
    show skipHexGo s₁ len p + d - (p + d) = skipHexGo s₁ len p - p from by omega]
  split
  · have e : (if skipHexGo s₁ len p ≥ s₁.size then skipHexGo s₁ len p + d else nextBoundary s₁ (skipHexGo s₁ len p + 1) + d)
        = (if skipHexGo s₁ len p ≥ s₁.size then skipHexGo s₁ len p else nextBoundary s₁ (skipHexGo s₁ len p + 1)) + d := by
      split <;> rfl
    rw [e, slice_shift h]
    cases slice s₁ p (if skipHexGo s₁ len p ≥ s₁.size then skipHexGo s₁ len p else nextBoundary s₁ (skipHexGo s₁ len p + 1)) with
    | none => rfl
    | some seq => simp only [Option.map_some, shR_err, shErr_mkErr, shEK]
  · rfl

theorem scanStringGo_shift (h : Shift d s₁ s₂) (n p : Nat) :
    scanStringGo s₂ n (p + d) = shR id d (scanStringGo s₁ n p) := by
  induction n generalizing p with
  | zero => rfl
  | succ n ih =>
    simp only [scanStringGo, h.get, sh1 d, sh2 d, ih, skipUnicodeEscapeSequence_shift h]
    split
    · rfl
    · split
      · rfl
      · rfl
      · cases skipUnicodeEscapeSequence s₁ (p + 2) 4 <;> simp only [shR_ok, shR_err, shR_panic, shR_fuel, ih]
      · cases skipUnicodeEscapeSequence s₁ (p + 2) 6 <;> simp only [shR_ok, shR_err, shR_panic, shR_fuel, ih]
      · simp only [shR_err, shErr_mkErr, shEK]
    · rfl
    · simp only [shR_err, shErr_mkErr, shEK]
    · rfl

theorem scanString_shift (h : Shift d s₁ s₂) (p : Nat) : scanString s₂ (p + d) = shR id d (scanString s₁ p) := by
  simp only [scanString, h.fuel, scanStringGo_shift h]

/-! ## pattern.rs -/

theorem memchr3Go_shift (h : Shift d s₁ s₂) (n p : Nat) :
    memchr3Go s₂ n (p + d) = (memchr3Go s₁ n p).map (· + d) := by
  induction n generalizing p with
  | zero => rfl
  | succ n ih =>
    simp only [memchr3Go, h.get, sh1 d, ih]
    split
    · rfl
    · split <;> rfl

theorem memchr3_shift (h : Shift d s₁ s₂) (p : Nat) : memchr3 s₂ (p + d) = (memchr3 s₁ p).map (· + d) := by
  simp only [memchr3, h.fuel, memchr3Go_shift h]

theorem nonBlankGo_shift (h : Shift d s₁ s₂) (n a b : Nat) :
    nonBlankGo s₂ n (a + d) (b + d) = nonBlankGo s₁ n a b := by
  induction n generalizing a with
  | zero => rfl
  | succ n ih =>
    simp only [nonBlankGo, h.get, sh1 d, ih, Nat.add_lt_add_iff_right]

theorem nonBlank_shift (h : Shift d s₁ s₂) (a b : Nat) : nonBlank s₂ (a + d) (b + d) = nonBlank s₁ a b := by
  simp only [nonBlank, nonBlankGo_shift h, show b + d - (a + d) = b - a from by omega]

/-- the value of `get_text_slice` moved by `d` -/
def shTS (d : Nat) (v : Nat × Nat × Bool × Termination) : Nat × Nat × Bool × Termination :=
  (v.1 + d, v.2.1 + d, v.2.2.1, v.2.2.2)

theorem getTextSlice_shift (h : Shift d s₁ s₂) (p : Nat) :
    getTextSlice s₂ (p + d) = shR (shTS d) d (getTextSlice s₁ p) := by
  simp only [getTextSlice, h.gt, memchr3_shift h]
  split
  · rfl
  · cases hm : memchr3 s₁ p with
    | none =>
      simp only [Option.map_none, h.size, nonBlank_shift h]
      rfl
    | some e =>
      have hpe : p ≤ e := memchr3Go_ge hm
      simp only [Option.map_some, h.get]
      split
      · simp only [shR_err, shErr_mkErr, shEK]
      · by_cases hgt : e > p
        · have e1 : e + d - 1 = (e - 1) + d := by omega
          have e2 : (e + d > p + d) = (e > p) := by apply propext; omega
          simp only [e1, e2, h.get, nonBlank_shift h, sh1 d]
          split <;> rfl
        · have e2 : ¬ (e + d > p + d) := by omega
          simp only [hgt, e2, false_and, if_false, sh1 d, nonBlank_shift h]
          rfl
      · simp only [nonBlank_shift h]; rfl
      · rfl

theorem getTextSlice_le {s : Src} {p start stop : Nat} {nb : Bool} {term : Termination} {q : Nat}
    (h : getTextSlice s p = .ok (start, stop, nb, term) q) : start ≤ stop := by
  unfold getTextSlice at h
  split at h
  · simp only [R.ok.injEq, Prod.mk.injEq] at h; omega
  · split at h
    · simp only [R.ok.injEq, Prod.mk.injEq] at h; omega
    · rename_i e he
      have := memchr3Go_ge he
      split at h
      · cases h
      · split at h <;> simp only [R.ok.injEq, Prod.mk.injEq] at h <;> omega
      · simp only [R.ok.injEq, Prod.mk.injEq] at h; omega
      · cases h

theorem trimEndGo_shift (h : Shift d s₁ s₂) (start n e : Nat) :
    trimEndGo s₂ (start + d) n (e + d) = trimEndGo s₁ start n e + d := by
  induction n generalizing e with
  | zero => rfl
  | succ n ih =>
    simp only [trimEndGo]
    by_cases hgt : e > start
    · have e1 : e + d - 1 = (e - 1) + d := by omega
      have e2 : (e + d > start + d) = (e > start) := by apply propext; omega
      simp only [e1, e2, h.get, ih, hgt, if_true]
      cases s₁[e - 1]? with
      | none => rfl
      | some b => simp only []; split <;> rfl
    · have e2 : ¬ (e + d > start + d) := by omega
      simp only [hgt, e2, if_false]

theorem trimEnd_shift (h : Shift d s₁ s₂) (sp : Span) : trimEnd s₂ (shSpan d sp) = shSpan d (trimEnd s₁ sp) := by
  simp only [trimEnd, shSpan, trimEndGo_shift h, show sp.stop + d - (sp.start + d) = sp.stop - sp.start from by omega]

/-- where the text of a placeholder starts once the common indent is removed (replica of the local `start'`) -/
def feStart (ci : Option Nat) (start indent : Nat) (role : TextPos) : Nat :=
  if role == .lineStart then
    match ci with
    | none => start + indent
    | some c => start + min indent c
  else start

theorem feStart_shift (d : Nat) (ci : Option Nat) (start indent : Nat) (role : TextPos) :
    feStart ci (start + d) indent role = feStart ci start indent role + d := by
  unfold feStart
  split
  · cases ci <;> simp only [] <;> omega
  · rfl

theorem finishElements_text_sh (s : Src) (ci : Option Nat) (lnb i : Nat) (start stop indent : Nat) (role : TextPos)
    (rest : List Placeholder) :
    finishElements s ci lnb i (.text start stop indent role :: rest) =
      if i > lnb then some [] else
      if feStart ci start indent role == stop then finishElements s ci lnb (i + 1) rest
      else match slice s (feStart ci start indent role) stop with
        | none => none
        | some sp =>
          (finishElements s ci lnb (i + 1) rest).map (PatElem.text (if lnb == i then trimEnd s sp else sp) :: ·) := by
  simp only [finishElements]; rfl

theorem finishElements_shift (h : Shift d s₁ s₂) (ci : Option Nat) (lnb : Nat) (i : Nat) (els : List Placeholder) :
    finishElements s₂ ci lnb i (els.map (shPh d)) = (finishElements s₁ ci lnb i els).map (mapPat (shSpan d)) := by
  induction els generalizing i with
  | nil => simp only [List.map_nil, finishElements, Option.map_some, mapPat]
  | cons ph rest ih =>
    cases ph with
    | placeable e =>
      simp only [List.map_cons, shPh, finishElements, ih, Option.map_map]
      split
      · simp only [Option.map_some, mapPat]
      · cases finishElements s₁ ci lnb (i + 1) rest <;> simp [mapPat, PatElem.mapS]
    | text start stop indent role =>
      simp only [List.map_cons, shPh, finishElements_text_sh, feStart_shift, ih, slice_shift h]
      generalize feStart ci start indent role = st'
      have e2 : (st' + d == stop + d) = (st' == stop) := by
        rw [Bool.eq_iff_iff]; simp only [beq_iff_eq]; omega
      rw [e2]
      split
      · simp only [Option.map_some, mapPat]
      · split
        · rfl
        · cases slice s₁ st' stop with
          | none => rfl
          | some sp =>
            simp only [Option.map_some, Option.map_map]
            have e3 : (if (lnb == i) = true then trimEnd s₂ (shSpan d sp) else shSpan d sp) =
                shSpan d (if (lnb == i) = true then trimEnd s₁ sp else sp) := by
              split
              · exact trimEnd_shift h sp
              · rfl
            rw [e3]
            cases finishElements s₁ ci lnb (i + 1) rest <;> simp [mapPat, PatElem.mapS]

/-! ## comment.rs -/

theorem getCommentLevel_shift (h : Shift d s₁ s₂) (p : Nat) :
    getCommentLevel s₂ (p + d) = ((getCommentLevel s₁ p).1, (getCommentLevel s₁ p).2 + d) := by
  simp only [getCommentLevel, sh1 d, sh2 d, sh3 d, isCurrentByte_shift h]
  split
  · split
    · split <;> rfl
    · rfl
  · rfl

theorem commentLineEndGo_shift (h : Shift d s₁ s₂) (n p : Nat) :
    commentLineEndGo s₂ n (p + d) = commentLineEndGo s₁ n p + d := by
  induction n generalizing p with
  | zero => rfl
  | succ n ih =>
    simp only [commentLineEndGo, isEol_shift h, sh1 d, ih]
    split <;> rfl

theorem commentLineEndGo_le (s : Src) (n p : Nat) : p ≤ commentLineEndGo s n p := by
  induction n generalizing p with
  | zero => exact Nat.le_refl _
  | succ n ih =>
    simp only [commentLineEndGo]
    split
    · exact Nat.le_refl _
    · have := ih (p + 1); omega

theorem getCommentLine_shift (h : Shift d s₁ s₂) (p : Nat) :
    getCommentLine s₂ (p + d) = shR (shSpan d) d (getCommentLine s₁ p) := by
  simp only [getCommentLine, h.fuel, commentLineEndGo_shift h, slice_shift h]
  cases slice s₁ p (commentLineEndGo s₁ (s₁.size - p) p) <;> rfl

theorem getCommentLine_ok_le {s : Src} {p : Nat} {line : Span} {q : Nat} (h : getCommentLine s p = .ok line q) : p ≤ q := by
  unfold getCommentLine at h
  simp only [] at h
  split at h
  · simp only [R.ok.injEq] at h
    have := commentLineEndGo_le s (s.size - p) p
    omega
  · cases h

/-- the value of `get_comment` moved by `d` -/
def shCm (d : Nat) (r : List Span × Nat) : List Span × Nat := (r.1.map (shSpan d), r.2)

theorem skipEol_getD_shift (h : Shift d s₁ s₂) (q : Nat) :
    (skipEol s₂ (q + d)).getD (q + d) = (skipEol s₁ q).getD q + d := by
  rw [skipEol_shift h]; cases skipEol s₁ q <;> rfl

theorem skipEol_getD_ge (s : Src) (q : Nat) : q ≤ (skipEol s q).getD q := by
  cases hE : skipEol s q with
  | none => exact Nat.le_refl _
  | some q' => have := (skipEol_some hE).1; simp only [Option.getD_some]; omega

/-- `get_comment`'s loop.  The loop looks *before* the cursor (`ptr -= 1` on a line that is not a comment), so at
`p = 0` the byte at the cursor has to be a `#` (as it is when `get_entry` calls `get_comment`). -/
theorem getCommentGo_shift (h : Shift d s₁ s₂) (n level : Nat) (content : List Span) (p : Nat)
    (hp : 0 < p ∨ s₁[p]? = some 35) :
    getCommentGo s₂ n level (content.map (shSpan d)) (p + d) = shR (shCm d) d (getCommentGo s₁ n level content p) := by
  induction n generalizing level content p with
  | zero => rfl
  | succ n ih =>
    -- the two `get_comment_line` arms
    have step : ∀ l p2, 0 < p2 →
        (match getCommentLine s₂ (p2 + d) with
          | .ok line q => getCommentGo s₂ n l (content.map (shSpan d) ++ [line]) ((skipEol s₂ q).getD q)
          | .err e q => .err e q
          | .panic m => .panic m
          | .fuel => .fuel) =
        shR (shCm d) d
          (match getCommentLine s₁ p2 with
          | .ok line q => getCommentGo s₁ n l (content ++ [line]) ((skipEol s₁ q).getD q)
          | .err e q => .err e q
          | .panic m => .panic m
          | .fuel => .fuel) := by
      intro l p2 hp2
      rw [getCommentLine_shift h]
      cases hL : getCommentLine s₁ p2 with
      | ok line q =>
        have h1 := getCommentLine_ok_le hL
        have h2 := skipEol_getD_ge s₁ q
        simp only [shR_ok, skipEol_getD_shift h]
        rw [← ih l (content ++ [line]) _ (Or.inl (by omega)), List.map_append, List.map_cons, List.map_nil]
      | err e q => rfl
      | panic m => rfl
      | fuel => rfl
    simp only [getCommentGo, h.lt, getCommentLevel_shift h]
    split
    · rcases getCommentLevel_cases s₁ p with ⟨hl, h35⟩ | ⟨l, hl1, hl3, hl, h35, h35'⟩ <;> rw [hl] <;> simp only []
      · have hp0 : 0 < p := by
          rcases hp with hp | hp
          · exact hp
          · exact (h35 hp).elim
        have e1 : usub (p + d) 1 = some (p - 1 + d) := by
          simp only [usub]; rw [if_pos (by omega)]; congr 1; omega
        have e2 : usub p 1 = some (p - 1) := by
          simp only [usub]; rw [if_pos (by omega)]
        simp only [beq_self_eq_true, if_true, e1, e2]
        rfl
      · have hl0 : (l == 0) = false := by simp only [beq_eq_false_iff_ne]; omega
        have e1 : usub (p + l + d) l = some (p + d) := by
          simp only [usub]; rw [if_pos (by omega)]; congr 1; omega
        have e2 : usub (p + l) l = some p := by
          simp only [usub]; rw [if_pos (by omega)]; congr 1; omega
        simp only [hl0, Bool.false_eq_true, if_false, e1, e2, isEol_shift h]
        split
        · rfl
        · split
          · exact step l (p + l) (by omega)
          · unfold expectByte
            simp only [isCurrentByte_shift h]
            by_cases hc : isCurrentByte s₁ (p + l) 32 = true
            · simp only [hc, if_true, sh1 d]
              exact step l (p + l + 1) (by omega)
            · simp only [hc, Bool.false_eq_true, if_false, List.isEmpty_map]
              split
              · simp only [shR_err, shErr_mkErr, shEK]
              · rfl
    · rfl

theorem getComment_shift (h : Shift d s₁ s₂) (p : Nat) (hp : s₁[p]? = some 35) :
    getComment s₂ (p + d) = shR (shCm d) d (getComment s₁ p) := by
  have := getCommentGo_shift h (s₁.size - p + 1) 0 [] p (Or.inr hp)
  simpa only [getComment, h.fuel1, List.map_nil] using this

theorem skipCommentGo_shift (h : Shift d s₁ s₂) (n p : Nat) : skipCommentGo s₂ n (p + d) = skipCommentGo s₁ n p + d := by
  induction n generalizing p with
  | zero => rfl
  | succ n ih =>
    simp only [skipCommentGo, h.fuel, commentLineEndGo_shift h, sh1 d, isCurrentByte_shift h, ih]
    split <;> rfl

theorem skipComment_shift (h : Shift d s₁ s₂) (p : Nat) : skipComment s₂ (p + d) = skipComment s₁ p + d := by
  simp only [skipComment, h.fuel1, skipCommentGo_shift h]

/-! ## junk recovery -/

theorem rposNewlineGo_shift (h : Shift d s₁ s₂) (a n b : Nat) :
    rposNewlineGo s₂ (a + d) n (b + d) = (rposNewlineGo s₁ a n b).map (· + d) := by
  induction n generalizing b with
  | zero => rfl
  | succ n ih =>
    simp only [rposNewlineGo]
    by_cases hgt : b > a
    · have e1 : b + d - 1 = (b - 1) + d := by omega
      have e2 : (b + d > a + d) = (b > a) := by apply propext; omega
      simp only [e1, e2, hgt, if_true, h.get, ih]
      split <;> rfl
    · have e2 : ¬ (b + d > a + d) := by omega
      simp only [hgt, e2, if_false, Option.map_none]

theorem rposNewline_shift (h : Shift d s₁ s₂) (a b : Nat) :
    rposNewline s₂ (a + d) (b + d) = (rposNewline s₁ a b).map (· + d) := by
  simp only [rposNewline, rposNewlineGo_shift h, show b + d - (a + d) = b - a from by omega]

theorem skipToNextEntryStartGo_shift (h : Shift d s₁ s₂) (n p : Nat) :
    skipToNextEntryStartGo s₂ n (p + d) = skipToNextEntryStartGo s₁ n p + d := by
  induction n generalizing p with
  | zero => rfl
  | succ n ih =>
    simp only [skipToNextEntryStartGo, h.get, sh1 d, ih]
    have enl : (p + d == 0 || s₂[p + d - 1]? == some 10) = (p == 0 || s₁[p - 1]? == some 10) := by
      by_cases hp : p = 0
      · subst hp
        simp only [Nat.zero_add, beq_self_eq_true, Bool.true_or]
        rcases h.nl with h0 | h0
        · subst h0; rfl
        · rw [h0]; simp
      · have e1 : (p + d == 0) = (p == 0) := by
          rw [Bool.eq_iff_iff]; simp only [beq_iff_eq]; omega
        rw [e1, h.get_pred (by omega)]
    rw [enl]
    cases s₁[p]? with
    | none => rfl
    | some b => simp only []; split <;> rfl

theorem skipToNextEntryStart_shift (h : Shift d s₁ s₂) (es q : Nat) :
    skipToNextEntryStart s₂ (es + d) (q + d) = (skipToNextEntryStart s₁ es q).map (· + d) := by
  have hsz := h.size
  have e1 : min (q + d) s₂.size = min q s₁.size + d := by omega
  simp only [skipToNextEntryStart, e1, rposNewline_shift h, Nat.add_le_add_iff_right]
  split
  · cases rposNewline s₁ es (min q s₁.size) with
    | none => simp only [Option.map_none, Option.map_some, h.fuel, skipToNextEntryStartGo_shift h]
    | some nl => simp only [Option.map_some, sh1 d, h.fuel, skipToNextEntryStartGo_shift h]
  · rfl

theorem clampErr_shift (d : Nat) (e : PErr) (q : Nat) : clampErr (shErr d e) (q + d) = shErr d (clampErr e q) := by
  simp only [clampErr, shErr, Nat.add_lt_add_iff_right]
  split
  · simp only [sh1 d]
  · rfl

end
end FluentProofs.Parser
